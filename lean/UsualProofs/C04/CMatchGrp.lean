import UsualProofs.C04.CMatchFrag
/-! Helper lemmas for C04: the matcher model on op lists with *plain groups* (count exactly one:
capture groups and alternation inside a concatenation), nested arbitrarily.  Generalises the
search lemmas of `CMatchFrag.lean`: frames are pushed and popped, `match_gend` continues with the
parent's AND-list. -/
set_option linter.unusedSimpArgs false
set_option linter.unusedVariables false
namespace Usual.C04.CM
open Usual.C04

/-! ## well-formed op lists and their declarative reading -/

/-- op lists made of simple ops and plain groups; every group number exceeds the number `n` of
the enclosing group (numbering in open-parenthesis order) -/
inductive WF : Nat → List COp → Prop
  | nil (n : Nat) : WF n []
  | simple {n : Nat} {op : COp} {rest : List COp} : Simple op = true → WF n rest → WF n (op :: rest)
  | grp {n gno : Nat} {alts : List (List COp)} {rest : List COp} :
      n < gno → (∀ a, a ∈ alts → WF gno a) → WF n rest → WF n (.group gno alts 1 1 :: rest)

/-- declarative reading: an AND-list matches `[str, j)`; a plain group is the choice of one of
its alternatives followed by the rest -/
inductive OM (e : Env) : List COp → Nat → Nat → Prop
  | nil (str : Nat) : OM e [] str str
  | chr {c : UInt8} {mn mx k str j : Nat} {rest : List COp} : mn ≤ k →
      k ≤ countWhile e (fun b => chrOk e c b) (e.s.size + 1) str (simpleMax mx) 0 →
      OM e rest (str + k) j → OM e (.chr c mn mx :: rest) str j
  | any {mn mx k str j : Nat} {rest : List COp} : mn ≤ k →
      k ≤ countWhile e (fun b => anyOk e b) (e.s.size + 1) str (simpleMax mx) 0 →
      OM e rest (str + k) j → OM e (.any mn mx :: rest) str j
  | cls {bm mn mx k str j : Nat} {rest : List COp} : mn ≤ k →
      k ≤ countWhile e (fun b => clsOk bm b) (e.s.size + 1) str (simpleMax mx) 0 →
      OM e rest (str + k) j → OM e (.cls bm mn mx :: rest) str j
  | bol {str j : Nat} {rest : List COp} : bolOk e str = true → OM e rest str j → OM e (.bol :: rest) str j
  | eol {str j : Nat} {rest : List COp} : eolOk e str = true → OM e rest str j → OM e (.eol :: rest) str j
  | grp {gno : Nat} {alts : List (List COp)} {a : List COp} {rest : List COp} {str j : Nat} :
      a ∈ alts → OM e (a ++ rest) str j → OM e (.group gno alts 1 1 :: rest) str j

theorem OM.nil_iff {e : Env} {str j : Nat} : OM e [] str j ↔ j = str := by
  constructor
  · intro h; cases h; rfl
  · rintro rfl; exact OM.nil _

theorem OM.chr_iff {e : Env} {c : UInt8} {mn mx str j : Nat} {rest : List COp} :
    OM e (.chr c mn mx :: rest) str j ↔
      ∃ k, mn ≤ k ∧ k ≤ countWhile e (fun b => chrOk e c b) (e.s.size + 1) str (simpleMax mx) 0 ∧ OM e rest (str + k) j := by
  constructor
  · intro h; cases h with | chr h1 h2 h3 => exact ⟨_, h1, h2, h3⟩
  · rintro ⟨k, h1, h2, h3⟩; exact OM.chr h1 h2 h3

theorem OM.any_iff {e : Env} {mn mx str j : Nat} {rest : List COp} :
    OM e (.any mn mx :: rest) str j ↔
      ∃ k, mn ≤ k ∧ k ≤ countWhile e (fun b => anyOk e b) (e.s.size + 1) str (simpleMax mx) 0 ∧ OM e rest (str + k) j := by
  constructor
  · intro h; cases h with | any h1 h2 h3 => exact ⟨_, h1, h2, h3⟩
  · rintro ⟨k, h1, h2, h3⟩; exact OM.any h1 h2 h3

theorem OM.cls_iff {e : Env} {bm mn mx str j : Nat} {rest : List COp} :
    OM e (.cls bm mn mx :: rest) str j ↔
      ∃ k, mn ≤ k ∧ k ≤ countWhile e (fun b => clsOk bm b) (e.s.size + 1) str (simpleMax mx) 0 ∧ OM e rest (str + k) j := by
  constructor
  · intro h; cases h with | cls h1 h2 h3 => exact ⟨_, h1, h2, h3⟩
  · rintro ⟨k, h1, h2, h3⟩; exact OM.cls h1 h2 h3

theorem OM.bol_iff {e : Env} {str j : Nat} {rest : List COp} :
    OM e (.bol :: rest) str j ↔ bolOk e str = true ∧ OM e rest str j := by
  constructor
  · intro h; cases h with | bol h1 h2 => exact ⟨h1, h2⟩
  · rintro ⟨h1, h2⟩; exact OM.bol h1 h2

theorem OM.eol_iff {e : Env} {str j : Nat} {rest : List COp} :
    OM e (.eol :: rest) str j ↔ eolOk e str = true ∧ OM e rest str j := by
  constructor
  · intro h; cases h with | eol h1 h2 => exact ⟨h1, h2⟩
  · rintro ⟨h1, h2⟩; exact OM.eol h1 h2

theorem OM.grp_iff {e : Env} {gno : Nat} {alts : List (List COp)} {rest : List COp} {str j : Nat} :
    OM e (.group gno alts 1 1 :: rest) str j ↔ ∃ a, a ∈ alts ∧ OM e (a ++ rest) str j := by
  constructor
  · intro h; cases h with | grp h1 h2 => exact ⟨_, h1, h2⟩
  · rintro ⟨a, h1, h2⟩; exact OM.grp h1 h2

/-! ## what a search may change: frames only grow, existing frames keep their shape -/

structure Ext (st st' : St) : Prop where
  size : st.frames.size ≤ st'.frames.size
  feq : ∀ k, k < st.frames.size → FrameEq (st.fr k) (st'.fr k)
  ssz : st'.stacks.size = st.stacks.size
  stk0 : st'.stacks[0]! = st.stacks[0]!
  psize : st'.pm.size = st.pm.size

theorem Ext.refl (st : St) : Ext st st := ⟨Nat.le_refl _, fun _ _ => FrameEq.refl _, rfl, rfl, rfl⟩

theorem Ext.trans {a b c : St} (h1 : Ext a b) (h2 : Ext b c) : Ext a c :=
  ⟨Nat.le_trans h1.size h2.size, fun k hk => (h1.feq k hk).trans (h2.feq k (Nat.lt_of_lt_of_le hk h1.size)),
   h2.ssz.trans h1.ssz, h2.stk0.trans h1.stk0, h2.psize.trans h1.psize⟩

theorem Keeps.ext {a b : St} (h : Keeps a b) : Ext a b :=
  ⟨Nat.le_of_eq h.size.symm, fun k _ => h.feq k, by rw [h.stacks], by rw [h.stacks], h.psize⟩

/-- like `Post`, with `Ext` instead of `SameG` -/
structure Post2 (cx : Cx) (J : St → Prop) (P : Nat → Prop) (got : Bool) (st : St) (err : Nat) (st' : St) : Prop where
  same : Ext st st'
  code : err = 0 ∨ err = NOMATCH
  ok : err = 0 ↔ (got = true ∨ ∃ j, P j)
  mono : ∀ le, st.lastEnd = some le → ∃ le', st'.lastEnd = some le' ∧ le ≤ le'
  upper : cx.strict = true → ∀ j, P j → ∃ le', st'.lastEnd = some le' ∧ j ≤ le'
  attained : st'.lastEnd = st.lastEnd ∨ ∃ j, P j ∧ st'.lastEnd = some j
  keepJ : J st → J st'

theorem Post2.congr {cx : Cx} {J : St → Prop} {P Q : Nat → Prop} {got st err st'} (h : ∀ j, P j ↔ Q j)
    (p : Post2 cx J P got st err st') : Post2 cx J Q got st err st' :=
  ⟨p.same, p.code, by rw [p.ok]; simp only [h], p.mono, fun hs j hj => p.upper hs j ((h j).mpr hj),
   by rcases p.attained with h1 | ⟨j, hj, h2⟩
      · exact Or.inl h1
      · exact Or.inr ⟨j, (h j).mp hj, h2⟩, p.keepJ⟩

theorem Post2.none {cx : Cx} {J : St → Prop} {P : Nat → Prop} (st : St) (hP : ∀ j, ¬ P j) :
    Post2 cx J P false st NOMATCH st :=
  ⟨Ext.refl st, Or.inr rfl, by simp [NOMATCH]; exact fun j => hP j, fun le h => ⟨le, h, Nat.le_refl _⟩,
   fun _ j hj => absurd hj (hP j), Or.inl rfl, fun h => h⟩

theorem Post2.seq {cx : Cx} {J : St → Prop} {P1 P2 : Nat → Prop} {g1 : Bool} {st st1 st2 : St} {e1 e2 : Nat}
    (p1 : Post2 cx J P1 g1 st e1 st1) (p2 : Post2 cx J P2 (g1 || decide (e1 = 0)) st1 e2 st2) :
    Post2 cx J (fun j => P1 j ∨ P2 j) g1 st e2 st2 := by
  refine ⟨p1.same.trans p2.same, p2.code, ?_, ?_, ?_, ?_, fun h => p2.keepJ (p1.keepJ h)⟩
  · rw [p2.ok]
    simp only [Bool.or_eq_true, decide_eq_true_eq]
    rw [p1.ok]
    constructor
    · rintro ((h | h | ⟨j, hj⟩) | ⟨j, hj⟩)
      · exact Or.inl h
      · exact Or.inl h
      · exact Or.inr ⟨j, Or.inl hj⟩
      · exact Or.inr ⟨j, Or.inr hj⟩
    · rintro (h | ⟨j, hj | hj⟩)
      · exact Or.inl (Or.inl h)
      · exact Or.inl (Or.inr (Or.inr ⟨j, hj⟩))
      · exact Or.inr ⟨j, hj⟩
  · intro le h
    obtain ⟨l1, h1, h1'⟩ := p1.mono le h
    obtain ⟨l2, h2, h2'⟩ := p2.mono l1 h1
    exact ⟨l2, h2, by omega⟩
  · intro hs j hj
    rcases hj with hj | hj
    · obtain ⟨l1, h1, h1'⟩ := p1.upper hs j hj
      obtain ⟨l2, h2, h2'⟩ := p2.mono l1 h1
      exact ⟨l2, h2, by omega⟩
    · exact p2.upper hs j hj
  · rcases p2.attained with h2 | ⟨j, hj, h2⟩
    · rcases p1.attained with h1 | ⟨j, hj, h1⟩
      · exact Or.inl (h2.trans h1)
      · exact Or.inr ⟨j, Or.inl hj, h2.trans h1⟩
    · exact Or.inr ⟨j, Or.inr hj, h2⟩

/-- prepend a bookkeeping step `st → st0` that does not touch `last_endpos` -/
theorem Post2.pre {cx : Cx} {J : St → Prop} {P : Nat → Prop} {got : Bool} {st st0 : St} {err : Nat} {st' : St}
    (hs : Ext st st0) (hl : st0.lastEnd = st.lastEnd) (hJ : J st → J st0) (p : Post2 cx J P got st0 err st') :
    Post2 cx J P got st err st' :=
  ⟨hs.trans p.same, p.code, p.ok, fun le h => p.mono le (hl.trans h), p.upper,
   by rcases p.attained with h | h
      · exact Or.inl (h.trans hl)
      · exact Or.inr h, fun h => p.keepJ (hJ h)⟩

/-- append a bookkeeping step `st1 → st'` that does not touch `last_endpos` -/
theorem Post2.post {cx : Cx} {J : St → Prop} {P : Nat → Prop} {got : Bool} {st st1 : St} {err : Nat} {st' : St}
    (p : Post2 cx J P got st err st1) (hs : Ext st1 st') (hl : st'.lastEnd = st1.lastEnd) (hJ : J st1 → J st') :
    Post2 cx J P got st err st' :=
  ⟨p.same.trans hs, p.code, p.ok, fun le h => by rw [hl]; exact p.mono le h,
   fun hs' j hj => by rw [hl]; exact p.upper hs' j hj,
   by rw [hl]; exact p.attained, fun h => hJ (p.keepJ h)⟩

theorem SameG.ext {a b : St} (h : SameG a b) : Ext a b :=
  ⟨Nat.le_of_eq h.size.symm, fun k _ => h.feq k, by rw [h.stacks], by rw [h.stacks], h.psize⟩

theorem Post.toPost2 {cx : Cx} {J : St → Prop} {P : Nat → Prop} {got : Bool} {st : St} {err : Nat} {st' : St}
    (p : Post cx J P got st err st') : Post2 cx J P got st err st' :=
  ⟨p.same.ext, p.code, p.ok, p.mono, p.upper, p.attained, p.keepJ⟩

/-! ## the frame chain above the current AND-list -/

/-- the frames from `g` up to the frame `g0` of group #0 are plain groups in their first
iteration; `K` is what remains to be matched after the current AND-list: the `next` lists up the
chain -/
inductive Chain (g0 : Nat) (st : St) : Nat → List COp → Prop
  | root : g0 < st.frames.size → (st.fr g0).gno = 0 → Chain g0 st g0 []
  | nest {g p : Nat} {K : List COp} : g < st.frames.size → (st.fr g).gno ≠ 0 → (st.fr g).min = 1 →
      (st.fr g).max = 1 → (st.fr g).count = 0 → (st.fr g).parent = some p →
      WF (st.fr p).gno (st.fr g).next → Chain g0 st p K → Chain g0 st g ((st.fr g).next ++ K)

theorem Chain.lt {g0 : Nat} {st : St} {g : Nat} {K : List COp} (h : Chain g0 st g K) : g < st.frames.size := by
  cases h with
  | root h1 _ => exact h1
  | nest h1 => exact h1

theorem Chain.ext {g0 : Nat} {st st' : St} {g : Nat} {K : List COp} (h : Chain g0 st g K) (he : Ext st st') :
    Chain g0 st' g K := by
  induction h with
  | root h1 h2 =>
    exact Chain.root (Nat.lt_of_lt_of_le h1 he.size) (by rw [(he.feq _ h1).gno]; exact h2)
  | @nest g p K h1 h2 h3 h4 h5 h6 h7 h8 ih =>
    have fe := he.feq g h1
    have hp : p < st.frames.size := h8.lt
    have fp := he.feq p hp
    have := Chain.nest (g0 := g0) (st := st') (g := g) (p := p) (K := K) (Nat.lt_of_lt_of_le h1 he.size)
      (by rw [fe.gno]; exact h2) (by rw [fe.min]; exact h3) (by rw [fe.max]; exact h4) (by rw [fe.count]; exact h5)
      (by rw [fe.parent]; exact h6) (by rw [fp.gno, fe.next]; exact h7) ih
    rw [fe.next] at this
    exact this

/-- what the caller-chosen invariant must survive -/
structure JOk (cx : Cx) (g0 : Nat) (J : St → Prop) : Prop where
  budget : ∀ st : St, J st → J { st with budget := st.budget - 1 }
  full : ∀ str st e st', gotFull cx str g0 st = (e, st') → J st → J st'
  setEnd : ∀ (st : St) (k : Nat) (en : Option Nat), J st → J (st.setFr k { st.fr k with end_ := en })
  push : ∀ (st : St) (fr : Frame) (gno : Nat), gno ≠ 0 → J st →
    J { st with frames := st.frames.push fr, stacks := st.stacks.set! gno (some st.frames.size) }
  pop : ∀ (st : St) (gno : Nat) (v : Option Nat), gno ≠ 0 → J st → J { st with stacks := st.stacks.set! gno v }

/-! ## pushing and popping a frame -/

theorem fr_push_lt (st : St) (fr : Frame) (stk : Array (Option Nat)) (k : Nat) (hk : k < st.frames.size) :
    ({ st with frames := st.frames.push fr, stacks := stk } : St).fr k = st.fr k := by
  simp only [St.fr]
  have hne : k ≠ st.frames.size := by omega
  simp [Array.getElem!_eq_getD, Array.getD_eq_getD_getElem?, Array.getElem?_push, hk, hne]

theorem fr_push_new (st : St) (fr : Frame) (stk : Array (Option Nat)) :
    ({ st with frames := st.frames.push fr, stacks := stk } : St).fr st.frames.size = fr := by
  simp [St.fr]

theorem ext_push (st : St) (fr : Frame) (gno : Nat) (hg : gno ≠ 0) :
    Ext st { st with frames := st.frames.push fr, stacks := st.stacks.set! gno (some st.frames.size) } := by
  refine ⟨by simp, ?_, by simp, ?_, rfl⟩
  · intro k hk
    rw [fr_push_lt st fr _ k hk]
    exact FrameEq.refl _
  · simp [Array.getElem!_eq_getD, Array.getD_eq_getD_getElem?, Array.getElem?_setIfInBounds, hg]

theorem ext_pop (st : St) (gno : Nat) (v : Option Nat) (hg : gno ≠ 0) :
    Ext st { st with stacks := st.stacks.set! gno v } := by
  refine ⟨Nat.le_refl _, fun _ _ => FrameEq.refl _, by simp, ?_, rfl⟩
  simp [Array.getElem!_eq_getD, Array.getD_eq_getD_getElem?, Array.getElem?_setIfInBounds, hg]

theorem ext_budget (st : St) (b : Nat) : Ext st { st with budget := b } :=
  ⟨Nat.le_refl _, fun _ _ => FrameEq.refl _, rfl, rfl, rfl⟩

theorem good_of_final {got : Bool} {e : Nat}
    (hg : Good (if got = true ∧ e ≠ OUT_OF_BUDGET ∧ e ≠ OUT_OF_FUEL then 0 else e)) : Good e := by
  constructor
  · intro h98
    rw [h98] at hg
    simp [OUT_OF_BUDGET] at hg
    exact hg.1 (by simp [OUT_OF_BUDGET])
  · intro h99
    rw [h99] at hg
    simp [OUT_OF_FUEL] at hg
    exact hg.2 (by simp [OUT_OF_FUEL])

theorem final_eq {got : Bool} {e : Nat} (hg : Good e) :
    (if got = true ∧ e ≠ OUT_OF_BUDGET ∧ e ≠ OUT_OF_FUEL then 0 else e) = (if got then 0 else e) := by
  cases got <;> simp [hg.1, hg.2]

theorem WF.tail {n : Nat} {op : COp} {rest : List COp} (h : WF n (op :: rest)) : WF n rest := by
  cases h with
  | simple _ h2 => exact h2
  | grp _ _ h3 => exact h3

/-! ## the search functions with plain groups, by simultaneous induction on the fuel -/

theorem coreG (cx : Cx) (J : St → Prop) (g0 : Nat) (hJ : JOk cx g0 J) : ∀ f : Nat,
    -- do_match
    (∀ ops str g K st err st', WF (st.fr g).gno ops → Chain g0 st g K →
        doOps cx f ops str (some g) st = (err, st') → Good err →
        Post2 cx J (OM cx.env (ops ++ K) str) false st err st') ∧
    -- scan_next
    (∀ rest str g K cur mn st err st', WF (st.fr g).gno rest → Chain g0 st g K → cur ≤ str →
        scanNext cx f rest str (some g) cur mn st = (err, st') → Good err →
        Post2 cx J (fun j => ∃ k, mn ≤ k ∧ k ≤ cur ∧ OM cx.env (rest ++ K) (str - cur + k) j) false st err st') ∧
    -- its back-off loop
    (∀ rest str g K cur mn got st err st', WF (st.fr g).gno rest → Chain g0 st g K → mn ≤ cur → cur ≤ str →
        (got = true → cx.strict = true) →
        scanLoop cx f rest str (some g) cur mn got st = (err, st') → Good err →
        Post2 cx J (fun j => ∃ k, mn ≤ k ∧ k ≤ cur ∧ OM cx.env (rest ++ K) (str - cur + k) j) got st err st') ∧
    -- match_group for a plain group entered from the AND-list of frame `g`
    (∀ gno alts rest str g K st err st', (st.fr g).gno < gno → (∀ a, a ∈ alts → WF gno a) →
        WF (st.fr g).gno rest → Chain g0 st g K →
        matchGroup cx f gno alts 1 1 rest str (some g) st = (err, st') → Good err →
        Post2 cx J (fun j => ∃ a, a ∈ alts ∧ OM cx.env (a ++ (rest ++ K)) str j) false st err st') ∧
    -- the OR-list loop for frame `id`
    (∀ alts str id K err0 got st err got' st', (∀ a, a ∈ alts → WF (st.fr id).gno a) → Chain g0 st id K →
        (got = true → cx.strict = true) → (err0 = NOMATCH ∨ (err0 = 0 ∧ got = true)) →
        altLoop cx f alts str id err0 got st = (err, got', st') → Good err →
        Post2 cx J (fun j => ∃ a, a ∈ alts ∧ OM cx.env (a ++ K) str j) got st (if got' then 0 else err) st') ∧
    -- match_gend of a plain group
    (∀ str g K st err st', Chain g0 st g K → (st.fr g).gno ≠ 0 →
        matchGend cx f str g st = (err, st') → Good err →
        Post2 cx J (OM cx.env K str) false st err st') := by
  intro f
  induction f with
  | zero =>
    refine ⟨?_, ?_, ?_, ?_, ?_, ?_⟩
    · intro ops str g K st err st' _ _ h hg
      simp only [doOps] at h
      obtain ⟨rfl, _⟩ := Prod.mk.inj h
      exact absurd rfl hg.2
    · intro rest str g K cur mn st err st' _ _ _ h hg
      simp only [scanNext] at h
      obtain ⟨rfl, _⟩ := Prod.mk.inj h
      exact absurd rfl hg.2
    · intro rest str g K cur mn got st err st' _ _ _ _ _ h hg
      simp only [scanLoop] at h
      obtain ⟨rfl, _⟩ := Prod.mk.inj h
      exact absurd rfl hg.2
    · intro gno alts rest str g K st err st' _ _ _ _ h hg
      simp only [matchGroup] at h
      obtain ⟨rfl, _⟩ := Prod.mk.inj h
      exact absurd rfl hg.2
    · intro alts str id K err0 got st err got' st' _ _ _ _ h hg
      simp only [altLoop] at h
      obtain ⟨rfl, _⟩ := Prod.mk.inj h
      exact absurd rfl hg.2
    · intro str g K st err st' _ _ h hg
      simp only [matchGend] at h
      obtain ⟨rfl, _⟩ := Prod.mk.inj h
      exact absurd rfl hg.2
  | succ f ih =>
    obtain ⟨ihd, ihn, ihs, ihg, iha, ihe⟩ := ih
    refine ⟨?_, ?_, ?_, ?_, ?_, ?_⟩
    · -- doOps
      intro ops str g K st err st' hwf hch h hg
      simp only [doOps] at h
      by_cases hb : st.budget = 0
      · rw [if_pos hb] at h
        obtain ⟨rfl, _⟩ := Prod.mk.inj h
        exact absurd rfl hg.1
      · rw [if_neg hb] at h
        obtain ⟨st0, hst0⟩ : ∃ st0 : St, st0 = { st with budget := st.budget - 1 } := ⟨_, rfl⟩
        rw [← hst0] at h
        have he0 : Ext st st0 := by rw [hst0]; exact ext_budget st _
        have hch0 : Chain g0 st0 g K := hch.ext he0
        have hfr0 : ∀ k, st0.fr k = st.fr k := by intro k; rw [hst0]; rfl
        refine Post2.pre he0 (by rw [hst0]) (by rw [hst0]; exact hJ.budget st) ?_
        cases ops with
        | nil =>
          simp only [List.nil_append]
          cases hch0 with
          | root h1 h2 =>
            rw [if_pos h2] at h
            exact Post2.congr (fun j => OM.nil_iff.symm)
              (post_gotFull cx J g0 str st0 err st' hJ.full h).toPost2
          | nest h1 h2 h3 h4 h5 h6 h7 h8 =>
            rw [if_neg h2] at h
            exact ihe str g _ st0 err st' (Chain.nest h1 h2 h3 h4 h5 h6 h7 h8) h2 h hg
        | cons op rest =>
          have hwf0 : WF (st0.fr g).gno (op :: rest) := by rw [hfr0]; exact hwf
          have hrest : WF (st0.fr g).gno rest := hwf0.tail
          simp only [List.cons_append]
          cases op with
          | chr c mn mx =>
            simp only [] at h
            refine Post2.congr ?_ (ihn rest _ g K _ mn st0 err st' hrest hch0 (Nat.le_add_left _ _) h hg)
            intro j
            rw [OM.chr_iff]
            simp only [Nat.add_sub_cancel]
          | any mn mx =>
            simp only [] at h
            refine Post2.congr ?_ (ihn rest _ g K _ mn st0 err st' hrest hch0 (Nat.le_add_left _ _) h hg)
            intro j
            rw [OM.any_iff]
            simp only [Nat.add_sub_cancel]
          | cls bm mn mx =>
            simp only [] at h
            refine Post2.congr ?_ (ihn rest _ g K _ mn st0 err st' hrest hch0 (Nat.le_add_left _ _) h hg)
            intro j
            rw [OM.cls_iff]
            simp only [Nat.add_sub_cancel]
          | bol =>
            simp only [] at h
            by_cases hbol : bolOk cx.env str = true
            · rw [if_pos hbol] at h
              refine Post2.congr ?_ (ihd rest str g K st0 err st' hrest hch0 h hg)
              intro j; rw [OM.bol_iff]; simp [hbol]
            · rw [if_neg hbol] at h
              obtain ⟨rfl, rfl⟩ := Prod.mk.inj h
              exact Post2.none st0 (fun j hj => hbol (OM.bol_iff.mp hj).1)
          | eol =>
            simp only [] at h
            by_cases heol : eolOk cx.env str = true
            · rw [if_pos heol] at h
              refine Post2.congr ?_ (ihd rest str g K st0 err st' hrest hch0 h hg)
              intro j; rw [OM.eol_iff]; simp [heol]
            · rw [if_neg heol] at h
              obtain ⟨rfl, rfl⟩ := Prod.mk.inj h
              exact Post2.none st0 (fun j hj => heol (OM.eol_iff.mp hj).1)
          | group gno alts mn mx =>
            simp only [] at h
            cases hwf0 with
            | simple hs _ => simp [Simple] at hs
            | grp hlt halts hr =>
              refine Post2.congr ?_ (ihg gno alts rest str g K st0 err st' hlt halts hr hch0 h hg)
              intro j
              rw [OM.grp_iff]
    · -- scanNext
      intro rest str g K cur mn st err st' hrest hch hcs h hg
      simp only [scanNext] at h
      by_cases h1 : cur = mn
      · rw [if_pos h1] at h
        refine Post2.congr ?_ (ihd rest str g K st err st' hrest hch h hg)
        intro j
        constructor
        · intro hj
          exact ⟨cur, by omega, Nat.le_refl _, by rw [Nat.sub_add_cancel hcs]; exact hj⟩
        · rintro ⟨k, hk1, hk2, hj⟩
          have : k = cur := by omega
          subst this
          rw [Nat.sub_add_cancel hcs] at hj
          exact hj
      · rw [if_neg h1] at h
        by_cases h2 : cur < mn
        · rw [if_pos h2] at h
          obtain ⟨rfl, rfl⟩ := Prod.mk.inj h
          exact Post2.none st (fun j ⟨k, hk1, hk2, _⟩ => by omega)
        · rw [if_neg h2] at h
          exact ihs rest str g K cur mn false st err st' hrest hch (by omega) hcs (fun hh => by cases hh) h hg
    · -- scanLoop
      intro rest str g K cur mn got st err st' hrest hch hmc hcs hgot h hg
      simp only [scanLoop] at h
      cases h1 : doOps cx f rest str (some g) st with
      | mk e1 st1 =>
        rw [h1] at h
        simp only [] at h
        have hfirst : ∀ j, OM cx.env (rest ++ K) str j ↔ OM cx.env (rest ++ K) (str - cur + cur) j := by
          intro j; rw [Nat.sub_add_cancel hcs]
        by_cases hsucc : (cx.strict && decide (e1 = 0)) = true
        · rw [if_pos hsucc] at h
          simp only [Bool.and_eq_true, decide_eq_true_eq] at hsucc
          obtain ⟨hstrict, he1⟩ := hsucc
          have p1 := ihd rest str g K st e1 st1 hrest hch h1 (by subst he1; exact ⟨by decide, by decide⟩)
          by_cases hcm : cur = mn
          · rw [if_pos hcm] at h
            obtain ⟨rfl, rfl⟩ := Prod.mk.inj h
            refine ⟨p1.same, Or.inl rfl, ?_, p1.mono, ?_, ?_, p1.keepJ⟩
            · subst he1
              simp only [true_iff]
              right
              obtain ⟨j, hj⟩ := (p1.ok.mp rfl).resolve_left (by simp)
              exact ⟨j, cur, by omega, Nat.le_refl _, (hfirst j).mp hj⟩
            · rintro hs j ⟨k, hk1, hk2, hj⟩
              have : k = cur := by omega
              subst this
              exact p1.upper hs j ((hfirst j).mpr hj)
            · rcases p1.attained with ha | ⟨j, hj, ha⟩
              · exact Or.inl ha
              · exact Or.inr ⟨j, ⟨cur, by omega, Nat.le_refl _, (hfirst j).mp hj⟩, ha⟩
          · rw [if_neg hcm] at h
            have hg1 : (st1.fr g).gno = (st.fr g).gno := (p1.same.feq g hch.lt).gno
            have p2 := ihs rest (str - 1) g K (cur - 1) mn true st1 err st' (by rw [hg1]; exact hrest)
              (hch.ext p1.same) (by omega) (by omega) (fun _ => hstrict) h hg
            have p1' : Post2 cx J (OM cx.env (rest ++ K) str) got st e1 st1 :=
              ⟨p1.same, p1.code, by rw [p1.ok]; subst he1; simp; exact fun _ => (p1.ok.mp rfl).resolve_left (by simp),
               p1.mono, p1.upper, p1.attained, p1.keepJ⟩
            have hgg : (got || decide (e1 = 0)) = true := by simp [he1]
            have p2' : Post2 cx J (fun j => ∃ k, mn ≤ k ∧ k ≤ cur - 1 ∧ OM cx.env (rest ++ K) (str - 1 - (cur - 1) + k) j)
                (got || decide (e1 = 0)) st1 err st' := by rw [hgg]; exact p2
            refine Post2.congr ?_ (Post2.seq p1' p2')
            intro j
            constructor
            · rintro (hj | ⟨k, hk1, hk2, hj⟩)
              · exact ⟨cur, hmc, Nat.le_refl _, (hfirst j).mp hj⟩
              · refine ⟨k, hk1, by omega, ?_⟩
                have : str - 1 - (cur - 1) + k = str - cur + k := by omega
                rw [← this]; exact hj
            · rintro ⟨k, hk1, hk2, hj⟩
              by_cases hkc : k = cur
              · subst hkc; exact Or.inl ((hfirst j).mpr hj)
              · refine Or.inr ⟨k, hk1, by omega, ?_⟩
                have : str - 1 - (cur - 1) + k = str - cur + k := by omega
                rw [this]; exact hj
        · rw [if_neg hsucc] at h
          by_cases hnm : e1 ≠ NOMATCH
          · rw [if_pos hnm] at h
            obtain ⟨rfl, rfl⟩ := Prod.mk.inj h
            have p1 := ihd rest str g K st e1 st1 hrest hch h1 hg
            have he0 : e1 = 0 := p1.code.resolve_right hnm
            have hns : cx.strict = false := by
              cases hcs' : cx.strict with
              | false => rfl
              | true => exact absurd (by simp [hcs', he0]) hsucc
            have hgf : got = false := by
              cases got with
              | false => rfl
              | true => rw [hgot rfl] at hns; cases hns
            subst hgf
            obtain ⟨j0, hj0⟩ := (p1.ok.mp he0).resolve_left (by simp)
            refine ⟨p1.same, Or.inl he0, ?_, p1.mono, (fun hs => by rw [hns] at hs; cases hs), ?_, p1.keepJ⟩
            · simp only [he0, true_iff]
              exact Or.inr ⟨j0, cur, hmc, Nat.le_refl _, (hfirst j0).mp hj0⟩
            · rcases p1.attained with ha | ⟨j, hj, ha⟩
              · exact Or.inl ha
              · exact Or.inr ⟨j, ⟨cur, hmc, Nat.le_refl _, (hfirst j).mp hj⟩, ha⟩
          · rw [if_neg hnm] at h
            have he1 : e1 = NOMATCH := Decidable.not_not.mp hnm
            have p1 := ihd rest str g K st e1 st1 hrest hch h1 (by rw [he1]; exact ⟨by decide, by decide⟩)
            have hno : ∀ j, ¬ OM cx.env (rest ++ K) str j := by
              intro j hj
              have := p1.ok.mpr (Or.inr ⟨j, hj⟩)
              rw [he1] at this
              exact absurd this (by decide)
            have p1' : Post2 cx J (OM cx.env (rest ++ K) str) got st (if got then 0 else NOMATCH) st1 :=
              ⟨p1.same, by cases got <;> simp, by cases got <;> simp [NOMATCH] <;> exact fun j => hno j,
               p1.mono, p1.upper, p1.attained, p1.keepJ⟩
            by_cases hcm : cur = mn
            · rw [if_pos hcm] at h
              obtain ⟨rfl, rfl⟩ := Prod.mk.inj h
              refine Post2.congr ?_ p1'
              intro j
              constructor
              · intro hj; exact absurd hj (hno j)
              · rintro ⟨k, hk1, hk2, hj⟩
                have : k = cur := by omega
                subst this
                exact absurd ((hfirst j).mpr hj) (hno j)
            · rw [if_neg hcm] at h
              have hg1 : (st1.fr g).gno = (st.fr g).gno := (p1.same.feq g hch.lt).gno
              have p2 := ihs rest (str - 1) g K (cur - 1) mn got st1 err st' (by rw [hg1]; exact hrest)
                (hch.ext p1.same) (by omega) (by omega) hgot h hg
              have hgg : (got || decide ((if got then 0 else NOMATCH) = 0)) = got := by cases got <;> simp [NOMATCH]
              have p2' : Post2 cx J (fun j => ∃ k, mn ≤ k ∧ k ≤ cur - 1 ∧ OM cx.env (rest ++ K) (str - 1 - (cur - 1) + k) j)
                  (got || decide ((if got then 0 else NOMATCH) = 0)) st1 err st' := by rw [hgg]; exact p2
              refine Post2.congr ?_ (Post2.seq p1' p2')
              intro j
              constructor
              · rintro (hj | ⟨k, hk1, hk2, hj⟩)
                · exact absurd hj (hno j)
                · refine ⟨k, hk1, by omega, ?_⟩
                  have : str - 1 - (cur - 1) + k = str - cur + k := by omega
                  rw [← this]; exact hj
              · rintro ⟨k, hk1, hk2, hj⟩
                by_cases hkc : k = cur
                · subst hkc; exact absurd ((hfirst j).mpr hj) (hno j)
                · refine Or.inr ⟨k, hk1, by omega, ?_⟩
                  have : str - 1 - (cur - 1) + k = str - cur + k := by omega
                  rw [this]; exact hj
    · -- matchGroup (plain group entered from frame g)
      intro gno alts rest str g K st err st' hlt halts hrest hch h hg
      simp only [matchGroup] at h
      have hne : ¬ (st.fr g).gno = gno := by omega
      have hgno0 : gno ≠ 0 := by omega
      simp only [hne, if_false] at h
      obtain ⟨fr0, hfr0⟩ : ∃ fr0 : Frame, fr0 = { gno := gno, alts := alts, min := 1, max := 1, next := rest, start := str, prev := st.stacks[gno]!, parent := some g } := ⟨_, rfl⟩
      rw [← hfr0] at h
      obtain ⟨st1, hst1⟩ : ∃ s : St, s = { st with frames := st.frames.push fr0, stacks := st.stacks.set! gno (some st.frames.size) } := ⟨_, rfl⟩
      rw [← hst1] at h
      have he1 : Ext st st1 := by rw [hst1]; exact ext_push st _ gno hgno0
      have hnew : st1.fr st.frames.size = fr0 := by
        rw [hst1]; exact fr_push_new st _ _
      rw [hfr0] at hnew
      have hfg : st1.fr g = st.fr g := by rw [hst1]; exact fr_push_lt st _ _ g hch.lt
      have hch1 : Chain g0 st1 st.frames.size (rest ++ K) := by
        have := Chain.nest (g0 := g0) (st := st1) (g := st.frames.size) (p := g) (K := K)
          (by rw [hst1]; simp) (by rw [hnew]; exact hgno0) (by rw [hnew]) (by rw [hnew]) (by rw [hnew])
          (by rw [hnew]) (by rw [hnew, hfg]; exact hrest) (hch.ext he1)
        rw [hnew] at this
        exact this
      cases h1 : altLoop cx f alts str st.frames.size NOMATCH false st1 with
      | mk e1 r1 =>
        obtain ⟨got1, st2⟩ := r1
        rw [h1] at h
        simp only [Nat.lt_irrefl, Nat.zero_lt_one, if_true, Nat.one_ne_zero, false_and, if_false] at h
        obtain ⟨rfl, rfl⟩ := Prod.mk.inj h
        have hge : Good e1 := good_of_final hg
        have p := iha alts str st.frames.size (rest ++ K) NOMATCH false st1 e1 got1 st2
          (by intro a ha; rw [hnew]; exact halts a ha) hch1 (fun hh => by cases hh) (Or.inl rfl) h1 hge
        rw [final_eq hge]
        refine Post2.pre he1 (by rw [hst1]) (by rw [hst1]; exact hJ.push st _ gno hgno0) ?_
        exact Post2.post p (ext_pop st2 gno _ hgno0) rfl (hJ.pop st2 gno _ hgno0)
    · -- altLoop
      intro alts str id K err0 got st err got' st' hwfa hch hgot herr0 h hg
      cases alts with
      | nil =>
        simp only [altLoop] at h
        obtain ⟨rfl, h2⟩ := Prod.mk.inj h
        obtain ⟨rfl, rfl⟩ := Prod.mk.inj h2
        have hno : ∀ j, ¬ ∃ a, a ∈ ([] : List (List COp)) ∧ OM cx.env (a ++ K) str j := fun j ⟨a, ha, _⟩ => by cases ha
        refine ⟨Ext.refl st, ?_, ?_, fun le hle => ⟨le, hle, Nat.le_refl _⟩, fun _ j hj => absurd hj (hno j), Or.inl rfl,
          fun h => h⟩
        · cases got <;> rcases herr0 with h0 | ⟨h0, h1⟩ <;> simp_all [NOMATCH]
        · cases got <;> rcases herr0 with h0 | ⟨h0, h1⟩ <;> simp_all [NOMATCH]
      | cons a more =>
        simp only [altLoop] at h
        have hmore : ∀ b, b ∈ more → WF (st.fr id).gno b := fun b hb => hwfa b (List.mem_cons_of_mem _ hb)
        have hsplit : ∀ j, (OM cx.env (a ++ K) str j ∨ ∃ b, b ∈ more ∧ OM cx.env (b ++ K) str j) ↔
            ∃ b, b ∈ a :: more ∧ OM cx.env (b ++ K) str j := by
          intro j
          constructor
          · rintro (hj | ⟨b, hb, hj⟩)
            · exact ⟨a, List.mem_cons_self, hj⟩
            · exact ⟨b, List.mem_cons_of_mem _ hb, hj⟩
          · rintro ⟨b, hb, hj⟩
            rcases List.mem_cons.mp hb with rfl | hb
            · exact Or.inl hj
            · exact Or.inr ⟨b, hb, hj⟩
        cases h1 : doOps cx f a str (some id) st with
        | mk e1 st1 =>
          rw [h1] at h
          simp only [] at h
          by_cases hsucc : e1 = 0 ∧ cx.strict = true
          · rw [if_pos hsucc] at h
            obtain ⟨he1, hstrict⟩ := hsucc
            have p1 := ihd a str id K st e1 st1 (hwfa a List.mem_cons_self) hch h1
              (by subst he1; exact ⟨by decide, by decide⟩)
            obtain ⟨st1', hst1'⟩ : ∃ s : St, s = st1.setFr id { st1.fr id with end_ := none } := ⟨_, rfl⟩
            rw [← hst1'] at h
            have k1 : Keeps st1 st1' := by rw [hst1']; exact keeps_setFr st1 id _ rfl
            have hgid : (st1'.fr id).gno = (st.fr id).gno := by
              rw [k1.gno, (p1.same.feq id hch.lt).gno]
            have p2 := iha more str id K e1 true st1' err got' st' (by rw [hgid]; exact hmore)
              ((hch.ext p1.same).ext k1.ext) (fun _ => hstrict) (Or.inr ⟨he1, rfl⟩) h hg
            have p2' := Post2.pre k1.ext k1.last (by rw [hst1']; exact hJ.setEnd st1 id none) p2
            have p1' : Post2 cx J (OM cx.env (a ++ K) str) got st e1 st1 :=
              ⟨p1.same, p1.code, by rw [p1.ok]; subst he1; simp; exact fun _ => (p1.ok.mp rfl).resolve_left (by simp),
               p1.mono, p1.upper, p1.attained, p1.keepJ⟩
            have hgg : (got || decide (e1 = 0)) = true := by simp [he1]
            have p2'' : Post2 cx J (fun j => ∃ b, b ∈ more ∧ OM cx.env (b ++ K) str j) (got || decide (e1 = 0)) st1
                (if got' then 0 else err) st' := by rw [hgg]; exact p2'
            exact Post2.congr hsplit (Post2.seq p1' p2'')
          · rw [if_neg hsucc] at h
            by_cases hnm : e1 ≠ NOMATCH
            · rw [if_pos hnm] at h
              obtain ⟨rfl, h2⟩ := Prod.mk.inj h
              obtain ⟨rfl, rfl⟩ := Prod.mk.inj h2
              have p1 := ihd a str id K st e1 st1 (hwfa a List.mem_cons_self) hch h1 hg
              have he0 : e1 = 0 := p1.code.resolve_right hnm
              have hns : cx.strict = false := by
                cases hcs' : cx.strict with
                | false => rfl
                | true => exact absurd ⟨he0, hcs'⟩ hsucc
              have hgf : got = false := by
                cases got with
                | false => rfl
                | true => rw [hgot rfl] at hns; cases hns
              subst hgf
              obtain ⟨j0, hj0⟩ := (p1.ok.mp he0).resolve_left (by simp)
              simp only [Bool.false_eq_true, if_false]
              refine ⟨p1.same, Or.inl he0, ?_, p1.mono, (fun hs => by rw [hns] at hs; cases hs), ?_, p1.keepJ⟩
              · simp only [he0, true_iff]
                exact Or.inr ⟨j0, (hsplit j0).mp (Or.inl hj0)⟩
              · rcases p1.attained with ha | ⟨j, hj, ha⟩
                · exact Or.inl ha
                · exact Or.inr ⟨j, (hsplit j).mp (Or.inl hj), ha⟩
            · rw [if_neg hnm] at h
              have he1 : e1 = NOMATCH := Decidable.not_not.mp hnm
              have p1 := ihd a str id K st e1 st1 (hwfa a List.mem_cons_self) hch h1
                (by rw [he1]; exact ⟨by decide, by decide⟩)
              have hno : ∀ j, ¬ OM cx.env (a ++ K) str j := by
                intro j hj
                have := p1.ok.mpr (Or.inr ⟨j, hj⟩)
                rw [he1] at this
                exact absurd this (by decide)
              have p1' : Post2 cx J (OM cx.env (a ++ K) str) got st (if got then 0 else NOMATCH) st1 :=
                ⟨p1.same, by cases got <;> simp, by cases got <;> simp [NOMATCH] <;> exact fun j => hno j,
                 p1.mono, p1.upper, p1.attained, p1.keepJ⟩
              have hgid : (st1.fr id).gno = (st.fr id).gno := (p1.same.feq id hch.lt).gno
              have p2 := iha more str id K e1 got st1 err got' st' (by rw [hgid]; exact hmore)
                (hch.ext p1.same) hgot (Or.inl he1) h hg
              have hgg : (got || decide ((if got then 0 else NOMATCH) = 0)) = got := by cases got <;> simp [NOMATCH]
              have p2'' : Post2 cx J (fun j => ∃ b, b ∈ more ∧ OM cx.env (b ++ K) str j)
                  (got || decide ((if got then 0 else NOMATCH) = 0)) st1 (if got' then 0 else err) st' := by
                rw [hgg]; exact p2
              exact Post2.congr hsplit (Post2.seq p1' p2'')
    · -- matchGend of a plain group: no re-entry, continue with the parent's AND-list
      intro str g K st err st' hch hne h hg
      cases hch with
      | root h1 h2 => exact absurd h2 hne
      | @nest _ p K' h1 h2 h3 h4 h5 h6 h7 h8 =>
        simp only [matchGend] at h
        obtain ⟨st1, hst1⟩ : ∃ s : St, s = st.setFr g { st.fr g with end_ := some str } := ⟨_, rfl⟩
        rw [← hst1] at h
        rw [h5, h3, h4] at h
        simp only [Nat.lt_irrefl, decide_false, Bool.and_false, Bool.false_and, Bool.false_eq_true, if_false,
          Nat.zero_add, Nat.lt_irrefl, gt_iff_lt, ge_iff_le, Bool.and_self, Bool.not_false, Bool.true_and] at h
        have k1 : Keeps st st1 := by rw [hst1]; exact keeps_setFr st g _ rfl
        rw [h6] at h
        cases h1' : doOps cx f (st.fr g).next str (some p) st1 with
        | mk e2 st2 =>
          rw [h1'] at h
          simp only [] at h
          have hfin : (if e2 = NOMATCH ∧ False then 0 else e2) = e2 := by simp
          simp only [and_false, if_false] at h
          obtain ⟨rfl, rfl⟩ := Prod.mk.inj h
          have hp : p < st.frames.size := h8.lt
          have p1 := ihd (st.fr g).next str p K' st1 e2 st2 (by rw [k1.gno]; exact h7) (h8.ext k1.ext) h1' hg
          exact Post2.pre k1.ext k1.last (by rw [hst1]; exact hJ.setEnd st g (some str)) p1

/-! ## group #0, the start loop and `regexec` — with plain groups, any `nmatch` -/

theorem rootInv_setEndAny {id s0 N M : Nat} {st : St} (h : RootInv id s0 N M st) (k : Nat) (en : Option Nat) :
    RootInv id s0 N M (st.setFr k { st.fr k with end_ := en }) := by
  have kk := keeps_setFr st k { st.fr k with end_ := en } rfl
  exact ⟨by rw [kk.size]; exact h.gsz, by rw [kk.stacks]; exact h.ssz, h.psz, by rw [kk.stacks]; exact h.stk,
    by rw [kk.start]; exact h.start, by rw [kk.parent]; exact h.par, by rw [kk.gno]; exact h.gno, h.pm0⟩

theorem rootInv_ext_same {id s0 N M : Nat} {st st' : St} (h : RootInv id s0 N M st) (he : Ext st st')
    (hpm : st'.pm = st.pm) (hl : st'.lastEnd = st.lastEnd) : RootInv id s0 N M st' := by
  have fe := he.feq id h.gsz
  exact ⟨Nat.lt_of_lt_of_le h.gsz he.size, by rw [he.ssz]; exact h.ssz, by rw [hpm]; exact h.psz,
    by rw [he.stk0]; exact h.stk, by rw [fe.start]; exact h.start, by rw [fe.parent]; exact h.par,
    by rw [fe.gno]; exact h.gno, by rw [hpm, hl]; exact h.pm0⟩

/-- the `pmatch[0]` invariant is one of the invariants the search carries along -/
theorem jOk_rootInv (cx : Cx) (id s0 N M : Nat) (C : Prop) (hC : C → 1 ≤ cx.nmatch ∧ 0 < N ∧ 0 < M) :
    JOk cx id (fun s => C → RootInv id s0 N M s) := by
  refine ⟨?_, ?_, ?_, ?_, ?_⟩
  · intro st h hc; exact rootInv_budget (h hc) _
  · intro str st e st' hgf h hc
    exact rootInv_gotFull cx (hC hc).1 (hC hc).2.1 (hC hc).2.2 str st e st' hgf (h hc)
  · intro st k en h hc; exact rootInv_setEndAny (h hc) k en
  · intro st fr gno hg h hc
    exact rootInv_ext_same (h hc) (ext_push st fr gno hg) rfl rfl
  · intro st gno v hg h hc
    exact rootInv_ext_same (h hc) (ext_pop st gno v hg) rfl rfl

def AltsOM (e : Env) (alts : List (List COp)) (str j : Nat) : Prop := ∃ a, a ∈ alts ∧ OM e a str j

structure RootPost2 (cx : Cx) (P : Nat → Prop) (str : Nat) (st : St) (err : Nat) (st' : St) : Prop where
  code : err = 0 ∨ err = NOMATCH
  ok : err = 0 ↔ ∃ j, P j
  upper : cx.strict = true → ∀ j, P j → ∃ le', st'.lastEnd = some le' ∧ j ≤ le'
  attained : st'.lastEnd = st.lastEnd ∨ ∃ j, P j ∧ st'.lastEnd = some j
  ssz : st'.stacks.size = st.stacks.size
  psz : st'.pm.size = st.pm.size
  pm0 : 1 ≤ cx.nmatch → 0 < st.stacks.size → 0 < st.pm.size → st.lastEnd = none →
    ∀ le, st'.lastEnd = some le → st'.pm[0]! = ((str : Int), (le : Int))

theorem root_specG (cx : Cx) (f : Nat) (alts : List (List COp)) (str : Nat) (st : St)
    (err : Nat) (st' : St) (hwf : ∀ a, a ∈ alts → WF 0 a)
    (h : matchGroup cx f 0 alts 1 1 [] str none st = (err, st')) (hg : Good err) :
    RootPost2 cx (AltsOM cx.env alts str) str st err st' := by
  cases f with
  | zero =>
    simp only [matchGroup] at h
    obtain ⟨rfl, _⟩ := Prod.mk.inj h
    exact absurd rfl hg.2
  | succ f =>
    simp only [matchGroup] at h
    obtain ⟨fr0, hfr0⟩ : ∃ fr0 : Frame, fr0 = { gno := 0, alts := alts, min := 1, max := 1, next := [], start := str, prev := st.stacks[0]!, parent := none } := ⟨_, rfl⟩
    rw [← hfr0] at h
    obtain ⟨st1, hst1⟩ : ∃ s : St, s = { st with frames := st.frames.push fr0, stacks := st.stacks.set! 0 (some st.frames.size) } := ⟨_, rfl⟩
    rw [← hst1] at h
    have hnew : st1.fr st.frames.size = fr0 := by rw [hst1]; exact fr_push_new st _ _
    rw [hfr0] at hnew
    have hlast1 : st1.lastEnd = st.lastEnd := by rw [hst1]
    have hch1 : Chain st.frames.size st1 st.frames.size [] :=
      Chain.root (by rw [hst1]; simp) (by rw [hnew])
    obtain ⟨J, hJdef⟩ : ∃ J : St → Prop, J = fun s => (1 ≤ cx.nmatch ∧ 0 < st.stacks.size ∧ 0 < st.pm.size) →
        RootInv st.frames.size str st.stacks.size st.pm.size s := ⟨_, rfl⟩
    have hJ : JOk cx st.frames.size J := by
      rw [hJdef]; exact jOk_rootInv cx _ _ _ _ _ (fun hc => hc)
    cases h1 : altLoop cx f alts str st.frames.size NOMATCH false st1 with
    | mk e1 r1 =>
      obtain ⟨got1, st2⟩ := r1
      rw [h1] at h
      simp only [Nat.lt_irrefl, Nat.zero_lt_one, if_true, Nat.one_ne_zero, false_and, if_false] at h
      obtain ⟨rfl, rfl⟩ := Prod.mk.inj h
      have hge : Good e1 := good_of_final hg
      have p := (coreG cx J st.frames.size hJ f).2.2.2.2.1 alts str st.frames.size [] NOMATCH false st1 e1 got1 st2
        (by intro a ha; rw [hnew]; exact hwf a ha) hch1 (fun hh => by cases hh) (Or.inl rfl) h1 hge
      rw [final_eq hge]
      have hP : ∀ j, (∃ a, a ∈ alts ∧ OM cx.env (a ++ []) str j) ↔ AltsOM cx.env alts str j := by
        intro j; simp only [List.append_nil, AltsOM]
      refine ⟨p.code, ?_, ?_, ?_, ?_, ?_, ?_⟩
      · rw [p.ok]; simp only [Bool.false_eq_true, false_or]
        constructor
        · rintro ⟨j, hj⟩; exact ⟨j, (hP j).mp hj⟩
        · rintro ⟨j, hj⟩; exact ⟨j, (hP j).mpr hj⟩
      · intro hs j hj; exact p.upper hs j ((hP j).mpr hj)
      · rcases p.attained with ha | ⟨j, hj, ha⟩
        · exact Or.inl (ha.trans hlast1)
        · exact Or.inr ⟨j, (hP j).mp hj, ha⟩
      · show (st2.stacks.set! 0 _).size = _
        simp only [Array.set!_eq_setIfInBounds, Array.size_setIfInBounds]
        rw [p.same.ssz, hst1]; simp
      · show st2.pm.size = _
        rw [p.same.psize, hst1]
      · intro hc1 hc2 hc3 hl le hle
        have hJ1 : J st1 := by
          rw [hJdef]; intro _
          refine ⟨by rw [hst1]; simp, by rw [hst1]; simp, by rw [hst1], by rw [hst1]; simp [hc2],
            by rw [hnew], by rw [hnew], by rw [hnew], ?_⟩
          intro le' hle'
          rw [hlast1, hl] at hle'; cases hle'
        have hJ2 := p.keepJ hJ1
        rw [hJdef] at hJ2
        exact (hJ2 ⟨hc1, hc2, hc3⟩).pm0 le hle

theorem startLoop_specG (cx : Cx) (alts : List (List COp)) (hwf : ∀ a, a ∈ alts → WF 0 a) (fuel : Nat) :
    ∀ (k str : Nat) (st : St) (rc pos : Nat) (st' : St),
    st.lastEnd = none → str ≤ cx.env.s.size → startLoop cx alts fuel k str st = (rc, pos, st') → Good rc →
    (rc = 0 ∧ str ≤ pos ∧ pos ≤ cx.env.s.size ∧ (∃ j, AltsOM cx.env alts pos j) ∧
        (∀ i, str ≤ i → i < pos → ∀ j, ¬ AltsOM cx.env alts i j) ∧
        (cx.strict = true → ∃ le, st'.lastEnd = some le ∧ AltsOM cx.env alts pos le ∧
            ∀ j, AltsOM cx.env alts pos j → j ≤ le) ∧
        st'.pm.size = st.pm.size ∧
        (1 ≤ cx.nmatch → 0 < st.stacks.size → 0 < st.pm.size →
            ∀ le, st'.lastEnd = some le → st'.pm[0]! = ((pos : Int), (le : Int)))) ∨
    (rc = NOMATCH ∧ ∀ i, str ≤ i → i < str + k → i ≤ cx.env.s.size → ∀ j, ¬ AltsOM cx.env alts i j) := by
  intro k
  induction k with
  | zero =>
    intro str st rc pos st' _ _ h _
    simp only [startLoop] at h
    obtain ⟨rfl, _⟩ := Prod.mk.inj h
    exact Or.inr ⟨rfl, fun i h1 h2 => by omega⟩
  | succ k ih =>
    intro str st rc pos st' hl hstr h hg
    simp only [startLoop] at h
    cases h1 : matchGroup cx fuel 0 alts 1 1 [] str none st with
    | mk e1 st1 =>
      rw [h1] at h
      simp only [] at h
      by_cases hc : e1 = NOMATCH ∧ str < cx.env.s.size
      · rw [if_pos hc] at h
        have p := root_specG cx fuel alts str st e1 st1 hwf h1 (by rw [hc.1]; exact ⟨by decide, by decide⟩)
        have hno : ∀ j, ¬ AltsOM cx.env alts str j := by
          intro j hj
          have := p.ok.mpr ⟨j, hj⟩
          rw [hc.1] at this
          exact absurd this (by decide)
        have hl1 : st1.lastEnd = none := by
          rcases p.attained with ha | ⟨j, hj, _⟩
          · exact ha.trans hl
          · exact absurd hj (hno j)
        rcases ih (str + 1) st1 rc pos st' hl1 (by omega) h hg with
          ⟨r0, hp, hpb, hf, hleft, hlong, hps, hpm⟩ | ⟨r1, hnone⟩
        · refine Or.inl ⟨r0, by omega, hpb, hf, ?_, hlong, hps.trans p.psz, ?_⟩
          · intro i hi1 hi2 j
            by_cases his : i = str
            · subst his; exact hno j
            · exact hleft i (by omega) hi2 j
          · intro c1 c2 c3
            exact hpm c1 (by rw [p.ssz]; exact c2) (by rw [p.psz]; exact c3)
        · refine Or.inr ⟨r1, ?_⟩
          intro i hi1 hi2 hi3 j
          by_cases his : i = str
          · subst his; exact hno j
          · exact hnone i (by omega) (by omega) hi3 j
      · rw [if_neg hc] at h
        obtain ⟨rfl, h2⟩ := Prod.mk.inj h
        obtain ⟨rfl, rfl⟩ := Prod.mk.inj h2
        have p := root_specG cx fuel alts str st e1 st1 hwf h1 hg
        rcases p.code with r0 | r1
        · refine Or.inl ⟨r0, Nat.le_refl _, hstr, p.ok.mp r0, fun i h1 h2 => by omega, ?_, p.psz,
            fun c1 c2 c3 => p.pm0 c1 c2 c3 hl⟩
          intro hs
          obtain ⟨j0, hj0⟩ := p.ok.mp r0
          obtain ⟨le, hle, _⟩ := p.upper hs j0 hj0
          rcases p.attained with ha | ⟨j, hj, ha⟩
          · rw [ha, hl] at hle; cases hle
          · refine ⟨j, ha, hj, ?_⟩
            intro j' hj'
            obtain ⟨le', hle', hle''⟩ := p.upper hs j' hj'
            rw [ha] at hle'
            cases hle'
            exact hle''
        · refine Or.inr ⟨r1, ?_⟩
          intro i hi1 hi2 hi3 j hj
          have hsz : ¬ str < cx.env.s.size := fun hh => hc ⟨r1, hh⟩
          have : i = str := by omega
          subst this
          have := p.ok.mpr ⟨j, hj⟩
          rw [r1] at this
          exact absurd this (by decide)

/-- leftmost-longest for op lists with plain groups -/
structure OMLL (e : Env) (alts : List (List COp)) (strict : Bool) (pos : Nat) (last : Option Nat) : Prop where
  inb : pos ≤ e.s.size
  found : ∃ j, AltsOM e alts pos j
  leftmost : ∀ i, i < pos → ∀ j, ¬ AltsOM e alts i j
  longest : strict = true → ∃ le, last = some le ∧ AltsOM e alts pos le ∧ ∀ j, AltsOM e alts pos j → j ≤ le

theorem cExec_specG (alts : List (List COp)) (hwf : ∀ a, a ∈ alts → WF 0 a) (nsub : Nat) (nosub : Bool) (e : Env)
    (nmatch budget fuel : Nat) (hg : Good (cExec alts nsub nosub e nmatch budget fuel).rc) :
    let res := cExec alts nsub nosub e nmatch budget fuel
    (res.rc = 0 ∧ OMLL e alts (!nosub && decide (nmatch > 0)) res.start res.last ∧
      ((!nosub && decide (nmatch > 0)) = true → ∀ le, res.last = some le →
        res.pm.head? = some ((res.start : Int), (le : Int)))) ∨
    (res.rc = NOMATCH ∧ ∀ i, i ≤ e.s.size → ∀ j, ¬ AltsOM e alts i j) := by
  intro res
  obtain ⟨cx, hcx⟩ : ∃ cx : Cx, cx = mkCx e nsub nosub nmatch := ⟨_, rfl⟩
  have hce : cx.env = e := by rw [hcx]; rfl
  have hcs : cx.strict = (!nosub && decide (nmatch > 0)) := by
    rw [hcx]; simp only [mkCx]
    cases nosub <;> simp
    split <;> simp <;> omega
  obtain ⟨st0, hst0⟩ : ∃ st0 : St, st0 = initSt nsub nosub nmatch budget := ⟨_, rfl⟩
  have hl0 : st0.lastEnd = none := by rw [hst0]; rfl
  cases hrun : startLoop cx alts fuel (e.s.size + 1) 0 st0 with
  | mk rc r2 =>
    obtain ⟨pos, st'⟩ := r2
    have hres : res = { rc := rc, pm := st'.pm.toList, start := pos, last := st'.lastEnd, stepsLeft := st'.budget } := by
      show cExec alts nsub nosub e nmatch budget fuel = _
      unfold cExec
      rw [← hcx, ← hst0, hrun]
    have hg' : Good rc := by
      have : res.rc = rc := by rw [hres]
      rw [← this]; exact hg
    rcases startLoop_specG cx alts hwf fuel (e.s.size + 1) 0 st0 rc pos st' hl0 (Nat.zero_le _) hrun hg' with
      ⟨r0, _, hpb, hf, hleft, hlong, hps, hpm⟩ | ⟨r1, hnone⟩
    · left
      rw [hres]
      refine ⟨r0, ⟨?_, ?_, ?_, ?_⟩, ?_⟩
      · rw [← hce]; exact hpb
      · rw [← hce]; exact hf
      · intro i hi j; rw [← hce]; exact hleft i (Nat.zero_le _) hi j
      · intro hs
        rw [← hcs] at hs
        obtain ⟨le, h1, h2, h3⟩ := hlong hs
        rw [hce] at h2 h3
        exact ⟨le, h1, h2, h3⟩
      · intro hs le hle
        simp only [Bool.and_eq_true, Bool.not_eq_true', decide_eq_true_eq] at hs
        obtain ⟨hns, hnm⟩ := hs
        have hc1 : 1 ≤ cx.nmatch := by
          rw [hcx]; simp only [mkCx, hns]
          simp
          split <;> omega
        have hst : 0 < st0.stacks.size := by rw [hst0]; simp [initSt]
        have hpz : 0 < st0.pm.size := by rw [hst0]; simp [initSt, hns]; exact hnm
        have h0 := hpm hc1 hst hpz le hle
        have hsz' : 0 < st'.pm.size := by rw [hps]; exact hpz
        show st'.pm.toList.head? = _
        rw [← h0]
        cases hpl : st'.pm.toList with
        | nil =>
          have : st'.pm.size = 0 := by simpa using congrArg List.length hpl
          omega
        | cons x xs =>
          simp only [List.head?_cons, Option.some.injEq]
          have : st'.pm[0]! = st'.pm.toList[0]! := by simp [Array.getElem!_eq_getD, Array.getD_eq_getD_getElem?]
          rw [this, hpl]; rfl
    · right
      rw [hres]
      refine ⟨r1, ?_⟩
      intro i hi j
      rw [← hce]
      exact hnone i (Nat.zero_le _) (by omega) (by rw [hce]; exact hi) j

end Usual.C04.CM
