import Usual.C04.Parse
/-! Helper lemmas for C04: `op_class` (model `parseClass`) inverts the bracket renderer
`clsBody` — runs, special placement of `]` `[` `^` `-`, named classes, negation. -/
set_option linter.unusedSimpArgs false
set_option linter.unusedVariables false
set_option linter.unnecessarySimpa false
namespace Usual.C04
open Usual.Gen.C04

/-! ## tokens of `get_map_token` -/

def flush (icase : Bool) (acc prev : Nat) : Nat := if prev ≠ 0 then addChar icase acc prev else acc

theorem gmt_plain (icase : Bool) (bm : Nat) (st : Bool) (c : UInt8) (t : List UInt8)
    (h1 : c ≠ 45) (h2 : c ≠ 93) (h3 : c ≠ 91) :
    getMapToken icase bm st (c :: t) = .ok (.ch c.toNat, bm, t) := by
  unfold getMapToken
  split <;> simp_all

theorem gmt_dash_lit (icase : Bool) (bm : Nat) (st : Bool) (t : List UInt8) (h : st = true ∨ t.head? = some 93) :
    getMapToken icase bm st (45 :: t) = .ok (.ch 45, bm, t) := by
  simp only [getMapToken]
  rcases h with h | h
  · simp [h]
  · simp [h]

theorem gmt_dash_range (icase : Bool) (bm : Nat) (c : UInt8) (t : List UInt8) (h : c ≠ 93) :
    getMapToken icase bm false (45 :: c :: t) = .ok (.range, bm, c :: t) := by
  simp [getMapToken, h]

theorem gmt_rbr_first (icase : Bool) (bm : Nat) (t : List UInt8) :
    getMapToken icase bm true (93 :: t) = .ok (.ch 93, bm, t) := by
  simp [getMapToken]

theorem gmt_rbr_fin (icase : Bool) (bm : Nat) (t : List UInt8) :
    getMapToken icase bm false (93 :: t) = .ok (.fin, bm, t) := by
  simp [getMapToken]

theorem gmt_lbr (icase : Bool) (bm : Nat) (st : Bool) (d : UInt8) (t : List UInt8)
    (h1 : d ≠ 58) (h2 : d ≠ 46) (h3 : d ≠ 61) :
    getMapToken icase bm st (91 :: d :: t) = .ok (.ch 91, bm, d :: t) := by
  unfold getMapToken
  split
  · simp_all
  · simp_all
  · simp_all
  · rename_i heq
    have heq' := (List.cons.inj heq).2
    subst heq'
    split <;> simp_all
  · simp_all

/-! ## `classLoop` with any sufficient fuel -/

/-- with any sufficient fuel, `classLoop` from this state on this text yields `out` -/
def CL (icase : Bool) (acc prev : Nat) (st : Bool) (s : List UInt8) (out : Except Code (Nat × List UInt8)) : Prop :=
  ∀ fuel, s.length < fuel → classLoop icase fuel acc prev false st s = out

theorem cl_fin (icase : Bool) (acc prev : Nat) (rest : List UInt8) :
    CL icase acc prev false (93 :: rest) (.ok (flush icase acc prev, rest)) := by
  intro fuel hf
  cases fuel with
  | zero => simp at hf
  | succ f => simp [classLoop, gmt_rbr_fin, flush]

/-- a token that is an ordinary character `n` -/
theorem cl_char (icase : Bool) (acc prev : Nat) (st : Bool) (c : UInt8) (tl : List UInt8)
    (out : Except Code (Nat × List UInt8))
    (htok : getMapToken icase acc st (c :: tl) = .ok (.ch c.toNat, acc, tl))
    (h : CL icase (flush icase acc prev) c.toNat false tl out) : CL icase acc prev st (c :: tl) out := by
  intro fuel hf
  cases fuel with
  | zero => simp at hf
  | succ f =>
    have := h f (by simp at hf; omega)
    simp only [classLoop, htok, Bool.false_eq_true, if_false]
    simpa [flush] using this

/-- `lo-hi` -/
theorem cl_range (icase : Bool) (acc prev : Nat) (st : Bool) (lo hi : UInt8) (tl : List UInt8)
    (out : Except Code (Nat × List UInt8))
    (hlo : getMapToken icase acc st (lo :: 45 :: hi :: tl) = .ok (.ch lo.toNat, acc, 45 :: hi :: tl))
    (hhi : ∀ bm, getMapToken icase bm false (hi :: tl) = .ok (.ch hi.toNat, bm, tl))
    (h93 : hi ≠ 93) (hlo0 : lo.toNat ≠ 0) (hle : lo.toNat ≤ hi.toNat)
    (h : CL icase (addRange icase (hi.toNat + 1 - lo.toNat) lo.toNat (flush icase acc prev)) 0 false tl out) :
    CL icase acc prev st (lo :: 45 :: hi :: tl) out := by
  intro fuel hf
  obtain ⟨f, rfl⟩ : ∃ f, fuel = f + 3 := ⟨fuel - 3, by simp at hf; omega⟩
  have := h f (by simp at hf; omega)
  have hnl : ¬ hi.toNat < lo.toNat := by omega
  simp only [classLoop, hlo, Bool.false_eq_true, if_false, gmt_dash_range icase _ hi tl h93, hlo0, hhi, if_true, hnl]
  simpa [flush] using this

/-! ## bytes from numbers -/

theorem toNat_ofNat_le {n : Nat} (h : n ≤ 255) : (UInt8.ofNat n).toNat = n := by
  simp only [UInt8.toNat_ofNat']
  omega

theorem ofNat_ne {n k : Nat} (h : n ≤ 255) (hk : k ≤ 255) (hne : n ≠ k) : UInt8.ofNat n ≠ UInt8.ofNat k := by
  intro he
  have := congrArg UInt8.toNat he
  rw [toNat_ofNat_le h, toNat_ofNat_le hk] at this
  exact hne this

theorem ofNat_ne45 {n : Nat} (h : n ≤ 255) (hne : n ≠ 45) : UInt8.ofNat n ≠ 45 := by
  intro he
  have := congrArg UInt8.toNat he
  rw [toNat_ofNat_le h] at this
  exact hne (by simpa using this)

theorem ofNat_ne91 {n : Nat} (h : n ≤ 255) (hne : n ≠ 91) : UInt8.ofNat n ≠ 91 := by
  intro he
  have := congrArg UInt8.toNat he
  rw [toNat_ofNat_le h] at this
  exact hne (by simpa using this)

theorem ofNat_ne93 {n : Nat} (h : n ≤ 255) (hne : n ≠ 93) : UInt8.ofNat n ≠ 93 := by
  intro he
  have := congrArg UInt8.toNat he
  rw [toNat_ofNat_le h] at this
  exact hne (by simpa using this)

/-- a run the renderer may emit: inside 1..255, end points are not `-`, `[`, `]` -/
structure GoodRun (r : Nat × Nat) : Prop where
  lo1 : 1 ≤ r.1
  le : r.1 ≤ r.2
  hi255 : r.2 ≤ 255
  lo45 : r.1 ≠ 45
  lo91 : r.1 ≠ 91
  lo93 : r.1 ≠ 93
  hi45 : r.2 ≠ 45
  hi91 : r.2 ≠ 91
  hi93 : r.2 ≠ 93

theorem gmt_plainN (icase : Bool) (bm : Nat) (st : Bool) (n : Nat) (t : List UInt8) (h : n ≤ 255)
    (h1 : n ≠ 45) (h2 : n ≠ 93) (h3 : n ≠ 91) :
    getMapToken icase bm st (UInt8.ofNat n :: t) = .ok (.ch n, bm, t) := by
  have := gmt_plain icase bm st (UInt8.ofNat n) t (ofNat_ne45 h h1) (ofNat_ne93 h h2) (ofNat_ne91 h h3)
  rw [toNat_ofNat_le h] at this
  exact this

theorem addRuns_cons (icase : Bool) (acc : Nat) (r : Nat × Nat) (rs : List (Nat × Nat)) :
    addRuns icase acc (r :: rs) = addRuns icase (addRange icase (r.2 + 1 - r.1) r.1 acc) rs := rfl

/-- the text of a list of runs -/
theorem cl_runs (icase : Bool) : ∀ (rs : List (Nat × Nat)), (∀ r, r ∈ rs → GoodRun r) →
    ∀ (acc prev : Nat) (st : Bool) (tl : List UInt8) (out : Except Code (Nat × List UInt8)),
    (∀ acc' prev' st', (st' = true → st = true ∧ rs = []) →
        flush icase acc' prev' = addRuns icase (flush icase acc prev) rs → CL icase acc' prev' st' tl out) →
    CL icase acc prev st (rs.flatMap elemText ++ tl) out := by
  intro rs
  induction rs with
  | nil =>
    intro _ acc prev st tl out h
    simpa using h acc prev st (fun hs => ⟨hs, rfl⟩) rfl
  | cons r rs ih =>
    intro hall acc prev st tl out h
    have hg := hall r List.mem_cons_self
    have hrest : ∀ x, x ∈ rs → GoodRun x := fun x hx => hall x (List.mem_cons_of_mem _ hx)
    simp only [List.flatMap_cons, List.append_assoc]
    by_cases heq : r.1 = r.2
    · simp only [elemText, heq, if_true, List.cons_append, List.nil_append]
      have htok := gmt_plainN icase acc st r.2 (rs.flatMap elemText ++ tl) hg.hi255 hg.hi45 hg.hi93 hg.hi91
      refine cl_char icase acc prev st (UInt8.ofNat r.2) _ out (by rw [toNat_ofNat_le hg.hi255]; exact htok) ?_
      rw [toNat_ofNat_le hg.hi255]
      apply ih hrest
      intro acc' prev' st' hst hfl
      apply h acc' prev' st' (fun hs => by have := (hst hs).1; cases this)
      rw [hfl, addRuns_cons, heq]
      have h0 : r.2 ≠ 0 := by have := hg.lo1; omega
      simp [flush, h0, addRange]
    · simp only [elemText, heq, if_false, List.cons_append, List.nil_append]
      have hlo := gmt_plainN icase acc st r.1 (45 :: UInt8.ofNat r.2 :: (rs.flatMap elemText ++ tl))
        (by have := hg.le; have := hg.hi255; omega) hg.lo45 hg.lo93 hg.lo91
      have hhi : ∀ bm, getMapToken icase bm false (UInt8.ofNat r.2 :: (rs.flatMap elemText ++ tl)) =
          .ok (.ch (UInt8.ofNat r.2).toNat, bm, rs.flatMap elemText ++ tl) := by
        intro bm
        rw [toNat_ofNat_le hg.hi255]
        exact gmt_plainN icase bm false r.2 _ hg.hi255 hg.hi45 hg.hi93 hg.hi91
      have hl255 : r.1 ≤ 255 := by have := hg.le; have := hg.hi255; omega
      refine cl_range icase acc prev st (UInt8.ofNat r.1) (UInt8.ofNat r.2) _ out
        (by rw [toNat_ofNat_le hl255]; exact hlo) hhi (ofNat_ne93 hg.hi255 hg.hi93)
        (by rw [toNat_ofNat_le hl255]; have := hg.lo1; omega)
        (by rw [toNat_ofNat_le hl255, toNat_ofNat_le hg.hi255]; exact hg.le) ?_
      rw [toNat_ofNat_le hl255, toNat_ofNat_le hg.hi255]
      apply ih hrest
      intro acc' prev' st' hst hfl
      apply h acc' prev' st' (fun hs => by have := (hst hs).1; cases this)
      rw [hfl, addRuns_cons]
      simp [flush]

/-! ## what `runs` returns -/

theorem runsAux_spec (bm : Nat) : ∀ (f c : Nat) (op : Option Nat),
    (∀ lo, op = some lo → lo < c ∧ ∀ x, lo ≤ x → x < c → inRun bm x = true) →
    (∀ r, r ∈ runsAux bm f c op → r.1 ≤ r.2 ∧ op.getD c ≤ r.1 ∧ r.2 < c + f ∧
        ∀ x, r.1 ≤ x → x ≤ r.2 → inRun bm x = true) ∧
    (∀ x, ((∃ lo, op = some lo ∧ lo ≤ x ∧ x < c) ∨ (c ≤ x ∧ x < c + f ∧ inRun bm x = true)) →
        ∃ r, r ∈ runsAux bm f c op ∧ r.1 ≤ x ∧ x ≤ r.2) := by
  intro f
  induction f with
  | zero =>
    intro c op hop
    cases op with
    | none =>
      simp only [runsAux]
      refine ⟨(fun r hr => by cases hr), ?_⟩
      intro x hx
      rcases hx with ⟨lo, h, _⟩ | ⟨h1, h2, _⟩
      · cases h
      · omega
    | some lo =>
      obtain ⟨hlt, hin⟩ := hop lo rfl
      simp only [runsAux]
      refine ⟨?_, ?_⟩
      · intro r hr
        simp only [List.mem_singleton] at hr
        subst hr
        refine ⟨?_, ?_, ?_, ?_⟩
        · simp; omega
        · simp
        · simp; omega
        · intro x h1 h2
          simp at h2
          exact hin x h1 (by omega)
      · intro x hx
        rcases hx with ⟨lo', h, h1, h2⟩ | ⟨h1, h2, _⟩
        · cases h
          refine ⟨_, List.mem_singleton.mpr rfl, h1, ?_⟩
          simp; omega
        · omega
  | succ f ih =>
    intro c op hop
    simp only [runsAux]
    by_cases hc : inRun bm c = true
    · rw [if_pos hc]
      have hop' : ∀ lo, some (op.getD c) = some lo → lo < c + 1 ∧ ∀ x, lo ≤ x → x < c + 1 → inRun bm x = true := by
        intro lo hlo
        cases op with
        | none =>
          simp at hlo
          have e : lo = c := hlo.symm
          subst e
          refine ⟨by omega, ?_⟩
          intro x h1 h2
          have : x = lo := by omega
          subst this; exact hc
        | some l0 =>
          simp at hlo
          have e : lo = l0 := hlo.symm
          subst e
          obtain ⟨h1, h2⟩ := hop lo rfl
          refine ⟨by omega, fun x hx1 hx2 => ?_⟩
          by_cases hxc : x = c
          · subst hxc; exact hc
          · exact h2 x hx1 (by omega)
      obtain ⟨i1, i2⟩ := ih (c + 1) (some (op.getD c)) hop'
      refine ⟨?_, ?_⟩
      · intro r hr
        obtain ⟨a, b, d, e⟩ := i1 r hr
        refine ⟨a, ?_, by omega, e⟩
        simp at b
        cases op <;> simpa using b
      · intro x hx
        apply i2
        rcases hx with ⟨lo, h, h1, h2⟩ | ⟨h1, h2, h3⟩
        · subst h; exact Or.inl ⟨lo, by simp, h1, by omega⟩
        · by_cases hxc : x = c
          · subst hxc
            left
            refine ⟨op.getD x, rfl, ?_, by omega⟩
            cases op with
            | none => simp
            | some l0 => have := (hop l0 rfl).1; simp; omega
          · exact Or.inr ⟨by omega, by omega, h3⟩
    · rw [if_neg hc]
      have hnone : ∀ lo, (none : Option Nat) = some lo → lo < c + 1 ∧ ∀ x, lo ≤ x → x < c + 1 → inRun bm x = true :=
        fun lo h => by cases h
      obtain ⟨i1, i2⟩ := ih (c + 1) none hnone
      cases op with
      | none =>
        simp only []
        refine ⟨?_, ?_⟩
        · intro r hr
          obtain ⟨a, b, d, e⟩ := i1 r hr
          simp at b
          refine ⟨a, ?_, by omega, e⟩
          simp; omega
        · intro x hx
          apply i2
          rcases hx with ⟨lo, h, _⟩ | ⟨h1, h2, h3⟩
          · cases h
          · by_cases hxc : x = c
            · subst hxc; exact absurd h3 hc
            · exact Or.inr ⟨by omega, by omega, h3⟩
      | some l0 =>
        obtain ⟨hlt, hin⟩ := hop l0 rfl
        simp only []
        refine ⟨?_, ?_⟩
        · intro r hr
          rcases List.mem_cons.mp hr with rfl | hr
          · refine ⟨?_, ?_, ?_, ?_⟩
            · simp; omega
            · simp
            · simp; omega
            · intro x h1 h2
              simp at h2
              exact hin x h1 (by omega)
          · obtain ⟨a, b, d, e⟩ := i1 r hr
            simp at b
            refine ⟨a, ?_, by omega, e⟩
            simp; omega
        · intro x hx
          rcases hx with ⟨lo, h, h1, h2⟩ | ⟨h1, h2, h3⟩
          · cases h
            refine ⟨_, List.mem_cons_self, h1, ?_⟩
            simp; omega
          · by_cases hxc : x = c
            · subst hxc; exact absurd h3 hc
            · obtain ⟨r, hr, hh⟩ := i2 x (Or.inr ⟨by omega, by omega, h3⟩)
              exact ⟨r, List.mem_cons_of_mem _ hr, hh⟩

theorem inRun_iff {bm c : Nat} : inRun bm c = true ↔ bm.testBit c = true ∧ c ≠ 45 ∧ c ≠ 91 ∧ c ≠ 93 ∧ c ≠ 94 := by
  simp [inRun, and_assoc]

theorem runs_mem {bm : Nat} {r : Nat × Nat} (h : r ∈ runs bm) :
    GoodRun r ∧ ∀ x, r.1 ≤ x → x ≤ r.2 → inRun bm x = true := by
  obtain ⟨h1, _⟩ := runsAux_spec bm 255 1 none (fun lo h => by cases h)
  obtain ⟨a, b, c, d⟩ := h1 r h
  simp at b
  have elo := inRun_iff.mp (d r.1 (Nat.le_refl _) a)
  have ehi := inRun_iff.mp (d r.2 a (Nat.le_refl _))
  exact ⟨⟨b, a, by omega, elo.2.1, elo.2.2.1, elo.2.2.2.1, ehi.2.1, ehi.2.2.1, ehi.2.2.2.1⟩, d⟩

theorem runs_cover {bm x : Nat} (h1 : 1 ≤ x) (h2 : x ≤ 255) (h : inRun bm x = true) :
    ∃ r, r ∈ runs bm ∧ r.1 ≤ x ∧ x ≤ r.2 := by
  obtain ⟨_, h3⟩ := runsAux_spec bm 255 1 none (fun lo h => by cases h)
  exact h3 x (Or.inr ⟨h1, by omega, h⟩)

/-! ## the special members after the runs, and the closing bracket -/

theorem flush_nz (icase : Bool) (acc n : Nat) (h : n ≠ 0) : flush icase acc n = addChar icase acc n := by
  simp [flush, h]

theorem cl91 (icase : Bool) (acc prev : Nat) (st : Bool) (d : UInt8) (tl : List UInt8)
    (out : Except Code (Nat × List UInt8)) (h1 : d ≠ 58) (h2 : d ≠ 46) (h3 : d ≠ 61)
    (h : CL icase (flush icase acc prev) 91 false (d :: tl) out) : CL icase acc prev st (91 :: d :: tl) out :=
  cl_char icase acc prev st 91 (d :: tl) out (gmt_lbr icase acc st d tl h1 h2 h3) h

theorem cl94 (icase : Bool) (acc prev : Nat) (st : Bool) (tl : List UInt8)
    (out : Except Code (Nat × List UInt8))
    (h : CL icase (flush icase acc prev) 94 false tl out) : CL icase acc prev st (94 :: tl) out :=
  cl_char icase acc prev st 94 tl out (gmt_plain icase acc st 94 tl (by decide) (by decide) (by decide)) h

theorem cl45last (icase : Bool) (acc prev : Nat) (st : Bool) (rest : List UInt8) :
    CL icase acc prev st (45 :: 93 :: rest) (.ok (flush icase (flush icase acc prev) 45, rest)) :=
  cl_char icase acc prev st 45 (93 :: rest) _ (gmt_dash_lit icase acc st (93 :: rest) (Or.inr rfl))
    (cl_fin icase (flush icase acc prev) 45 rest)

theorem cl_post (icase : Bool) (acc prev : Nat) (st : Bool) (S : Nat) (rest : List UInt8)
    (hst : st = true → listingPost S ≠ []) :
    CL icase acc prev st (listingPost S ++ 93 :: rest) (.ok (addPost icase (flush icase acc prev) S, rest)) := by
  unfold listingPost addPost
  by_cases b91 : S.testBit 91 = true <;> by_cases b94 : S.testBit 94 = true <;> by_cases b45 : S.testBit 45 = true <;>
    simp only [b91, b94, b45, if_true, if_false, Bool.false_eq_true, List.append_nil, List.nil_append,
      List.cons_append, List.append_assoc]
  · refine cl91 icase acc prev st 94 _ _ (by decide) (by decide) (by decide) ?_
    refine cl94 icase _ 91 false _ _ ?_
    have := cl45last icase (flush icase (flush icase acc prev) 91) 94 false rest
    simpa [flush_nz] using this
  · refine cl91 icase acc prev st 94 _ _ (by decide) (by decide) (by decide) ?_
    refine cl94 icase _ 91 false _ _ ?_
    have := cl_fin icase (flush icase (flush icase acc prev) 91) 94 rest
    simpa [flush_nz] using this
  · refine cl91 icase acc prev st 45 _ _ (by decide) (by decide) (by decide) ?_
    have := cl45last icase (flush icase acc prev) 91 false rest
    simpa [flush_nz] using this
  · refine cl91 icase acc prev st 93 _ _ (by decide) (by decide) (by decide) ?_
    have := cl_fin icase (flush icase acc prev) 91 rest
    simpa [flush_nz] using this
  · refine cl94 icase acc prev st _ _ ?_
    have := cl45last icase (flush icase acc prev) 94 false rest
    simpa [flush_nz] using this
  · refine cl94 icase acc prev st _ _ ?_
    have := cl_fin icase (flush icase acc prev) 94 rest
    simpa [flush_nz] using this
  · have := cl45last icase acc prev st rest
    simpa [flush_nz] using this
  · -- nothing listed here: the closing bracket must not be the first token
    have hsf : st = false := by
      cases st with
      | false => rfl
      | true =>
        exfalso
        have := hst rfl
        simp [listingPost, b91, b94, b45] at this
    subst hsf
    exact cl_fin icase acc prev rest

/-- the whole member listing followed by the closing bracket -/
theorem cl_listing (icase : Bool) (acc S : Nat) (rest : List UInt8) (hne : listing S ≠ []) :
    CL icase acc 0 true (listing S ++ 93 :: rest) (.ok (listingBm icase acc S, rest)) := by
  have hgood : ∀ r, r ∈ runs S → GoodRun r := fun r hr => (runs_mem hr).1
  unfold listing listingBm
  by_cases b93 : S.testBit 93 = true
  · simp only [b93, if_true, List.cons_append, List.nil_append, List.append_assoc]
    refine cl_char icase acc 0 true 93 _ _ (gmt_rbr_first icase acc _) ?_
    apply cl_runs icase (runs S) hgood
    intro acc' prev' st' hst hfl
    have hsf : st' = false := by
      cases st' with
      | false => rfl
      | true => exact absurd (hst rfl).1 (by simp)
    subst hsf
    have := cl_post icase acc' prev' false S rest (fun h => by cases h)
    rw [hfl] at this
    simpa [flush, flush_nz] using this
  · simp only [b93, Bool.false_eq_true, if_false, List.nil_append, List.append_assoc]
    apply cl_runs icase (runs S) hgood
    intro acc' prev' st' hst hfl
    have := cl_post icase acc' prev' st' S rest (by
      intro hs
      have hr := (hst hs).2
      intro hp
      apply hne
      simp [listing, b93, hr, hp])
    rw [hfl] at this
    simpa [flush] using this

theorem parseClass_listing (fl : PFlags) (S : Nat) (rest : List UInt8) (hne : listing S ≠ [])
    (hhead : (listing S).head? ≠ some 94) :
    parseClass fl (listing S ++ 93 :: rest) = .ok (listingBm fl.icase 0 S, rest) := by
  obtain ⟨c, t, hct⟩ : ∃ c t, listing S = c :: t := by
    cases h : listing S with
    | nil => exact absurd h hne
    | cons c t => exact ⟨c, t, rfl⟩
  have hc : c ≠ 94 := by
    intro h; apply hhead; rw [hct, h]; rfl
  have hcl := cl_listing fl.icase 0 S rest hne ((listing S ++ 93 :: rest).length + 1) (Nat.lt_succ_self _)
  rw [hct] at hcl ⊢
  simp only [List.cons_append] at hcl ⊢
  have hm : ((c :: (t ++ 93 :: rest)).head? == some 94) = false := by
    simp [hc]
  unfold parseClass
  simp only [hm, Bool.false_and, Bool.false_eq_true, if_false]
  rw [hcl]

theorem parseClass_negListing (fl : PFlags) (C : Nat) (rest : List UInt8) (hne : listing C ≠ []) :
    parseClass fl (94 :: (listing C ++ 93 :: rest)) =
      .ok (negate (listingBm fl.icase (if fl.newline then setBit 0 10 else 0) C), rest) := by
  have hcl := cl_listing fl.icase (if fl.newline then setBit 0 10 else 0) C rest hne
    ((listing C ++ 93 :: rest).length + 1) (Nat.lt_succ_self _)
  unfold parseClass
  have hm : ((94 :: (listing C ++ 93 :: rest)).head? == some 94) = true := by simp
  simp only [hm, Bool.true_and, if_true, List.tail_cons, hcl]

/-! ## from `classLoop` to `parseClass` -/

theorem parseClass_pos (fl : PFlags) (c : UInt8) (t : List UInt8) (hc : c ≠ 94) (bm : Nat) (rest : List UInt8)
    (h : CL fl.icase 0 0 true (c :: t) (.ok (bm, rest))) : parseClass fl (c :: t) = .ok (bm, rest) := by
  have hcl := h ((c :: t).length + 1) (Nat.lt_succ_self _)
  have hm : ((c :: t).head? == some 94) = false := by simp [hc]
  unfold parseClass
  simp only [hm, Bool.false_and, Bool.false_eq_true, if_false]
  rw [hcl]

theorem parseClass_neg (fl : PFlags) (t : List UInt8) (bm : Nat) (rest : List UInt8)
    (h : CL fl.icase (if fl.newline then setBit 0 10 else 0) 0 true t (.ok (bm, rest))) :
    parseClass fl (94 :: t) = .ok (negate bm, rest) := by
  have hcl := h (t.length + 1) (Nat.lt_succ_self _)
  have hm : ((94 :: t).head? == some 94) = true := by simp
  unfold parseClass
  simp only [hm, Bool.true_and, if_true, List.tail_cons, hcl]

/-! ## named classes -/

theorem fillClass_table (icase : Bool) (bm : Nat) (p : String × List UInt8) (hp : p ∈ classTable)
    (rest : List UInt8) :
    fillClass icase bm (p.2 ++ 58 :: 93 :: rest) classTable = .ok (fillNamed icase p.1 bm, rest) := by
  simp only [classTable, List.mem_cons, List.not_mem_nil, or_false] at hp
  rcases hp with rfl | rfl | rfl | rfl | rfl | rfl | rfl | rfl | rfl | rfl | rfl | rfl <;>
    simp [fillClass, classTable, startsWith]

/-- `[:name:]]` read from any accumulator -/
theorem cl_named (icase : Bool) (acc : Nat) (p : String × List UInt8) (hp : p ∈ classTable) (rest : List UInt8) :
    CL icase acc 0 true (91 :: 58 :: (p.2 ++ 58 :: 93 :: 93 :: rest)) (.ok (fillNamed icase p.1 acc, rest)) := by
  intro fuel hf
  obtain ⟨f, rfl⟩ : ∃ f, fuel = f + 2 := ⟨fuel - 2, by simp at hf; omega⟩
  have htok : getMapToken icase acc true (91 :: 58 :: (p.2 ++ 58 :: 93 :: 93 :: rest)) =
      .ok (.other, fillNamed icase p.1 acc, 93 :: rest) := by
    simp only [getMapToken, fillClass_table icase acc p hp (93 :: rest)]
  simp [classLoop, htok, gmt_rbr_fin]

/-! ## bits -/

theorem testBit_setBit (bm c x : Nat) : (setBit bm c).testBit x = (bm.testBit x || decide (c = x)) := by
  simp only [setBit, Nat.testBit_or, Nat.testBit_shiftLeft]
  congr 1
  by_cases h : c = x
  · subst h; simp
  · by_cases hle : c ≤ x
    · have : x - c ≠ 0 := by omega
      have h1 : Nat.testBit 1 (x - c) = false := by
        cases hb : Nat.testBit 1 (x - c) with
        | false => rfl
        | true => exact absurd (Nat.testBit_one_eq_true_iff_self_eq_zero.mp hb) this
      simp [h, hle, h1]
    · simp [h, hle]

theorem addChar_noicase (acc c : Nat) : addChar false acc c = setBit acc c := by simp [addChar]

theorem testBit_addRange (x : Nat) : ∀ (n lo acc : Nat),
    (addRange false n lo acc).testBit x = (acc.testBit x || decide (lo ≤ x ∧ x < lo + n)) := by
  intro n
  induction n with
  | zero => intro lo acc; simp [addRange]; intro h; omega
  | succ n ih =>
    intro lo acc
    simp only [addRange, ih, addChar_noicase, testBit_setBit, Bool.or_assoc]
    congr 1
    by_cases h1 : lo = x
    · subst h1; simp
    · by_cases h2 : lo + 1 ≤ x ∧ x < lo + 1 + n
      · have : lo ≤ x ∧ x < lo + (n + 1) := by omega
        simp [h1, h2, this]
      · have : ¬ (lo ≤ x ∧ x < lo + (n + 1)) := by omega
        simp [h1, h2, this]

theorem testBit_addRuns (x : Nat) : ∀ (rs : List (Nat × Nat)) (acc : Nat), (∀ r, r ∈ rs → r.1 ≤ r.2) →
    ((addRuns false acc rs).testBit x = true ↔ acc.testBit x = true ∨ ∃ r, r ∈ rs ∧ r.1 ≤ x ∧ x ≤ r.2) := by
  intro rs
  induction rs with
  | nil => intro acc _; simp [addRuns]
  | cons r rs ih =>
    intro acc hle
    rw [addRuns_cons, ih _ (fun y hy => hle y (List.mem_cons_of_mem _ hy)), testBit_addRange]
    have hr := hle r List.mem_cons_self
    simp only [Bool.or_eq_true, decide_eq_true_eq, List.mem_cons]
    constructor
    · rintro ((h | h) | ⟨y, hy, h⟩)
      · exact Or.inl h
      · exact Or.inr ⟨r, Or.inl rfl, h.1, by omega⟩
      · exact Or.inr ⟨y, Or.inr hy, h⟩
    · rintro (h | ⟨y, (rfl | hy), h⟩)
      · exact Or.inl (Or.inl h)
      · exact Or.inl (Or.inr ⟨h.1, by omega⟩)
      · exact Or.inr ⟨y, hy, h⟩

theorem testBit_optSet (b : Bool) (acc c x : Nat) :
    (if b = true then setBit acc c else acc).testBit x = true ↔ acc.testBit x = true ∨ (b = true ∧ c = x) := by
  cases b <;> simp [testBit_setBit]

theorem testBit_listingBm (S i : Nat) :
    (listingBm false 0 S).testBit i = true ↔
      ((((S.testBit 93 = true ∧ 93 = i) ∨ ∃ r, r ∈ runs S ∧ r.1 ≤ i ∧ i ≤ r.2) ∨ (S.testBit 91 = true ∧ 91 = i)) ∨
        (S.testBit 94 = true ∧ 94 = i)) ∨ (S.testBit 45 = true ∧ 45 = i) := by
  have hle : ∀ r, r ∈ runs S → r.1 ≤ r.2 := fun r hr => (runs_mem hr).1.le
  simp only [listingBm, addPost, addChar_noicase]
  rw [testBit_optSet, testBit_optSet, testBit_optSet, testBit_addRuns i _ _ hle, testBit_optSet]
  simp

/-- without flags the accumulated bitmap of the listing is the bitmap itself -/
theorem listingBm_noflags (S : Nat) (h256 : S < 2 ^ 256) (h0 : S.testBit 0 = false) : listingBm false 0 S = S := by
  apply Nat.eq_of_testBit_eq
  intro i
  have key : (listingBm false 0 S).testBit i = true ↔ S.testBit i = true := by
    rw [testBit_listingBm]
    constructor
    · rintro ((((⟨h, rfl⟩ | ⟨r, hr, h1, h2⟩) | ⟨h, rfl⟩) | ⟨h, rfl⟩) | ⟨h, rfl⟩)
      · exact h
      · exact (inRun_iff.mp ((runs_mem hr).2 i h1 h2)).1
      · exact h
      · exact h
      · exact h
    · intro h
      have hi0 : i ≠ 0 := by rintro rfl; rw [h0] at h; cases h
      have hi256 : i < 256 := by
        apply Nat.lt_of_not_ge
        intro hge
        have : S < 2 ^ i := Nat.lt_of_lt_of_le h256 (Nat.pow_le_pow_right (by decide) hge)
        rw [Nat.testBit_lt_two_pow this] at h; cases h
      by_cases e93 : i = 93
      · subst e93; exact Or.inl (Or.inl (Or.inl (Or.inl ⟨h, rfl⟩)))
      by_cases e91 : i = 91
      · subst e91; exact Or.inl (Or.inl (Or.inr ⟨h, rfl⟩))
      by_cases e94 : i = 94
      · subst e94; exact Or.inl (Or.inr ⟨h, rfl⟩)
      by_cases e45 : i = 45
      · subst e45; exact Or.inr ⟨h, rfl⟩
      obtain ⟨r, hr, h1, h2⟩ := runs_cover (bm := S) (x := i) (by omega) (by omega)
        (inRun_iff.mpr ⟨h, e45, e91, e93, e94⟩)
      exact Or.inl (Or.inl (Or.inl (Or.inr ⟨r, hr, h1, h2⟩)))
  cases hb : S.testBit i with
  | true => exact key.mpr hb
  | false =>
    cases hl : (listingBm false 0 S).testBit i with
    | false => rfl
    | true => rw [key.mp hl] at hb; cases hb

/-! ## which form the renderer chooses -/

theorem clsForm_named {bm : Nat} {n : String} {b : List UInt8} (h : clsForm bm = .named n b) :
    (n, b) ∈ classTable ∧ classBm n = bm := by
  unfold clsForm at h
  split at h
  · rename_i p hp
    cases h
    refine ⟨List.mem_of_find?_eq_some hp, ?_⟩
    have := List.find?_some hp
    simpa using this
  · split at h
    · cases h
    · split at h
      · cases h
      · split at h <;> cases h

theorem clsForm_negNamed {bm : Nat} {n : String} {b : List UInt8} (h : clsForm bm = .negNamed n b) :
    (n, b) ∈ classTable ∧ negate (classBm n) = bm := by
  unfold clsForm at h
  split at h
  · cases h
  · split at h
    · rename_i p hp
      cases h
      refine ⟨List.mem_of_find?_eq_some hp, ?_⟩
      have := List.find?_some hp
      simpa using this
    · split at h
      · cases h
      · split at h <;> cases h

theorem clsForm_negList {bm : Nat} (h : clsForm bm = .negList) : bm = 0 ∨ bm = 2 ^ 94 := by
  unfold clsForm at h
  split at h
  · cases h
  · split at h
    · cases h
    · split at h
      · assumption
      · split at h <;> cases h

theorem clsForm_dashCaret {bm : Nat} (h : clsForm bm = .dashCaret) : bm = 2 ^ 45 + 2 ^ 94 := by
  unfold clsForm at h
  split at h
  · cases h
  · split at h
    · cases h
    · split at h
      · cases h
      · split at h
        · assumption
        · cases h

theorem clsForm_posList {bm : Nat} (h : clsForm bm = .posList) :
    bm ≠ 0 ∧ bm ≠ 2 ^ 94 ∧ bm ≠ 2 ^ 45 + 2 ^ 94 := by
  unfold clsForm at h
  split at h
  · cases h
  · split at h
    · cases h
    · split at h
      · cases h
      · rename_i h1
        split at h
        · cases h
        · rename_i h2
          exact ⟨fun e => h1 (Or.inl e), fun e => h1 (Or.inr e), h2⟩

/-! ## the positive listing starts with something other than `^` -/

theorem ofNat_ne94 {n : Nat} (h : n ≤ 255) (hne : n ≠ 94) : UInt8.ofNat n ≠ 94 := by
  intro he
  have := congrArg UInt8.toNat he
  rw [toNat_ofNat_le h] at this
  exact hne (by simpa using this)

theorem listing_head (S : Nat) (h256 : S < 2 ^ 256) (h0 : S.testBit 0 = false)
    (hn0 : S ≠ 0) (hn1 : S ≠ 2 ^ 94) (hn2 : S ≠ 2 ^ 45 + 2 ^ 94) :
    listing S ≠ [] ∧ (listing S).head? ≠ some 94 := by
  unfold listing
  by_cases b93 : S.testBit 93 = true
  · simp [b93]
  · simp only [b93, Bool.false_eq_true, if_false, List.nil_append]
    cases hr : runs S with
    | cons r rs =>
      have hg := (runs_mem (by rw [hr]; exact List.mem_cons_self : r ∈ runs S))
      have h94 : r.1 ≠ 94 := (inRun_iff.mp (hg.2 r.1 (Nat.le_refl _) hg.1.le)).2.2.2.2
      have hl : r.1 ≤ 255 := by have := hg.1.le; have := hg.1.hi255; omega
      simp only [List.flatMap_cons, elemText]
      by_cases he : r.1 = r.2
      · simp [he]
        rw [← he]; exact ofNat_ne94 hl h94
      · simp [he]
        exact ofNat_ne94 hl h94
    | nil =>
      simp only [List.flatMap_nil, List.nil_append, listingPost]
      -- every member is one of `-`, `[`, `^`
      have hmem : ∀ i, S.testBit i = true → i = 45 ∨ i = 91 ∨ i = 94 := by
        intro i hi
        have hi0 : i ≠ 0 := by rintro rfl; rw [h0] at hi; cases hi
        have hi256 : i < 256 := by
          apply Nat.lt_of_not_ge
          intro hge
          have : S < 2 ^ i := Nat.lt_of_lt_of_le h256 (Nat.pow_le_pow_right (by decide) hge)
          rw [Nat.testBit_lt_two_pow this] at hi; cases hi
        by_cases e45 : i = 45
        · exact Or.inl e45
        by_cases e91 : i = 91
        · exact Or.inr (Or.inl e91)
        by_cases e94 : i = 94
        · exact Or.inr (Or.inr e94)
        have e93 : i ≠ 93 := by rintro rfl; exact b93 hi
        obtain ⟨r, hr', _⟩ := runs_cover (bm := S) (x := i) (by omega) (by omega)
          (inRun_iff.mpr ⟨hi, e45, e91, e93, e94⟩)
        rw [hr] at hr'; cases hr'
      by_cases b91 : S.testBit 91 = true
      · simp [b91]
      · have hmem' : ∀ i, S.testBit i = true → i = 45 ∨ i = 94 := by
          intro i hi
          rcases hmem i hi with h | h | h
          · exact Or.inl h
          · subst h; exact absurd hi b91
          · exact Or.inr h
        by_cases b94 : S.testBit 94 = true <;> by_cases b45 : S.testBit 45 = true
        · exfalso
          apply hn2
          have e : (2 ^ 45 + 2 ^ 94 : Nat) = 2 ^ 45 ||| 2 ^ 94 := by decide
          rw [e]
          apply Nat.eq_of_testBit_eq
          intro i
          rw [Nat.testBit_or, Nat.testBit_two_pow, Nat.testBit_two_pow]
          cases hb : S.testBit i with
          | true => rcases hmem' i hb with rfl | rfl <;> simp
          | false =>
            by_cases e1 : 45 = i
            · subst e1; rw [b45] at hb; cases hb
            · by_cases e2 : 94 = i
              · subst e2; rw [b94] at hb; cases hb
              · simp [e1, e2]
        · exfalso
          apply hn1
          apply Nat.eq_of_testBit_eq
          intro i
          rw [Nat.testBit_two_pow]
          cases hb : S.testBit i with
          | true =>
            rcases hmem' i hb with rfl | rfl
            · exact absurd hb b45
            · simp
          | false =>
            by_cases e2 : 94 = i
            · subst e2; rw [b94] at hb; cases hb
            · simp [e2]
        · simp [b91, b94, b45]
        · exfalso
          apply hn0
          apply Nat.eq_of_testBit_eq
          intro i
          rw [Nat.zero_testBit]
          cases hb : S.testBit i with
          | true =>
            rcases hmem' i hb with rfl | rfl
            · exact absurd hb b45
            · exact absurd hb b94
          | false => rfl

/-! ## the renderer is inverted by `op_class` -/

theorem negList_ne : listing (complBm 0) ≠ [] ∧ listing (complBm (2 ^ 94)) ≠ [] := by
  decide +kernel

theorem negList_val : ∀ ic nl : Bool,
    negate (listingBm ic (if nl = true then setBit 0 10 else 0) (complBm 0)) = 0 ∧
    negate (listingBm ic (if nl = true then setBit 0 10 else 0) (complBm (2 ^ 94))) = 2 ^ 94 := by
  decide +kernel

theorem dashCaret_val : ∀ ic : Bool, flush ic (flush ic (flush ic 0 0) 45) 94 = 2 ^ 45 + 2 ^ 94 := by
  decide +kernel

/-- **`op_class` reads back what `clsBody` writes**: the bitmap `normCls fl bm` (which is `bm`
itself without flags, see `normCls_noflags`) -/
theorem parseClass_clsBody (fl : PFlags) (bm : Nat) (h256 : bm < 2 ^ 256) (h0 : bm.testBit 0 = false)
    (rest : List UInt8) : parseClass fl (clsBody bm ++ rest) = .ok (normCls fl bm, rest) := by
  unfold clsBody normCls
  cases hf : clsForm bm with
  | named n b =>
    obtain ⟨hmem, _⟩ := clsForm_named hf
    simp only [List.cons_append, List.nil_append, List.append_assoc]
    exact parseClass_pos fl 91 _ (by decide) _ rest (cl_named fl.icase 0 (n, b) hmem rest)
  | negNamed n b =>
    obtain ⟨hmem, _⟩ := clsForm_negNamed hf
    simp only [List.cons_append, List.nil_append, List.append_assoc]
    have := parseClass_neg fl _ _ rest (cl_named fl.icase (if fl.newline then setBit 0 10 else 0) (n, b) hmem rest)
    simpa using this
  | negList =>
    simp only [List.cons_append, List.nil_append, List.append_assoc]
    rcases clsForm_negList hf with rfl | rfl
    · rw [parseClass_negListing fl _ rest negList_ne.1, (negList_val fl.icase fl.newline).1]
    · rw [parseClass_negListing fl _ rest negList_ne.2, (negList_val fl.icase fl.newline).2]
  | dashCaret =>
    have hb := clsForm_dashCaret hf
    simp only [List.cons_append, List.nil_append]
    refine parseClass_pos fl 45 _ (by decide) _ rest ?_
    refine cl_char fl.icase 0 0 true 45 _ _ (gmt_dash_lit fl.icase 0 true _ (Or.inl rfl)) ?_
    refine cl94 fl.icase _ 45 false _ _ ?_
    have := cl_fin fl.icase (flush fl.icase (flush fl.icase 0 0) 45) 94 rest
    rw [dashCaret_val fl.icase, ← hb] at this
    exact this
  | posList =>
    obtain ⟨n0, n1, n2⟩ := clsForm_posList hf
    obtain ⟨hne, hhead⟩ := listing_head bm h256 h0 n0 n1 n2
    simp only [List.append_assoc, List.cons_append, List.nil_append]
    exact parseClass_listing fl bm rest hne hhead

/-- without flags the renderer is inverted exactly -/
theorem normCls_noflags (bm : Nat) (h256 : bm < 2 ^ 256) (h0 : bm.testBit 0 = false) : normCls {} bm = bm := by
  unfold normCls
  cases hf : clsForm bm with
  | named n b => exact (clsForm_named hf).2
  | negNamed n b =>
    have := (clsForm_negNamed hf).2
    simpa [classBm] using this
  | negList => rfl
  | dashCaret => rfl
  | posList => exact listingBm_noflags bm h256 h0

end Usual.C04
