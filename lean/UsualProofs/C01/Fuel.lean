import UsualProofs.C01.AcctBool
import UsualProofs.C01.RunOut
/-! Fuel adequacy: with the fuel the public operations start from (`State.fuel`), no recursion of
the model runs out of fuel on a well-formed state.  Part 1: the climbs along the parent chain
(`apply_memlimit`, `throw_child`) and the walk down a subtree (`memlimit_walk`). -/
set_option linter.unusedSimpArgs false
set_option linter.unusedVariables false
namespace Usual.C01

theorem ancestors_step {s : State} {p p' : Nat} {o : Obj} (f : Nat) (hp : s.get p = some o)
    (hpar : o.parent = some p') : ancestors (f + 1) s p = p' :: ancestors f s p' := by
  simp [ancestors, hp, hpar]

theorem ancestors_root {s : State} {p : Nat} {o : Obj} (f : Nat) (hp : s.get p = some o)
    (hpar : o.parent = none) : ancestors (f + 1) s p = [] := by
  simp [ancestors, hp, hpar]

/-- the parent chain of a live chunk is shorter than the heap -/
theorem ancestors_length_le {rk : Nat → Nat} {s : State} (w : WFt s) (wr : Ranked rk s) (f : Nat) (x : Nat) :
    (ancestors f s x).length ≤ s.heap.length := by
  obtain ⟨c1, c2⟩ := ancestors_chain w wr f x
  refine length_le_of_nodup_lt _ _ ?_ (fun a ha => (c1 a ha).2)
  exact c2.imp (fun {a b} hab => by intro e; subst e; omega)

/-- `apply_memlimit` with enough fuel for the climb -/
theorem applyLim_fuel (cfg : Cfg) (s : State) (f : Nat) :
    ∀ (t : Option Id), (∀ p, t = some p → (ancestors f s p).length + 1 < f) → 0 < f →
      ∀ (d : Int) (force : Bool) (s' : State), applyLim cfg f s t d force = some s' → s'.oof = s.oof := by
  induction f with
  | zero => intro t _ h0; omega
  | succ f ih =>
    intro t ht _ d force s' h
    simp only [applyLim] at h
    cases t with
    | none => cases h; rfl
    | some p =>
      simp only [] at h
      cases hp : s.get p with
      | none => rw [hp] at h; cases h; rfl
      | some o =>
        rw [hp] at h
        simp only [] at h
        have hlen := ht p rfl
        -- the recursive climb
        have hrec : ∀ (d : Int) (force : Bool) (s'' : State), applyLim cfg f s o.parent d force = some s'' →
            s''.oof = s.oof := by
          cases hpar : o.parent with
          | none =>
            rw [ancestors_root f hp hpar] at hlen
            exact ih none (fun p h => by cases h) (by simp at hlen; omega)
          | some p' =>
            rw [ancestors_step f hp hpar] at hlen
            simp only [List.length_cons] at hlen
            exact ih (some p') (fun q hq => by cases hq; omega) (by omega)
        split at h
        · cases h; rfl
        · split at h
          · exact hrec _ _ _ h
          · split at h
            · split at h
              · exact hrec _ _ _ h
              · cases h; rfl
            · split at h
              · cases h; rfl
              · split at h
                · cases h
                · split at h
                  · cases h
                  · cases h
                    rename_i s'' hs''
                    rw [oof_modify]; exact hrec _ _ _ hs''

theorem applyLim_noOof {rk : Nat → Nat} {s : State} (w : WFt s) (wr : Ranked rk s) (cfg : Cfg) (S : State)
    (hS : S.heap.length = s.heap.length) (t : Option Id) (d : Int) (force : Bool) (s' : State)
    (h : applyLim cfg S.fuel s t d force = some s') : s'.oof = s.oof := by
  refine applyLim_fuel cfg s S.fuel t ?_ (by simp [State.fuel]) d force s' h
  intro p _
  have hf : S.fuel = 8 * s.heap.length + 16 := by simp [State.fuel, hS]
  have := ancestors_length_le w wr S.fuel p
  rw [hf] at this ⊢; omega

theorem applyLim_getD_noOof {rk : Nat → Nat} {s : State} (w : WFt s) (wr : Ranked rk s) (cfg : Cfg) (S : State)
    (hS : S.heap.length = s.heap.length) (t : Option Id) (d : Int) (force : Bool) :
    ((applyLim cfg S.fuel s t d force).getD s).oof = s.oof := by
  cases h : applyLim cfg S.fuel s t d force with
  | none => rfl
  | some s' => exact applyLim_noOof w wr cfg S hS t d force s' h

/-- `throw_child` finds the nearest ancestor that is not being freed before the fuel ends -/
theorem climbPending_fuel (s : State) (f : Nat) :
    ∀ (t : Option Id), (∀ p, t = some p → (ancestors f s p).length + 1 < f) → 0 < f →
      ∃ res, climbPending f s t = some res := by
  induction f with
  | zero => intro t _ h0; omega
  | succ f ih =>
    intro t ht _
    simp only [climbPending]
    cases t with
    | none => exact ⟨none, rfl⟩
    | some p =>
      simp only []
      cases hp : s.get p with
      | none => exact ⟨some p, rfl⟩
      | some o =>
        simp only []
        have hlen := ht p rfl
        split
        · cases hpar : o.parent with
          | none =>
            rw [ancestors_root f hp hpar] at hlen
            exact ih none (fun p h => by cases h) (by simp at hlen; omega)
          | some p' =>
            rw [ancestors_step f hp hpar] at hlen
            simp only [List.length_cons] at hlen
            exact ih (some p') (fun q hq => by cases hq; omega) (by omega)
        · exact ⟨some p, rfl⟩

theorem climbPending_some {rk : Nat → Nat} {s : State} (w : WFt s) (wr : Ranked rk s) (t : Option Id) :
    ∃ res, climbPending s.fuel s t = some res := by
  refine climbPending_fuel s s.fuel t ?_ (by simp [State.fuel])
  intro p _
  have hf : s.fuel = 8 * s.heap.length + 16 := by simp [State.fuel]
  have := ancestors_length_le w wr s.fuel p
  rw [hf] at this ⊢; omega


/-! ### `memlimit_walk` -/

theorem ancestors_parentOf (f : Nat) (s : State) (x : Nat) :
    ancestors (f + 1) s x = match parentOf s x with
      | none => []
      | some p => p :: ancestors f s p := by
  unfold parentOf
  cases hx : s.get x with
  | none => simp [ancestors, hx]
  | some o => cases hp : o.parent <;> simp [ancestors, hx, hp]

theorem ancestors_congr {s s' : State} (h : ∀ y, parentOf s' y = parentOf s y) (f : Nat) (x : Nat) :
    ancestors f s' x = ancestors f s x := by
  induction f generalizing x with
  | zero => rfl
  | succ f ih =>
    rw [ancestors_parentOf, ancestors_parentOf, h x]
    cases parentOf s x with
    | none => rfl
    | some p => simp only []; rw [ih]

/-- distance to the top -/
def dep (s : State) (x : Nat) : Nat := (ancestors s.heap.length s x).length

theorem dep_le {rk : Nat → Nat} {s : State} (w : WFt s) (wr : Ranked rk s) (x : Nat) : dep s x ≤ s.heap.length :=
  ancestors_length_le w wr _ x

theorem dep_child {rk : Nat → Nat} {s : State} (w : WFt s) (wr : Ranked rk s) {c t : Nat} {cb : Obj}
    (hc : s.get c = some cb) (hp : cb.parent = some t) : dep s c = dep s t + 1 := by
  unfold dep
  have hlt := lt_of_get s c cb hc
  obtain ⟨m, hm⟩ : ∃ m, s.heap.length = m + 1 := ⟨s.heap.length - 1, by omega⟩
  rw [hm, ancestors_step m hc hp, List.length_cons]
  rcases ancestors_complete m s t with hlen | hst
  · exfalso
    -- then `c` and its chain would be `heap.length + 1` distinct ids below `heap.length`
    obtain ⟨c1, c2⟩ := ancestors_chain w wr (m + 1) c
    have hnd : (c :: ancestors (m + 1) s c).Nodup := by
      rw [List.nodup_cons]
      refine ⟨fun hmem => by have := (c1 c hmem).1; omega, ?_⟩
      exact c2.imp (fun {a b} hab => by intro e; subst e; omega)
    have := length_le_of_nodup_lt _ s.heap.length hnd (by
      intro a ha
      rcases List.mem_cons.1 ha with rfl | ha
      · exact hlt
      · exact (c1 a ha).2)
    rw [ancestors_step m hc hp] at this
    simp only [List.length_cons, hlen] at this
    omega
  · have := hst 1
    rw [this]

theorem walkSync_parentOf (s : State) (t : Nat) (o : Obj) (op : WOp) (y : Nat) :
    parentOf (walkSync s t o op).1 y = parentOf s y :=
  (walkSync_eqButUse s t o op).parentOf y

/-- `memlimit_walk` with enough fuel for the depth below `t` -/
theorem walk_fuel {rk : Nat → Nat} (cfg : Cfg) (f : Nat) :
    ∀ (S : State) (t : Nat) (op : WOp), WFt S → Ranked rk S → dep S t + f ≥ S.heap.length + 1 →
      (walk cfg f S t op).1.oof = S.oof := by
  induction f with
  | zero =>
    intro S t op w wr h
    have := dep_le w wr t; omega
  | succ f ih =>
    intro S t op w wr h
    simp only [walk]
    cases ht : S.get t with
    | none => rfl
    | some tb =>
      simp only []
      split
      · rfl
      · have he0 := walkSync_eqButUse S t tb op
        have hfold : ∀ (l : List Id) (acc : State × Nat) (op1 : WOp), EqButUse S acc.1 →
            (∀ c ∈ l, c ∈ tb.children) →
            (l.foldl (fun (acc : State × Nat) c =>
              ((walk cfg f acc.1 c op1).1, acc.2 + (walk cfg f acc.1 c op1).2)) acc).1.oof = acc.1.oof := by
          intro l
          induction l with
          | nil => intro acc _ _ _; rfl
          | cons c l ihl =>
            intro acc op1 he hsub
            simp only [List.foldl_cons]
            have he2 := he.trans (walk_eqButUse cfg f acc.1 c op1)
            rw [ihl ((walk cfg f acc.1 c op1).1, acc.2 + (walk cfg f acc.1 c op1).2) op1 he2
              (fun d hd => hsub d (List.mem_cons_of_mem _ hd))]
            obtain ⟨cb, hcb, hcp, -⟩ := w.childBack t tb c ht (hsub c (by simp))
            have hdc : dep acc.1 c = dep S t + 1 := by
              unfold dep
              rw [he.1, ancestors_congr he.parentOf]
              exact dep_child w wr hcb hcp
            exact ih acc.1 c op1 (w.shapeEq he.shapeEq) (wr.shapeEq he.shapeEq) (by rw [hdc, he.1]; omega)
        rw [hfold tb.children _ _ he0 (fun c hc => hc)]
        cases op with
        | none => rfl
        | set => rfl
        | clear => simp only [walkSync]; split <;> rfl

theorem walk_noOof {rk : Nat → Nat} {s : State} (w : WFt s) (wr : Ranked rk s) (cfg : Cfg) (t : Nat) (op : WOp) :
    (walk cfg s.fuel s t op).1.oof = s.oof := by
  apply walk_fuel cfg s.fuel s t op w wr
  simp only [State.fuel]; omega


/-! ### composite steps -/

theorem oof_detach (s : State) (t : Nat) : (detach s t).oof = s.oof := by
  unfold detach
  split
  · rfl
  · split <;> rfl

theorem oof_addChild (s : State) (p : Option Id) (t : Nat) (b : Bool) : (addChild s p t b).oof = s.oof := by
  unfold addChild
  split <;> rfl

theorem applyLim_getD_length (cfg : Cfg) (f : Nat) (s : State) (t : Option Id) (d : Int) (force : Bool) :
    ((applyLim cfg f s t d force).getD s).heap.length = s.heap.length := by
  cases h : applyLim cfg f s t d force with
  | none => rfl
  | some s' => exact applyLim_length _ _ _ _ _ _ _ h

theorem moveApply_noOof {rk : Nat → Nat} {s1 : State} (w : WFt s1) (wr : Ranked rk s1) (cfg : Cfg) (S : State)
    (hS : S.heap.length = s1.heap.length) (t : Nat) (newp oldp : Option Id) (oldlim newlim : Bool) (delta : Nat) :
    (moveApply cfg S.fuel s1 t newp oldp oldlim newlim delta).oof = s1.oof := by
  unfold moveApply
  have h2 : (if oldlim = true then (applyLim cfg S.fuel s1 oldp (-(delta : Int)) true).getD s1 else s1).oof = s1.oof ∧
      ShapeEq s1 (if oldlim = true then (applyLim cfg S.fuel s1 oldp (-(delta : Int)) true).getD s1 else s1) ∧
      (if oldlim = true then (applyLim cfg S.fuel s1 oldp (-(delta : Int)) true).getD s1 else s1).heap.length =
        s1.heap.length := by
    split
    · exact ⟨applyLim_getD_noOof w wr cfg S hS _ _ _, applyLim_getD_shapeEq _ _ _ _ _ _, applyLim_getD_length _ _ _ _ _ _⟩
    · exact ⟨rfl, ShapeEq.refl _, rfl⟩
  simp only []
  generalize (if oldlim = true then (applyLim cfg S.fuel s1 oldp (-(delta : Int)) true).getD s1 else s1) = s2 at h2 ⊢
  obtain ⟨a1, a2, a3⟩ := h2
  split
  · rw [oof_modify, applyLim_getD_noOof (w.shapeEq a2) (wr.shapeEq a2) cfg S (hS.trans a3.symm), a1]
  · split
    · split
      · rw [oof_modify, a1]
      · exact a1
    · exact a1

theorem moveMemlimit_noOof {rk : Nat → Nat} {s : State} (w : WFt s) (wr : Ranked rk s) (cfg : Cfg) (t : Nat)
    (newp oldp : Option Id) : (moveMemlimit cfg s t newp oldp).oof = s.oof := by
  unfold moveMemlimit
  simp only []
  split
  · rfl
  · have he := walk_eqButUse cfg s.fuel s t (moveWalkOp (hasUse s oldp) (hasUse s newp))
    rw [moveApply_noOof (w.shapeEq he.shapeEq) (wr.shapeEq he.shapeEq) cfg s he.1.symm, walk_noOof w wr]

theorem oof_moveS (s : State) (t : Nat) (tnew : Option Id) (front : Bool) : (moveS s t tnew front).oof = s.oof := by
  unfold moveS
  rw [oof_modify, oof_addChild, oof_detach]

theorem moveChild_noOof {rk : Nat → Nat} {s : State} (cfg : Cfg) (t : Nat) (tb : Obj) (ht : s.get t = some tb)
    (tnew told : Option Id) (w : WFt (moveS s t tnew (isRef tb))) (wr : Ranked rk (moveS s t tnew (isRef tb))) :
    (moveChild cfg s t tnew told).oof = s.oof := by
  have he : moveChild cfg s t tnew told = moveMemlimit cfg (moveS s t tnew (isRef tb)) t tnew told := by
    unfold moveChild moveS; simp only [ht]
  rw [he, moveMemlimit_noOof w wr, oof_moveS]

theorem freeEnd_noOof {rk : Nat → Nat} {s3 : State} (cfg : Cfg) (x : Nat) (x3 : Obj) (hx : s3.get x = some x3)
    (hc : x3.children = []) (w : WFt (s3.remove x)) (wr : Ranked rk (s3.remove x)) :
    (freeEnd cfg s3 x).1.oof = s3.oof := by
  unfold freeEnd
  simp only [hx, hc, List.isEmpty_nil, if_true]
  have hsh : ShapeEq (s3.remove x) ((s3.remove x).addLog (.release x)) := shapeEq_addLog _ _
  rw [applyLim_getD_noOof (w.shapeEq hsh) (wr.shapeEq hsh) cfg _ rfl]
  rfl

end Usual.C01
