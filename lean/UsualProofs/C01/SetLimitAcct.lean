import UsualProofs.C01.ConfigAcct
/-! The accounting invariant under talloc_set_memlimit (all cases). -/
set_option linter.unusedSimpArgs false
set_option linter.unusedVariables false
namespace Usual.C01

/-- the outcomes of `hdr_alloc_cx` as far as the accounting is concerned -/
theorem hdrAlloc_cases {rk : Nat → Nat} {s : State} (cfg : Cfg) (i : InvT rk s) (af : AF s)
    (cx : Nat) (parent : Option Id) (len : Nat) (prepend : Bool) (kind : Kind) (fail : Bool)
    (hoof : (hdrAlloc cfg s cx parent len prepend kind fail).1.oof = false) :
    ((hdrAlloc cfg s cx parent len prepend kind fail).2 = false ∧
      AF (hdrAlloc cfg s cx parent len prepend kind fail).1) ∨
    ((hdrAlloc cfg s cx parent len prepend kind fail).2 = true ∧ ∃ s1,
      applyLim cfg s.fuel s (orNull s parent) (totalSize len : Int) false = some s1 ∧ s1.oof = false ∧
      (hdrAlloc cfg s cx parent len prepend kind fail).1 = allocS s1 (orNull s parent) prepend
        { parent := orNull s parent, kind := kind, size := len, cx := cx,
          useLim := hasUse s1 (orNull s parent) }) := by
  unfold hdrAlloc at hoof ⊢
  by_cases hlen : len > MAXLEN
  · left; simp only [hlen, if_true]; exact ⟨trivial, af⟩
  · simp only [hlen, if_false] at hoof ⊢
    cases ha : applyLim cfg s.fuel s (orNull s parent) (totalSize len : Int) false with
    | none => left; simp only []; exact ⟨trivial, af⟩
    | some s1 =>
      simp only [ha] at hoof ⊢
      have hl := applyLim_length _ _ _ _ _ _ _ ha
      cases fail with
      | true =>
        left
        simp only [if_true]
        refine ⟨trivial, ?_⟩
        have hgd : ∀ j : Nat, ((applyLim cfg s1.fuel s1 (orNull s parent) (-(totalSize len : Int)) false).getD s1).get j
            = s.get j := by
          intro j
          rw [fuel_eq_of_length hl]
          exact applyLim_rollback i cfg s.fuel s.fuel (orNull s parent) (totalSize len) (by omega) false s1 ha rfl j
        refine af_of_afields ?_ (fun y => by rw [hgd y]) af
        cases hb : applyLim cfg s1.fuel s1 (orNull s parent) (-(totalSize len : Int)) false with
        | none => simpa using hl
        | some s2 => simp only [Option.getD_some]; rw [applyLim_length _ _ _ _ _ _ _ hb, hl]
      | false =>
        right
        simp only [Bool.false_eq_true, if_false] at hoof ⊢
        refine ⟨trivial, s1, rfl, ?_, rfl⟩
        have := oof_allocS s1 (orNull s parent) prepend
          { parent := orNull s parent, kind := kind, size := len, cx := cx, useLim := hasUse s1 (orNull s parent) }
        unfold allocS at this; rw [this] at hoof; exact hoof

/-- flags after a `.memlimit` chunk has been linked under a context that had none -/
theorem flagsW_allocS {s1 : State} (w : WFt s1) (fl : FlagsInv s1) (o : Nat) (front : Bool) (nb : Obj)
    (hpl : o < s1.heap.length) (hnp : nb.parent = some o)
    (hnu : nb.useLim = hasUse s1 (some o)) (hnh : nb.hasLim = false)
    (hno : ∀ (l : Nat) lb, s1.get l = some lb → lb.kind = .limit → lb.parent ≠ some o) :
    FlagsInvW (allocS s1 (some o) front nb) o := by
  have hpl' : ∀ p, some o = some p → p < s1.heap.length := by intro p hp; cases hp; exact hpl
  have hnone : s1.get s1.heap.length = none := get_none_of_ge s1 _ (Nat.le_refl _)
  have hnew := allocS_new (some o) front nb hpl'
  have hparne : ∀ (y : Nat) yo, s1.get y = some yo → yo.parent ≠ some s1.heap.length := by
    intro y yo hy e
    obtain ⟨po, hpo, -⟩ := w.parentLive y yo _ hy e
    rw [hnone] at hpo; cases hpo
  constructor
  · intro x ob hx hh
    by_cases e : x = s1.heap.length
    · subst e; rw [hnew] at hx; cases hx; rw [hnh] at hh; cases hh
    · obtain ⟨o0, h0, -, -, e3, e4, -, -⟩ := allocS_old (some o) front nb hpl' hx e
      rw [e3]; exact fl.hasUse x o0 h0 (e4 ▸ hh)
  · intro x ob p po hx hp hpo hu hk
    have hpne : p ≠ s1.heap.length := by
      intro e; subst e
      by_cases e : x = s1.heap.length
      · subst e; rw [hnew] at hx; cases hx; rw [hnp] at hp; cases hp; exact absurd hpl (Nat.lt_irrefl _)
      · obtain ⟨o0, h0, e1, -⟩ := allocS_old (some o) front nb hpl' hx e
        exact hparne x o0 h0 (e1 ▸ hp)
    obtain ⟨po0, hp0, -, -, f3, -, -, -⟩ := allocS_old (some o) front nb hpl' hpo hpne
    by_cases e : x = s1.heap.length
    · subst e; rw [hnew] at hx; cases hx
      rw [hnu]; rw [hnp] at hp; cases hp; simp only [hasUse, hp0]; rw [← f3]; exact hu
    · obtain ⟨o0, h0, e1, e2, e3, -, -, -⟩ := allocS_old (some o) front nb hpl' hx e
      rw [e3]; exact fl.inherit x o0 p po0 h0 (e1 ▸ hp) hp0 (f3 ▸ hu) (e2 ▸ hk)
  · intro l lb ctx cb hco hl hk hp hc
    have hle : l ≠ s1.heap.length := by
      intro e; subst e; rw [hnew] at hl; cases hl; rw [hnp] at hp; cases hp; exact hco rfl
    obtain ⟨l0, h0, e1, e2, -, -, -, -⟩ := allocS_old (some o) front nb hpl' hl hle
    have hce : ctx ≠ s1.heap.length := by intro e; subst e; exact hparne l l0 h0 (e1 ▸ hp)
    obtain ⟨c0, hc0, -, -, -, f4, -, -⟩ := allocS_old (some o) front nb hpl' hc hce
    rw [f4]; exact fl.chunkHas l l0 ctx c0 h0 (e2 ▸ hk) (e1 ▸ hp) hc0
  · intro l1 l2 b1 b2 ctx h1 h2 k1 k2 p1 p2
    by_cases e1 : l1 = s1.heap.length
    · by_cases e2 : l2 = s1.heap.length
      · rw [e1, e2]
      · exfalso
        subst e1; rw [hnew] at h1; cases h1; rw [hnp] at p1; cases p1
        obtain ⟨a2, g2, f1, f2, -, -, -, -⟩ := allocS_old (some o) front nb hpl' h2 e2
        exact hno l2 a2 g2 (f2 ▸ k2) (f1 ▸ p2)
    · by_cases e2 : l2 = s1.heap.length
      · exfalso
        subst e2; rw [hnew] at h2; cases h2; rw [hnp] at p2; cases p2
        obtain ⟨a1, g1, f1, f2, -, -, -, -⟩ := allocS_old (some o) front nb hpl' h1 e1
        exact hno l1 a1 g1 (f2 ▸ k1) (f1 ▸ p1)
      · obtain ⟨a1, g1, e1', e2', -, -, -, -⟩ := allocS_old (some o) front nb hpl' h1 e1
        obtain ⟨a2, g2, f1, f2, -, -, -, -⟩ := allocS_old (some o) front nb hpl' h2 e2
        exact fl.chunkUnique l1 l2 a1 a2 ctx g1 g2 (e2' ▸ k1) (f2 ▸ k2) (e1' ▸ p1) (f1 ▸ p2)


/-- `talloc_set_memlimit(o, max)` -/
theorem setLimit_acct {rk : Nat → Nat} {s : State} (cfg : Cfg) (ok : CfgOK cfg) (hs : cfg.fixSet = true)
    (w : WF s) (wr : Ranked rk s) (af : AF s) (o : Nat) (max : Nat) (fail : Bool) (ho : UserObj s o)
    (hoof : (step cfg s (.setLimit o max fail)).1.oof = false) :
    AF (step cfg s (.setLimit o max fail)).1 := by
  simp only [step] at hoof ⊢
  by_cases hmax : max = 0
  · subst hmax; exact setLimit_lift_acct cfg ok w wr af o fail ho hoof
  obtain ⟨ob, hob, hok, honull⟩ := ho
  have i : InvT rk s := ⟨w.toWFp.tree, wr⟩
  simp only [setLimit, hob, hmax, if_false] at hoof ⊢
  cases hlim : (if ob.hasLim = true then findLim s ob.children else none) with
  | some l =>
    simp only [hlim] at hoof ⊢
    have hl' : findLim s ob.children = some l := by
      split at hlim
      · exact hlim
      · cases hlim
    obtain ⟨hm, lb, hlb, hlk⟩ := findLim_spec s _ l hl'
    obtain ⟨lb', hlb', hlp, -⟩ := w.childBack o ob l hob hm
    rw [hlb] at hlb'; cases hlb'
    exact acct_configure cfg ok.walk hs i w.noPending o ob hob hok l lb hlb hlk hlp (af.2.toW o)
      (fun l' lb' ctx h1 h2 h3 _ => af.1 l' lb' ctx h1 h2 h3) max hoof
  | none =>
    simp only [hlim] at hoof ⊢
    -- no chunk hangs under `o`
    have hno : ∀ (l : Nat) lb, s.get l = some lb → lb.kind = .limit → lb.parent ≠ some o := by
      intro l lb hl hk hp
      obtain ⟨pb, hpb, -, hm⟩ := w.parentLive l lb o hl hp
      rw [hob] at hpb; cases hpb
      have hm' : l ∈ ob.children := by
        rcases hm with h | h
        · exact h
        · rw [w.noPending l lb hl] at h; cases h
      have hhas := af.2.chunkHas l lb o ob hl hk hp hob
      rw [hhas] at hlim; simp only [if_true] at hlim
      exact findLim_none_spec s _ hlim l hm' lb hl hk
    cases hr : (hdrAlloc cfg s ob.cx (some o) LIMSIZE true .limit fail).2 with
    | false =>
      simp only [hr, Bool.false_eq_true, if_false] at hoof ⊢
      rcases hdrAlloc_cases cfg i af ob.cx (some o) LIMSIZE true .limit fail hoof with ⟨-, h⟩ | ⟨h, -⟩
      · exact h
      · rw [hr] at h; cases h
    | true =>
      simp only [hr, if_true] at hoof ⊢
      have hoofA : (hdrAlloc cfg s ob.cx (some o) LIMSIZE true .limit fail).1.oof = false := by
        have hsh := setLimitConfigure_shapeEq cfg (hdrAlloc cfg s ob.cx (some o) LIMSIZE true .limit fail).1
          o s.heap.length max
        unfold setLimitConfigure at hoof
        simp only [hs, if_true] at hoof
        rw [oof_modify] at hoof
        have h1 := cfgFold_flagsLe cfg
          (childrenOf (((hdrAlloc cfg s ob.cx (some o) LIMSIZE true .limit fail).1.modify s.heap.length fun x =>
            { x with lmax := max, lcur := 0 }).modify o fun x => { x with useLim := true, hasLim := true }) o)
          ((((hdrAlloc cfg s ob.cx (some o) LIMSIZE true .limit fail).1.modify s.heap.length fun x =>
            { x with lmax := max, lcur := 0 }).modify o fun x => { x with useLim := true, hasLim := true }), 0)
        exact oof_false_of_le h1 hoof
      rcases hdrAlloc_cases cfg i af ob.cx (some o) LIMSIZE true .limit fail hoofA with ⟨h, -⟩ | ⟨-, s1, ha, hoof1, heq⟩
      · rw [hr] at h; cases h
      · have hon : orNull s (some o) = some o := rfl
        rw [hon] at ha heq
        rw [heq] at hoof ⊢
        have hsh := applyLim_shapeEq _ _ _ _ _ _ _ ha
        have hlen := applyLim_length _ _ _ _ _ _ _ ha
        have hctx : UserCtx s (some o) := by
          intro x hx; cases hx; exact ⟨ob, hob, hok, honull⟩
        obtain ⟨w2, rk', wr2, -⟩ := alloc_plain_wf w wr hsh (some o) hctx true
          { parent := some o, kind := .limit, size := LIMSIZE, cx := ob.cx, useLim := hasUse s1 (some o) }
          rfl rfl rfl rfl rfl (Or.inr rfl) (by simp)
        rw [hon] at w2 wr2
        have hol : o < s1.heap.length := by rw [hlen]; exact lt_of_get s o ob hob
        have hpl : ∀ p, some o = some p → p < s1.heap.length := by intro p hp; cases hp; exact hol
        obtain ⟨ob1, hob1, -, -, -, e4, -, -⟩ := hsh.get hob
        have hgo := allocS_get s1 (some o) true
          { parent := some o, kind := .limit, size := LIMSIZE, cx := ob.cx, useLim := hasUse s1 (some o) } hpl o
        simp only [Nat.ne_of_lt hol, if_false, if_true, hob1, Option.map_some] at hgo
        have hgn := allocS_new (some o) true
          { parent := some o, kind := .limit, size := LIMSIZE, cx := ob.cx, useLim := hasUse s1 (some o) } hpl
        have fl1 : FlagsInv s1 := (applyLim_eqButCur i cfg _ _ _ false s1 ha).flags af.2
        have hno1 : ∀ (l : Nat) lb, s1.get l = some lb → lb.kind = .limit → lb.parent ≠ some o := by
          intro l lb hl hk hp
          obtain ⟨lb0, hl0, f1, -, -, f4, -, -⟩ := hsh.symm.get hl
          exact hno l lb0 hl0 (f4 ▸ hk) (f1 ▸ hp)
        rw [← hlen] at hoof ⊢
        refine acct_configure cfg ok.walk hs (rk := rk') ⟨w2.toWFp.tree, wr2⟩ w2.noPending o _ hgo (by rw [e4]; exact hok)
          s1.heap.length _ hgn rfl rfl
          (flagsW_allocS (i.shapeEq hsh).wf fl1 o true _ hol rfl rfl rfl hno1) ?_ max hoof
        intro l' lb' ctx h1 h2 h3 hne
        exact acct_add_leaf i af.2 af.1 cfg ok.gone (some o)
          (by intro p hp; cases hp; exact ⟨ob, hob, hok⟩) LIMSIZE s1 ha hoof1 true _ rfl rfl l' lb' ctx h1 h2 h3 hne

end Usual.C01
