import UsualProofs.C01.WalkFlags
/-! Ancestors before and after a chunk `t` got a new parent. -/
set_option linter.unusedSimpArgs false
set_option linter.unusedVariables false
namespace Usual.C01

/-- the parent pointers of `s3` are those of `s` except at `t` -/
structure Moved (s s3 : State) (t : Nat) : Prop where
  same : ∀ y, y ≠ t → parentOf s3 y = parentOf s y

theorem InSub.of_parent {s : State} {t y p : Nat} (hp : parentOf s y = some p) (h : InSub s t p) : InSub s t y := by
  rcases h with rfl | h
  · exact Or.inr (Anc.parent hp)
  · exact Or.inr (Anc.up hp h)

/-- (M1) outside the moved subtree nothing changes -/
theorem anc_move_outside {s s3 : State} {t : Nat} (m : Moved s s3 t) (a y : Nat) (hy : ¬ InSub s t y) :
    Anc s3 a y ↔ Anc s a y := by
  have hyt : y ≠ t := fun e => hy (Or.inl e)
  constructor
  · intro h
    induction h with
    | @parent x p hp =>
      have hxt : x ≠ t := fun e => hy (Or.inl e)
      rw [m.same x hxt] at hp; exact Anc.parent hp
    | @up x p a hp _ ih =>
      have hxt : x ≠ t := fun e => hy (Or.inl e)
      rw [m.same x hxt] at hp
      exact Anc.up hp (ih (fun h => hy (InSub.of_parent hp h)) (fun e => hy (InSub.of_parent hp (Or.inl e))))
  · intro h
    induction h with
    | @parent x p hp =>
      have hxt : x ≠ t := fun e => hy (Or.inl e)
      exact Anc.parent (by rw [m.same x hxt]; exact hp)
    | @up x p a hp _ ih =>
      have hxt : x ≠ t := fun e => hy (Or.inl e)
      exact Anc.up (by rw [m.same x hxt]; exact hp)
        (ih (fun h => hy (InSub.of_parent hp h)) (fun e => hy (InSub.of_parent hp (Or.inl e))))

/-- (M2/M4) chains that end inside the moved subtree are the same -/
theorem anc_move_inside {rk : Nat → Nat} {s s3 : State} {t : Nat} (m : Moved s s3 t) (wr : Ranked rk s)
    (wr3 : Ranked rk s3) (a y : Nat) (ha : InSub s t a) : Anc s3 a y ↔ Anc s a y := by
  constructor
  · intro h
    induction h with
    | @parent x p hp =>
      -- x ≠ t, otherwise the new parent p of t would be t or beneath t
      have hxt : x ≠ t := by
        intro e; subst e
        have h1 := wr3.parentLt
        obtain ⟨xb, hx, hpp⟩ := parentOf_some hp
        have := h1 x xb p hx hpp
        rcases ha with rfl | ha
        · omega
        · have := ha.rank wr; omega
      rw [m.same x hxt] at hp; exact Anc.parent hp
    | @up x p a hp hanc ih =>
      have hxt : x ≠ t := by
        intro e; subst e
        obtain ⟨xb, hx, hpp⟩ := parentOf_some hp
        have h1 := wr3.parentLt x xb p hx hpp
        have h2 := hanc.rank wr3
        rcases ha with rfl | ha
        · omega
        · have := ha.rank wr; omega
      rw [m.same x hxt] at hp
      exact Anc.up hp (ih ha)
  · intro h
    induction h with
    | @parent x p hp =>
      have hxt : x ≠ t := by
        intro e; subst e
        obtain ⟨xb, hx, hpp⟩ := parentOf_some hp
        have h1 := wr.parentLt x xb p hx hpp
        rcases ha with rfl | ha
        · omega
        · have := ha.rank wr; omega
      exact Anc.parent (by rw [m.same x hxt]; exact hp)
    | @up x p a hp hanc ih =>
      have hxt : x ≠ t := by
        intro e; subst e
        obtain ⟨xb, hx, hpp⟩ := parentOf_some hp
        have h1 := wr.parentLt x xb p hx hpp
        have h2 := hanc.rank wr
        rcases ha with rfl | ha
        · omega
        · have := ha.rank wr; omega
      exact Anc.up (by rw [m.same x hxt]; exact hp) (ih ha)

/-- the moved subtree is the same set -/
theorem inSub_move {rk : Nat → Nat} {s s3 : State} {t : Nat} (m : Moved s s3 t) (wr : Ranked rk s)
    (wr3 : Ranked rk s3) (y : Nat) : InSub s3 t y ↔ InSub s t y := by
  unfold InSub
  rw [anc_move_inside m wr wr3 t y (Or.inl rfl)]

/-- (M3) seen from outside, a chunk of the subtree of `t` is beneath exactly what `t` is beneath -/
theorem anc_above_sub {rk : Nat → Nat} {s : State} (wr : Ranked rk s) {t a y : Nat} (hy : InSub s t y)
    (ha : ¬ InSub s t a) : Anc s a y ↔ Anc s a t := by
  constructor
  · intro h
    rcases hy with rfl | hy
    · exact h
    · rcases Anc.comparable h hy with e | e | e
      · exact absurd (Or.inl e) ha
      · exact e
      · exact absurd (Or.inr e) ha
  · intro h
    rcases hy with rfl | hy
    · exact h
    · exact h.trans hy

theorem anc_iff_parent {s : State} (a t : Nat) :
    Anc s a t ↔ ∃ p, parentOf s t = some p ∧ (a = p ∨ Anc s a p) := by
  constructor
  · intro h
    obtain ⟨p, hp, hor⟩ := h.cases_parent
    exact ⟨p, hp, hor.imp Eq.symm id⟩
  · rintro ⟨p, hp, rfl | h⟩
    · exact Anc.parent hp
    · exact Anc.up hp h


open Finset in
open Classical in
/-- Σ charge over the subtree of `t` -/
noncomputable def subCharge (s : State) (t : Nat) : Nat :=
  ∑ y ∈ range s.heap.length, if InSub s t y then chargeAt s y else 0

open Finset in
open Classical in
/-- the charge beneath a context inside the moved subtree does not change -/
theorem chargeUnder_move_inside {rk : Nat → Nat} {s s3 : State} {t : Nat} (m : Moved s s3 t) (wr : Ranked rk s)
    (wr3 : Ranked rk s3) (hlen : s3.heap.length = s.heap.length)
    (hsz : ∀ y : Nat, (s3.get y).map (·.size) = (s.get y).map (·.size))
    (ctx l : Nat) (hctx : InSub s t ctx) : chargeUnder s3 ctx l = chargeUnder s ctx l := by
  unfold chargeUnder
  rw [hlen]
  apply Finset.sum_congr rfl
  intro y _
  rw [chargeAt_eq (hsz y)]
  have han := anc_move_inside m wr wr3 ctx y hctx
  by_cases hc : y ≠ l ∧ Anc s ctx y
  · rw [if_pos hc, if_pos ⟨hc.1, han.2 hc.2⟩]
  · rw [if_neg hc, if_neg (fun h => hc ⟨h.1, han.1 h.2⟩)]

open Finset in
open Classical in
/-- the charge beneath a context outside the moved subtree: minus the subtree if the context was
above `t`, plus the subtree if it is above `t` now -/
theorem chargeUnder_move_outside {rk : Nat → Nat} {s s3 : State} {t : Nat} (m : Moved s s3 t) (wr : Ranked rk s)
    (wr3 : Ranked rk s3) (hlen : s3.heap.length = s.heap.length)
    (hsz : ∀ y : Nat, (s3.get y).map (·.size) = (s.get y).map (·.size))
    (ctx l : Nat) (hctx : ¬ InSub s t ctx) (hl : ¬ InSub s t l) :
    chargeUnder s3 ctx l + (if Anc s ctx t then subCharge s t else 0) =
      chargeUnder s ctx l + (if Anc s3 ctx t then subCharge s t else 0) := by
  have hctx3 : ¬ InSub s3 t ctx := fun h => hctx ((inSub_move m wr wr3 ctx).1 h)
  have hf1 : (if Anc s ctx t then subCharge s t else 0) =
      ∑ y ∈ range s.heap.length, if InSub s t y ∧ Anc s ctx t then chargeAt s y else 0 := by
    unfold subCharge
    by_cases h : Anc s ctx t
    · rw [if_pos h]; apply Finset.sum_congr rfl; intro y _; simp [h]
    · rw [if_neg h]; symm; apply Finset.sum_eq_zero; intro y _; simp [h]
  have hf2 : (if Anc s3 ctx t then subCharge s t else 0) =
      ∑ y ∈ range s.heap.length, if InSub s t y ∧ Anc s3 ctx t then chargeAt s y else 0 := by
    unfold subCharge
    by_cases h : Anc s3 ctx t
    · rw [if_pos h]; apply Finset.sum_congr rfl; intro y _; simp [h]
    · rw [if_neg h]; symm; apply Finset.sum_eq_zero; intro y _; simp [h]
  rw [hf1, hf2]
  unfold chargeUnder
  rw [hlen, ← Finset.sum_add_distrib, ← Finset.sum_add_distrib]
  apply Finset.sum_congr rfl
  intro y _
  rw [chargeAt_eq (hsz y)]
  by_cases hy : InSub s t y
  · -- inside: beneath ctx iff t is
    have hy3 : InSub s3 t y := (inSub_move m wr wr3 y).2 hy
    have hyl : y ≠ l := fun e => hl (e ▸ hy)
    have e1 : Anc s ctx y ↔ Anc s ctx t := anc_above_sub wr hy hctx
    have e3 : Anc s3 ctx y ↔ Anc s3 ctx t := anc_above_sub wr3 hy3 hctx3
    by_cases h1 : Anc s ctx t <;> by_cases h3 : Anc s3 ctx t <;>
      simp [hy, hyl, e1, e3, h1, h3]
  · -- outside: unchanged
    have e : Anc s3 ctx y ↔ Anc s ctx y := anc_move_outside m ctx y hy
    simp only [hy, false_and, if_false, Nat.add_zero]
    by_cases hc : y ≠ l ∧ Anc s ctx y
    · rw [if_pos hc, if_pos ⟨hc.1, e.2 hc.2⟩]
    · rw [if_neg hc, if_neg (fun h => hc ⟨h.1, e.1 h.2⟩)]

end Usual.C01
