import UsualProofs.C01.Heap
/-! The destructor / release log: a destructor never runs again once it has accepted, nothing is
released twice, and an object whose destructor accepted is released by the same call.  Proved
for every history of public operations, any arguments, any configuration of the model. -/
set_option linter.unusedSimpArgs false
set_option linter.unusedVariables false
namespace Usual.C01

/-- well-formed logs (newest event first) -/
inductive LogWF : List Event → Prop
  | nil : LogWF []
  | ok (x : Id) (log : List Event) : LogWF log → Event.dtorOk x ∉ log → Event.release x ∉ log →
      LogWF (Event.dtorOk x :: log)
  | refuse (x : Id) (log : List Event) : LogWF log → Event.dtorOk x ∉ log → Event.release x ∉ log →
      LogWF (Event.dtorRefuse x :: log)
  | release (x : Id) (log : List Event) : LogWF log → Event.release x ∉ log → LogWF (Event.release x :: log)

def evId : Event → Id
  | .dtorOk x => x
  | .dtorRefuse x => x
  | .release x => x

structure LogInv (s : State) : Prop where
  wf : LogWF s.log
  bound : ∀ e ∈ s.log, evId e < s.heap.length
  relDead : ∀ x, Event.release x ∈ s.log → s.get x = none
  okRel : ∀ x, Event.dtorOk x ∈ s.log → Event.release x ∈ s.log ∨ ∃ xb, s.get x = some xb ∧ xb.pending = true

/-- a step that logs nothing, releases nothing and clears no FLAG_PENDING -/
structure Frame (s s' : State) : Prop where
  log : s'.log = s.log
  len : s.heap.length ≤ s'.heap.length
  dead : ∀ x : Nat, x < s.heap.length → s.get x = none → s'.get x = none
  same : ∀ (x : Nat) xb, s.get x = some xb → ∃ xb', s'.get x = some xb' ∧ xb'.dtor = xb.dtor ∧ xb'.pending = xb.pending
  stuck : s'.stuck = s.stuck

theorem Frame.refl (s : State) : Frame s s :=
  ⟨rfl, Nat.le_refl _, fun _ _ h => h, fun x xb h => ⟨xb, h, rfl, rfl⟩, rfl⟩

theorem Frame.trans {a b c : State} (h1 : Frame a b) (h2 : Frame b c) : Frame a c := by
  refine ⟨h2.log.trans h1.log, Nat.le_trans h1.len h2.len, ?_, ?_, h2.stuck.trans h1.stuck⟩
  · intro x hx hn; exact h2.dead x (Nat.lt_of_lt_of_le hx h1.len) (h1.dead x hx hn)
  · intro x xb hx
    obtain ⟨xb1, h3, h4, h5⟩ := h1.same x xb hx
    obtain ⟨xb2, h6, h7, h8⟩ := h2.same x xb1 h3
    exact ⟨xb2, h6, h7.trans h4, h8.trans h5⟩

theorem LogInv.frame {s s' : State} (i : LogInv s) (f : Frame s s') : LogInv s' := by
  refine ⟨by rw [f.log]; exact i.wf, ?_, ?_, ?_⟩
  · intro e he; rw [f.log] at he; exact Nat.lt_of_lt_of_le (i.bound e he) f.len
  · intro x hx; rw [f.log] at hx
    exact f.dead x (i.bound _ hx) (i.relDead x hx)
  · intro x hx; rw [f.log] at hx ⊢
    rcases i.okRel x hx with h | ⟨xb, h1, h2⟩
    · exact Or.inl h
    · obtain ⟨xb', h3, -, h4⟩ := f.same x xb h1
      exact Or.inr ⟨xb', h3, by rw [h4]; exact h2⟩

/-- a field update that touches neither FLAG_PENDING nor the destructor slot -/
theorem frame_modify (s : State) (i : Nat) (f : Obj → Obj)
    (hf : ∀ x : Obj, (f x).dtor = x.dtor ∧ (f x).pending = x.pending) :
    Frame s (s.modify i f) := by
  refine ⟨rfl, by simp, ?_, ?_, rfl⟩
  · intro x _ hn
    rw [get_modify]; split
    · rw [hn]; rfl
    · exact hn
  · intro x xb hx
    rw [get_modify]; split
    · rw [hx]; exact ⟨f xb, rfl, (hf xb).1, (hf xb).2⟩
    · exact ⟨xb, hx, rfl, rfl⟩

/-- any field update that clears no FLAG_PENDING keeps the log invariant -/
theorem LogInv.modify {s : State} (i : LogInv s) (j : Nat) (f : Obj → Obj)
    (hf : ∀ x : Obj, x.pending = true → (f x).pending = true) : LogInv (s.modify j f) := by
  refine ⟨i.wf, ?_, ?_, ?_⟩
  · intro e he; simp only [length_modify]; exact i.bound e he
  · intro x hx
    have := i.relDead x hx
    rw [get_modify]; split
    · rw [this]; rfl
    · exact this
  · intro x hx
    rcases i.okRel x hx with h | ⟨xb, h1, h2⟩
    · exact Or.inl h
    · right
      rw [get_modify]; split
      · rw [h1]; exact ⟨f xb, rfl, hf xb h2⟩
      · exact ⟨xb, h1, h2⟩

theorem frame_setOof (s : State) : Frame s s.setOof :=
  ⟨rfl, Nat.le_refl _, fun _ _ h => h, fun x xb h => ⟨xb, h, rfl, rfl⟩, rfl⟩
/-- the ghost flag `stuck` is no part of the log invariant -/
theorem LogInv.setStuck {s : State} (i : LogInv s) : LogInv s.setStuck := ⟨i.wf, i.bound, i.relDead, i.okRel⟩

theorem frame_detach (s : State) (t : Nat) : Frame s (detach s t) := by
  unfold detach
  split
  · exact Frame.refl _
  · split
    · exact Frame.refl _
    · exact frame_modify s _ _ (fun _ => ⟨rfl, rfl⟩)

theorem frame_addChild (s : State) (p : Option Id) (t : Nat) (b : Bool) : Frame s (addChild s p t b) := by
  unfold addChild
  split
  · exact Frame.refl _
  · exact frame_modify s _ _ (fun _ => ⟨rfl, rfl⟩)


theorem frame_applyLim (cfg : Cfg) (f : Nat) (s : State) (t : Option Id) (d : Int) (force : Bool) (s' : State)
    (h : applyLim cfg f s t d force = some s') : Frame s s' := by
  induction f generalizing s t s' with
  | zero => simp only [applyLim] at h; cases h; exact frame_setOof s
  | succ f ih =>
    simp only [applyLim] at h
    split at h
    · cases h; exact Frame.refl s
    · split at h
      · cases h; exact Frame.refl s
      · split at h
        · cases h; exact Frame.refl s
        · split at h
          · exact ih _ _ _ h
          · split at h
            · split at h
              · exact ih _ _ _ h
              · cases h; exact Frame.refl s
            · split at h
              · cases h; exact Frame.refl s
              · split at h
                · cases h
                · split at h
                  · cases h
                  · cases h
                    rename_i s'' hs''
                    exact (ih _ _ _ hs'').trans (frame_modify _ _ _ (fun _ => ⟨rfl, rfl⟩))

theorem frame_applyLim_getD (cfg : Cfg) (f : Nat) (s : State) (t : Option Id) (d : Int) (force : Bool) :
    Frame s ((applyLim cfg f s t d force).getD s) := by
  cases h : applyLim cfg f s t d force with
  | none => exact Frame.refl s
  | some s' => exact frame_applyLim cfg f s t d force s' h

theorem frame_walkSync (s : State) (t : Nat) (o : Obj) (op : WOp) : Frame s (walkSync s t o op).1 := by
  cases op with
  | none => exact Frame.refl s
  | set => exact frame_modify s t _ (fun _ => ⟨rfl, rfl⟩)
  | clear =>
    simp only [walkSync]
    split
    · exact Frame.refl s
    · exact frame_modify s t _ (fun _ => ⟨rfl, rfl⟩)

theorem frame_walk (cfg : Cfg) (f : Nat) (s : State) (t : Nat) (op : WOp) : Frame s (walk cfg f s t op).1 := by
  induction f generalizing s t op with
  | zero => simp only [walk]; exact frame_setOof s
  | succ f ih =>
    simp only [walk]
    split
    · exact Frame.refl s
    · split
      · exact Frame.refl s
      · rename_i o _ _
        have hfold : ∀ (l : List Id) (acc : State × Nat) (op1 : WOp), Frame acc.1
            (l.foldl (fun (acc : State × Nat) c =>
              ((walk cfg f acc.1 c op1).1, acc.2 + (walk cfg f acc.1 c op1).2)) acc).1 := by
          intro l
          induction l with
          | nil => intro acc _; exact Frame.refl _
          | cons c l ihl =>
            intro acc op1
            simp only [List.foldl_cons]
            exact (ih acc.1 c op1).trans
              (ihl ((walk cfg f acc.1 c op1).1, acc.2 + (walk cfg f acc.1 c op1).2) op1)
        exact (frame_walkSync s t o op).trans
          (hfold o.children ((walkSync s t o op).1, 0) (walkSync s t o op).2)

theorem frame_moveApply (cfg : Cfg) (fuel : Nat) (s1 : State) (t : Nat) (newp oldp : Option Id)
    (oldlim newlim : Bool) (delta : Nat) : Frame s1 (moveApply cfg fuel s1 t newp oldp oldlim newlim delta) := by
  unfold moveApply
  have h2 : Frame s1 (if oldlim = true then (applyLim cfg fuel s1 oldp (-(delta : Int)) true).getD s1 else s1) := by
    split
    · exact frame_applyLim_getD _ _ _ _ _ _
    · exact Frame.refl _
  simp only []
  split
  · exact h2.trans ((frame_applyLim_getD _ _ _ _ _ _).trans (frame_modify _ _ _ (fun _ => ⟨rfl, rfl⟩)))
  · split
    · split
      · exact h2.trans (frame_modify _ _ _ (fun _ => ⟨rfl, rfl⟩))
      · exact h2
    · exact h2

theorem frame_moveMemlimit (cfg : Cfg) (s : State) (t : Nat) (newp oldp : Option Id) :
    Frame s (moveMemlimit cfg s t newp oldp) := by
  unfold moveMemlimit
  simp only []
  split
  · exact Frame.refl s
  · exact (frame_walk _ _ _ _ _).trans (frame_moveApply _ _ _ _ _ _ _ _ _)

theorem frame_moveChild (cfg : Cfg) (s : State) (t : Nat) (tnew told : Option Id) :
    Frame s (moveChild cfg s t tnew told) := by
  unfold moveChild
  split
  · exact Frame.refl s
  · rename_i tb _
    simp only []
    exact (frame_detach s t).trans ((frame_addChild (detach s t) tnew t (isRef tb)).trans
      ((frame_modify (addChild (detach s t) tnew t (isRef tb)) t (fun x => { x with parent := tnew })
        (fun _ => ⟨rfl, rfl⟩)).trans (frame_moveMemlimit _ _ _ _ _)))

theorem frame_reparent (cfg : Cfg) (s : State) (oldp newp : Option Id) (o : Nat) :
    Frame s (reparent cfg s oldp newp o).1 := by
  unfold reparent
  split
  · exact Frame.refl s
  · simp only []
    split
    · exact Frame.refl s
    · split
      · exact Frame.refl s
      · split
        · exact Frame.refl s
        · split
          · exact Frame.refl s
          · exact frame_moveChild _ _ _ _ _

theorem frame_throwChild (cfg : Cfg) (s : State) (t : Nat) : Frame s (throwChild cfg s t) := by
  unfold throwChild
  split
  · exact Frame.refl s
  · split
    · exact frame_setOof s
    · split
      · simp only []
        split
        · exact frame_moveChild _ _ _ _ _
        · exact Frame.refl s
      · exact frame_reparent _ _ _ _ _

theorem frame_promoteMove (cfg : Cfg) (s : State) (o : Nat) (ob rb : Obj) (rest : List Id) (tp : Option Id) :
    Frame s (promoteMove cfg s o ob rb rest tp) := by
  unfold promoteMove
  simp only []
  have h4 : Frame s (addChild (((detach (s.modify o fun x => { x with refs := rest }) o).modify o
      fun x => { x with parent := rb.parent })) rb.parent o (isRef ob)) :=
    (frame_modify s o (fun x => { x with refs := rest }) (fun _ => ⟨rfl, rfl⟩)).trans
      ((frame_detach (s.modify o fun x => { x with refs := rest }) o).trans
        ((frame_modify (detach (s.modify o fun x => { x with refs := rest }) o) o
          (fun x => { x with parent := rb.parent }) (fun _ => ⟨rfl, rfl⟩)).trans (frame_addChild _ _ _ _)))
  split
  · exact h4.trans (frame_moveMemlimit _ _ _ _ _)
  · exact h4

theorem logInv_loopEnter {s : State} (i : LogInv s) (o c : Nat) : LogInv (loopEnter s o c) := by
  unfold loopEnter
  split
  · exact i
  · exact i.setStuck


theorem stuck_freeBegin (s : State) (o : Nat) (ob : Obj) (d' : Dtor) (logged : Bool) :
    (freeBegin s o ob d' logged).stuck = s.stuck := by
  unfold freeBegin
  simp only []
  rw [(frame_detach _ o).stuck]
  cases ob.kind <;> cases logged <;> rfl

theorem stuck_freeEnd (cfg : Cfg) (s3 : State) (o : Nat) (ob3 : Obj) (h : s3.get o = some ob3)
    (hc : ob3.children = []) : (freeEnd cfg s3 o).1.stuck = s3.stuck := by
  unfold freeEnd
  simp only [h, hc, List.isEmpty_nil, if_true]
  exact (frame_applyLim_getD _ _ _ _ _ _).stuck

/-- a live object that is not being freed has neither an accepted destructor call nor a release
in the log -/
theorem LogInv.fresh {s : State} (i : LogInv s) {o : Nat} {ob : Obj} (ho : s.get o = some ob)
    (hnp : ob.pending = false) : Event.dtorOk o ∉ s.log ∧ Event.release o ∉ s.log := by
  have h2 : Event.release o ∉ s.log := by
    intro h; have := i.relDead o h; rw [ho] at this; cases this
  refine ⟨?_, h2⟩
  intro h
  rcases i.okRel o h with h' | ⟨xb, h3, h4⟩
  · exact h2 h'
  · rw [ho] at h3; cases h3; rw [hnp] at h4; cases h4

theorem LogInv.addOk {s : State} (i : LogInv s) {o : Nat} {xb : Obj} (hx : s.get o = some xb)
    (hp : xb.pending = true) (h1 : Event.dtorOk o ∉ s.log) (h2 : Event.release o ∉ s.log) :
    LogInv (s.addLog (.dtorOk o)) := by
  refine ⟨LogWF.ok o _ i.wf h1 h2, ?_, ?_, ?_⟩
  · intro e he
    rcases List.mem_cons.1 he with rfl | he
    · exact lt_of_get s o xb hx
    · exact i.bound e he
  · intro x hx'
    rcases List.mem_cons.1 hx' with h | h
    · cases h
    · exact i.relDead x h
  · intro x hx'
    rcases List.mem_cons.1 hx' with h | h
    · cases h; exact Or.inr ⟨xb, hx, hp⟩
    · rcases i.okRel x h with h' | h'
      · exact Or.inl (List.mem_cons_of_mem _ h')
      · exact Or.inr h'

theorem LogInv.addRefuse {s : State} (i : LogInv s) {o : Nat} {xb : Obj} (hx : s.get o = some xb)
    (h1 : Event.dtorOk o ∉ s.log) (h2 : Event.release o ∉ s.log) :
    LogInv (s.addLog (.dtorRefuse o)) := by
  refine ⟨LogWF.refuse o _ i.wf h1 h2, ?_, ?_, ?_⟩
  · intro e he
    rcases List.mem_cons.1 he with rfl | he
    · exact lt_of_get s o xb hx
    · exact i.bound e he
  · intro x hx'
    rcases List.mem_cons.1 hx' with h | h
    · cases h
    · exact i.relDead x h
  · intro x hx'
    rcases List.mem_cons.1 hx' with h | h
    · cases h
    · rcases i.okRel x h with h' | h'
      · exact Or.inl (List.mem_cons_of_mem _ h')
      · exact Or.inr h'

theorem LogInv.release {s : State} (i : LogInv s) {o : Nat} {xb : Obj} (hx : s.get o = some xb) :
    LogInv ((s.remove o).addLog (.release o)) := by
  have h2 : Event.release o ∉ s.log := by
    intro h; have := i.relDead o h; rw [hx] at this; cases this
  refine ⟨LogWF.release o _ i.wf h2, ?_, ?_, ?_⟩
  · intro e he
    simp only [heap_addLog, length_remove]
    rcases List.mem_cons.1 he with rfl | he
    · exact lt_of_get s o xb hx
    · exact i.bound e he
  · intro x hx'
    simp only [get_addLog, get_remove]
    rcases List.mem_cons.1 hx' with h | h
    · cases h; simp
    · split
      · rfl
      · exact i.relDead x h
  · intro x hx'
    rcases List.mem_cons.1 hx' with h | h
    · cases h
    · by_cases e : o = x
      · subst e; exact Or.inl (by simp)
      · rcases i.okRel x h with h' | ⟨yb, h3, h4⟩
        · exact Or.inl (List.mem_cons_of_mem _ h')
        · exact Or.inr ⟨yb, by simp [e, h3], h4⟩

theorem logInv_freeBegin {s : State} (i : LogInv s) (o : Nat) (ob : Obj) (d' : Dtor) (logged : Bool)
    (ho : s.get o = some ob) (hnp : ob.pending = false) : LogInv (freeBegin s o ob d' logged) := by
  obtain ⟨f1, f2⟩ := i.fresh ho hnp
  unfold freeBegin
  simp only []
  have i0 : LogInv (s.modify o fun x => { x with dtor := d', pending := true }) :=
    i.modify o _ (fun _ _ => rfl)
  have h0 : (s.modify o fun x => { x with dtor := d', pending := true }).get o =
      some { ob with dtor := d', pending := true } := by simp [ho]
  have i1 : LogInv (if logged = true then (s.modify o fun x => { x with dtor := d', pending := true }).addLog
      (.dtorOk o) else (s.modify o fun x => { x with dtor := d', pending := true })) := by
    split
    · exact i0.addOk h0 rfl f1 f2
    · exact i0
  refine LogInv.frame ?_ (frame_detach _ o)
  split
  · exact i1.frame (frame_modify _ _ _ (fun _ => ⟨rfl, rfl⟩))
  · exact i1

theorem logInv_freeEnd {s3 : State} (cfg : Cfg) (i : LogInv s3) (o : Nat) : LogInv (freeEnd cfg s3 o).1 := by
  unfold freeEnd
  split
  · exact i
  · rename_i ob3 h3
    simp only []
    have i3 : LogInv (if ob3.children.isEmpty = true then s3 else s3.setStuck) := by
      split
      · exact i
      · exact i.setStuck
    have h3' : (if ob3.children.isEmpty = true then s3 else s3.setStuck).get o = some ob3 := by
      split
      · exact h3
      · exact h3
    exact (i3.release h3').frame (frame_applyLim_getD _ _ _ _ _ _)

/-- **the log through `_talloc_free` / `_talloc_unlink` / `free_children`** -/
theorem run_logInv (cfg : Cfg) (f : Nat) : ∀ (s : State) (c : Call), LogInv s → LogInv (run cfg f s c).1 := by
  induction f with
  | zero => intro s c i; simp only [run]; exact i.frame (frame_setOof s)
  | succ f ih =>
    intro s c i
    cases c with
    | free o =>
      simp only [run]
      split
      · exact i
      · rename_i ob ho
        split
        · split
          · exact i
          · split
            · split
              · exact ih _ _ i
              · exact i
            · exact i
        · split
          · exact i
          · rename_i hnp
            have hnp' : ob.pending = false := by simpa using hnp
            obtain ⟨f1, f2⟩ := i.fresh ho hnp'
            split
            · -- the destructor refuses
              rename_i d' _ _
              have i0 : LogInv (s.modify o fun x => { x with dtor := d' }) :=
                i.modify o _ (fun _ h => h)
              exact i0.addRefuse (xb := { ob with dtor := d' }) (by simp [ho]) f1 f2
            · exact logInv_freeEnd cfg (ih _ _ (logInv_freeBegin i o ob _ _ ho hnp')) o
    | unlink ctx o =>
      simp only [run]
      split
      · exact i
      · split
        · split
          · exact ih _ _ i
          · exact i
        · split
          · exact ih _ _ i
          · split
            · exact i
            · exact ih _ _ (i.frame (frame_promoteMove _ _ _ _ _ _ _))
    | loop o fn cur =>
      simp only [run]
      split
      · exact i
      · rename_i c
        have i1 := logInv_loopEnter i o c
        split
        · exact i1
        · split
          · exact ih _ _ i1
          · apply ih
            split
            · exact (ih _ _ i1).frame (frame_throwChild _ _ _)
            · exact ih _ _ i1


theorem frame_push (s : State) (nb : Obj) : Frame s (s.push nb) := by
  refine ⟨rfl, by simp, ?_, ?_, rfl⟩
  · intro x hx hn; rw [get_push]; simp only [Nat.ne_of_lt hx, if_false]; exact hn
  · intro x xb hx
    have := lt_of_get s x xb hx
    exact ⟨xb, by rw [get_push]; simp only [Nat.ne_of_lt this, if_false]; exact hx, rfl, rfl⟩

theorem frame_withNull (s : State) (n : Option Id) : Frame s { s with nullCtx := n } :=
  ⟨rfl, Nat.le_refl _, fun _ _ h => h, fun x xb h => ⟨xb, h, rfl, rfl⟩, rfl⟩

theorem frame_hdrAlloc (cfg : Cfg) (s : State) (cx : Nat) (parent : Option Id) (len : Nat) (prepend : Bool)
    (kind : Kind) (fail : Bool) : Frame s (hdrAlloc cfg s cx parent len prepend kind fail).1 := by
  unfold hdrAlloc
  split
  · exact Frame.refl s
  · simp only []
    split
    · exact Frame.refl s
    · rename_i s1 h1
      have f1 := frame_applyLim _ _ _ _ _ _ _ h1
      split
      · exact f1.trans (frame_applyLim_getD _ _ _ _ _ _)
      · exact f1.trans ((frame_push s1 _).trans (frame_addChild _ _ _ _))

theorem frame_setLimitConfigure (cfg : Cfg) (s : State) (o l : Nat) (max : Nat) :
    Frame s (setLimitConfigure cfg s o l max) := by
  unfold setLimitConfigure
  simp only []
  have h3 : Frame s ((s.modify l fun x => { x with lmax := max, lcur := 0 }).modify o
      fun x => { x with useLim := true, hasLim := true }) :=
    (frame_modify s l (fun x => { x with lmax := max, lcur := 0 }) (fun _ => ⟨rfl, rfl⟩)).trans
      (frame_modify (s.modify l fun x => { x with lmax := max, lcur := 0 }) o
        (fun x => { x with useLim := true, hasLim := true }) (fun _ => ⟨rfl, rfl⟩))
  generalize ((s.modify l fun x => { x with lmax := max, lcur := 0 }).modify o
      fun x => { x with useLim := true, hasLim := true }) = s3 at h3 ⊢
  have hfold : ∀ (cs : List Id) (acc : State × Nat), Frame acc.1 (cs.foldl
      (fun (acc : State × Nat) c =>
        match acc.1.get c with
        | some cb =>
          if isLimit cb then acc
          else ((walk cfg acc.1.fuel acc.1 c WOp.set).1, acc.2 + (walk cfg acc.1.fuel acc.1 c WOp.set).2)
        | none => acc) acc).1 := by
    intro cs
    induction cs with
    | nil => intro acc; exact Frame.refl _
    | cons c cs ih =>
      intro acc
      simp only [List.foldl_cons]
      refine Frame.trans ?_ (ih _)
      split
      · split
        · exact Frame.refl _
        · exact frame_walk _ _ _ _ _
      · exact Frame.refl _
  split
  · exact h3.trans ((hfold (childrenOf s3 o) (s3, 0)).trans (frame_modify _ l _ (fun _ => ⟨rfl, rfl⟩)))
  · exact h3

/-- **the log through every public operation** (any arguments, any configuration) -/
theorem step_logInv (cfg : Cfg) (s : State) (op : Op) (i : LogInv s) : LogInv (step cfg s op).1 := by
  cases op with
  | alloc p sz fc fl => simp only [step]; exact i.frame (frame_hdrAlloc _ _ _ _ _ _ _ _)
  | free o => exact run_logInv cfg _ s _ i
  | freeChildren o => simp only [step]; exact run_logInv cfg _ s _ i
  | reference ctx o fl =>
    simp only [step]
    split
    · exact i
    · have i1 := i.frame (frame_hdrAlloc cfg s (cxOf s ctx) ctx REFSIZE true (.ref o) fl)
      split
      · exact i1.frame (frame_modify _ o _ (fun _ => ⟨rfl, rfl⟩))
      · exact i1
  | unlink ctx o => exact run_logInv cfg _ s _ i
  | steal np o =>
    simp only [step]
    split
    · exact i
    · split
      · exact i
      · exact i.frame (frame_reparent _ _ _ _ _)
  | reparent op' np o => simp only [step]; exact i.frame (frame_reparent _ _ _ _ _)
  | realloc p o sz fl =>
    simp only [step]
    split
    · exact i
    · split
      · exact run_logInv cfg _ s _ i
      · split
        · exact i
        · split
          · exact i
          · split
            · exact i
            · split
              · exact i
              · rename_i s1 h1
                have i1 := i.frame (frame_applyLim _ _ _ _ _ _ _ h1)
                split
                · exact i1.frame (frame_applyLim_getD _ _ _ _ _ _)
                · exact i1.frame (frame_modify _ o _ (fun _ => ⟨rfl, rfl⟩))
  | setDtor o d =>
    simp only [step]
    split
    · exact i
    · exact i.modify o _ (fun _ h => h)
  | setLimit o mx fl =>
    simp only [step, setLimit]
    split
    · exact i
    · split
      · have i1 := i.frame (frame_modify s o (fun x => { x with hasLim := false }) (fun _ => ⟨rfl, rfl⟩))
        split
        · exact run_logInv cfg _ _ _ i1
        · exact i1
      · split
        · exact i.frame (frame_setLimitConfigure _ _ _ _ _)
        · rename_i ob _ _ _ _
          have i1 := i.frame (frame_hdrAlloc cfg s ob.cx (some o) LIMSIZE true .limit fl)
          split
          · exact i1.frame (frame_setLimitConfigure _ _ _ _ _)
          · exact i1
  | nullOn fl =>
    simp only [step]
    split
    · exact i
    · have i1 := i.frame (frame_hdrAlloc cfg s 0 none 0 false .plain fl)
      split
      · exact i1.frame (frame_withNull _ _)
      · exact i1
  | nullOff =>
    simp only [step]
    split
    · exact i
    · rename_i n _
      simp only []
      have hfold : ∀ (cs : List Id) (acc : State), Frame acc
          (cs.foldl (fun (acc : State) c => acc.modify c fun x => { x with parent := none }) acc) := by
        intro cs
        induction cs with
        | nil => intro acc; exact Frame.refl _
        | cons c cs ih =>
          intro acc
          simp only [List.foldl_cons]
          exact (frame_modify acc c (fun x => { x with parent := none }) (fun _ => ⟨rfl, rfl⟩)).trans (ih _)
      have i2 := (i.frame (hfold (childrenOf s n) s)).frame
        (frame_modify _ n (fun x => { x with children := [] }) (fun _ => ⟨rfl, rfl⟩))
      exact (run_logInv cfg _ _ _ i2).frame (frame_withNull _ _)

theorem logInv_empty : LogInv {} := by
  refine ⟨LogWF.nil, ?_, ?_, ?_⟩
  · intro e he; exact absurd he (List.not_mem_nil)
  · intro x hx; exact absurd hx (List.not_mem_nil)
  · intro x hx; exact absurd hx (List.not_mem_nil)

theorem runOps_logInv (cfg : Cfg) (ops : List Op) : ∀ s, LogInv s → LogInv (runOps cfg s ops) := by
  induction ops with
  | nil => intro s i; exact i
  | cons op ops ih => intro s i; simp only [runOps]; exact ih _ (step_logInv cfg s op i)


/-- in a well-formed log every object has at most one accepted destructor call and one release -/
theorem LogWF.counts {log : List Event} (h : LogWF log) (x : Id) :
    log.count (Event.release x) ≤ 1 ∧ log.count (Event.dtorOk x) ≤ 1 := by
  induction h with
  | nil => simp
  | ok y log _ h1 h2 ih =>
    refine ⟨by rw [List.count_cons]; simp; exact ih.1, ?_⟩
    rw [List.count_cons]
    by_cases e : y = x
    · subst e; rw [List.count_eq_zero.2 h1]; simp
    · have : (Event.dtorOk y == Event.dtorOk x) = false := by simp [e]
      rw [this]; simp; exact ih.2
  | refuse y log _ h1 h2 ih =>
    exact ⟨by rw [List.count_cons]; simp; exact ih.1, by rw [List.count_cons]; simp; exact ih.2⟩
  | release y log _ h2 ih =>
    refine ⟨?_, by rw [List.count_cons]; simp; exact ih.2⟩
    rw [List.count_cons]
    by_cases e : y = x
    · subst e; rw [List.count_eq_zero.2 h2]; simp
    · have : (Event.release y == Event.release x) = false := by simp [e]
      rw [this]; simp; exact ih.1


/-! ## released with a destructor set ⇒ the destructor has run -/

/-- every tracked object has had its destructor accept, or is still live, not being freed, with a
destructor set -/
def DtorDue (T : Id → Prop) (s : State) : Prop :=
  ∀ x, T x → Event.dtorOk x ∈ s.log ∨ ∃ xb, s.get x = some xb ∧ xb.dtor ≠ .none ∧ xb.pending = false

def LogLe (s s' : State) : Prop := ∀ e ∈ s.log, e ∈ s'.log

theorem LogLe.refl (s : State) : LogLe s s := fun _ h => h
theorem LogLe.trans {a b c : State} (h1 : LogLe a b) (h2 : LogLe b c) : LogLe a c := fun e h => h2 e (h1 e h)
theorem Frame.logLe {s s' : State} (f : Frame s s') : LogLe s s' := fun e h => by rw [f.log]; exact h

theorem DtorDue.frame {T : Id → Prop} {s s' : State} (h : DtorDue T s) (f : Frame s s') : DtorDue T s' := by
  intro x hx
  rcases h x hx with h1 | ⟨xb, h1, h2, h3⟩
  · exact Or.inl (f.logLe _ h1)
  · obtain ⟨xb', h4, h5, h6⟩ := f.same x xb h1
    exact Or.inr ⟨xb', h4, by rw [h5]; exact h2, by rw [h6]; exact h3⟩

theorem DtorDue.setStuck {T : Id → Prop} {s : State} (h : DtorDue T s) : DtorDue T s.setStuck := h

theorem dtorStep_logged {d d' : Dtor} {a l : Bool} (h : dtorStep d = (a, d', l)) (hd : d ≠ .none) :
    l = true ∧ d' ≠ .none := by
  cases d with
  | none => exact absurd rfl hd
  | accept => simp only [dtorStep, Prod.mk.injEq] at h; obtain ⟨-, rfl, rfl⟩ := h; simp
  | reenter => simp only [dtorStep, Prod.mk.injEq] at h; obtain ⟨-, rfl, rfl⟩ := h; simp
  | refuse n =>
    cases n with
    | zero => simp only [dtorStep, Prod.mk.injEq] at h; obtain ⟨-, rfl, rfl⟩ := h; simp
    | succ n => simp only [dtorStep, Prod.mk.injEq] at h; obtain ⟨-, rfl, rfl⟩ := h; simp

theorem logLe_modify (s : State) (i : Nat) (f : Obj → Obj) : LogLe s (s.modify i f) := fun _ h => h

theorem logLe_freeBegin (s : State) (o : Nat) (ob : Obj) (d' : Dtor) (logged : Bool) :
    LogLe s (freeBegin s o ob d' logged) := by
  unfold freeBegin
  simp only []
  refine LogLe.trans ?_ (frame_detach _ o).logLe
  have h1 : LogLe s (if logged = true then (s.modify o fun x => { x with dtor := d', pending := true }).addLog
      (.dtorOk o) else (s.modify o fun x => { x with dtor := d', pending := true })) := by
    split
    · intro e he; exact List.mem_cons_of_mem _ he
    · intro e he; exact he
  split
  · exact h1.trans (logLe_modify _ _ _)
  · exact h1

/-- `freeBegin` touches the destructor slot and FLAG_PENDING of `o` only -/
theorem same_freeBegin (s : State) (o : Nat) (ob : Obj) (d' : Dtor) (logged : Bool) (x : Nat) (xb : Obj)
    (hne : x ≠ o) (hx : s.get x = some xb) :
    ∃ xb', (freeBegin s o ob d' logged).get x = some xb' ∧ xb'.dtor = xb.dtor ∧ xb'.pending = xb.pending := by
  unfold freeBegin
  simp only []
  generalize hS1 : (if logged = true then (s.modify o fun y => { y with dtor := d', pending := true }).addLog
      (.dtorOk o) else (s.modify o fun y => { y with dtor := d', pending := true })) = S1
  have h1 : S1.get x = some xb := by
    rw [← hS1]
    split
    · simp [Ne.symm hne, hx]
    · simp [Ne.symm hne, hx]
  cases hk : ob.kind with
  | ref tgt =>
    simp only []
    obtain ⟨xb1, h4, h5, h6⟩ := (frame_modify S1 tgt (fun y => { y with refs := y.refs.erase o })
      (fun _ => ⟨rfl, rfl⟩)).same x xb h1
    obtain ⟨xb', h7, h8, h9⟩ := (frame_detach (S1.modify tgt fun y => { y with refs := y.refs.erase o }) o).same x xb1 h4
    exact ⟨xb', h7, h8.trans h5, h9.trans h6⟩
  | plain => simp only []; exact (frame_detach S1 o).same x xb h1
  | limit => simp only []; exact (frame_detach S1 o).same x xb h1

theorem dtorDue_freeBegin {T : Id → Prop} {s : State} (h : DtorDue T s) (o : Nat) (ob : Obj) (a : Bool) (d' : Dtor)
    (logged : Bool) (ho : s.get o = some ob) (hds : dtorStep ob.dtor = (a, d', logged)) :
    DtorDue T (freeBegin s o ob d' logged) ∧ (T o → Event.dtorOk o ∈ (freeBegin s o ob d' logged).log) := by
  have hle := logLe_freeBegin s o ob d' logged
  have hoo : T o → Event.dtorOk o ∈ (freeBegin s o ob d' logged).log := by
    intro ht
    rcases h o ht with h1 | ⟨xb, h1, h2, -⟩
    · exact hle _ h1
    · rw [ho] at h1; cases h1
      obtain ⟨hl, -⟩ := dtorStep_logged hds h2
      subst hl
      unfold freeBegin
      simp only [if_true]
      apply (frame_detach _ o).logLe
      split
      · exact logLe_modify _ _ _ _ (by simp)
      · simp
  refine ⟨?_, hoo⟩
  intro x hx
  by_cases e : x = o
  · subst e; exact Or.inl (hoo hx)
  · rcases h x hx with h1 | ⟨xb, h1, h2, h3⟩
    · exact Or.inl (hle _ h1)
    · right
      obtain ⟨xb', h4, h5, h6⟩ := same_freeBegin s o ob d' logged x xb e h1
      exact ⟨xb', h4, by rw [h5]; exact h2, by rw [h6]; exact h3⟩

theorem dtorDue_freeEnd {T : Id → Prop} {s3 : State} (cfg : Cfg) (h : DtorDue T s3) (o : Nat)
    (ho : T o → Event.dtorOk o ∈ s3.log) :
    LogLe s3 (freeEnd cfg s3 o).1 ∧ DtorDue T (freeEnd cfg s3 o).1 := by
  unfold freeEnd
  split
  · exact ⟨LogLe.refl _, h⟩
  · rename_i ob3 h3
    simp only []
    have f1 : LogLe s3 (if ob3.children.isEmpty = true then s3 else s3.setStuck) ∧
        DtorDue T (if ob3.children.isEmpty = true then s3 else s3.setStuck) := by
      split
      · exact ⟨LogLe.refl _, h⟩
      · exact ⟨fun _ he => he, h.setStuck⟩
    generalize (if ob3.children.isEmpty = true then s3 else s3.setStuck) = s3' at f1
    have h' := f1.2
    have l1 : LogLe s3' ((s3'.remove o).addLog (.release o)) := fun e he => List.mem_cons_of_mem _ he
    have d1 : DtorDue T ((s3'.remove o).addLog (.release o)) := by
      intro x hx
      by_cases e : x = o
      · subst e; exact Or.inl (l1 _ (f1.1 _ (ho hx)))
      · rcases h' x hx with h1 | ⟨xb, h1, h2, h3⟩
        · exact Or.inl (l1 _ h1)
        · exact Or.inr ⟨xb, by simp [Ne.symm e, h1], h2, h3⟩
    have f2 := frame_applyLim_getD cfg ((s3'.remove o).addLog (.release o)).fuel ((s3'.remove o).addLog (.release o))
      ob3.parent (-(totalSize ob3.size : Int)) false
    exact ⟨f1.1.trans (l1.trans f2.logLe), d1.frame f2⟩

/-- the log only grows, and no tracked object is lost without its destructor having accepted -/
def StepT (T : Id → Prop) (s s' : State) : Prop := LogLe s s' ∧ (DtorDue T s → DtorDue T s')

theorem StepT.refl (T : Id → Prop) (s : State) : StepT T s s := ⟨LogLe.refl s, id⟩
theorem StepT.trans {T : Id → Prop} {a b c : State} (h1 : StepT T a b) (h2 : StepT T b c) : StepT T a c :=
  ⟨h1.1.trans h2.1, fun h => h2.2 (h1.2 h)⟩
theorem StepT.of_frame {T : Id → Prop} {s s' : State} (f : Frame s s') : StepT T s s' :=
  ⟨f.logLe, fun h => h.frame f⟩

theorem run_dtorDue (cfg : Cfg) (T : Id → Prop) (f : Nat) :
    ∀ (s : State) (c : Call), StepT T s (run cfg f s c).1 := by
  induction f with
  | zero => intro s c; simp only [run]; exact .of_frame (frame_setOof s)
  | succ f ih =>
    intro s c
    cases c with
    | free o =>
      simp only [run]
      split
      · exact .refl T s
      · rename_i ob ho
        split
        · split
          · exact .refl T s
          · split
            · split
              · exact ih _ _
              · exact .refl T s
            · exact .refl T s
        · split
          · exact .refl T s
          · split
            · -- the destructor refuses
              rename_i d' l hds
              refine ⟨fun e he => List.mem_cons_of_mem _ he, ?_⟩
              intro h x hx
              rcases h x hx with h1 | ⟨xb, h1, h2, h3⟩
              · exact Or.inl (List.mem_cons_of_mem _ h1)
              · right
                by_cases e : o = x
                · subst e
                  rw [ho] at h1; cases h1
                  exact ⟨{ ob with dtor := d' }, by simp [ho], (dtorStep_logged hds h2).2, h3⟩
                · exact ⟨xb, by simp [e, h1], h2, h3⟩
            · rename_i d' logged hds
              have hle := logLe_freeBegin s o ob d' logged
              obtain ⟨i1, i2⟩ := ih (freeBegin s o ob d' logged)
                (.loop o true (childrenOf (freeBegin s o ob d' logged) o).head?)
              refine ⟨?_, ?_⟩
              · exact hle.trans (i1.trans ((dtorDue_freeEnd (T := fun _ => False) cfg (fun _ h => h.elim) o
                  (fun h => h.elim)).1))
              · intro h
                obtain ⟨b1, b2⟩ := dtorDue_freeBegin h o ob true d' logged ho hds
                exact (dtorDue_freeEnd cfg (i2 b1) o (fun ht => i1 _ (b2 ht))).2
    | unlink ctx o =>
      simp only [run]
      split
      · exact .refl T s
      · split
        · split
          · exact ih _ _
          · exact .refl T s
        · split
          · exact ih _ _
          · split
            · exact .refl T s
            · refine StepT.trans ?_ (ih _ _)
              exact .of_frame (frame_promoteMove _ _ _ _ _ _ _)
    | loop o fn cur =>
      simp only [run]
      split
      · exact .refl T s
      · rename_i c
        have fe : StepT T s (loopEnter s o c) := by
          unfold loopEnter
          split
          · exact .refl T s
          · exact ⟨fun _ he => he, fun h => h.setStuck⟩
        split
        · exact fe
        · split
          · exact fe.trans (ih _ _)
          · refine fe.trans (StepT.trans ?_ (ih _ _))
            refine StepT.trans (ih (loopEnter s o c) (.unlink (some o) c)) ?_
            split
            · exact .of_frame (frame_throwChild _ _ _)
            · exact .refl T _


/-- every public operation except `talloc_set_destructor` -/
theorem step_stepT (cfg : Cfg) (T : Id → Prop) (s : State) (op : Op) (hop : ∀ o d, op ≠ .setDtor o d) :
    StepT T s (step cfg s op).1 := by
  cases op with
  | alloc p sz fc fl => simp only [step]; exact .of_frame (frame_hdrAlloc _ _ _ _ _ _ _ _)
  | free o => exact run_dtorDue cfg T _ s _
  | freeChildren o => simp only [step]; exact run_dtorDue cfg T _ s _
  | reference ctx o fl =>
    simp only [step]
    split
    · exact .refl T s
    · have i1 : StepT T s (hdrAlloc cfg s (cxOf s ctx) ctx REFSIZE true (.ref o) fl).1 :=
        .of_frame (frame_hdrAlloc cfg s (cxOf s ctx) ctx REFSIZE true (.ref o) fl)
      split
      · exact i1.trans (.of_frame (frame_modify _ o _ (fun _ => ⟨rfl, rfl⟩)))
      · exact i1
  | unlink ctx o => exact run_dtorDue cfg T _ s _
  | steal np o =>
    simp only [step]
    split
    · exact .refl T s
    · split
      · exact .refl T s
      · exact .of_frame (frame_reparent _ _ _ _ _)
  | reparent op' np o => simp only [step]; exact .of_frame (frame_reparent _ _ _ _ _)
  | realloc p o sz fl =>
    simp only [step]
    split
    · exact .refl T s
    · split
      · exact run_dtorDue cfg T _ s _
      · split
        · exact .refl T s
        · split
          · exact .refl T s
          · split
            · exact .refl T s
            · split
              · exact .refl T s
              · rename_i s1 h1
                have i1 : StepT T s s1 := .of_frame (frame_applyLim _ _ _ _ _ _ _ h1)
                split
                · exact i1.trans (.of_frame (frame_applyLim_getD _ _ _ _ _ _))
                · exact i1.trans (.of_frame (frame_modify _ o _ (fun _ => ⟨rfl, rfl⟩)))
  | setDtor o d => exact absurd rfl (hop o d)
  | setLimit o mx fl =>
    simp only [step, setLimit]
    split
    · exact .refl T s
    · split
      · have i1 : StepT T s (s.modify o fun x => { x with hasLim := false }) :=
          .of_frame (frame_modify s o (fun x => { x with hasLim := false }) (fun _ => ⟨rfl, rfl⟩))
        split
        · exact i1.trans (run_dtorDue cfg T _ _ _)
        · exact i1
      · split
        · exact .of_frame (frame_setLimitConfigure _ _ _ _ _)
        · rename_i ob _ _ _ _
          have i1 : StepT T s (hdrAlloc cfg s ob.cx (some o) LIMSIZE true .limit fl).1 :=
            .of_frame (frame_hdrAlloc cfg s ob.cx (some o) LIMSIZE true .limit fl)
          split
          · exact i1.trans (.of_frame (frame_setLimitConfigure _ _ _ _ _))
          · exact i1
  | nullOn fl =>
    simp only [step]
    split
    · exact .refl T s
    · have i1 : StepT T s (hdrAlloc cfg s 0 none 0 false .plain fl).1 :=
        .of_frame (frame_hdrAlloc cfg s 0 none 0 false .plain fl)
      split
      · exact i1.trans (.of_frame (frame_withNull _ _))
      · exact i1
  | nullOff =>
    simp only [step]
    split
    · exact .refl T s
    · rename_i n _
      simp only []
      have hfold : ∀ (cs : List Id) (acc : State), Frame acc
          (cs.foldl (fun (acc : State) c => acc.modify c fun x => { x with parent := none }) acc) := by
        intro cs
        induction cs with
        | nil => intro acc; exact Frame.refl _
        | cons c cs ih =>
          intro acc
          simp only [List.foldl_cons]
          exact (frame_modify acc c (fun x => { x with parent := none }) (fun _ => ⟨rfl, rfl⟩)).trans (ih _)
      have i2 : StepT T s (((childrenOf s n).foldl (fun (acc : State) c => acc.modify c fun x =>
          { x with parent := none }) s).modify n fun x => { x with children := [] }) :=
        .of_frame ((hfold (childrenOf s n) s).trans
          (frame_modify _ n (fun x => { x with children := [] }) (fun _ => ⟨rfl, rfl⟩)))
      exact (i2.trans (run_dtorDue cfg T _ _ _)).trans (.of_frame (frame_withNull _ _))

/-- **released with a destructor set ⇒ the destructor accepted during that operation**: an object
that is live, not being freed and has a destructor set before a public operation, and is gone
after it, has `dtorOk` in the log afterwards (any operation, any arguments, any configuration) -/
theorem step_released_ran (cfg : Cfg) (s : State) (op : Op) (x : Nat) (xb : Obj) (hx : s.get x = some xb)
    (hd : xb.dtor ≠ .none) (hp : xb.pending = false) (hgone : (step cfg s op).1.get x = none) :
    Event.dtorOk x ∈ (step cfg s op).1.log := by
  have h0 : DtorDue (fun y => y = x) s := by
    intro y hy; subst hy; exact Or.inr ⟨xb, hx, hd, hp⟩
  have key : (∀ o d, op ≠ .setDtor o d) → Event.dtorOk x ∈ (step cfg s op).1.log := by
    intro hop
    rcases (step_stepT cfg _ s op hop).2 h0 x rfl with h | ⟨xb', h1, -, -⟩
    · exact h
    · rw [hgone] at h1; cases h1
  cases op with
  | setDtor o d =>
    exfalso
    simp only [step] at hgone
    split at hgone
    · rw [hx] at hgone; cases hgone
    · rw [get_modify] at hgone
      split at hgone
      · rw [hx] at hgone; cases hgone
      · rw [hx] at hgone; cases hgone
  | _ => exact key (by intro o d h; cases h)

end Usual.C01
