import UsualProofs.C01.Heap
/-! The destructor / release log: a destructor never runs again once it has accepted, nothing is
released twice, and an object whose destructor accepted is released by the same call.  Proved
for every history of public operations, any arguments, any configuration of the model. -/
set_option linter.unusedSimpArgs false
set_option linter.unusedVariables false
namespace Usual.C01

/-- well-formed logs (newest event first) -/
inductive LogWF : List Event → Prop
  | nil : LogWF []
  | ok (x : Id) (log : List Event) : LogWF log → Event.dtorOk x ∉ log → Event.release x ∉ log →
      LogWF (Event.dtorOk x :: log)
  | refuse (x : Id) (log : List Event) : LogWF log → Event.dtorOk x ∉ log → Event.release x ∉ log →
      LogWF (Event.dtorRefuse x :: log)
  | release (x : Id) (log : List Event) : LogWF log → Event.release x ∉ log → LogWF (Event.release x :: log)

def evId : Event → Id
  | .dtorOk x => x
  | .dtorRefuse x => x
  | .release x => x

structure LogInv (s : State) : Prop where
  wf : LogWF s.log
  bound : ∀ e ∈ s.log, evId e < s.heap.length
  relDead : ∀ x, Event.release x ∈ s.log → s.get x = none
  okRel : ∀ x, Event.dtorOk x ∈ s.log → Event.release x ∈ s.log ∨ ∃ xb, s.get x = some xb ∧ xb.pending = true

/-- a step that logs nothing, releases nothing and clears no FLAG_PENDING -/
structure Frame (s s' : State) : Prop where
  log : s'.log = s.log
  len : s.heap.length ≤ s'.heap.length
  dead : ∀ x : Nat, x < s.heap.length → s.get x = none → s'.get x = none
  pend : ∀ (x : Nat) xb, s.get x = some xb → xb.pending = true → ∃ xb', s'.get x = some xb' ∧ xb'.pending = true

theorem Frame.refl (s : State) : Frame s s :=
  ⟨rfl, Nat.le_refl _, fun _ _ h => h, fun x xb h hp => ⟨xb, h, hp⟩⟩

theorem Frame.trans {a b c : State} (h1 : Frame a b) (h2 : Frame b c) : Frame a c := by
  refine ⟨h2.log.trans h1.log, Nat.le_trans h1.len h2.len, ?_, ?_⟩
  · intro x hx hn; exact h2.dead x (Nat.lt_of_lt_of_le hx h1.len) (h1.dead x hx hn)
  · intro x xb hx hp
    obtain ⟨xb1, h3, h4⟩ := h1.pend x xb hx hp
    exact h2.pend x xb1 h3 h4

theorem LogInv.frame {s s' : State} (i : LogInv s) (f : Frame s s') : LogInv s' := by
  refine ⟨by rw [f.log]; exact i.wf, ?_, ?_, ?_⟩
  · intro e he; rw [f.log] at he; exact Nat.lt_of_lt_of_le (i.bound e he) f.len
  · intro x hx; rw [f.log] at hx
    exact f.dead x (i.bound _ hx) (i.relDead x hx)
  · intro x hx; rw [f.log] at hx ⊢
    rcases i.okRel x hx with h | ⟨xb, h1, h2⟩
    · exact Or.inl h
    · exact Or.inr (f.pend x xb h1 h2)

/-- a field update that clears no FLAG_PENDING -/
theorem frame_modify (s : State) (i : Nat) (f : Obj → Obj) (hf : ∀ x : Obj, x.pending = true → (f x).pending = true) :
    Frame s (s.modify i f) := by
  refine ⟨rfl, by simp, ?_, ?_⟩
  · intro x _ hn
    rw [get_modify]; split
    · rw [hn]; rfl
    · exact hn
  · intro x xb hx hp
    rw [get_modify]; split
    · rw [hx]; exact ⟨f xb, rfl, hf xb hp⟩
    · exact ⟨xb, hx, hp⟩

theorem frame_setOof (s : State) : Frame s s.setOof :=
  ⟨rfl, Nat.le_refl _, fun _ _ h => h, fun x xb h hp => ⟨xb, h, hp⟩⟩
theorem frame_setStuck (s : State) : Frame s s.setStuck :=
  ⟨rfl, Nat.le_refl _, fun _ _ h => h, fun x xb h hp => ⟨xb, h, hp⟩⟩

theorem frame_detach (s : State) (t : Nat) : Frame s (detach s t) := by
  unfold detach
  split
  · exact Frame.refl _
  · split
    · exact Frame.refl _
    · exact frame_modify s _ _ (fun _ h => h)

theorem frame_addChild (s : State) (p : Option Id) (t : Nat) (b : Bool) : Frame s (addChild s p t b) := by
  unfold addChild
  split
  · exact Frame.refl _
  · exact frame_modify s _ _ (fun _ h => h)


theorem frame_applyLim (cfg : Cfg) (f : Nat) (s : State) (t : Option Id) (d : Int) (force : Bool) (s' : State)
    (h : applyLim cfg f s t d force = some s') : Frame s s' := by
  induction f generalizing s t s' with
  | zero => simp only [applyLim] at h; cases h; exact frame_setOof s
  | succ f ih =>
    simp only [applyLim] at h
    split at h
    · cases h; exact Frame.refl s
    · split at h
      · cases h; exact Frame.refl s
      · split at h
        · cases h; exact Frame.refl s
        · split at h
          · exact ih _ _ _ h
          · split at h
            · split at h
              · exact ih _ _ _ h
              · cases h; exact Frame.refl s
            · split at h
              · cases h; exact Frame.refl s
              · split at h
                · cases h
                · split at h
                  · cases h
                  · cases h
                    rename_i s'' hs''
                    exact (ih _ _ _ hs'').trans (frame_modify _ _ _ (fun _ h => h))

theorem frame_applyLim_getD (cfg : Cfg) (f : Nat) (s : State) (t : Option Id) (d : Int) (force : Bool) :
    Frame s ((applyLim cfg f s t d force).getD s) := by
  cases h : applyLim cfg f s t d force with
  | none => exact Frame.refl s
  | some s' => exact frame_applyLim cfg f s t d force s' h

theorem frame_walkSync (s : State) (t : Nat) (o : Obj) (op : WOp) : Frame s (walkSync s t o op).1 := by
  cases op with
  | none => exact Frame.refl s
  | set => exact frame_modify s t _ (fun _ h => h)
  | clear =>
    simp only [walkSync]
    split
    · exact Frame.refl s
    · exact frame_modify s t _ (fun _ h => h)

theorem frame_walk (cfg : Cfg) (f : Nat) (s : State) (t : Nat) (op : WOp) : Frame s (walk cfg f s t op).1 := by
  induction f generalizing s t op with
  | zero => simp only [walk]; exact frame_setOof s
  | succ f ih =>
    simp only [walk]
    split
    · exact Frame.refl s
    · split
      · exact Frame.refl s
      · rename_i o _ _
        have hfold : ∀ (l : List Id) (acc : State × Nat) (op1 : WOp), Frame acc.1
            (l.foldl (fun (acc : State × Nat) c =>
              ((walk cfg f acc.1 c op1).1, acc.2 + (walk cfg f acc.1 c op1).2)) acc).1 := by
          intro l
          induction l with
          | nil => intro acc _; exact Frame.refl _
          | cons c l ihl =>
            intro acc op1
            simp only [List.foldl_cons]
            exact (ih acc.1 c op1).trans
              (ihl ((walk cfg f acc.1 c op1).1, acc.2 + (walk cfg f acc.1 c op1).2) op1)
        exact (frame_walkSync s t o op).trans
          (hfold o.children ((walkSync s t o op).1, 0) (walkSync s t o op).2)

theorem frame_moveApply (cfg : Cfg) (fuel : Nat) (s1 : State) (t : Nat) (newp oldp : Option Id)
    (oldlim newlim : Bool) (delta : Nat) : Frame s1 (moveApply cfg fuel s1 t newp oldp oldlim newlim delta) := by
  unfold moveApply
  have h2 : Frame s1 (if oldlim = true then (applyLim cfg fuel s1 oldp (-(delta : Int)) true).getD s1 else s1) := by
    split
    · exact frame_applyLim_getD _ _ _ _ _ _
    · exact Frame.refl _
  simp only []
  split
  · exact h2.trans ((frame_applyLim_getD _ _ _ _ _ _).trans (frame_modify _ _ _ (fun _ h => h)))
  · split
    · split
      · exact h2.trans (frame_modify _ _ _ (fun _ h => h))
      · exact h2
    · exact h2

theorem frame_moveMemlimit (cfg : Cfg) (s : State) (t : Nat) (newp oldp : Option Id) :
    Frame s (moveMemlimit cfg s t newp oldp) := by
  unfold moveMemlimit
  simp only []
  split
  · exact Frame.refl s
  · exact (frame_walk _ _ _ _ _).trans (frame_moveApply _ _ _ _ _ _ _ _ _)

theorem frame_moveChild (cfg : Cfg) (s : State) (t : Nat) (tnew told : Option Id) :
    Frame s (moveChild cfg s t tnew told) := by
  unfold moveChild
  split
  · exact Frame.refl s
  · rename_i tb _
    simp only []
    exact (frame_detach s t).trans ((frame_addChild (detach s t) tnew t (isRef tb)).trans
      ((frame_modify (addChild (detach s t) tnew t (isRef tb)) t (fun x => { x with parent := tnew })
        (fun _ h => h)).trans (frame_moveMemlimit _ _ _ _ _)))

theorem frame_reparent (cfg : Cfg) (s : State) (oldp newp : Option Id) (o : Nat) :
    Frame s (reparent cfg s oldp newp o).1 := by
  unfold reparent
  split
  · exact Frame.refl s
  · simp only []
    split
    · exact Frame.refl s
    · split
      · exact Frame.refl s
      · split
        · exact Frame.refl s
        · split
          · exact Frame.refl s
          · exact frame_moveChild _ _ _ _ _

theorem frame_throwChild (cfg : Cfg) (s : State) (t : Nat) : Frame s (throwChild cfg s t) := by
  unfold throwChild
  split
  · exact Frame.refl s
  · split
    · exact frame_setOof s
    · split
      · simp only []
        split
        · exact frame_moveChild _ _ _ _ _
        · exact Frame.refl s
      · exact frame_reparent _ _ _ _ _

theorem frame_promoteMove (cfg : Cfg) (s : State) (o : Nat) (ob rb : Obj) (rest : List Id) (tp : Option Id) :
    Frame s (promoteMove cfg s o ob rb rest tp) := by
  unfold promoteMove
  simp only []
  have h4 : Frame s (addChild (((detach (s.modify o fun x => { x with refs := rest }) o).modify o
      fun x => { x with parent := rb.parent })) rb.parent o (isRef ob)) :=
    (frame_modify s o (fun x => { x with refs := rest }) (fun _ h => h)).trans
      ((frame_detach (s.modify o fun x => { x with refs := rest }) o).trans
        ((frame_modify (detach (s.modify o fun x => { x with refs := rest }) o) o
          (fun x => { x with parent := rb.parent }) (fun _ h => h)).trans (frame_addChild _ _ _ _)))
  split
  · exact h4.trans (frame_moveMemlimit _ _ _ _ _)
  · exact h4

theorem frame_loopEnter (s : State) (o c : Nat) : Frame s (loopEnter s o c) := by
  unfold loopEnter
  split
  · exact Frame.refl s
  · exact frame_setStuck s


/-- a live object that is not being freed has neither an accepted destructor call nor a release
in the log -/
theorem LogInv.fresh {s : State} (i : LogInv s) {o : Nat} {ob : Obj} (ho : s.get o = some ob)
    (hnp : ob.pending = false) : Event.dtorOk o ∉ s.log ∧ Event.release o ∉ s.log := by
  have h2 : Event.release o ∉ s.log := by
    intro h; have := i.relDead o h; rw [ho] at this; cases this
  refine ⟨?_, h2⟩
  intro h
  rcases i.okRel o h with h' | ⟨xb, h3, h4⟩
  · exact h2 h'
  · rw [ho] at h3; cases h3; rw [hnp] at h4; cases h4

theorem LogInv.addOk {s : State} (i : LogInv s) {o : Nat} {xb : Obj} (hx : s.get o = some xb)
    (hp : xb.pending = true) (h1 : Event.dtorOk o ∉ s.log) (h2 : Event.release o ∉ s.log) :
    LogInv (s.addLog (.dtorOk o)) := by
  refine ⟨LogWF.ok o _ i.wf h1 h2, ?_, ?_, ?_⟩
  · intro e he
    rcases List.mem_cons.1 he with rfl | he
    · exact lt_of_get s o xb hx
    · exact i.bound e he
  · intro x hx'
    rcases List.mem_cons.1 hx' with h | h
    · cases h
    · exact i.relDead x h
  · intro x hx'
    rcases List.mem_cons.1 hx' with h | h
    · cases h; exact Or.inr ⟨xb, hx, hp⟩
    · rcases i.okRel x h with h' | h'
      · exact Or.inl (List.mem_cons_of_mem _ h')
      · exact Or.inr h'

theorem LogInv.addRefuse {s : State} (i : LogInv s) {o : Nat} {xb : Obj} (hx : s.get o = some xb)
    (h1 : Event.dtorOk o ∉ s.log) (h2 : Event.release o ∉ s.log) :
    LogInv (s.addLog (.dtorRefuse o)) := by
  refine ⟨LogWF.refuse o _ i.wf h1 h2, ?_, ?_, ?_⟩
  · intro e he
    rcases List.mem_cons.1 he with rfl | he
    · exact lt_of_get s o xb hx
    · exact i.bound e he
  · intro x hx'
    rcases List.mem_cons.1 hx' with h | h
    · cases h
    · exact i.relDead x h
  · intro x hx'
    rcases List.mem_cons.1 hx' with h | h
    · cases h
    · rcases i.okRel x h with h' | h'
      · exact Or.inl (List.mem_cons_of_mem _ h')
      · exact Or.inr h'

theorem LogInv.release {s : State} (i : LogInv s) {o : Nat} {xb : Obj} (hx : s.get o = some xb) :
    LogInv ((s.remove o).addLog (.release o)) := by
  have h2 : Event.release o ∉ s.log := by
    intro h; have := i.relDead o h; rw [hx] at this; cases this
  refine ⟨LogWF.release o _ i.wf h2, ?_, ?_, ?_⟩
  · intro e he
    simp only [heap_addLog, length_remove]
    rcases List.mem_cons.1 he with rfl | he
    · exact lt_of_get s o xb hx
    · exact i.bound e he
  · intro x hx'
    simp only [get_addLog, get_remove]
    rcases List.mem_cons.1 hx' with h | h
    · cases h; simp
    · split
      · rfl
      · exact i.relDead x h
  · intro x hx'
    rcases List.mem_cons.1 hx' with h | h
    · cases h
    · by_cases e : o = x
      · subst e; exact Or.inl (by simp)
      · rcases i.okRel x h with h' | ⟨yb, h3, h4⟩
        · exact Or.inl (List.mem_cons_of_mem _ h')
        · exact Or.inr ⟨yb, by simp [e, h3], h4⟩

theorem logInv_freeBegin {s : State} (i : LogInv s) (o : Nat) (ob : Obj) (d' : Dtor) (logged : Bool)
    (ho : s.get o = some ob) (hnp : ob.pending = false) : LogInv (freeBegin s o ob d' logged) := by
  obtain ⟨f1, f2⟩ := i.fresh ho hnp
  unfold freeBegin
  simp only []
  have i0 : LogInv (s.modify o fun x => { x with dtor := d', pending := true }) :=
    i.frame (frame_modify s o _ (fun _ _ => rfl))
  have h0 : (s.modify o fun x => { x with dtor := d', pending := true }).get o =
      some { ob with dtor := d', pending := true } := by simp [ho]
  have i1 : LogInv (if logged = true then (s.modify o fun x => { x with dtor := d', pending := true }).addLog
      (.dtorOk o) else (s.modify o fun x => { x with dtor := d', pending := true })) := by
    split
    · exact i0.addOk h0 rfl f1 f2
    · exact i0
  refine LogInv.frame ?_ (frame_detach _ o)
  split
  · exact i1.frame (frame_modify _ _ _ (fun _ h => h))
  · exact i1

theorem logInv_freeEnd {s3 : State} (cfg : Cfg) (i : LogInv s3) (o : Nat) : LogInv (freeEnd cfg s3 o).1 := by
  unfold freeEnd
  split
  · exact i
  · rename_i ob3 h3
    simp only []
    have i3 : LogInv (if ob3.children.isEmpty = true then s3 else s3.setStuck) := by
      split
      · exact i
      · exact i.frame (frame_setStuck s3)
    have h3' : (if ob3.children.isEmpty = true then s3 else s3.setStuck).get o = some ob3 := by
      split
      · exact h3
      · exact h3
    exact (i3.release h3').frame (frame_applyLim_getD _ _ _ _ _ _)

/-- **the log through `_talloc_free` / `_talloc_unlink` / `free_children`** -/
theorem run_logInv (cfg : Cfg) (f : Nat) : ∀ (s : State) (c : Call), LogInv s → LogInv (run cfg f s c).1 := by
  induction f with
  | zero => intro s c i; simp only [run]; exact i.frame (frame_setOof s)
  | succ f ih =>
    intro s c i
    cases c with
    | free o =>
      simp only [run]
      split
      · exact i
      · rename_i ob ho
        split
        · split
          · exact i
          · split
            · split
              · exact ih _ _ i
              · exact i
            · exact i
        · split
          · exact i
          · rename_i hnp
            have hnp' : ob.pending = false := by simpa using hnp
            obtain ⟨f1, f2⟩ := i.fresh ho hnp'
            split
            · -- the destructor refuses
              rename_i d' _ _
              have i0 : LogInv (s.modify o fun x => { x with dtor := d' }) :=
                i.frame (frame_modify s o _ (fun _ h => h))
              exact i0.addRefuse (xb := { ob with dtor := d' }) (by simp [ho]) f1 f2
            · exact logInv_freeEnd cfg (ih _ _ (logInv_freeBegin i o ob _ _ ho hnp')) o
    | unlink ctx o =>
      simp only [run]
      split
      · exact i
      · split
        · split
          · exact ih _ _ i
          · exact i
        · split
          · exact ih _ _ i
          · split
            · exact i
            · exact ih _ _ (i.frame (frame_promoteMove _ _ _ _ _ _ _))
    | loop o fn cur =>
      simp only [run]
      split
      · exact i
      · rename_i c
        have i1 := i.frame (frame_loopEnter s o c)
        split
        · exact i1
        · split
          · exact ih _ _ i1
          · apply ih
            split
            · exact (ih _ _ i1).frame (frame_throwChild _ _ _)
            · exact ih _ _ i1


theorem frame_push (s : State) (nb : Obj) : Frame s (s.push nb) := by
  refine ⟨rfl, by simp, ?_, ?_⟩
  · intro x hx hn; rw [get_push]; simp only [Nat.ne_of_lt hx, if_false]; exact hn
  · intro x xb hx hp
    have := lt_of_get s x xb hx
    exact ⟨xb, by rw [get_push]; simp only [Nat.ne_of_lt this, if_false]; exact hx, hp⟩

theorem frame_withNull (s : State) (n : Option Id) : Frame s { s with nullCtx := n } :=
  ⟨rfl, Nat.le_refl _, fun _ _ h => h, fun x xb h hp => ⟨xb, h, hp⟩⟩

theorem frame_hdrAlloc (cfg : Cfg) (s : State) (cx : Nat) (parent : Option Id) (len : Nat) (prepend : Bool)
    (kind : Kind) (fail : Bool) : Frame s (hdrAlloc cfg s cx parent len prepend kind fail).1 := by
  unfold hdrAlloc
  split
  · exact Frame.refl s
  · simp only []
    split
    · exact Frame.refl s
    · rename_i s1 h1
      have f1 := frame_applyLim _ _ _ _ _ _ _ h1
      split
      · exact f1.trans (frame_applyLim_getD _ _ _ _ _ _)
      · exact f1.trans ((frame_push s1 _).trans (frame_addChild _ _ _ _))

theorem frame_setLimitConfigure (cfg : Cfg) (s : State) (o l : Nat) (max : Nat) :
    Frame s (setLimitConfigure cfg s o l max) := by
  unfold setLimitConfigure
  simp only []
  have h3 : Frame s ((s.modify l fun x => { x with lmax := max, lcur := 0 }).modify o
      fun x => { x with useLim := true, hasLim := true }) :=
    (frame_modify s l (fun x => { x with lmax := max, lcur := 0 }) (fun _ h => h)).trans
      (frame_modify (s.modify l fun x => { x with lmax := max, lcur := 0 }) o
        (fun x => { x with useLim := true, hasLim := true }) (fun _ h => h))
  generalize ((s.modify l fun x => { x with lmax := max, lcur := 0 }).modify o
      fun x => { x with useLim := true, hasLim := true }) = s3 at h3 ⊢
  have hfold : ∀ (cs : List Id) (acc : State × Nat), Frame acc.1 (cs.foldl
      (fun (acc : State × Nat) c =>
        match acc.1.get c with
        | some cb =>
          if isLimit cb then acc
          else ((walk cfg acc.1.fuel acc.1 c WOp.set).1, acc.2 + (walk cfg acc.1.fuel acc.1 c WOp.set).2)
        | none => acc) acc).1 := by
    intro cs
    induction cs with
    | nil => intro acc; exact Frame.refl _
    | cons c cs ih =>
      intro acc
      simp only [List.foldl_cons]
      refine Frame.trans ?_ (ih _)
      split
      · split
        · exact Frame.refl _
        · exact frame_walk _ _ _ _ _
      · exact Frame.refl _
  split
  · exact h3.trans ((hfold (childrenOf s3 o) (s3, 0)).trans (frame_modify _ l _ (fun _ h => h)))
  · exact h3

/-- **the log through every public operation** (any arguments, any configuration) -/
theorem step_logInv (cfg : Cfg) (s : State) (op : Op) (i : LogInv s) : LogInv (step cfg s op).1 := by
  cases op with
  | alloc p sz fc fl => simp only [step]; exact i.frame (frame_hdrAlloc _ _ _ _ _ _ _ _)
  | free o => exact run_logInv cfg _ s _ i
  | freeChildren o => simp only [step]; exact run_logInv cfg _ s _ i
  | reference ctx o fl =>
    simp only [step]
    split
    · exact i
    · have i1 := i.frame (frame_hdrAlloc cfg s (cxOf s ctx) ctx REFSIZE true (.ref o) fl)
      split
      · exact i1.frame (frame_modify _ o _ (fun _ h => h))
      · exact i1
  | unlink ctx o => exact run_logInv cfg _ s _ i
  | steal np o =>
    simp only [step]
    split
    · exact i
    · split
      · exact i
      · exact i.frame (frame_reparent _ _ _ _ _)
  | reparent op' np o => simp only [step]; exact i.frame (frame_reparent _ _ _ _ _)
  | realloc p o sz fl =>
    simp only [step]
    split
    · exact i
    · split
      · exact run_logInv cfg _ s _ i
      · split
        · exact i
        · split
          · exact i
          · split
            · exact i
            · split
              · exact i
              · rename_i s1 h1
                have i1 := i.frame (frame_applyLim _ _ _ _ _ _ _ h1)
                split
                · exact i1.frame (frame_applyLim_getD _ _ _ _ _ _)
                · exact i1.frame (frame_modify _ o _ (fun _ h => h))
  | setDtor o d =>
    simp only [step]
    split
    · exact i
    · exact i.frame (frame_modify _ o _ (fun _ h => h))
  | setLimit o mx fl =>
    simp only [step, setLimit]
    split
    · exact i
    · split
      · have i1 := i.frame (frame_modify s o (fun x => { x with hasLim := false }) (fun _ h => h))
        split
        · exact run_logInv cfg _ _ _ i1
        · exact i1
      · split
        · exact i.frame (frame_setLimitConfigure _ _ _ _ _)
        · rename_i ob _ _ _ _
          have i1 := i.frame (frame_hdrAlloc cfg s ob.cx (some o) LIMSIZE true .limit fl)
          split
          · exact i1.frame (frame_setLimitConfigure _ _ _ _ _)
          · exact i1
  | nullOn fl =>
    simp only [step]
    split
    · exact i
    · have i1 := i.frame (frame_hdrAlloc cfg s 0 none 0 false .plain fl)
      split
      · exact i1.frame (frame_withNull _ _)
      · exact i1
  | nullOff =>
    simp only [step]
    split
    · exact i
    · rename_i n _
      simp only []
      have hfold : ∀ (cs : List Id) (acc : State), Frame acc
          (cs.foldl (fun (acc : State) c => acc.modify c fun x => { x with parent := none }) acc) := by
        intro cs
        induction cs with
        | nil => intro acc; exact Frame.refl _
        | cons c cs ih =>
          intro acc
          simp only [List.foldl_cons]
          exact (frame_modify acc c (fun x => { x with parent := none }) (fun _ h => h)).trans (ih _)
      have i2 := (i.frame (hfold (childrenOf s n) s)).frame
        (frame_modify _ n (fun x => { x with children := [] }) (fun _ h => h))
      exact (run_logInv cfg _ _ _ i2).frame (frame_withNull _ _)

theorem logInv_empty : LogInv {} := by
  refine ⟨LogWF.nil, ?_, ?_, ?_⟩
  · intro e he; exact absurd he (List.not_mem_nil)
  · intro x hx; exact absurd hx (List.not_mem_nil)
  · intro x hx; exact absurd hx (List.not_mem_nil)

theorem runOps_logInv (cfg : Cfg) (ops : List Op) : ∀ s, LogInv s → LogInv (runOps cfg s ops) := by
  induction ops with
  | nil => intro s i; exact i
  | cons op ops ih => intro s i; simp only [runOps]; exact ih _ (step_logInv cfg s op i)


/-- in a well-formed log every object has at most one accepted destructor call and one release -/
theorem LogWF.counts {log : List Event} (h : LogWF log) (x : Id) :
    log.count (Event.release x) ≤ 1 ∧ log.count (Event.dtorOk x) ≤ 1 := by
  induction h with
  | nil => simp
  | ok y log _ h1 h2 ih =>
    refine ⟨by rw [List.count_cons]; simp; exact ih.1, ?_⟩
    rw [List.count_cons]
    by_cases e : y = x
    · subst e; rw [List.count_eq_zero.2 h1]; simp
    · have : (Event.dtorOk y == Event.dtorOk x) = false := by simp [e]
      rw [this]; simp; exact ih.2
  | refuse y log _ h1 h2 ih =>
    exact ⟨by rw [List.count_cons]; simp; exact ih.1, by rw [List.count_cons]; simp; exact ih.2⟩
  | release y log _ h2 ih =>
    refine ⟨?_, by rw [List.count_cons]; simp; exact ih.2⟩
    rw [List.count_cons]
    by_cases e : y = x
    · subst e; rw [List.count_eq_zero.2 h2]; simp
    · have : (Event.release y == Event.release x) = false := by simp [e]
      rw [this]; simp; exact ih.1

end Usual.C01
