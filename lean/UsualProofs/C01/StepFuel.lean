import UsualProofs.C01.RunFuel
import UsualProofs.C01.StepStuck
/-! **fuel_suffices**: no public operation on a well-formed state exhausts the fuel of the model
recursion; the ghost flag `oof` is never set. -/
set_option linter.unusedSimpArgs false
set_option linter.unusedVariables false
namespace Usual.C01
open Finset

open Classical in
theorem subCard_le_length (s : State) (o : Nat) : subCard s o ≤ s.heap.length := by
  unfold subCard subSet
  have h := card_le_card (filter_subset (fun y => (s.get y).isSome = true ∧ InSub s o y) (range s.heap.length))
  rw [card_range] at h
  convert h

theorem fuel_val (s : State) : s.fuel = 8 * s.heap.length + 16 := rfl

/-- release of a TRef / `.memlimit` chunk of a well-formed state with at least two units of fuel -/
theorem leaf_free_noOof {rk : Nat → Nat} (cfg : Cfg) (f : Nat) (hf : 2 ≤ f) {s : State} (i : Inv rk s) (r : Nat)
    (rb : Obj) (hr : s.get r = some rb) (hk : rb.kind ≠ .plain) : (run cfg f s (.free r)).1.oof = s.oof := by
  obtain ⟨f2, rfl⟩ : ∃ f2, f = f2 + 2 := ⟨f - 2, by omega⟩
  obtain ⟨lc, lr, ld, lp⟩ := i.wf.leaf r rb hr hk
  have ht : ∀ t, rb.kind = .ref t → t ≠ r := by
    intro t hkk e; subst e
    obtain ⟨tb, htb, hm⟩ := i.wf.refBack t rb t hr hkk
    rw [hr] at htb; cases htb; rw [lr] at hm; cases hm
  have hpr : rb.parent ≠ some r := by
    intro e
    obtain ⟨po, hpo, hpk, -⟩ := i.wf.parentLive r rb r hr e
    rw [hr] at hpo; cases hpo; exact hk hpk
  obtain ⟨-, c2⟩ := run_free_leaf cfg (f2 + 1) s r rb hr hk lc lr lp ld ht hpr
  have iL : Inv rk (freeLeafS s r) := ⟨freeLeafS_wf i.wf hr hk, freeLeafS_ranked i.wf hr hk i.ranked⟩
  exact run_free_leaf_oof (rk := rk) cfg f2 s r rb hr hk lc lr lp ld ht hpr
    ⟨(iL.shapeEq c2).wf.tree, (iL.shapeEq c2).ranked⟩

theorem hdrAlloc_noOof {rk : Nat → Nat} {s : State} (w : WFt s) (wr : Ranked rk s) (cfg : Cfg) (cx : Nat)
    (parent : Option Id) (len : Nat) (prepend : Bool) (kind : Kind) (fail : Bool) :
    (hdrAlloc cfg s cx parent len prepend kind fail).1.oof = s.oof := by
  unfold hdrAlloc
  split
  · rfl
  · simp only []
    split
    · rfl
    · rename_i s1 h1
      have e1 := applyLim_noOof w wr cfg s rfl _ _ _ s1 h1
      have hsh := applyLim_shapeEq _ _ _ _ _ _ _ h1
      have hl := applyLim_length _ _ _ _ _ _ _ h1
      split
      · rw [applyLim_getD_noOof (w.shapeEq hsh) (wr.shapeEq hsh) cfg s1 rfl, e1]
      · rw [oof_addChild, oof_push, e1]

theorem runFree_noOof {rk : Nat → Nat} {s : State} {o : Nat} (cfg : Cfg) (hfix : cfg.fixCx = true) (w : WF s)
    (wr : Ranked rk s) (ho : UserObj s o) (hst : s.stuck = false) (hoo : s.oof = false) :
    (run cfg s.fuel s (.free o)).1.oof = false := by
  obtain ⟨ob, hob, hk, hnull⟩ := ho
  have i : Inv rk s := ⟨w.toWFp, wr⟩
  by_cases hrefs : ob.refs = []
  · exact (run_fuel cfg hfix rk s.fuel).1 s o ob i hob hk hrefs (w.noPending o ob hob) hnull
      (pendBelow_of_wf w _ _) (pendNR_of_wf w _) hst hoo
      (by have := subCard_le_length s o; rw [fuel_val]; omega)
  · obtain ⟨f, hf⟩ : ∃ f, s.fuel = f + 1 := ⟨_, fuel_succ s⟩
    rw [hf]
    simp only [run, hob, hrefs, ne_eq, not_false_eq_true, if_true]
    split
    · exact hoo
    · split
      · split
        · rename_i r hr
          have hrm : r ∈ ob.refs := List.mem_of_getLast? hr
          obtain ⟨rb, hrb, hrk⟩ := w.refLive o ob r hob hrm
          rw [leaf_free_noOof cfg f (by rw [fuel_val] at hf; omega) i r rb hrb (by rw [hrk]; simp)]
          exact hoo
        · exact hoo
      · exact hoo

theorem runUnlink_noOof {rk : Nat → Nat} {s : State} {o : Nat} (cfg : Cfg) (hfix : cfg.fixCx = true) (w : WF s)
    (wr : Ranked rk s) (ctx : Option Id) (ho : UserObj s o) (hst : s.stuck = false) (hoo : s.oof = false) :
    (run cfg s.fuel s (.unlink ctx o)).1.oof = false := by
  obtain ⟨ob, hob, hk, hnull⟩ := ho
  have i : Inv rk s := ⟨w.toWFp, wr⟩
  by_cases hprim : ob.parent = orNull s ctx
  · exact (run_fuel cfg hfix rk s.fuel).2.1 s ctx o ob i hob hk (w.noPending o ob hob) hprim hnull
      (pendBelow_of_wf w _ _) (pendNR_of_wf w _) hst hoo
      (by have := subCard_le_length s o; rw [fuel_val]; omega)
  · obtain ⟨f, hf⟩ : ∃ f, s.fuel = f + 1 := ⟨_, fuel_succ s⟩
    rw [hf]
    simp only [run, hob, ne_eq, hprim, not_false_eq_true, if_true]
    split
    · rename_i r hr
      have hrm := findRefByParent_mem _ _ _ _ hr
      obtain ⟨rb, hrb, hrk⟩ := w.refLive o ob r hob hrm
      rw [leaf_free_noOof cfg f (by rw [fuel_val] at hf; omega) i r rb hrb (by rw [hrk]; simp)]
      exact hoo
    · exact hoo


theorem cfgFold_noOof {rk : Nat → Nat} (cfg : Cfg) (l : List Id) :
    ∀ (acc : State × Nat), WFt acc.1 → Ranked rk acc.1 → (l.foldl (cfgStep cfg) acc).1.oof = acc.1.oof := by
  induction l with
  | nil => intro acc _ _; rfl
  | cons c l ih =>
    intro acc w wr
    simp only [List.foldl_cons]
    have he := cfgStep_eqButUse cfg acc c
    rw [ih _ (w.shapeEq he.shapeEq) (wr.shapeEq he.shapeEq)]
    cases h : limAt acc.1 c with
    | true => rw [cfgStep_skip cfg acc c h]
    | false => rw [cfgStep_walk cfg acc c h]; exact walk_noOof w wr cfg c .set

theorem setLimitConfigure_noOof {rk : Nat → Nat} {s : State} (w : WFt s) (wr : Ranked rk s) (cfg : Cfg)
    (o l : Nat) (max : Nat) : (setLimitConfigure cfg s o l max).oof = s.oof := by
  unfold setLimitConfigure
  simp only []
  have hsh : ShapeEq s ((s.modify l fun x => { x with lmax := max, lcur := 0 }).modify o
      fun x => { x with useLim := true, hasLim := true }) :=
    (shapeEq_modify_self s l (fun x => { x with lmax := max, lcur := 0 }) (fun _ => rfl)).trans
      (shapeEq_modify_self _ o (fun x => { x with useLim := true, hasLim := true }) (fun _ => rfl))
  have hoo3 : ((s.modify l fun x => { x with lmax := max, lcur := 0 }).modify o
      fun x => { x with useLim := true, hasLim := true }).oof = s.oof := rfl
  generalize ((s.modify l fun x => { x with lmax := max, lcur := 0 }).modify o
      fun x => { x with useLim := true, hasLim := true }) = s3 at hsh hoo3 ⊢
  split
  · change (((childrenOf s3 o).foldl (cfgStep cfg) (s3, 0)).1.modify l fun x =>
      { x with lcur := ((childrenOf s3 o).foldl (cfgStep cfg) (s3, 0)).2 }).oof = s.oof
    rw [oof_modify, cfgFold_noOof (rk := rk) cfg _ (s3, 0) (w.shapeEq hsh) (wr.shapeEq hsh)]
    exact hoo3
  · exact hoo3

theorem reparent_noOof {rk : Nat → Nat} {s : State} (cfg : Cfg) (w : WF s) (wr : Ranked rk s)
    (oldp newp : Option Id) (o : Nat) (hnew : UserCtx s newp) (ho : UserObj s o)
    (hacyc : ∀ q, orNull s newp = some q → rk q < rk o) :
    (reparent cfg s oldp newp o).1.oof = s.oof := by
  obtain ⟨ob, hob, hok, honull⟩ := ho
  unfold reparent
  simp only [hob]
  split
  · rfl
  · rename_i hcond
    simp only [Bool.or_eq_true, decide_eq_true_eq, not_or] at hcond
    obtain ⟨hno, hnt⟩ := hcond
    split
    · rfl
    · rename_i t ht
      split
      · rfl
      · rename_i tb htb
        split
        · rfl
        · have hq : ∀ q, orNull s newp = some q → ∃ qb, s.get q = some qb ∧ qb.kind = .plain :=
            hnew.orNull w.toWFp
          have hself' : tb.parent ≠ some t := by
            intro e; have := wr.parentLt t tb t htb e; omega
          have hnp : tb.pending = false := w.noPending t tb htb
          by_cases hprim : orNull s oldp = ob.parent
          · simp only [hprim, ne_eq, not_true_eq_false, if_false, Option.some.injEq] at ht
            subst ht
            rw [hob] at htb; cases htb
            have hkl : ob.kind ≠ .limit := by rw [hok]; simp
            have hne : orNull s newp ≠ ob.parent := by rw [← hprim]; exact hnt
            have hwf := moveS_wf w.toWFp hob (orNull s newp) hnp hkl hne hno hself' hq honull
            have hrk := moveS_ranked wr hob (orNull s newp) (isRef ob) hne hno hself'
              (fun q hqq => ⟨hacyc q hqq, fun tt hkk => by rw [hok] at hkk; cases hkk⟩)
            exact moveChild_noOof cfg o ob hob (orNull s newp) _ hwf.tree hrk
          · simp only [ne_eq, hprim, not_false_eq_true, if_true] at ht
            obtain ⟨hrm, rb, hrb, hrp⟩ := findRefByParent_spec _ _ _ _ ht
            rw [htb] at hrb; cases hrb
            obtain ⟨rb', hrb', hrk'⟩ := w.refLive o ob t hob hrm
            rw [htb] at hrb'; cases hrb'
            have hknp : tb.kind ≠ .plain := by rw [hrk']; simp
            have hkl : tb.kind ≠ .limit := by rw [hrk']; simp
            have hne : orNull s newp ≠ tb.parent := by rw [hrp]; exact hnt
            have hst : orNull s newp ≠ some t := by
              intro e; obtain ⟨qb, hqb, hqk⟩ := hq t e; rw [htb] at hqb; cases hqb; exact hknp hqk
            have htnull : s.nullCtx ≠ some t := by
              intro e; obtain ⟨nb, hb1, hb2, -⟩ := w.nullOK t e; rw [htb] at hb1; cases hb1; exact hknp hb2
            have hwf := moveS_wf w.toWFp htb (orNull s newp) hnp hkl hne hst hself' hq htnull
            let a : Nat := ((orNull s newp).map fun q => rk q + 1).getD 0
            let b : Nat := (s.nullCtx.map fun n => rk n + 1).getD 0
            let v : Nat := a + b + rk t + 1
            have hrr := Ranked.rerank_leaf wr w.toWFp t tb htb hknp v
              (by intro p hp; have := wr.parentLt t tb p htb hp; simp only [v]; omega)
              (by intro n hn
                  have hb : b = rk n + 1 := by simp only [b, hn, Option.map_some, Option.getD_some]
                  simp only [v]; omega)
            have hrk2 := moveS_ranked hrr htb (orNull s newp) (isRef tb) hne hst hself' (by
              intro q hqq
              have hqt : q ≠ t := fun e => hst (e ▸ hqq)
              have ha : a = rk q + 1 := by simp only [a, hqq, Option.map_some, Option.getD_some]
              refine ⟨by simp only [hqt, if_false, if_true, v]; omega, ?_⟩
              intro tt hkk
              rw [hrk'] at hkk; cases hkk
              have hto : o ≠ t := by intro e; subst e; rw [hob] at htb; cases htb; exact hknp hok
              simp only [hqt, hto, if_false]
              exact hacyc q hqq)
            exact moveChild_noOof cfg t tb htb (orNull s newp) _ hwf.tree hrk2


/-- **fuel_suffices**: no public operation on a well-formed state exhausts the model's fuel -/
theorem step_oof {rk : Nat → Nat} {s : State} (cfg : Cfg) (hfix : cfg.fixCx = true) (op : Op) (w : WF s)
    (wr : Ranked rk s) (hop : OpOK rk s op) (hst : s.stuck = false) (hoo : s.oof = false) :
    (step cfg s op).1.oof = false := by
  have wt := w.toWFp.tree
  cases op with
  | alloc p sz fc fl => simp only [step]; rw [hdrAlloc_noOof wt wr]; exact hoo
  | free o => exact runFree_noOof cfg hfix w wr hop hst hoo
  | freeChildren o =>
    obtain ⟨ob, hob, hk, hnull⟩ := hop
    simp only [step]
    rw [childrenOf_eq hob]
    refine (run_fuel cfg hfix rk s.fuel).2.2 s o ob false _ ⟨w.toWFp, wr⟩ hob hk (pendBelow_of_wf w _ _)
      (pendNR_of_wf w _) hst (w.noPending o ob hob) (by intro h; cases h)
      (fun c hc => List.mem_of_mem_head? hc) hoo ?_ (by rw [fuel_val]; omega) ?_
    · intro c pre post hc hch z hz
      exfalso
      cases pre with
      | nil => cases hz
      | cons b pre =>
        rw [hch] at hc
        simp only [List.cons_append, List.head?_cons, Option.some.injEq] at hc
        have hnd := w.childNodup o ob hob
        rw [hch, ← hc] at hnd
        exact (List.nodup_cons.1 hnd).1 (by simp)
    · intro c pre post _ _
      have := subCard_le_length s o
      rw [fuel_val]; omega
  | reference ctx o fl =>
    simp only [step]
    split
    · exact hoo
    · split
      · show ((hdrAlloc cfg s (cxOf s ctx) ctx REFSIZE true (.ref o) fl).1.modify o _).oof = false
        rw [oof_modify, hdrAlloc_noOof wt wr]; exact hoo
      · rw [hdrAlloc_noOof wt wr]; exact hoo
  | unlink ctx o => exact runUnlink_noOof cfg hfix w wr ctx hop hst hoo
  | steal np o =>
    obtain ⟨hnew, ho, hacyc⟩ := hop
    obtain ⟨ob, hob, hk, hnull⟩ := ho
    simp only [step, hob]
    split
    · exact hoo
    · rw [reparent_noOof cfg w wr ob.parent np o hnew ⟨ob, hob, hk, hnull⟩ hacyc]; exact hoo
  | reparent op' np o =>
    simp only [step]
    rw [reparent_noOof cfg w wr op' np o hop.1 hop.2.1 hop.2.2]; exact hoo
  | realloc p o sz fl =>
    simp only [step]
    split
    · exact hoo
    · split
      · exact runUnlink_noOof cfg hfix w wr p hop hst hoo
      · split
        · exact hoo
        · split
          · exact hoo
          · split
            · exact hoo
            · split
              · exact hoo
              · rename_i s1 h1
                have e1 := applyLim_noOof wt wr cfg s rfl _ _ _ s1 h1
                have hsh := applyLim_shapeEq _ _ _ _ _ _ _ h1
                split
                · rw [applyLim_getD_noOof (wt.shapeEq hsh) (wr.shapeEq hsh) cfg s1 rfl, e1]; exact hoo
                · rw [oof_modify, e1]; exact hoo
  | setDtor o d =>
    simp only [step]
    split
    · exact hoo
    · exact hoo
  | setLimit o mx fl =>
    obtain ⟨ob, hob, hk, hnull⟩ := hop
    simp only [step, setLimit, hob]
    split
    · have hsh1 := shapeEq_modify_self s o (fun x => { x with hasLim := false }) (fun _ => rfl)
      split
      · rename_i l hl
        have hl' : findLim s ob.children = some l := by
          split at hl
          · exact hl
          · cases hl
        obtain ⟨hm, lb, hlb, hlk⟩ := findLim_spec s _ l hl'
        obtain ⟨lb1, hlb1, -, -, -, e4, -, -⟩ := hsh1.get hlb
        rw [leaf_free_noOof (rk := rk) cfg _ (by rw [fuel_val]; omega) ⟨w.toWFp.shapeEq hsh1, wr.shapeEq hsh1⟩
          l lb1 hlb1 (by rw [e4, hlk]; simp)]
        exact hoo
      · exact hoo
    · split
      · rw [setLimitConfigure_noOof wt wr]; exact hoo
      · obtain ⟨hf, ht⟩ := hdrAlloc_spec cfg s ob.cx (some o) LIMSIZE true .limit fl
        cases hok' : (hdrAlloc cfg s ob.cx (some o) LIMSIZE true .limit fl).2 with
        | false =>
          simp only [Bool.false_eq_true, if_false]
          rw [hdrAlloc_noOof wt wr]; exact hoo
        | true =>
          simp only [if_true]
          obtain ⟨s1, nb, hsh1, hlen, heq, a1, a2, a3, a4, a5, a6⟩ := ht hok'
          have hctx : UserCtx s (some o) := by
            intro x hx; cases hx; exact ⟨ob, hob, hk, hnull⟩
          obtain ⟨w2, rk', wr2, -⟩ := alloc_plain_wf w wr hsh1 (some o) hctx true nb a1 a2 a3 a4 a5 (Or.inr a6)
            (by simp [a6])
          rw [← heq] at w2 wr2
          rw [setLimitConfigure_noOof w2.toWFp.tree wr2, hdrAlloc_noOof wt wr]; exact hoo
  | nullOn fl =>
    simp only [step]
    split
    · exact hoo
    · split
      · show (hdrAlloc cfg s 0 none 0 false .plain fl).1.oof = false
        rw [hdrAlloc_noOof wt wr]; exact hoo
      · rw [hdrAlloc_noOof wt wr]; exact hoo
  | nullOff =>
    cases hnull : s.nullCtx with
    | none => simp only [step, hnull]; exact hoo
    | some n =>
      rw [nullOff_eq cfg w hnull]
      obtain ⟨w2, wr2⟩ := nullPrep_wf w wr hnull
      obtain ⟨nb, hn, hnk, hnp, hnpar, hnrefs⟩ := w.nullOK n hnull
      obtain ⟨nb', hn', r⟩ := (nullPrep_rel w hnull).2 n nb hn
      have hflags : (nullPrep s n).stuck = s.stuck ∧ (nullPrep s n).oof = s.oof := by
        unfold nullPrep
        have : ∀ (cs : List Id) (acc : State), (cs.foldl (fun (acc : State) c => acc.modify c fun x =>
            { x with parent := none }) acc).stuck = acc.stuck ∧ (cs.foldl (fun (acc : State) c => acc.modify c fun x =>
            { x with parent := none }) acc).oof = acc.oof := by
          intro cs; induction cs with
          | nil => intro acc; exact ⟨rfl, rfl⟩
          | cons c cs ih => intro acc; simp only [List.foldl_cons]; exact ⟨(ih _).1, (ih _).2⟩
        exact ⟨(this _ s).1, (this _ s).2⟩
      exact runFree_noOof cfg hfix w2 wr2 ⟨nb', hn', by rw [r.kind]; exact hnk, by intro h; cases h⟩
        (by rw [hflags.1]; exact hst) (by rw [hflags.2]; exact hoo)

end Usual.C01
