import UsualProofs.C01.AcctSteps
/-! The accounting and flag invariants through `_talloc_free` / `_talloc_unlink` / `free_children`. -/
set_option linter.unusedSimpArgs false
set_option linter.unusedVariables false
namespace Usual.C01

/-- both memlimit invariants -/
def AF (s : State) : Prop := AcctInv s ∧ FlagsInv s

/-- FLAG_PENDING, ref_destructor, list_del touch none of the accounting fields -/
theorem freeBegin_afields' (s : State) (x : Nat) (xb : Obj) (d' : Dtor) (logged : Bool) (y : Nat) :
    ((freeBegin s x xb d' logged).get y).map AFields = (s.get y).map AFields := by
  unfold freeBegin
  have h0 : ∀ q : State, (∀ z : Nat, (q.get z).map AFields = (s.get z).map AFields) →
      ((detach q x).get y).map AFields = (s.get y).map AFields := by
    intro q hq
    unfold detach
    split
    · exact hq y
    · split
      · exact hq y
      · rw [get_modify]
        split
        · rename_i p _ hpy
          subst hpy
          rw [← hq p]; cases q.get p <;> simp [AFields]
        · exact hq y
  apply h0
  intro z
  have h1 : ∀ q : State, (∀ w : Nat, (q.get w).map AFields = (s.get w).map AFields) →
      ((match xb.kind with
        | .ref tgt => q.modify tgt fun x_1 => { x_1 with refs := x_1.refs.erase x }
        | _ => q).get z).map AFields = (s.get z).map AFields := by
    intro q hq
    split
    · rw [get_modify]
      split
      · rename_i tgt _ htz
        subst htz
        rw [← hq tgt]; cases q.get tgt <;> simp [AFields]
      · exact hq z
    · exact hq z
  apply h1
  intro w
  cases logged
  · simp only [Bool.false_eq_true, if_false, get_modify]
    split
    · cases s.get w <;> simp [AFields]
    · rfl
  · simp only [if_true, get_addLog, get_modify]
    split
    · cases s.get w <;> simp [AFields]
    · rfl

theorem run_loop_none_heap (cfg : Cfg) (f : Nat) (s : State) (o : Nat) (fn : Bool) :
    (run cfg f s (.loop o fn none)).1.heap = s.heap := by
  cases f with
  | zero => simp [run]
  | succ f => simp [run]


/-- **accounting, release of a TRef / `.memlimit` chunk** (in a state that needs only the tree part
of the invariant; the state without the chunk has it again) -/
theorem acct_free_leaf' {rk : Nat → Nat} (cfg : Cfg) (hg : cfg.fixGone = true) (f : Nat) (s : State) (x : Nat)
    (xb : Obj) (i : InvT rk s) (ac : AcctInv s) (flr : FlagsInv (s.remove x)) (hx : s.get x = some xb)
    (hk : xb.kind ≠ .plain)
    (lc : xb.children = []) (lr : xb.refs = []) (ld : xb.dtor = .none) (lp : xb.pending = false)
    (ht : ∀ t, xb.kind = .ref t → t ≠ x)
    (i4' : ∀ q, ShapeEq (freeLeafS s x) q → InvT rk q)
    (hoof : (run cfg (f + 1) s (.free x)).1.oof = false) : AF (run cfg (f + 1) s (.free x)).1 := by
  have hpr : xb.parent ≠ some x := by
    intro e
    obtain ⟨po, hpo, hpk, -⟩ := i.wf.parentLive x xb x hx e
    rw [hx] at hpo; cases hpo; exact hk hpk
  obtain ⟨-, hshape⟩ := run_free_leaf cfg f s x xb hx hk lc lr lp ld ht hpr
  simp only [run, hx, lr, lp, ld, dtorStep, ne_eq, not_true_eq_false, if_false, Bool.false_eq_true]
    at hoof hshape ⊢
  have hb := freeBegin_leaf_get s x xb hx hk ht hpr
  have hch : childrenOf (freeBegin s x xb .none false) x = [] := by
    rw [childrenOf_eq (ob := { xb with dtor := .none, pending := true }) (by rw [hb]; simp)]; exact lc
  rw [hch] at hoof hshape ⊢
  simp only [List.head?_nil] at hoof hshape ⊢
  obtain ⟨hl, hln⟩ := run_loop_none_get cfg f (freeBegin s x xb .none false) x true
  have hheap := run_loop_none_heap cfg f (freeBegin s x xb .none false) x true
  generalize (run cfg f (freeBegin s x xb .none false) (.loop x true none)).1 = s3 at hoof hshape hl hln hheap ⊢
  have h3 : s3.get x = some { xb with dtor := .none, pending := true } := by rw [hl, hb]; simp
  unfold freeEnd at hoof hshape ⊢
  simp only [h3, lc, List.isEmpty_nil, if_true] at hoof hshape ⊢
  have hsome := applyLim_isSome_of cfg ((s3.remove x).addLog (.release x)).fuel ((s3.remove x).addLog (.release x))
    xb.parent (-(totalSize xb.size : Int)) false (Or.inl (by have := totalSize_pos xb.size; omega))
  cases ha : applyLim cfg ((s3.remove x).addLog (.release x)).fuel ((s3.remove x).addLog (.release x))
      xb.parent (-(totalSize xb.size : Int)) false with
  | none => rw [ha] at hsome; cases hsome
  | some s5 =>
    rw [ha] at hoof hshape
    simp only [Option.getD_some] at hoof hshape ⊢
    -- the state before the un-charge
    have hsh4 : ShapeEq (freeLeafS s x) ((s3.remove x).addLog (.release x)) :=
      hshape.trans (applyLim_shapeEq _ _ _ _ _ _ _ ha).symm
    have i4 : InvT rk ((s3.remove x).addLog (.release x)) := i4' _ hsh4
    have hg4 : ∀ j : Nat, (((s3.remove x).addLog (.release x)).get j).map AFields =
        ((s.remove x).get j).map AFields := by
      intro j
      simp only [get_addLog, get_remove]
      by_cases e : x = j
      · simp [e]
      · simp only [e, if_false]; rw [hl]; exact freeBegin_afields' s x xb .none false j
    have fl4 : FlagsInv ((s3.remove x).addLog (.release x)) := by
      apply FlagsInv.congr _ flr
      intro y
      have := hg4 y
      cases h1 : ((s3.remove x).addLog (.release x)).get y <;> cases h2 : (s.remove x).get y <;>
        rw [h1, h2] at this <;> simp [AFields] at this ⊢
      exact ⟨this.1, this.2.1, this.2.2.2.2.1, this.2.2.2.2.2⟩
    have hleaf : ∀ y, parentOf s y ≠ some x := by
      intro y hy
      obtain ⟨yb, hyb, hyp⟩ := parentOf_some hy
      obtain ⟨po, hpo, hpk, -⟩ := i.wf.parentLive y yb x hyb hyp
      rw [hx] at hpo; cases hpo; exact hk hpk
    have hl4 : ((s3.remove x).addLog (.release x)).heap.length = s.heap.length := by
      simp only [heap_addLog, length_remove]
      rw [hheap, length_freeBegin]
    exact ⟨acct_remove_leaf i ac cfg hg x xb hx hleaf hg4 hl4 i4 fl4 _ s5 ha hoof,
      (applyLim_eqButCur i4 cfg _ _ _ false s5 ha).flags fl4⟩

theorem acct_free_leaf {rk : Nat → Nat} (cfg : Cfg) (hg : cfg.fixGone = true) (f : Nat) (s : State) (x : Nat)
    (xb : Obj) (i : Inv rk s) (af : AF s) (hx : s.get x = some xb) (hk : xb.kind ≠ .plain)
    (hoof : (run cfg (f + 1) s (.free x)).1.oof = false) : AF (run cfg (f + 1) s (.free x)).1 := by
  obtain ⟨lc, lr, ld, lp⟩ := i.wf.leaf x xb hx hk
  have ht : ∀ t, xb.kind = .ref t → t ≠ x := by
    intro t hkk e; subst e
    obtain ⟨tb, htb, hm⟩ := i.wf.refBack t xb t hx hkk
    rw [hx] at htb; cases htb; rw [lr] at hm; cases hm
  exact acct_free_leaf' cfg hg f s x xb i.t af.1 (flags_remove af.2 x) hx hk lc lr ld lp ht
    (fun q h => (Inv.t ⟨freeLeafS_wf i.wf hx hk, freeLeafS_ranked i.wf hx hk i.ranked⟩).shapeEq h) hoof


/-- the configuration of the repaired code as far as `run` is concerned -/
structure CfgOK (cfg : Cfg) : Prop where
  cx : cfg.fixCx = true
  gone : cfg.fixGone = true
  walk : cfg.fixWalk = true
  promote : cfg.fixPromote = true

def FreeStmt2 (cfg : Cfg) (rk : Nat → Nat) (f : Nat) : Prop :=
  ∀ (s : State) (x : Nat) (xb : Obj), Inv rk s → AF s → s.get x = some xb → xb.refs = [] → xb.pending = false →
    s.nullCtx ≠ some x → PendBelow rk s (rk x) none →
    (run cfg f s (.free x)).1.oof = false → (run cfg f s (.free x)).1.stuck = false →
    AF (run cfg f s (.free x)).1

def UnlinkStmt2 (cfg : Cfg) (rk : Nat → Nat) (f : Nat) : Prop :=
  ∀ (s : State) (ctx : Option Id) (x : Nat) (xb : Obj), Inv rk s → AF s → s.get x = some xb → xb.pending = false →
    xb.parent = orNull s ctx → s.nullCtx ≠ some x → PendBelow rk s (rk x) none →
    (run cfg f s (.unlink ctx x)).1.oof = false → (run cfg f s (.unlink ctx x)).1.stuck = false →
    AF (run cfg f s (.unlink ctx x)).1

def LoopStmt2 (cfg : Cfg) (rk : Nat → Nat) (f : Nat) : Prop :=
  ∀ (s : State) (o : Nat) (ob : Obj) (fn : Bool) (cur : Option Id), Inv rk s → AF s → s.get o = some ob →
    ob.kind = .plain → PendBelow rk s (rk o) (some o) →
    (run cfg f s (.loop o fn cur)).1.oof = false → (run cfg f s (.loop o fn cur)).1.stuck = false →
    AF (run cfg f s (.loop o fn cur)).1

theorem af_of_afields {s s' : State} (hlen : s'.heap.length = s.heap.length)
    (h : ∀ y : Nat, (s'.get y).map AFields = (s.get y).map AFields) (af : AF s) : AF s' :=
  acct_flags_congr hlen h af.1 af.2

/-- nothing pending inside the subtree of `x` when all pending objects rank below `x` -/
theorem nopend_of_pendBelow {rk : Nat → Nat} {s : State} (wr : Ranked rk s) {x : Nat}
    (hpb : PendBelow rk s (rk x) none) : ∀ z zb, InSub s x z → s.get z = some zb → zb.pending = false := by
  intro z zb hz hzb
  cases hp : zb.pending with
  | false => rfl
  | true =>
    have := hpb z zb hzb hp (by simp)
    rcases hz with rfl | hz
    · omega
    · have := hz.rank wr; omega

theorem free_step2 (cfg : Cfg) (ok : CfgOK cfg) (rk : Nat → Nat) (f : Nat) (hl2 : LoopStmt2 cfg rk f) :
    FreeStmt2 cfg rk (f + 1) := by
  intro s x xb i af hx hrf hnp hnull hpb hoof hstuck
  by_cases hk : xb.kind = .plain
  case neg => exact acct_free_leaf cfg ok.gone f s x xb i af hx hk hoof
  have hself : xb.parent ≠ some x := by
    intro e; have := i.ranked.parentLt x xb x hx e; omega
  have hlg := (run_good cfg ok.cx rk f).2.2
  simp only [run, hx, hrf, hnp, ne_eq, not_true_eq_false, if_false, Bool.false_eq_true] at hoof hstuck ⊢
  cases hds : dtorStep xb.dtor with
  | mk acc rest =>
  obtain ⟨d', logged⟩ := rest
  cases acc with
  | false =>
    simp only [hds] at hoof hstuck ⊢
    apply af_of_afields (by simp) _ af
    intro y
    simp only [get_addLog, get_modify]
    split
    · cases s.get y <;> simp [AFields]
    · rfl
  | true =>
    simp only [hds] at hoof hstuck ⊢
    have hsh := freeBegin_plain_shapeEq s x xb d' logged hk
    have hbg := beginFree_get s x d' xb hx
    simp only [hself, if_false] at hbg
    have i2 : Inv rk (freeBegin s x xb d' logged) :=
      Inv.shapeEq hsh ⟨beginFree_wf d' i.wf hx hk hrf hnp hnull hself, beginFree_ranked d' i.ranked hx⟩
    have af2 : AF (freeBegin s x xb d' logged) :=
      af_of_afields (length_freeBegin s x xb d' logged) (freeBegin_afields' s x xb d' logged) af
    obtain ⟨x2, hx2, e21, e22, e23, e24, e25, e26⟩ := hsh.get (s := beginFree s x d') (j := x)
      (o := { xb with dtor := d', pending := true }) (by rw [hbg]; simp)
    have hpend2 : ∀ (y : Nat) yo, (freeBegin s x xb d' logged).get y = some yo → yo.pending = true → y ≠ x →
        ∃ yo0, s.get y = some yo0 ∧ yo0.pending = true := by
      intro y yo hy hp hne
      obtain ⟨y1, hy1, -, -, -, -, e5, -⟩ := hsh.symm.get hy
      rw [hbg] at hy1
      simp only [hne, if_false] at hy1
      split at hy1
      · obtain ⟨o0, h0, rfl⟩ := Option.map_eq_some_iff.1 hy1; exact ⟨o0, h0, by rw [← e5] at hp; exact hp⟩
      · exact ⟨y1, hy1, by rw [← e5] at hp; exact hp⟩
    have hpb2 : PendBelow rk (freeBegin s x xb d' logged) (rk x) (some x) := by
      intro y yo hy hp hne
      have hne' : y ≠ x := fun e => hne (by rw [e])
      obtain ⟨yo0, h0, h1⟩ := hpend2 y yo hy hp hne'
      exact hpb y yo0 h0 h1 (by simp)
    have hfl := freeEnd_flagsLe cfg
      (run cfg f (freeBegin s x xb d' logged) (.loop x true (childrenOf (freeBegin s x xb d' logged) x).head?)).1 x
    obtain ⟨hoof3', hstuck3'⟩ := flag_false_of_le hfl
    have hoof3 := hoof3' hoof
    have hstuck3 := hstuck3' hstuck
    have g3 := hlg (freeBegin s x xb d' logged) x x2 true _ i2 hx2 (e24 ▸ hk) hpb2 hoof3 hstuck3
    have af3 := hl2 (freeBegin s x xb d' logged) x x2 true _ i2 af2 hx2 (e24 ▸ hk) hpb2 hoof3 hstuck3
    generalize (run cfg f (freeBegin s x xb d' logged)
        (.loop x true (childrenOf (freeBegin s x xb d' logged) x).head?)).1 = s3 at g3 af3 hoof hstuck hoof3 hstuck3 ⊢
    obtain ⟨x3, hx3, e31, e32, e33⟩ := g3.stable x x2 hx2 (e24 ▸ hk) (Nat.lt_succ_self _)
    obtain ⟨f1, f2, f3⟩ := freeEnd_some cfg s3 x x3 hx3
    have hch : x3.children = [] := f3 hstuck
    have hx3p : x3.pending = true := by rw [e31, e25]
    have hnp3 : ∀ (y : Nat) yo, s3.get y = some yo → yo.parent ≠ some x := by
      intro y yo hy hpar
      obtain ⟨po, hpo, -, hm⟩ := g3.inv.wf.parentLive y yo x hy hpar
      rw [hx3] at hpo; cases hpo
      have hlt := g3.inv.ranked.parentLt y yo x hy hpar
      rcases hm with hm | hm
      · rw [hch] at hm; cases hm
      · obtain ⟨y2, hy2, hp2⟩ := g3.nnp y yo hy hm
        by_cases e : y = x
        · subst e; omega
        · obtain ⟨yo0, h0, h1⟩ := hpend2 y y2 hy2 hp2 e
          have := hpb y yo0 h0 h1 (by simp)
          omega
    have hnull3 : s3.nullCtx ≠ some x := by
      rw [g3.null, hsh.1]; unfold beginFree; simpa using hnull
    have i4 : Inv rk (s3.remove x) := by
      refine ⟨endFree_wf g3.inv.wf hx3 e33 hx3p hch hnull3 hnp3, g3.inv.ranked.mono rfl ?_⟩
      intro j o' hj
      rw [get_remove_some] at hj
      exact ⟨o', hj.2, rfl, rfl⟩
    exact acct_freeEnd cfg ok.gone g3.inv.t af3.2 af3.1 x x3 hx3 hch
      (by intro y hy; obtain ⟨yb, hyb, hyp⟩ := parentOf_some hy; exact hnp3 y yb hyb hyp) i4.t hoof


theorem unlink_step2 (cfg : Cfg) (ok : CfgOK cfg) (rk : Nat → Nat) (f : Nat) (hf2 : FreeStmt2 cfg rk f) :
    UnlinkStmt2 cfg rk (f + 1) := by
  intro s ctx x xb i af hx hnp hpar hnull hpb hoof hstuck
  simp only [run, hx, hpar, ne_eq, not_true_eq_false, if_false] at hoof hstuck ⊢
  cases hrefs : xb.refs with
  | nil =>
    simp only [hrefs] at hoof hstuck ⊢
    exact hf2 s x xb i af hx hrefs hnp hnull hpb hoof hstuck
  | cons r rest =>
    simp only [hrefs] at hoof hstuck ⊢
    obtain ⟨rb, hr, hrk⟩ := i.wf.refLive x xb r hx (by rw [hrefs]; simp)
    simp only [hr] at hoof hstuck ⊢
    have hrnp : rb.kind ≠ .plain := by rw [hrk]; simp
    obtain ⟨lc, lr, ld, lp⟩ := i.wf.leaf r rb hr hrnp
    have hxk : xb.kind = .plain := by
      cases hk : xb.kind with
      | plain => rfl
      | _ => have := (i.wf.leaf x xb hx (by rw [hk]; simp)).2.1; rw [hrefs] at this; cases this
    have hxr : x ≠ r := by intro e; subst e; rw [hx] at hr; cases hr; exact hrnp hxk
    have hq : rb.parent ≠ some x := by
      intro e; have := i.ranked.refLt r rb x x hr hrk e; omega
    have hself : xb.parent ≠ some x := by
      intro e; have := i.ranked.parentLt x xb x hx e; omega
    have hps := promoteMove_shapeEq cfg s x xb rb rest (orNull s ctx) hxk
    have hPr : (promoteS s x rb.parent rest).get r = some rb := by
      rw [promoteS_get hx rb.parent rest hq hself]
      have h1 : rb.parent ≠ some r := by
        intro e
        obtain ⟨po, hpo, hpk, -⟩ := i.wf.parentLive r rb r hr e
        rw [hr] at hpo; cases hpo; exact hrnp hpk
      have h2 : xb.parent ≠ some r := by
        intro e
        obtain ⟨po, hpo, hpk, -⟩ := i.wf.parentLive x xb r hx e
        rw [hr] at hpo; cases hpo; exact hrnp hpk
      simp [Ne.symm hxr, hr, h1, h2]
    obtain ⟨rb', hr', e1, e2, e3, e4, e5, e6⟩ := hps.get hPr
    cases f with
    | zero => simp [run] at hoof
    | succ f =>
      have ht : ∀ t, rb'.kind = .ref t → t ≠ r := by
        intro t hkk; rw [e4, hrk] at hkk; cases hkk; exact hxr
      -- the new parent
      have hqq : ∀ q, rb.parent = some q → (∃ qb, s.get q = some qb ∧ qb.kind = .plain) ∧ rk q < rk x := by
        intro q hqq
        obtain ⟨qb, hqb, hqk, -⟩ := i.wf.parentLive r rb q hr hqq
        exact ⟨⟨qb, hqb, hqk⟩, i.ranked.refLt r rb x q hr hrk hqq⟩
      have im : Inv rk (moveS s x rb.parent false) :=
        (good_moveS (b := rk x) i hx hxk hnp rb.parent hqq hnull (Nat.le_refl _) (ShapeEq.refl _)).inv
      have hflP := run_flagsLe cfg (f + 1) (promoteMove cfg s x xb rb rest (orNull s ctx)) (.free r)
      have hoofP := (flag_false_of_le hflP).1 hoof
      have afP : AF (promoteMove cfg s x xb rb rest (orNull s ctx)) := by
        have := acct_promoteMove cfg ok.gone ok.walk ok.promote i.t af.2 af.1 x xb hx hxk rb rest hq im
          (nopend_of_pendBelow i.ranked hpb) (fun n hn => (hqq n hn).1) (by rw [hpar]; exact hoofP)
        rw [hpar] at this; exact this
      have iP : InvT rk (promoteMove cfg s x xb rb rest (orNull s ctx)) :=
        (promoteS_invT hx hxk rb.parent rest hq hself im).shapeEq hps
      -- structure after the TRef is gone
      have hcomm : ShapeEq (moveS (freeLeafS s r) x rb.parent false)
          (freeLeafS (promoteMove cfg s x xb rb rest (orNull s ctx)) r) := by
        refine ShapeEq.trans ?_ (shapeEq_freeLeafS hps r)
        refine shapeEq_get_eq ?_ (fun j => promote_comm i.wf hx hxk hrefs hnp hr hq hself j)
        rw [nullCtx_freeLeafS, nullCtx_moveS, nullCtx_freeLeafS]
        unfold promoteS; simp
      have g1 : Good rk (rk x) s (freeLeafS s r) := good_freeLeaf i hr hrnp (ShapeEq.refl _)
      have hLx : (freeLeafS s r).get x = some { xb with children := xb.children.erase r, refs := rest } := by
        rw [freeLeafS_get i.wf hr hrnp]; unfold eraseAll; simp [hxr, hx, hrefs]
      have g2 := good_moveS (b := rk x) g1.inv hLx hxk hnp rb.parent (by
          intro q hqq'
          obtain ⟨qb, hqb, hqk, -⟩ := i.wf.parentLive r rb q hr hqq'
          have hqr : q ≠ r := by intro e; subst e; rw [hr] at hqb; cases hqb; exact hrnp hqk
          refine ⟨⟨{ qb with children := qb.children.erase r, refs := qb.refs.erase r }, ?_, hqk⟩,
            i.ranked.refLt r rb x q hr hrk hqq'⟩
          rw [freeLeafS_get i.wf hr hrnp]; unfold eraseAll; simp [hqr, hqb])
        (by rw [nullCtx_freeLeafS]; exact hnull) (Nat.le_refl _) hcomm
      exact acct_free_leaf' cfg ok.gone f _ r rb' iP afP.1 (flags_remove afP.2 r) hr' (e4 ▸ hrnp) (e2 ▸ lc) (e3 ▸ lr) (e6 ▸ ld) (e5 ▸ lp) ht
        (fun q h => (g2.inv.shapeEq h).t) hoof


/-- accounting part of `throw_good` -/
theorem throw_acct (cfg : Cfg) (ok : CfgOK cfg) (rk : Nat → Nat) (s : State) (c o : Nat)
    (cb ob : Obj) (i : Inv rk s) (af : AF s) (hc : s.get c = some cb) (hk : cb.kind = .plain)
    (hnp : cb.pending = false) (hpar : cb.parent = some o) (ho : s.get o = some ob)
    (hok : ob.kind = .plain) (hpb : PendBelow rk s (rk c) none) (hoof : (throwChild cfg s c).oof = false) :
    AF (throwChild cfg s c) := by
  have hlt := i.ranked.parentLt c cb o hc hpar
  have hnull : s.nullCtx ≠ some c := by
    intro e
    obtain ⟨nb, hb1, -, -, hb4, -⟩ := i.wf.nullOK c e
    rw [hc] at hb1; cases hb1; rw [hpar] at hb4; cases hb4
  unfold throwChild at hoof ⊢
  simp only [hc, hpar] at hoof ⊢
  cases hcl : climbPending s.fuel s (some o) with
  | none => simp [hcl] at hoof
  | some res =>
    simp only [hcl, ok.cx, if_true] at hoof ⊢
    by_cases hsame : orNull s res = some o
    · simp only [hsame, ne_eq, not_true_eq_false, if_false]; exact af
    · simp only [ne_eq, hsame, not_false_eq_true, if_true] at hoof ⊢
      have hir : isRef cb = false := by simp [isRef, hk]
      have hqq : ∀ q, orNull s res = some q → (∃ qb, s.get q = some qb ∧ qb.kind = .plain) ∧ rk q < rk c := by
        intro q hq
        rcases climbPending_spec i s.fuel o ob ho hok res hcl with h | ⟨q', qb, h1, h2, h3, h4, h5⟩
        · subst h
          simp only [orNull] at hq
          obtain ⟨nb, hb1, hb2, -, -, -⟩ := i.wf.nullOK q hq
          refine ⟨⟨nb, hb1, hb2⟩, i.ranked.nullMin q c cb hq hc ?_⟩
          intro e; exact hnull (e ▸ hq)
        · subst h1
          simp only [orNull, Option.some.injEq] at hq; subst hq
          exact ⟨⟨qb, h2, h3⟩, by omega⟩
      have i3 : InvT rk (moveS s c (orNull s res) (isRef cb)) := by
        rw [hir]
        exact (good_moveS (b := rk c) i hc hk hnp (orNull s res) hqq hnull (Nat.le_refl _) (ShapeEq.refl _)).inv.t
      have hself : orNull s res ≠ some c := by
        intro e; have := (hqq c e).2; omega
      have := acct_moveChild cfg ok.gone ok.walk i.t af.2 af.1 c cb hc (by rw [hk]; simp) (orNull s res) hself i3
        (nopend_of_pendBelow i.ranked hpb) (fun n hn => (hqq n hn).1) (by rw [hpar]; exact hoof)
      rw [hpar] at this; exact this

theorem loop_step2 (cfg : Cfg) (ok : CfgOK cfg) (rk : Nat → Nat) (f : Nat)
    (hu2 : UnlinkStmt2 cfg rk f) (hl2 : LoopStmt2 cfg rk f) : LoopStmt2 cfg rk (f + 1) := by
  intro s o ob fn cur i af ho hok hpb hoof hstuck
  have hu := (run_good cfg ok.cx rk f).2.1
  cases cur with
  | none => simp only [run]; exact af
  | some c =>
    simp only [run] at hoof hstuck ⊢
    by_cases hcon : (childrenOf s o).contains c = true
    case neg =>
      exfalso
      have hse : loopEnter s o c = s.setStuck := by unfold loopEnter; rw [if_neg hcon]
      rw [hse] at hstuck
      have hst : (s.setStuck).stuck = true := rfl
      split at hstuck
      · rw [hst] at hstuck; cases hstuck
      · split at hstuck
        · rw [(run_flagsLe cfg f _ _).2 hst] at hstuck; cases hstuck
        · have h1 := (run_flagsLe cfg f s.setStuck (.unlink (some o) c)).2 hst
          have h2 : (if (run cfg f s.setStuck (.unlink (some o) c)).2 ≠ 0 then
              throwChild cfg (run cfg f s.setStuck (.unlink (some o) c)).1 c
              else (run cfg f s.setStuck (.unlink (some o) c)).1).stuck = true := by
            split
            · exact (throwChild_flagsLe cfg _ c).2 h1
            · exact h1
          rw [(run_flagsLe cfg f _ _).2 h2] at hstuck; cases hstuck
    have hse : loopEnter s o c = s := by unfold loopEnter; rw [if_pos hcon]
    rw [hse] at hoof hstuck ⊢
    have hcm : c ∈ ob.children := by
      rw [childrenOf_eq ho] at hcon; simpa using hcon
    obtain ⟨cb, hc, hcp, hcnp⟩ := i.wf.childBack o ob c ho hcm
    have hlt := i.ranked.parentLt c cb o hc hcp
    simp only [hc] at hoof hstuck ⊢
    by_cases hskip : (!fn && isLimit cb) = true
    · simp only [hskip, if_true] at hoof hstuck ⊢
      exact hl2 s o ob fn _ i af ho hok hpb hoof hstuck
    · simp only [hskip, if_false] at hoof hstuck ⊢
      have hfl2 := run_flagsLe cfg f
        (if (run cfg f s (.unlink (some o) c)).2 ≠ 0 then throwChild cfg (run cfg f s (.unlink (some o) c)).1 c
          else (run cfg f s (.unlink (some o) c)).1) (.loop o fn (succOf (childrenOf s o) c))
      obtain ⟨hoof2, hstuck2⟩ := flag_false_of_le hfl2
      have hoof2 := hoof2 hoof
      have hstuck2 := hstuck2 hstuck
      have hfl1 : FlagsLe (run cfg f s (.unlink (some o) c)).1
          (if (run cfg f s (.unlink (some o) c)).2 ≠ 0 then throwChild cfg (run cfg f s (.unlink (some o) c)).1 c
          else (run cfg f s (.unlink (some o) c)).1) := by
        split
        · exact throwChild_flagsLe _ _ _
        · exact FlagsLe.refl _
      obtain ⟨hoof1, hstuck1⟩ := flag_false_of_le hfl1
      have hoof1 := hoof1 hoof2
      have hstuck1 := hstuck1 hstuck2
      have hnullc : s.nullCtx ≠ some c := by
        intro e
        obtain ⟨nb, hb1, -, -, hb4, -⟩ := i.wf.nullOK c e
        rw [hc] at hb1; cases hb1; rw [hcp] at hb4; cases hb4
      have hpbc : PendBelow rk s (rk c) none := by
        intro y yo hy hp _
        by_cases e : y = o
        · subst e; exact hlt
        · have := hpb y yo hy hp (by simpa using e); omega
      obtain ⟨g1, hout⟩ := hu s (some o) c cb i hc hcnp (by simp [orNull, hcp]) hnullc hpbc hoof1 hstuck1
      have af1 := hu2 s (some o) c cb i af hc hcnp (by simp [orNull, hcp]) hnullc hpbc hoof1 hstuck1
      generalize run cfg f s (.unlink (some o) c) = r1 at g1 af1 hout hoof hstuck hoof2 hstuck2 hoof1 hstuck1 ⊢
      obtain ⟨o1, ho1, -, -, hok1⟩ := g1.stable o ob ho hok hlt
      have g2 : Good rk (rk o + 1) s (if r1.2 ≠ 0 then throwChild cfg r1.1 c else r1.1) ∧
          AF (if r1.2 ≠ 0 then throwChild cfg r1.1 c else r1.1) := by
        by_cases hrc : r1.2 = 0
        · simp only [hrc, ne_eq, not_true_eq_false, if_false]; exact ⟨g1.mono (by omega), af1⟩
        · simp only [ne_eq, hrc, not_false_eq_true, if_true] at hoof2 ⊢
          rcases hout with h0 | ⟨hck, d, hsh⟩
          · exact absurd h0 hrc
          · obtain ⟨c1, hc1, e1, -, -, e4, e5, -⟩ := hsh.get (j := c) (o := { cb with dtor := d }) (by simp [hc])
            exact ⟨(g1.mono (by omega)).trans
              (throw_good cfg ok.cx rk r1.1 c o c1 o1 g1.inv hc1 (e4 ▸ hck) (e5 ▸ hcnp) (e1 ▸ hcp) ho1 hok1 hoof2),
              throw_acct cfg ok rk r1.1 c o c1 o1 g1.inv af1 hc1 (e4 ▸ hck) (e5 ▸ hcnp) (e1 ▸ hcp) ho1 hok1
                (hpbc.of_nnp g1.nnp) hoof2⟩
      obtain ⟨g2, af2⟩ := g2
      generalize (if r1.2 ≠ 0 then throwChild cfg r1.1 c else r1.1) = s2 at g2 af2 hoof hstuck hoof2 hstuck2 ⊢
      obtain ⟨o2, ho2, -, -, hok2⟩ := g2.stable o ob ho hok (Nat.lt_succ_self _)
      exact hl2 s2 o o2 fn _ g2.inv af2 ho2 hok2 (hpb.of_nnp g2.nnp) hoof hstuck

/-- **accounting through `run`**: `_talloc_free`, `_talloc_unlink` and the child loops keep
`cur_size = Σ charges` and the use-flag discipline -/
theorem run_acct (cfg : Cfg) (ok : CfgOK cfg) (rk : Nat → Nat) (f : Nat) :
    FreeStmt2 cfg rk f ∧ UnlinkStmt2 cfg rk f ∧ LoopStmt2 cfg rk f := by
  induction f with
  | zero =>
    refine ⟨?_, ?_, ?_⟩
    · intro s x xb _ _ _ _ _ _ _ hoof _; simp [run] at hoof
    · intro s ctx x xb _ _ _ _ _ _ _ hoof _; simp [run] at hoof
    · intro s o ob fn cur _ _ _ _ _ hoof _; simp [run] at hoof
  | succ f ih =>
    exact ⟨free_step2 cfg ok rk f ih.2.2, unlink_step2 cfg ok rk f ih.1, loop_step2 cfg ok rk f ih.2.1 ih.2.2⟩

end Usual.C01
