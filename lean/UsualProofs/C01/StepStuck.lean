import UsualProofs.C01.RunOut
import UsualProofs.C01.Step
/-! No public operation sets the ghost flag `stuck`: the `list_for_each_safe` cursor of
`free_children` is never lost and `free_children(ptr, true)` leaves no child behind. -/
set_option linter.unusedSimpArgs false
set_option linter.unusedVariables false
namespace Usual.C01

theorem pendNR_of_wf {s : State} (w : WF s) (ex : Option Nat) : PendNR s ex := by
  intro p pb hp hpp; rw [w.noPending p pb hp] at hpp; cases hpp

/-- release of a TRef / `.memlimit` chunk, any fuel -/
theorem leaf_free_stuck (cfg : Cfg) (f : Nat) {s : State} (w : WFp s) (r : Nat) (rb : Obj) (hr : s.get r = some rb)
    (hk : rb.kind ≠ .plain) : (run cfg f s (.free r)).1.stuck = s.stuck := by
  cases f with
  | zero => simp [run]
  | succ f =>
    obtain ⟨lc, lr, ld, lp⟩ := w.leaf r rb hr hk
    have ht : ∀ t, rb.kind = .ref t → t ≠ r := by
      intro t hkk e; subst e
      obtain ⟨tb, htb, hm⟩ := w.refBack t rb t hr hkk
      rw [hr] at htb; cases htb; rw [lr] at hm; cases hm
    have hpr : rb.parent ≠ some r := by
      intro e
      obtain ⟨po, hpo, hpk, -⟩ := w.parentLive r rb r hr e
      rw [hr] at hpo; cases hpo; exact hk hpk
    exact run_free_leaf_stuck cfg f s r rb hr hk lc lr lp ld ht hpr

theorem runFree_stuck {rk : Nat → Nat} {s : State} {o : Nat} (cfg : Cfg) (hfix : cfg.fixCx = true) (w : WF s)
    (wr : Ranked rk s) (ho : UserObj s o) (hst : s.stuck = false) (f : Nat)
    (hoof : (run cfg f s (.free o)).1.oof = false) : (run cfg f s (.free o)).1.stuck = false := by
  obtain ⟨ob, hob, hk, hnull⟩ := ho
  have i : Inv rk s := ⟨w.toWFp, wr⟩
  by_cases hrefs : ob.refs = []
  · exact ((run_out cfg hfix rk f).1 s o ob i hob hk hrefs (w.noPending o ob hob) hnull
      (pendBelow_of_wf w _ _) (pendNR_of_wf w _) hst hoof).1
  · cases f with
    | zero => simp [run]; exact hst
    | succ f =>
      simp only [run, hob, hrefs, ne_eq, not_false_eq_true, if_true]
      split
      · exact hst
      · split
        · split
          · rename_i r hr
            have hrm : r ∈ ob.refs := List.mem_of_getLast? hr
            obtain ⟨rb, hrb, hrk⟩ := w.refLive o ob r hob hrm
            rw [leaf_free_stuck cfg f w.toWFp r rb hrb (by rw [hrk]; simp)]; exact hst
          · exact hst
        · exact hst

theorem runUnlink_stuck {rk : Nat → Nat} {s : State} {o : Nat} (cfg : Cfg) (hfix : cfg.fixCx = true) (w : WF s)
    (wr : Ranked rk s) (ctx : Option Id) (ho : UserObj s o) (hst : s.stuck = false) (f : Nat)
    (hoof : (run cfg f s (.unlink ctx o)).1.oof = false) : (run cfg f s (.unlink ctx o)).1.stuck = false := by
  obtain ⟨ob, hob, hk, hnull⟩ := ho
  have i : Inv rk s := ⟨w.toWFp, wr⟩
  by_cases hprim : ob.parent = orNull s ctx
  · exact ((run_out cfg hfix rk f).2.1 s ctx o ob i hob hk (w.noPending o ob hob) hprim hnull
      (pendBelow_of_wf w _ _) (pendNR_of_wf w _) hst hoof).1
  · cases f with
    | zero => simp [run]; exact hst
    | succ f =>
      simp only [run, hob, ne_eq, hprim, not_false_eq_true, if_true]
      split
      · rename_i r hr
        have hrm := findRefByParent_mem _ _ _ _ hr
        obtain ⟨rb, hrb, hrk⟩ := w.refLive o ob r hob hrm
        rw [leaf_free_stuck cfg f w.toWFp r rb hrb (by rw [hrk]; simp)]; exact hst
      · exact hst


/-- **no_stuck**: no public operation on a well-formed state sets the ghost flag `stuck` -/
theorem step_stuck {rk : Nat → Nat} {s : State} (cfg : Cfg) (hfix : cfg.fixCx = true) (op : Op) (w : WF s)
    (wr : Ranked rk s) (hop : OpOK rk s op) (hst : s.stuck = false)
    (hoof : (step cfg s op).1.oof = false) : (step cfg s op).1.stuck = false := by
  cases op with
  | alloc p sz fc fl => simp only [step]; rw [(frame_hdrAlloc _ _ _ _ _ _ _ _).stuck]; exact hst
  | free o => exact runFree_stuck cfg hfix w wr hop hst _ hoof
  | freeChildren o =>
    obtain ⟨ob, hob, hk, hnull⟩ := hop
    simp only [step] at hoof ⊢
    rw [childrenOf_eq hob] at hoof ⊢
    exact ((run_out cfg hfix rk s.fuel).2.2 s o ob false _ ⟨w.toWFp, wr⟩ hob hk (pendBelow_of_wf w _ _)
      (pendNR_of_wf w _) hst (w.noPending o ob hob) (by intro h; cases h)
      (fun c hc => List.mem_of_mem_head? hc) hoof).1
  | reference ctx o fl =>
    simp only [step]
    split
    · exact hst
    · split
      · show ((hdrAlloc cfg s (cxOf s ctx) ctx REFSIZE true (.ref o) fl).1.modify o _).stuck = false
        rw [stuck_modify, (frame_hdrAlloc _ _ _ _ _ _ _ _).stuck]; exact hst
      · rw [(frame_hdrAlloc _ _ _ _ _ _ _ _).stuck]; exact hst
  | unlink ctx o => exact runUnlink_stuck cfg hfix w wr ctx hop hst _ hoof
  | steal np o =>
    simp only [step]
    split
    · exact hst
    · split
      · exact hst
      · rw [(frame_reparent _ _ _ _ _).stuck]; exact hst
  | reparent op' np o => simp only [step]; rw [(frame_reparent _ _ _ _ _).stuck]; exact hst
  | realloc p o sz fl =>
    simp only [step] at hoof ⊢
    split
    · exact hst
    · split
      · rename_i hsz
        simp only [hsz, if_true] at hoof
        split at hoof
        · rename_i hgt; simp at hgt
        · exact runUnlink_stuck cfg hfix w wr p hop hst _ hoof
      · split
        · exact hst
        · split
          · exact hst
          · split
            · exact hst
            · split
              · exact hst
              · rename_i s1 h1
                have e1 := (frame_applyLim _ _ _ _ _ _ _ h1).stuck
                split
                · rw [(frame_applyLim_getD _ _ _ _ _ _).stuck, e1]; exact hst
                · rw [stuck_modify, e1]; exact hst
  | setDtor o d =>
    simp only [step]
    split
    · exact hst
    · exact hst
  | setLimit o mx fl =>
    obtain ⟨ob, hob, hk, hnull⟩ := hop
    simp only [step, setLimit, hob]
    split
    · have hsh1 := shapeEq_modify_self s o (fun x => { x with hasLim := false }) (fun _ => rfl)
      split
      · rename_i l hl
        have hl' : findLim s ob.children = some l := by
          split at hl
          · exact hl
          · cases hl
        obtain ⟨hm, lb, hlb, hlk⟩ := findLim_spec s _ l hl'
        obtain ⟨lb1, hlb1, -, -, -, e4, -, -⟩ := hsh1.get hlb
        rw [leaf_free_stuck cfg _ (w.toWFp.shapeEq hsh1) l lb1 hlb1 (by rw [e4, hlk]; simp)]
        exact hst
      · exact hst
    · split
      · rw [(frame_setLimitConfigure _ _ _ _ _).stuck]; exact hst
      · split
        · rw [(frame_setLimitConfigure _ _ _ _ _).stuck, (frame_hdrAlloc _ _ _ _ _ _ _ _).stuck]; exact hst
        · rw [(frame_hdrAlloc _ _ _ _ _ _ _ _).stuck]; exact hst
  | nullOn fl =>
    simp only [step]
    split
    · exact hst
    · split
      · show (hdrAlloc cfg s 0 none 0 false .plain fl).1.stuck = false
        rw [(frame_hdrAlloc _ _ _ _ _ _ _ _).stuck]; exact hst
      · rw [(frame_hdrAlloc _ _ _ _ _ _ _ _).stuck]; exact hst
  | nullOff =>
    cases hnull : s.nullCtx with
    | none => simp only [step, hnull]; exact hst
    | some n =>
      rw [nullOff_eq cfg w hnull] at hoof ⊢
      obtain ⟨w2, wr2⟩ := nullPrep_wf w wr hnull
      obtain ⟨nb, hn, hnk, hnp, hnpar, hnrefs⟩ := w.nullOK n hnull
      obtain ⟨nb', hn', r⟩ := (nullPrep_rel w hnull).2 n nb hn
      have hst2 : (nullPrep s n).stuck = false := by
        unfold nullPrep
        show ((((childrenOf s n).foldl (fun (acc : State) c => acc.modify c fun x => { x with parent := none }) s).modify n
          fun x => { x with children := [] })).stuck = false
        rw [stuck_modify]
        have : ∀ (cs : List Id) (acc : State), (cs.foldl (fun (acc : State) c => acc.modify c fun x =>
            { x with parent := none }) acc).stuck = acc.stuck := by
          intro cs; induction cs with
          | nil => intro acc; rfl
          | cons c cs ih => intro acc; simp only [List.foldl_cons]; rw [ih]; rfl
        rw [this]; exact hst
      exact runFree_stuck cfg hfix w2 wr2 ⟨nb', hn', by rw [r.kind]; exact hnk, by intro h; cases h⟩ hst2 _ hoof

end Usual.C01
