import UsualProofs.C01.WF
/-! The Bool-valued invariant evaluated by the driver (`wfOK`) is the Prop-level invariant `WF`. -/
set_option linter.unusedSimpArgs false
set_option linter.unusedVariables false
namespace Usual.C01

theorem all_ids_iff (s : State) (P : Nat → Obj → Bool) :
    allObjs s P = true ↔ ∀ (x : Nat) o, s.get x = some o → P x o = true := by
  unfold allObjs
  simp only [List.all_eq_true, ids, List.mem_range]
  constructor
  · intro h x o hx
    have := h x (lt_of_get s x o hx)
    simpa [hx] using this
  · intro h x _
    cases hx : s.get x with
    | none => rfl
    | some o => simpa using h x o hx

theorem plainAt_iff (s : State) (a : Nat) : plainAt s a = true ↔ isPlainAt s a := by
  unfold plainAt isPlainAt
  cases s.get a with
  | none => simp
  | some o => simp

theorem orderOK_iff (s : State) (l : List Id) :
    orderOK s l = true ↔ l.Pairwise (fun a b => isPlainAt s a → isPlainAt s b) := by
  induction l with
  | nil => simp [orderOK]
  | cons a l ih =>
    simp only [orderOK, Bool.and_eq_true, Bool.or_eq_true, Bool.not_eq_true', List.all_eq_true,
      List.pairwise_cons, ih]
    constructor
    · rintro ⟨h1, h2⟩
      refine ⟨?_, h2⟩
      intro b hb ha
      rcases h1 with h1 | h1
      · rw [(plainAt_iff s a).2 ha] at h1; cases h1
      · exact (plainAt_iff s b).1 (h1 b hb)
    · rintro ⟨h1, h2⟩
      refine ⟨?_, h2⟩
      cases hpa : plainAt s a with
      | false => left; rfl
      | true => right; intro b hb; exact (plainAt_iff s b).2 (h1 b hb ((plainAt_iff s a).1 hpa))

theorem wfpOK_iff (s : State) : wfpOK s = true ↔ WFp s := by
  unfold wfpOK
  rw [Bool.and_eq_true, all_ids_iff]
  constructor
  · rintro ⟨h, hn⟩
    have hobj : ∀ (x : Nat) o, s.get x = some o →
        ((match o.parent with
          | none => true
          | some p => match s.get p with
            | some po => po.kind == .plain && (po.children.contains x || o.pending)
            | none => false) = true) ∧
        (o.children.all (fun c => match s.get c with
          | some co => co.parent == some x && !co.pending
          | none => false) = true) ∧
        o.children.Nodup ∧
        (o.refs.all (fun r => match s.get r with
          | some ro => ro.kind == .ref x
          | none => false) = true) ∧
        o.refs.Nodup ∧
        ((match o.kind with
          | .ref t => (match s.get t with
              | some tb => tb.refs.contains x
              | none => false)
          | _ => true) = true) ∧
        ((o.kind == .plain || (o.children.isEmpty && o.refs.isEmpty && o.dtor == .none && !o.pending)) = true) ∧
        ((!o.pending || o.refs.isEmpty) = true) ∧
        (orderOK s o.children = true) := by
      intro x o hx
      have := h x o hx
      unfold objOK at this
      simp only [Bool.and_eq_true, decide_eq_true_eq] at this
      obtain ⟨⟨⟨⟨⟨⟨⟨⟨a1, a2⟩, a3⟩, a4⟩, a5⟩, a6⟩, a7⟩, a8⟩, a9⟩ := this
      exact ⟨a1, a2, a3, a4, a5, a6, a7, a8, a9⟩
    constructor
    · intro x o p hx hp
      have := (hobj x o hx).1
      rw [hp] at this
      simp only [] at this
      cases hpp : s.get p with
      | none => rw [hpp] at this; cases this
      | some po =>
        rw [hpp] at this
        simp only [Bool.and_eq_true, beq_iff_eq, Bool.or_eq_true, List.contains_eq_mem, decide_eq_true_eq] at this
        exact ⟨po, rfl, this.1, this.2⟩
    · intro x o c hx hc
      have := (hobj x o hx).2.1
      rw [List.all_eq_true] at this
      have := this c hc
      cases hcc : s.get c with
      | none => rw [hcc] at this; cases this
      | some co =>
        rw [hcc] at this
        simp only [Bool.and_eq_true, beq_iff_eq, Bool.not_eq_true'] at this
        exact ⟨co, rfl, this.1, this.2⟩
    · intro x o hx; exact (hobj x o hx).2.2.1
    · intro x o r hx hr
      have := (hobj x o hx).2.2.2.1
      rw [List.all_eq_true] at this
      have := this r hr
      cases hrr : s.get r with
      | none => rw [hrr] at this; cases this
      | some ro =>
        rw [hrr] at this
        simp only [beq_iff_eq] at this
        exact ⟨ro, rfl, this⟩
    · intro x o hx; exact (hobj x o hx).2.2.2.2.1
    · intro r ro t hr hk
      have := (hobj r ro hr).2.2.2.2.2.1
      rw [hk] at this
      simp only [] at this
      cases htt : s.get t with
      | none => rw [htt] at this; cases this
      | some tb =>
        rw [htt] at this
        simp only [List.contains_eq_mem, decide_eq_true_eq] at this
        exact ⟨tb, rfl, this⟩
    · intro r ro hr hk
      have := (hobj r ro hr).2.2.2.2.2.2.1
      simp only [Bool.or_eq_true, beq_iff_eq, Bool.and_eq_true, List.isEmpty_iff, Bool.not_eq_true'] at this
      rcases this with h1 | ⟨⟨⟨h1, h2⟩, h3⟩, h4⟩
      · exact absurd h1 hk
      · exact ⟨h1, h2, h3, h4⟩
    · intro x o hx hp
      have := (hobj x o hx).2.2.2.2.2.2.2.1
      simp only [Bool.or_eq_true, Bool.not_eq_true', List.isEmpty_iff] at this
      rcases this with h1 | h1
      · rw [hp] at h1; cases h1
      · exact h1
    · intro x o hx; exact (orderOK_iff s _).1 (hobj x o hx).2.2.2.2.2.2.2.2
    · intro n hnn
      unfold nullOKb at hn
      rw [hnn] at hn
      simp only [] at hn
      cases hg : s.get n with
      | none => rw [hg] at hn; cases hn
      | some nb =>
        rw [hg] at hn
        simp only [Bool.and_eq_true, beq_iff_eq, Bool.not_eq_true', List.isEmpty_iff] at hn
        exact ⟨nb, rfl, hn.1.1.1, hn.1.1.2, hn.1.2, hn.2⟩
  · intro w
    refine ⟨?_, ?_⟩
    · intro x o hx
      unfold objOK
      simp only [Bool.and_eq_true, decide_eq_true_eq]
      refine ⟨⟨⟨⟨⟨⟨⟨⟨?_, ?_⟩, w.childNodup x o hx⟩, ?_⟩, w.refNodup x o hx⟩, ?_⟩, ?_⟩, ?_⟩,
        (orderOK_iff s _).2 (w.order x o hx)⟩
      · cases hp : o.parent with
        | none => rfl
        | some p =>
          obtain ⟨po, hpo, hpk, hm⟩ := w.parentLive x o p hx hp
          simp only [hpo, Bool.and_eq_true, beq_iff_eq, Bool.or_eq_true, List.contains_eq_mem, decide_eq_true_eq]
          exact ⟨hpk, hm⟩
      · rw [List.all_eq_true]
        intro c hc
        obtain ⟨co, hco, h1, h2⟩ := w.childBack x o c hx hc
        simp [hco, h1, h2]
      · rw [List.all_eq_true]
        intro r hr
        obtain ⟨ro, hro, h1⟩ := w.refLive x o r hx hr
        simp [hro, h1]
      · cases hk : o.kind with
        | plain => rfl
        | limit => rfl
        | ref t =>
          obtain ⟨tb, htb, hm⟩ := w.refBack x o t hx hk
          simp [htb, hm]
      · by_cases hk : o.kind = .plain
        · simp [hk]
        · obtain ⟨h1, h2, h3, h4⟩ := w.leaf x o hx hk
          simp [h1, h2, h3, h4]
      · cases hp : o.pending with
        | false => simp
        | true => simp [w.pendingNoRefs x o hx hp]
    · unfold nullOKb
      cases hn : s.nullCtx with
      | none => rfl
      | some n =>
        obtain ⟨nb, h1, h2, h3, h4, h5⟩ := w.nullOK n hn
        simp [h1, h2, h3, h4, h5]

theorem wfOK_iff (s : State) : wfOK s = true ↔ WF s := by
  unfold wfOK
  rw [Bool.and_eq_true, wfpOK_iff, all_ids_iff]
  constructor
  · rintro ⟨h1, h2⟩
    exact ⟨h1, fun x o hx => by simpa using h2 x o hx⟩
  · intro w
    exact ⟨w.toWFp, fun x o hx => by simpa using w.noPending x o hx⟩

end Usual.C01
