import UsualProofs.C01.OpsFree
/-! `talloc_disable_null_tracking()`: the children of the null context become top level, the null
context is freed. -/
set_option linter.unusedSimpArgs false
set_option linter.unusedVariables false
namespace Usual.C01

theorem fold_modify_get (f : Obj → Obj) (hf : ∀ x, f (f x) = f x) (cs : List Id) (s : State) (j : Nat) :
    (cs.foldl (fun (acc : State) c => acc.modify c f) s).get j =
      if j ∈ cs then (s.get j).map f else s.get j := by
  induction cs generalizing s with
  | nil => simp
  | cons c cs ih =>
    simp only [List.foldl_cons, List.mem_cons]
    rw [ih, get_modify]
    by_cases e : c = j
    · subst e
      simp only [if_true, true_or]
      split
      · cases s.get c <;> simp [hf]
      · rfl
    · have e' : ¬ j = c := fun h => e h.symm
      simp only [e, if_false, e', false_or]

/-- the state in which `talloc_disable_null_tracking` calls `talloc_free(null_context)`, with the
registration already dropped -/
def nullPrep (s : State) (n : Nat) : State :=
  { ((childrenOf s n).foldl (fun (acc : State) c => acc.modify c fun x => { x with parent := none }) s).modify n
      fun x => { x with children := [] } with nullCtx := none }

theorem nullPrep_get {s : State} {n : Nat} {nb : Obj} (hn : s.get n = some nb) (hnn : n ∉ nb.children) (j : Nat) :
    (nullPrep s n).get j =
      if j = n then some { nb with children := [] }
      else if j ∈ nb.children then (s.get j).map fun x => { x with parent := none }
      else s.get j := by
  unfold nullPrep
  show ((((childrenOf s n).foldl (fun (acc : State) c => acc.modify c fun x => { x with parent := none }) s).modify n
      fun x => { x with children := [] })).get j = _
  rw [get_modify, fold_modify_get (fun x => { x with parent := none }) (fun _ => rfl), childrenOf_eq hn]
  by_cases e : n = j
  · subst e; simp [hnn, hn]
  · have e' : ¬ j = n := fun h => e h.symm
    simp only [e, if_false, e']


/-- how an object of `nullPrep s n` relates to the object of `s` -/
structure PrepRel (n : Nat) (j : Nat) (ob ob' : Obj) : Prop where
  refs : ob'.refs = ob.refs
  kind : ob'.kind = ob.kind
  pending : ob'.pending = ob.pending
  dtor : ob'.dtor = ob.dtor
  size : ob'.size = ob.size
  lcur : ob'.lcur = ob.lcur
  useLim : ob'.useLim = ob.useLim
  hasLim : ob'.hasLim = ob.hasLim
  children : (j ≠ n → ob'.children = ob.children) ∧ (j = n → ob'.children = [])
  parent : (ob.parent ≠ some n → ob'.parent = ob.parent) ∧ (ob.parent = some n → ob'.parent = none)

theorem nullPrep_rel {s : State} {n : Nat} (w : WF s) (hnull : s.nullCtx = some n) :
    (∀ (j : Nat) ob', (nullPrep s n).get j = some ob' → ∃ ob, s.get j = some ob ∧ PrepRel n j ob ob') ∧
    (∀ (j : Nat) ob, s.get j = some ob → ∃ ob', (nullPrep s n).get j = some ob' ∧ PrepRel n j ob ob') := by
  obtain ⟨nb, hn, hnk, hnp, hnpar, hnrefs⟩ := w.nullOK n hnull
  have hnn : n ∉ nb.children := by
    intro h
    obtain ⟨co, hco, hcp, -⟩ := w.childBack n nb n hn h
    rw [hn] at hco; cases hco; rw [hnpar] at hcp; cases hcp
  have hg := nullPrep_get hn hnn
  have hmem : ∀ (j : Nat) ob, s.get j = some ob → (j ∈ nb.children ↔ ob.parent = some n) := by
    intro j ob hj
    constructor
    · intro h
      obtain ⟨co, hco, hcp, -⟩ := w.childBack n nb j hn h
      rw [hj] at hco; cases hco; exact hcp
    · intro h
      obtain ⟨po, hpo, -, hm⟩ := w.parentLive j ob n hj h
      rw [hn] at hpo; cases hpo
      rcases hm with hm | hm
      · exact hm
      · rw [w.noPending j ob hj] at hm; cases hm
  have key : ∀ (j : Nat) ob, s.get j = some ob → ∃ ob', (nullPrep s n).get j = some ob' ∧ PrepRel n j ob ob' := by
    intro j ob hj
    rw [hg]
    by_cases e : j = n
    · subst e; rw [hn] at hj; cases hj
      refine ⟨{ nb with children := [] }, by simp, rfl, rfl, rfl, rfl, rfl, rfl, rfl, rfl,
        ⟨fun h => absurd rfl h, fun _ => rfl⟩, ?_⟩
      exact ⟨fun _ => rfl, fun h => by rw [hnpar] at h; cases h⟩
    · simp only [e, if_false]
      by_cases hm : j ∈ nb.children
      · simp only [hm, if_true, hj, Option.map_some]
        have hp := (hmem j ob hj).1 hm
        exact ⟨_, rfl, rfl, rfl, rfl, rfl, rfl, rfl, rfl, rfl, ⟨fun _ => rfl, fun h => absurd h e⟩,
          ⟨fun h => absurd hp h, fun _ => rfl⟩⟩
      · simp only [hm, if_false]
        have hp : ob.parent ≠ some n := fun h => hm ((hmem j ob hj).2 h)
        exact ⟨ob, hj, rfl, rfl, rfl, rfl, rfl, rfl, rfl, rfl, ⟨fun _ => rfl, fun h => absurd h e⟩,
          ⟨fun _ => rfl, fun h => absurd h hp⟩⟩
  refine ⟨?_, key⟩
  intro j ob' hj
  cases h0 : s.get j with
  | none =>
    rw [hg] at hj
    by_cases e : j = n
    · subst e; rw [hn] at h0; cases h0
    · simp only [e, if_false, h0, Option.map_none] at hj
      split at hj <;> cases hj
  | some ob =>
    obtain ⟨ob2, h2, r⟩ := key j ob h0
    rw [hj] at h2; cases h2
    exact ⟨ob, rfl, r⟩

theorem nullPrep_wf {rk : Nat → Nat} {s : State} {n : Nat} (w : WF s) (wr : Ranked rk s)
    (hnull : s.nullCtx = some n) : WF (nullPrep s n) ∧ Ranked rk (nullPrep s n) := by
  obtain ⟨hb, hf⟩ := nullPrep_rel w hnull
  have hplain : ∀ a, isPlainAt (nullPrep s n) a ↔ isPlainAt s a := by
    intro a
    constructor
    · rintro ⟨ao, h1, h2⟩
      obtain ⟨ob, h3, r⟩ := hb a ao h1
      exact ⟨ob, h3, by rw [← r.kind]; exact h2⟩
    · rintro ⟨ao, h1, h2⟩
      obtain ⟨ob', h3, r⟩ := hf a ao h1
      exact ⟨ob', h3, by rw [r.kind]; exact h2⟩
  have hpar : ∀ {j : Nat} {ob ob' : Obj} {p : Nat}, PrepRel n j ob ob' → ob'.parent = some p →
      ob.parent = some p ∧ p ≠ n := by
    intro j ob ob' p r hp
    by_cases e : ob.parent = some n
    · rw [r.parent.2 e] at hp; cases hp
    · rw [r.parent.1 e] at hp; exact ⟨hp, fun h => e (by rw [hp, h])⟩
  refine ⟨⟨⟨?_, ?_, ?_, ?_, ?_, ?_, ?_, ?_, ?_, ?_⟩, ?_⟩, ?_⟩
  · intro x o' p hx hp
    obtain ⟨ob, h0, r⟩ := hb x o' hx
    obtain ⟨hp0, hpn⟩ := hpar r hp
    obtain ⟨po, hpo, hpk, hm⟩ := w.parentLive x ob p h0 hp0
    obtain ⟨po', hpo', rp⟩ := hf p po hpo
    exact ⟨po', hpo', by rw [rp.kind]; exact hpk, by rw [rp.children.1 hpn, r.pending]; exact hm⟩
  · intro x o' c hx hc
    obtain ⟨ob, h0, r⟩ := hb x o' hx
    have hxn : x ≠ n := by intro e; rw [r.children.2 e] at hc; cases hc
    rw [r.children.1 hxn] at hc
    obtain ⟨co, hco, hcp, hcnp⟩ := w.childBack x ob c h0 hc
    obtain ⟨co', hco', rc⟩ := hf c co hco
    refine ⟨co', hco', ?_, by rw [rc.pending]; exact hcnp⟩
    rw [rc.parent.1 (by rw [hcp]; intro h; cases h; exact hxn rfl)]; exact hcp
  · intro x o' hx
    obtain ⟨ob, h0, r⟩ := hb x o' hx
    by_cases e : x = n
    · rw [r.children.2 e]; exact List.nodup_nil
    · rw [r.children.1 e]; exact w.childNodup x ob h0
  · intro x o' rr hx hr
    obtain ⟨ob, h0, r⟩ := hb x o' hx
    rw [r.refs] at hr
    obtain ⟨ro, hro, hrk⟩ := w.refLive x ob rr h0 hr
    obtain ⟨ro', hro', r2⟩ := hf rr ro hro
    exact ⟨ro', hro', by rw [r2.kind]; exact hrk⟩
  · intro x o' hx
    obtain ⟨ob, h0, r⟩ := hb x o' hx
    rw [r.refs]; exact w.refNodup x ob h0
  · intro rr ro' t hr hk
    obtain ⟨ro, h0, r⟩ := hb rr ro' hr
    obtain ⟨tb, htb, hm⟩ := w.refBack rr ro t h0 (by rw [← r.kind]; exact hk)
    obtain ⟨tb', htb', r2⟩ := hf t tb htb
    exact ⟨tb', htb', by rw [r2.refs]; exact hm⟩
  · intro rr ro' hr hk
    obtain ⟨ro, h0, r⟩ := hb rr ro' hr
    obtain ⟨a1, a2, a3, a4⟩ := w.leaf rr ro h0 (by rw [← r.kind]; exact hk)
    refine ⟨?_, by rw [r.refs]; exact a2, by rw [r.dtor]; exact a3, by rw [r.pending]; exact a4⟩
    by_cases e : rr = n
    · exact r.children.2 e
    · rw [r.children.1 e]; exact a1
  · intro x o' hx hp
    obtain ⟨ob, h0, r⟩ := hb x o' hx
    rw [r.refs]; exact w.pendingNoRefs x ob h0 (by rw [← r.pending]; exact hp)
  · intro x o' hx
    obtain ⟨ob, h0, r⟩ := hb x o' hx
    by_cases e : x = n
    · rw [r.children.2 e]; exact List.Pairwise.nil
    · rw [r.children.1 e]
      exact (w.order x ob h0).imp (fun {a b} hab (ha : isPlainAt (nullPrep s n) a) => (hplain b).2 (hab ((hplain a).1 ha)))
  · intro m hm
    have : (nullPrep s n).nullCtx = none := rfl
    rw [this] at hm; cases hm
  · intro x o' hx
    obtain ⟨ob, h0, r⟩ := hb x o' hx
    rw [r.pending]; exact w.noPending x ob h0
  · constructor
    · intro x o' p hx hp
      obtain ⟨ob, h0, r⟩ := hb x o' hx
      exact wr.parentLt x ob p h0 (hpar r hp).1
    · intro rr ro' t q hr hk hq
      obtain ⟨ro, h0, r⟩ := hb rr ro' hr
      exact wr.refLt rr ro t q h0 (by rw [← r.kind]; exact hk) (hpar r hq).1
    · intro m x o hm
      have : (nullPrep s n).nullCtx = none := rfl
      rw [this] at hm; cases hm


theorem fold_modify_length (f : Obj → Obj) (cs : List Id) (s : State) :
    (cs.foldl (fun (acc : State) c => acc.modify c f) s).heap.length = s.heap.length := by
  induction cs generalizing s with
  | nil => rfl
  | cons c cs ih => simp only [List.foldl_cons]; rw [ih]; simp

theorem length_nullPrep (s : State) (n : Nat) : (nullPrep s n).heap.length = s.heap.length := by
  unfold nullPrep
  simp only [length_modify]
  exact fold_modify_length _ _ _

theorem freeBegin_top_plain (s : State) (n : Nat) (nb : Obj) (d' : Dtor) (l : Bool) (hn : s.get n = some nb)
    (hk : nb.kind = .plain) (hp : nb.parent = none) :
    freeBegin s n nb d' l =
      if l then (s.modify n fun x => { x with dtor := d', pending := true }).addLog (.dtorOk n)
      else s.modify n fun x => { x with dtor := d', pending := true } := by
  unfold freeBegin detach
  simp only [hk]
  cases l <;> simp [hn, hp]

theorem withNull_modify (s : State) (x : Option Id) (i : Nat) (f : Obj → Obj) :
    ({ s with nullCtx := x } : State).modify i f = { s.modify i f with nullCtx := x } := rfl
theorem withNull_addLog (s : State) (x : Option Id) (e : Event) :
    ({ s with nullCtx := x } : State).addLog e = { s.addLog e with nullCtx := x } := rfl
theorem withNull_remove (s : State) (x : Option Id) (i : Nat) :
    ({ s with nullCtx := x } : State).remove i = { s.remove i with nullCtx := x } := rfl
theorem withNull_setOof (s : State) (x : Option Id) :
    ({ s with nullCtx := x } : State).setOof = { s.setOof with nullCtx := x } := rfl
theorem withNull_setStuck (s : State) (x : Option Id) :
    ({ s with nullCtx := x } : State).setStuck = { s.setStuck with nullCtx := x } := rfl

theorem applyLim_none (cfg : Cfg) (S s : State) (d : Int) (force : Bool) :
    (applyLim cfg S.fuel s none d force).getD s = s := by
  rw [fuel_succ]; simp [applyLim]

/-- freeing a top-level plain object without children and references does not look at the
registered null context -/
theorem run_free_childless_null (cfg : Cfg) (f : Nat) (s : State) (n : Nat) (nb : Obj) (hn : s.get n = some nb)
    (hc : nb.children = []) (hr : nb.refs = []) (hk : nb.kind = .plain) (hp : nb.parent = none) (x : Option Id) :
    (run cfg f { s with nullCtx := x } (.free n)).1 = { (run cfg f s (.free n)).1 with nullCtx := x } := by
  have hn' : ({ s with nullCtx := x } : State).get n = some nb := hn
  cases f with
  | zero => simp only [run]; rfl
  | succ f =>
    simp only [run, hn, hn', hr, ne_eq, not_true_eq_false, if_false]
    cases hpd : nb.pending with
    | true => simp
    | false =>
      simp only [Bool.false_eq_true, if_false]
      cases hds : dtorStep nb.dtor with
      | mk acc rest =>
      obtain ⟨d', l⟩ := rest
      cases acc with
      | false => simp only []; rfl
      | true =>
        simp only []
        rw [freeBegin_top_plain s n nb d' l hn hk hp, freeBegin_top_plain _ n nb d' l hn' hk hp]
        have hS : (if l = true then (({ s with nullCtx := x } : State).modify n fun y =>
              { y with dtor := d', pending := true }).addLog (.dtorOk n)
            else ({ s with nullCtx := x } : State).modify n fun y => { y with dtor := d', pending := true }) =
            { (if l = true then (s.modify n fun y => { y with dtor := d', pending := true }).addLog (.dtorOk n)
              else s.modify n fun y => { y with dtor := d', pending := true }) with nullCtx := x } := by
          cases l <;> rfl
        rw [hS]
        generalize hS2 : (if l = true then (s.modify n fun y => { y with dtor := d', pending := true }).addLog (.dtorOk n)
              else s.modify n fun y => { y with dtor := d', pending := true }) = S2
        have hg2 : S2.get n = some { nb with dtor := d', pending := true } := by
          rw [← hS2]; cases l <;> simp [hn]
        have hg2' : ({ S2 with nullCtx := x } : State).get n = some { nb with dtor := d', pending := true } := hg2
        have hch : childrenOf S2 n = [] := by rw [childrenOf_eq hg2]; exact hc
        have hch' : childrenOf ({ S2 with nullCtx := x } : State) n = [] := by rw [childrenOf_eq hg2']; exact hc
        rw [hch, hch']
        simp only [List.head?_nil]
        cases f with
        | zero =>
          simp only [run]
          unfold freeEnd
          have h1 : (S2.setOof).get n = some { nb with dtor := d', pending := true } := hg2
          have h2 : (({ S2 with nullCtx := x } : State).setOof).get n = some { nb with dtor := d', pending := true } := hg2
          simp only [h1, h2, hc, List.isEmpty_nil, if_true, hp, applyLim_none]
          rfl
        | succ f =>
          simp only [run]
          unfold freeEnd
          simp only [hg2, hg2', hc, List.isEmpty_nil, if_true, hp, applyLim_none]
          rfl


/-- `talloc_disable_null_tracking()` is `talloc_free` of the former null context in `nullPrep` -/
theorem nullOff_eq (cfg : Cfg) {s : State} {n : Nat} (w : WF s) (hnull : s.nullCtx = some n) :
    (step cfg s .nullOff).1 = (run cfg (nullPrep s n).fuel (nullPrep s n) (.free n)).1 := by
  obtain ⟨nb, hn, hnk, hnp, hnpar, hnrefs⟩ := w.nullOK n hnull
  have hnn : n ∉ nb.children := by
    intro h
    obtain ⟨co, hco, hcp, -⟩ := w.childBack n nb n hn h
    rw [hn] at hco; cases hco; rw [hnpar] at hcp; cases hcp
  simp only [step, hnull]
  generalize hS2 : (((childrenOf s n).foldl (fun (acc : State) c => acc.modify c fun x => { x with parent := none }) s).modify n
      fun x => { x with children := [] }) = S2
  have hprep : nullPrep s n = { S2 with nullCtx := none } := by unfold nullPrep; rw [hS2]
  have hg : S2.get n = some { nb with children := [] } := by
    have := nullPrep_get hn hnn n
    rw [hprep] at this
    simp only [if_true] at this
    exact this
  rw [hprep]
  exact (run_free_childless_null cfg S2.fuel S2 n { nb with children := [] } hg rfl hnrefs hnk hnpar none).symm

theorem nullOff_wf {rk : Nat → Nat} {s : State} (cfg : Cfg) (hfix : cfg.fixCx = true) (w : WF s) (wr : Ranked rk s)
    (hoof : (step cfg s .nullOff).1.oof = false) (hstuck : (step cfg s .nullOff).1.stuck = false) :
    WF (step cfg s .nullOff).1 ∧ Ranked rk (step cfg s .nullOff).1 := by
  cases hnull : s.nullCtx with
  | none => simp only [step, hnull]; exact ⟨w, wr⟩
  | some n =>
    rw [nullOff_eq cfg w hnull] at hoof hstuck ⊢
    obtain ⟨w2, wr2⟩ := nullPrep_wf w wr hnull
    obtain ⟨nb, hn, hnk, hnp, hnpar, hnrefs⟩ := w.nullOK n hnull
    obtain ⟨nb', hn', r⟩ := (nullPrep_rel w hnull).2 n nb hn
    obtain ⟨g, -⟩ := (run_good cfg hfix rk (nullPrep s n).fuel).1 (nullPrep s n) n nb' ⟨w2.toWFp, wr2⟩ hn'
      (by rw [r.refs]; exact hnrefs) (by rw [r.pending]; exact hnp) (by intro h; cases h)
      (pendBelow_of_wf w2 _ _) hoof hstuck
    exact ⟨w2.of_good g, g.inv.ranked⟩

end Usual.C01
