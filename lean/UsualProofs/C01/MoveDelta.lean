import UsualProofs.C01.NoDrift
/-! Before/after form of the accounting under a move: a limit outside the moved subtree changes by
exactly the charge of that subtree, according to whether its context is above the subtree
before and after. -/
set_option linter.unusedSimpArgs false
set_option linter.unusedVariables false
namespace Usual.C01

/-- same length; parent, size and kind of every chunk are the same -/
def PSK (s s' : State) : Prop :=
  s'.heap.length = s.heap.length ∧
  ∀ y : Nat, (s'.get y).map (fun o => (o.parent, o.size, o.kind)) = (s.get y).map (fun o => (o.parent, o.size, o.kind))

theorem PSK.refl (s : State) : PSK s s := ⟨rfl, fun _ => rfl⟩
theorem PSK.trans {a b c : State} (h1 : PSK a b) (h2 : PSK b c) : PSK a c :=
  ⟨h2.1.trans h1.1, fun y => (h2.2 y).trans (h1.2 y)⟩

theorem psk_modify (s : State) (i : Nat) (f : Obj → Obj)
    (hf : ∀ x : Obj, (f x).parent = x.parent ∧ (f x).size = x.size ∧ (f x).kind = x.kind) : PSK s (s.modify i f) := by
  refine ⟨by simp, fun y => ?_⟩
  rw [get_modify]; split
  · cases s.get y <;> simp [hf]
  · rfl

theorem PSK.of_absEq {s s' : State} (h : AbsEq s s') : PSK s s' := by
  refine ⟨h.1, fun y => ?_⟩
  cases hy : s.get y with
  | none => rw [h.none hy]
  | some o =>
    obtain ⟨o', ho', e⟩ := h.get hy
    obtain ⟨e1, -, e3, e4, -⟩ := absObj_fields e
    rw [ho']; simp [e1, e3, e4]

theorem PSK.of_eqButUse {s s' : State} (h : EqButUse s s') : PSK s s' := by
  refine ⟨h.1, fun y => ?_⟩
  cases hy : s.get y with
  | none =>
    have := h.2.2 y; rw [hy] at this
    cases h' : s'.get y with
    | none => rfl
    | some o => rw [h'] at this; cases this
  | some o =>
    obtain ⟨o', ho', e⟩ := h.get hy
    rw [ho']; simp only [Option.map_some, Option.some.injEq]; rw [e]

theorem psk_applyLim_getD (cfg : Cfg) (f : Nat) (s : State) (t : Option Id) (d : Int) (force : Bool) :
    PSK s ((applyLim cfg f s t d force).getD s) := .of_absEq (applyLim_getD_absEq cfg f s t d force)

theorem psk_moveApply (cfg : Cfg) (fuel : Nat) (s1 : State) (t : Nat) (newp oldp : Option Id)
    (oldlim newlim : Bool) (delta : Nat) : PSK s1 (moveApply cfg fuel s1 t newp oldp oldlim newlim delta) := by
  unfold moveApply
  have h2 : PSK s1 (if oldlim = true then (applyLim cfg fuel s1 oldp (-(delta : Int)) true).getD s1 else s1) := by
    split
    · exact psk_applyLim_getD _ _ _ _ _ _
    · exact PSK.refl _
  simp only []
  generalize (if oldlim = true then (applyLim cfg fuel s1 oldp (-(delta : Int)) true).getD s1 else s1) = s2 at h2 ⊢
  split
  · exact h2.trans ((psk_applyLim_getD cfg fuel s2 newp delta true).trans
      (psk_modify _ t (fun x => { x with useLim := true }) (fun _ => ⟨rfl, rfl, rfl⟩)))
  · split
    · split
      · exact h2.trans (psk_modify s2 t (fun x => { x with useLim := false }) (fun _ => ⟨rfl, rfl, rfl⟩))
      · exact h2
    · exact h2

theorem psk_moveMemlimit (cfg : Cfg) (s : State) (t : Nat) (newp oldp : Option Id) :
    PSK s (moveMemlimit cfg s t newp oldp) := by
  unfold moveMemlimit
  simp only []
  split
  · exact PSK.refl s
  · exact (PSK.of_eqButUse (walk_eqButUse _ _ _ _ _)).trans (psk_moveApply _ _ _ _ _ _ _ _ _)

theorem psk_detach (s : State) (t : Nat) : PSK s (detach s t) := by
  unfold detach
  split
  · exact PSK.refl _
  · split
    · exact PSK.refl _
    · exact psk_modify s _ _ (fun _ => ⟨rfl, rfl, rfl⟩)

theorem psk_addChild (s : State) (p : Option Id) (t : Nat) (b : Bool) : PSK s (addChild s p t b) := by
  unfold addChild
  split
  · exact PSK.refl _
  · exact psk_modify s _ _ (fun _ => ⟨rfl, rfl, rfl⟩)

/-- only the parent pointer of `t` may differ -/
structure MovedRel (s s' : State) (t : Nat) : Prop where
  len : s'.heap.length = s.heap.length
  sk : ∀ y : Nat, (s'.get y).map (fun o => (o.size, o.kind)) = (s.get y).map (fun o => (o.size, o.kind))
  par : ∀ y : Nat, y ≠ t → parentOf s' y = parentOf s y

theorem PSK.movedRel {s s' : State} (h : PSK s s') (t : Nat) : MovedRel s s' t := by
  refine ⟨h.1, fun y => ?_, fun y _ => ?_⟩
  · have := h.2 y
    cases h1 : s'.get y <;> cases h2 : s.get y <;> rw [h1, h2] at this <;> simp at this ⊢
    exact ⟨this.2.1, this.2.2⟩
  · unfold parentOf
    have := h.2 y
    cases h1 : s'.get y <;> cases h2 : s.get y <;> rw [h1, h2] at this <;> simp at this ⊢
    exact this.1

theorem MovedRel.trans {a b c : State} {t : Nat} (h1 : MovedRel a b t) (h2 : MovedRel b c t) : MovedRel a c t :=
  ⟨h2.len.trans h1.len, fun y => (h2.sk y).trans (h1.sk y), fun y hy => (h2.par y hy).trans (h1.par y hy)⟩

theorem movedRel_moveChild (cfg : Cfg) (s : State) (t : Nat) (tnew told : Option Id) :
    MovedRel s (moveChild cfg s t tnew told) t := by
  unfold moveChild
  split
  · exact (PSK.refl s).movedRel t
  · rename_i tb _
    simp only []
    have h1 : MovedRel s (addChild (detach s t) tnew t (isRef tb)) t :=
      ((psk_detach s t).trans (psk_addChild _ _ _ _)).movedRel t
    have h2 : MovedRel (addChild (detach s t) tnew t (isRef tb))
        ((addChild (detach s t) tnew t (isRef tb)).modify t fun x => { x with parent := tnew }) t := by
      refine ⟨by simp, fun y => ?_, fun y hy => ?_⟩
      · rw [get_modify]; split
        · cases (addChild (detach s t) tnew t (isRef tb)).get y <;> simp
        · rfl
      · unfold parentOf; rw [get_modify]; simp [Ne.symm hy]
    exact (h1.trans h2).trans ((psk_moveMemlimit _ _ _ _ _).movedRel t)


/-- `talloc_steal(newp, o)`: only the parent pointer of `o` may change, and the ranking of the
holder graph stays valid -/
theorem steal_movedRel {rk : Nat → Nat} {s : State} (cfg : Cfg) (w : WF s) (wr : Ranked rk s)
    (newp : Option Id) (o : Nat) (hnew : UserCtx s newp) (ho : UserObj s o)
    (hacyc : ∀ q, orNull s newp = some q → rk q < rk o) :
    MovedRel s (step cfg s (.steal newp o)).1 o ∧ Ranked rk (step cfg s (.steal newp o)).1 := by
  obtain ⟨ob, hob, hok, honull⟩ := ho
  have hsame : MovedRel s s o ∧ Ranked rk s := ⟨(PSK.refl s).movedRel o, wr⟩
  simp only [step, hob]
  split
  · exact hsame
  · rename_i hrefs
    have hrefs' : ob.refs = [] := by simpa using hrefs
    unfold reparent
    simp only [hob]
    split
    · exact hsame
    · rename_i hcond
      simp only [Bool.or_eq_true, decide_eq_true_eq, not_or] at hcond
      obtain ⟨hno, hnt⟩ := hcond
      split
      · exact hsame
      · rename_i t ht
        split
        · exact hsame
        · rename_i tb htb
          split
          · exact hsame
          · by_cases hprim : orNull s ob.parent = ob.parent
            · simp only [hprim, ne_eq, not_true_eq_false, if_false, Option.some.injEq] at ht
              subst ht
              rw [hob] at htb; cases htb
              refine ⟨movedRel_moveChild _ _ _ _ _, ?_⟩
              have hself' : ob.parent ≠ some o := by
                intro e; have := wr.parentLt o ob o hob e; omega
              have hne : orNull s newp ≠ ob.parent := by rw [← hprim]; exact hnt
              have hrk := moveS_ranked wr hob (orNull s newp) (isRef ob) hne hno hself'
                (fun q hqq => ⟨hacyc q hqq, fun tt hkk => by rw [hok] at hkk; cases hkk⟩)
              exact hrk.shapeEq (moveChild_shapeEq cfg s o ob hob (orNull s newp) (orNull s ob.parent))
            · simp only [ne_eq, hprim, not_false_eq_true, if_true, hrefs', findRefByParent] at ht
              cases ht

open Finset in
open Classical in
/-- **before/after**: two states that differ only in where `t` hangs (same chunks, sizes, kinds;
every parent pointer but `t`'s the same), both with exact accounting and a common ranking: a
`.memlimit` chunk `l` of a context `ctx` outside the subtree of `t` changes by exactly the
charge of that subtree — released if `ctx` was above `t` before, charged if it is above `t` after -/
theorem acct_move_delta {rk : Nat → Nat} {s s' : State} {t : Nat} (m : MovedRel s s' t) (wr : Ranked rk s)
    (wr' : Ranked rk s') (ac : AcctInv s) (ac' : AcctInv s')
    (l : Nat) (lb lb' : Obj) (ctx : Nat) (hl : s.get l = some lb) (hk : lb.kind = .limit)
    (hp : lb.parent = some ctx) (hl' : s'.get l = some lb')
    (hctx : ¬ InSub s t ctx) (hlo : ¬ InSub s t l) :
    lb'.lcur + (if Anc s ctx t then subCharge s t else 0) =
      lb.lcur + (if Anc s' ctx t then subCharge s t else 0) := by
  have hlt : l ≠ t := fun e => hlo (Or.inl e)
  have hk' : lb'.kind = .limit := by
    have := m.sk l; rw [hl, hl'] at this
    simp only [Option.map_some, Option.some.injEq, Prod.mk.injEq] at this
    rw [this.2]; exact hk
  have hp' : lb'.parent = some ctx := by
    have := m.par l hlt
    rw [parentOf_eq hl, parentOf_eq hl'] at this
    rw [this]; exact hp
  rw [ac l lb ctx hl hk hp, ac' l lb' ctx hl' hk' hp']
  have hsz : ∀ y : Nat, (s'.get y).map (·.size) = (s.get y).map (·.size) := by
    intro y
    have := m.sk y
    cases h1 : s'.get y <;> cases h2 : s.get y <;> rw [h1, h2] at this <;> simp at this ⊢
    exact this.1
  exact chargeUnder_move_outside ⟨m.par⟩ wr wr' m.len hsz ctx l hctx hlo

end Usual.C01
