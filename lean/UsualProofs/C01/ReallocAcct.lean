import Mathlib.Algebra.Order.BigOperators.Group.Finset
import UsualProofs.C01.MoveOpsAcct
/-! The accounting invariant under talloc_realloc. -/
set_option linter.unusedSimpArgs false
set_option linter.unusedVariables false
namespace Usual.C01
open Finset

/-- the limit chunks `apply_memlimit(o->parent, ..)` visits belong to ancestors of `o` -/
theorem visited_anc {rk : Nat → Nat} {s : State} (i : InvT rk s) (cfg : Cfg) (f : Nat) (o : Nat) (ob : Obj)
    (ho : s.get o = some ob) (l : Nat) (lb : Obj) (ctx : Nat) (hl : s.get l = some lb)
    (hp : lb.parent = some ctx) (hm : l ∈ limitsAbove cfg f s ob.parent) : Anc s ctx o := by
  cases hpar : ob.parent with
  | none =>
    rw [hpar] at hm
    cases f with
    | zero => simp [limitsAbove] at hm
    | succ f => simp [limitsAbove] at hm
  | some p =>
    rw [hpar] at hm
    obtain ⟨lb0, q, a1, a2, a3, a4⟩ := limitsAbove_anc i cfg f p l hm
    rw [hl] at a1; cases a1
    rw [hp] at a3; cases a3
    have hpo : parentOf s o = some p := by rw [parentOf_eq ho]; exact hpar
    rcases a4 with rfl | h
    · exact Anc.parent hpo
    · exact Anc.up hpo h

/-- and every limit chunk of an ancestor is visited (when the climb ends before the fuel) -/
theorem anc_visited {rk : Nat → Nat} {s : State} (i : InvT rk s) (fl : FlagsInv s) (cfg : Cfg)
    (hfix : cfg.fixGone = true) (f : Nat) (o : Nat) (ob : Obj)
    (ho : s.get o = some ob) (hc : climbOK cfg f s ob.parent = true) (l : Nat) (lb : Obj) (ctx : Nat)
    (hl : s.get l = some lb) (hk : lb.kind = .limit) (hp : lb.parent = some ctx) (han : Anc s ctx o) :
    l ∈ limitsAbove cfg f s ob.parent := by
  obtain ⟨p, hpo, hor⟩ := han.cases_parent
  have hpar : ob.parent = some p := by rw [← parentOf_eq ho]; exact hpo
  rw [hpar] at hc ⊢
  obtain ⟨pb, hpb, hpk, -⟩ := i.wf.parentLive o ob p ho hpar
  have hor' : ctx = p ∨ Anc s ctx p := by
    rcases hor with h | h
    · exact Or.inl h.symm
    · exact Or.inr h
  exact limitsAbove_of_anc i fl cfg hfix f p pb hpb hpk hc l lb ctx hl hk hp hor'

theorem parentOf_modify (s : State) (o : Nat) (f : Obj → Obj) (hf : ∀ x, (f x).parent = x.parent) (y : Nat) :
    parentOf (s.modify o f) y = parentOf s y := by
  unfold parentOf; rw [get_modify]
  split
  · cases s.get y <;> simp [hf]
  · rfl

open Classical in
theorem chargeUnder_ge {s : State} (ctx l o : Nat) (ob : Obj) (ho : s.get o = some ob) (hol : o ≠ l)
    (han : Anc s ctx o) : totalSize ob.size ≤ chargeUnder s ctx l := by
  unfold chargeUnder
  have hlt := lt_of_get s o ob ho
  have h1 := Finset.single_le_sum (f := fun x => if x ≠ l ∧ Anc s ctx x then chargeAt s x else 0)
    (fun _ _ => Nat.zero_le _) (Finset.mem_range.2 hlt)
  rw [if_pos ⟨hol, han⟩] at h1
  have : chargeAt s o = totalSize ob.size := by simp [chargeAt, ho]
  rw [this] at h1; exact h1

/-- `apply_memlimit(t, d)` followed by `apply_memlimit(t, -d)` restores every object, if the
first call did not truncate a counter at zero -/
theorem applyLim_undo {rk : Nat → Nat} {s : State} (i : InvT rk s) (cfg : Cfg) (f : Nat) (t : Option Id)
    (d : Int) (force1 force2 : Bool) (s1 s2 : State) (h1 : applyLim cfg f s t d force1 = some s1)
    (h2 : applyLim cfg f s1 t (-d) force2 = some s2)
    (hnt : ∀ l ∈ limitsAbove cfg f s t, ∀ lb, s.get l = some lb → 0 ≤ (lb.lcur : Int) + d) :
    ∀ j : Nat, s2.get j = s.get j := by
  intro j
  have hsh := applyLim_shapeEq cfg f s t d force1 s1 h1
  have i1 : InvT rk s1 := i.shapeEq hsh
  have he := applyLim_eqButCur i cfg f t d force1 s1 h1
  obtain ⟨a1, a2⟩ := applyLim_char i cfg f t d force1 s1 h1 j
  obtain ⟨b1, b2⟩ := applyLim_char i1 cfg f t (-d) force2 s2 h2 j
  rw [limitsAbove_congr he] at b1 b2
  by_cases hm : j ∈ limitsAbove cfg f s t
  · rw [b1 hm, a1 hm]
    cases hj : s.get j with
    | none => rfl
    | some o =>
      simp only [Option.map_some, Option.some.injEq]
      have h0 := hnt j hm o hj
      have : (((((o.lcur : Int) + d).toNat : Nat) : Int) + -d).toNat = o.lcur := by omega
      rw [this]
  · rw [b2 hm, a2 hm]

open Classical in
/-- **accounting, resize in place**: after `apply_memlimit(parent, total_size(new) - total_size(old))`
the chunk takes its new size -/
theorem acct_resize {rk : Nat → Nat} {s : State} (i : InvT rk s) (fl : FlagsInv s) (ac : AcctInv s) (cfg : Cfg)
    (hfix : cfg.fixGone = true) (o : Nat) (ob : Obj) (ho : s.get o = some ob) (hok : ob.kind = .plain)
    (size : Nat) (s1 : State)
    (ha : applyLim cfg s.fuel s ob.parent ((totalSize size : Int) - (totalSize ob.size : Int)) false = some s1)
    (hoof : s1.oof = false) :
    AcctInv (s1.modify o fun x => { x with size := size }) := by
  intro l lb2 ctx hl2 hk2 hp2
  have hsh := applyLim_shapeEq _ _ _ _ _ _ _ ha
  have hlen := applyLim_length _ _ _ _ _ _ _ ha
  rw [get_modify_some] at hl2
  rcases hl2 with ⟨hne, hl1⟩ | ⟨rfl, o0, h0, rfl⟩
  case inr =>
    exfalso
    obtain ⟨ob', hob', -, -, -, e4, -, -⟩ := hsh.get ho
    rw [h0] at hob'; cases hob'
    simp only at hk2; rw [e4, hok] at hk2; cases hk2
  obtain ⟨lb, hl, e1, -, -, e4, -, -⟩ := hsh.symm.get hl1
  have hk : lb.kind = .limit := by rw [e4]; exact hk2
  have hp : lb.parent = some ctx := by rw [e1]; exact hp2
  obtain ⟨c1, c2⟩ := applyLim_char i cfg s.fuel ob.parent _ false s1 ha l
  have hvis : l ∈ limitsAbove cfg s.fuel s ob.parent ↔ Anc s ctx o :=
    ⟨visited_anc i cfg s.fuel o ob ho l lb ctx hl hp,
     anc_visited i fl cfg hfix s.fuel o ob ho (applyLim_climbOK cfg s.fuel s _ _ false s1 ha hoof) l lb ctx hl hk hp⟩
  -- the sum in the final state
  have hcu : chargeUnder (s1.modify o fun x => { x with size := size }) ctx l =
      chargeUnder (s.modify o fun x => { x with size := size }) ctx l := by
    apply chargeUnder_congr (by simp [hlen])
    · intro y
      exact (parentOf_modify s1 o (fun x => { x with size := size }) (fun _ => rfl) y).trans
        ((parentOf_shapeEq hsh y).trans
          (parentOf_modify s o (fun x => { x with size := size }) (fun _ => rfl) y).symm)
    · intro y
      have := applyLim_size i cfg s.fuel _ _ false s1 ha y
      simp only [get_modify]
      split
      · cases h1 : s1.get y <;> cases h2 : s.get y <;> rw [h1, h2] at this <;> simp at this ⊢
      · exact this
  rw [hcu]
  have holt : o < s.heap.length := lt_of_get s o ob ho
  have hanc : ∀ a y, Anc (s.modify o fun x => { x with size := size }) a y ↔ Anc s a y := by
    intro a y
    apply Anc.congr
    intro z
    exact parentOf_modify s o (fun x => { x with size := size }) (fun _ => rfl) z
  have hsplit : chargeUnder (s.modify o fun x => { x with size := size }) ctx l +
      (if o ≠ l ∧ Anc s ctx o then totalSize ob.size else 0) =
      chargeUnder s ctx l + (if o ≠ l ∧ Anc s ctx o then totalSize size else 0) := by
    unfold chargeUnder
    have hA := sum_ite_split s.heap.length
      (fun x => if x ≠ l ∧ Anc s ctx x then chargeAt s x else 0)
      (fun x => if x = o then 0 else if x ≠ l ∧ Anc s ctx x then chargeAt s x else 0) o holt
      (by intro y _ hy; simp [hy]) (by simp)
    have hB := sum_ite_split s.heap.length
      (fun x => if x ≠ l ∧ Anc (s.modify o fun x => { x with size := size }) ctx x then
        chargeAt (s.modify o fun x => { x with size := size }) x else 0)
      (fun x => if x = o then 0 else if x ≠ l ∧ Anc s ctx x then chargeAt s x else 0) o holt
      (by
        intro y _ hy
        simp only [hy, if_false]
        have hca : chargeAt (s.modify o fun x => { x with size := size }) y = chargeAt s y := by
          apply chargeAt_eq; rw [get_modify]; simp [Ne.symm hy]
        rw [hca]
        by_cases hc : y ≠ l ∧ Anc s ctx y
        · rw [if_pos hc, if_pos ⟨hc.1, (hanc ctx y).2 hc.2⟩]
        · rw [if_neg hc, if_neg (fun h => hc ⟨h.1, (hanc ctx y).1 h.2⟩)])
      (by simp)
    have hlm : (s.modify o fun x => { x with size := size }).heap.length = s.heap.length := by simp
    rw [hlm]
    rw [hA, hB]
    have h1 : chargeAt s o = totalSize ob.size := by simp [chargeAt, ho]
    have h2 : chargeAt (s.modify o fun x => { x with size := size }) o = totalSize size := by
      simp [chargeAt, ho]
    rw [h1, h2]
    by_cases hc : o ≠ l ∧ Anc s ctx o
    · rw [if_pos hc, if_pos hc, if_pos ⟨hc.1, (hanc ctx o).2 hc.2⟩]; omega
    · rw [if_neg hc, if_neg hc, if_neg (fun h => hc ⟨h.1, (hanc ctx o).1 h.2⟩)]
  have hac := ac l lb ctx hl hk hp
  by_cases han : Anc s ctx o
  · have hm := hvis.2 han
    have hge := chargeUnder_ge ctx l o ob ho hne han
    have hg := c1 hm
    rw [hl, hl1] at hg
    simp only [Option.map_some, Option.some.injEq] at hg
    rw [if_pos ⟨hne, han⟩, if_pos ⟨hne, han⟩] at hsplit
    rw [hg]; simp only; rw [hac]; omega
  · have hm : l ∉ limitsAbove cfg s.fuel s ob.parent := fun h => han (hvis.1 h)
    have hg := c2 hm
    rw [hl, hl1] at hg
    simp only [Option.some.injEq] at hg
    rw [if_neg (fun h => han h.2), if_neg (fun h => han h.2)] at hsplit
    rw [hg, hac]; omega


theorem visited_chunk {rk : Nat → Nat} {s : State} (i : InvT rk s) (cfg : Cfg) (f : Nat) (t : Option Id) (l : Nat)
    (hm : l ∈ limitsAbove cfg f s t) :
    ∃ lb ctx, s.get l = some lb ∧ lb.kind = .limit ∧ lb.parent = some ctx := by
  cases t with
  | none =>
    cases f with
    | zero => simp [limitsAbove] at hm
    | succ f => simp [limitsAbove] at hm
  | some p =>
    obtain ⟨lb, q, a1, a2, a3, -⟩ := limitsAbove_anc i cfg f p l hm
    exact ⟨lb, q, a1, a2, a3⟩

/-- `talloc_realloc(parent, o, size)` -/
theorem realloc_acct {rk : Nat → Nat} {s : State} (cfg : Cfg) (ok : CfgOK cfg) (hre : cfg.fixRealloc = true)
    (hrb : cfg.fixRollback = true) (w : WF s) (wr : Ranked rk s) (af : AF s)
    (parent : Option Id) (o : Nat) (size : Nat) (fail : Bool) (ho : UserObj s o)
    (hoof : (step cfg s (.realloc parent o size fail)).1.oof = false)
    (hstuck : (step cfg s (.realloc parent o size fail)).1.stuck = false) :
    AF (step cfg s (.realloc parent o size fail)).1 := by
  have i : InvT rk s := ⟨w.toWFp.tree, wr⟩
  simp only [step] at hoof hstuck ⊢
  by_cases hbig : size > MAXLEN
  · simp only [hbig, if_true]; exact af
  simp only [hbig, if_false] at hoof hstuck ⊢
  by_cases hz : size = 0
  · simp only [hz, if_true] at hoof hstuck ⊢
    exact runUnlink_acct cfg ok w wr af parent ho hoof hstuck
  simp only [hz, if_false] at hoof hstuck ⊢
  obtain ⟨ob, hob, hok, -⟩ := ho
  simp only [hob] at hoof hstuck ⊢
  by_cases hrefs : ob.refs = []
  case neg => simp only [ne_eq, hrefs, not_false_eq_true, if_true]; exact af
  simp only [ne_eq, hrefs, not_true_eq_false, if_false] at hoof hstuck ⊢
  by_cases hsame : size = ob.size
  · simp only [hsame, if_true]; exact af
  simp only [hsame, if_false, hre, if_true] at hoof hstuck ⊢
  cases ha : applyLim cfg s.fuel s ob.parent ((totalSize size : Int) - (totalSize ob.size : Int)) false with
  | none => simp only []; exact af
  | some s1 =>
    simp only [ha] at hoof hstuck ⊢
    have hlen := applyLim_length _ _ _ _ _ _ _ ha
    cases fail with
    | true =>
      simp only [if_true, hrb] at hoof ⊢
      have hsome := applyLim_isSome_of cfg s1.fuel s1 ob.parent
        (-((totalSize size : Int) - (totalSize ob.size : Int))) true (Or.inr rfl)
      cases hb : applyLim cfg s1.fuel s1 ob.parent (-((totalSize size : Int) - (totalSize ob.size : Int))) true with
      | none => rw [hb] at hsome; cases hsome
      | some s2 =>
        simp only [Option.getD_some]
        rw [fuel_eq_of_length hlen] at hb
        have hget := applyLim_undo i cfg s.fuel ob.parent _ false true s1 s2 ha hb (by
          intro l hm lb hl
          obtain ⟨lb', ctx, a1, a2, a3⟩ := visited_chunk i cfg s.fuel ob.parent l hm
          rw [hl] at a1; cases a1
          have han := visited_anc i cfg s.fuel o ob hob l lb ctx hl a3 hm
          have hol : o ≠ l := by intro e; subst e; rw [hob] at hl; cases hl; rw [hok] at a2; cases a2
          have := chargeUnder_ge ctx l o ob hob hol han
          rw [← af.1 l lb ctx hl a2 a3] at this
          omega)
        refine af_of_afields ?_ (fun y => by rw [hget y]) af
        rw [applyLim_length _ _ _ _ _ _ _ hb, hlen]
    | false =>
      simp only [Bool.false_eq_true, if_false] at hoof ⊢
      rw [oof_modify] at hoof
      refine ⟨acct_resize i af.2 af.1 cfg ok.gone o ob hob hok size s1 ha hoof, ?_⟩
      have fl1 : FlagsInv s1 := (applyLim_eqButCur i cfg _ _ _ false s1 ha).flags af.2
      apply FlagsInv.congr _ fl1
      intro y
      rw [get_modify]
      split
      · cases s1.get y <;> simp
      · rfl

end Usual.C01
