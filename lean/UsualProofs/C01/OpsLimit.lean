import UsualProofs.C01.OpsMove
/-! talloc_set_memlimit and null tracking keep the structural invariant. -/
set_option linter.unusedSimpArgs false
set_option linter.unusedVariables false
namespace Usual.C01

theorem findLim_spec (s : State) (cs : List Id) (l : Id) (h : findLim s cs = some l) :
    l ∈ cs ∧ ∃ lb, s.get l = some lb ∧ lb.kind = .limit := by
  induction cs with
  | nil => simp [findLim] at h
  | cons c cs ih =>
    simp only [findLim] at h
    split at h
    · rename_i co hco
      split at h
      · rename_i hl
        cases h
        refine ⟨by simp, co, hco, ?_⟩
        cases hk : co.kind <;> simp [isLimit, hk] at hl ⊢
      · obtain ⟨h1, h2⟩ := ih h; exact ⟨List.mem_cons_of_mem _ h1, h2⟩
    · obtain ⟨h1, h2⟩ := ih h; exact ⟨List.mem_cons_of_mem _ h1, h2⟩

/-- the "charge existing children" loop of the repaired `talloc_set_memlimit` -/
theorem setLimit_fold_shapeEq (cfg : Cfg) (cs : List Id) (acc : State × Nat) :
    ShapeEq acc.1 (cs.foldl
      (fun (acc : State × Nat) c =>
        match acc.1.get c with
        | some cb =>
          if isLimit cb then acc
          else ((walk cfg acc.1.fuel acc.1 c WOp.set).1, acc.2 + (walk cfg acc.1.fuel acc.1 c WOp.set).2)
        | none => acc) acc).1 := by
  induction cs generalizing acc with
  | nil => exact ShapeEq.refl _
  | cons c cs ih =>
    simp only [List.foldl_cons]
    refine ShapeEq.trans ?_ (ih _)
    split
    · split
      · exact ShapeEq.refl _
      · exact walk_shapeEq _ _ _ _ _
    · exact ShapeEq.refl _

theorem setLimitConfigure_shapeEq (cfg : Cfg) (s : State) (o l : Nat) (max : Nat) :
    ShapeEq s (setLimitConfigure cfg s o l max) := by
  unfold setLimitConfigure
  simp only []
  have hsh : ShapeEq s (((s.modify l fun x => { x with lmax := max, lcur := 0 }).modify o
      fun x => { x with useLim := true, hasLim := true })) :=
    (shapeEq_modify_self s l (fun x => { x with lmax := max, lcur := 0 }) (fun _ => rfl)).trans
      (shapeEq_modify_self (s.modify l fun x => { x with lmax := max, lcur := 0 }) o
        (fun x => { x with useLim := true, hasLim := true }) (fun _ => rfl))
  generalize ((s.modify l fun x => { x with lmax := max, lcur := 0 }).modify o
      fun x => { x with useLim := true, hasLim := true }) = s3 at hsh ⊢
  split
  · have h1 := setLimit_fold_shapeEq cfg (childrenOf s3 o) (s3, 0)
    refine (hsh.trans h1).trans ?_
    exact shapeEq_modify_self _ l _ (fun _ => rfl)
  · exact hsh

/-- `talloc_set_memlimit(o, max)` -/
theorem setLimit_wf {rk : Nat → Nat} {s : State} (cfg : Cfg) (w : WF s) (wr : Ranked rk s) (o : Nat) (max : Nat)
    (fail : Bool) (ho : UserObj s o) :
    WF (step cfg s (.setLimit o max fail)).1 ∧ ∃ rk', Ranked rk' (step cfg s (.setLimit o max fail)).1 := by
  obtain ⟨ob, hob, hok, honull⟩ := ho
  simp only [step, setLimit, hob]
  split
  · -- lifting the limit
    have hsh1 := shapeEq_modify_self s o (fun x => { x with hasLim := false }) (fun _ => rfl)
    have w1 := w.shapeEq hsh1
    have wr1 := wr.shapeEq hsh1
    split
    · rename_i l hl
      have hl' : findLim s ob.children = some l := by
        split at hl
        · exact hl
        · cases hl
      obtain ⟨hm, lb, hlb, hlk⟩ := findLim_spec s _ l hl'
      obtain ⟨lb1, hlb1, -, -, -, e4, -, -⟩ := hsh1.get hlb
      have hnp : lb1.kind ≠ .plain := by rw [e4, hlk]; simp
      obtain ⟨f, hf⟩ : ∃ f, (s.modify o fun x => { x with hasLim := false }).fuel = f + 1 := ⟨_, fuel_succ _⟩
      rw [hf]
      obtain ⟨-, -, g, -⟩ := free_leaf_post cfg rk f _ l lb1 ⟨w1.toWFp, wr1⟩ hlb1 hnp
      exact ⟨w1.of_good g, rk, g.inv.ranked⟩
    · exact ⟨w1, rk, wr1⟩
  · -- setting a limit
    split
    · rename_i l hl
      have h2 := setLimitConfigure_shapeEq cfg s o l max
      exact ⟨w.shapeEq h2, rk, wr.shapeEq h2⟩
    · -- a new TLimit chunk
      obtain ⟨hf, ht⟩ := hdrAlloc_spec cfg s ob.cx (some o) LIMSIZE true .limit fail
      cases hok' : (hdrAlloc cfg s ob.cx (some o) LIMSIZE true .limit fail).2 with
      | false =>
        simp only [Bool.false_eq_true, if_false]
        exact ⟨w.shapeEq (hf hok'), rk, wr.shapeEq (hf hok')⟩
      | true =>
        simp only [if_true]
        obtain ⟨s1, nb, hsh1, hlen, heq, a1, a2, a3, a4, a5, a6⟩ := ht hok'
        have hctx : UserCtx s (some o) := by
          intro x hx; cases hx; exact ⟨ob, hob, hok, honull⟩
        obtain ⟨w2, rk', wr2, -⟩ := alloc_plain_wf w wr hsh1 (some o) hctx true nb a1 a2 a3 a4 a5 (Or.inr a6)
          (by simp [a6])
        rw [← heq] at w2 wr2
        have h2 := setLimitConfigure_shapeEq cfg (hdrAlloc cfg s ob.cx (some o) LIMSIZE true .limit fail).1
          o s.heap.length max
        exact ⟨w2.shapeEq h2, rk', wr2.shapeEq h2⟩


theorem get_withNull (s : State) (x : Option Id) (j : Nat) :
    (({ s with nullCtx := x } : State)).get j = s.get j := rfl

/-- only the registered null context changes -/
theorem withNull_wf {rk : Nat → Nat} {s2 : State} (n : Nat) (nb : Obj) (w2 : WF s2) (wr2 : Ranked rk s2)
    (hnull : s2.nullCtx = none) (hn : s2.get n = some nb) (a1 : nb.parent = none) (a2 : nb.children = [])
    (a3 : nb.refs = []) (a6 : nb.kind = .plain) :
    WF { s2 with nullCtx := some n } ∧ ∃ rk', Ranked rk' { s2 with nullCtx := some n } := by
  obtain ⟨⟨c1, c2, c3, c4, c5, c6, c7, c8, c9, c10⟩, c11⟩ := w2
  refine ⟨⟨⟨c1, c2, c3, c4, c5, c6, c7, c8, c9, ?_⟩, c11⟩, ?_⟩
  · intro m hm
    have : m = n := by
      have h : (some n : Option Id) = some m := hm
      cases h; rfl
    subst this
    exact ⟨nb, hn, a6, c11 m nb hn, a1, a3⟩
  · refine ⟨fun j => if j = n then 0 else rk j + 1, ?_⟩
    have hnopar : ∀ (y : Nat) yo, s2.get y = some yo → yo.parent ≠ some n := by
      intro y yo hy hp
      obtain ⟨po, hpo, -, hm⟩ := c1 y yo _ hy hp
      rw [hn] at hpo; cases hpo
      rcases hm with hm | hm
      · rw [a2] at hm; cases hm
      · rw [c11 y yo hy] at hm; cases hm
    have hnotgt : ∀ (y : Nat) yo, s2.get y = some yo → yo.kind ≠ .ref n := by
      intro y yo hy hk
      obtain ⟨tb, htb, hm⟩ := c6 y yo _ hy hk
      rw [hn] at htb; cases htb
      rw [a3] at hm; cases hm
    constructor
    · intro x o p hx hp
      have hx' : s2.get x = some o := hx
      have hpn : p ≠ n := fun e => hnopar x o hx' (e ▸ hp)
      have hxn : x ≠ n := by
        intro e; subst e; rw [hn] at hx'; cases hx'; rw [a1] at hp; cases hp
      simp only [hpn, hxn, if_false]
      have := wr2.parentLt x o p hx' hp; omega
    · intro r ro t q hr hk hq
      have hr' : s2.get r = some ro := hr
      have hqn : q ≠ n := fun e => hnopar r ro hr' (e ▸ hq)
      have htn : t ≠ n := fun e => hnotgt r ro hr' (e ▸ hk)
      simp only [hqn, htn, if_false]
      have := wr2.refLt r ro t q hr' hk hq; omega
    · intro m x o hm hx hne
      have : m = n := by
        have h : (some n : Option Id) = some m := hm
        cases h; rfl
      subst this
      simp only [if_true, hne, if_false]; omega

/-- `talloc_enable_null_tracking()` -/
theorem nullOn_wf {rk : Nat → Nat} {s : State} (cfg : Cfg) (w : WF s) (wr : Ranked rk s) (fail : Bool) :
    WF (step cfg s (.nullOn fail)).1 ∧ ∃ rk', Ranked rk' (step cfg s (.nullOn fail)).1 := by
  simp only [step]
  cases hn : s.nullCtx with
  | some n => exact ⟨w, rk, wr⟩
  | none =>
    simp only []
    obtain ⟨hf, ht⟩ := hdrAlloc_spec cfg s 0 none 0 false .plain fail
    cases hok' : (hdrAlloc cfg s 0 none 0 false .plain fail).2 with
    | false =>
      simp only [Bool.false_eq_true, if_false]
      exact ⟨w.shapeEq (hf hok'), rk, wr.shapeEq (hf hok')⟩
    | true =>
      simp only [if_true]
      obtain ⟨s1, nb, hsh1, hlen, heq, a1, a2, a3, a4, a5, a6⟩ := ht hok'
      have hctx : UserCtx s none := by intro x hx; cases hx
      have hon : orNull s none = none := by simp [orNull, hn]
      obtain ⟨w2, rk', wr2, hrk'⟩ := alloc_plain_wf w wr hsh1 none hctx false nb a1 a2 a3 a4 a5 (Or.inl a6)
        (by simp [a6])
      rw [← heq] at w2 wr2
      have hget : (hdrAlloc cfg s 0 none 0 false .plain fail).1.get s.heap.length = some nb := by
        rw [heq, hon, allocS_get s1 none false nb (by intro p hp; cases hp), hlen]; simp
      have hnull2 : (hdrAlloc cfg s 0 none 0 false .plain fail).1.nullCtx = none := by
        rw [heq, nullCtx_allocS, hsh1.1, hn]
      exact withNull_wf s.heap.length nb w2 wr2 hnull2 hget (by rw [a1, hon]) a2 a3 a6

end Usual.C01
