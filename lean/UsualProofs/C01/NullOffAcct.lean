import UsualProofs.C01.NullOff
import UsualProofs.C01.RunAcct
/-! `talloc_disable_null_tracking()` keeps the accounting invariant of the memory limit. -/
set_option linter.unusedSimpArgs false
set_option linter.unusedVariables false
namespace Usual.C01

open Classical in
theorem nullPrep_af {s : State} {n : Nat} (w : WF s) (hnull : s.nullCtx = some n) (af : AF s) :
    AF (nullPrep s n) := by
  obtain ⟨hb, hf⟩ := nullPrep_rel w hnull
  obtain ⟨nb, hn, -, -, hnpar, -⟩ := w.nullOK n hnull
  have hpar : ∀ {j : Nat} {ob ob' : Obj} {p : Nat}, PrepRel n j ob ob' → ob'.parent = some p →
      ob.parent = some p ∧ p ≠ n := by
    intro j ob ob' p r hp
    by_cases e : ob.parent = some n
    · rw [r.parent.2 e] at hp; cases hp
    · rw [r.parent.1 e] at hp; exact ⟨hp, fun h => e (by rw [hp, h])⟩
  -- parent pointers
  have hpo1 : ∀ y p, parentOf (nullPrep s n) y = some p → parentOf s y = some p := by
    intro y p h
    obtain ⟨ob', h1, h2⟩ := parentOf_some h
    obtain ⟨ob, h0, r⟩ := hb y ob' h1
    rw [parentOf_eq h0]; exact (hpar r h2).1
  have hpo2 : ∀ y p, parentOf s y = some p → p ≠ n → parentOf (nullPrep s n) y = some p := by
    intro y p h hp
    obtain ⟨ob, h1, h2⟩ := parentOf_some h
    obtain ⟨ob', h0, r⟩ := hf y ob h1
    rw [parentOf_eq h0, r.parent.1 (by rw [h2]; intro e; cases e; exact hp rfl)]; exact h2
  have hnopar : ∀ p, parentOf s n ≠ some p := by
    intro p h; rw [parentOf_eq hn, hnpar] at h; cases h
  have hanc : ∀ a x, a ≠ n → (Anc (nullPrep s n) a x ↔ Anc s a x) := by
    intro a x ha
    constructor
    · intro h
      induction h with
      | parent hp => exact Anc.parent (hpo1 _ _ hp)
      | up hp _ ih => exact Anc.up (hpo1 _ _ hp) (ih ha)
    · intro h
      induction h with
      | parent hp => exact Anc.parent (hpo2 _ _ hp ha)
      | @up x p a hp h2 ih =>
        have hpn : p ≠ n := by
          intro e; subst e
          obtain ⟨q, hq, -⟩ := h2.cases_parent
          exact hnopar q hq
        exact Anc.up (hpo2 _ _ hp hpn) (ih ha)
  have hlen := length_nullPrep s n
  have hca : ∀ x, chargeAt (nullPrep s n) x = chargeAt s x := by
    intro x
    unfold chargeAt
    cases h0 : s.get x with
    | none =>
      cases h1 : (nullPrep s n).get x with
      | none => rfl
      | some ob' => obtain ⟨ob, h2, -⟩ := hb x ob' h1; rw [h0] at h2; cases h2
    | some ob =>
      obtain ⟨ob', h1, r⟩ := hf x ob h0
      rw [h1]; simp only; rw [r.size]
  constructor
  · intro l lb' ctx hl hk hp
    obtain ⟨lb, h0, r⟩ := hb l lb' hl
    obtain ⟨hp0, hcn⟩ := hpar r hp
    rw [r.lcur, af.1 l lb ctx h0 (by rw [← r.kind]; exact hk) hp0]
    unfold chargeUnder
    rw [hlen]
    apply Finset.sum_congr rfl
    intro x _
    rw [hca x]
    have := hanc ctx x hcn
    by_cases hc : x ≠ l ∧ Anc s ctx x
    · rw [if_pos hc, if_pos ⟨hc.1, this.2 hc.2⟩]
    · rw [if_neg hc, if_neg (fun h => hc ⟨h.1, this.1 h.2⟩)]
  · constructor
    · intro x o' hx hh
      obtain ⟨ob, h0, r⟩ := hb x o' hx
      rw [r.useLim]; exact af.2.hasUse x ob h0 (by rw [← r.hasLim]; exact hh)
    · intro x o' p po' hx hp hpo hu hk
      obtain ⟨ob, h0, r⟩ := hb x o' hx
      obtain ⟨po, hp0, rp⟩ := hb p po' hpo
      rw [r.useLim]
      exact af.2.inherit x ob p po h0 (hpar r hp).1 hp0 (by rw [← rp.useLim]; exact hu) (by rw [← r.kind]; exact hk)
    · intro l lb' ctx cb' hl hk hp hc
      obtain ⟨lb, h0, r⟩ := hb l lb' hl
      obtain ⟨cb, hc0, rc⟩ := hb ctx cb' hc
      rw [rc.hasLim]
      exact af.2.chunkHas l lb ctx cb h0 (by rw [← r.kind]; exact hk) (hpar r hp).1 hc0
    · intro l1 l2 b1' b2' ctx h1 h2 k1 k2 p1 p2
      obtain ⟨b1, g1, r1⟩ := hb l1 b1' h1
      obtain ⟨b2, g2, r2⟩ := hb l2 b2' h2
      exact af.2.chunkUnique l1 l2 b1 b2 ctx g1 g2 (by rw [← r1.kind]; exact k1) (by rw [← r2.kind]; exact k2)
        (hpar r1 p1).1 (hpar r2 p2).1


theorem nullOff_acct {rk : Nat → Nat} {s : State} (cfg : Cfg) (ok : CfgOK cfg) (w : WF s) (wr : Ranked rk s)
    (af : AF s) (hoof : (step cfg s .nullOff).1.oof = false) (hstuck : (step cfg s .nullOff).1.stuck = false) :
    AF (step cfg s .nullOff).1 := by
  cases hnull : s.nullCtx with
  | none => simp only [step, hnull]; exact af
  | some n =>
    rw [nullOff_eq cfg w hnull] at hoof hstuck ⊢
    obtain ⟨w2, wr2⟩ := nullPrep_wf w wr hnull
    obtain ⟨nb, hn, hnk, hnp, hnpar, hnrefs⟩ := w.nullOK n hnull
    obtain ⟨nb', hn', r⟩ := (nullPrep_rel w hnull).2 n nb hn
    exact (run_acct cfg ok rk (nullPrep s n).fuel).1 (nullPrep s n) n nb' ⟨w2.toWFp, wr2⟩ (nullPrep_af w hnull af) hn'
      (by rw [r.refs]; exact hnrefs) (by rw [r.pending]; exact hnp) (by intro h; cases h)
      (pendBelow_of_wf w2 _ _) hoof hstuck

end Usual.C01
