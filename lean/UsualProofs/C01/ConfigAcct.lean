import UsualProofs.C01.LimitAcct
/-! The accounting invariant under talloc_set_memlimit: configuring a limit (the repaired code
charges the children that exist already and passes the USE flag down). -/
set_option linter.unusedSimpArgs false
set_option linter.unusedVariables false
namespace Usual.C01
open Finset

/-- the body of the "charge existing children" loop -/
def cfgStep (cfg : Cfg) (acc : State × Nat) (c : Id) : State × Nat :=
  match acc.1.get c with
  | some cb =>
    if isLimit cb then acc
    else ((walk cfg acc.1.fuel acc.1 c WOp.set).1, acc.2 + (walk cfg acc.1.fuel acc.1 c WOp.set).2)
  | none => acc

/-- the loop skips `c` -/
def limAt (s : State) (c : Id) : Bool :=
  match s.get c with
  | some cb => isLimit cb
  | none => true

theorem cfgStep_skip (cfg : Cfg) (acc : State × Nat) (c : Id) (h : limAt acc.1 c = true) :
    cfgStep cfg acc c = acc := by
  unfold cfgStep; unfold limAt at h
  cases hc : acc.1.get c with
  | none => rfl
  | some cb => rw [hc] at h; simp only at h ⊢; rw [if_pos h]

theorem cfgStep_walk (cfg : Cfg) (acc : State × Nat) (c : Id) (h : limAt acc.1 c = false) :
    cfgStep cfg acc c =
      ((walk cfg acc.1.fuel acc.1 c WOp.set).1, acc.2 + (walk cfg acc.1.fuel acc.1 c WOp.set).2) := by
  unfold cfgStep; unfold limAt at h
  cases hc : acc.1.get c with
  | none => rw [hc] at h; cases h
  | some cb => rw [hc] at h; simp only at h ⊢; rw [if_neg (by rw [h]; simp)]

theorem limAt_congr {s s' : State} (h : EqButUse s s') (c : Id) : limAt s' c = limAt s c := by
  unfold limAt
  cases hc : s.get c with
  | none =>
    have := h.2.2 c
    rw [hc] at this
    cases h' : s'.get c with
    | none => rfl
    | some o => rw [h'] at this; cases this
  | some o =>
    obtain ⟨o', ho', e⟩ := h.get hc
    rw [ho']; simp only; rw [e]; rfl

theorem cfgStep_eqButUse (cfg : Cfg) (acc : State × Nat) (c : Id) : EqButUse acc.1 (cfgStep cfg acc c).1 := by
  cases h : limAt acc.1 c with
  | true => rw [cfgStep_skip cfg acc c h]; exact .refl _
  | false => rw [cfgStep_walk cfg acc c h]; exact walk_eqButUse _ _ _ _ _

theorem cfgStep_flagsLe (cfg : Cfg) (acc : State × Nat) (c : Id) : FlagsLe acc.1 (cfgStep cfg acc c).1 := by
  cases h : limAt acc.1 c with
  | true => rw [cfgStep_skip cfg acc c h]; exact .refl _
  | false => rw [cfgStep_walk cfg acc c h]; exact walk_flagsLe _ _ _ _ _

theorem cfgFold_flagsLe (cfg : Cfg) (l : List Id) (acc : State × Nat) :
    FlagsLe acc.1 (l.foldl (cfgStep cfg) acc).1 := by
  induction l generalizing acc with
  | nil => exact .refl _
  | cons c l ih => simp only [List.foldl_cons]; exact (cfgStep_flagsLe cfg acc c).trans (ih _)

theorem cfgFold_eqButUse (cfg : Cfg) (l : List Id) (acc : State × Nat) :
    EqButUse acc.1 (l.foldl (cfgStep cfg) acc).1 := by
  induction l generalizing acc with
  | nil => exact .refl _
  | cons c l ih => simp only [List.foldl_cons]; exact (cfgStep_eqButUse cfg acc c).trans (ih _)

theorem fuel_eqButUse {s s' : State} (h : EqButUse s s') : s'.fuel = s.fuel := by
  simp [State.fuel, h.1]

/-- what the loop computes and does, for the children `l` still to be visited -/
theorem cfgFold_spec {rk : Nat → Nat} {S : State} (i : InvT rk S) (cfg : Cfg)
    (hnp : ∀ z zb, S.get z = some zb → zb.pending = false)
    (o : Nat) (ob : Obj) (ho : S.get o = some ob) :
    ∀ (l : List Id) (acc : State × Nat), EqButUse S acc.1 → (∀ c ∈ l, c ∈ ob.children) → l.Nodup →
      (l.foldl (cfgStep cfg) acc).1.oof = false →
      (l.foldl (cfgStep cfg) acc).2 = acc.2 + (l.map fun c => if limAt S c then 0 else subSum cfg S c).sum ∧
      (∀ y, (∀ c ∈ l, limAt S c = true ∨ ¬ InSub S c y) → (l.foldl (cfgStep cfg) acc).1.get y = acc.1.get y) ∧
      (∀ c ∈ l, limAt S c = false → ∀ y, InSub S c y → ∀ yb, S.get y = some yb →
        ∃ yb', (l.foldl (cfgStep cfg) acc).1.get y = some yb' ∧ yb'.useLim = true) := by
  intro l
  induction l with
  | nil =>
    intro acc _ _ _ _
    refine ⟨by simp, fun _ _ => rfl, fun c hc => by cases hc⟩
  | cons c l ih =>
    intro acc he hsub hnd hoof
    simp only [List.foldl_cons] at hoof ⊢
    have hnd' := List.nodup_cons.1 hnd
    have he1 : EqButUse S (cfgStep cfg acc c).1 := he.trans (cfgStep_eqButUse cfg acc c)
    obtain ⟨r1, r2, r3⟩ := ih (cfgStep cfg acc c) he1 (fun d hd => hsub d (List.mem_cons_of_mem _ hd)) hnd'.2 hoof
    have hcm : c ∈ ob.children := hsub c (by simp)
    have hlc : limAt acc.1 c = limAt S c := limAt_congr he c
    cases hlim : limAt S c with
    | true =>
      have hst := cfgStep_skip cfg acc c (by rw [hlc]; exact hlim)
      rw [hst] at r1 r2 r3 ⊢
      refine ⟨?_, ?_, ?_⟩
      · rw [r1]; simp [hlim]
      · intro y hy; exact r2 y (fun d hd => hy d (List.mem_cons_of_mem _ hd))
      · intro d hd hdl y hin yb hyb
        rcases List.mem_cons.1 hd with rfl | hd'
        · rw [hlim] at hdl; cases hdl
        · exact r3 d hd' hdl y hin yb hyb
    | false =>
      have hst := cfgStep_walk cfg acc c (by rw [hlc]; exact hlim)
      have hoofc : (cfgStep cfg acc c).1.oof = false :=
        oof_false_of_le (cfgFold_flagsLe cfg l (cfgStep cfg acc c)) hoof
      have ia : InvT rk acc.1 := ⟨i.wf.shapeEq he.shapeEq, i.ranked.shapeEq he.shapeEq⟩
      obtain ⟨cb, hcb, hcp, -⟩ := i.wf.childBack o ob c ho hcm
      obtain ⟨cb', hcb', -⟩ := he.get hcb
      have hnpa : ∀ z zb, InSub acc.1 c z → acc.1.get z = some zb → zb.pending = false := by
        intro z zb _ hzb
        obtain ⟨zb0, hzb0, e0⟩ := he.symm.get hzb
        have := hnp z zb0 hzb0
        rw [e0] at this; exact this
      rw [hst] at hoofc
      have hsum := walk_sum (rk := rk) cfg acc.1.fuel acc.1 c .set ia hnpa ⟨cb', hcb'⟩ hoofc
      rw [subSum_congr he] at hsum
      refine ⟨?_, ?_, ?_⟩
      · rw [r1, hst]; simp only [List.map_cons, List.sum_cons, hlim]; rw [hsum]; simp; omega
      · intro y hy
        rw [r2 y (fun d hd => hy d (List.mem_cons_of_mem _ hd)), hst]
        have hyc : ¬ InSub S c y := by
          rcases hy c (by simp) with h | h
          · rw [hlim] at h; cases h
          · exact h
        exact walk_frame cfg _ acc.1 c .set ia y (fun h => hyc ((InSub.congr he.parentOf).1 h))
      · intro d hd hdl y hin yb hyb
        rcases List.mem_cons.1 hd with rfl | hd'
        · -- this child: set now, untouched later
          rw [r2 y, hst]
          · obtain ⟨yb1, hyb1, -⟩ := he.get hyb
            exact walk_set cfg _ acc.1 d ia hnpa ⟨cb', hcb'⟩ hoofc y ((InSub.congr he.parentOf).2 hin) yb1 hyb1
          · intro e he'
            right
            intro hin2
            have hne : d ≠ e := fun h => hnd'.1 (h ▸ he')
            exact sub_disjoint i o ob ho d e hcm (hsub e (List.mem_cons_of_mem _ he')) hne y ⟨hin, hin2⟩
        · exact r3 d hd' hdl y hin yb hyb


/-- whoever has something beneath it is a plain object -/
theorem anc_plain {s : State} (w : WFt s) {a y : Nat} (h : Anc s a y) : ∃ ab, s.get a = some ab ∧ ab.kind = .plain := by
  induction h with
  | @parent x p hp =>
    obtain ⟨xb, hx, hpp⟩ := parentOf_some hp
    obtain ⟨pb, hpb, hpk, -⟩ := w.parentLive x xb p hx hpp
    exact ⟨pb, hpb, hpk⟩
  | @up x p a hp _ ih => exact ih

theorem limAt_of_limit {s : State} {c : Nat} {cb : Obj} (hc : s.get c = some cb) :
    limAt s c = true ↔ cb.kind = .limit := by
  unfold limAt; rw [hc]; simp only [isLimit]
  cases cb.kind <;> simp

open Classical in
/-- what lies beneath a context = the subtrees of its children, the `.memlimit` chunk aside -/
theorem charge_children {rk : Nat → Nat} {T : State} (i : InvT rk T) (cfg : Cfg) (hw : cfg.fixWalk = true)
    (hnp : ∀ z zb, T.get z = some zb → zb.pending = false)
    (o : Nat) (ob : Obj) (ho : T.get o = some ob) (l : Nat) (lb : Obj) (hl : T.get l = some lb)
    (hlk : lb.kind = .limit) (hlp : lb.parent = some o)
    (huniq : ∀ c ∈ ob.children, limAt T c = true → c = l) :
    chargeUnder T o l = (ob.children.map fun c => if limAt T c then 0 else subSum cfg T c).sum := by
  have hpol : parentOf T l = some o := by rw [parentOf_eq hl]; exact hlp
  have hancl : Anc T o l := Anc.parent hpol
  have hdec := sum_sub_decomp i o ob ho (fun z zb _ hz => hnp z zb hz)
    (fun y => if y = l ∨ y = o then 0 else chargeAt T y)
  have hlhs : chargeUnder T o l =
      ∑ y ∈ range T.heap.length, (if InSub T o y then (if y = l ∨ y = o then 0 else chargeAt T y) else 0) := by
    unfold chargeUnder
    apply Finset.sum_congr rfl
    intro y _
    by_cases hyo : y = o
    · subst hyo
      rw [if_neg (fun h => Anc.irrefl i.ranked h.2)]; simp
    · by_cases hyl : y = l
      · subst hyl; simp
      · have : InSub T o y ↔ Anc T o y := by
          unfold InSub; constructor
          · rintro (h | h)
            · exact absurd h hyo
            · exact h
          · exact Or.inr
        by_cases ha : Anc T o y
        · rw [if_pos ⟨hyl, ha⟩, if_pos (this.2 ha)]; simp [hyl, hyo]
        · rw [if_neg (fun h => ha h.2), if_neg (fun h => ha (this.1 h))]
  rw [hlhs, hdec]
  simp only [or_true, if_true, Nat.zero_add]
  congr 1
  apply List.map_congr_left
  intro c hc
  obtain ⟨cb, hcb, hcp, -⟩ := i.wf.childBack o ob c ho hc
  have hanc : Anc T o c := Anc.parent (by rw [parentOf_eq hcb]; exact hcp)
  cases hlim : limAt T c with
  | true =>
    have hcl := huniq c hc hlim
    subst hcl
    simp only [if_true]
    apply Finset.sum_eq_zero
    intro y _
    by_cases hin : InSub T c y
    · rcases hin with rfl | h
      · simp
      · exfalso
        obtain ⟨ab, hab, hak⟩ := anc_plain i.wf h
        rw [hl] at hab; cases hab; rw [hlk] at hak; cases hak
    · rw [if_neg hin]
  | false =>
    simp only [Bool.false_eq_true, if_false]
    unfold subSum
    apply Finset.sum_congr rfl
    intro y _
    by_cases hin : InSub T c y
    · rw [if_pos hin, if_pos hin]
      have hyo : y ≠ o := by
        intro e; subst e
        rcases hin with rfl | h
        · exact Anc.irrefl i.ranked hanc
        · exact Anc.irrefl i.ranked (hanc.trans h)
      have hyl : y ≠ l := by
        intro e; subst e
        rcases hin with rfl | h
        · have := (limAt_of_limit hl).2 hlk; rw [this] at hlim; cases hlim
        · obtain ⟨p, hp1, hp2⟩ := h.cases_parent
          rw [hpol] at hp1; cases hp1
          rcases hp2 with rfl | h2
          · exact Anc.irrefl i.ranked hanc
          · exact Anc.irrefl i.ranked (hanc.trans h2)
      rw [if_neg (by simp [hyo, hyl])]
      unfold wcAt chargeAt walkCharge
      cases T.get y <;> simp [hw]
    · rw [if_neg hin, if_neg hin]


/-- the flag invariant, except that context `o` need not carry HAS yet -/
structure FlagsInvW (s : State) (o : Nat) : Prop where
  hasUse : ∀ (x : Nat) ob, s.get x = some ob → ob.hasLim = true → ob.useLim = true
  inherit : ∀ (x : Nat) ob p po, s.get x = some ob → ob.parent = some p → s.get p = some po →
      po.useLim = true → ob.kind ≠ .limit → ob.useLim = true
  chunkHas : ∀ (l : Nat) lb ctx cb, ctx ≠ o → s.get l = some lb → lb.kind = .limit → lb.parent = some ctx →
      s.get ctx = some cb → cb.hasLim = true
  chunkUnique : ∀ (l1 l2 : Nat) b1 b2 ctx, s.get l1 = some b1 → s.get l2 = some b2 → b1.kind = .limit →
      b2.kind = .limit → b1.parent = some ctx → b2.parent = some ctx → l1 = l2

theorem FlagsInv.toW {s : State} (fl : FlagsInv s) (o : Nat) : FlagsInvW s o :=
  ⟨fl.hasUse, fl.inherit, fun l lb ctx cb _ => fl.chunkHas l lb ctx cb, fl.chunkUnique⟩

theorem mapsize_modify (s : State) (j : Nat) (f : Obj → Obj) (hf : ∀ x, (f x).size = x.size) (y : Nat) :
    ((s.modify j f).get y).map (·.size) = (s.get y).map (·.size) := by
  rw [get_modify]
  split
  · cases s.get y <;> simp [hf]
  · rfl

/-- **accounting, configure**: `talloc_set_memlimit(o, max)` with the `.memlimit` chunk `l` in place:
the chunk records exactly what lies beneath `o`, and everything beneath `o` carries the USE flag -/
theorem acct_configure {rk : Nat → Nat} {S : State} (cfg : Cfg) (hw : cfg.fixWalk = true) (hs : cfg.fixSet = true)
    (i : InvT rk S) (hnp : ∀ z zb, S.get z = some zb → zb.pending = false)
    (o : Nat) (ob : Obj) (ho : S.get o = some ob) (hok : ob.kind = .plain)
    (l : Nat) (lb : Obj) (hl : S.get l = some lb) (hlk : lb.kind = .limit) (hlp : lb.parent = some o)
    (flw : FlagsInvW S o)
    (acx : ∀ (l' : Nat) lb' ctx, S.get l' = some lb' → lb'.kind = .limit → lb'.parent = some ctx → l' ≠ l →
      lb'.lcur = chargeUnder S ctx l')
    (max : Nat) (hoof : (setLimitConfigure cfg S o l max).oof = false) :
    AF (setLimitConfigure cfg S o l max) := by
  have hlo : l ≠ o := by intro e; subst e; rw [ho] at hl; cases hl; rw [hok] at hlk; cases hlk
  unfold setLimitConfigure at hoof ⊢
  simp only [hs, if_true] at hoof ⊢
  -- the state the loop starts from
  generalize hS3 : ((S.modify l fun x => { x with lmax := max, lcur := 0 }).modify o
      fun x => { x with useLim := true, hasLim := true }) = S3 at hoof ⊢
  have h3o : S3.get o = some { ob with useLim := true, hasLim := true } := by
    rw [← hS3]; simp [hlo, ho]
  have h3l : S3.get l = some { lb with lmax := max, lcur := 0 } := by
    rw [← hS3]; simp [Ne.symm hlo, hl]
  have h3y : ∀ y : Nat, y ≠ o → y ≠ l → S3.get y = S.get y := by
    intro y h1 h2; rw [← hS3]; simp [Ne.symm h1, Ne.symm h2]
  have hsh3 : ShapeEq S S3 := by
    rw [← hS3]
    exact (shapeEq_modify_self S l (fun x => { x with lmax := max, lcur := 0 }) (fun _ => rfl)).trans
      (shapeEq_modify_self _ o (fun x => { x with useLim := true, hasLim := true }) (fun _ => rfl))
  have i3 : InvT rk S3 := i.shapeEq hsh3
  have hlen3 : S3.heap.length = S.heap.length := by rw [← hS3]; simp
  have hpar3 : ∀ y, parentOf S3 y = parentOf S y := parentOf_shapeEq hsh3
  have hsz3 : ∀ y : Nat, (S3.get y).map (·.size) = (S.get y).map (·.size) := by
    intro y; rw [← hS3]
    rw [mapsize_modify _ o (fun x => { x with useLim := true, hasLim := true }) (fun _ => rfl),
      mapsize_modify S l (fun x => { x with lmax := max, lcur := 0 }) (fun _ => rfl)]
  -- S3 against S, field by field
  have h3S : ∀ (y : Nat) y3, S3.get y = some y3 → ∃ y0, S.get y = some y0 ∧ y3.parent = y0.parent ∧
      y3.kind = y0.kind ∧ (y ≠ o → y3.hasLim = y0.hasLim ∧ y3.useLim = y0.useLim) ∧
      (y = o → y3.hasLim = true ∧ y3.useLim = true) ∧ (y ≠ l → y3.lcur = y0.lcur) := by
    intro y y3 hy
    by_cases e1 : y = o
    · subst e1; rw [h3o] at hy; cases hy
      exact ⟨ob, ho, rfl, rfl, fun h => absurd rfl h, fun _ => ⟨rfl, rfl⟩, fun _ => rfl⟩
    · by_cases e2 : y = l
      · subst e2; rw [h3l] at hy; cases hy
        exact ⟨lb, hl, rfl, rfl, fun _ => ⟨rfl, rfl⟩, fun h => absurd h e1, fun h => absurd rfl h⟩
      · rw [h3y y e1 e2] at hy
        exact ⟨y3, hy, rfl, rfl, fun _ => ⟨rfl, rfl⟩, fun h => absurd h e1, fun _ => rfl⟩
  have hnp3 : ∀ z zb, S3.get z = some zb → zb.pending = false := by
    intro z zb hz
    obtain ⟨z0, h0, -, -, -, -, e5, -⟩ := hsh3.symm.get hz
    rw [← e5]; exact hnp z z0 h0
  rw [childrenOf_eq h3o] at hoof ⊢
  simp only [] at hoof ⊢
  -- the loop
  change ((ob.children.foldl (cfgStep cfg) (S3, 0)).1.modify l fun x =>
    { x with lcur := (ob.children.foldl (cfgStep cfg) (S3, 0)).2 }).oof = false at hoof
  change AF ((ob.children.foldl (cfgStep cfg) (S3, 0)).1.modify l fun x =>
    { x with lcur := (ob.children.foldl (cfgStep cfg) (S3, 0)).2 })
  rw [oof_modify] at hoof
  have hnd3 : ob.children.Nodup := i3.wf.childNodup o { ob with useLim := true, hasLim := true } h3o
  obtain ⟨r1, r2, r3⟩ := cfgFold_spec i3 cfg hnp3 o { ob with useLim := true, hasLim := true } h3o
    ob.children (S3, 0) (.refl _) (fun c hc => hc) hnd3 hoof
  have heR := cfgFold_eqButUse cfg ob.children (S3, 0)
  generalize ob.children.foldl (cfgStep cfg) (S3, 0) = R at hoof r1 r2 r3 heR ⊢
  simp only [Nat.zero_add] at r1 heR r2
  -- the only child the loop skips is the chunk
  have huniq : ∀ c ∈ ob.children, limAt S3 c = true → c = l := by
    intro c hc hlim
    obtain ⟨cb, hcb, hcp, -⟩ := i3.wf.childBack o { ob with useLim := true, hasLim := true } c h3o hc
    have hck := (limAt_of_limit hcb).1 hlim
    obtain ⟨c0, hc0, e1, e2, -⟩ := h3S c cb hcb
    exact flw.chunkUnique c l c0 lb o hc0 hl (e2 ▸ hck) hlk (e1 ▸ hcp) hlp
  -- walked region
  have hin_use : ∀ y, (∃ c ∈ ob.children, limAt S3 c = false ∧ InSub S3 c y) → ∀ y3, S3.get y = some y3 →
      ∃ yr, R.1.get y = some yr ∧ yr.useLim = true := by
    rintro y ⟨c, hc, hcl, hin⟩ y3 hy3
    exact r3 c hc hcl y hin y3 hy3
  have hout : ∀ y, ¬ (∃ c ∈ ob.children, limAt S3 c = false ∧ InSub S3 c y) → R.1.get y = S3.get y := by
    intro y hy
    apply r2
    intro c hc
    cases hcl : limAt S3 c with
    | true => exact Or.inl rfl
    | false => exact Or.inr (fun hin => hy ⟨c, hc, hcl, hin⟩)
  -- the final state against R
  have hFR : ∀ (y : Nat) yb, (R.1.modify l fun x => { x with lcur := R.2 }).get y = some yb →
      ∃ yr, R.1.get y = some yr ∧ yb.parent = yr.parent ∧ yb.kind = yr.kind ∧ yb.hasLim = yr.hasLim ∧
        yb.useLim = yr.useLim ∧ (y ≠ l → yb.lcur = yr.lcur) ∧ (y = l → yb.lcur = R.2) := by
    intro y yb hy
    rw [get_modify_some] at hy
    rcases hy with ⟨hne, hy⟩ | ⟨rfl, yr, hy, rfl⟩
    · exact ⟨yb, hy, rfl, rfl, rfl, rfl, fun _ => rfl, fun h => absurd h.symm hne⟩
    · exact ⟨yr, hy, rfl, rfl, rfl, rfl, fun h => absurd rfl h, fun _ => rfl⟩
  have hR3 : ∀ (y : Nat) yr, R.1.get y = some yr → ∃ y3, S3.get y = some y3 ∧ yr.parent = y3.parent ∧
      yr.kind = y3.kind ∧ yr.hasLim = y3.hasLim ∧ yr.lcur = y3.lcur := by
    intro y yr hy
    obtain ⟨y3, h3, e⟩ := heR.symm.get hy
    exact ⟨y3, h3, by rw [e], by rw [e], by rw [e], by rw [e]⟩
  have hparF : ∀ y, parentOf (R.1.modify l fun x => { x with lcur := R.2 }) y = parentOf S y := by
    intro y
    rw [parentOf_modify R.1 l (fun x => { x with lcur := R.2 }) (fun _ => rfl), heR.parentOf, hpar3]
  have hszF : ∀ y : Nat, ((R.1.modify l fun x => { x with lcur := R.2 }).get y).map (·.size) =
      (S.get y).map (·.size) := by
    intro y
    rw [mapsize_modify R.1 l (fun x => { x with lcur := R.2 }) (fun _ => rfl), heR.size, hsz3]
  have hlenF : (R.1.modify l fun x => { x with lcur := R.2 }).heap.length = S.heap.length := by
    simp [heR.1, hlen3]
  constructor
  · -- accounting
    intro l' lb' ctx hl' hk' hp'
    rw [chargeUnder_congr hlenF hparF hszF]
    obtain ⟨yr, hyr, a1, a2, -, -, a5, a6⟩ := hFR l' lb' hl'
    obtain ⟨y3, hy3, b1, b2, -, b4⟩ := hR3 l' yr hyr
    obtain ⟨y0, hy0, c1, c2, -, -, c5⟩ := h3S l' y3 hy3
    by_cases e : l' = l
    · subst e
      rw [hl] at hy0; cases hy0
      have hctx : ctx = o := by
        have : lb'.parent = lb.parent := by rw [a1, b1, c1]
        rw [this, hlp] at hp'; cases hp'; rfl
      subst hctx
      rw [a6 rfl, r1]
      rw [← chargeUnder_congr hlen3 hpar3 hsz3]
      exact (charge_children i3 cfg hw hnp3 ctx { ob with useLim := true, hasLim := true } h3o l'
        { lb with lmax := max, lcur := 0 } h3l hlk hlp huniq).symm
    · rw [a5 e, b4, c5 e]
      exact acx l' y0 ctx hy0 (by rw [← c2, ← b2, ← a2]; exact hk') (by rw [← c1, ← b1, ← a1]; exact hp') e
  · -- flags
    have hfields : ∀ (y : Nat) yb, (R.1.modify l fun x => { x with lcur := R.2 }).get y = some yb →
        ∃ y0, S.get y = some y0 ∧ yb.parent = y0.parent ∧ yb.kind = y0.kind ∧
          (y ≠ o → yb.hasLim = y0.hasLim) ∧ (y = o → yb.hasLim = true) ∧
          ((∃ c ∈ ob.children, limAt S3 c = false ∧ InSub S3 c y) → yb.useLim = true) ∧
          (¬ (∃ c ∈ ob.children, limAt S3 c = false ∧ InSub S3 c y) →
            (y = o → yb.useLim = true) ∧ (y ≠ o → yb.useLim = y0.useLim)) := by
      intro y yb hy
      obtain ⟨yr, hyr, a1, a2, a3, a4, -, -⟩ := hFR y yb hy
      obtain ⟨y3, hy3, b1, b2, b3, -⟩ := hR3 y yr hyr
      obtain ⟨y0, hy0, c1, c2, c3, c4, -⟩ := h3S y y3 hy3
      refine ⟨y0, hy0, by rw [a1, b1, c1], by rw [a2, b2, c2], fun h => by rw [a3, b3, (c3 h).1],
        fun h => by rw [a3, b3, (c4 h).1], ?_, ?_⟩
      · intro hP
        obtain ⟨yr', hyr', hu⟩ := hin_use y hP y3 hy3
        rw [hyr] at hyr'; cases hyr'; rw [a4]; exact hu
      · intro hP
        have := hout y hP
        rw [hyr, hy3] at this; cases this
        exact ⟨fun h => by rw [a4, (c4 h).2], fun h => by rw [a4, (c3 h).2]⟩
    constructor
    · intro x xb hx hh
      obtain ⟨x0, h0, -, -, e3, e4, e5, e6⟩ := hfields x xb hx
      by_cases hP : ∃ c ∈ ob.children, limAt S3 c = false ∧ InSub S3 c x
      · exact e5 hP
      · by_cases hxo : x = o
        · exact (e6 hP).1 hxo
        · rw [(e6 hP).2 hxo]; exact flw.hasUse x x0 h0 (by rw [← e3 hxo]; exact hh)
    · intro x xb p pb hx hp hpb hu hk
      obtain ⟨x0, h0, e1, e2, e3, e4, e5, e6⟩ := hfields x xb hx
      obtain ⟨p0, hp0, f1, f2, f3, f4, f5, f6⟩ := hfields p pb hpb
      by_cases hP : ∃ c ∈ ob.children, limAt S3 c = false ∧ InSub S3 c x
      · exact e5 hP
      · by_cases hxo : x = o
        · exact (e6 hP).1 hxo
        · rw [(e6 hP).2 hxo]
          have hpar0 : x0.parent = some p := by rw [← e1]; exact hp
          have hk0 : x0.kind ≠ .limit := by rw [← e2]; exact hk
          have hpo3 : parentOf S3 x = some p := by rw [hpar3, parentOf_eq h0]; exact hpar0
          have hPp : ¬ ∃ c ∈ ob.children, limAt S3 c = false ∧ InSub S3 c p := by
            rintro ⟨c, hc, hcl, hin⟩
            exact hP ⟨c, hc, hcl, InSub.of_parent hpo3 hin⟩
          have hpo : p ≠ o := by
            intro e; subst e
            -- then x is a child of o that the loop walked
            obtain ⟨pb0, hpb0, -, hm⟩ := i.wf.parentLive x x0 p h0 hpar0
            rw [ho] at hpb0; cases hpb0
            have hm' : x ∈ ob.children := by
              rcases hm with h | h
              · exact h
              · rw [hnp x x0 h0] at h; cases h
            obtain ⟨x3, hx3, -, -, -, g4, -, -⟩ := hsh3.get h0
            have hl3 : limAt S3 x = false := by
              cases hh : limAt S3 x with
              | false => rfl
              | true => exact absurd ((limAt_of_limit hx3).1 hh) (by rw [g4]; exact hk0)
            exact hP ⟨x, hm', hl3, Or.inl rfl⟩
          have hu0 : p0.useLim = true := by rw [← (f6 hPp).2 hpo]; exact hu
          exact flw.inherit x x0 p p0 h0 hpar0 hp0 hu0 hk0
    · intro l' lb' ctx cb hl' hk' hp' hc
      obtain ⟨l0, h0, e1, e2, -⟩ := hfields l' lb' hl'
      obtain ⟨c0, hc0, -, -, f3, f4, -⟩ := hfields ctx cb hc
      by_cases hco : ctx = o
      · exact f4 hco
      · rw [f3 hco]
        exact flw.chunkHas l' l0 ctx c0 hco h0 (by rw [← e2]; exact hk') (by rw [← e1]; exact hp') hc0
    · intro l1 l2 b1 b2 ctx h1 h2 k1 k2 p1 p2
      obtain ⟨a1, g1, e1, e2, -⟩ := hfields l1 b1 h1
      obtain ⟨a2, g2, f1, f2, -⟩ := hfields l2 b2 h2
      exact flw.chunkUnique l1 l2 a1 a2 ctx g1 g2 (by rw [← e2]; exact k1) (by rw [← f2]; exact k2)
        (by rw [← e1]; exact p1) (by rw [← f1]; exact p2)

end Usual.C01
