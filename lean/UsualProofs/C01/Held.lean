import UsualProofs.C01.Failed
/-! Consequences of the invariants: held ⇔ live, nothing left once all roots are gone. -/
set_option linter.unusedSimpArgs false
set_option linter.unusedVariables false
namespace Usual.C01

/-- something holds `x`: a live context lists it as child, or a live TRef chunk targets it -/
def HeldBy (s : State) (x : Nat) : Prop :=
  (∃ (p : Nat) (pb : Obj), s.get p = some pb ∧ x ∈ pb.children) ∨
  (∃ (r : Nat) (rb : Obj), s.get r = some rb ∧ rb.kind = .ref x)

/-- a top-level object: its primary parent is the NULL context -/
def TopLevel (s : State) (x : Nat) : Prop := ∃ xb, s.get x = some xb ∧ xb.parent = none

theorem held_live {s : State} (w : WF s) (x : Nat) (h : HeldBy s x) : s.live x = true := by
  rcases h with ⟨p, pb, hp, hm⟩ | ⟨r, rb, hr, hk⟩
  · obtain ⟨co, hco, -⟩ := w.childBack p pb x hp hm; simp [State.live, hco]
  · obtain ⟨tb, htb, -⟩ := w.refBack r rb x hr hk; simp [State.live, htb]

theorem live_held {s : State} (w : WF s) (x : Nat) (h : s.live x = true) : HeldBy s x ∨ TopLevel s x := by
  unfold State.live at h
  cases hx : s.get x with
  | none => rw [hx] at h; cases h
  | some xb =>
    cases hp : xb.parent with
    | none => right; exact ⟨xb, hx, hp⟩
    | some p =>
      left; left
      obtain ⟨pb, hpb, -, hm⟩ := w.parentLive x xb p hx hp
      rcases hm with hm | hm
      · exact ⟨p, pb, hpb, hm⟩
      · rw [w.noPending x xb hx] at hm; cases hm

/-- with an acyclic holder graph every live object hangs below a top-level object; hence when no
top-level object is left, nothing is left -/
theorem no_roots_no_objects {rk : Nat → Nat} {s : State} (w : WF s) (wr : Ranked rk s)
    (h : ∀ x, ¬ TopLevel s x) : ∀ x : Nat, s.get x = none := by
  have key : ∀ n (x : Nat), rk x = n → s.get x = none := by
    intro n
    induction n using Nat.strongRecOn with
    | _ n ih =>
      intro x hx
      cases hg : s.get x with
      | none => rfl
      | some xb =>
        exfalso
        cases hp : xb.parent with
        | none => exact h x ⟨xb, hg, hp⟩
        | some p =>
          obtain ⟨pb, hpb, -⟩ := w.parentLive x xb p hg hp
          have hlt := wr.parentLt x xb p hg hp
          have := ih (rk p) (by omega) p rfl
          rw [hpb] at this; cases this
  intro x; exact key (rk x) x rfl

theorem liveRegions_zero {s : State} (h : ∀ x : Nat, s.get x = none) (cx : Nat) : liveRegions s cx = 0 := by
  unfold liveRegions
  rw [List.length_eq_zero_iff, List.filter_eq_nil_iff]
  intro x _
  simp [h x]

end Usual.C01
