import UsualProofs.C01.LimitAcct
/-! `talloc_set_memlimit(o, 0)` lifts the limit: afterwards `o` carries no HAS flag and no
`.memlimit` chunk hangs under it, so `apply_memlimit` passes `o` without a check. -/
set_option linter.unusedSimpArgs false
set_option linter.unusedVariables false
namespace Usual.C01

/-- parents, kinds and flags after the release of a TRef / `.memlimit` chunk -/
theorem free_leaf_fields {rk : Nat → Nat} (cfg : Cfg) (f : Nat) (s : State) (x : Nat)
    (xb : Obj) (i : InvT rk s) (hx : s.get x = some xb) (hk : xb.kind ≠ .plain)
    (lc : xb.children = []) (lr : xb.refs = []) (ld : xb.dtor = .none) (lp : xb.pending = false)
    (ht : ∀ t, xb.kind = .ref t → t ≠ x)
    (i4' : ∀ q, ShapeEq (freeLeafS s x) q → InvT rk q) (j : Nat) :
    ((run cfg (f + 1) s (.free x)).1.get j).map (fun o => (o.parent, o.kind, o.useLim, o.hasLim)) =
      ((s.remove x).get j).map (fun o => (o.parent, o.kind, o.useLim, o.hasLim)) := by
  have hpr : xb.parent ≠ some x := by
    intro e
    obtain ⟨po, hpo, hpk, -⟩ := i.wf.parentLive x xb x hx e
    rw [hx] at hpo; cases hpo; exact hk hpk
  obtain ⟨-, hshape⟩ := run_free_leaf cfg f s x xb hx hk lc lr lp ld ht hpr
  simp only [run, hx, lr, lp, ld, dtorStep, ne_eq, not_true_eq_false, if_false, Bool.false_eq_true]
    at hshape ⊢
  have hb := freeBegin_leaf_get s x xb hx hk ht hpr
  have hch : childrenOf (freeBegin s x xb .none false) x = [] := by
    rw [childrenOf_eq (ob := { xb with dtor := .none, pending := true }) (by rw [hb]; simp)]; exact lc
  rw [hch] at hshape ⊢
  simp only [List.head?_nil] at hshape ⊢
  obtain ⟨hl, hln⟩ := run_loop_none_get cfg f (freeBegin s x xb .none false) x true
  generalize (run cfg f (freeBegin s x xb .none false) (.loop x true none)).1 = s3 at hshape hl hln ⊢
  have h3 : s3.get x = some { xb with dtor := .none, pending := true } := by rw [hl, hb]; simp
  unfold freeEnd at hshape ⊢
  simp only [h3, lc, List.isEmpty_nil, if_true] at hshape ⊢
  have hsome := applyLim_isSome_of cfg ((s3.remove x).addLog (.release x)).fuel ((s3.remove x).addLog (.release x))
    xb.parent (-(totalSize xb.size : Int)) false (Or.inl (by have := totalSize_pos xb.size; omega))
  cases ha : applyLim cfg ((s3.remove x).addLog (.release x)).fuel ((s3.remove x).addLog (.release x))
      xb.parent (-(totalSize xb.size : Int)) false with
  | none => rw [ha] at hsome; cases hsome
  | some s5 =>
    rw [ha] at hshape
    simp only [Option.getD_some] at hshape ⊢
    have hsh4 : ShapeEq (freeLeafS s x) ((s3.remove x).addLog (.release x)) :=
      hshape.trans (applyLim_shapeEq _ _ _ _ _ _ _ ha).symm
    have i4 : InvT rk ((s3.remove x).addLog (.release x)) := i4' _ hsh4
    have hg4 : (((s3.remove x).addLog (.release x)).get j).map AFields = ((s.remove x).get j).map AFields := by
      simp only [get_addLog, get_remove]
      by_cases e : x = j
      · simp [e]
      · simp only [e, if_false]; rw [hl]; exact freeBegin_afields' s x xb .none false j
    have he := applyLim_eqButCur i4 cfg _ _ _ false s5 ha j
    cases h5 : s5.get j <;> cases h4 : ((s3.remove x).addLog (.release x)).get j <;>
      cases h0 : (s.remove x).get j <;> rw [h5, h4] at he <;> rw [h4, h0] at hg4 <;>
      simp [AFields] at he hg4 ⊢
    rename_i a b c
    cases a; cases b; cases c; simp_all


/-- `apply_memlimit` passes a context without HAS flag unchecked -/
theorem limitsAbove_no_limit (cfg : Cfg) (f : Nat) (s : State) (o : Nat) (ob : Obj) (ho : s.get o = some ob)
    (hh : ob.hasLim = false) :
    limitsAbove cfg (f + 1) s (some o) = if ob.useLim then limitsAbove cfg f s ob.parent else [] := by
  simp only [limitsAbove, ho, hh]
  cases ob.useLim <;> simp

/-- `talloc_set_memlimit(o, 0)` -/
theorem setLimit_lift_spec {rk : Nat → Nat} {s : State} (cfg : Cfg) (w : WF s) (wr : Ranked rk s)
    (fl : FlagsInv s) (o : Nat) (fail : Bool) (ho : UserObj s o) :
    (setLimit cfg s o 0 fail).2 = 0 ∧
    (∃ ob', (setLimit cfg s o 0 fail).1.get o = some ob' ∧ ob'.hasLim = false ∧ ob'.kind = .plain) ∧
    (∀ (l : Nat) lb, (setLimit cfg s o 0 fail).1.get l = some lb → lb.kind = .limit → lb.parent ≠ some o) := by
  obtain ⟨ob, hob, hok, honull⟩ := ho
  simp only [setLimit, hob, if_true]
  have hsh1 := shapeEq_modify_self s o (fun x => { x with hasLim := false }) (fun _ => rfl)
  have i1 : Inv rk (s.modify o fun x => { x with hasLim := false }) := Inv.shapeEq hsh1 ⟨w.toWFp, wr⟩
  have hget1o : (s.modify o fun x => { x with hasLim := false }).get o = some { ob with hasLim := false } := by
    simp [hob]
  have hget1 : ∀ y : Nat, y ≠ o → (s.modify o fun x => { x with hasLim := false }).get y = s.get y := by
    intro y hy; simp [Ne.symm hy]
  cases hlim : (if ob.hasLim = true then findLim s ob.children else none) with
  | none =>
    simp only []
    refine ⟨trivial, ⟨_, hget1o, rfl, hok⟩, ?_⟩
    intro l lb hl hk hp
    have hlo : l ≠ o := by intro e; subst e; rw [hget1o] at hl; cases hl; simp only at hk; rw [hok] at hk; cases hk
    rw [hget1 l hlo] at hl
    obtain ⟨pb, hpb, -, hm⟩ := w.parentLive l lb o hl hp
    rw [hob] at hpb; cases hpb
    have hm' : l ∈ ob.children := by
      rcases hm with h | h
      · exact h
      · rw [w.noPending l lb hl] at h; cases h
    have hhas := fl.chunkHas l lb o ob hl hk hp hob
    rw [hhas] at hlim; simp only [if_true] at hlim
    exact findLim_none_spec s _ hlim l hm' lb hl hk
  | some l =>
    simp only []
    have hl' : findLim s ob.children = some l := by
      split at hlim
      · exact hlim
      · cases hlim
    obtain ⟨hm, lb, hlb, hlk⟩ := findLim_spec s _ l hl'
    obtain ⟨lb', hlb', hlp, -⟩ := w.childBack o ob l hob hm
    rw [hlb] at hlb'; cases hlb'
    have hlo : l ≠ o := by intro e; subst e; rw [hob] at hlb; cases hlb; rw [hok] at hlk; cases hlk
    have hlb1 : (s.modify o fun x => { x with hasLim := false }).get l = some lb := by rw [hget1 l hlo]; exact hlb
    have hnp : lb.kind ≠ .plain := by rw [hlk]; simp
    obtain ⟨f, hf⟩ : ∃ f, (s.modify o fun x => { x with hasLim := false }).fuel = f + 1 := ⟨_, fuel_succ _⟩
    rw [hf]
    obtain ⟨lc, lr, ld, lp⟩ := i1.wf.leaf l lb hlb1 hnp
    have key := free_leaf_fields cfg f _ l lb i1.t hlb1 hnp lc lr ld lp
      (by intro t hkk; rw [hlk] at hkk; cases hkk)
      (fun q h => (Inv.t ⟨freeLeafS_wf i1.wf hlb1 hnp, freeLeafS_ranked i1.wf hlb1 hnp i1.ranked⟩).shapeEq h)
    refine ⟨trivial, ?_, ?_⟩
    · have := key o
      rw [get_remove] at this
      simp only [hlo, if_false, hget1o, Option.map_some] at this
      cases hr : (run cfg (f + 1) (s.modify o fun x => { x with hasLim := false }) (.free l)).1.get o with
      | none => rw [hr] at this; cases this
      | some ob' =>
        rw [hr] at this
        simp only [Option.map_some, Option.some.injEq, Prod.mk.injEq] at this
        exact ⟨ob', rfl, this.2.2.2, by rw [this.2.1]; exact hok⟩
    · intro l2 lb2 hl2 hk2 hp2
      have := key l2
      rw [hl2, get_remove] at this
      by_cases e : l = l2
      · simp [e] at this
      · simp only [e, if_false] at this
        have hl2o : l2 ≠ o := by
          intro e2; subst e2
          rw [hget1o] at this
          simp only [Option.map_some, Option.some.injEq, Prod.mk.injEq] at this
          rw [this.2.1, hok] at hk2; cases hk2
        rw [hget1 l2 hl2o] at this
        cases h0 : s.get l2 with
        | none => rw [h0] at this; cases this
        | some b0 =>
          rw [h0] at this
          simp only [Option.map_some, Option.some.injEq, Prod.mk.injEq] at this
          exact e (fl.chunkUnique l l2 lb b0 o hlb h0 hlk (by rw [← this.2.1]; exact hk2) hlp
            (by rw [← this.1]; exact hp2))

end Usual.C01
