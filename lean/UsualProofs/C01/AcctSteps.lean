import UsualProofs.C01.MoveThm
/-! The accounting and flag invariants through the remaining atomic steps. -/
set_option linter.unusedSimpArgs false
set_option linter.unusedVariables false
namespace Usual.C01

theorem acct_flags_congr {s s' : State} (hlen : s'.heap.length = s.heap.length)
    (h : ∀ y : Nat, (s'.get y).map AFields = (s.get y).map AFields) (ac : AcctInv s) (fl : FlagsInv s) :
    AcctInv s' ∧ FlagsInv s' := by
  constructor
  · apply AcctInv.congr hlen _ ac
    intro y
    have := h y
    cases h1 : s'.get y <;> cases h2 : s.get y <;> rw [h1, h2] at this <;> simp [AFields] at this ⊢
    exact ⟨this.1, this.2.1, this.2.2.1, this.2.2.2.1⟩
  · apply FlagsInv.congr _ fl
    intro y
    have := h y
    cases h1 : s'.get y <;> cases h2 : s.get y <;> rw [h1, h2] at this <;> simp [AFields] at this ⊢
    exact ⟨this.1, this.2.1, this.2.2.2.2.1, this.2.2.2.2.2⟩

/-- FLAG_PENDING + list_del (and the destructor script) touch none of these fields -/
theorem freeBegin_afields (s : State) (x : Nat) (xb : Obj) (hx : s.get x = some xb) (hk : xb.kind = .plain)
    (d' : Dtor) (logged : Bool) (y : Nat) :
    ((freeBegin s x xb d' logged).get y).map AFields = (s.get y).map AFields := by
  unfold freeBegin
  simp only [hk]
  have h0 : ∀ q : State, (∀ z : Nat, (q.get z).map AFields = (s.get z).map AFields) →
      ((detach q x).get y).map AFields = (s.get y).map AFields := by
    intro q hq
    unfold detach
    split
    · exact hq y
    · split
      · exact hq y
      · rw [get_modify]
        split
        · rename_i p _ hpy
          subst hpy
          rw [← hq p]; cases q.get p <;> simp [AFields]
        · exact hq y
  apply h0
  intro z
  cases logged
  · simp only [Bool.false_eq_true, if_false, get_modify]
    split
    · cases s.get z <;> simp [AFields]
    · rfl
  · simp only [if_true, get_addLog, get_modify]
    split
    · cases s.get z <;> simp [AFields]
    · rfl

theorem length_detach (s : State) (t : Nat) : (detach s t).heap.length = s.heap.length := by
  unfold detach; split
  · rfl
  · split
    · rfl
    · simp

theorem length_freeBegin (s : State) (x : Nat) (xb : Obj) (d' : Dtor) (logged : Bool) :
    (freeBegin s x xb d' logged).heap.length = s.heap.length := by
  unfold freeBegin
  simp only [length_detach]
  split <;> cases logged <;> simp

/-- the flag invariant survives the removal of a chunk -/
theorem flags_remove {s : State} (fl : FlagsInv s) (x : Nat) : FlagsInv (s.remove x) := by
  refine ⟨?_, ?_, ?_, ?_⟩
  · intro y o hy hh
    rw [get_remove_some] at hy; exact fl.hasUse y o hy.2 hh
  · intro y o p po hy hpar hp hpu hk
    rw [get_remove_some] at hy hp; exact fl.inherit y o p po hy.2 hpar hp.2 hpu hk
  · intro l lb ctx cb hl hk hp hc
    rw [get_remove_some] at hl hc; exact fl.chunkHas l lb ctx cb hl.2 hk hp hc.2
  · intro l1 l2 b1 b2 ctx h1 h2 k1 k2 p1 p2
    rw [get_remove_some] at h1 h2; exact fl.chunkUnique l1 l2 b1 b2 ctx h1.2 h2.2 k1 k2 p1 p2

/-- `moveS` is a structural move -/
theorem structMove_moveS {s : State} {t : Nat} {tb : Obj} (ht : s.get t = some tb) (tnew : Option Id) (front : Bool)
    (hself : tnew ≠ some t) (hself' : tb.parent ≠ some t) : StructMove s (moveS s t tnew front) t tnew := by
  have hg := moveS_getG ht tnew front hself hself'
  refine ⟨by unfold moveS addChild; split <;> simp [length_detach], ⟨?_⟩, ?_, ?_⟩
  · intro y hy
    unfold parentOf; rw [hg]; simp only [hy, if_false]
    cases s.get y <;> simp
  · unfold parentOf; rw [hg]; simp
  · intro y
    rw [hg]
    by_cases e : y = t
    · subst e; simp [ht]
    · simp only [e, if_false]; cases s.get y <;> simp

/-- `promoteS` (pop the first reference, move under its context) is a structural move -/
theorem structMove_promoteS {s : State} {x : Nat} {xb : Obj} (hx : s.get x = some xb) (q : Option Id)
    (rest : List Id) (hq : q ≠ some x) (hself : xb.parent ≠ some x) : StructMove s (promoteS s x q rest) x q := by
  have hg := promoteS_get hx q rest hq hself
  refine ⟨by unfold promoteS addChild; split <;> simp [length_detach], ⟨?_⟩, ?_, ?_⟩
  · intro y hy
    unfold parentOf; rw [hg]; simp only [hy, if_false]
    cases s.get y <;> simp
  · unfold parentOf; rw [hg]; simp
  · intro y
    rw [hg]
    by_cases e : y = x
    · subst e; simp [hx]
    · simp only [e, if_false]; cases s.get y <;> simp


theorem flags_congr_get {s s' : State} (h : ∀ j : Nat, s'.get j = s.get j) (fl : FlagsInv s) : FlagsInv s' :=
  FlagsInv.congr (fun y => by rw [h y]) fl

theorem invT_congr_get {rk : Nat → Nat} {s s' : State} (h : ∀ j : Nat, s'.get j = s.get j)
    (hn : s'.nullCtx = s.nullCtx) (i : InvT rk s) : InvT rk s' :=
  i.shapeEq ⟨hn, fun j => by rw [h j]⟩

/-- **accounting, end of a free**: the childless chunk is released and un-charged -/
theorem acct_freeEnd {rk : Nat → Nat} {s3 : State} (cfg : Cfg) (hfix : cfg.fixGone = true) (i3 : InvT rk s3)
    (fl3 : FlagsInv s3) (ac3 : AcctInv s3) (x : Nat) (x3 : Obj) (hx3 : s3.get x = some x3)
    (hch : x3.children = []) (hleaf : ∀ y, parentOf s3 y ≠ some x) (i5 : InvT rk (s3.remove x))
    (hoof : (freeEnd cfg s3 x).1.oof = false) :
    AcctInv (freeEnd cfg s3 x).1 ∧ FlagsInv (freeEnd cfg s3 x).1 := by
  unfold freeEnd at hoof ⊢
  simp only [hx3, hch, List.isEmpty_nil, if_true] at hoof ⊢
  have hsome := applyLim_isSome_of cfg ((s3.remove x).addLog (.release x)).fuel ((s3.remove x).addLog (.release x))
    x3.parent (-(totalSize x3.size : Int)) false (Or.inl (by have := totalSize_pos x3.size; omega))
  cases ha : applyLim cfg ((s3.remove x).addLog (.release x)).fuel ((s3.remove x).addLog (.release x))
      x3.parent (-(totalSize x3.size : Int)) false with
  | none => rw [ha] at hsome; cases hsome
  | some s5 =>
    rw [ha] at hoof
    simp only [Option.getD_some] at hoof ⊢
    have i4 : InvT rk ((s3.remove x).addLog (.release x)) :=
      invT_congr_get (s := s3.remove x) (s' := (s3.remove x).addLog (.release x)) (fun _ => rfl) rfl i5
    have fl4 : FlagsInv ((s3.remove x).addLog (.release x)) :=
      flags_congr_get (s := s3.remove x) (s' := (s3.remove x).addLog (.release x)) (fun _ => rfl) (flags_remove fl3 x)
    refine ⟨acct_remove_leaf (s4 := (s3.remove x).addLog (.release x)) i3 ac3 cfg hfix x x3 hx3 hleaf
      (fun _ => rfl) (by simp) i4 fl4 _ s5 ha hoof, ?_⟩
    exact (applyLim_eqButCur i4 cfg _ _ _ false s5 ha).flags fl4


/-- **accounting, `move_child`** (talloc_reparent / talloc_steal / throw_child) -/
theorem acct_moveChild {rk : Nat → Nat} {s : State} (cfg : Cfg) (hg : cfg.fixGone = true) (hw : cfg.fixWalk = true)
    (i : InvT rk s) (fl : FlagsInv s) (ac : AcctInv s) (t : Nat) (tb : Obj) (ht : s.get t = some tb)
    (htk : tb.kind ≠ .limit) (tnew : Option Id) (hself : tnew ≠ some t)
    (i3 : InvT rk (moveS s t tnew (isRef tb)))
    (hnp : ∀ z zb, InSub s t z → s.get z = some zb → zb.pending = false)
    (hnewp : ∀ n, tnew = some n → ∃ nb, s.get n = some nb ∧ nb.kind = .plain)
    (hoof : (moveChild cfg s t tnew tb.parent).oof = false) :
    AcctInv (moveChild cfg s t tnew tb.parent) ∧ FlagsInv (moveChild cfg s t tnew tb.parent) := by
  have hself' : tb.parent ≠ some t := by
    intro e; have := i.ranked.parentLt t tb t ht e; omega
  have sm := structMove_moveS ht tnew (isRef tb) hself hself'
  have he : moveChild cfg s t tnew tb.parent = moveMemlimit cfg (moveS s t tnew (isRef tb)) t tnew tb.parent := by
    unfold moveChild moveS; simp only [ht]
  rw [he] at hoof ⊢
  exact acct_moveMemlimit cfg hg hw i fl ac t tnew sm i3 tb ht htk hnp hnewp hoof

/-- the intermediate state of a promotion has the tree invariant -/
theorem promoteS_invT {rk : Nat → Nat} {s : State} {x : Nat} {xb : Obj} (hx : s.get x = some xb)
    (hxk : xb.kind = .plain) (q : Option Id) (rest : List Id) (hq : q ≠ some x) (hself : xb.parent ≠ some x)
    (im : Inv rk (moveS s x q false)) : InvT rk (promoteS s x q rest) := by
  have hgp := promoteS_get hx q rest hq hself
  have hgm := moveS_getG hx q false hq hself
  have hts : ∀ j : Nat, ((promoteS s x q rest).get j).map Obj.tshape = ((moveS s x q false).get j).map Obj.tshape := by
    intro j
    rw [hgp, hgm]
    by_cases e : j = x
    · subst e; simp [Obj.tshape, hxk]
    · simp only [e, if_false]; cases s.get j <;> simp [Obj.tshape]
  refine ⟨WFt.congr hts im.wf.tree, im.ranked.mono ?_ ?_⟩
  · unfold promoteS moveS; simp
  · intro j o' hj
    have := hts j
    rw [hj] at this
    cases h2 : (moveS s x q false).get j with
    | none => rw [h2] at this; cases this
    | some o =>
      rw [h2] at this
      simp only [Option.map_some, Option.some.injEq, Obj.tshape, Prod.mk.injEq] at this
      exact ⟨o, rfl, this.1.symm, this.2.2.1.symm⟩

/-- **accounting, promotion** (`_talloc_unlink`, "main parent but refs") -/
theorem acct_promoteMove {rk : Nat → Nat} {s : State} (cfg : Cfg) (hg : cfg.fixGone = true) (hw : cfg.fixWalk = true)
    (hp : cfg.fixPromote = true) (i : InvT rk s) (fl : FlagsInv s) (ac : AcctInv s) (x : Nat) (xb : Obj)
    (hx : s.get x = some xb) (hxk : xb.kind = .plain) (rb : Obj) (rest : List Id) (hq : rb.parent ≠ some x)
    (im : Inv rk (moveS s x rb.parent false))
    (hnp : ∀ z zb, InSub s x z → s.get z = some zb → zb.pending = false)
    (hnewp : ∀ n, rb.parent = some n → ∃ nb, s.get n = some nb ∧ nb.kind = .plain)
    (hoof : (promoteMove cfg s x xb rb rest xb.parent).oof = false) :
    AcctInv (promoteMove cfg s x xb rb rest xb.parent) ∧ FlagsInv (promoteMove cfg s x xb rb rest xb.parent) := by
  have hself : xb.parent ≠ some x := by
    intro e; have := i.ranked.parentLt x xb x hx e; omega
  have sm := structMove_promoteS hx rb.parent rest hq hself
  have he : promoteMove cfg s x xb rb rest xb.parent =
      moveMemlimit cfg (promoteS s x rb.parent rest) x rb.parent xb.parent := by
    unfold promoteMove promoteS
    have : isRef xb = false := by simp [isRef, hxk]
    simp only [hp, if_true, this]
  rw [he] at hoof ⊢
  exact acct_moveMemlimit cfg hg hw i fl ac x rb.parent sm (promoteS_invT hx hxk rb.parent rest hq hself im)
    xb hx (by rw [hxk]; simp) hnp hnewp hoof

end Usual.C01
