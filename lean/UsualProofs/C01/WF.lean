import UsualProofs.C01.Heap
/-! Structural invariant of the talloc model (Prop level) and its preservation by the atomic
state updates that `run` and the public operations are composed of. -/
namespace Usual.C01

def isPlainAt (s : State) (a : Nat) : Prop := ∃ ao, s.get a = some ao ∧ ao.kind = .plain

/-- structural invariant that also holds at every call boundary inside `run` (pending objects are
detached from their parent's child list but keep their parent pointer) -/
structure WFp (s : State) : Prop where
  parentLive : ∀ (x : Nat) o p, s.get x = some o → o.parent = some p →
      ∃ po, s.get p = some po ∧ po.kind = .plain ∧ (x ∈ po.children ∨ o.pending = true)
  childBack : ∀ (x : Nat) o c, s.get x = some o → c ∈ o.children →
      ∃ co, s.get c = some co ∧ co.parent = some x ∧ co.pending = false
  childNodup : ∀ (x : Nat) o, s.get x = some o → o.children.Nodup
  refLive : ∀ (x : Nat) o r, s.get x = some o → r ∈ o.refs → ∃ ro, s.get r = some ro ∧ ro.kind = .ref x
  refNodup : ∀ (x : Nat) o, s.get x = some o → o.refs.Nodup
  refBack : ∀ (r : Nat) ro t, s.get r = some ro → ro.kind = .ref t → ∃ tb, s.get t = some tb ∧ r ∈ tb.refs
  leaf : ∀ (r : Nat) ro, s.get r = some ro → ro.kind ≠ .plain →
      ro.children = [] ∧ ro.refs = [] ∧ ro.dtor = .none ∧ ro.pending = false
  pendingNoRefs : ∀ (x : Nat) o, s.get x = some o → o.pending = true → o.refs = []
  order : ∀ (x : Nat) o, s.get x = some o → o.children.Pairwise (fun a b => isPlainAt s a → isPlainAt s b)
  nullOK : ∀ (n : Nat), s.nullCtx = some n → ∃ nb, s.get n = some nb ∧ nb.kind = .plain ∧
      nb.pending = false ∧ nb.parent = none ∧ nb.refs = []

/-- between operations: nothing is pending -/
structure WF (s : State) : Prop extends WFp s where
  noPending : ∀ (x : Nat) o, s.get x = some o → o.pending = false

/-- the holder graph (primary parents and referencing contexts) is acyclic: holders have smaller
rank; the null context is below everything -/
structure Ranked (rk : Nat → Nat) (s : State) : Prop where
  parentLt : ∀ (x : Nat) o p, s.get x = some o → o.parent = some p → rk p < rk x
  refLt : ∀ (r : Nat) ro t q, s.get r = some ro → ro.kind = .ref t → ro.parent = some q → rk q < rk t
  nullMin : ∀ (n x : Nat) o, s.nullCtx = some n → s.get x = some o → x ≠ n → rk n < rk x

/-- the part of an object the structural invariants look at -/
def Obj.shape (o : Obj) : Option Id × List Id × List Id × Kind × Bool × Dtor :=
  (o.parent, o.children, o.refs, o.kind, o.pending, o.dtor)

def ShapeEq (s s' : State) : Prop :=
  s'.nullCtx = s.nullCtx ∧ ∀ j : Nat, (s'.get j).map Obj.shape = (s.get j).map Obj.shape

theorem ShapeEq.refl (s : State) : ShapeEq s s := ⟨rfl, fun _ => rfl⟩
theorem ShapeEq.trans {a b c : State} (h1 : ShapeEq a b) (h2 : ShapeEq b c) : ShapeEq a c :=
  ⟨h2.1.trans h1.1, fun j => (h2.2 j).trans (h1.2 j)⟩
theorem ShapeEq.symm {a b : State} (h : ShapeEq a b) : ShapeEq b a :=
  ⟨h.1.symm, fun j => (h.2 j).symm⟩

theorem ShapeEq.get {s s' : State} (h : ShapeEq s s') {j : Nat} {o : Obj} (hj : s.get j = some o) :
    ∃ o', s'.get j = some o' ∧ o'.parent = o.parent ∧ o'.children = o.children ∧ o'.refs = o.refs ∧
      o'.kind = o.kind ∧ o'.pending = o.pending ∧ o'.dtor = o.dtor := by
  have := h.2 j
  rw [hj] at this
  cases h' : s'.get j with
  | none => rw [h'] at this; cases this
  | some o' =>
    rw [h'] at this
    simp only [Option.map, Obj.shape, Option.some.injEq, Prod.mk.injEq] at this
    exact ⟨o', rfl, this.1, this.2.1, this.2.2.1, this.2.2.2.1, this.2.2.2.2.1, this.2.2.2.2.2⟩

theorem ShapeEq.isPlainAt {s s' : State} (h : ShapeEq s s') (a : Nat) : isPlainAt s a → isPlainAt s' a := by
  rintro ⟨ao, h1, h2⟩
  obtain ⟨o', h3, -, -, -, h4, -, -⟩ := h.get h1
  exact ⟨o', h3, h4 ▸ h2⟩

theorem WFp.shapeEq {s s' : State} (h : ShapeEq s s') (w : WFp s) : WFp s' := by
  have hs := h.symm
  constructor
  · intro x o p hx hp
    obtain ⟨o0, h0, e1, -, -, -, e5, -⟩ := hs.get hx
    obtain ⟨po, h1, hk, h2⟩ := w.parentLive x o0 p h0 (e1 ▸ hp)
    obtain ⟨po', h3, -, e2, -, e4, -, -⟩ := h.get h1
    exact ⟨po', h3, e4 ▸ hk, by rw [e2, ← e5]; exact h2⟩
  · intro x o c hx hc
    obtain ⟨o0, h0, -, e2, -, -, -, -⟩ := hs.get hx
    obtain ⟨co, h1, h2, h3⟩ := w.childBack x o0 c h0 (e2 ▸ hc)
    obtain ⟨co', h4, e1, -, -, -, e5, -⟩ := h.get h1
    exact ⟨co', h4, e1 ▸ h2, e5 ▸ h3⟩
  · intro x o hx
    obtain ⟨o0, h0, -, e2, -, -, -, -⟩ := hs.get hx
    exact e2 ▸ w.childNodup x o0 h0
  · intro x o r hx hr
    obtain ⟨o0, h0, -, -, e3, -, -, -⟩ := hs.get hx
    obtain ⟨ro, h1, h2⟩ := w.refLive x o0 r h0 (e3 ▸ hr)
    obtain ⟨ro', h4, -, -, -, e4, -, -⟩ := h.get h1
    exact ⟨ro', h4, e4 ▸ h2⟩
  · intro x o hx
    obtain ⟨o0, h0, -, -, e3, -, -, -⟩ := hs.get hx
    exact e3 ▸ w.refNodup x o0 h0
  · intro r ro t hr hk
    obtain ⟨o0, h0, -, -, -, e4, -, -⟩ := hs.get hr
    obtain ⟨tb, h1, h2⟩ := w.refBack r o0 t h0 (e4 ▸ hk)
    obtain ⟨tb', h4, -, -, e3, -, -, -⟩ := h.get h1
    exact ⟨tb', h4, e3 ▸ h2⟩
  · intro r ro hr hk
    obtain ⟨o0, h0, -, e2, e3, e4, e5, e6⟩ := hs.get hr
    have := w.leaf r o0 h0 (e4 ▸ hk)
    rw [e2, e3, e5, e6] at this
    exact this
  · intro x o hx hp
    obtain ⟨o0, h0, -, -, e3, -, e5, -⟩ := hs.get hx
    exact e3 ▸ w.pendingNoRefs x o0 h0 (e5 ▸ hp)
  · intro x o hx
    obtain ⟨o0, h0, -, e2, -, -, -, -⟩ := hs.get hx
    have := w.order x o0 h0
    rw [e2] at this
    exact this.imp (fun {a b} hab (ha : isPlainAt s' a) => h.isPlainAt b (hab (hs.isPlainAt a ha)))
  · intro n hn
    obtain ⟨nb, h1, h2, h3, h4, h5⟩ := w.nullOK n (h.1 ▸ hn)
    obtain ⟨nb', h6, e1, -, e3, e4, e5, -⟩ := h.get h1
    exact ⟨nb', h6, e4 ▸ h2, e5 ▸ h3, e1 ▸ h4, e3 ▸ h5⟩

theorem Ranked.shapeEq {rk : Nat → Nat} {s s' : State} (h : ShapeEq s s') (w : Ranked rk s) :
    Ranked rk s' := by
  have hs := h.symm
  constructor
  · intro x o p hx hp
    obtain ⟨o0, h0, e1, -, -, -, -, -⟩ := hs.get hx
    exact w.parentLt x o0 p h0 (e1 ▸ hp)
  · intro r ro t q hr hk hq
    obtain ⟨o0, h0, e1, -, -, e4, -, -⟩ := hs.get hr
    exact w.refLt r o0 t q h0 (e4 ▸ hk) (e1 ▸ hq)
  · intro n x o hn hx hne
    obtain ⟨o0, h0, -⟩ := hs.get hx
    exact w.nullMin n x o0 (h.1 ▸ hn) h0 hne


/-- the tree part of the structural invariant (what the memlimit accounting relies on) -/
structure WFt (s : State) : Prop where
  parentLive : ∀ (x : Nat) o p, s.get x = some o → o.parent = some p →
      ∃ po, s.get p = some po ∧ po.kind = .plain ∧ (x ∈ po.children ∨ o.pending = true)
  childBack : ∀ (x : Nat) o c, s.get x = some o → c ∈ o.children →
      ∃ co, s.get c = some co ∧ co.parent = some x ∧ co.pending = false
  childNodup : ∀ (x : Nat) o, s.get x = some o → o.children.Nodup
  leaf : ∀ (r : Nat) ro, s.get r = some ro → ro.kind ≠ .plain →
      ro.children = [] ∧ ro.refs = [] ∧ ro.dtor = .none ∧ ro.pending = false

theorem WFp.tree {s : State} (w : WFp s) : WFt s := ⟨w.parentLive, w.childBack, w.childNodup, w.leaf⟩

/-- the fields the tree part looks at (reference lists of plain objects are not among them) -/
def Obj.tshape (o : Obj) : Option Id × List Id × Kind × Bool × Dtor × List Id :=
  (o.parent, o.children, o.kind, o.pending, o.dtor, if o.kind = .plain then [] else o.refs)

theorem WFt.congr {s s' : State} (h : ∀ j : Nat, (s'.get j).map Obj.tshape = (s.get j).map Obj.tshape)
    (w : WFt s) : WFt s' := by
  have hg : ∀ {j : Nat} {o' : Obj}, s'.get j = some o' → ∃ o, s.get j = some o ∧ o'.tshape = o.tshape := by
    intro j o' hj
    have := h j
    rw [hj] at this
    cases h2 : s.get j with
    | none => rw [h2] at this; cases this
    | some o => rw [h2] at this; simp only [Option.map_some, Option.some.injEq] at this; exact ⟨o, rfl, this⟩
  have hg' : ∀ {j : Nat} {o : Obj}, s.get j = some o → ∃ o', s'.get j = some o' ∧ o'.tshape = o.tshape := by
    intro j o hj
    have := h j
    rw [hj] at this
    cases h2 : s'.get j with
    | none => rw [h2] at this; cases this
    | some o' => rw [h2] at this; simp only [Option.map_some, Option.some.injEq] at this; exact ⟨o', rfl, this⟩
  constructor
  · intro x o p hx hp
    obtain ⟨o0, h0, e⟩ := hg hx
    simp only [Obj.tshape, Prod.mk.injEq] at e
    obtain ⟨po, h1, hk, h2⟩ := w.parentLive x o0 p h0 (e.1 ▸ hp)
    obtain ⟨po', h3, e'⟩ := hg' h1
    simp only [Obj.tshape, Prod.mk.injEq] at e'
    exact ⟨po', h3, by rw [e'.2.2.1]; exact hk, by rw [e'.2.1, e.2.2.2.1]; exact h2⟩
  · intro x o c hx hc
    obtain ⟨o0, h0, e⟩ := hg hx
    simp only [Obj.tshape, Prod.mk.injEq] at e
    obtain ⟨co, h1, h2, h3⟩ := w.childBack x o0 c h0 (e.2.1 ▸ hc)
    obtain ⟨co', h4, e'⟩ := hg' h1
    simp only [Obj.tshape, Prod.mk.injEq] at e'
    exact ⟨co', h4, by rw [e'.1]; exact h2, by rw [e'.2.2.2.1]; exact h3⟩
  · intro x o hx
    obtain ⟨o0, h0, e⟩ := hg hx
    simp only [Obj.tshape, Prod.mk.injEq] at e
    rw [e.2.1]; exact w.childNodup x o0 h0
  · intro r ro hr hk
    obtain ⟨o0, h0, e⟩ := hg hr
    simp only [Obj.tshape, Prod.mk.injEq] at e
    have hk0 : o0.kind ≠ .plain := by rw [← e.2.2.1]; exact hk
    obtain ⟨a1, a2, a3, a4⟩ := w.leaf r o0 h0 hk0
    have er := e.2.2.2.2.2
    simp only [hk, hk0, if_false] at er
    exact ⟨by rw [e.2.1]; exact a1, by rw [er]; exact a2, by rw [e.2.2.2.2.1]; exact a3,
      by rw [e.2.2.2.1]; exact a4⟩

theorem WFt.shapeEq {s s' : State} (h : ShapeEq s s') (w : WFt s) : WFt s' := by
  apply WFt.congr _ w
  intro j
  have := h.2 j
  cases h1 : s'.get j <;> cases h2 : s.get j <;> rw [h1, h2] at this <;> simp [Obj.shape] at this ⊢
  obtain ⟨e1, e2, e3, e4, e5, e6⟩ := this
  simp [Obj.tshape, e1, e2, e3, e4, e5, e6]

end Usual.C01
