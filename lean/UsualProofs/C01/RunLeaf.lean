import UsualProofs.C01.Flags
/-! `_talloc_free` on a TRef / `.memlimit` chunk, and the begin/end steps of a free, described
structurally. -/
set_option linter.unusedSimpArgs false
set_option linter.unusedVariables false
namespace Usual.C01

theorem childrenOf_eq {s : State} {o : Nat} {ob : Obj} (h : s.get o = some ob) : childrenOf s o = ob.children := by
  simp only [childrenOf, h]

theorem shapeEq_get_eq {a b : State} (hn : b.nullCtx = a.nullCtx) (h : ∀ j : Nat, b.get j = a.get j) : ShapeEq a b :=
  ⟨hn, fun j => by rw [h j]⟩

theorem freeEnd_some (cfg : Cfg) (s3 : State) (o : Nat) (ob3 : Obj) (h : s3.get o = some ob3) :
    (freeEnd cfg s3 o).2 = 0 ∧ ShapeEq (s3.remove o) (freeEnd cfg s3 o).1 ∧
    ((freeEnd cfg s3 o).1.stuck = false → ob3.children = []) := by
  unfold freeEnd
  simp only [h]
  refine ⟨trivial, ?_, ?_⟩
  · refine ShapeEq.trans ?_ (applyLim_getD_shapeEq _ _ _ _ _ _)
    refine ShapeEq.trans ?_ (shapeEq_addLog _ _)
    split
    · exact ShapeEq.refl _
    · exact shapeEq_remove (shapeEq_setStuck s3) o
  · intro hst
    by_cases hc : ob3.children.isEmpty
    · simpa using hc
    · exfalso
      have : (((if ob3.children.isEmpty = true then s3 else s3.setStuck).remove o).addLog (.release o)).stuck = true := by
        simp [hc]
      have h2 := (applyLim_getD_flagsLe cfg
        (((if ob3.children.isEmpty = true then s3 else s3.setStuck).remove o).addLog (.release o)).fuel
        (((if ob3.children.isEmpty = true then s3 else s3.setStuck).remove o).addLog (.release o))
        ob3.parent (-(totalSize ob3.size : Int)) false).2 this
      rw [h2] at hst; cases hst

theorem run_loop_none_get (cfg : Cfg) (f : Nat) (s : State) (o : Nat) (fn : Bool) :
    (∀ j : Nat, (run cfg f s (.loop o fn none)).1.get j = s.get j) ∧
    (run cfg f s (.loop o fn none)).1.nullCtx = s.nullCtx := by
  cases f with
  | zero => simp [run]
  | succ f => simp [run]

/-- the state after `freeBegin` on a leaf chunk: it is pending, everything else as in `freeLeafS`
before the removal -/
theorem freeBegin_leaf_get (a : State) (r : Nat) (rb : Obj) (hr : a.get r = some rb)
    (hk : rb.kind ≠ .plain) (ht : ∀ t, rb.kind = .ref t → t ≠ r) (hpr : rb.parent ≠ some r) (j : Nat) :
    (freeBegin a r rb .none false).get j =
      if j = r then some { rb with dtor := .none, pending := true }
      else ((detach (match rb.kind with
        | .ref t => a.modify t fun x => { x with refs := x.refs.erase r }
        | _ => a) r)).get j := by
  unfold freeBegin
  simp only [Bool.false_eq_true, if_false]
  cases hkind : rb.kind with
  | plain => exact absurd hkind hk
  | limit =>
    simp only []
    have h0 : (a.modify r fun x => { x with dtor := .none, pending := true }).get r =
        some { rb with dtor := .none, pending := true } := by simp [hr]
    cases hpar : rb.parent with
    | none =>
      rw [detach_eq_none h0 (by simpa using hpar), detach_eq_none hr hpar]
      by_cases hj : j = r
      · subst hj; simp [hr, hpar, hkind]
      · simp [hj, Ne.symm hj]
    | some p =>
      have hpr' : p ≠ r := fun e => hpr (by rw [hpar, e])
      rw [detach_eq_some h0 (by simpa using hpar), detach_eq_some hr hpar]
      by_cases hj : j = r
      · subst hj; simp [hr, hpr', hpar, hkind]
      · simp [hj, Ne.symm hj]
  | ref t =>
    simp only []
    have htr := ht t hkind
    have h0 : ((a.modify r fun x => { x with dtor := .none, pending := true }).modify t
        fun x => { x with refs := x.refs.erase r }).get r =
        some { rb with dtor := .none, pending := true } := by simp [hr, htr]
    have h1 : (a.modify t fun x => { x with refs := x.refs.erase r }).get r = some rb := by
      simp [hr, htr]
    cases hpar : rb.parent with
    | none =>
      rw [detach_eq_none h0 (by simpa using hpar), detach_eq_none h1 hpar]
      by_cases hj : j = r
      · subst hj; simp [hr, htr, hpar, hkind]
      · simp [hj, Ne.symm hj]
    | some p =>
      have hpr' : p ≠ r := fun e => hpr (by rw [hpar, e])
      rw [detach_eq_some h0 (by simpa using hpar), detach_eq_some h1 hpar]
      by_cases hj : j = r
      · subst hj; simp [hr, hpr', htr, hpar, hkind]
      · by_cases hjt : t = j
        · subst hjt; simp [hj, Ne.symm hj]
        · simp [hj, Ne.symm hj, hjt]

/-- the state after `freeBegin` on a leaf chunk, then an (immediately finished) child loop, then
`freeEnd`, has the shape of `freeLeafS` -/
theorem run_free_leaf (cfg : Cfg) (f : Nat) (a : State) (r : Nat) (rb : Obj) (hr : a.get r = some rb)
    (hk : rb.kind ≠ .plain) (hc : rb.children = []) (hrf : rb.refs = []) (hp : rb.pending = false)
    (hd : rb.dtor = .none) (ht : ∀ t, rb.kind = .ref t → t ≠ r) (hpr : rb.parent ≠ some r) :
    (run cfg (f + 1) a (.free r)).2 = 0 ∧ ShapeEq (freeLeafS a r) (run cfg (f + 1) a (.free r)).1 := by
  simp only [run, hr, hrf, hp, hd, dtorStep, ne_eq, not_true_eq_false, if_false, Bool.false_eq_true]
  -- the state after freeBegin: r is pending, otherwise as in freeLeafS before the removal
  have hb := freeBegin_leaf_get a r rb hr hk ht hpr
  have hbn : (freeBegin a r rb .none false).nullCtx = a.nullCtx := by
    unfold freeBegin; simp only [Bool.false_eq_true, if_false, nullCtx_detach]; split <;> simp
  have hch : childrenOf (freeBegin a r rb .none false) r = [] := by
    rw [childrenOf_eq (ob := { rb with dtor := .none, pending := true }) (by rw [hb]; simp)]; exact hc
  rw [hch]
  simp only [List.head?_nil]
  obtain ⟨hl, hln⟩ := run_loop_none_get cfg f (freeBegin a r rb .none false) r true
  have h3 : (run cfg f (freeBegin a r rb .none false) (.loop r true none)).1.get r =
      some { rb with dtor := .none, pending := true } := by rw [hl, hb]; simp
  obtain ⟨e1, e2, -⟩ := freeEnd_some cfg _ r _ h3
  refine ⟨e1, ShapeEq.trans ?_ e2⟩
  refine ⟨?_, fun j => ?_⟩
  · simp only [nullCtx_remove, hln, hbn, nullCtx_freeLeafS]
  · unfold freeLeafS
    simp only [hr, get_remove, hl, hb]
    by_cases hj : r = j
    · simp [hj]
    · simp only [hj, Ne.symm hj, if_false]
      cases rb.kind <;> rfl

end Usual.C01
