import UsualProofs.C01.AcctDel
/-! Subtrees along parent pointers: decomposition over the child list, used to relate the top-down
`memlimit_walk` to the bottom-up charge sums. -/
set_option linter.unusedSimpArgs false
set_option linter.unusedVariables false
namespace Usual.C01
open Finset

/-- `y` is `t` or beneath `t` -/
def InSub (s : State) (t y : Nat) : Prop := y = t ∨ Anc s t y

/-- two ancestors of the same chunk are comparable -/
theorem Anc.comparable {s : State} {a b y : Nat} (h1 : Anc s a y) (h2 : Anc s b y) :
    a = b ∨ Anc s a b ∨ Anc s b a := by
  induction h1 generalizing b with
  | @parent x p hp =>
    obtain ⟨p2, hp2, hor⟩ := h2.cases_parent
    rw [hp] at hp2; cases hp2
    rcases hor with rfl | hor
    · exact Or.inl rfl
    · exact Or.inr (Or.inr hor)
  | @up x p a hp ha ih =>
    obtain ⟨p2, hp2, hor⟩ := h2.cases_parent
    rw [hp] at hp2; cases hp2
    rcases hor with rfl | hor
    · exact Or.inr (Or.inl ha)
    · exact ih hor

theorem Anc.irrefl {rk : Nat → Nat} {s : State} (wr : Ranked rk s) {a : Nat} : ¬ Anc s a a := by
  intro h; have := h.rank wr; omega

/-- beneath `t` = beneath-or-equal one of the children of `t` (nothing pending in between) -/
theorem anc_iff_child {s : State} (w : WFt s) (t : Nat) (tb : Obj) (ht : s.get t = some tb) (y : Nat)
    (hnp : ∀ z zb, InSub s t z → s.get z = some zb → zb.pending = false) :
    Anc s t y ↔ ∃ c ∈ tb.children, InSub s c y := by
  constructor
  · intro h
    induction h with
    | @parent x p hp =>
      obtain ⟨xb, hx, hpp⟩ := parentOf_some hp
      obtain ⟨pb, hpb, -, hm⟩ := w.parentLive x xb p hx hpp
      rw [ht] at hpb; cases hpb
      rcases hm with hm | hm
      · exact ⟨x, hm, Or.inl rfl⟩
      · rw [hnp x xb (Or.inr (Anc.parent hp)) hx] at hm; cases hm
    | @up x p a hp ha ih =>
      obtain ⟨c, hc, hin⟩ := ih ht (fun z zb hz => hnp z zb hz)
      refine ⟨c, hc, Or.inr ?_⟩
      rcases hin with rfl | hin
      · exact Anc.parent hp
      · exact Anc.up hp hin
  · rintro ⟨c, hc, hin⟩
    obtain ⟨cb, hcb, hcp, -⟩ := w.childBack t tb c ht hc
    have h1 : Anc s t c := Anc.parent (by rw [parentOf_eq hcb]; exact hcp)
    rcases hin with rfl | hin
    · exact h1
    · exact h1.trans hin

/-- the subtrees of two different children are disjoint -/
theorem sub_disjoint {rk : Nat → Nat} {s : State} (i : InvT rk s) (t : Nat) (tb : Obj) (ht : s.get t = some tb)
    (c1 c2 : Nat) (h1 : c1 ∈ tb.children) (h2 : c2 ∈ tb.children) (hne : c1 ≠ c2) (y : Nat) :
    ¬ (InSub s c1 y ∧ InSub s c2 y) := by
  rintro ⟨a1, a2⟩
  obtain ⟨b1, hb1, hp1, -⟩ := i.wf.childBack t tb c1 ht h1
  obtain ⟨b2, hb2, hp2, -⟩ := i.wf.childBack t tb c2 ht h2
  have hpo1 : parentOf s c1 = some t := by rw [parentOf_eq hb1]; exact hp1
  have hpo2 : parentOf s c2 = some t := by rw [parentOf_eq hb2]; exact hp2
  -- c1 above c2 is impossible: the parent of c2 is t, and t is above c1
  have habove : ∀ a b, parentOf s a = some t → parentOf s b = some t → Anc s a b → False := by
    intro a b ha hb hab
    obtain ⟨p, hp, hor⟩ := hab.cases_parent
    rw [hb] at hp; cases hp
    rcases hor with rfl | hor
    · exact Anc.irrefl i.ranked (Anc.parent ha)
    · exact Anc.irrefl i.ranked ((Anc.parent ha).trans hor)
  rcases a1 with rfl | a1 <;> rcases a2 with rfl | a2
  · exact hne rfl
  · exact habove _ _ hpo2 hpo1 a2
  · exact habove _ _ hpo1 hpo2 a1
  · rcases Anc.comparable a1 a2 with h | h | h
    · exact hne h
    · exact habove _ _ hpo1 hpo2 h
    · exact habove _ _ hpo2 hpo1 h


open Classical in
theorem list_indicator_sum (L : List Nat) (P : Nat → Prop) (v : Nat)
    (hex : ∀ a ∈ L, ∀ b ∈ L, a ≠ b → ¬ (P a ∧ P b)) (hnd : L.Nodup) :
    (L.map fun c => if P c then v else 0).sum = if ∃ c ∈ L, P c then v else 0 := by
  induction L with
  | nil => simp
  | cons a L ih =>
    have hnd' := List.nodup_cons.1 hnd
    have ih' := ih (fun x hx y hy => hex x (List.mem_cons_of_mem _ hx) y (List.mem_cons_of_mem _ hy)) hnd'.2
    simp only [List.map_cons, List.sum_cons, ih']
    by_cases ha : P a
    · have hno : ¬ ∃ c ∈ L, P c := by
        rintro ⟨c, hc, hpc⟩
        exact hex a List.mem_cons_self c (List.mem_cons_of_mem _ hc) (fun e => hnd'.1 (e ▸ hc)) ⟨ha, hpc⟩
      rw [if_pos ha, if_neg hno, if_pos ⟨a, List.mem_cons_self, ha⟩]; rfl
    · rw [if_neg ha, Nat.zero_add]
      by_cases hL : ∃ c ∈ L, P c
      · obtain ⟨c, hc, hpc⟩ := hL
        rw [if_pos ⟨c, hc, hpc⟩, if_pos ⟨c, List.mem_cons_of_mem _ hc, hpc⟩]
      · rw [if_neg hL, if_neg]
        rintro ⟨c, hc, hpc⟩
        rcases List.mem_cons.1 hc with rfl | hc'
        · exact ha hpc
        · exact hL ⟨c, hc', hpc⟩

theorem sum_list_comm (n : Nat) (L : List Nat) (F : Nat → Nat → Nat) :
    ∑ y ∈ range n, (L.map fun c => F c y).sum = (L.map fun c => ∑ y ∈ range n, F c y).sum := by
  induction L with
  | nil => simp
  | cons a L ih => simp only [List.map_cons, List.sum_cons, Finset.sum_add_distrib, ih]

open Classical in
/-- a sum over the subtree of `t` = the term of `t` + the sums over the subtrees of its children -/
theorem sum_sub_decomp {rk : Nat → Nat} {s : State} (i : InvT rk s) (t : Nat) (tb : Obj) (ht : s.get t = some tb)
    (hnp : ∀ z zb, InSub s t z → s.get z = some zb → zb.pending = false) (g : Nat → Nat) :
    ∑ y ∈ range s.heap.length, (if InSub s t y then g y else 0) =
      g t + (tb.children.map fun c => ∑ y ∈ range s.heap.length, if InSub s c y then g y else 0).sum := by
  rw [← sum_list_comm]
  have htl : t < s.heap.length := lt_of_get s t tb ht
  -- pointwise
  have hpt : ∀ y ∈ range s.heap.length, (if InSub s t y then g y else 0) =
      (if y = t then g t else 0) + (tb.children.map fun c => if InSub s c y then g y else 0).sum := by
    intro y _
    rw [list_indicator_sum tb.children (fun c => InSub s c y) (g y)
      (fun a ha b hb hne => sub_disjoint i t tb ht a b ha hb hne y) (i.wf.childNodup t tb ht)]
    by_cases hyt : y = t
    · have hno : ¬ ∃ c ∈ tb.children, InSub s c y := by
        intro h
        rw [hyt] at h
        exact Anc.irrefl i.ranked ((anc_iff_child i.wf t tb ht t hnp).2 h)
      subst hyt
      have hin : InSub s y y := Or.inl rfl
      rw [if_pos hin, if_pos rfl, if_neg hno, Nat.add_zero]
    · rw [if_neg hyt, Nat.zero_add]
      have hiff : InSub s t y ↔ ∃ c ∈ tb.children, InSub s c y := by
        constructor
        · rintro (h | h)
          · exact absurd h hyt
          · exact (anc_iff_child i.wf t tb ht y hnp).1 h
        · intro h; exact Or.inr ((anc_iff_child i.wf t tb ht y hnp).2 h)
      by_cases hin : InSub s t y
      · rw [if_pos hin, if_pos (hiff.1 hin)]
      · rw [if_neg hin, if_neg (fun h => hin (hiff.2 h))]
  rw [Finset.sum_congr rfl hpt, Finset.sum_add_distrib]
  congr 1
  rw [Finset.sum_eq_single_of_mem t (Finset.mem_range.2 htl)]
  · simp
  · intro b _ hb; simp [hb]

end Usual.C01
