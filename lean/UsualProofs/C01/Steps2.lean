import UsualProofs.C01.Steps
/-! Preservation of the structural invariant: moves and allocations. -/
set_option linter.unusedSimpArgs false
set_option linter.unusedVariables false
namespace Usual.C01

/-- structural part of `move_child(t, tnew, told)` -/
def moveS (s : State) (t : Nat) (tnew : Option Id) (front : Bool) : State :=
  (addChild (detach s t) tnew t front).modify t fun x => { x with parent := tnew }

theorem moveS_get {s : State} {t : Nat} {tb : Obj} (ht : s.get t = some tb) (tnew : Option Id) (front : Bool)
    (hne : tnew ≠ tb.parent) (hself : tnew ≠ some t) (hself' : tb.parent ≠ some t) (j : Nat) :
    (moveS s t tnew front).get j =
      if j = t then some { tb with parent := tnew }
      else if tb.parent = some j then (s.get j).map fun po => { po with children := po.children.erase t }
      else if tnew = some j then (s.get j).map fun po =>
        { po with children := if front then t :: po.children else po.children ++ [t] }
      else s.get j := by
  unfold moveS addChild
  cases hp : tb.parent with
  | none =>
    rw [detach_eq_none ht hp]
    cases hq : tnew with
    | none => simp [hq, hp] at hne
    | some q =>
      simp only [get_modify]
      by_cases h1 : j = t
      · subst h1
        have : q ≠ j := fun e => hself (by rw [hq, e])
        simp [this, ht, hp]
      · by_cases h2 : q = j
        · subst h2; simp [h1, Ne.symm h1]
        · simp [h1, Ne.symm h1, h2, Ne.symm h2]
  | some p =>
    rw [detach_eq_some ht hp]
    have hpt : p ≠ t := fun e => hself' (by rw [hp, e])
    cases hq : tnew with
    | none =>
      simp only [get_modify]
      by_cases h1 : j = t
      · subst h1; simp [hpt, ht, hp]
      · by_cases h2 : p = j
        · subst h2; simp [h1, Ne.symm h1]
        · simp [h1, Ne.symm h1, h2, Ne.symm h2]
    | some q =>
      have hqt : q ≠ t := fun e => hself (by rw [hq, e])
      have hqp : q ≠ p := fun e => hne (by rw [hq, hp, e])
      simp only [get_modify]
      by_cases h1 : j = t
      · subst h1; simp [hpt, hqt, ht, hp]
      · by_cases h2 : p = j
        · subst h2; simp [h1, Ne.symm h1, hqp]
        · by_cases h3 : q = j
          · subst h3; simp [h1, Ne.symm h1, h2, Ne.symm h2]
          · simp [h1, Ne.symm h1, h2, Ne.symm h2, h3, Ne.symm h3]

/-- a move to the parent the object already has: it goes to the end (front for a TRef) -/
theorem moveS_same_get {s : State} {t : Nat} {tb : Obj} (ht : s.get t = some tb) (p : Nat) (front : Bool)
    (hp : tb.parent = some p) (hself' : p ≠ t) (j : Nat) :
    (moveS s t (some p) front).get j =
      if j = t then some tb
      else if p = j then (s.get j).map fun po =>
        { po with children := if front then t :: po.children.erase t else po.children.erase t ++ [t] }
      else s.get j := by
  unfold moveS addChild
  rw [detach_eq_some ht hp]
  simp only [get_modify]
  by_cases h1 : j = t
  · subst h1; simp [hself', ht, hp]
    cases tb; simp_all
  · by_cases h2 : p = j
    · subst h2; simp [h1, Ne.symm h1]; cases s.get p <;> simp
    · simp [h1, Ne.symm h1, h2, Ne.symm h2]

/-- general form (also for a move to the parent the object already has) -/
theorem moveS_getG {s : State} {t : Nat} {tb : Obj} (ht : s.get t = some tb) (tnew : Option Id) (front : Bool)
    (hself : tnew ≠ some t) (hself' : tb.parent ≠ some t) (j : Nat) :
    (moveS s t tnew front).get j =
      if j = t then some { tb with parent := tnew }
      else (s.get j).map fun po =>
        { po with children :=
            if tnew = some j then
              (if front then t :: (if tb.parent = some j then po.children.erase t else po.children)
               else (if tb.parent = some j then po.children.erase t else po.children) ++ [t])
            else (if tb.parent = some j then po.children.erase t else po.children) } := by
  unfold moveS addChild
  cases hp : tb.parent with
  | none =>
    rw [detach_eq_none ht hp]
    cases hq : tnew with
    | none =>
      simp only [get_modify]
      by_cases h1 : j = t
      · subst h1; simp [ht, hp]
      · simp [h1, Ne.symm h1]
    | some q =>
      simp only [get_modify]
      by_cases h1 : j = t
      · subst h1
        have : q ≠ j := fun e => hself (by rw [hq, e])
        simp [this, ht, hp]
      · by_cases h2 : q = j
        · subst h2; simp [h1, Ne.symm h1]
        · simp [h1, Ne.symm h1, h2, Ne.symm h2]
  | some p =>
    rw [detach_eq_some ht hp]
    have hpt : p ≠ t := fun e => hself' (by rw [hp, e])
    cases hq : tnew with
    | none =>
      simp only [get_modify]
      by_cases h1 : j = t
      · subst h1; simp [hpt, ht, hp]
      · by_cases h2 : p = j
        · subst h2; simp [h1, Ne.symm h1]
        · simp [h1, Ne.symm h1, h2, Ne.symm h2]
    | some q =>
      have hqt : q ≠ t := fun e => hself (by rw [hq, e])
      simp only [get_modify]
      by_cases h1 : j = t
      · subst h1; simp [hpt, hqt, ht, hp]
      · by_cases h2 : p = j
        · subst h2
          by_cases h3 : q = p
          · subst h3; simp [h1, Ne.symm h1]; cases s.get q <;> simp
          · simp [h1, Ne.symm h1, h3]
        · by_cases h3 : q = j
          · subst h3; simp [h1, Ne.symm h1, h2, Ne.symm h2]
          · simp [h1, Ne.symm h1, h2, Ne.symm h2, h3, Ne.symm h3]

theorem nullCtx_moveS (s : State) (t : Nat) (tnew : Option Id) (front : Bool) :
    (moveS s t tnew front).nullCtx = s.nullCtx := by
  unfold moveS; simp

theorem moveS_wf {s : State} {t : Nat} {tb : Obj} (w : WFp s) (ht : s.get t = some tb) (tnew : Option Id)
    (hnp : tb.pending = false) (hk : tb.kind ≠ .limit)
    (hne : tnew ≠ tb.parent) (hself : tnew ≠ some t) (hself' : tb.parent ≠ some t)
    (hq : ∀ q, tnew = some q → ∃ qb, s.get q = some qb ∧ qb.kind = .plain)
    (hnull : s.nullCtx ≠ some t) : WFp (moveS s t tnew (isRef tb)) := by
  have ⟨h1, h2, h3, h4, h5, h6, h7, h8, h9, h10⟩ := w
  have hg := moveS_get ht tnew (isRef tb) hne hself hself'
  have hk' : ∀ a, isPlainAt (moveS s t tnew (isRef tb)) a ↔ isPlainAt s a := by
    apply isPlainAt_of_kinds; intro j; rw [hg]
    by_cases h : j = t
    · subst h; simp [ht]
    · simp only [h, if_false]; split
      · cases s.get j <;> simp
      · split <;> cases s.get j <;> simp
  -- t is in no child list but its parent's
  have hmem : ∀ (y : Nat) yo, s.get y = some yo → t ∈ yo.children → tb.parent = some y := by
    intro y yo hy hm
    obtain ⟨co, hco, hcp, -⟩ := h2 y yo t hy hm
    rw [ht] at hco; cases hco; exact hcp
  constructor
  · intro y o p hy hpp; rw [hg] at hy; rw [hg]; grind
  · intro y o c hy hc; rw [hg] at hy; rw [hg]; grind
  · intro y o hy; rw [hg] at hy; grind
  · intro y o r hy hc; rw [hg] at hy; rw [hg]; grind
  · intro y o hy; rw [hg] at hy; grind
  · intro y o r hy hc; rw [hg] at hy; rw [hg]; grind
  · intro y o hy hc; rw [hg] at hy; grind [isRef]
  · intro y o hy hc; rw [hg] at hy; grind
  · intro y o hy
    simp only [hk']
    rw [hg] at hy
    split at hy
    · cases hy; exact h9 t tb ht
    · split at hy
      · cases h' : s.get y with
        | none => rw [h'] at hy; cases hy
        | some po => rw [h'] at hy; cases hy; exact (h9 y po h').sublist List.erase_sublist
      · split at hy
        · cases h' : s.get y with
          | none => rw [h'] at hy; cases hy
          | some po =>
            rw [h'] at hy; cases hy
            have hp9 := h9 y po h'
            cases hir : isRef tb with
            | true =>
              simp only [if_true]
              refine List.Pairwise.cons ?_ hp9
              intro b _ ⟨ao, ha1, ha2⟩
              rw [ht] at ha1; cases ha1
              simp [isRef, ha2] at hir
            | false =>
              simp only [Bool.false_eq_true, if_false]
              rw [List.pairwise_append]
              refine ⟨hp9, List.pairwise_singleton _ _, ?_⟩
              intro a _ b hb _
              simp only [List.mem_singleton] at hb; subst hb
              refine ⟨tb, ht, ?_⟩
              cases hkk : tb.kind with
              | plain => rfl
              | limit => exact absurd hkk hk
              | ref tt => simp [isRef, hkk] at hir
        · exact h9 y o hy
  · intro n hn
    rw [nullCtx_moveS] at hn
    obtain ⟨nb, hb1, hb2, hb3, hb4, hb5⟩ := h10 n hn
    rw [hg]; grind


/-- the child list of `p` is reordered -/
theorem reorder_wf {s s' : State} {p : Nat} {pb : Obj} (l' : List Id) (w : WFp s) (hpb : s.get p = some pb)
    (hpk : pb.kind = .plain)
    (hn : s'.nullCtx = s.nullCtx)
    (hg : ∀ j : Nat, s'.get j = if j = p then some { pb with children := l' } else s.get j)
    (hmem : ∀ c, c ∈ l' ↔ c ∈ pb.children) (hnd : l'.Nodup)
    (hord : l'.Pairwise (fun a b => isPlainAt s a → isPlainAt s b)) : WFp s' := by
  have ⟨h1, h2, h3, h4, h5, h6, h7, h8, h9, h10⟩ := w
  have hk' : ∀ a, isPlainAt s' a ↔ isPlainAt s a := by
    apply isPlainAt_of_kinds; intro j; rw [hg]
    by_cases h : j = p
    · subst h; simp [hpb]
    · simp [h]
  constructor
  · intro y o q hy hpp; rw [hg] at hy; rw [hg]; grind
  · intro y o c hy hc; rw [hg] at hy; rw [hg]; grind
  · intro y o hy; rw [hg] at hy; grind
  · intro y o r hy hc; rw [hg] at hy; rw [hg]; grind
  · intro y o hy; rw [hg] at hy; grind
  · intro y o r hy hc; rw [hg] at hy; rw [hg]; grind
  · intro y o hy hc; rw [hg] at hy; grind
  · intro y o hy hc; rw [hg] at hy; grind
  · intro y o hy
    simp only [hk']
    rw [hg] at hy
    by_cases e : y = p
    · subst e; simp only [if_true, Option.some.injEq] at hy; subst hy; exact hord
    · simp only [e, if_false] at hy; exact h9 y o hy
  · intro n hnn
    rw [hn] at hnn
    obtain ⟨nb, hb1, hb2, hb3, hb4, hb5⟩ := h10 n hnn
    rw [hg]; grind

theorem moveS_same_wf {s : State} {t : Nat} {tb : Obj} (w : WFp s) (ht : s.get t = some tb) (p : Nat)
    (hp : tb.parent = some p) (hnp : tb.pending = false) (hk : tb.kind ≠ .limit) (hself' : p ≠ t) :
    WFp (moveS s t (some p) (isRef tb)) := by
  have ⟨h1, h2, h3, h4, h5, h6, h7, h8, h9, h10⟩ := w
  obtain ⟨pb, hpb, hpk, hpm⟩ := h1 t tb p ht hp
  have htm : t ∈ pb.children := by
    rcases hpm with h | h
    · exact h
    · simp [hnp] at h
  have hnd := h3 p pb hpb
  have hme : ∀ c, c ∈ pb.children.erase t ↔ c ≠ t ∧ c ∈ pb.children := fun c => hnd.mem_erase_iff
  have hne : t ∉ pb.children.erase t := fun h => ((hme t).1 h).1 rfl
  have hp9 := (h9 p pb hpb).sublist (List.erase_sublist (a := t))
  refine reorder_wf (if isRef tb then t :: pb.children.erase t else pb.children.erase t ++ [t]) w hpb hpk
    (nullCtx_moveS _ _ _ _) ?_ ?_ ?_ ?_
  · intro j
    rw [moveS_same_get ht p (isRef tb) hp hself']
    by_cases e1 : j = t
    · subst e1; simp [Ne.symm hself', ht]
    · by_cases e2 : p = j
      · subst e2; simp [e1, hpb]
      · simp [e1, e2, Ne.symm e2]
  · intro c
    cases isRef tb
    · simp only [Bool.false_eq_true, if_false, List.mem_append, List.mem_singleton, hme]
      constructor
      · rintro (⟨-, h⟩ | rfl)
        · exact h
        · exact htm
      · intro h; by_cases e : c = t
        · right; exact e
        · left; exact ⟨e, h⟩
    · simp only [if_true, List.mem_cons, hme]
      constructor
      · rintro (rfl | ⟨-, h⟩)
        · exact htm
        · exact h
      · intro h; by_cases e : c = t
        · left; exact e
        · right; exact ⟨e, h⟩
  · cases isRef tb
    · simp only [Bool.false_eq_true, if_false]
      rw [List.nodup_append]
      refine ⟨hnd.erase t, by simp, ?_⟩
      intro a ha b hb
      simp at hb; subst hb
      exact fun e => hne (e ▸ ha)
    · simp only [if_true]; exact List.nodup_cons.2 ⟨hne, hnd.erase t⟩
  · cases hir : isRef tb with
    | true =>
      simp only [if_true]
      refine List.Pairwise.cons ?_ hp9
      intro b _ ⟨ao, ha1, ha2⟩
      rw [ht] at ha1; cases ha1
      simp [isRef, ha2] at hir
    | false =>
      simp only [Bool.false_eq_true, if_false]
      rw [List.pairwise_append]
      refine ⟨hp9, List.pairwise_singleton _ _, ?_⟩
      intro a _ b hb _
      simp only [List.mem_singleton] at hb; subst hb
      refine ⟨tb, ht, ?_⟩
      cases hkk : tb.kind with
      | plain => rfl
      | limit => exact absurd hkk hk
      | ref tt => simp [isRef, hkk] at hir

theorem moveS_same_ranked {rk : Nat → Nat} {s : State} {t : Nat} {tb : Obj} (wr : Ranked rk s)
    (ht : s.get t = some tb) (p : Nat) (front : Bool) (hp : tb.parent = some p) (hself' : p ≠ t) :
    Ranked rk (moveS s t (some p) front) := by
  refine wr.mono (nullCtx_moveS _ _ _ _) ?_
  intro j o' hj
  rw [moveS_same_get ht p front hp hself'] at hj
  by_cases e1 : j = t
  · subst e1; simp only [if_true, Option.some.injEq] at hj; subst hj; exact ⟨_, ht, rfl, rfl⟩
  · simp only [e1, if_false] at hj
    split at hj
    · obtain ⟨o0, h0, rfl⟩ := Option.map_eq_some_iff.1 hj; exact ⟨o0, h0, rfl, rfl⟩
    · exact ⟨o', hj, rfl, rfl⟩

theorem moveS_ranked {rk : Nat → Nat} {s : State} {t : Nat} {tb : Obj} (wr : Ranked rk s)
    (ht : s.get t = some tb) (tnew : Option Id) (front : Bool)
    (hne : tnew ≠ tb.parent) (hself : tnew ≠ some t) (hself' : tb.parent ≠ some t)
    (hrk : ∀ q, tnew = some q → rk q < rk t ∧ ∀ tt, tb.kind = .ref tt → rk q < rk tt) :
    Ranked rk (moveS s t tnew front) := by
  have ⟨h1, h2, h3⟩ := wr
  have hg := moveS_get ht tnew front hne hself hself'
  have hcase : ∀ (y : Nat) o, (moveS s t tnew front).get y = some o →
      (y = t ∧ o.parent = tnew ∧ o.kind = tb.kind) ∨
      (y ≠ t ∧ ∃ o0, s.get y = some o0 ∧ o0.parent = o.parent ∧ o0.kind = o.kind) := by
    intro y o hy
    rw [hg] at hy
    by_cases e1 : y = t
    · left; subst e1; simp only [if_true, Option.some.injEq] at hy; subst hy; exact ⟨rfl, rfl, rfl⟩
    · right
      simp only [e1, if_false] at hy
      refine ⟨e1, ?_⟩
      split at hy
      · obtain ⟨o0, h0, rfl⟩ := Option.map_eq_some_iff.1 hy; exact ⟨o0, h0, rfl, rfl⟩
      · split at hy
        · obtain ⟨o0, h0, rfl⟩ := Option.map_eq_some_iff.1 hy; exact ⟨o0, h0, rfl, rfl⟩
        · exact ⟨o, hy, rfl, rfl⟩
  constructor
  · intro y o p hy hpp
    rcases hcase y o hy with ⟨rfl, e2, -⟩ | ⟨-, o0, h0, e2, -⟩
    · exact (hrk p (e2 ▸ hpp)).1
    · exact h1 y o0 p h0 (e2 ▸ hpp)
  · intro y o tt q hy hk hqq
    rcases hcase y o hy with ⟨rfl, e2, e3⟩ | ⟨-, o0, h0, e2, e3⟩
    · exact (hrk q (e2 ▸ hqq)).2 tt (e3 ▸ hk)
    · exact h2 y o0 tt q h0 (e3 ▸ hk) (e2 ▸ hqq)
  · intro n y o hn hy hne
    rw [nullCtx_moveS] at hn
    rcases hcase y o hy with ⟨rfl, -, -⟩ | ⟨-, o0, h0, -, -⟩
    · exact h3 n _ tb hn ht hne
    · exact h3 n y o0 hn h0 hne

/-! ### congruence of the structural updates under `ShapeEq` -/

theorem shapeEq_modify {a b : State} (h : ShapeEq a b) (i : Nat) (f : Obj → Obj)
    (hf : ∀ x y : Obj, x.shape = y.shape → (f x).shape = (f y).shape) :
    ShapeEq (a.modify i f) (b.modify i f) := by
  refine ⟨by simpa using h.1, fun j => ?_⟩
  simp only [get_modify]
  have := h.2 j
  by_cases hij : i = j
  · simp only [hij, if_true]
    cases ha : a.get j <;> cases hb : b.get j <;> rw [ha, hb] at this <;> simp at this ⊢
    exact hf _ _ this
  · simpa [hij] using this

theorem shapeEq_remove {a b : State} (h : ShapeEq a b) (i : Nat) : ShapeEq (a.remove i) (b.remove i) := by
  refine ⟨by simpa using h.1, fun j => ?_⟩
  simp only [get_remove]
  by_cases hij : i = j
  · simp [hij]
  · simpa [hij] using h.2 j

theorem shapeEq_detach {a b : State} (h : ShapeEq a b) (t : Nat) : ShapeEq (detach a t) (detach b t) := by
  unfold detach
  cases ha : a.get t with
  | none =>
    have := h.2 t; rw [ha] at this
    cases hb : b.get t with
    | none => exact h
    | some bo => rw [hb] at this; simp at this
  | some ao =>
    obtain ⟨bo, hb, e1, -⟩ := h.get ha
    simp only [hb, e1]
    cases ao.parent with
    | none => exact h
    | some p =>
      exact shapeEq_modify h p _ (by
        intro x y hxy; simp only [Obj.shape, Prod.mk.injEq] at hxy ⊢
        obtain ⟨e1, e2, e3, e4, e5, e6⟩ := hxy
        exact ⟨e1, by rw [e2], e3, e4, e5, e6⟩)

theorem shapeEq_freeLeafS {a b : State} (h : ShapeEq a b) (r : Nat) :
    ShapeEq (freeLeafS a r) (freeLeafS b r) := by
  unfold freeLeafS
  cases ha : a.get r with
  | none =>
    have := h.2 r; rw [ha] at this
    cases hb : b.get r with
    | none => exact h
    | some bo => rw [hb] at this; simp at this
  | some ao =>
    obtain ⟨bo, hb, -, -, -, e4, -, -⟩ := h.get ha
    simp only [hb, e4]
    apply shapeEq_remove
    apply shapeEq_detach
    cases ao.kind with
    | plain => exact h
    | limit => exact h
    | ref t =>
      exact shapeEq_modify h t _ (by
        intro x y hxy; simp only [Obj.shape, Prod.mk.injEq] at hxy ⊢
        obtain ⟨e1, e2, e3, e4, e5, e6⟩ := hxy
        exact ⟨e1, e2, by rw [e3], e4, e5, e6⟩)

end Usual.C01
