import UsualProofs.C01.Steps
/-! Preservation of the structural invariant: moves and allocations. -/
namespace Usual.C01

/-- structural part of `move_child(t, tnew, told)` -/
def moveS (s : State) (t : Nat) (tnew : Option Id) (front : Bool) : State :=
  (addChild (detach s t) tnew t front).modify t fun x => { x with parent := tnew }

theorem moveS_get {s : State} {t : Nat} {tb : Obj} (ht : s.get t = some tb) (tnew : Option Id) (front : Bool)
    (hne : tnew ≠ tb.parent) (hself : tnew ≠ some t) (hself' : tb.parent ≠ some t) (j : Nat) :
    (moveS s t tnew front).get j =
      if j = t then some { tb with parent := tnew }
      else if tb.parent = some j then (s.get j).map fun po => { po with children := po.children.erase t }
      else if tnew = some j then (s.get j).map fun po =>
        { po with children := if front then t :: po.children else po.children ++ [t] }
      else s.get j := by
  unfold moveS addChild
  cases hp : tb.parent with
  | none =>
    rw [detach_eq_none ht hp]
    cases hq : tnew with
    | none => simp [hq, hp] at hne
    | some q =>
      simp only [get_modify]
      by_cases h1 : j = t
      · subst h1
        have : q ≠ j := fun e => hself (by rw [hq, e])
        simp [this, ht, hp]
      · by_cases h2 : q = j
        · subst h2; simp [h1, Ne.symm h1]
        · simp [h1, Ne.symm h1, h2, Ne.symm h2]
  | some p =>
    rw [detach_eq_some ht hp]
    have hpt : p ≠ t := fun e => hself' (by rw [hp, e])
    cases hq : tnew with
    | none =>
      simp only [get_modify]
      by_cases h1 : j = t
      · subst h1; simp [hpt, ht, hp]
      · by_cases h2 : p = j
        · subst h2; simp [h1, Ne.symm h1]
        · simp [h1, Ne.symm h1, h2, Ne.symm h2]
    | some q =>
      have hqt : q ≠ t := fun e => hself (by rw [hq, e])
      have hqp : q ≠ p := fun e => hne (by rw [hq, hp, e])
      simp only [get_modify]
      by_cases h1 : j = t
      · subst h1; simp [hpt, hqt, ht, hp]
      · by_cases h2 : p = j
        · subst h2; simp [h1, Ne.symm h1, hqp]
        · by_cases h3 : q = j
          · subst h3; simp [h1, Ne.symm h1, h2, Ne.symm h2]
          · simp [h1, Ne.symm h1, h2, Ne.symm h2, h3, Ne.symm h3]

end Usual.C01
