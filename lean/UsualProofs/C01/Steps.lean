import UsualProofs.C01.WF
/-! Preservation of the structural invariant by the atomic updates. -/
namespace Usual.C01

theorem detach_eq_some {s : State} {t : Nat} {o : Obj} {p : Nat} (h : s.get t = some o)
    (hp : o.parent = some p) :
    detach s t = s.modify p fun po => { po with children := po.children.erase t } := by
  simp only [detach, h, hp]

theorem detach_eq_none {s : State} {t : Nat} {o : Obj} (h : s.get t = some o)
    (hp : o.parent = none) : detach s t = s := by
  simp only [detach, h, hp]

theorem shapeEq_addLog (s : State) (e : Event) : ShapeEq s (s.addLog e) := ⟨rfl, fun _ => rfl⟩
theorem shapeEq_setOof (s : State) : ShapeEq s s.setOof := ⟨rfl, fun _ => rfl⟩
theorem shapeEq_setStuck (s : State) : ShapeEq s s.setStuck := ⟨rfl, fun _ => rfl⟩

theorem isPlainAt_of_kinds {s s' : State} (h : ∀ j : Nat, (s'.get j).map (·.kind) = (s.get j).map (·.kind))
    (a : Nat) : isPlainAt s' a ↔ isPlainAt s a := by
  have := h a
  unfold isPlainAt
  constructor
  · rintro ⟨ao, h1, h2⟩
    rw [h1] at this
    cases h3 : s.get a with
    | none => rw [h3] at this; cases this
    | some o => rw [h3] at this; simp at this; exact ⟨o, rfl, this ▸ h2⟩
  · rintro ⟨ao, h1, h2⟩
    rw [h1] at this
    cases h3 : s'.get a with
    | none => rw [h3] at this; cases this
    | some o => rw [h3] at this; simp at this; exact ⟨o, rfl, this ▸ h2⟩

/-- a destructor script is replaced on a plain object (refusal, `talloc_set_destructor`) -/
theorem setDtor_wf {s : State} {x : Nat} {ob : Obj} (d : Dtor) (w : WFp s) (hx : s.get x = some ob)
    (hk : ob.kind = .plain) : WFp (s.modify x fun o => { o with dtor := d }) := by
  have ⟨h1, h2, h3, h4, h5, h6, h7, h8, h9, h10⟩ := w
  have hk' : ∀ a, isPlainAt (s.modify x fun o => { o with dtor := d }) a ↔ isPlainAt s a := by
    apply isPlainAt_of_kinds; intro j; simp only [get_modify]; split <;> cases s.get j <;> simp
  constructor
  · intro y o p hy hpp; simp only [get_modify] at hy ⊢; grind
  · intro y o c hy hc; simp only [get_modify] at hy ⊢; grind
  · intro y o hy; simp only [get_modify] at hy ⊢; grind
  · intro y o r hy hc; simp only [get_modify] at hy ⊢; grind
  · intro y o hy; simp only [get_modify] at hy ⊢; grind
  · intro y o r hy hc; simp only [get_modify] at hy ⊢; grind
  · intro y o hy hc; simp only [get_modify] at hy ⊢; grind
  · intro y o hy hc; simp only [get_modify] at hy ⊢; grind
  · intro y o hy
    simp only [hk']
    simp only [get_modify] at hy
    grind
  · intro n hn; simp only [get_modify, nullCtx_modify] at hn ⊢; grind

theorem setDtor_ranked {rk : Nat → Nat} {s : State} {x : Nat} (d : Dtor) (w : Ranked rk s) :
    Ranked rk (s.modify x fun o => { o with dtor := d }) := by
  have ⟨h1, h2, h3⟩ := w
  constructor
  · intro y o p hy hpp
    rw [get_modify_some] at hy
    rcases hy with ⟨-, hy⟩ | ⟨rfl, o0, hy, rfl⟩
    · exact h1 y o p hy hpp
    · exact h1 _ o0 p hy hpp
  · intro y o t q hy hk hq
    rw [get_modify_some] at hy
    rcases hy with ⟨-, hy⟩ | ⟨rfl, o0, hy, rfl⟩
    · exact h2 y o t q hy hk hq
    · exact h2 _ o0 t q hy hk hq
  · intro n y o hn hy hne
    rw [get_modify_some] at hy
    rcases hy with ⟨-, hy⟩ | ⟨rfl, o0, hy, rfl⟩
    · exact h3 n y o hn hy hne
    · exact h3 n _ o0 hn hy hne

end Usual.C01

namespace Usual.C01

/-- objects of `s'` are objects of `s` with the same parent and kind: ranks carry over -/
theorem Ranked.mono {rk : Nat → Nat} {s s' : State} (w : Ranked rk s)
    (hn : s'.nullCtx = s.nullCtx)
    (h : ∀ (j : Nat) o', s'.get j = some o' → ∃ o, s.get j = some o ∧ o.parent = o'.parent ∧ o.kind = o'.kind) :
    Ranked rk s' := by
  constructor
  · intro x o p hx hp
    obtain ⟨o0, h0, e1, -⟩ := h x o hx
    exact w.parentLt x o0 p h0 (e1 ▸ hp)
  · intro r ro t q hr hk hq
    obtain ⟨o0, h0, e1, e2⟩ := h r ro hr
    exact w.refLt r o0 t q h0 (e2 ▸ hk) (e1 ▸ hq)
  · intro n x o hnn hx hne
    obtain ⟨o0, h0, -⟩ := h x o hx
    exact w.nullMin n x o0 (hn ▸ hnn) h0 hne

/-- start of an accepted free of a plain object: FLAG_PENDING, new destructor script, list_del -/
def beginFree (s : State) (x : Nat) (d : Dtor) : State :=
  detach (s.modify x fun o => { o with dtor := d, pending := true }) x

theorem beginFree_get (s : State) (x : Nat) (d : Dtor) (ob : Obj) (hx : s.get x = some ob) (j : Nat) :
    (beginFree s x d).get j =
      if j = x then some { ob with dtor := d, pending := true, children := if ob.parent = some x then ob.children.erase x else ob.children }
      else if ob.parent = some j then (s.get j).map fun po => { po with children := po.children.erase x }
      else s.get j := by
  unfold beginFree detach
  simp only [get_modify, hx, if_true, Option.map_some]
  cases hp : ob.parent with
  | none =>
    simp only [get_modify]
    by_cases h : j = x
    · subst h; simp [hx, hp]
    · simp [h, Ne.symm h]
  | some p =>
    simp only [get_modify, Option.some.injEq]
    by_cases h : j = x
    · subst h
      by_cases h2 : p = j
      · subst h2; simp [hx, hp]
      · simp [h2, hx, hp]
    · by_cases h2 : p = j
      · subst h2; simp [h, Ne.symm h]
      · simp [h, h2, Ne.symm h]

theorem beginFree_wf {s : State} {x : Nat} {ob : Obj} (d : Dtor) (w : WFp s) (hx : s.get x = some ob)
    (hk : ob.kind = .plain) (hr : ob.refs = []) (hnp : ob.pending = false)
    (hnn : s.nullCtx ≠ some x) (hself : ob.parent ≠ some x) : WFp (beginFree s x d) := by
  have ⟨h1, h2, h3, h4, h5, h6, h7, h8, h9, h10⟩ := w
  have hg := beginFree_get s x d ob hx
  simp only [hself, if_false] at hg
  have hk' : ∀ a, isPlainAt (beginFree s x d) a ↔ isPlainAt s a := by
    apply isPlainAt_of_kinds; intro j; rw [hg]
    by_cases h : j = x
    · subst h; simp [hx]
    · simp only [h, if_false]; split <;> cases s.get j <;> simp
  constructor
  · intro y o p hy hpp; rw [hg] at hy; rw [hg]; grind
  · intro y o c hy hc; rw [hg] at hy; rw [hg]; grind
  · intro y o hy; rw [hg] at hy; grind
  · intro y o r hy hc; rw [hg] at hy; rw [hg]; grind
  · intro y o hy; rw [hg] at hy; grind
  · intro y o r hy hc; rw [hg] at hy; rw [hg]; grind
  · intro y o hy hc; rw [hg] at hy; grind
  · intro y o hy hc; rw [hg] at hy; grind
  · intro y o hy
    simp only [hk']
    rw [hg] at hy
    have e := h9 y
    split at hy
    · cases hy; exact h9 x ob hx
    · split at hy
      · cases h' : s.get y with
        | none => rw [h'] at hy; cases hy
        | some po => rw [h'] at hy; cases hy; exact (h9 y po h').sublist List.erase_sublist
      · exact h9 y o hy
  · intro n hn
    have : (beginFree s x d).nullCtx = s.nullCtx := by
      unfold beginFree detach; split <;> try split
      all_goals simp
    rw [this] at hn
    obtain ⟨nb, hb1, hb2, hb3, hb4, hb5⟩ := h10 n hn
    rw [hg]; grind


@[simp] theorem nullCtx_detach (s : State) (t : Nat) : (detach s t).nullCtx = s.nullCtx := by
  unfold detach; split <;> try split
  all_goals simp

@[simp] theorem nullCtx_addChild (s : State) (p : Option Id) (t : Nat) (b : Bool) :
    (addChild s p t b).nullCtx = s.nullCtx := by
  unfold addChild; split <;> simp

/-- end of an accepted free: the (pending, childless) object is released -/
theorem endFree_wf {s : State} {x : Nat} {ob : Obj} (w : WFp s) (hx : s.get x = some ob)
    (hk : ob.kind = .plain) (hp : ob.pending = true) (hc : ob.children = [])
    (hnn : s.nullCtx ≠ some x)
    (hnp : ∀ (y : Nat) yo, s.get y = some yo → yo.parent ≠ some x) : WFp (s.remove x) := by
  have ⟨h1, h2, h3, h4, h5, h6, h7, h8, h9, h10⟩ := w
  have hxr := h8 x ob hx hp
  have hk' : ∀ a, a ≠ x → (isPlainAt (s.remove x) a ↔ isPlainAt s a) := by
    intro a ha; unfold isPlainAt; simp [get_remove, Ne.symm ha]
  have hnc : ∀ (y : Nat) yo, s.get y = some yo → x ∉ yo.children := by
    intro y yo hy hm
    obtain ⟨co, hco, -, hpe⟩ := h2 y yo x hy hm
    rw [hx] at hco; cases hco; simp [hp] at hpe
  constructor
  · intro y o p hy hpp; rw [get_remove_some] at hy; simp only [get_remove]; grind
  · intro y o c hy hc; rw [get_remove_some] at hy; simp only [get_remove]; grind
  · intro y o hy; rw [get_remove_some] at hy; grind
  · intro y o r hy hc; rw [get_remove_some] at hy; simp only [get_remove]; grind
  · intro y o hy; rw [get_remove_some] at hy; grind
  · intro y o r hy hc; rw [get_remove_some] at hy; simp only [get_remove]; grind
  · intro y o hy hc; rw [get_remove_some] at hy; grind
  · intro y o hy hc; rw [get_remove_some] at hy; grind
  · intro y o hy
    rw [get_remove_some] at hy
    refine (h9 y o hy.2).imp_of_mem ?_
    intro a b ha hb hab
    have hax : a ≠ x := fun e => hnc y o hy.2 (e ▸ ha)
    have hbx : b ≠ x := fun e => hnc y o hy.2 (e ▸ hb)
    rw [hk' a hax, hk' b hbx]; exact hab
  · intro n hn
    simp only [nullCtx_remove] at hn
    obtain ⟨nb, hb1, hb2, hb3, hb4, hb5⟩ := h10 n hn
    simp only [get_remove]; grind

/-- `r` disappears and is erased from every child list and every reference list -/
def eraseAll (s : State) (r : Nat) (j : Nat) : Option Obj :=
  if j = r then none
  else (s.get j).map fun o => { o with children := o.children.erase r, refs := o.refs.erase r }

theorem eraseAll_wf {s s' : State} {r : Nat} {rb : Obj} (w : WFp s) (hr : s.get r = some rb)
    (hk : rb.kind ≠ .plain) (hn : s'.nullCtx = s.nullCtx) (hg : ∀ j : Nat, s'.get j = eraseAll s r j) :
    WFp s' := by
  have ⟨h1, h2, h3, h4, h5, h6, h7, h8, h9, h10⟩ := w
  obtain ⟨lc, lr, ld, lp⟩ := h7 r rb hr hk
  have hnull : s.nullCtx ≠ some r := by
    intro hn; obtain ⟨nb, hb1, hb2, -⟩ := h10 r hn; rw [hr] at hb1; cases hb1; exact hk hb2
  have hnr : ∀ (y : Nat) yo, s.get y = some yo → yo.parent ≠ some r := by
    intro y yo hy hp
    obtain ⟨po, hpo, hpk, -⟩ := h1 y yo r hy hp
    rw [hr] at hpo; cases hpo; exact hk hpk
  have hnt : ∀ (y : Nat) yo, s.get y = some yo → yo.kind ≠ .ref r := by
    intro y yo hy hkk
    obtain ⟨tb, htb, hm⟩ := h6 y yo r hy hkk
    rw [hr] at htb; cases htb; rw [lr] at hm; cases hm
  have hk' : ∀ a, a ≠ r → (isPlainAt s' a ↔ isPlainAt s a) := by
    intro a ha; unfold isPlainAt; rw [hg]; unfold eraseAll; simp only [ha, if_false]
    cases s.get a <;> simp
  have hge : ∀ (y : Nat) o, s'.get y = some o → y ≠ r ∧ ∃ o0, s.get y = some o0 ∧
      o = { o0 with children := o0.children.erase r, refs := o0.refs.erase r } := by
    intro y o hy
    rw [hg] at hy; unfold eraseAll at hy
    by_cases h : y = r
    · simp [h] at hy
    · simp only [h, if_false] at hy
      cases h0 : s.get y with
      | none => rw [h0] at hy; cases hy
      | some o0 => rw [h0] at hy; cases hy; exact ⟨h, o0, rfl, rfl⟩
  have hgs : ∀ (y : Nat) o0, s.get y = some o0 → y ≠ r → s'.get y =
      some { o0 with children := o0.children.erase r, refs := o0.refs.erase r } := by
    intro y o0 hy hne; rw [hg]; unfold eraseAll; simp [hne, hy]
  constructor
  · intro y o p hy hpp
    obtain ⟨hne, o0, hy0, rfl⟩ := hge y o hy
    obtain ⟨po, hpo, hpk, hm⟩ := h1 y o0 p hy0 hpp
    have hpr : p ≠ r := fun e => hnr y o0 hy0 (e ▸ hpp)
    refine ⟨_, hgs p po hpo hpr, hpk, ?_⟩
    rcases hm with hm | hm
    · left; exact (List.mem_erase_of_ne hne).2 hm
    · right; exact hm
  · intro y o c hy hc
    obtain ⟨hne, o0, hy0, rfl⟩ := hge y o hy
    have hc0 : c ∈ o0.children := List.mem_of_mem_erase hc
    have hcr : c ≠ r := by
      intro e; subst e
      exact (List.Nodup.mem_erase_iff (h3 y o0 hy0)).1 hc |>.1 rfl
    obtain ⟨co, hco, hcp, hcpend⟩ := h2 y o0 c hy0 hc0
    exact ⟨_, hgs c co hco hcr, hcp, hcpend⟩
  · intro y o hy
    obtain ⟨hne, o0, hy0, rfl⟩ := hge y o hy
    exact (h3 y o0 hy0).erase r
  · intro y o q hy hc
    obtain ⟨hne, o0, hy0, rfl⟩ := hge y o hy
    have hc0 : q ∈ o0.refs := List.mem_of_mem_erase hc
    have hcr : q ≠ r := by
      intro e; subst e
      exact (List.Nodup.mem_erase_iff (h5 y o0 hy0)).1 hc |>.1 rfl
    obtain ⟨ro, hro, hrk⟩ := h4 y o0 q hy0 hc0
    exact ⟨_, hgs q ro hro hcr, hrk⟩
  · intro y o hy
    obtain ⟨hne, o0, hy0, rfl⟩ := hge y o hy
    exact (h5 y o0 hy0).erase r
  · intro y o t hy hkk
    obtain ⟨hne, o0, hy0, rfl⟩ := hge y o hy
    obtain ⟨tb, htb, hm⟩ := h6 y o0 t hy0 hkk
    have htr : t ≠ r := fun e => hnt y o0 hy0 (e ▸ hkk)
    exact ⟨_, hgs t tb htb htr, (List.mem_erase_of_ne hne).2 hm⟩
  · intro y o hy hkk
    obtain ⟨hne, o0, hy0, rfl⟩ := hge y o hy
    obtain ⟨a1, a2, a3, a4⟩ := h7 y o0 hy0 hkk
    simp only [a1, a2, a3, a4, List.erase_nil, and_self]
  · intro y o hy hpe
    obtain ⟨hne, o0, hy0, rfl⟩ := hge y o hy
    simp only [h8 y o0 hy0 hpe, List.erase_nil]
  · intro y o hy
    obtain ⟨hne, o0, hy0, rfl⟩ := hge y o hy
    have hsub : (o0.children.erase r).Sublist o0.children := List.erase_sublist
    refine ((h9 y o0 hy0).sublist hsub).imp_of_mem ?_
    intro a b ha hb hab
    have hnd := h3 y o0 hy0
    have hax : a ≠ r := fun e => ((List.Nodup.mem_erase_iff hnd).1 (e ▸ ha)).1 rfl
    have hbx : b ≠ r := fun e => ((List.Nodup.mem_erase_iff hnd).1 (e ▸ hb)).1 rfl
    rw [hk' a hax, hk' b hbx]; exact hab
  · intro n hnn
    rw [hn] at hnn
    obtain ⟨nb, hb1, hb2, hb3, hb4, hb5⟩ := h10 n hnn
    have hnr' : n ≠ r := fun e => hnull (e ▸ hnn)
    exact ⟨_, hgs n nb hb1 hnr', hb2, hb3, hb4, by simp [hb5]⟩

theorem eraseAll_ranked {rk : Nat → Nat} {s s' : State} {r : Nat} (w : Ranked rk s)
    (hn : s'.nullCtx = s.nullCtx) (hg : ∀ j : Nat, s'.get j = eraseAll s r j) : Ranked rk s' := by
  refine w.mono hn ?_
  intro j o' hj
  rw [hg] at hj; unfold eraseAll at hj
  by_cases h : j = r
  · simp [h] at hj
  · simp only [h, if_false] at hj
    cases h0 : s.get j with
    | none => rw [h0] at hj; cases hj
    | some o0 => rw [h0] at hj; cases hj; exact ⟨o0, rfl, rfl, rfl⟩

/-- structural effect of `_talloc_free` on a TRef / `.memlimit` chunk `r` -/
def freeLeafS (s : State) (r : Nat) : State :=
  match s.get r with
  | none => s
  | some rb =>
    let s1 := match rb.kind with
      | .ref t => s.modify t fun x => { x with refs := x.refs.erase r }
      | _ => s
    (detach s1 r).remove r


theorem freeLeafS_get {s : State} {r : Nat} {rb : Obj} (w : WFp s) (hr : s.get r = some rb)
    (hk : rb.kind ≠ .plain) (j : Nat) : (freeLeafS s r).get j = eraseAll s r j := by
  have ⟨h1, h2, h3, h4, h5, h6, h7, h8, h9, h10⟩ := w
  have hnc : ∀ (y : Nat) yo, s.get y = some yo → r ∈ yo.children → rb.parent = some y := by
    intro y yo hy hm
    obtain ⟨co, hco, hcp, -⟩ := h2 y yo r hy hm
    rw [hr] at hco; cases hco; exact hcp
  have hnf : ∀ (y : Nat) yo, s.get y = some yo → r ∈ yo.refs → rb.kind = .ref y := by
    intro y yo hy hm
    obtain ⟨ro, hro, hrk⟩ := h4 y yo r hy hm
    rw [hr] at hro; cases hro; exact hrk
  have hec : ∀ (y : Nat) yo, s.get y = some yo → rb.parent ≠ some y → yo.children.erase r = yo.children :=
    fun y yo hy hne => List.erase_of_not_mem (fun hm => hne (hnc y yo hy hm))
  have her : ∀ (y : Nat) yo, s.get y = some yo → rb.kind ≠ .ref y → yo.refs.erase r = yo.refs :=
    fun y yo hy hne => List.erase_of_not_mem (fun hm => hne (hnf y yo hy hm))
  unfold freeLeafS eraseAll
  simp only [hr]
  by_cases hjr : j = r
  · simp [hjr]
  simp only [hjr, if_false]
  cases hkind : rb.kind with
  | plain => exact absurd hkind hk
  | limit =>
    simp only []
    have her' : ∀ (y : Nat) yo, s.get y = some yo → yo.refs.erase r = yo.refs :=
      fun y yo hy => her y yo hy (by rw [hkind]; simp)
    cases hpar : rb.parent with
    | none =>
      rw [detach_eq_none hr hpar, get_remove]
      simp only [Ne.symm hjr, if_false]
      cases hj : s.get j with
      | none => rfl
      | some jo =>
        simp only [Option.map_some]
        rw [her' j jo hj, hec j jo hj (by rw [hpar]; simp)]
    | some p =>
      rw [detach_eq_some hr hpar, get_remove, get_modify]
      simp only [Ne.symm hjr, if_false]
      cases hj : s.get j with
      | none => simp
      | some jo =>
        by_cases hpj : p = j
        · subst hpj; simp [her' _ jo hj]
        · simp only [hpj, if_false, Option.map_some]
          rw [her' j jo hj, hec j jo hj (by rw [hpar]; simpa using hpj)]
  | ref t =>
    simp only []
    have htr : t ≠ r := by
      intro e
      obtain ⟨tb, htb, hm⟩ := h6 r rb t hr hkind
      rw [e, hr] at htb; cases htb
      rw [(h7 r rb hr hk).2.1] at hm; cases hm
    have hr1 : (s.modify t fun x => { x with refs := x.refs.erase r }).get r = some rb := by
      rw [get_modify]; simp [htr, hr]
    cases hpar : rb.parent with
    | none =>
      rw [detach_eq_none hr1 hpar, get_remove, get_modify]
      simp only [Ne.symm hjr, if_false]
      cases hj : s.get j with
      | none => simp
      | some jo =>
        have e1 := hec j jo hj (by rw [hpar]; simp)
        by_cases htj : t = j
        · subst htj; simp [e1]
        · simp only [htj, if_false, Option.map_some]
          rw [e1, her j jo hj (by rw [hkind]; simpa using htj)]
    | some p =>
      rw [detach_eq_some hr1 hpar, get_remove, get_modify, get_modify]
      simp only [Ne.symm hjr, if_false]
      cases hj : s.get j with
      | none => simp
      | some jo =>
        by_cases htj : t = j <;> by_cases hpj : p = j
        · subst htj; subst hpj; simp
        · subst htj; simp [hpj, hec _ jo hj (by rw [hpar]; simpa using hpj)]
        · subst hpj; simp [htj, her _ jo hj (by rw [hkind]; simpa using htj)]
        · simp only [htj, hpj, if_false, Option.map_some]
          rw [hec j jo hj (by rw [hpar]; simpa using hpj), her j jo hj (by rw [hkind]; simpa using htj)]

theorem nullCtx_freeLeafS (s : State) (r : Nat) : (freeLeafS s r).nullCtx = s.nullCtx := by
  unfold freeLeafS
  split
  · rfl
  · simp only [nullCtx_remove, nullCtx_detach]; split <;> simp

theorem freeLeafS_wf {s : State} {r : Nat} {rb : Obj} (w : WFp s) (hr : s.get r = some rb)
    (hk : rb.kind ≠ .plain) : WFp (freeLeafS s r) :=
  eraseAll_wf w hr hk (nullCtx_freeLeafS s r) (freeLeafS_get w hr hk)

theorem freeLeafS_ranked {rk : Nat → Nat} {s : State} {r : Nat} {rb : Obj} (w : WFp s)
    (hr : s.get r = some rb) (hk : rb.kind ≠ .plain) (wr : Ranked rk s) : Ranked rk (freeLeafS s r) :=
  eraseAll_ranked wr (nullCtx_freeLeafS s r) (freeLeafS_get w hr hk)

end Usual.C01
