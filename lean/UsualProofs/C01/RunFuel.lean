import UsualProofs.C01.Fuel
/-! Fuel adequacy, part 2: `_talloc_free` / `_talloc_unlink` / `free_children`.  With fuel
`5 * (live chunks in the subtree)` (minus the children the loop has already passed) the recursion
of the model does not run out of fuel. -/
set_option linter.unusedSimpArgs false
set_option linter.unusedVariables false
namespace Usual.C01

theorem oof_freeBegin (s : State) (o : Nat) (ob : Obj) (d' : Dtor) (logged : Bool) :
    (freeBegin s o ob d' logged).oof = s.oof := by
  unfold freeBegin
  simp only []
  rw [oof_detach]
  cases ob.kind <;> cases logged <;> rfl

theorem nodup_split_unique {l p1 q1 p2 q2 : List Id} {a : Id} (hnd : l.Nodup) (h1 : l = p1 ++ a :: q1)
    (h2 : l = p2 ++ a :: q2) : p1 = p2 ∧ q1 = q2 := by
  subst h1
  induction p1 generalizing p2 with
  | nil =>
    cases p2 with
    | nil => simp at h2; exact ⟨rfl, h2⟩
    | cons b p2 =>
      simp only [List.nil_append, List.cons_append, List.cons.injEq] at h2
      obtain ⟨rfl, h2⟩ := h2
      simp only [List.nil_append] at hnd
      exact absurd (by rw [h2]; simp) (List.nodup_cons.1 hnd).1
  | cons b p1 ih =>
    cases p2 with
    | nil =>
      simp only [List.nil_append, List.cons_append, List.cons.injEq] at h2
      obtain ⟨rfl, h2⟩ := h2
      simp only [List.cons_append] at hnd
      exact absurd (by simp) (List.nodup_cons.1 hnd).1
    | cons b' p2 =>
      simp only [List.cons_append, List.cons.injEq] at h2
      obtain ⟨rfl, h2⟩ := h2
      simp only [List.cons_append] at hnd
      obtain ⟨e1, e2⟩ := ih (List.nodup_cons.1 hnd).2 h2
      exact ⟨by rw [e1], e2⟩

theorem succOf_mid (pre post : List Id) (c : Id) (hnd : (pre ++ c :: post).Nodup) :
    succOf (pre ++ c :: post) c = post.head? := by
  induction pre with
  | nil => simp [succOf]
  | cons b pre ih =>
    have hnd' := List.nodup_cons.1 hnd
    have hbc : b ≠ c := by intro e; subst e; exact hnd'.1 (by simp)
    simp only [List.cons_append, succOf, hbc, if_false]
    exact ih hnd'.2

/-- release of a TRef / `.memlimit` chunk with at least two units of fuel: no fuel problem, provided
the final state has the tree invariant (it has the shape of a well-formed state) -/
theorem run_free_leaf_oof {rk : Nat → Nat} (cfg : Cfg) (f : Nat) (a : State) (r : Nat) (rb : Obj) (hr : a.get r = some rb)
    (hk : rb.kind ≠ .plain) (hc : rb.children = []) (hrf : rb.refs = []) (hp : rb.pending = false)
    (hd : rb.dtor = .none) (ht : ∀ t, rb.kind = .ref t → t ≠ r) (hpr : rb.parent ≠ some r)
    (hw : WFt (run cfg (f + 2) a (.free r)).1 ∧ Ranked rk (run cfg (f + 2) a (.free r)).1) :
    (run cfg (f + 2) a (.free r)).1.oof = a.oof := by
  simp only [run, hr, hrf, hp, hd, dtorStep, ne_eq, not_true_eq_false, if_false, Bool.false_eq_true] at hw ⊢
  have hb := freeBegin_leaf_get a r rb hr hk ht hpr
  have hch : childrenOf (freeBegin a r rb .none false) r = [] := by
    rw [childrenOf_eq (ob := { rb with dtor := .none, pending := true }) (by rw [hb]; simp)]; exact hc
  rw [hch] at hw ⊢
  simp only [List.head?_nil, run] at hw ⊢
  have h3 : (freeBegin a r rb .none false).get r = some { rb with dtor := .none, pending := true } := by
    rw [hb]; simp
  unfold freeEnd at hw ⊢
  simp only [h3, hc, List.isEmpty_nil, if_true] at hw ⊢
  have hsh := applyLim_getD_shapeEq cfg (((freeBegin a r rb .none false).remove r).addLog (.release r)).fuel
    (((freeBegin a r rb .none false).remove r).addLog (.release r)) rb.parent (-(totalSize rb.size : Int)) false
  rw [applyLim_getD_noOof (hw.1.shapeEq hsh.symm) (hw.2.shapeEq hsh.symm) cfg _ rfl]
  show (freeBegin a r rb .none false).oof = a.oof
  exact oof_freeBegin _ _ _ _ _


/-- `throw_child` does not run out of fuel -/
theorem throwChild_noOof (cfg : Cfg) (hfix : cfg.fixCx = true) (rk : Nat → Nat) (s : State) (c o : Nat)
    (cb ob : Obj) (i : Inv rk s) (hc : s.get c = some cb) (hk : cb.kind = .plain)
    (hnp : cb.pending = false) (hpar : cb.parent = some o) (ho : s.get o = some ob)
    (hok : ob.kind = .plain) : (throwChild cfg s c).oof = s.oof := by
  have hlt := i.ranked.parentLt c cb o hc hpar
  have hnull : s.nullCtx ≠ some c := by
    intro e
    obtain ⟨nb, hb1, -, -, hb4, -⟩ := i.wf.nullOK c e
    rw [hc] at hb1; cases hb1; rw [hpar] at hb4; cases hb4
  unfold throwChild
  simp only [hc, hpar]
  obtain ⟨res, hcl⟩ := climbPending_some i.wf.tree i.ranked (some o)
  simp only [hcl, hfix, if_true]
  by_cases hsame : orNull s res = some o
  · simp only [hsame, ne_eq, not_true_eq_false, if_false]
  · simp only [ne_eq, hsame, not_false_eq_true, if_true]
    have hir : isRef cb = false := by simp [isRef, hk]
    have hqq : ∀ q, orNull s res = some q → (∃ qb, s.get q = some qb ∧ qb.kind = .plain) ∧ rk q < rk c := by
      intro q hq
      rcases climbPending_spec i s.fuel o ob ho hok res hcl with h | ⟨q', qb, h1, h2, h3, h4, h5⟩
      · subst h
        simp only [orNull] at hq
        obtain ⟨nb, hb1, hb2, -, -, -⟩ := i.wf.nullOK q hq
        refine ⟨⟨nb, hb1, hb2⟩, i.ranked.nullMin q c cb hq hc ?_⟩
        intro e; exact hnull (e ▸ hq)
      · subst h1
        simp only [orNull, Option.some.injEq] at hq; subst hq
        exact ⟨⟨qb, h2, h3⟩, by omega⟩
    have i3 := (good_moveS (b := rk c) i hc hk hnp (orNull s res) hqq hnull (Nat.le_refl _) (ShapeEq.refl _)).inv
    exact moveChild_noOof cfg c cb hc (orNull s res) (some o) (by rw [hir]; exact i3.wf.tree) (by rw [hir]; exact i3.ranked)


def FreeStmt4 (cfg : Cfg) (rk : Nat → Nat) (f : Nat) : Prop :=
  ∀ (s : State) (x : Nat) (xb : Obj), Inv rk s → s.get x = some xb → xb.kind = .plain → xb.refs = [] →
    xb.pending = false → s.nullCtx ≠ some x → PendBelow rk s (rk x) none → PendNR s none → s.stuck = false →
    s.oof = false → 5 * subCard s x ≤ f → (run cfg f s (.free x)).1.oof = false

def UnlinkStmt4 (cfg : Cfg) (rk : Nat → Nat) (f : Nat) : Prop :=
  ∀ (s : State) (ctx : Option Id) (x : Nat) (xb : Obj), Inv rk s → s.get x = some xb → xb.kind = .plain →
    xb.pending = false → xb.parent = orNull s ctx → s.nullCtx ≠ some x → PendBelow rk s (rk x) none →
    PendNR s none → s.stuck = false → s.oof = false → 5 * subCard s x + 1 ≤ f →
    (run cfg f s (.unlink ctx x)).1.oof = false

def LoopStmt4 (cfg : Cfg) (rk : Nat → Nat) (f : Nat) : Prop :=
  ∀ (s : State) (o : Nat) (ob : Obj) (fn : Bool) (cur : Option Id), Inv rk s → s.get o = some ob →
    ob.kind = .plain → PendBelow rk s (rk o) (some o) → PendNR s (some o) → s.stuck = false →
    ob.pending = fn → (fn = true → cur = ob.children.head?) → (∀ c, cur = some c → c ∈ ob.children) →
    s.oof = false →
    (∀ c pre post, cur = some c → ob.children = pre ++ c :: post → ∀ z ∈ pre, ¬ isRefAt s z) →
    1 ≤ f → (∀ c pre post, cur = some c → ob.children = pre ++ c :: post →
      5 * (subCard s o - 1) + 2 ≤ f + pre.length) →
    (run cfg f s (.loop o fn cur)).1.oof = false

/-- FLAG_PENDING + list_del keep the subtree as it is -/
theorem subCard_freeBegin {s : State} {x : Nat} {xb : Obj} (hx : s.get x = some xb) (hk : xb.kind = .plain)
    (hself : xb.parent ≠ some x) (d' : Dtor) (logged : Bool) (o : Nat) :
    subCard (freeBegin s x xb d' logged) o = subCard s o := by
  have hsh := freeBegin_plain_shapeEq s x xb d' logged hk
  have hbg := beginFree_get s x d' xb hx
  simp only [hself, if_false] at hbg
  apply subCard_congr
  · intro y
    have := hsh.2 y
    rw [hbg] at this
    by_cases e : y = x
    · subst e; simp only [if_true] at this
      cases h1 : (freeBegin s y xb d' logged).get y <;> rw [h1] at this <;> simp [hx] at this ⊢
    · simp only [e, if_false] at this
      cases h1 : (freeBegin s x xb d' logged).get y <;> cases h2 : s.get y <;> rw [h1, h2] at this <;>
        split at this <;> simp at this ⊢
  · intro y
    rw [parentOf_shapeEq hsh y]
    unfold parentOf
    rw [hbg]
    by_cases e : y = x
    · subst e; simp [hx]
    · simp only [e, if_false]
      split
      · cases s.get y <;> simp
      · rfl

theorem free_step4 (cfg : Cfg) (hfix : cfg.fixCx = true) (rk : Nat → Nat) (f : Nat) (hl4 : LoopStmt4 cfg rk f) :
    FreeStmt4 cfg rk (f + 1) := by
  intro s x xb i hx hk hrf hnp hnull hpb hnr hst hoo hfuel
  have hself : xb.parent ≠ some x := by
    intro e; have := i.ranked.parentLt x xb x hx e; omega
  have hux := not_outside_self s x
  have hlg := (run_good cfg hfix rk f).2.2
  have hl3 := (run_out cfg hfix rk f).2.2
  simp only [run, hx, hrf, hnp, ne_eq, not_true_eq_false, if_false, Bool.false_eq_true]
  cases hds : dtorStep xb.dtor with
  | mk acc rest =>
  obtain ⟨d', logged⟩ := rest
  cases acc with
  | false => simp only []; exact hoo
  | true =>
    simp only []
    have hsh := freeBegin_plain_shapeEq s x xb d' logged hk
    have hbg := beginFree_get s x d' xb hx
    simp only [hself, if_false] at hbg
    have i2 : Inv rk (freeBegin s x xb d' logged) :=
      Inv.shapeEq hsh ⟨beginFree_wf d' i.wf hx hk hrf hnp hnull hself, beginFree_ranked d' i.ranked hx⟩
    have k12 : Keeps (Outside s x) s (freeBegin s x xb d' logged) :=
      (keeps_beginFree i.wf hx hself d' hux).trans (Keeps.of_shapeEq _ hsh)
    obtain ⟨x2, hx2, e21, e22, e23, e24, e25, e26⟩ := hsh.get (s := beginFree s x d') (j := x)
      (o := { xb with dtor := d', pending := true }) (by rw [hbg]; simp)
    have hpend2 : ∀ (y : Nat) yo, (freeBegin s x xb d' logged).get y = some yo → yo.pending = true → y ≠ x →
        ∃ yo0, s.get y = some yo0 ∧ yo0.pending = true := by
      intro y yo hy hp hne
      obtain ⟨y1, hy1, -, -, -, -, e5, -⟩ := hsh.symm.get hy
      rw [hbg] at hy1
      simp only [hne, if_false] at hy1
      split at hy1
      · obtain ⟨o0, h0, rfl⟩ := Option.map_eq_some_iff.1 hy1; exact ⟨o0, h0, by rw [← e5] at hp; exact hp⟩
      · exact ⟨y1, hy1, by rw [← e5] at hp; exact hp⟩
    have hpb2 : PendBelow rk (freeBegin s x xb d' logged) (rk x) (some x) := by
      intro y yo hy hp hne
      have hne' : y ≠ x := fun e => hne (by rw [e])
      obtain ⟨yo0, h0, h1⟩ := hpend2 y yo hy hp hne'
      exact hpb y yo0 h0 h1 (by simp)
    have hnr2 : PendNR (freeBegin s x xb d' logged) (some x) := by
      intro p pb hp hpend hne
      have hne' : p ≠ x := fun e => hne (by rw [e])
      obtain ⟨yo0, h0, h1⟩ := hpend2 p pb hp hpend hne'
      have hout := pending_outside i h0 h1 (hpb p yo0 h0 h1 (by simp))
      obtain ⟨pb', h2, -, -, -, h5⟩ := k12.keep p yo0 hout h0
      rw [hp] at h2; cases h2
      exact noRefKid_of_sublist k12 (hnr p yo0 h0 h1 (by simp)) (h5 h1 (hnr p yo0 h0 h1 (by simp)))
    have hst2 : (freeBegin s x xb d' logged).stuck = false := by rw [stuck_freeBegin]; exact hst
    have hoo2 : (freeBegin s x xb d' logged).oof = false := by rw [oof_freeBegin]; exact hoo
    have hcur : (childrenOf (freeBegin s x xb d' logged) x).head? = x2.children.head? := by
      rw [childrenOf_eq hx2]
    rw [hcur]
    have hsc := subCard_freeBegin hx hk hself d' logged x
    have hpos := subCard_pos hx
    -- the loop over the children has enough fuel
    have hoof3 : (run cfg f (freeBegin s x xb d' logged) (.loop x true x2.children.head?)).1.oof = false := by
      refine hl4 (freeBegin s x xb d' logged) x x2 true _ i2 hx2 (e24 ▸ hk) hpb2 hnr2 hst2
        (by rw [e25]) (fun _ => rfl) (fun c hc => List.mem_of_mem_head? hc) hoo2 ?_ (by omega) ?_
      · intro c pre post hc hch z hz
        exfalso
        cases pre with
        | nil => cases hz
        | cons b pre =>
          rw [hch] at hc
          simp only [List.cons_append, List.head?_cons, Option.some.injEq] at hc
          have hnd := i2.wf.childNodup x x2 hx2
          rw [hch, ← hc] at hnd
          exact (List.nodup_cons.1 hnd).1 (by simp)
      · intro c pre post _ _
        rw [hsc]; omega
    obtain ⟨st3, -, hch3⟩ := hl3 (freeBegin s x xb d' logged) x x2 true _ i2 hx2 (e24 ▸ hk) hpb2 hnr2 hst2
      (by rw [e25]) (fun _ => rfl) (fun c hc => List.mem_of_mem_head? hc) hoof3
    have g3 := hlg (freeBegin s x xb d' logged) x x2 true _ i2 hx2 (e24 ▸ hk) hpb2 hoof3 st3
    generalize (run cfg f (freeBegin s x xb d' logged) (.loop x true x2.children.head?)).1 = s3
      at g3 st3 hch3 hoof3 ⊢
    obtain ⟨x3, hx3, e31, e32, e33⟩ := g3.stable x x2 hx2 (e24 ▸ hk) (Nat.lt_succ_self _)
    have hch : x3.children = [] := by
      have := hch3 rfl
      rw [childrenOf_eq hx3] at this; exact this
    have hx3p : x3.pending = true := by rw [e31, e25]
    have hnp3 : ∀ (y : Nat) yo, s3.get y = some yo → yo.parent ≠ some x := by
      intro y yo hy hpar
      obtain ⟨po, hpo, -, hm⟩ := g3.inv.wf.parentLive y yo x hy hpar
      rw [hx3] at hpo; cases hpo
      have hlt := g3.inv.ranked.parentLt y yo x hy hpar
      rcases hm with hm | hm
      · rw [hch] at hm; cases hm
      · obtain ⟨y2, hy2, hp2⟩ := g3.nnp y yo hy hm
        by_cases e : y = x
        · subst e; omega
        · obtain ⟨yo0, h0, h1⟩ := hpend2 y y2 hy2 hp2 e
          have := hpb y yo0 h0 h1 (by simp)
          omega
    have hnull3 : s3.nullCtx ≠ some x := by
      rw [g3.null, hsh.1]; unfold beginFree; simpa using hnull
    have i4 : Inv rk (s3.remove x) := by
      refine ⟨endFree_wf g3.inv.wf hx3 e33 hx3p hch hnull3 hnp3, g3.inv.ranked.mono rfl ?_⟩
      intro j o' hj
      rw [get_remove_some] at hj
      exact ⟨o', hj.2, rfl, rfl⟩
    rw [freeEnd_noOof cfg x x3 hx3 hch i4.wf.tree i4.ranked]
    exact hoof3


theorem oof_promoteS (s : State) (x : Nat) (q : Option Id) (rest : List Id) : (promoteS s x q rest).oof = s.oof := by
  unfold promoteS
  rw [oof_addChild, oof_modify, oof_detach, oof_modify]

theorem unlink_step4 (cfg : Cfg) (hfix : cfg.fixCx = true) (rk : Nat → Nat) (f : Nat) (hf4 : FreeStmt4 cfg rk f) :
    UnlinkStmt4 cfg rk (f + 1) := by
  intro s ctx x xb i hx hxk hnp hpar hnull hpb hnr hst hoo hfuel
  simp only [run, hx, hpar, ne_eq, not_true_eq_false, if_false]
  cases hrefs : xb.refs with
  | nil =>
    simp only []
    exact hf4 s x xb i hx hxk hrefs hnp hnull hpb hnr hst hoo (by omega)
  | cons r rest =>
    simp only []
    obtain ⟨rb, hr, hrk⟩ := i.wf.refLive x xb r hx (by rw [hrefs]; simp)
    simp only [hr]
    have hrnp : rb.kind ≠ .plain := by rw [hrk]; simp
    obtain ⟨lc, lr, ld, lp⟩ := i.wf.leaf r rb hr hrnp
    have hxr : x ≠ r := by intro e; subst e; rw [hx] at hr; cases hr; exact hrnp hxk
    have hq : rb.parent ≠ some x := by
      intro e; have := i.ranked.refLt r rb x x hr hrk e; omega
    have hself : xb.parent ≠ some x := by
      intro e; have := i.ranked.parentLt x xb x hx e; omega
    have hps := promoteMove_shapeEq cfg s x xb rb rest (orNull s ctx) hxk
    have hPr : (promoteS s x rb.parent rest).get r = some rb := by
      rw [promoteS_get hx rb.parent rest hq hself]
      have h1 : rb.parent ≠ some r := by
        intro e
        obtain ⟨po, hpo, hpk, -⟩ := i.wf.parentLive r rb r hr e
        rw [hr] at hpo; cases hpo; exact hrnp hpk
      have h2 : xb.parent ≠ some r := by
        intro e
        obtain ⟨po, hpo, hpk, -⟩ := i.wf.parentLive x xb r hx e
        rw [hr] at hpo; cases hpo; exact hrnp hpk
      simp [Ne.symm hxr, hr, h1, h2]
    obtain ⟨rb', hr', e1, e2, e3, e4, e5, e6⟩ := hps.get hPr
    have hqq : ∀ q, rb.parent = some q → (∃ qb, s.get q = some qb ∧ qb.kind = .plain) ∧ rk q < rk x := by
      intro q hqq
      obtain ⟨qb, hqb, hqk, -⟩ := i.wf.parentLive r rb q hr hqq
      exact ⟨⟨qb, hqb, hqk⟩, i.ranked.refLt r rb x q hr hrk hqq⟩
    have im : Inv rk (moveS s x rb.parent false) :=
      (good_moveS (b := rk x) i hx hxk hnp rb.parent hqq hnull (Nat.le_refl _) (ShapeEq.refl _)).inv
    have iS := promoteS_invT hx hxk rb.parent rest hq hself im
    -- the promotion itself
    have hooP : (promoteMove cfg s x xb rb rest (orNull s ctx)).oof = false := by
      have he : promoteMove cfg s x xb rb rest (orNull s ctx) =
          if cfg.fixPromote then moveMemlimit cfg (promoteS s x rb.parent rest) x rb.parent (orNull s ctx)
          else promoteS s x rb.parent rest := by
        unfold promoteMove promoteS
        have : isRef xb = false := by simp [isRef, hxk]
        simp only [this]
      rw [he]
      split
      · rw [moveMemlimit_noOof iS.wf iS.ranked, oof_promoteS]; exact hoo
      · rw [oof_promoteS]; exact hoo
    have hpos := subCard_pos hx
    obtain ⟨f2, hf2⟩ : ∃ f2, f = f2 + 2 := ⟨f - 2, by omega⟩
    subst hf2
    have ht : ∀ t, rb'.kind = .ref t → t ≠ r := by
      intro t hkk; rw [e4, hrk] at hkk; cases hkk; exact hxr
    have hpr : rb'.parent ≠ some r := by
      rw [e1]; intro e
      obtain ⟨po, hpo, hpk, -⟩ := i.wf.parentLive r rb r hr e
      rw [hr] at hpo; cases hpo; exact hrnp hpk
    obtain ⟨-, c2⟩ := run_free_leaf cfg (f2 + 1) _ r rb' hr' (e4 ▸ hrnp) (e2 ▸ lc) (e3 ▸ lr) (e5 ▸ lp) (e6 ▸ ld) ht hpr
    have hcomm : ShapeEq (moveS (freeLeafS s r) x rb.parent false)
        (run cfg (f2 + 2) (promoteMove cfg s x xb rb rest (orNull s ctx)) (.free r)).1 := by
      refine ShapeEq.trans ?_ c2
      refine ShapeEq.trans ?_ (shapeEq_freeLeafS hps r)
      refine shapeEq_get_eq ?_ (fun j => promote_comm i.wf hx hxk hrefs hnp hr hq hself j)
      rw [nullCtx_freeLeafS, nullCtx_moveS, nullCtx_freeLeafS]
      unfold promoteS; simp
    have g1 : Good rk (rk x) s (freeLeafS s r) := good_freeLeaf i hr hrnp (ShapeEq.refl _)
    have hLx : (freeLeafS s r).get x = some { xb with children := xb.children.erase r, refs := rest } := by
      rw [freeLeafS_get i.wf hr hrnp]; unfold eraseAll; simp [hxr, hx, hrefs]
    have g2 := good_moveS (b := rk x) g1.inv hLx hxk hnp rb.parent (by
        intro q hqq'
        obtain ⟨qb, hqb, hqk, -⟩ := i.wf.parentLive r rb q hr hqq'
        have hqr : q ≠ r := by intro e; subst e; rw [hr] at hqb; cases hqb; exact hrnp hqk
        refine ⟨⟨{ qb with children := qb.children.erase r, refs := qb.refs.erase r }, ?_, hqk⟩,
          i.ranked.refLt r rb x q hr hrk hqq'⟩
        rw [freeLeafS_get i.wf hr hrnp]; unfold eraseAll; simp [hqr, hqb])
      (by rw [nullCtx_freeLeafS]; exact hnull) (Nat.le_refl _) hcomm
    rw [run_free_leaf_oof (rk := rk) cfg f2 _ r rb' hr' (e4 ▸ hrnp) (e2 ▸ lc) (e3 ▸ lr) (e5 ▸ lp) (e6 ▸ ld) ht hpr
      ⟨g2.inv.wf.tree, g2.inv.ranked⟩]
    exact hooP


/-- at a plain cursor every object that is being freed has only non-TRef children -/
theorem pendNR_plain_child {rk : Nat → Nat} {s : State} (i : Inv rk s) {o c : Nat} {ob cb : Obj} {fn : Bool}
    (ho : s.get o = some ob) (hnr : PendNR s (some o)) (hpend : ob.pending = fn)
    (hhead : fn = true → ob.children.head? = some c) (hc : s.get c = some cb) (hk : cb.kind = .plain) :
    PendNR s none := by
  have hcplain : isPlainAt s c := ⟨cb, hc, hk⟩
  have horder := i.wf.order o ob ho
  intro p pb hp hpp _
  by_cases e : p = o
  · subst e; rw [ho] at hp; cases hp
    have hfn : fn = true := by rw [← hpend]; exact hpp
    have hh := hhead hfn
    intro z hz
    apply not_ref_of_plain
    cases hch : ob.children with
    | nil => rw [hch] at hz; cases hz
    | cons a post =>
      rw [hch] at hh hz horder
      simp only [List.head?_cons, Option.some.injEq] at hh; subst hh
      rcases List.mem_cons.1 hz with rfl | hz'
      · exact hcplain
      · exact (List.pairwise_cons.1 horder).1 z hz' hcplain
  · exact hnr p pb hp hpp (by simpa using e)

/-- one iteration on a plain child does not run out of fuel -/
theorem body_plain_oof (cfg : Cfg) (hfix : cfg.fixCx = true) (rk : Nat → Nat) (f : Nat) (hu4 : UnlinkStmt4 cfg rk f)
    (s : State) (o : Nat) (ob : Obj) (fn : Bool) (c : Nat) (cb : Obj) (i : Inv rk s) (ho : s.get o = some ob)
    (hok : ob.kind = .plain) (hpb : PendBelow rk s (rk o) (some o)) (hnr : PendNR s (some o))
    (hst : s.stuck = false) (hoo : s.oof = false) (hpend : ob.pending = fn)
    (hhead : fn = true → ob.children.head? = some c)
    (hcm : c ∈ ob.children) (hc : s.get c = some cb) (hk : cb.kind = .plain) (hfuel : 5 * subCard s c + 1 ≤ f) :
    (if (run cfg f s (.unlink (some o) c)).2 ≠ 0 then throwChild cfg (run cfg f s (.unlink (some o) c)).1 c
      else (run cfg f s (.unlink (some o) c)).1).oof = false := by
  have hu := (run_good cfg hfix rk f).2.1
  have hu3 := (run_out cfg hfix rk f).2.1
  obtain ⟨cb', hc', hcp, hcnp⟩ := i.wf.childBack o ob c ho hcm
  rw [hc] at hc'; cases hc'
  have hlt := i.ranked.parentLt c cb o hc hcp
  have hnullc : s.nullCtx ≠ some c := by
    intro e
    obtain ⟨nb, hb1, -, -, hb4, -⟩ := i.wf.nullOK c e
    rw [hc] at hb1; cases hb1; rw [hcp] at hb4; cases hb4
  have hpbc : PendBelow rk s (rk c) none := by
    intro y yo hy hp _
    by_cases e : y = o
    · subst e; exact hlt
    · have := hpb y yo hy hp (by simpa using e); omega
  have hnr0 := pendNR_plain_child i ho hnr hpend hhead hc hk
  have hoof1 := hu4 s (some o) c cb i hc hk hcnp (by simp [orNull, hcp]) hnullc hpbc hnr0 hst hoo hfuel
  obtain ⟨st1, -, -⟩ := hu3 s (some o) c cb i hc hk hcnp (by simp [orNull, hcp]) hnullc hpbc hnr0 hst hoof1
  obtain ⟨g1, hout⟩ := hu s (some o) c cb i hc hcnp (by simp [orNull, hcp]) hnullc hpbc hoof1 st1
  generalize run cfg f s (.unlink (some o) c) = r1 at st1 g1 hout hoof1 ⊢
  by_cases hrc : r1.2 = 0
  · simp only [hrc, ne_eq, not_true_eq_false, if_false]; exact hoof1
  · simp only [ne_eq, hrc, not_false_eq_true, if_true]
    rcases hout with h0 | ⟨hck, d, hsh⟩
    · exact absurd h0 hrc
    obtain ⟨c1, hc1, e1, -, -, e4, e5, -⟩ := hsh.get (j := c) (o := { cb with dtor := d }) (by simp [hc])
    obtain ⟨o1, ho1, -, -, hok1⟩ := g1.stable o ob ho hok hlt
    rw [throwChild_noOof cfg hfix rk r1.1 c o c1 o1 g1.inv hc1 (e4 ▸ hck) (e5 ▸ hcnp) (e1 ▸ hcp) ho1 hok1]
    exact hoof1

/-- one iteration on a TRef / `.memlimit` chunk does not run out of fuel -/
theorem body_leaf_oof (cfg : Cfg) (rk : Nat → Nat) (f : Nat) (s : State) (o : Nat) (ob : Obj) (c : Nat)
    (cb : Obj) (i : Inv rk s) (ho : s.get o = some ob) (hoo : s.oof = false) (hcm : c ∈ ob.children)
    (hc : s.get c = some cb) (hknp : cb.kind ≠ .plain) (hfuel : 3 ≤ f) :
    (if (run cfg f s (.unlink (some o) c)).2 ≠ 0 then throwChild cfg (run cfg f s (.unlink (some o) c)).1 c
      else (run cfg f s (.unlink (some o) c)).1).oof = false := by
  obtain ⟨cb', hc', hcp, -⟩ := i.wf.childBack o ob c ho hcm
  rw [hc] at hc'; cases hc'
  obtain ⟨lc, lr, ld, lp⟩ := i.wf.leaf c cb hc hknp
  have ht : ∀ t, cb.kind = .ref t → t ≠ c := by
    intro t hkk e; subst e
    obtain ⟨tb, htb, hm⟩ := i.wf.refBack t cb t hc hkk
    rw [hc] at htb; cases htb; rw [lr] at hm; cases hm
  have hpr : cb.parent ≠ some c := by
    intro e
    obtain ⟨po, hpo, hpk, -⟩ := i.wf.parentLive c cb c hc e
    rw [hc] at hpo; cases hpo; exact hknp hpk
  obtain ⟨f2, hf2⟩ : ∃ f2, f = f2 + 3 := ⟨f - 3, by omega⟩
  subst hf2
  have hrun : run cfg (f2 + 3) s (.unlink (some o) c) = run cfg (f2 + 2) s (.free c) := by
    simp only [run, hc, orNull, hcp, ne_eq, not_true_eq_false, if_false, lr]
  rw [hrun]
  obtain ⟨c1, c2⟩ := run_free_leaf cfg (f2 + 1) s c cb hc hknp lc lr lp ld ht hpr
  simp only [c1, ne_eq, not_true_eq_false, if_false]
  have iL : Inv rk (freeLeafS s c) := ⟨freeLeafS_wf i.wf hc hknp, freeLeafS_ranked i.wf hc hknp i.ranked⟩
  rw [run_free_leaf_oof (rk := rk) cfg f2 s c cb hc hknp lc lr lp ld ht hpr
    ⟨(iL.shapeEq c2).wf.tree, (iL.shapeEq c2).ranked⟩]
  exact hoo


theorem not_ref_fwd {U : Nat → Prop} {s s' : State} (k : Keeps U s s') {z : Nat} (h : ¬ isRefAt s z) : ¬ isRefAt s' z :=
  fun h' => h (isRefAt_back k h')

theorem loop_step4 (cfg : Cfg) (hfix : cfg.fixCx = true) (rk : Nat → Nat) (f : Nat)
    (hu4 : UnlinkStmt4 cfg rk f) (hl4 : LoopStmt4 cfg rk f) : LoopStmt4 cfg rk (f + 1) := by
  intro s o ob fn cur i ho hok hpb hnr hst hpend hhead hmemc hoo hpre _ hfuel
  have hu3 := (run_out cfg hfix rk f).2.1
  cases cur with
  | none => simp only [run]; exact hoo
  | some c =>
    have hcm : c ∈ ob.children := hmemc c rfl
    obtain ⟨pre, post, hch⟩ := List.append_of_mem hcm
    have hK := hfuel c pre post rfl hch
    have hsplit := subCard_split i ho pre post hch
    have hprec := hpre c pre post rfl hch
    have hnd := i.wf.childNodup o ob ho
    have hnd' : (pre ++ c :: post).Nodup := by rw [← hch]; exact hnd
    simp only [run]
    have hse : loopEnter s o c = s := by
      unfold loopEnter; rw [if_pos]; rw [childrenOf_eq ho]; simpa using hcm
    rw [hse]
    obtain ⟨cb, hc, hcp, hcnp⟩ := i.wf.childBack o ob c ho hcm
    simp only [hc]
    rw [childrenOf_eq ho]
    have htmp : succOf ob.children c = post.head? := by rw [hch]; exact succOf_mid pre post c hnd'
    have hposc := subCard_pos hc
    have hposo := subCard_pos ho
    by_cases hskip : (!fn && isLimit cb) = true
    · simp only [hskip, if_true]
      obtain ⟨hfn', hlim⟩ := Bool.and_eq_true_iff.1 hskip
      have hfn : fn = false := by simpa using hfn'
      have hcnr : ¬ isRefAt s c := by
        rintro ⟨zb, t, h1, h2⟩
        rw [hc] at h1; cases h1
        simp [isLimit, h2] at hlim
      refine hl4 s o ob fn _ i ho hok hpb hnr hst hpend (by intro h; rw [hfn] at h; cases h)
        (fun t ht => succOf_mem _ _ _ ht) hoo ?_ (by omega) ?_
      · intro t pre2 post2 ht hch2 z hz
        rw [htmp] at ht
        cases post with
        | nil => cases ht
        | cons t' post' =>
          simp only [List.head?_cons, Option.some.injEq] at ht; subst ht
          have h3 : ob.children = (pre ++ [c]) ++ t' :: post' := by rw [hch]; simp
          obtain ⟨e1, -⟩ := nodup_split_unique hnd h3 hch2
          rw [← e1] at hz
          rcases List.mem_append.1 hz with h | h
          · exact hprec z h
          · simp only [List.mem_singleton] at h; subst h; exact hcnr
      · intro t pre2 post2 ht hch2
        rw [htmp] at ht
        cases post with
        | nil => cases ht
        | cons t' post' =>
          simp only [List.head?_cons, Option.some.injEq] at ht; subst ht
          have h3 : ob.children = (pre ++ [c]) ++ t' :: post' := by rw [hch]; simp
          obtain ⟨e1, -⟩ := nodup_split_unique hnd h3 hch2
          rw [← e1]; simp only [List.length_append, List.length_singleton]; omega
    · simp only [hskip, if_false]
      -- the iteration does not run out of fuel
      have hoof2 : (if (run cfg f s (.unlink (some o) c)).2 ≠ 0 then
            throwChild cfg (run cfg f s (.unlink (some o) c)).1 c
          else (run cfg f s (.unlink (some o) c)).1).oof = false := by
        by_cases hk : cb.kind = .plain
        · exact body_plain_oof cfg hfix rk f hu4 s o ob fn c cb i ho hok hpb hnr hst hoo hpend
            (fun hfn => by rw [← hhead hfn]) hcm hc hk (by omega)
        · exact body_leaf_oof cfg rk f s o ob c cb i ho hoo hcm hc hk (by omega)
      have hbody : BodyOut rk s
          (if (run cfg f s (.unlink (some o) c)).2 ≠ 0 then throwChild cfg (run cfg f s (.unlink (some o) c)).1 c
            else (run cfg f s (.unlink (some o) c)).1) o ob c fn := by
        by_cases hk : cb.kind = .plain
        · exact body_plain3 cfg hfix rk f hu3 s o ob fn c cb i ho hok hpb hnr hst hpend
            (fun hfn => by rw [← hhead hfn]) hcm hc hk hoof2
        · exact body_leaf3 cfg rk f s o ob fn c cb i ho hst hcm hc hk hoof2
      generalize (if (run cfg f s (.unlink (some o) c)).2 ≠ 0 then throwChild cfg (run cfg f s (.unlink (some o) c)).1 c
          else (run cfg f s (.unlink (some o) c)).1) = s2 at hbody hoof2 ⊢
      obtain ⟨st2, g2, k2, -, ⟨o2, ho2, hnext, hexact⟩, hposn⟩ := hbody
      obtain ⟨o2', ho2', hop2, -, hok2⟩ := g2.stable o ob ho hok (Nat.lt_succ_self _)
      rw [ho2] at ho2'; cases ho2'
      have hnr2 : PendNR s2 (some o) := by
        intro p pb hp hpp hne
        obtain ⟨yo0, h0, h1⟩ := g2.nnp p pb hp hpp
        have hout := pending_outside i h0 h1 (hpb p yo0 h0 h1 hne)
        obtain ⟨pb', h2, -, -, -, h5⟩ := k2.keep p yo0 hout h0
        rw [hp] at h2; cases h2
        exact noRefKid_of_sublist k2 (hnr p yo0 h0 h1 hne) (h5 h1 (hnr p yo0 h0 h1 hne))
      have hhead2 : fn = true → succOf ob.children c = o2.children.head? := by
        intro hfn
        have hh := hhead hfn
        cases hch' : ob.children with
        | nil => rw [hch'] at hcm; cases hcm
        | cons a post' =>
          rw [hch'] at hh
          simp only [List.head?_cons, Option.some.injEq] at hh; subst hh
          rw [hexact hfn post' hch', succOf_head]
      obtain ⟨o2'', ho2'', hcase⟩ := hposn pre post hch hprec
      rw [ho2] at ho2''; cases ho2''
      have hnd2 := g2.inv.wf.childNodup o o2 ho2
      have hposo2 := subCard_pos ho2
      refine hl4 s2 o o2 fn _ g2.inv ho2 hok2 (hpb.of_nnp g2.nnp) hnr2 st2
        (by rw [hop2]; exact hpend) hhead2 hnext hoof2 ?_ (by omega) ?_
      · intro t pre2 post2 ht hch2 z hz
        rw [htmp] at ht
        cases post with
        | nil => cases ht
        | cons t' post' =>
          simp only [List.head?_cons, Option.some.injEq] at ht; subst ht
          rcases hcase with ⟨hsame, -, hcpl⟩ | ⟨app, hleft, -⟩
          · have h3 : o2.children = (pre ++ [c]) ++ t' :: post' := by rw [hsame, hch]; simp
            obtain ⟨e1, -⟩ := nodup_split_unique hnd2 h3 hch2
            rw [← e1] at hz
            rcases List.mem_append.1 hz with h | h
            · exact not_ref_fwd k2 (hprec z h)
            · simp only [List.mem_singleton] at h; subst h
              exact not_ref_fwd k2 (not_ref_of_plain hcpl)
          · have h3 : o2.children = pre ++ t' :: (post' ++ app) := by rw [hleft]; simp
            obtain ⟨e1, -⟩ := nodup_split_unique hnd2 h3 hch2
            rw [← e1] at hz
            exact not_ref_fwd k2 (hprec z hz)
      · intro t pre2 post2 ht hch2
        rw [htmp] at ht
        cases post with
        | nil => cases ht
        | cons t' post' =>
          simp only [List.head?_cons, Option.some.injEq] at ht; subst ht
          rcases hcase with ⟨hsame, hsc, -⟩ | ⟨app, hleft, hlt⟩
          · have h3 : o2.children = (pre ++ [c]) ++ t' :: post' := by rw [hsame, hch]; simp
            obtain ⟨e1, -⟩ := nodup_split_unique hnd2 h3 hch2
            rw [← e1, hsc]; simp only [List.length_append, List.length_singleton]; omega
          · have h3 : o2.children = pre ++ t' :: (post' ++ app) := by rw [hleft]; simp
            obtain ⟨e1, -⟩ := nodup_split_unique hnd2 h3 hch2
            rw [← e1]; omega

/-- **fuel_suffices** for the recursion of `_talloc_free` / `_talloc_unlink` / `free_children` -/
theorem run_fuel (cfg : Cfg) (hfix : cfg.fixCx = true) (rk : Nat → Nat) (f : Nat) :
    FreeStmt4 cfg rk f ∧ UnlinkStmt4 cfg rk f ∧ LoopStmt4 cfg rk f := by
  induction f with
  | zero =>
    refine ⟨?_, ?_, ?_⟩
    · intro s x xb _ hx _ _ _ _ _ _ _ _ hf; have := subCard_pos hx; omega
    · intro s ctx x xb _ _ _ _ _ _ _ _ _ _ hf; omega
    · intro s o ob fn cur _ _ _ _ _ _ _ _ _ _ _ h1 _; omega
  | succ f ih =>
    exact ⟨free_step4 cfg hfix rk f ih.2.2, unlink_step4 cfg hfix rk f ih.1, loop_step4 cfg hfix rk f ih.2.1 ih.2.2⟩

end Usual.C01
