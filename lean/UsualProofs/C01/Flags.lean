import UsualProofs.C01.Lim
/-! The ghost flags `oof` / `stuck` are only ever set, never cleared. -/
set_option linter.unusedSimpArgs false
set_option linter.unusedVariables false
namespace Usual.C01

def FlagsLe (s s' : State) : Prop := (s.oof = true → s'.oof = true) ∧ (s.stuck = true → s'.stuck = true)

theorem FlagsLe.refl (s : State) : FlagsLe s s := ⟨id, id⟩
theorem FlagsLe.trans {a b c : State} (h1 : FlagsLe a b) (h2 : FlagsLe b c) : FlagsLe a c :=
  ⟨fun h => h2.1 (h1.1 h), fun h => h2.2 (h1.2 h)⟩

theorem FlagsLe.of_eq {s s' : State} (h1 : s'.oof = s.oof) (h2 : s'.stuck = s.stuck) : FlagsLe s s' :=
  ⟨fun h => h1 ▸ h, fun h => h2 ▸ h⟩

theorem flagsLe_modify (s : State) (i : Nat) (f : Obj → Obj) : FlagsLe s (s.modify i f) := .of_eq rfl rfl
theorem flagsLe_remove (s : State) (i : Nat) : FlagsLe s (s.remove i) := .of_eq rfl rfl
theorem flagsLe_push (s : State) (o : Obj) : FlagsLe s (s.push o) := .of_eq rfl rfl
theorem flagsLe_addLog (s : State) (e : Event) : FlagsLe s (s.addLog e) := .of_eq rfl rfl
theorem flagsLe_setOof (s : State) : FlagsLe s s.setOof := ⟨fun _ => rfl, id⟩
theorem flagsLe_setStuck (s : State) : FlagsLe s s.setStuck := ⟨id, fun _ => rfl⟩

theorem flagsLe_detach (s : State) (t : Nat) : FlagsLe s (detach s t) := by
  unfold detach; split
  · exact .refl s
  · split
    · exact .refl s
    · exact flagsLe_modify _ _ _

theorem flagsLe_addChild (s : State) (p : Option Id) (t : Nat) (b : Bool) : FlagsLe s (addChild s p t b) := by
  unfold addChild; split
  · exact .refl s
  · exact flagsLe_modify _ _ _

theorem applyLim_flagsLe (cfg : Cfg) (f : Nat) (s : State) (t : Option Id) (d : Int) (force : Bool) (s' : State)
    (h : applyLim cfg f s t d force = some s') : FlagsLe s s' := by
  induction f generalizing s t s' with
  | zero => simp only [applyLim] at h; cases h; exact flagsLe_setOof s
  | succ f ih =>
    simp only [applyLim] at h
    split at h
    · cases h; exact .refl s
    · split at h
      · cases h; exact .refl s
      · split at h
        · cases h; exact .refl s
        · split at h
          · exact ih _ _ _ h
          · split at h
            · split at h
              · exact ih _ _ _ h
              · cases h; exact .refl s
            · split at h
              · cases h; exact .refl s
              · split at h
                · cases h
                · split at h
                  · cases h
                  · cases h
                    rename_i s'' hs''
                    exact (ih _ _ _ hs'').trans (flagsLe_modify _ _ _)

theorem applyLim_getD_flagsLe (cfg : Cfg) (f : Nat) (s : State) (t : Option Id) (d : Int) (force : Bool) :
    FlagsLe s ((applyLim cfg f s t d force).getD s) := by
  cases h : applyLim cfg f s t d force with
  | none => exact .refl s
  | some s' => exact applyLim_flagsLe cfg f s t d force s' h

theorem walkSync_flagsLe (s : State) (t : Nat) (o : Obj) (op : WOp) : FlagsLe s (walkSync s t o op).1 := by
  cases op with
  | none => exact .refl s
  | set => exact flagsLe_modify s t _
  | clear =>
    simp only [walkSync]
    split
    · exact .refl s
    · exact flagsLe_modify s t _

theorem walk_flagsLe (cfg : Cfg) (f : Nat) (s : State) (t : Nat) (op : WOp) :
    FlagsLe s (walk cfg f s t op).1 := by
  induction f generalizing s t op with
  | zero => simp only [walk]; exact flagsLe_setOof s
  | succ f ih =>
    simp only [walk]
    split
    · exact .refl s
    · rename_i o ho
      split
      · exact .refl s
      · have hfold : ∀ (l : List Id) (acc : State × Nat) (op1 : WOp), FlagsLe acc.1
            (l.foldl (fun (acc : State × Nat) c =>
              ((walk cfg f acc.1 c op1).1, acc.2 + (walk cfg f acc.1 c op1).2)) acc).1 := by
          intro l
          induction l with
          | nil => intro acc op1; exact .refl _
          | cons c l ihl =>
            intro acc op1
            simp only [List.foldl_cons]
            exact FlagsLe.trans (ih acc.1 c op1)
              (ihl ((walk cfg f acc.1 c op1).1, acc.2 + (walk cfg f acc.1 c op1).2) op1)
        exact FlagsLe.trans (walkSync_flagsLe s t o op) (hfold _ ((walkSync s t o op).1, 0) _)

theorem moveApply_flagsLe (cfg : Cfg) (fuel : Nat) (s1 : State) (t : Nat) (newp oldp : Option Id)
    (oldlim newlim : Bool) (delta : Nat) : FlagsLe s1 (moveApply cfg fuel s1 t newp oldp oldlim newlim delta) := by
  unfold moveApply
  simp only []
  have h2 : FlagsLe s1 (if oldlim = true then (applyLim cfg fuel s1 oldp (-(delta : Int)) true).getD s1 else s1) := by
    split
    · exact applyLim_getD_flagsLe _ _ _ _ _ _
    · exact FlagsLe.refl _
  generalize (if oldlim = true then (applyLim cfg fuel s1 oldp (-(delta : Int)) true).getD s1 else s1) = s2 at h2 ⊢
  split
  · exact (h2.trans (applyLim_getD_flagsLe _ _ _ _ _ _)).trans (flagsLe_modify _ _ _)
  · split
    · split
      · exact h2.trans (flagsLe_modify _ _ _)
      · exact h2
    · exact h2

theorem moveMemlimit_flagsLe (cfg : Cfg) (s : State) (t : Nat) (newp oldp : Option Id) :
    FlagsLe s (moveMemlimit cfg s t newp oldp) := by
  unfold moveMemlimit
  simp only []
  split
  · exact .refl s
  · exact (walk_flagsLe cfg s.fuel s t _).trans (moveApply_flagsLe _ _ _ _ _ _ _ _ _)

theorem moveChild_flagsLe (cfg : Cfg) (s : State) (t : Nat) (tnew told : Option Id) :
    FlagsLe s (moveChild cfg s t tnew told) := by
  unfold moveChild
  split
  · exact .refl s
  · exact (((flagsLe_detach s t).trans (flagsLe_addChild _ _ _ _)).trans (flagsLe_modify _ _ _)).trans
      (moveMemlimit_flagsLe _ _ _ _ _)

theorem moveChild_shapeEq (cfg : Cfg) (s : State) (t : Nat) (tb : Obj) (ht : s.get t = some tb)
    (tnew told : Option Id) : ShapeEq (moveS s t tnew (isRef tb)) (moveChild cfg s t tnew told) := by
  unfold moveChild moveS
  simp only [ht]
  exact moveMemlimit_shapeEq _ _ _ _ _

theorem reparent_flagsLe (cfg : Cfg) (s : State) (oldp newp : Option Id) (o : Nat) :
    FlagsLe s (reparent cfg s oldp newp o).1 := by
  unfold reparent
  split
  · exact .refl s
  · simp only []
    repeat (first | exact FlagsLe.refl _ | exact moveChild_flagsLe _ _ _ _ _ | split)

theorem throwChild_flagsLe (cfg : Cfg) (s : State) (t : Nat) : FlagsLe s (throwChild cfg s t) := by
  unfold throwChild
  split
  · exact .refl s
  · split
    · exact flagsLe_setOof s
    · split
      · simp only []
        split
        · exact moveChild_flagsLe _ _ _ _ _
        · exact .refl s
      · exact reparent_flagsLe _ _ _ _ _

theorem freeBegin_flagsLe (s : State) (o : Nat) (ob : Obj) (d' : Dtor) (logged : Bool) :
    FlagsLe s (freeBegin s o ob d' logged) := by
  unfold freeBegin
  simp only []
  refine FlagsLe.trans ?_ (flagsLe_detach _ _)
  have h0 : FlagsLe s (if logged = true then
      (s.modify o fun x => { x with dtor := d', pending := true }).addLog (.dtorOk o)
      else s.modify o fun x => { x with dtor := d', pending := true }) := by
    split
    · exact (flagsLe_modify _ _ _).trans (flagsLe_addLog _ _)
    · exact flagsLe_modify _ _ _
  split
  · exact h0.trans (flagsLe_modify _ _ _)
  · exact h0

theorem freeEnd_flagsLe (cfg : Cfg) (s : State) (o : Nat) : FlagsLe s (freeEnd cfg s o).1 := by
  unfold freeEnd
  split
  · exact .refl s
  · simp only []
    refine FlagsLe.trans ?_ (applyLim_getD_flagsLe _ _ _ _ _ _)
    refine FlagsLe.trans ?_ (flagsLe_addLog _ _)
    refine FlagsLe.trans ?_ (flagsLe_remove _ _)
    split
    · exact .refl s
    · exact flagsLe_setStuck s

theorem promoteMove_flagsLe (cfg : Cfg) (s : State) (o : Nat) (ob rb : Obj) (rest : List Id)
    (tparent : Option Id) : FlagsLe s (promoteMove cfg s o ob rb rest tparent) := by
  unfold promoteMove
  simp only []
  have h4 : FlagsLe s (addChild ((detach (s.modify o fun x => { x with refs := rest }) o).modify o
      fun x => { x with parent := rb.parent }) rb.parent o (isRef ob)) :=
    (((flagsLe_modify s o _).trans (flagsLe_detach _ _)).trans (flagsLe_modify _ _ _)).trans
      (flagsLe_addChild _ _ _ _)
  split
  · exact h4.trans (moveMemlimit_flagsLe _ _ _ _ _)
  · exact h4

theorem loopEnter_flagsLe (s : State) (o c : Nat) : FlagsLe s (loopEnter s o c) := by
  unfold loopEnter; split
  · exact .refl s
  · exact flagsLe_setStuck s

theorem run_flagsLe (cfg : Cfg) (f : Nat) (s : State) (c : Call) : FlagsLe s (run cfg f s c).1 := by
  induction f generalizing s c with
  | zero => simp only [run]; exact flagsLe_setOof s
  | succ f ih =>
    cases c with
    | free o =>
      simp only [run]
      split
      · exact .refl s
      · rename_i ob hob
        split
        · split
          · exact .refl s
          · split
            · split
              · exact ih _ _
              · exact .refl s
            · exact .refl s
        · split
          · exact .refl s
          · split
            · exact (flagsLe_modify _ _ _).trans (flagsLe_addLog _ _)
            · exact ((freeBegin_flagsLe _ _ _ _ _).trans (ih _ _)).trans (freeEnd_flagsLe _ _ _)
    | unlink ctx o =>
      simp only [run]
      split
      · exact .refl s
      · split
        · split
          · exact ih _ _
          · exact .refl s
        · split
          · exact ih _ _
          · split
            · exact .refl s
            · exact (promoteMove_flagsLe _ _ _ _ _ _ _).trans (ih _ _)
    | loop o fn cur =>
      simp only [run]
      split
      · exact .refl s
      · rename_i c
        have h0 := loopEnter_flagsLe s o c
        split
        · exact h0
        · split
          · exact h0.trans (ih _ _)
          · refine (h0.trans ?_).trans (ih _ _)
            split
            · exact (ih _ _).trans (throwChild_flagsLe _ _ _)
            · exact ih _ _

end Usual.C01
