import UsualProofs.C01.RunAcct
import UsualProofs.C01.OpsFree
/-! The accounting invariant of the memory limit under the public operations that release
(`talloc_free`, `talloc_unlink`, `talloc_free_children`). -/
set_option linter.unusedSimpArgs false
set_option linter.unusedVariables false
namespace Usual.C01

theorem af_setOof {s : State} (af : AF s) : AF s.setOof :=
  af_of_afields (s := s) (s' := s.setOof) rfl (fun _ => rfl) af

/-- `talloc_free(o)` -/
theorem free_acct {rk : Nat → Nat} {s : State} {o : Nat} (cfg : Cfg) (ok : CfgOK cfg) (w : WF s)
    (wr : Ranked rk s) (af : AF s) (ho : UserObj s o)
    (hoof : (step cfg s (.free o)).1.oof = false) (hstuck : (step cfg s (.free o)).1.stuck = false) :
    AF (step cfg s (.free o)).1 := by
  obtain ⟨ob, hob, hk, hnull⟩ := ho
  have i : Inv rk s := ⟨w.toWFp, wr⟩
  simp only [step] at hoof hstuck ⊢
  by_cases hrefs : ob.refs = []
  · exact (run_acct cfg ok rk s.fuel).1 s o ob i af hob hrefs (w.noPending o ob hob) hnull
      (pendBelow_of_wf w _ _) hoof hstuck
  · obtain ⟨f, hf⟩ : ∃ f, s.fuel = f + 1 := ⟨_, fuel_succ s⟩
    rw [hf] at hoof hstuck ⊢
    simp only [run, hob, hrefs, ne_eq, not_false_eq_true, if_true] at hoof hstuck ⊢
    split
    next h1 => exact af
    next h1 =>
      split
      next h2 =>
        split
        next r hr =>
          have hrm : r ∈ ob.refs := List.mem_of_getLast? hr
          obtain ⟨rb, hrb, hrk⟩ := w.refLive o ob r hob hrm
          have hrnp : rb.kind ≠ .plain := by rw [hrk]; simp
          cases f with
          | zero => simp only [run]; exact af_setOof af
          | succ f =>
            rw [if_neg h1, if_pos h2] at hoof
            simp only [hr] at hoof
            exact acct_free_leaf cfg ok.gone f s r rb i af hrb hrnp hoof
        next => exact af
      next h2 => exact af

theorem runUnlink_acct {rk : Nat → Nat} {s : State} {o : Nat} (cfg : Cfg) (ok : CfgOK cfg) (w : WF s)
    (wr : Ranked rk s) (af : AF s) (ctx : Option Id) (ho : UserObj s o)
    (hoof : (run cfg s.fuel s (.unlink ctx o)).1.oof = false)
    (hstuck : (run cfg s.fuel s (.unlink ctx o)).1.stuck = false) :
    AF (run cfg s.fuel s (.unlink ctx o)).1 := by
  obtain ⟨ob, hob, hk, hnull⟩ := ho
  have i : Inv rk s := ⟨w.toWFp, wr⟩
  by_cases hprim : ob.parent = orNull s ctx
  · exact (run_acct cfg ok rk s.fuel).2.1 s ctx o ob i af hob (w.noPending o ob hob) hprim hnull
      (pendBelow_of_wf w _ _) hoof hstuck
  · obtain ⟨f, hf⟩ : ∃ f, s.fuel = f + 1 := ⟨_, fuel_succ s⟩
    rw [hf] at hoof hstuck ⊢
    simp only [run, hob, ne_eq, hprim, not_false_eq_true, if_true] at hoof hstuck ⊢
    split
    · rename_i r hr
      have hrm := findRefByParent_mem _ _ _ _ hr
      obtain ⟨rb, hrb, hrk⟩ := w.refLive o ob r hob hrm
      have hrnp : rb.kind ≠ .plain := by rw [hrk]; simp
      cases f with
      | zero => simp only [run]; exact af_setOof af
      | succ f =>
        simp only [hr] at hoof
        exact acct_free_leaf cfg ok.gone f s r rb i af hrb hrnp hoof
    · exact af

theorem freeChildren_acct {rk : Nat → Nat} {s : State} {o : Nat} (cfg : Cfg) (ok : CfgOK cfg) (w : WF s)
    (wr : Ranked rk s) (af : AF s) (ho : UserObj s o)
    (hoof : (step cfg s (.freeChildren o)).1.oof = false)
    (hstuck : (step cfg s (.freeChildren o)).1.stuck = false) :
    AF (step cfg s (.freeChildren o)).1 := by
  obtain ⟨ob, hob, hk, hnull⟩ := ho
  have i : Inv rk s := ⟨w.toWFp, wr⟩
  simp only [step] at hoof hstuck ⊢
  exact (run_acct cfg ok rk s.fuel).2.2 s o ob false _ i af hob hk (pendBelow_of_wf w _ _) hoof hstuck

end Usual.C01
