import UsualProofs.C01.SetLimitAcct
import UsualProofs.C01.Step
import UsualProofs.C01.NullOffAcct
/-! Every public operation of the repaired code keeps the accounting invariant of the memory limit. -/
set_option linter.unusedSimpArgs false
set_option linter.unusedVariables false
namespace Usual.C01

theorem cfgOK_fixed : CfgOK Cfg.fixed := ⟨rfl, rfl, rfl, rfl⟩

/-- one operation of the repaired code: `cur_size = Σ charges` and the flag discipline are kept -/
theorem step_acct {rk : Nat → Nat} {s : State} (op : Op) (w : WF s) (wr : Ranked rk s) (af : AF s)
    (hop : OpOK rk s op)
    (hoof : (step Cfg.fixed s op).1.oof = false) (hstuck : (step Cfg.fixed s op).1.stuck = false) :
    AF (step Cfg.fixed s op).1 := by
  have ok := cfgOK_fixed
  cases op with
  | alloc p sz fc fl => exact alloc_acct _ ok w wr af p sz fc fl hop hoof
  | free o => exact free_acct _ ok w wr af hop hoof hstuck
  | freeChildren o => exact freeChildren_acct _ ok w wr af hop hoof hstuck
  | reference ctx o fl => exact reference_acct _ ok w wr af ctx o fl hop.1 hop.2.1 hoof
  | unlink ctx o => exact runUnlink_acct _ ok w wr af ctx hop hoof hstuck
  | steal np o => exact steal_acct _ ok w wr af np o hop.1 hop.2.1 hop.2.2 hoof
  | reparent op' np o => exact reparentOp_acct _ ok w wr af op' np o hop.1 hop.2.1 hop.2.2 hoof
  | realloc p o sz fl => exact realloc_acct _ ok rfl rfl w wr af p o sz fl hop hoof hstuck
  | setDtor o d => exact setDtor_acct _ af o d
  | setLimit o mx fl => exact setLimit_acct _ ok rfl w wr af o mx fl hop hoof
  | nullOn fl => exact nullOn_acct _ ok w wr af fl hoof
  | nullOff => exact nullOff_acct _ ok w wr af hoof hstuck

theorem af_empty : AF {} := by
  refine ⟨?_, ?_, ?_, ?_, ?_⟩
  · intro l lb ctx hl; simp [State.get] at hl
  · intro x o hx; simp [State.get] at hx
  · intro x o p po hx; simp [State.get] at hx
  · intro l lb ctx cb hl; simp [State.get] at hl
  · intro l1 l2 b1 b2 ctx h1; simp [State.get] at h1

end Usual.C01
