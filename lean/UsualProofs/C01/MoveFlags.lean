import UsualProofs.C01.AncMove
/-! The USE / HAS flags stay consistent through `move_memlimit`. -/
set_option linter.unusedSimpArgs false
set_option linter.unusedVariables false
namespace Usual.C01

/-- the flag invariant with the inheritance clause waived for one chunk (the one just re-parented) -/
structure FlagsInvEx (s : State) (t : Nat) : Prop where
  hasUse : ∀ (x : Nat) o, s.get x = some o → o.hasLim = true → o.useLim = true
  inherit : ∀ (x : Nat) o p po, x ≠ t → s.get x = some o → o.parent = some p → s.get p = some po →
      po.useLim = true → o.kind ≠ .limit → o.useLim = true
  chunkHas : ∀ (l : Nat) lb ctx cb, s.get l = some lb → lb.kind = .limit → lb.parent = some ctx →
      s.get ctx = some cb → cb.hasLim = true
  chunkUnique : ∀ (l1 l2 : Nat) b1 b2 ctx, s.get l1 = some b1 → s.get l2 = some b2 → b1.kind = .limit →
      b2.kind = .limit → b1.parent = some ctx → b2.parent = some ctx → l1 = l2

theorem FlagsInv.toEx {s : State} (fl : FlagsInv s) (t : Nat) : FlagsInvEx s t :=
  ⟨fl.hasUse, fun x o p po _ => fl.inherit x o p po, fl.chunkHas, fl.chunkUnique⟩

/-- the root of an `OP_CLEAR_MEMLIMIT` walk loses its flag unless it carries a limit -/
theorem walk_clear_root {rk : Nat → Nat} {s : State} (i : InvT rk s) (cfg : Cfg) (f : Nat) (t : Nat) (tb : Obj)
    (ht : s.get t = some tb) (hp : tb.pending = false) (hh : tb.hasLim = false) :
    (walk cfg (f + 1) s t .clear).1.get t = some { tb with useLim := false } := by
  simp only [walk, ht, hp, Bool.false_eq_true, if_false, walkSync, hh]
  have he0 : EqButUse s (s.modify t fun x => { x with useLim := false }) :=
    eqButUse_modify s t _ (fun _ => rfl)
  rw [walk_fold_frame i cfg f t tb ht .clear t tb.children _ he0 (fun c hc => hc)]
  · simp [ht, hp, hh]
  · intro c hc hin
    obtain ⟨cb', hcb', hcp', -⟩ := i.wf.childBack t tb c ht hc
    have hanc : Anc s t c := Anc.parent (by rw [parentOf_eq hcb']; exact hcp')
    rcases hin with rfl | h
    · exact Anc.irrefl i.ranked hanc
    · exact Anc.irrefl i.ranked (hanc.trans h)

/-- after the walk of `move_memlimit` the flag invariant holds again (everywhere) -/
theorem flags_walk {rk : Nat → Nat} {s3 : State} (i3 : InvT rk s3) (cfg : Cfg) (f : Nat) (t : Nat) (tb : Obj)
    (ht : s3.get t = some tb) (htk : tb.kind ≠ .limit)
    (hnp : ∀ z zb, InSub s3 t z → s3.get z = some zb → zb.pending = false)
    (fl : FlagsInvEx s3 t) (op : WOp)
    (hop : match op with
      | .set => True
      | .none => tb.useLim = true
      | .clear => ∀ p pb, tb.parent = some p → s3.get p = some pb → pb.useLim = false)
    (hoof : (walk cfg f s3 t op).1.oof = false) : FlagsInv (walk cfg f s3 t op).1 := by
  have he := walk_eqButUse cfg f s3 t op
  generalize hs1 : (walk cfg f s3 t op).1 = s1 at he hoof
  have hfr : ∀ y, ¬ InSub s3 t y → s1.get y = s3.get y := by
    intro y hy; rw [← hs1]; exact walk_frame cfg f s3 t op i3 y hy
  -- fields other than useLim
  have hfield : ∀ (y : Nat) yb1, s1.get y = some yb1 → ∃ yb3, s3.get y = some yb3 ∧ yb1.parent = yb3.parent ∧
      yb1.kind = yb3.kind ∧ yb1.hasLim = yb3.hasLim := by
    intro y yb1 hy
    obtain ⟨yb3, h3, e⟩ := he.symm.get hy
    exact ⟨yb3, h3, by rw [e], by rw [e], by rw [e]⟩
  refine ⟨?_, ?_, ?_, ?_⟩
  · -- HAS ⇒ USE
    intro x o hx hh
    obtain ⟨o3, h3, -, -, e3⟩ := hfield x o hx
    have hu3 := fl.hasUse x o3 h3 (e3 ▸ hh)
    cases op with
    | none => rw [← hs1, walk_none_get] at hx; rw [h3] at hx; cases hx; exact hu3
    | set =>
      by_cases hin : InSub s3 t x
      · obtain ⟨o', ho', hu'⟩ := walk_set cfg f s3 t i3 hnp ⟨tb, ht⟩ (by rw [hs1]; exact hoof) x hin o3 h3
        rw [hs1, hx] at ho'; cases ho'; exact hu'
      · rw [hfr x hin, h3] at hx; cases hx; exact hu3
    | clear =>
      rcases walk_cleared cfg f s3 t .clear (by simp) x o3 o h3 (by rw [hs1]; exact hx) with rfl | ⟨-, hc⟩
      · exact hu3
      · rw [← e3, hh] at hc; cases hc
  · -- inheritance
    intro x o p po hx hpar hp hpu hk
    obtain ⟨o3, h3, e1, e2, -⟩ := hfield x o hx
    obtain ⟨po3, hp3, -, -, -⟩ := hfield p po hp
    have hpar3 : o3.parent = some p := by rw [← e1]; exact hpar
    have hk3 : o3.kind ≠ .limit := by rw [← e2]; exact hk
    have hpo3 : parentOf s3 x = some p := by rw [parentOf_eq h3]; exact hpar3
    cases op with
    | none =>
      rw [← hs1, walk_none_get] at hx hp
      rw [h3] at hx; cases hx
      rw [hp3] at hp; cases hp
      by_cases hxt : x = t
      · subst hxt; rw [ht] at h3; cases h3; exact hop
      · exact fl.inherit x o p po hxt h3 hpar3 hp3 hpu hk3
    | set =>
      by_cases hin : InSub s3 t x
      · obtain ⟨o', ho', hu'⟩ := walk_set cfg f s3 t i3 hnp ⟨tb, ht⟩ (by rw [hs1]; exact hoof) x hin o3 h3
        rw [hs1, hx] at ho'; cases ho'; exact hu'
      · have hxt : x ≠ t := fun e => hin (Or.inl e)
        have hpin : ¬ InSub s3 t p := fun h => hin (InSub.of_parent hpo3 h)
        rw [hfr x hin, h3] at hx; cases hx
        rw [hfr p hpin, hp3] at hp; cases hp
        exact fl.inherit x o p po hxt h3 hpar3 hp3 hpu hk3
    | clear =>
      have hpu3 : po3.useLim = true := by
        rcases walk_cleared cfg f s3 t .clear (by simp) p po3 po hp3 (by rw [hs1]; exact hp) with rfl | ⟨e, -⟩
        · exact hpu
        · rw [e] at hpu; cases hpu
      cases hux : o.useLim with
      | true => rfl
      | false =>
        exfalso
        by_cases hxt : x = t
        · subst hxt
          rw [ht] at h3; cases h3
          have := hop p po3 hpar3 hp3
          rw [hpu3] at this; cases this
        · have hu3 : o3.useLim = true := fl.inherit x o3 p po3 hxt h3 hpar3 hp3 hpu3 hk3
          -- x has lost its flag: it is below t, and then its parent has lost it as well
          have hin : InSub s3 t x := by
            apply Classical.byContradiction; intro hin
            rw [hfr x hin, h3] at hx; cases hx
            rw [hu3] at hux; cases hux
          rcases hin with e | hanc
          · exact hxt e
          · obtain ⟨p', pb', hp1, hp2, hp3'⟩ := walk_clear_parent cfg f s3 t i3 hnp x hanc o3 o h3
              (by rw [hs1]; exact hx) hu3 hux
            rw [hpo3] at hp1; cases hp1
            rw [hs1, hp] at hp2; cases hp2
            rw [hpu] at hp3'; cases hp3'
  · intro l lb ctx cb hl hk hp hc
    obtain ⟨lb3, hl3, e1, e2, -⟩ := hfield l lb hl
    obtain ⟨cb3, hc3, -, -, e3⟩ := hfield ctx cb hc
    rw [e3]
    exact fl.chunkHas l lb3 ctx cb3 hl3 (by rw [← e2]; exact hk) (by rw [← e1]; exact hp) hc3
  · intro l1 l2 b1 b2 ctx h1 h2 k1 k2 p1 p2
    obtain ⟨c1, g1, e1, e2, -⟩ := hfield l1 b1 h1
    obtain ⟨c2, g2, f1, f2, -⟩ := hfield l2 b2 h2
    exact fl.chunkUnique l1 l2 c1 c2 ctx g1 g2 (by rw [← e2]; exact k1) (by rw [← f2]; exact k2)
      (by rw [← e1]; exact p1) (by rw [← f1]; exact p2)

end Usual.C01
