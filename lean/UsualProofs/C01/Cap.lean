import UsualProofs.C01.Unlink
/-! The admission rule of the memory limit: a request is admitted exactly when it fits under every
enclosing limit, and a refused request changes nothing. -/
set_option linter.unusedSimpArgs false
set_option linter.unusedVariables false
namespace Usual.C01

/-- `apply_memlimit(t, d, false)` with `d > 0` succeeds iff `d` fits under every limit it visits -/
theorem applyLim_isSome_iff (cfg : Cfg) (f : Nat) (s : State) (t : Option Id) (d : Int) (hd : 0 < d) :
    (applyLim cfg f s t d false).isSome = (limitsAbove cfg f s t).all (fits s d) := by
  induction f generalizing t with
  | zero => simp [applyLim, limitsAbove]
  | succ f ih =>
    simp only [applyLim, limitsAbove]
    cases t with
    | none => simp
    | some t =>
      simp only []
      cases ht : s.get t with
      | none => simp
      | some o =>
        simp only []
        by_cases hu : o.useLim = true
        · simp only [hu, Bool.not_true, Bool.false_eq_true, if_false]
          by_cases hh : o.hasLim = true
          · simp only [hh, Bool.not_true, Bool.false_eq_true, if_false]
            cases hl : findLim s o.children with
            | none =>
              simp only []
              split
              · exact ih _
              · simp
            | some l =>
              simp only []
              cases hlb : s.get l with
              | none => simp
              | some lb =>
                simp only [List.all_cons, fits, hlb]
                have hdd : decide (d > 0) = true := by simpa using hd
                simp only [hdd, Bool.not_false, Bool.true_and]
                by_cases hfit : (lb.lcur : Int) + d ≤ lb.lmax
                · have hnot : ¬ ((lb.lcur : Int) + d > lb.lmax) := by omega
                  simp only [hnot, decide_false, Bool.false_eq_true, if_false, hfit, decide_true, Bool.true_and]
                  rw [← ih]
                  cases applyLim cfg f s o.parent d false <;> simp
                · have hgt : (lb.lcur : Int) + d > lb.lmax := by omega
                  simp [hgt, hfit]
          · have hh' : o.hasLim = false := by simpa using hh
            simp only [hh', Bool.not_false, if_true]
            exact ih _
        · have hu' : o.useLim = false := by simpa using hu
          simp [hu']

/-- a request that is refused by a limit leaves the state exactly as it was -/
theorem hdrAlloc_refused_eq (cfg : Cfg) (s : State) (cx : Nat) (parent : Option Id) (len : Nat) (prepend : Bool)
    (kind : Kind) (fail : Bool)
    (h : applyLim cfg s.fuel s (orNull s parent) (totalSize len : Int) false = none) :
    hdrAlloc cfg s cx parent len prepend kind fail = (s, false) := by
  unfold hdrAlloc
  split
  · rfl
  · simp only [h]

theorem totalSize_pos (n : Nat) : (0 : Int) < (totalSize n : Int) := by
  unfold totalSize THSIZE; omega

/-- **hard cap**: `talloc_size(ctx, n)` is admitted iff `n ≤ TALLOC_MAXLEN` and the charge
`ALIGN(n) + sizeof(header)` fits under every enclosing limit -/
theorem admits_iff (cfg : Cfg) (s : State) (ctx : Option Id) (n : Nat) :
    admits cfg s ctx n = true ↔
      n ≤ MAXLEN ∧ (limitsAbove cfg s.fuel s (orNull s ctx)).all (fits s (totalSize n)) = true := by
  unfold admits hdrAlloc
  by_cases hlen : n > MAXLEN
  · simp only [hlen, if_true]
    constructor
    · intro h; cases h
    · intro h; omega
  · simp only [hlen, if_false]
    have hle : n ≤ MAXLEN := by omega
    rw [← applyLim_isSome_iff cfg s.fuel s (orNull s ctx) _ (totalSize_pos n)]
    cases applyLim cfg s.fuel s (orNull s ctx) (totalSize n : Int) false with
    | none => simp
    | some s1 => simp [hle]


/-- the chunks `apply_memlimit` visits belong to the context it starts from or to ancestors of it -/
theorem limitsAbove_spec {rk : Nat → Nat} {s : State} (i : InvT rk s) (cfg : Cfg) (f : Nat) (p : Nat) (l : Id)
    (h : l ∈ limitsAbove cfg f s (some p)) :
    ∃ lb q, s.get l = some lb ∧ lb.kind = .limit ∧ lb.parent = some q ∧ rk q ≤ rk p := by
  induction f generalizing p with
  | zero => simp [limitsAbove] at h
  | succ f ih =>
    simp only [limitsAbove] at h
    cases hp : s.get p with
    | none => simp [hp] at h
    | some o =>
      simp only [hp] at h
      -- going on to the parent
      have hup : l ∈ limitsAbove cfg f s o.parent →
          ∃ lb q, s.get l = some lb ∧ lb.kind = .limit ∧ lb.parent = some q ∧ rk q ≤ rk p := by
        intro hm
        cases hpar : o.parent with
        | none =>
          rw [hpar] at hm
          cases f with
          | zero => simp [limitsAbove] at hm
          | succ f => simp [limitsAbove] at hm
        | some pp =>
          rw [hpar] at hm
          obtain ⟨lb, q, a1, a2, a3, a4⟩ := ih pp hm
          have := i.ranked.parentLt p o pp hp hpar
          exact ⟨lb, q, a1, a2, a3, by omega⟩
      split at h
      · cases h
      · split at h
        · exact hup h
        · split at h
          · split at h
            · exact hup h
            · cases h
          · rename_i l' hl'
            split at h
            · cases h
            · rename_i lb' hlb'
              simp only [List.mem_cons] at h
              rcases h with rfl | h
              · obtain ⟨hm, lb, hlb, hlk⟩ := findLim_spec s _ l hl'
                obtain ⟨co, hco, hcp, -⟩ := i.wf.childBack p o l hp hm
                have h3 : co = lb := Option.some.inj (hco.symm.trans hlb)
                exact ⟨lb, p, hlb, hlk, h3 ▸ hcp, Nat.le_refl _⟩
              · exact hup h


/-- the effect of `apply_memlimit` on the heap: exactly the visited limit chunks move by `d`
(clamped at 0) -/
theorem applyLim_char {rk : Nat → Nat} {s : State} (i : InvT rk s) (cfg : Cfg) (f : Nat) (t : Option Id)
    (d : Int) (force : Bool) (s' : State) (h : applyLim cfg f s t d force = some s') (j : Nat) :
    (j ∈ limitsAbove cfg f s t →
      s'.get j = (s.get j).map fun o => { o with lcur := ((o.lcur : Int) + d).toNat }) ∧
    (j ∉ limitsAbove cfg f s t → s'.get j = s.get j) := by
  induction f generalizing t s' j with
  | zero => simp only [applyLim] at h; cases h; simp [limitsAbove]
  | succ f ih =>
    simp only [applyLim] at h
    simp only [limitsAbove]
    cases t with
    | none => simp only [] at h; cases h; simp
    | some t =>
      simp only [] at h ⊢
      cases ht : s.get t with
      | none => simp only [ht] at h; cases h; simp
      | some o =>
        simp only [ht] at h ⊢
        by_cases hu : o.useLim = true
        case neg =>
          have hu' : o.useLim = false := by simpa using hu
          simp only [hu', Bool.not_false, if_true] at h ⊢
          cases h; simp
        simp only [hu, Bool.not_true, Bool.false_eq_true, if_false] at h ⊢
        by_cases hh : o.hasLim = true
        case neg =>
          have hh' : o.hasLim = false := by simpa using hh
          simp only [hh', Bool.not_false, if_true] at h ⊢
          exact ih _ _ h j
        simp only [hh, Bool.not_true, Bool.false_eq_true, if_false] at h ⊢
        cases hl : findLim s o.children with
        | none =>
          simp only [hl] at h ⊢
          split at h
          · rename_i hg; simp only [hg, if_true]; exact ih _ _ h j
          · rename_i hg; cases h; simp [hg]
        | some l =>
          simp only [hl] at h ⊢
          cases hlb : s.get l with
          | none => simp only [hlb] at h; cases h; simp
          | some lb =>
            simp only [hlb] at h ⊢
            split at h
            · cases h
            · cases hrec : applyLim cfg f s o.parent d force with
              | none => simp only [hrec] at h; cases h
              | some s'' =>
                simp only [hrec, Option.some.injEq] at h
                subst h
                have ih' := ih o.parent s'' hrec
                -- l is not among the chunks of the ancestors
                have hnl : l ∉ limitsAbove cfg f s o.parent := by
                  intro hm
                  cases hpar : o.parent with
                  | none =>
                    rw [hpar] at hm
                    cases f with
                    | zero => simp [limitsAbove] at hm
                    | succ f => simp [limitsAbove] at hm
                  | some pp =>
                    rw [hpar] at hm
                    obtain ⟨lb2, q, a1, a2, a3, a4⟩ := limitsAbove_spec i cfg f pp l hm
                    obtain ⟨hm2, lb3, hlb3, -⟩ := findLim_spec s _ l hl
                    obtain ⟨co, hco, hcp, -⟩ := i.wf.childBack t o l ht hm2
                    have e1 : co = lb2 := Option.some.inj (hco.symm.trans a1)
                    rw [e1, a3] at hcp
                    cases hcp
                    have := i.ranked.parentLt t o pp ht hpar
                    omega
                rw [get_modify]
                by_cases hjl : l = j
                · subst hjl
                  simp only [if_true, List.mem_cons, true_or, not_true_eq_false, false_implies, and_true,
                    true_implies]
                  rw [(ih' l).2 hnl, hlb]
                · simp only [hjl, if_false, List.mem_cons, Ne.symm hjl, false_or]
                  exact ih' j


/-- same heap up to the memlimit counters -/
def EqButCur (s s' : State) : Prop :=
  ∀ j : Nat, (s'.get j).map (fun o => { o with lcur := 0 }) = (s.get j).map (fun o => { o with lcur := 0 })

theorem EqButCur.get {s s' : State} (h : EqButCur s s') {j : Nat} {o : Obj} (hj : s.get j = some o) :
    ∃ o', s'.get j = some o' ∧ o' = { o with lcur := o'.lcur } := by
  have := h j
  rw [hj] at this
  cases h' : s'.get j with
  | none => rw [h'] at this; cases this
  | some o' =>
    rw [h'] at this
    simp only [Option.map_some, Option.some.injEq] at this
    refine ⟨o', rfl, ?_⟩
    cases o; cases o'; simp_all

theorem EqButCur.none {s s' : State} (h : EqButCur s s') {j : Nat} (hj : s.get j = none) : s'.get j = none := by
  have := h j
  rw [hj] at this
  cases h' : s'.get j with
  | none => rfl
  | some o' => rw [h'] at this; cases this

theorem findLim_congr {s s' : State} (h : EqButCur s s') (cs : List Id) : findLim s' cs = findLim s cs := by
  induction cs with
  | nil => rfl
  | cons c cs ih =>
    simp only [findLim]
    cases hc : s.get c with
    | none => rw [h.none hc]; exact ih
    | some co =>
      obtain ⟨co', hco', e⟩ := h.get hc
      rw [hco']
      have : isLimit co' = isLimit co := by rw [e]; rfl
      simp only [this, ih]

theorem limitsAbove_congr {s s' : State} (h : EqButCur s s') (cfg : Cfg) (f : Nat) (t : Option Id) :
    limitsAbove cfg f s' t = limitsAbove cfg f s t := by
  induction f generalizing t with
  | zero => rfl
  | succ f ih =>
    simp only [limitsAbove]
    cases t with
    | none => rfl
    | some t =>
      simp only []
      cases ht : s.get t with
      | none => rw [h.none ht]
      | some o =>
        obtain ⟨o', ho', e⟩ := h.get ht
        rw [ho']
        simp only []
        have e1 : o'.useLim = o.useLim := by rw [e]
        have e2 : o'.hasLim = o.hasLim := by rw [e]
        have e3 : o'.parent = o.parent := by rw [e]
        have e4 : o'.children = o.children := by rw [e]
        rw [e1, e2, e3, e4, findLim_congr h, ih]
        cases findLim s o.children with
        | none => rfl
        | some l =>
          simp only []
          cases hl : s.get l with
          | none => rw [h.none hl]
          | some lb =>
            obtain ⟨lb', hlb', -⟩ := h.get hl
            rw [hlb']

theorem applyLim_eqButCur {rk : Nat → Nat} {s : State} (i : InvT rk s) (cfg : Cfg) (f : Nat) (t : Option Id)
    (d : Int) (force : Bool) (s' : State) (h : applyLim cfg f s t d force = some s') : EqButCur s s' := by
  intro j
  obtain ⟨h1, h2⟩ := applyLim_char i cfg f t d force s' h j
  by_cases hm : j ∈ limitsAbove cfg f s t
  · rw [h1 hm]; cases s.get j <;> simp
  · rw [h2 hm]

/-- only a positive, unforced charge can be refused -/
theorem applyLim_isSome_of (cfg : Cfg) (f : Nat) (s : State) (t : Option Id) (d : Int) (force : Bool)
    (hd : d ≤ 0 ∨ force = true) : (applyLim cfg f s t d force).isSome = true := by
  induction f generalizing t with
  | zero => simp [applyLim]
  | succ f ih =>
    simp only [applyLim]
    cases t with
    | none => simp
    | some t =>
      simp only []
      cases s.get t with
      | none => simp
      | some o =>
        simp only []
        split
        · simp
        · split
          · exact ih _
          · split
            · split
              · exact ih _
              · simp
            · split
              · simp
              · have hnd : (decide (d > 0) && !force) = false := by
                  rcases hd with hd | hd
                  · have : decide (d > 0) = false := by simp; omega
                    simp [this]
                  · simp [hd]
                simp only [hnd, Bool.false_and, Bool.false_eq_true, if_false]
                have := ih o.parent
                revert this
                cases applyLim cfg f s o.parent d force <;> simp

/-- **a failed request changes nothing**: charging `d > 0` and rolling it back (the path taken when
the underlying allocator fails) restores every object -/
theorem applyLim_rollback {rk : Nat → Nat} {s : State} (i : InvT rk s) (cfg : Cfg) (f f' : Nat) (t : Option Id)
    (d : Int) (hd : 0 ≤ d) (force : Bool) (s1 : State) (h1 : applyLim cfg f s t d false = some s1)
    (hf : limitsAbove cfg f' s t = limitsAbove cfg f s t) :
    ∀ j : Nat, ((applyLim cfg f' s1 t (-d) force).getD s1).get j = s.get j := by
  intro j
  have hsh := applyLim_shapeEq cfg f s t d false s1 h1
  have i1 : InvT rk s1 := i.shapeEq hsh
  have he := applyLim_eqButCur i cfg f t d false s1 h1
  obtain ⟨a1, a2⟩ := applyLim_char i cfg f t d false s1 h1 j
  cases h2 : applyLim cfg f' s1 t (-d) force with
  | none =>
    -- cannot be refused: the amount is not positive
    exfalso
    have := applyLim_isSome_of cfg f' s1 t (-d) force (Or.inl (by omega))
    rw [h2] at this; cases this
  | some s2 =>
    simp only [Option.getD_some]
    obtain ⟨b1, b2⟩ := applyLim_char i1 cfg f' t (-d) force s2 h2 j
    rw [limitsAbove_congr he, hf] at b1 b2
    by_cases hm : j ∈ limitsAbove cfg f s t
    · rw [b1 hm, a1 hm]
      cases s.get j with
      | none => rfl
      | some o =>
        simp only [Option.map_some, Option.some.injEq]
        have : (((((o.lcur : Int) + d).toNat : Nat) : Int) + -d).toNat = o.lcur := by omega
        rw [this]
    · rw [b2 hm, a2 hm]

end Usual.C01
