import UsualProofs.C01.ReallocAcct
import UsualProofs.C01.OpsLimit
/-! The accounting invariant under talloc_set_memlimit: lifting a limit. -/
set_option linter.unusedSimpArgs false
set_option linter.unusedVariables false
namespace Usual.C01

theorem findLim_none_spec (s : State) (cs : List Id) (h : findLim s cs = none) :
    ∀ c ∈ cs, ∀ cb, s.get c = some cb → cb.kind ≠ .limit := by
  induction cs with
  | nil => intro c hc; cases hc
  | cons a cs ih =>
    simp only [findLim] at h
    intro c hc cb hcb hk
    cases ha : s.get a with
    | none =>
      rw [ha] at h
      rcases List.mem_cons.1 hc with rfl | hc'
      · rw [ha] at hcb; cases hcb
      · exact ih h c hc' cb hcb hk
    | some ab =>
      rw [ha] at h
      simp only at h
      split at h
      · cases h
      · rename_i hnl
        rcases List.mem_cons.1 hc with rfl | hc'
        · rw [ha] at hcb; cases hcb; simp [isLimit, hk] at hnl
        · exact ih h c hc' cb hcb hk

/-- `talloc_set_memlimit(o, 0)`: the limit is lifted, its chunk released and un-charged -/
theorem setLimit_lift_acct {rk : Nat → Nat} {s : State} (cfg : Cfg) (ok : CfgOK cfg) (w : WF s) (wr : Ranked rk s)
    (af : AF s) (o : Nat) (fail : Bool) (ho : UserObj s o)
    (hoof : (setLimit cfg s o 0 fail).1.oof = false) : AF (setLimit cfg s o 0 fail).1 := by
  obtain ⟨ob, hob, hok, honull⟩ := ho
  simp only [setLimit, hob, if_true] at hoof ⊢
  have hsh1 := shapeEq_modify_self s o (fun x => { x with hasLim := false }) (fun _ => rfl)
  have i1 : Inv rk (s.modify o fun x => { x with hasLim := false }) := Inv.shapeEq hsh1 ⟨w.toWFp, wr⟩
  have hlen1 : (s.modify o fun x => { x with hasLim := false }).heap.length = s.heap.length := by simp
  have ac1 : AcctInv (s.modify o fun x => { x with hasLim := false }) := by
    apply AcctInv.congr hlen1 _ af.1
    intro y; rw [get_modify]; split
    · cases s.get y <;> simp
    · rfl
  -- flags once no chunk hangs under `o`
  have flags_of : ∀ (S : State), (∀ y : Nat, y ≠ o → S.get y = s.get y ∨ S.get y = none) →
      S.get o = some { ob with hasLim := false } →
      (∀ (l : Nat) lb, S.get l = some lb → lb.kind = .limit → lb.parent ≠ some o) → FlagsInv S := by
    intro S hS hSo hno
    have hgetS : ∀ (y : Nat) yb, S.get y = some yb → ∃ yb0, s.get y = some yb0 ∧ yb.parent = yb0.parent ∧
        yb.kind = yb0.kind ∧ yb.useLim = yb0.useLim ∧ (yb.hasLim = true → yb0.hasLim = true) ∧
        (y ≠ o → yb.hasLim = yb0.hasLim) := by
      intro y yb hy
      by_cases e : y = o
      · subst e; rw [hSo] at hy; cases hy; exact ⟨ob, hob, rfl, rfl, rfl, by simp, fun h => absurd rfl h⟩
      · rcases hS y e with h | h
        · rw [h] at hy; exact ⟨yb, hy, rfl, rfl, rfl, id, fun _ => rfl⟩
        · rw [h] at hy; cases hy
    constructor
    · intro x xb hx hh
      obtain ⟨x0, h0, -, -, e3, e4, -⟩ := hgetS x xb hx
      rw [e3]; exact af.2.hasUse x x0 h0 (e4 hh)
    · intro x xb p pb hx hp hpb hu hk
      obtain ⟨x0, h0, e1, e2, e3, -, -⟩ := hgetS x xb hx
      obtain ⟨p0, hp0, -, -, f3, -, -⟩ := hgetS p pb hpb
      rw [e3]; exact af.2.inherit x x0 p p0 h0 (e1 ▸ hp) hp0 (f3 ▸ hu) (e2 ▸ hk)
    · intro l lb ctx cb hl hk hp hc
      have hco : ctx ≠ o := by intro e; subst e; exact hno l lb hl hk hp
      obtain ⟨l0, h0, e1, e2, -, -, -⟩ := hgetS l lb hl
      obtain ⟨c0, hc0, -, -, -, -, f5⟩ := hgetS ctx cb hc
      rw [f5 hco]; exact af.2.chunkHas l l0 ctx c0 h0 (e2 ▸ hk) (e1 ▸ hp) hc0
    · intro l1 l2 b1 b2 ctx h1 h2 k1 k2 p1 p2
      obtain ⟨a1, g1, e1, e2, -, -, -⟩ := hgetS l1 b1 h1
      obtain ⟨a2, g2, f1, f2, -, -, -⟩ := hgetS l2 b2 h2
      exact af.2.chunkUnique l1 l2 a1 a2 ctx g1 g2 (e2 ▸ k1) (f2 ▸ k2) (e1 ▸ p1) (f1 ▸ p2)
  have hget1o : (s.modify o fun x => { x with hasLim := false }).get o = some { ob with hasLim := false } := by
    simp [hob]
  have hget1 : ∀ y : Nat, y ≠ o → (s.modify o fun x => { x with hasLim := false }).get y = s.get y := by
    intro y hy; simp [Ne.symm hy]
  cases hlim : (if ob.hasLim = true then findLim s ob.children else none) with
  | none =>
    simp only [hlim] at hoof ⊢
    refine ⟨ac1, flags_of _ (fun y hy => Or.inl (hget1 y hy)) hget1o ?_⟩
    intro l lb hl hk hp
    have hlo : l ≠ o := by intro e; subst e; rw [hget1o] at hl; cases hl; simp only at hk; rw [hok] at hk; cases hk
    rw [hget1 l hlo] at hl
    obtain ⟨pb, hpb, -, hm⟩ := w.parentLive l lb o hl hp
    rw [hob] at hpb; cases hpb
    have hm' : l ∈ ob.children := by
      rcases hm with h | h
      · exact h
      · rw [w.noPending l lb hl] at h; cases h
    have hhas := af.2.chunkHas l lb o ob hl hk hp hob
    rw [hhas] at hlim; simp only [if_true] at hlim
    exact findLim_none_spec s _ hlim l hm' lb hl hk
  | some l =>
    simp only [hlim] at hoof ⊢
    have hl' : findLim s ob.children = some l := by
      split at hlim
      · exact hlim
      · cases hlim
    obtain ⟨hm, lb, hlb, hlk⟩ := findLim_spec s _ l hl'
    obtain ⟨lb', hlb', hlp, -⟩ := w.childBack o ob l hob hm
    rw [hlb] at hlb'; cases hlb'
    have hlo : l ≠ o := by intro e; subst e; rw [hob] at hlb; cases hlb; rw [hok] at hlk; cases hlk
    have hlb1 : (s.modify o fun x => { x with hasLim := false }).get l = some lb := by rw [hget1 l hlo]; exact hlb
    have hnp : lb.kind ≠ .plain := by rw [hlk]; simp
    obtain ⟨f, hf⟩ : ∃ f, (s.modify o fun x => { x with hasLim := false }).fuel = f + 1 := ⟨_, fuel_succ _⟩
    rw [hf] at hoof ⊢
    obtain ⟨lc, lr, ld, lp⟩ := i1.wf.leaf l lb hlb1 hnp
    refine acct_free_leaf' cfg ok.gone f _ l lb i1.t ac1 ?_ hlb1 hnp lc lr ld lp
      (by intro t hkk; rw [hlk] at hkk; cases hkk)
      (fun q h => (Inv.t ⟨freeLeafS_wf i1.wf hlb1 hnp, freeLeafS_ranked i1.wf hlb1 hnp i1.ranked⟩).shapeEq h) hoof
    apply flags_of
    · intro y hy
      rw [get_remove]
      by_cases e : l = y
      · right; simp [e]
      · left; simp only [e, if_false]; exact hget1 y hy
    · rw [get_remove]; simp only [hlo, if_false]; exact hget1o
    · intro l2 lb2 hl2 hk2 hp2
      rw [get_remove] at hl2
      by_cases e : l = l2
      · simp [e] at hl2
      · simp only [e, if_false] at hl2
        have hl2o : l2 ≠ o := by
          intro e2; subst e2; rw [hget1o] at hl2; cases hl2; simp only at hk2; rw [hok] at hk2; cases hk2
        rw [hget1 l2 hl2o] at hl2
        exact e (af.2.chunkUnique l l2 lb lb2 o hlb hl2 hlk hk2 hlp hp2)

end Usual.C01
