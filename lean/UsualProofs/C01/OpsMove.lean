import UsualProofs.C01.OpsAlloc
/-! Public operations that move or modify in place: talloc_reparent, talloc_steal,
talloc_set_destructor, talloc_realloc. -/
set_option linter.unusedSimpArgs false
set_option linter.unusedVariables false
namespace Usual.C01

theorem findRefByParent_spec (s : State) (tp : Option Id) (l : List Id) (r : Id)
    (h : findRefByParent s tp l = some r) : r ∈ l ∧ ∃ rb, s.get r = some rb ∧ rb.parent = tp := by
  induction l with
  | nil => simp [findRefByParent] at h
  | cons a l ih =>
    simp only [findRefByParent] at h
    split at h
    · rename_i ro hro
      split at h
      · rename_i hp
        cases h; exact ⟨by simp, ro, hro, hp⟩
      · obtain ⟨h1, h2⟩ := ih h; exact ⟨List.mem_cons_of_mem _ h1, h2⟩
    · obtain ⟨h1, h2⟩ := ih h; exact ⟨List.mem_cons_of_mem _ h1, h2⟩

/-- the rank of a leaf chunk can be chosen freely above its parent -/
theorem Ranked.rerank_leaf {rk : Nat → Nat} {s : State} (wr : Ranked rk s) (w : WFp s) (t : Nat) (tb : Obj)
    (ht : s.get t = some tb) (hk : tb.kind ≠ .plain) (v : Nat)
    (hv : ∀ p, tb.parent = some p → rk p < v) (hvn : ∀ n, s.nullCtx = some n → rk n < v) :
    Ranked (fun j => if j = t then v else rk j) s := by
  have hleaf : ∀ (y : Nat) yo, s.get y = some yo → yo.parent ≠ some t := by
    intro y yo hy hp
    obtain ⟨po, hpo, hpk, -⟩ := w.parentLive y yo t hy hp
    rw [ht] at hpo; cases hpo; exact hk hpk
  have hnt : ∀ (y : Nat) yo tt, s.get y = some yo → yo.kind = .ref tt → tt ≠ t := by
    intro y yo tt hy hkk e; subst e
    obtain ⟨tb', htb, hm⟩ := w.refBack y yo tt hy hkk
    rw [ht] at htb; cases htb
    rw [(w.leaf tt tb ht hk).2.1] at hm; cases hm
  constructor
  · intro x o p hx hp
    have hpt : p ≠ t := fun e => hleaf x o hx (e ▸ hp)
    simp only [hpt, if_false]
    by_cases e : x = t
    · subst e; rw [ht] at hx; cases hx; simp only [if_true]; exact hv p hp
    · simp only [e, if_false]; exact wr.parentLt x o p hx hp
  · intro r ro tt q hr hkk hq
    have hqt : q ≠ t := fun e => hleaf r ro hr (e ▸ hq)
    have htt : tt ≠ t := hnt r ro tt hr hkk
    simp only [hqt, htt, if_false]; exact wr.refLt r ro tt q hr hkk hq
  · intro n x o hn hx hne
    have hnt' : n ≠ t := by
      intro e; subst e
      obtain ⟨nb, hb1, hb2, -⟩ := w.nullOK n hn
      rw [ht] at hb1; cases hb1; exact hk hb2
    simp only [hnt', if_false]
    by_cases e : x = t
    · subst e; rw [ht] at hx; cases hx; simp only [if_true]
      exact hvn n hn
    · simp only [e, if_false]; exact wr.nullMin n x o hn hx hne


theorem WF.of_shape_pending {s s' : State} (w : WFp s')
    (h : ∀ (x : Nat) o', s'.get x = some o' → o'.pending = false) : WF s' := ⟨w, h⟩

/-- `talloc_reparent(oldp, newp, o)`; the caller keeps the holder graph acyclic: the new parent
ranks below `o` -/
theorem reparent_wf {rk : Nat → Nat} {s : State} (cfg : Cfg) (w : WF s) (wr : Ranked rk s)
    (oldp newp : Option Id) (o : Nat) (hnew : UserCtx s newp) (ho : UserObj s o)
    (hacyc : ∀ q, orNull s newp = some q → rk q < rk o) :
    WF (reparent cfg s oldp newp o).1 ∧ ∃ rk', Ranked rk' (reparent cfg s oldp newp o).1 := by
  obtain ⟨ob, hob, hok, honull⟩ := ho
  unfold reparent
  simp only [hob]
  split
  · exact ⟨w, rk, wr⟩
  · rename_i hcond
    simp only [Bool.or_eq_true, decide_eq_true_eq, not_or] at hcond
    obtain ⟨hno, hnt⟩ := hcond
    split
    · exact ⟨w, rk, wr⟩
    · rename_i t ht
      split
      · exact ⟨w, rk, wr⟩
      · rename_i tb htb
        split
        · exact ⟨w, rk, wr⟩
        · -- the move happens
          have hsh := moveChild_shapeEq cfg s t tb htb (orNull s newp) (orNull s oldp)
          have hq : ∀ q, orNull s newp = some q → ∃ qb, s.get q = some qb ∧ qb.kind = .plain :=
            hnew.orNull w.toWFp
          have hself' : tb.parent ≠ some t := by
            intro e; have := wr.parentLt t tb t htb e; omega
          have hnp : tb.pending = false := w.noPending t tb htb
          -- which header moves
          by_cases hprim : orNull s oldp = ob.parent
          · -- the object itself
            simp only [hprim, ne_eq, not_true_eq_false, if_false, Option.some.injEq] at ht
            subst ht
            rw [hob] at htb; cases htb
            have hkl : ob.kind ≠ .limit := by rw [hok]; simp
            have hne : orNull s newp ≠ ob.parent := by rw [← hprim]; exact hnt
            have hwf := moveS_wf w.toWFp hob (orNull s newp) hnp hkl hne hno hself' hq honull
            have hrk := moveS_ranked wr hob (orNull s newp) (isRef ob) hne hno hself'
              (fun q hqq => ⟨hacyc q hqq, fun tt hkk => by rw [hok] at hkk; cases hkk⟩)
            refine ⟨⟨hwf.shapeEq hsh, ?_⟩, rk, hrk.shapeEq hsh⟩
            intro x o' hx
            obtain ⟨o0, h0, -, -, -, -, e5, -⟩ := hsh.symm.get hx
            rw [moveS_get hob _ _ hne hno hself'] at h0
            rw [← e5]
            by_cases e : x = o
            · simp only [e, if_true, Option.some.injEq] at h0; subst h0; exact hnp
            · simp only [e, if_false] at h0
              split at h0
              · obtain ⟨o1, h1, rfl⟩ := Option.map_eq_some_iff.1 h0; exact w.noPending x o1 h1
              · split at h0
                · obtain ⟨o1, h1, rfl⟩ := Option.map_eq_some_iff.1 h0; exact w.noPending x o1 h1
                · exact w.noPending x o0 h0
          · -- the TRef chunk held by the old parent
            simp only [ne_eq, hprim, not_false_eq_true, if_true] at ht
            obtain ⟨hrm, rb, hrb, hrp⟩ := findRefByParent_spec _ _ _ _ ht
            rw [htb] at hrb; cases hrb
            obtain ⟨rb', hrb', hrk'⟩ := w.refLive o ob t hob hrm
            rw [htb] at hrb'; cases hrb'
            have hknp : tb.kind ≠ .plain := by rw [hrk']; simp
            have hkl : tb.kind ≠ .limit := by rw [hrk']; simp
            have hne : orNull s newp ≠ tb.parent := by rw [hrp]; exact hnt
            have hst : orNull s newp ≠ some t := by
              intro e; obtain ⟨qb, hqb, hqk⟩ := hq t e; rw [htb] at hqb; cases hqb; exact hknp hqk
            have htnull : s.nullCtx ≠ some t := by
              intro e; obtain ⟨nb, hb1, hb2, -⟩ := w.nullOK t e; rw [htb] at hb1; cases hb1; exact hknp hb2
            have hwf := moveS_wf w.toWFp htb (orNull s newp) hnp hkl hne hst hself' hq htnull
            -- re-rank the chunk just above its new parent (and above the null context)
            let a : Nat := ((orNull s newp).map fun q => rk q + 1).getD 0
            let b : Nat := (s.nullCtx.map fun n => rk n + 1).getD 0
            let v : Nat := a + b + rk t + 1
            have hrr := Ranked.rerank_leaf wr w.toWFp t tb htb hknp v
              (by intro p hp; have := wr.parentLt t tb p htb hp; simp only [v]; omega)
              (by intro n hn
                  have hb : b = rk n + 1 := by simp only [b, hn, Option.map_some, Option.getD_some]
                  simp only [v]; omega)
            have hrk2 := moveS_ranked hrr htb (orNull s newp) (isRef tb) hne hst hself' (by
              intro q hqq
              have hqt : q ≠ t := fun e => hst (e ▸ hqq)
              have ha : a = rk q + 1 := by simp only [a, hqq, Option.map_some, Option.getD_some]
              refine ⟨by simp only [hqt, if_false, if_true, v]; omega, ?_⟩
              intro tt hkk
              rw [hrk'] at hkk; cases hkk
              have hto : o ≠ t := by intro e; subst e; rw [hob] at htb; cases htb; exact hknp hok
              simp only [hqt, hto, if_false]
              exact hacyc q hqq)
            refine ⟨⟨hwf.shapeEq hsh, ?_⟩, _, hrk2.shapeEq hsh⟩
            intro x o' hx
            obtain ⟨o0, h0, -, -, -, -, e5, -⟩ := hsh.symm.get hx
            rw [moveS_get htb _ _ hne hst hself'] at h0
            rw [← e5]
            by_cases e : x = t
            · simp only [e, if_true, Option.some.injEq] at h0; subst h0; exact hnp
            · simp only [e, if_false] at h0
              split at h0
              · obtain ⟨o1, h1, rfl⟩ := Option.map_eq_some_iff.1 h0; exact w.noPending x o1 h1
              · split at h0
                · obtain ⟨o1, h1, rfl⟩ := Option.map_eq_some_iff.1 h0; exact w.noPending x o1 h1
                · exact w.noPending x o0 h0

theorem reparentOp_wf {rk : Nat → Nat} {s : State} (cfg : Cfg) (w : WF s) (wr : Ranked rk s)
    (oldp newp : Option Id) (o : Nat) (hnew : UserCtx s newp) (ho : UserObj s o)
    (hacyc : ∀ q, orNull s newp = some q → rk q < rk o) :
    WF (step cfg s (.reparent oldp newp o)).1 ∧ ∃ rk', Ranked rk' (step cfg s (.reparent oldp newp o)).1 := by
  simp only [step]
  exact reparent_wf cfg w wr oldp newp o hnew ho hacyc

/-- `talloc_steal(newp, o)` / `talloc_move` -/
theorem steal_wf {rk : Nat → Nat} {s : State} (cfg : Cfg) (w : WF s) (wr : Ranked rk s)
    (newp : Option Id) (o : Nat) (hnew : UserCtx s newp) (ho : UserObj s o)
    (hacyc : ∀ q, orNull s newp = some q → rk q < rk o) :
    WF (step cfg s (.steal newp o)).1 ∧ ∃ rk', Ranked rk' (step cfg s (.steal newp o)).1 := by
  obtain ⟨ob, hob, hok, honull⟩ := ho
  simp only [step, hob]
  split
  · exact ⟨w, rk, wr⟩
  · exact reparent_wf cfg w wr ob.parent newp o hnew ⟨ob, hob, hok, honull⟩ hacyc

/-- `talloc_set_destructor(o, d)` -/
theorem setDtor_op_wf {rk : Nat → Nat} {s : State} (cfg : Cfg) (w : WF s) (wr : Ranked rk s) (o : Nat) (d : Dtor)
    (ho : UserObj s o) :
    WF (step cfg s (.setDtor o d)).1 ∧ Ranked rk (step cfg s (.setDtor o d)).1 := by
  obtain ⟨ob, hob, hok, -⟩ := ho
  simp only [step, hob]
  have g := good_setDtor (b := 0) ⟨w.toWFp, wr⟩ hob hok d
  exact ⟨w.of_good g, g.inv.ranked⟩

/-- `talloc_realloc(parent, o, size)` -/
theorem realloc_wf {rk : Nat → Nat} {s : State} (cfg : Cfg) (hfix : cfg.fixCx = true) (w : WF s)
    (wr : Ranked rk s) (parent : Option Id) (o : Nat) (size : Nat) (fail : Bool) (ho : UserObj s o)
    (hoof : (step cfg s (.realloc parent o size fail)).1.oof = false)
    (hstuck : (step cfg s (.realloc parent o size fail)).1.stuck = false) :
    WF (step cfg s (.realloc parent o size fail)).1 ∧ Ranked rk (step cfg s (.realloc parent o size fail)).1 := by
  simp only [step] at hoof hstuck ⊢
  split
  · exact ⟨w, wr⟩
  · split
    · rename_i hsz
      simp only [hsz, if_true] at hoof hstuck
      split at hoof
      · rename_i hgt; simp at hgt
      · exact runUnlink_wf cfg hfix w wr parent ho hoof hstuck
    · obtain ⟨ob, hob, hok, -⟩ := ho
      simp only [hob]
      split
      · exact ⟨w, wr⟩
      · split
        · exact ⟨w, wr⟩
        · split
          · exact ⟨w, wr⟩
          · rename_i s1 hs1
            have hsh := applyLim_shapeEq _ _ _ _ _ _ _ hs1
            split
            · have h2 := hsh.trans (applyLim_getD_shapeEq cfg s1.fuel s1 ob.parent
                (-(if cfg.fixRealloc = true then (totalSize size : Int) - (totalSize ob.size : Int)
                  else (size : Int) - (ob.size : Int))) cfg.fixRollback)
              exact ⟨w.shapeEq h2, wr.shapeEq h2⟩
            · have h2 := hsh.trans (shapeEq_modify_self s1 o (fun x => { x with size := size }) (fun _ => rfl))
              exact ⟨w.shapeEq h2, wr.shapeEq h2⟩

end Usual.C01
