import UsualProofs.C01.Out
/-! The number of live chunks in a subtree: it never grows while the subtree is being freed, and
every iteration of `free_children` that takes a child away makes it smaller. -/
set_option linter.unusedSimpArgs false
set_option linter.unusedVariables false
namespace Usual.C01
open Finset

open Classical in
/-- live chunks in the subtree of `o` (`o` included) -/
noncomputable def subSet (s : State) (o : Nat) : Finset Nat :=
  (range s.heap.length).filter (fun y => (s.get y).isSome ∧ InSub s o y)

noncomputable def subCard (s : State) (o : Nat) : Nat := (subSet s o).card

theorem mem_subSet {s : State} {o y : Nat} : y ∈ subSet s o ↔ (∃ yb, s.get y = some yb) ∧ InSub s o y := by
  unfold subSet
  simp only [mem_filter, mem_range]
  constructor
  · rintro ⟨-, h1, h2⟩
    cases h : s.get y with
    | none => rw [h] at h1; cases h1
    | some yb => exact ⟨⟨yb, rfl⟩, h2⟩
  · rintro ⟨⟨yb, h1⟩, h2⟩
    exact ⟨lt_of_get s y yb h1, by rw [h1]; rfl, h2⟩

theorem subCard_le {s s2 : State} {o : Nat}
    (h : ∀ y yb2, s2.get y = some yb2 → InSub s2 o y → (∃ yb, s.get y = some yb) ∧ InSub s o y) :
    subCard s2 o ≤ subCard s o := by
  apply card_le_card
  intro y hy
  obtain ⟨⟨yb2, h1⟩, h2⟩ := mem_subSet.1 hy
  exact mem_subSet.2 (h y yb2 h1 h2)

theorem subCard_lt {s s2 : State} {o : Nat}
    (h : ∀ y yb2, s2.get y = some yb2 → InSub s2 o y → (∃ yb, s.get y = some yb) ∧ InSub s o y)
    (w : Nat) (wb : Obj) (hw : s.get w = some wb) (hwi : InSub s o w)
    (hgone : s2.get w = none ∨ ¬ InSub s2 o w) : subCard s2 o < subCard s o := by
  apply card_lt_card
  refine ⟨?_, ?_⟩
  · intro y hy
    obtain ⟨⟨yb2, h1⟩, h2⟩ := mem_subSet.1 hy
    exact mem_subSet.2 (h y yb2 h1 h2)
  · intro hsub
    have hm : w ∈ subSet s2 o := hsub (mem_subSet.2 ⟨⟨wb, hw⟩, hwi⟩)
    obtain ⟨⟨wb2, h1⟩, h2⟩ := mem_subSet.1 hm
    rcases hgone with h | h
    · rw [h] at h1; cases h1
    · exact h h2

theorem subCard_eq {s s2 : State} {o : Nat}
    (h1 : ∀ y yb2, s2.get y = some yb2 → InSub s2 o y → (∃ yb, s.get y = some yb) ∧ InSub s o y)
    (h2 : ∀ y yb, s.get y = some yb → InSub s o y → (∃ yb2, s2.get y = some yb2) ∧ InSub s2 o y) :
    subCard s2 o = subCard s o := Nat.le_antisymm (subCard_le h1) (subCard_le h2)

theorem subCard_pos {s : State} {o : Nat} {ob : Obj} (ho : s.get o = some ob) : 1 ≤ subCard s o := by
  apply card_pos.2
  exact ⟨o, mem_subSet.2 ⟨⟨ob, ho⟩, Or.inl rfl⟩⟩

/-- nothing moves into the subtree while it is being freed -/
theorem inSub_back {s s2 : State} {o : Nat} (w : WFp s) (k : Keeps (Outside s o) s s2) (y : Nat) (yb2 : Obj)
    (hy : s2.get y = some yb2) (hin : InSub s2 o y) : (∃ yb, s.get y = some yb) ∧ InSub s o y := by
  obtain ⟨yb, h1, hk⟩ := k.kind y yb2 hy
  refine ⟨⟨yb, h1⟩, ?_⟩
  apply Classical.byContradiction
  intro hnot
  by_cases hr : isRefAt s y
  · -- a TRef chunk keeps its parent
    obtain ⟨zb, t, h2, h3⟩ := hr
    rw [h1] at h2; cases h2
    have hpar := k.refPar y yb2 yb hy h1 (by rw [h3]; simp)
    rcases hin with rfl | hanc
    · exact hnot (Or.inl rfl)
    · obtain ⟨q, hq1, hq2⟩ := hanc.cases_parent
      have hq0 : yb.parent = some q := by rw [← hpar, ← parentOf_eq hy]; exact hq1
      have hqin : InSub s2 o q := by
        rcases hq2 with e | h
        · exact Or.inl e
        · exact Or.inr h
      obtain ⟨qb, hqb, hqk, -⟩ := w.parentLive y yb q h1 hq0
      have hqs : InSub s o q := by
        apply Classical.byContradiction
        intro hq
        have hout : Outside s o q := ⟨hq, by
          rintro ⟨zb, t', h4, h5⟩; rw [hqb] at h4; cases h4; rw [h5] at hqk; cases hqk⟩
        exact (outside_stable w k q hout).1 hqin
      exact hnot (InSub.of_parent (by rw [parentOf_eq h1]; exact hq0) hqs)
  · exact (outside_stable w k y ⟨hnot, hr⟩).1 hin


/-- the children before the cursor and the subtree of the child at the cursor are different chunks
of the subtree of `o` -/
theorem subCard_split {rk : Nat → Nat} {s : State} (i : Inv rk s) {o c : Nat} {ob : Obj} (ho : s.get o = some ob)
    (pre post : List Id) (hch : ob.children = pre ++ c :: post) :
    pre.length + subCard s c + 1 ≤ subCard s o := by
  have hnd := i.wf.childNodup o ob ho
  rw [hch] at hnd
  have hcm : c ∈ ob.children := by rw [hch]; simp
  obtain ⟨cb, hc, hcp, -⟩ := i.wf.childBack o ob c ho hcm
  have hltc := i.ranked.parentLt c cb o hc hcp
  have hanc : Anc s o c := Anc.parent (by rw [parentOf_eq hc]; exact hcp)
  have hpre : ∀ d ∈ pre, (∃ db, s.get d = some db ∧ db.parent = some o) ∧ d ≠ c := by
    intro d hd
    have hdm : d ∈ ob.children := by rw [hch]; exact List.mem_append_left _ hd
    obtain ⟨db, hdb, hdp, -⟩ := i.wf.childBack o ob d ho hdm
    refine ⟨⟨db, hdb, hdp⟩, ?_⟩
    intro e; subst e
    have := (List.nodup_append.1 hnd).2.2 d hd d (by simp)
    exact this rfl
  have hsub : insert o (pre.toFinset ∪ subSet s c) ⊆ subSet s o := by
    intro y hy
    rcases mem_insert.1 hy with rfl | hy
    · exact mem_subSet.2 ⟨⟨ob, ho⟩, Or.inl rfl⟩
    · rcases mem_union.1 hy with hy | hy
      · obtain ⟨⟨db, hdb, hdp⟩, -⟩ := hpre y (List.mem_toFinset.1 hy)
        exact mem_subSet.2 ⟨⟨db, hdb⟩, Or.inr (Anc.parent (by rw [parentOf_eq hdb]; exact hdp))⟩
      · obtain ⟨hl, hin⟩ := mem_subSet.1 hy
        refine mem_subSet.2 ⟨hl, ?_⟩
        rcases hin with rfl | h
        · exact Or.inr hanc
        · exact Or.inr (hanc.trans h)
  have hdisj : Disjoint pre.toFinset (subSet s c) := by
    rw [Finset.disjoint_left]
    intro d hd hdc
    obtain ⟨⟨db, hdb, hdp⟩, hne⟩ := hpre d (List.mem_toFinset.1 hd)
    obtain ⟨-, hin⟩ := mem_subSet.1 hdc
    rcases hin with e | h
    · exact hne e
    · obtain ⟨p, hp1, hp2⟩ := h.cases_parent
      rw [parentOf_eq hdb, hdp] at hp1; cases hp1
      rcases hp2 with e | h2
      · subst e; omega
      · have := h2.rank i.ranked; omega
  have hno : o ∉ pre.toFinset ∪ subSet s c := by
    intro h
    rcases mem_union.1 h with h | h
    · obtain ⟨⟨db, hdb, hdp⟩, -⟩ := hpre o (List.mem_toFinset.1 h)
      have := i.ranked.parentLt o db o hdb hdp; omega
    · obtain ⟨-, hin⟩ := mem_subSet.1 h
      rcases hin with e | h2
      · subst e; omega
      · have := h2.rank i.ranked; omega
  have hcard := card_le_card hsub
  rw [card_insert_of_notMem hno, card_union_of_disjoint hdisj,
    List.toFinset_card_of_nodup (List.nodup_append.1 hnd).1] at hcard
  unfold subCard; omega


theorem subCard_congr {a b : State} (o : Nat) (hl : ∀ y : Nat, (b.get y).isSome = (a.get y).isSome)
    (hp : ∀ y, parentOf b y = parentOf a y) : subCard b o = subCard a o := by
  have hlive : ∀ {x y : State}, (∀ z : Nat, (y.get z).isSome = (x.get z).isSome) → ∀ z zb, y.get z = some zb →
      ∃ zb', x.get z = some zb' := by
    intro x y h z zb hz
    have := h z; rw [hz] at this
    cases h' : x.get z with
    | none => rw [h'] at this; cases this
    | some zb' => exact ⟨zb', rfl⟩
  apply subCard_eq
  · intro y yb hy hin
    exact ⟨hlive hl y yb hy, (InSub.congr hp).1 hin⟩
  · intro y yb hy hin
    exact ⟨hlive (fun z => (hl z).symm) y yb hy, (InSub.congr hp).2 hin⟩

theorem parentOf_modify' (s : State) (o : Nat) (f : Obj → Obj) (hf : ∀ x, (f x).parent = x.parent) (y : Nat) :
    parentOf (s.modify o f) y = parentOf s y := by
  unfold parentOf; rw [get_modify]
  split
  · cases s.get y <;> simp [hf]
  · rfl

/-- same liveness and parents as `s` with the destructor script of one object changed -/
theorem subCard_shape_dtor {s s' : State} (c : Nat) (d : Dtor) (o : Nat)
    (h : ShapeEq (s.modify c fun x => { x with dtor := d }) s') : subCard s' o = subCard s o := by
  apply subCard_congr
  · intro y
    have := h.2 y
    rw [get_modify] at this
    cases h1 : s'.get y <;> cases h2 : s.get y <;> rw [h1, h2] at this <;> split at this <;> simp at this ⊢
  · intro y
    exact (parentOf_shapeEq h y).trans (parentOf_modify' s c (fun x => { x with dtor := d }) (fun _ => rfl) y)

theorem erase_mid (pre post : List Id) (c : Id) (h : c ∉ pre) : (pre ++ c :: post).erase c = pre ++ post := by
  rw [List.erase_append_right _ h, List.erase_cons_head]

theorem filter_mid (pre post : List Id) (c : Id) (k : Id → Bool) (hpre : ∀ z ∈ pre, k z = true)
    (hpost : ∀ z ∈ post, k z = true) :
    (pre ++ c :: post).filter k = if k c then pre ++ c :: post else pre ++ post := by
  rw [List.filter_append, List.filter_cons, List.filter_eq_self.2 hpre, List.filter_eq_self.2 hpost]
  cases k c <;> simp

end Usual.C01
