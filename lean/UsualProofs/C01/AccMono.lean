import UsualProofs.C01.LogInv
/-! A destructor that accepts keeps accepting: the script of a live object changes only when it
refuses (`refuse (n+1)` becomes `refuse n`) or when it has just accepted. -/
set_option linter.unusedSimpArgs false
set_option linter.unusedVariables false
namespace Usual.C01

structure AccMono (s s' : State) : Prop where
  len : s.heap.length ≤ s'.heap.length
  dead : ∀ z : Nat, z < s.heap.length → s.get z = none → s'.get z = none
  acc : ∀ (z : Nat) zb zb', s.get z = some zb → s'.get z = some zb' → (dtorStep zb.dtor).1 = true →
    (dtorStep zb'.dtor).1 = true

theorem AccMono.refl (s : State) : AccMono s s :=
  ⟨Nat.le_refl _, fun _ _ h => h, fun z zb zb' h1 h2 h => by rw [h1] at h2; cases h2; exact h⟩

theorem AccMono.trans {a b c : State} (h1 : AccMono a b) (h2 : AccMono b c) : AccMono a c := by
  refine ⟨Nat.le_trans h1.len h2.len, fun z hz hn => h2.dead z (Nat.lt_of_lt_of_le hz h1.len) (h1.dead z hz hn), ?_⟩
  intro z za zc ha hc hacc
  have hz := lt_of_get a z za ha
  cases hb : b.get z with
  | none => rw [h2.dead z (Nat.lt_of_lt_of_le hz h1.len) hb] at hc; cases hc
  | some zb => exact h2.acc z zb zc hb hc (h1.acc z za zb ha hb hacc)

theorem AccMono.of_frame {s s' : State} (f : Frame s s') : AccMono s s' := by
  refine ⟨f.len, f.dead, ?_⟩
  intro z zb zb' h1 h2 hacc
  obtain ⟨zb'', h3, h4, -⟩ := f.same z zb h1
  rw [h2] at h3; cases h3; rw [h4]; exact hacc

theorem dtorStep_acc_fix {d d' : Dtor} {l : Bool} (h : dtorStep d = (true, d', l)) : (dtorStep d').1 = true := by
  cases d with
  | none => simp only [dtorStep, Prod.mk.injEq] at h; obtain ⟨-, rfl, -⟩ := h; rfl
  | accept => simp only [dtorStep, Prod.mk.injEq] at h; obtain ⟨-, rfl, -⟩ := h; rfl
  | reenter => simp only [dtorStep, Prod.mk.injEq] at h; obtain ⟨-, rfl, -⟩ := h; rfl
  | refuse n =>
    cases n with
    | zero => simp only [dtorStep, Prod.mk.injEq] at h; obtain ⟨-, rfl, -⟩ := h; rfl
    | succ n => simp [dtorStep] at h

theorem accMono_setStuck (s : State) : AccMono s s.setStuck :=
  ⟨Nat.le_refl _, fun _ _ h => h, fun z zb zb' h1 h2 h => by
    have h2' : s.get z = some zb' := h2
    rw [h1] at h2'; cases h2'; exact h⟩

theorem accMono_addLog (s : State) (e : Event) : AccMono s (s.addLog e) :=
  ⟨Nat.le_refl _, fun _ _ h => h, fun z zb zb' h1 h2 h => by
    have h2' : s.get z = some zb' := h2
    rw [h1] at h2'; cases h2'; exact h⟩

/-- an update of one object that keeps its destructor accepting if it was -/
theorem accMono_modify (s : State) (i : Nat) (f : Obj → Obj)
    (hf : ∀ x : Obj, s.get i = some x → (dtorStep x.dtor).1 = true → (dtorStep (f x).dtor).1 = true) :
    AccMono s (s.modify i f) := by
  refine ⟨by simp, ?_, ?_⟩
  · intro z _ hn
    rw [get_modify]; split
    · rw [hn]; rfl
    · exact hn
  · intro z zb zb' h1 h2 hacc
    rw [get_modify_some] at h2
    rcases h2 with ⟨-, h2⟩ | ⟨e, o0, h2, rfl⟩
    · rw [h1] at h2; cases h2; exact hacc
    · rw [h1] at h2; cases h2; subst e; exact hf zb h1 hacc

theorem accMono_remove (s : State) (x : Nat) : AccMono s (s.remove x) := by
  refine ⟨by simp, ?_, ?_⟩
  · intro z _ hn
    rw [get_remove]; split
    · rfl
    · exact hn
  · intro z zb zb' h1 h2 hacc
    rw [get_remove_some] at h2
    rw [h2.2] at h1; cases h1; exact hacc

theorem accMono_freeBegin (s : State) (o : Nat) (ob : Obj) (d' : Dtor) (logged : Bool) (ho : s.get o = some ob)
    (hds : dtorStep ob.dtor = (true, d', logged)) : AccMono s (freeBegin s o ob d' logged) := by
  unfold freeBegin
  simp only []
  have h0 : AccMono s (s.modify o fun x => { x with dtor := d', pending := true }) :=
    accMono_modify s o _ (fun x _ _ => dtorStep_acc_fix hds)
  have h1 : AccMono s (if logged = true then (s.modify o fun x => { x with dtor := d', pending := true }).addLog
      (.dtorOk o) else (s.modify o fun x => { x with dtor := d', pending := true })) := by
    split
    · exact h0.trans (accMono_addLog _ _)
    · exact h0
  refine AccMono.trans ?_ (AccMono.of_frame (frame_detach _ o))
  split
  · exact h1.trans (AccMono.of_frame (frame_modify _ _ _ (fun _ => ⟨rfl, rfl⟩)))
  · exact h1

theorem accMono_freeEnd (cfg : Cfg) (s3 : State) (o : Nat) : AccMono s3 (freeEnd cfg s3 o).1 := by
  unfold freeEnd
  split
  · exact AccMono.refl _
  · rename_i ob3 _
    simp only []
    have h1 : AccMono s3 (if ob3.children.isEmpty = true then s3 else s3.setStuck) := by
      split
      · exact AccMono.refl _
      · exact accMono_setStuck s3
    exact (h1.trans ((accMono_remove _ o).trans (accMono_addLog _ _))).trans
      (AccMono.of_frame (frame_applyLim_getD _ _ _ _ _ _))

/-- through `_talloc_free` / `_talloc_unlink` / `free_children` -/
theorem run_accMono (cfg : Cfg) (f : Nat) : ∀ (s : State) (c : Call), AccMono s (run cfg f s c).1 := by
  induction f with
  | zero => intro s c; simp only [run]; exact .of_frame (frame_setOof s)
  | succ f ih =>
    intro s c
    cases c with
    | free o =>
      simp only [run]
      split
      · exact .refl s
      · rename_i ob ho
        split
        · split
          · exact .refl s
          · split
            · split
              · exact ih _ _
              · exact .refl s
            · exact .refl s
        · split
          · exact .refl s
          · split
            · -- the destructor refuses: it was not an accepting one
              rename_i d' l hds
              refine (accMono_modify s o _ ?_).trans (accMono_addLog _ _)
              intro x hx hacc
              rw [ho] at hx; cases hx
              rw [hds] at hacc; cases hacc
            · rename_i d' logged hds
              exact ((accMono_freeBegin s o ob d' logged ho hds).trans (ih _ _)).trans (accMono_freeEnd cfg _ o)
    | unlink ctx o =>
      simp only [run]
      split
      · exact .refl s
      · split
        · split
          · exact ih _ _
          · exact .refl s
        · split
          · exact ih _ _
          · split
            · exact .refl s
            · refine AccMono.trans ?_ (ih _ _)
              exact .of_frame (frame_promoteMove _ _ _ _ _ _ _)
    | loop o fn cur =>
      simp only [run]
      split
      · exact .refl s
      · rename_i c
        have fe : AccMono s (loopEnter s o c) := by
          unfold loopEnter
          split
          · exact .refl s
          · exact accMono_setStuck s
        split
        · exact fe
        · split
          · exact fe.trans (ih _ _)
          · refine fe.trans (AccMono.trans ?_ (ih _ _))
            refine AccMono.trans (ih (loopEnter s o c) (.unlink (some o) c)) ?_
            split
            · exact .of_frame (frame_throwChild _ _ _)
            · exact .refl _

end Usual.C01
