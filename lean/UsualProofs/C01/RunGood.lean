import UsualProofs.C01.Run
/-! Main induction: `run` keeps the structural invariant (for runs whose ghost flags stay clear). -/
set_option linter.unusedSimpArgs false
set_option linter.unusedVariables false
namespace Usual.C01

def FreePost (rk : Nat → Nat) (s : State) (x : Nat) (xb : Obj) (r : State × Int) : Prop :=
  Good rk (rk x) s r.1 ∧
  ((r.2 = 0 ∧ r.1.get x = none) ∨
   (r.2 = -1 ∧ xb.kind = .plain ∧ ∃ d, ShapeEq (s.modify x fun o => { o with dtor := d }) r.1))

def UnlinkPost (rk : Nat → Nat) (s : State) (x : Nat) (xb : Obj) (r : State × Int) : Prop :=
  Good rk (rk x) s r.1 ∧
  (r.2 = 0 ∨ (xb.kind = .plain ∧ ∃ d, ShapeEq (s.modify x fun o => { o with dtor := d }) r.1))

def FreeStmt (cfg : Cfg) (rk : Nat → Nat) (f : Nat) : Prop :=
  ∀ (s : State) (x : Nat) (xb : Obj), Inv rk s → s.get x = some xb → xb.refs = [] → xb.pending = false →
    s.nullCtx ≠ some x → PendBelow rk s (rk x) none →
    (run cfg f s (.free x)).1.oof = false → (run cfg f s (.free x)).1.stuck = false →
    FreePost rk s x xb (run cfg f s (.free x))

def UnlinkStmt (cfg : Cfg) (rk : Nat → Nat) (f : Nat) : Prop :=
  ∀ (s : State) (ctx : Option Id) (x : Nat) (xb : Obj), Inv rk s → s.get x = some xb → xb.pending = false →
    xb.parent = orNull s ctx → s.nullCtx ≠ some x → PendBelow rk s (rk x) none →
    (run cfg f s (.unlink ctx x)).1.oof = false → (run cfg f s (.unlink ctx x)).1.stuck = false →
    UnlinkPost rk s x xb (run cfg f s (.unlink ctx x))

def LoopStmt (cfg : Cfg) (rk : Nat → Nat) (f : Nat) : Prop :=
  ∀ (s : State) (o : Nat) (ob : Obj) (fn : Bool) (cur : Option Id), Inv rk s → s.get o = some ob →
    ob.kind = .plain → PendBelow rk s (rk o) (some o) →
    (run cfg f s (.loop o fn cur)).1.oof = false → (run cfg f s (.loop o fn cur)).1.stuck = false →
    Good rk (rk o + 1) s (run cfg f s (.loop o fn cur)).1

theorem freeBegin_plain_shapeEq (s : State) (x : Nat) (xb : Obj) (d' : Dtor) (logged : Bool)
    (hk : xb.kind = .plain) : ShapeEq (beginFree s x d') (freeBegin s x xb d' logged) := by
  unfold beginFree freeBegin
  simp only [hk]
  apply shapeEq_detach
  cases logged
  · exact ShapeEq.refl _
  · exact shapeEq_addLog _ _

theorem beginFree_ranked {rk : Nat → Nat} {s : State} {x : Nat} {xb : Obj} (d : Dtor) (wr : Ranked rk s)
    (hx : s.get x = some xb) : Ranked rk (beginFree s x d) := by
  refine wr.mono (by unfold beginFree; simp) ?_
  intro j o' hj
  rw [beginFree_get s x d xb hx] at hj
  by_cases e : j = x
  · subst e; simp only [if_true, Option.some.injEq] at hj; subst hj; exact ⟨xb, hx, rfl, rfl⟩
  · simp only [e, if_false] at hj
    split at hj
    · obtain ⟨o0, h0, rfl⟩ := Option.map_eq_some_iff.1 hj; exact ⟨o0, h0, rfl, rfl⟩
    · exact ⟨o', hj, rfl, rfl⟩

/-- the leaf case of `FreeStmt` -/
theorem free_leaf_post (cfg : Cfg) (rk : Nat → Nat) (f : Nat) (s : State) (x : Nat) (xb : Obj)
    (i : Inv rk s) (hx : s.get x = some xb) (hk : xb.kind ≠ .plain) :
    (run cfg (f + 1) s (.free x)).2 = 0 ∧ ShapeEq (freeLeafS s x) (run cfg (f + 1) s (.free x)).1 ∧
    FreePost rk s x xb (run cfg (f + 1) s (.free x)) := by
  obtain ⟨lc, lr, ld, lp⟩ := i.wf.leaf x xb hx hk
  have ht : ∀ t, xb.kind = .ref t → t ≠ x := by
    intro t hkk e; subst e
    obtain ⟨tb, htb, hm⟩ := i.wf.refBack t xb t hx hkk
    rw [hx] at htb; cases htb; rw [lr] at hm; cases hm
  have hpr : xb.parent ≠ some x := by
    intro e
    obtain ⟨po, hpo, hpk, -⟩ := i.wf.parentLive x xb x hx e
    rw [hx] at hpo; cases hpo; exact hk hpk
  obtain ⟨e1, e2⟩ := run_free_leaf cfg f s x xb hx hk lc lr lp ld ht hpr
  refine ⟨e1, e2, good_freeLeaf i hx hk e2, Or.inl ⟨e1, ?_⟩⟩
  have := e2.2 x
  rw [freeLeafS_get i.wf hx hk] at this
  unfold eraseAll at this
  simp only [if_true, Option.map_none] at this
  cases h : (run cfg (f + 1) s (.free x)).1.get x with
  | none => rfl
  | some o => rw [h] at this; cases this


theorem free_step (cfg : Cfg) (rk : Nat → Nat) (f : Nat) (hl : LoopStmt cfg rk f) : FreeStmt cfg rk (f + 1) := by
  intro s x xb i hx hrf hnp hnull hpb hoof hstuck
  by_cases hk : xb.kind = .plain
  case neg => exact (free_leaf_post cfg rk f s x xb i hx hk).2.2
  -- plain object
  have hself : xb.parent ≠ some x := by
    intro e; have := i.ranked.parentLt x xb x hx e; omega
  simp only [run, hx, hrf, hnp, ne_eq, not_true_eq_false, if_false, Bool.false_eq_true] at hoof hstuck ⊢
  cases hds : dtorStep xb.dtor with
  | mk acc rest =>
  obtain ⟨d', logged⟩ := rest
  cases acc with
  | false =>
    -- the destructor refuses
    simp only [hds] at hoof hstuck ⊢
    refine ⟨?_, Or.inr ⟨rfl, hk, d', shapeEq_addLog _ _⟩⟩
    exact (good_setDtor i hx hk d').trans
      (Good.of_shapeEq (good_setDtor (b := rk x) i hx hk d').inv (shapeEq_addLog _ _))
  | true =>
    simp only [hds] at hoof hstuck ⊢
    -- state after FLAG_PENDING + list_del
    have hsh := freeBegin_plain_shapeEq s x xb d' logged hk
    have hbg := beginFree_get s x d' xb hx
    simp only [hself, if_false] at hbg
    have i2 : Inv rk (freeBegin s x xb d' logged) :=
      Inv.shapeEq hsh ⟨beginFree_wf d' i.wf hx hk hrf hnp hnull hself, beginFree_ranked d' i.ranked hx⟩
    obtain ⟨x2, hx2, e21, e22, e23, e24, e25, e26⟩ := hsh.get (s := beginFree s x d') (j := x)
      (o := { xb with dtor := d', pending := true }) (by rw [hbg]; simp)
    -- pending objects of the new state
    have hpend2 : ∀ (y : Nat) yo, (freeBegin s x xb d' logged).get y = some yo → yo.pending = true → y ≠ x →
        ∃ yo0, s.get y = some yo0 ∧ yo0.pending = true := by
      intro y yo hy hp hne
      obtain ⟨y1, hy1, -, -, -, -, e5, -⟩ := hsh.symm.get hy
      rw [hbg] at hy1
      simp only [hne, if_false] at hy1
      split at hy1
      · obtain ⟨o0, h0, rfl⟩ := Option.map_eq_some_iff.1 hy1; exact ⟨o0, h0, by rw [← e5] at hp; exact hp⟩
      · exact ⟨y1, hy1, by rw [← e5] at hp; exact hp⟩
    have hpb2 : PendBelow rk (freeBegin s x xb d' logged) (rk x) (some x) := by
      intro y yo hy hp hne
      have hne' : y ≠ x := fun e => hne (by rw [e])
      obtain ⟨yo0, h0, h1⟩ := hpend2 y yo hy hp hne'
      exact hpb y yo0 h0 h1 (by simp)
    -- the child loop
    have hfl := freeEnd_flagsLe cfg
      (run cfg f (freeBegin s x xb d' logged) (.loop x true (childrenOf (freeBegin s x xb d' logged) x).head?)).1 x
    have hoof3 : (run cfg f (freeBegin s x xb d' logged)
        (.loop x true (childrenOf (freeBegin s x xb d' logged) x).head?)).1.oof = false := by
      cases h : (run cfg f (freeBegin s x xb d' logged)
        (.loop x true (childrenOf (freeBegin s x xb d' logged) x).head?)).1.oof with
      | false => rfl
      | true => rw [hfl.1 h] at hoof; cases hoof
    have hstuck3 : (run cfg f (freeBegin s x xb d' logged)
        (.loop x true (childrenOf (freeBegin s x xb d' logged) x).head?)).1.stuck = false := by
      cases h : (run cfg f (freeBegin s x xb d' logged)
        (.loop x true (childrenOf (freeBegin s x xb d' logged) x).head?)).1.stuck with
      | false => rfl
      | true => rw [hfl.2 h] at hstuck; cases hstuck
    have g3 := hl (freeBegin s x xb d' logged) x x2 true _ i2 hx2 (e24 ▸ hk) hpb2 hoof3 hstuck3
    generalize (run cfg f (freeBegin s x xb d' logged)
        (.loop x true (childrenOf (freeBegin s x xb d' logged) x).head?)).1 = s3 at g3 hoof hstuck hoof3 hstuck3 ⊢
    obtain ⟨x3, hx3, e31, e32, e33⟩ := g3.stable x x2 hx2 (e24 ▸ hk) (Nat.lt_succ_self _)
    obtain ⟨f1, f2, f3⟩ := freeEnd_some cfg s3 x x3 hx3
    have hch : x3.children = [] := f3 hstuck
    have hx3p : x3.pending = true := by rw [e31, e25]
    -- nobody has x as parent any more
    have hnp3 : ∀ (y : Nat) yo, s3.get y = some yo → yo.parent ≠ some x := by
      intro y yo hy hpar
      obtain ⟨po, hpo, -, hm⟩ := g3.inv.wf.parentLive y yo x hy hpar
      rw [hx3] at hpo; cases hpo
      have hlt := g3.inv.ranked.parentLt y yo x hy hpar
      rcases hm with hm | hm
      · rw [hch] at hm; cases hm
      · obtain ⟨y2, hy2, hp2⟩ := g3.nnp y yo hy hm
        by_cases e : y = x
        · subst e; omega
        · obtain ⟨yo0, h0, h1⟩ := hpend2 y y2 hy2 hp2 e
          have := hpb y yo0 h0 h1 (by simp)
          omega
    have hnull3 : s3.nullCtx ≠ some x := by
      rw [g3.null, hsh.1]; unfold beginFree; simpa using hnull
    have i4 : Inv rk (s3.remove x) := by
      refine ⟨endFree_wf g3.inv.wf hx3 e33 hx3p hch hnull3 hnp3, g3.inv.ranked.mono rfl ?_⟩
      intro j o' hj
      rw [get_remove_some] at hj
      exact ⟨o', hj.2, rfl, rfl⟩
    refine ⟨⟨i4.shapeEq f2, ?_, ?_, ?_⟩, Or.inl ⟨f1, ?_⟩⟩
    · -- no new pending objects
      intro y yo' hy hp
      obtain ⟨y4, hy4, -, -, -, -, e5, -⟩ := f2.symm.get hy
      rw [get_remove_some] at hy4
      obtain ⟨y2, hy2, hp2⟩ := g3.nnp y y4 hy4.2 (by rw [← e5] at hp; exact hp)
      exact hpend2 y y2 hy2 hp2 (Ne.symm hy4.1)
    · -- plain objects below x are untouched
      intro y yo hy hkk hlt
      have hne : y ≠ x := by intro e; subst e; omega
      have hy1 : ∃ y1, (beginFree s x d').get y = some y1 ∧ y1.pending = yo.pending ∧
          y1.parent = yo.parent ∧ y1.kind = .plain := by
        rw [hbg]; simp only [hne, if_false]
        split
        · simp only [hy, Option.map_some]; exact ⟨_, rfl, rfl, rfl, hkk⟩
        · exact ⟨yo, hy, rfl, rfl, hkk⟩
      obtain ⟨y1, hy1, a1, a2, a3⟩ := hy1
      obtain ⟨y2, hy2, b1, -, -, b4, b5, -⟩ := hsh.get hy1
      obtain ⟨y3, hy3, c1, c2, c3⟩ := g3.stable y y2 hy2 (b4 ▸ a3) (by omega)
      have hy4 : (s3.remove x).get y = some y3 := by simp [Ne.symm hne, hy3]
      obtain ⟨y5, hy5, d1, -, -, d4, d5, -⟩ := f2.get hy4
      exact ⟨y5, hy5, by rw [d5, c1, b5, a1], by rw [d1, c2, b1, a2], by rw [d4, c3]⟩
    · rw [f2.1]; simp only [nullCtx_remove]; rw [g3.null, hsh.1]; unfold beginFree; simp
    · have := f2.2 x
      simp only [get_remove, if_true, Option.map_none] at this
      cases h : (freeEnd cfg s3 x).1.get x with
      | none => rfl
      | some o => rw [h] at this; cases this


theorem unlink_step (cfg : Cfg) (rk : Nat → Nat) (f : Nat) (hf : FreeStmt cfg rk f) :
    UnlinkStmt cfg rk (f + 1) := by
  intro s ctx x xb i hx hnp hpar hnull hpb hoof hstuck
  simp only [run, hx, hpar, ne_eq, not_true_eq_false, if_false] at hoof hstuck ⊢
  cases hrefs : xb.refs with
  | nil =>
    simp only [hrefs] at hoof hstuck ⊢
    obtain ⟨g, h⟩ := hf s x xb i hx hrefs hnp hnull hpb hoof hstuck
    refine ⟨g, ?_⟩
    rcases h with ⟨h1, -⟩ | ⟨-, h2, h3⟩
    · exact Or.inl h1
    · exact Or.inr ⟨h2, h3⟩
  | cons r rest =>
    simp only [hrefs] at hoof hstuck ⊢
    obtain ⟨rb, hr, hrk⟩ := i.wf.refLive x xb r hx (by rw [hrefs]; simp)
    simp only [hr] at hoof hstuck ⊢
    have hrnp : rb.kind ≠ .plain := by rw [hrk]; simp
    obtain ⟨lc, lr, ld, lp⟩ := i.wf.leaf r rb hr hrnp
    have hxk : xb.kind = .plain := by
      cases hk : xb.kind with
      | plain => rfl
      | _ => have := (i.wf.leaf x xb hx (by rw [hk]; simp)).2.1; rw [hrefs] at this; cases this
    have hxr : x ≠ r := by intro e; subst e; rw [hx] at hr; cases hr; exact hrnp hxk
    have hq : rb.parent ≠ some x := by
      intro e; have := i.ranked.refLt r rb x x hr hrk e; omega
    have hself : xb.parent ≠ some x := by
      intro e; have := i.ranked.parentLt x xb x hx e; omega
    -- the promoted state
    have hps := promoteMove_shapeEq cfg s x xb rb rest (orNull s ctx) hxk
    have hPr : (promoteS s x rb.parent rest).get r = some rb := by
      rw [promoteS_get hx rb.parent rest hq hself]
      have h1 : rb.parent ≠ some r := by
        intro e
        obtain ⟨po, hpo, hpk, -⟩ := i.wf.parentLive r rb r hr e
        rw [hr] at hpo; cases hpo; exact hrnp hpk
      have h2 : xb.parent ≠ some r := by
        intro e
        obtain ⟨po, hpo, hpk, -⟩ := i.wf.parentLive x xb r hx e
        rw [hr] at hpo; cases hpo; exact hrnp hpk
      simp [Ne.symm hxr, hr, h1, h2]
    obtain ⟨rb', hr', e1, e2, e3, e4, e5, e6⟩ := hps.get hPr
    cases f with
    | zero => simp [run] at hoof
    | succ f =>
      have ht : ∀ t, rb'.kind = .ref t → t ≠ r := by
        intro t hkk; rw [e4, hrk] at hkk; cases hkk; exact hxr
      have hpr : rb'.parent ≠ some r := by
        rw [e1]; intro e
        obtain ⟨po, hpo, hpk, -⟩ := i.wf.parentLive r rb r hr e
        rw [hr] at hpo; cases hpo; exact hrnp hpk
      obtain ⟨c1, c2⟩ := run_free_leaf cfg f _ r rb' hr' (e4 ▸ hrnp) (e2 ▸ lc) (e3 ▸ lr) (e5 ▸ lp) (e6 ▸ ld) ht hpr
      refine ⟨?_, Or.inl c1⟩
      -- structure: TRef released first, then the move
      have hcomm : ShapeEq (moveS (freeLeafS s r) x rb.parent false)
          (run cfg (f + 1) (promoteMove cfg s x xb rb rest (orNull s ctx)) (.free r)).1 := by
        refine ShapeEq.trans ?_ c2
        refine ShapeEq.trans ?_ (shapeEq_freeLeafS hps r)
        refine shapeEq_get_eq ?_ (fun j => promote_comm i.wf hx hxk hrefs hnp hr hq hself j)
        rw [nullCtx_freeLeafS, nullCtx_moveS, nullCtx_freeLeafS]
        unfold promoteS; simp
      have g1 : Good rk (rk x) s (freeLeafS s r) := good_freeLeaf i hr hrnp (ShapeEq.refl _)
      have hLx : (freeLeafS s r).get x = some { xb with children := xb.children.erase r, refs := rest } := by
        rw [freeLeafS_get i.wf hr hrnp]; unfold eraseAll; simp [hxr, hx, hrefs]
      refine g1.trans (good_moveS g1.inv hLx hxk hnp rb.parent ?_ ?_ (Nat.le_refl _) hcomm)
      · intro q hqq
        obtain ⟨qb, hqb, hqk, -⟩ := i.wf.parentLive r rb q hr hqq
        have hqr : q ≠ r := by intro e; subst e; rw [hr] at hqb; cases hqb; exact hrnp hqk
        refine ⟨⟨{ qb with children := qb.children.erase r, refs := qb.refs.erase r }, ?_, hqk⟩,
          i.ranked.refLt r rb x q hr hrk hqq⟩
        rw [freeLeafS_get i.wf hr hrnp]; unfold eraseAll; simp [hqr, hqb]
      · rw [nullCtx_freeLeafS]; exact hnull


/-- `throw_child` re-attaches the refusing child to the nearest non-pending ancestor -/
theorem throw_good (cfg : Cfg) (hfix : cfg.fixCx = true) (rk : Nat → Nat) (s : State) (c o : Nat)
    (cb ob : Obj) (i : Inv rk s) (hc : s.get c = some cb) (hk : cb.kind = .plain)
    (hnp : cb.pending = false) (hpar : cb.parent = some o) (ho : s.get o = some ob)
    (hok : ob.kind = .plain) (hoof : (throwChild cfg s c).oof = false) :
    Good rk (rk o + 1) s (throwChild cfg s c) := by
  have hlt := i.ranked.parentLt c cb o hc hpar
  have hnull : s.nullCtx ≠ some c := by
    intro e
    obtain ⟨nb, hb1, -, -, hb4, -⟩ := i.wf.nullOK c e
    rw [hc] at hb1; cases hb1; rw [hpar] at hb4; cases hb4
  unfold throwChild at hoof ⊢
  simp only [hc, hpar] at hoof ⊢
  cases hcl : climbPending s.fuel s (some o) with
  | none => simp [hcl] at hoof
  | some res =>
    simp only [hcl, hfix, if_true] at hoof ⊢
    by_cases hsame : orNull s res = some o
    · simp only [hsame, ne_eq, not_true_eq_false, if_false]; exact Good.refl i
    · simp only [ne_eq, hsame, not_false_eq_true, if_true]
      have hsh := moveChild_shapeEq cfg s c cb hc (orNull s res) (some o)
      have hir : isRef cb = false := by simp [isRef, hk]
      rw [hir] at hsh
      refine good_moveS i hc hk hnp (orNull s res) ?_ hnull (by omega) hsh
      intro q hq
      rcases climbPending_spec i s.fuel o ob ho hok res hcl with h | ⟨q', qb, h1, h2, h3, h4, h5⟩
      · subst h
        simp only [orNull] at hq
        obtain ⟨nb, hb1, hb2, -, -, -⟩ := i.wf.nullOK q hq
        refine ⟨⟨nb, hb1, hb2⟩, i.ranked.nullMin q c cb hq hc ?_⟩
        intro e; exact hnull (e ▸ hq)
      · subst h1
        simp only [orNull, Option.some.injEq] at hq; subst hq
        exact ⟨⟨qb, h2, h3⟩, by omega⟩


theorem flag_false_of_le {a b : State} (h : FlagsLe a b) :
    (b.oof = false → a.oof = false) ∧ (b.stuck = false → a.stuck = false) := by
  constructor
  · intro hb; cases ha : a.oof with
    | false => rfl
    | true => rw [h.1 ha] at hb; cases hb
  · intro hb; cases ha : a.stuck with
    | false => rfl
    | true => rw [h.2 ha] at hb; cases hb

theorem loop_step (cfg : Cfg) (hfix : cfg.fixCx = true) (rk : Nat → Nat) (f : Nat)
    (hu : UnlinkStmt cfg rk f) (hl : LoopStmt cfg rk f) : LoopStmt cfg rk (f + 1) := by
  intro s o ob fn cur i ho hok hpb hoof hstuck
  cases cur with
  | none => simp only [run]; exact Good.refl i
  | some c =>
    simp only [run] at hoof hstuck ⊢
    -- the ghost assertion held: c is a child of o
    by_cases hcon : (childrenOf s o).contains c = true
    case neg =>
      exfalso
      have hse : loopEnter s o c = s.setStuck := by unfold loopEnter; rw [if_neg hcon]
      rw [hse] at hstuck
      have hst : (s.setStuck).stuck = true := rfl
      split at hstuck
      · rw [hst] at hstuck; cases hstuck
      · split at hstuck
        · rw [(run_flagsLe cfg f _ _).2 hst] at hstuck; cases hstuck
        · have h1 := (run_flagsLe cfg f s.setStuck (.unlink (some o) c)).2 hst
          have h2 : (if (run cfg f s.setStuck (.unlink (some o) c)).2 ≠ 0 then
              throwChild cfg (run cfg f s.setStuck (.unlink (some o) c)).1 c
              else (run cfg f s.setStuck (.unlink (some o) c)).1).stuck = true := by
            split
            · exact (throwChild_flagsLe cfg _ c).2 h1
            · exact h1
          rw [(run_flagsLe cfg f _ _).2 h2] at hstuck; cases hstuck
    have hse : loopEnter s o c = s := by unfold loopEnter; rw [if_pos hcon]
    rw [hse] at hoof hstuck ⊢
    have hcm : c ∈ ob.children := by
      rw [childrenOf_eq ho] at hcon; simpa using hcon
    obtain ⟨cb, hc, hcp, hcnp⟩ := i.wf.childBack o ob c ho hcm
    have hlt := i.ranked.parentLt c cb o hc hcp
    simp only [hc] at hoof hstuck ⊢
    by_cases hskip : (!fn && isLimit cb) = true
    · simp only [hskip, if_true] at hoof hstuck ⊢
      exact hl s o ob fn _ i ho hok hpb hoof hstuck
    · simp only [hskip, if_false] at hoof hstuck ⊢
      -- the body: unlink, possibly throw
      have hfl2 := run_flagsLe cfg f
        (if (run cfg f s (.unlink (some o) c)).2 ≠ 0 then throwChild cfg (run cfg f s (.unlink (some o) c)).1 c
          else (run cfg f s (.unlink (some o) c)).1) (.loop o fn (succOf (childrenOf s o) c))
      obtain ⟨hoof2, hstuck2⟩ := flag_false_of_le hfl2
      have hoof2 := hoof2 hoof
      have hstuck2 := hstuck2 hstuck
      have hfl1 : FlagsLe (run cfg f s (.unlink (some o) c)).1
          (if (run cfg f s (.unlink (some o) c)).2 ≠ 0 then throwChild cfg (run cfg f s (.unlink (some o) c)).1 c
          else (run cfg f s (.unlink (some o) c)).1) := by
        split
        · exact throwChild_flagsLe _ _ _
        · exact FlagsLe.refl _
      obtain ⟨hoof1, hstuck1⟩ := flag_false_of_le hfl1
      have hoof1 := hoof1 hoof2
      have hstuck1 := hstuck1 hstuck2
      have hnullc : s.nullCtx ≠ some c := by
        intro e
        obtain ⟨nb, hb1, -, -, hb4, -⟩ := i.wf.nullOK c e
        rw [hc] at hb1; cases hb1; rw [hcp] at hb4; cases hb4
      have hpbc : PendBelow rk s (rk c) none := by
        intro y yo hy hp _
        by_cases e : y = o
        · subst e; exact hlt
        · have := hpb y yo hy hp (by simpa using e); omega
      obtain ⟨g1, hout⟩ := hu s (some o) c cb i hc hcnp (by simp [orNull, hcp]) hnullc hpbc hoof1 hstuck1
      generalize run cfg f s (.unlink (some o) c) = r1 at g1 hout hoof hstuck hoof2 hstuck2 hoof1 hstuck1 ⊢
      -- o is still there
      obtain ⟨o1, ho1, -, -, hok1⟩ := g1.stable o ob ho hok hlt
      have g2 : Good rk (rk o + 1) s (if r1.2 ≠ 0 then throwChild cfg r1.1 c else r1.1) := by
        by_cases hrc : r1.2 = 0
        · simp only [hrc, ne_eq, not_true_eq_false, if_false]; exact g1.mono (by omega)
        · simp only [ne_eq, hrc, not_false_eq_true, if_true] at hoof2 ⊢
          rcases hout with h0 | ⟨hck, d, hsh⟩
          · exact absurd h0 hrc
          · obtain ⟨c1, hc1, e1, -, -, e4, e5, -⟩ := hsh.get (j := c) (o := { cb with dtor := d }) (by simp [hc])
            exact (g1.mono (by omega)).trans
              (throw_good cfg hfix rk r1.1 c o c1 o1 g1.inv hc1 (e4 ▸ hck) (e5 ▸ hcnp) (e1 ▸ hcp) ho1 hok1 hoof2)
      generalize (if r1.2 ≠ 0 then throwChild cfg r1.1 c else r1.1) = s2 at g2 hoof hstuck hoof2 hstuck2 ⊢
      obtain ⟨o2, ho2, -, -, hok2⟩ := g2.stable o ob ho hok (Nat.lt_succ_self _)
      exact g2.trans (hl s2 o o2 fn _ g2.inv ho2 hok2 (hpb.of_nnp g2.nnp) hoof hstuck)

/-- `run` preserves the structural invariant and the ranking of the holder graph -/
theorem run_good (cfg : Cfg) (hfix : cfg.fixCx = true) (rk : Nat → Nat) (f : Nat) :
    FreeStmt cfg rk f ∧ UnlinkStmt cfg rk f ∧ LoopStmt cfg rk f := by
  induction f with
  | zero =>
    refine ⟨?_, ?_, ?_⟩
    · intro s x xb _ _ _ _ _ _ hoof _; simp [run] at hoof
    · intro s ctx x xb _ _ _ _ _ _ hoof _; simp [run] at hoof
    · intro s o ob fn cur _ _ _ _ hoof _; simp [run] at hoof
  | succ f ih =>
    exact ⟨free_step cfg rk f ih.2.2, unlink_step cfg rk f ih.1, loop_step cfg hfix rk f ih.2.1 ih.2.2⟩

end Usual.C01
