import UsualProofs.C01.OpsFree
/-! Public operations that allocate: talloc (hdr_alloc_cx), talloc_reference, talloc_set_memlimit's
chunk, null tracking. -/
set_option linter.unusedSimpArgs false
set_option linter.unusedVariables false
namespace Usual.C01

/-- structural part of `hdr_alloc_cx`: the new chunk gets the next id and is linked to its parent -/
def allocS (s : State) (parent : Option Id) (front : Bool) (nb : Obj) : State :=
  addChild (s.push nb) parent s.heap.length front

theorem allocS_get (s : State) (parent : Option Id) (front : Bool) (nb : Obj)
    (hp : ∀ p, parent = some p → p < s.heap.length) (j : Nat) :
    (allocS s parent front nb).get j =
      if j = s.heap.length then some nb
      else if parent = some j then (s.get j).map fun po =>
        { po with children := if front then s.heap.length :: po.children else po.children ++ [s.heap.length] }
      else s.get j := by
  unfold allocS addChild
  cases parent with
  | none => simp only [get_push]; by_cases h : j = s.heap.length <;> simp [h]
  | some p =>
    have hpl := hp p rfl
    simp only [get_modify, get_push]
    by_cases h : j = s.heap.length
    · subst h; have : p ≠ s.heap.length := Nat.ne_of_lt hpl
      simp [this]
    · by_cases h2 : p = j
      · subst h2; simp [h]
      · simp [h, h2, Ne.symm h2]

theorem nullCtx_allocS (s : State) (parent : Option Id) (front : Bool) (nb : Obj) :
    (allocS s parent front nb).nullCtx = s.nullCtx := by
  unfold allocS; simp

/-- nothing in a well-formed state mentions an id that is not live -/
theorem WFp.fresh {s : State} (w : WFp s) {n : Nat} (hn : s.get n = none) (y : Nat) (yo : Obj)
    (hy : s.get y = some yo) :
    n ∉ yo.children ∧ n ∉ yo.refs ∧ yo.parent ≠ some n ∧ yo.kind ≠ .ref n ∧ y ≠ n := by
  refine ⟨?_, ?_, ?_, ?_, ?_⟩
  · intro h; obtain ⟨co, hco, -⟩ := w.childBack y yo n hy h; rw [hn] at hco; cases hco
  · intro h; obtain ⟨co, hco, -⟩ := w.refLive y yo n hy h; rw [hn] at hco; cases hco
  · intro h; obtain ⟨co, hco, -⟩ := w.parentLive y yo n hy h; rw [hn] at hco; cases hco
  · intro h; obtain ⟨co, hco, -⟩ := w.refBack y yo n hy h; rw [hn] at hco; cases hco
  · intro h; subst h; rw [hn] at hy; cases hy

theorem allocS_wf {s : State} (w : WFp s) (parent : Option Id) (nb : Obj)
    (hpar : ∀ p, parent = some p → ∃ pb, s.get p = some pb ∧ pb.kind = .plain)
    (h1 : nb.parent = parent) (h2 : nb.children = []) (h3 : nb.refs = []) (h4 : nb.pending = false)
    (h5 : nb.dtor = .none) (hk : nb.kind = .plain ∨ nb.kind = .limit) (front : Bool)
    (hfront : front = true ↔ nb.kind ≠ .plain) :
    WFp (allocS s parent front nb) := by
  have ⟨w1, w2, w3, w4, w5, w6, w7, w8, w9, w10⟩ := w
  have hfr := w.fresh (get_none_of_ge s s.heap.length (Nat.le_refl _))
  have hpl : ∀ p, parent = some p → p < s.heap.length := by
    intro p hp; obtain ⟨pb, hpb, -⟩ := hpar p hp; exact lt_of_get s p pb hpb
  have hg := allocS_get s parent front nb hpl
  have hnone : s.get s.heap.length = none := get_none_of_ge s _ (Nat.le_refl _)
  have hk' : ∀ a, a ≠ s.heap.length → (isPlainAt (allocS s parent front nb) a ↔ isPlainAt s a) := by
    intro a ha; unfold isPlainAt; rw [hg]; simp only [ha, if_false]
    split <;> cases s.get a <;> simp
  constructor
  · intro y o p hy hpp; rw [hg] at hy; rw [hg]; grind
  · intro y o c hy hc; rw [hg] at hy; rw [hg]; grind
  · intro y o hy; rw [hg] at hy; grind
  · intro y o r hy hc; rw [hg] at hy; rw [hg]; grind
  · intro y o hy; rw [hg] at hy; grind
  · intro y o r hy hc; rw [hg] at hy; rw [hg]; grind
  · intro y o hy hc; rw [hg] at hy; grind
  · intro y o hy hc; rw [hg] at hy; grind
  · intro y o hy
    rw [hg] at hy
    by_cases e1 : y = s.heap.length
    · simp only [e1, if_true, Option.some.injEq] at hy; subst hy; rw [h2]; exact List.Pairwise.nil
    · simp only [e1, if_false] at hy
      split at hy
      · rename_i hpy
        cases hy0 : s.get y with
        | none => rw [hy0] at hy; cases hy
        | some po =>
          rw [hy0] at hy; simp only [Option.map_some, Option.some.injEq] at hy; subst hy
          have hold := w9 y po hy0
          have hmem : ∀ a ∈ po.children, a ≠ s.heap.length := fun a ha e => (hfr y po hy0).1 (e ▸ ha)
          have hold' : po.children.Pairwise (fun a b =>
              isPlainAt (allocS s parent front nb) a →
              isPlainAt (allocS s parent front nb) b) := by
            refine hold.imp_of_mem ?_
            intro a b ha hb hab
            rw [hk' a (hmem a ha), hk' b (hmem b hb)]; exact hab
          have hnew : isPlainAt (allocS s parent front nb) s.heap.length ↔ nb.kind = .plain := by
            unfold isPlainAt; rw [hg]; simp
          rcases hk with hk | hk
          · have hf : front = false := by
              cases front with
              | false => rfl
              | true => exact absurd hk (hfront.1 rfl)
            subst hf
            simp only [Bool.false_eq_true, if_false]
            rw [List.pairwise_append]
            refine ⟨hold', List.pairwise_singleton _ _, ?_⟩
            intro a _ b hb _
            simp only [List.mem_singleton] at hb; subst hb
            exact hnew.2 hk
          · have hf : front = true := hfront.2 (by rw [hk]; simp)
            subst hf
            simp only [if_true]
            refine List.Pairwise.cons ?_ hold'
            intro b _ hp
            rw [hnew, hk] at hp; cases hp
      · have hold := w9 y o hy
        have hmem : ∀ a ∈ o.children, a ≠ s.heap.length := fun a ha e => (hfr y o hy).1 (e ▸ ha)
        refine hold.imp_of_mem ?_
        intro a b ha hb hab
        rw [hk' a (hmem a ha), hk' b (hmem b hb)]; exact hab
  · intro n hn
    rw [nullCtx_allocS] at hn
    obtain ⟨nb', hb1, hb2, hb3, hb4, hb5⟩ := w10 n hn
    rw [hg]; grind


theorem applyLim_length (cfg : Cfg) (f : Nat) (s : State) (t : Option Id) (d : Int) (force : Bool) (s' : State)
    (h : applyLim cfg f s t d force = some s') : s'.heap.length = s.heap.length := by
  induction f generalizing s t s' with
  | zero => simp only [applyLim] at h; cases h; rfl
  | succ f ih =>
    simp only [applyLim] at h
    split at h
    · cases h; rfl
    · split at h
      · cases h; rfl
      · split at h
        · cases h; rfl
        · split at h
          · exact ih _ _ _ h
          · split at h
            · split at h
              · exact ih _ _ _ h
              · cases h; rfl
            · split at h
              · cases h; rfl
              · split at h
                · cases h
                · split at h
                  · cases h
                  · cases h
                    rename_i s'' hs''
                    rw [length_modify]; exact ih _ _ _ hs''

/-- what `hdr_alloc_cx` does to the structure -/
theorem hdrAlloc_spec (cfg : Cfg) (s : State) (cx : Nat) (parent : Option Id) (len : Nat) (prepend : Bool)
    (kind : Kind) (fail : Bool) :
    ((hdrAlloc cfg s cx parent len prepend kind fail).2 = false →
      ShapeEq s (hdrAlloc cfg s cx parent len prepend kind fail).1) ∧
    ((hdrAlloc cfg s cx parent len prepend kind fail).2 = true →
      ∃ s1 nb, ShapeEq s s1 ∧ s1.heap.length = s.heap.length ∧
        (hdrAlloc cfg s cx parent len prepend kind fail).1 = allocS s1 (orNull s parent) prepend nb ∧
        nb.parent = orNull s parent ∧ nb.children = [] ∧ nb.refs = [] ∧ nb.pending = false ∧
        nb.dtor = .none ∧ nb.kind = kind) := by
  unfold hdrAlloc
  split
  · exact ⟨fun _ => ShapeEq.refl s, fun h => by simp at h⟩
  · simp only []
    split
    · exact ⟨fun _ => ShapeEq.refl s, fun h => by simp at h⟩
    · rename_i s1 hs1
      have hsh := applyLim_shapeEq _ _ _ _ _ _ _ hs1
      have hlen := applyLim_length _ _ _ _ _ _ _ hs1
      split
      · exact ⟨fun _ => hsh.trans (applyLim_getD_shapeEq _ _ _ _ _ _), fun h => by simp at h⟩
      · refine ⟨fun h => by simp at h, fun _ => ?_⟩
        exact ⟨s1, _, hsh, hlen, rfl, rfl, rfl, rfl, rfl, rfl, rfl⟩

theorem UserCtx.orNull {s : State} (w : WFp s) {c : Option Id} (h : UserCtx s c) :
    ∀ p, orNull s c = some p → ∃ pb, s.get p = some pb ∧ pb.kind = .plain := by
  intro p hp
  cases c with
  | some x =>
    simp only [Usual.C01.orNull, Option.some.injEq] at hp; subst hp
    obtain ⟨ob, h1, h2, -⟩ := h x rfl; exact ⟨ob, h1, h2⟩
  | none =>
    simp only [Usual.C01.orNull] at hp
    obtain ⟨nb, h1, h2, -⟩ := w.nullOK p hp; exact ⟨nb, h1, h2⟩

/-- ranking for a state that got a new object `n` under `parent` -/
theorem Ranked.alloc {rk : Nat → Nat} {s1 : State} (wr : Ranked rk s1) (w : WFp s1) (parent : Option Id)
    (front : Bool) (nb : Obj) (hpar : ∀ p, parent = some p → ∃ pb, s1.get p = some pb ∧ pb.kind = .plain)
    (hnp : nb.parent = parent) (hnull : ∀ n, s1.nullCtx = some n → parent ≠ none)
    (hk : ∀ t, nb.kind = .ref t → ∀ q, parent = some q → rk q < rk t) :
    ∃ rk', Ranked rk' (allocS s1 parent front nb) ∧ ∀ j, j ≠ s1.heap.length → rk' j = rk j := by
  have hnone : s1.get s1.heap.length = none := get_none_of_ge s1 _ (Nat.le_refl _)
  have hfr := w.fresh hnone
  have hpl : ∀ p, parent = some p → p < s1.heap.length := by
    intro p hp; obtain ⟨pb, hpb, -⟩ := hpar p hp; exact lt_of_get s1 p pb hpb
  have hg := allocS_get s1 parent front nb hpl
  refine ⟨fun j => if j = s1.heap.length then (parent.map fun p => rk p + 1).getD 0 else rk j, ?_,
    fun j hj => by simp [hj]⟩
  have hcase : ∀ (y : Nat) o, (allocS s1 parent front nb).get y = some o →
      (y = s1.heap.length ∧ o = nb) ∨
      (y ≠ s1.heap.length ∧ ∃ o0, s1.get y = some o0 ∧ o0.parent = o.parent ∧ o0.kind = o.kind) := by
    intro y o hy
    rw [hg] at hy
    by_cases e1 : y = s1.heap.length
    · left; simp only [e1, if_true, Option.some.injEq] at hy; exact ⟨e1, hy.symm⟩
    · right
      simp only [e1, if_false] at hy
      refine ⟨e1, ?_⟩
      split at hy
      · obtain ⟨o0, h0, rfl⟩ := Option.map_eq_some_iff.1 hy; exact ⟨o0, h0, rfl, rfl⟩
      · exact ⟨o, hy, rfl, rfl⟩
  constructor
  · intro y o p hy hpp
    rcases hcase y o hy with ⟨e, rfl⟩ | ⟨e, o0, h0, e2, -⟩
    · have hpp' : parent = some p := by rw [← hnp]; exact hpp
      have hpne : p ≠ s1.heap.length := Nat.ne_of_lt (hpl p hpp')
      simp only [e, if_true, hpne, if_false, hpp', Option.map_some, Option.getD_some]
      exact Nat.lt_succ_self _
    · have hpne : p ≠ s1.heap.length := fun e' => (hfr y o0 h0).2.2.1 (by rw [e2, hpp, e'])
      simp only [e, hpne, if_false]
      exact wr.parentLt y o0 p h0 (e2 ▸ hpp)
  · intro y o t q hy hk' hq
    rcases hcase y o hy with ⟨e, rfl⟩ | ⟨e, o0, h0, e2, e3⟩
    · have hq' : parent = some q := by rw [← hnp]; exact hq
      have hqne : q ≠ s1.heap.length := Nat.ne_of_lt (hpl q hq')
      have hlt := hk t hk' q hq'
      by_cases ht : t = s1.heap.length
      · -- the target would be the new object itself: impossible for a live target
        simp only [hqne, if_false, ht, if_true, hq', Option.map_some, Option.getD_some]
        exact Nat.lt_succ_self _
      · simp only [hqne, ht, if_false]; exact hlt
    · have hqne : q ≠ s1.heap.length := fun e' => (hfr y o0 h0).2.2.1 (by rw [e2, hq, e'])
      have htne : t ≠ s1.heap.length := fun e' => (hfr y o0 h0).2.2.2.1 (by rw [e3, hk', e'])
      simp only [hqne, htne, if_false]
      exact wr.refLt y o0 t q h0 (e3 ▸ hk') (e2 ▸ hq)
  · intro n y o hn hy hne
    rw [nullCtx_allocS] at hn
    have hnl : n ≠ s1.heap.length := by
      obtain ⟨nb', hb1, -⟩ := w.nullOK n hn
      exact Nat.ne_of_lt (lt_of_get s1 n nb' hb1)
    rcases hcase y o hy with ⟨e, rfl⟩ | ⟨e, o0, h0, -, -⟩
    · simp only [hnl, if_false, e, if_true]
      cases hp : parent with
      | none => exact absurd hp (hnull n hn)
      | some p =>
        simp only [Option.map_some, Option.getD_some]
        by_cases hpn : p = n
        · subst hpn; exact Nat.lt_succ_self _
        · obtain ⟨pb, hpb, -⟩ := hpar p hp
          have := wr.nullMin n p pb hn hpb hpn
          exact Nat.lt_succ_of_lt this
    · simp only [hnl, e, if_false]
      exact wr.nullMin n y o0 hn h0 hne


theorem orNull_ne_none_of_null {s : State} {n : Nat} (hn : s.nullCtx = some n) (c : Option Id) :
    orNull s c ≠ none := by
  cases c <;> simp [orNull, hn]

/-- a plain / limit chunk has been allocated under `parent` in a state of the same shape as `s` -/
theorem alloc_plain_wf {rk : Nat → Nat} {s s1 : State} (w : WF s) (wr : Ranked rk s) (hsh : ShapeEq s s1)
    (ctx : Option Id) (hctx : UserCtx s ctx) (front : Bool) (nb : Obj)
    (h1 : nb.parent = orNull s ctx) (h2 : nb.children = []) (h3 : nb.refs = []) (h4 : nb.pending = false)
    (h5 : nb.dtor = .none) (hk : nb.kind = .plain ∨ nb.kind = .limit)
    (hfront : front = true ↔ nb.kind ≠ .plain) :
    WF (allocS s1 (orNull s ctx) front nb) ∧
    ∃ rk', Ranked rk' (allocS s1 (orNull s ctx) front nb) ∧ ∀ j, j ≠ s1.heap.length → rk' j = rk j := by
  have w1 : WF s1 := w.shapeEq hsh
  have hpar : ∀ p, orNull s ctx = some p → ∃ pb, s1.get p = some pb ∧ pb.kind = .plain := by
    intro p hp
    obtain ⟨pb, hpb, hpk⟩ := hctx.orNull w.toWFp p hp
    obtain ⟨pb', h', -, -, -, e4, -, -⟩ := hsh.get hpb
    exact ⟨pb', h', e4 ▸ hpk⟩
  have hpl : ∀ p, orNull s ctx = some p → p < s1.heap.length := by
    intro p hp; obtain ⟨pb, hpb, -⟩ := hpar p hp; exact lt_of_get s1 p pb hpb
  refine ⟨⟨allocS_wf w1.toWFp _ nb hpar h1 h2 h3 h4 h5 hk front hfront, ?_⟩, ?_⟩
  · intro x o hx
    rw [allocS_get s1 _ front nb hpl] at hx
    by_cases e : x = s1.heap.length
    · simp only [e, if_true, Option.some.injEq] at hx; subst hx; exact h4
    · simp only [e, if_false] at hx
      split at hx
      · obtain ⟨o0, h0, rfl⟩ := Option.map_eq_some_iff.1 hx; exact w1.noPending x o0 h0
      · exact w1.noPending x o hx
  · refine Ranked.alloc (wr.shapeEq hsh) w1.toWFp _ front nb hpar h1 ?_ ?_
    · intro n hn; rw [hsh.1] at hn; exact orNull_ne_none_of_null hn ctx
    · intro t hkk; rcases hk with hk | hk <;> rw [hk] at hkk <;> cases hkk

theorem hdrAlloc_plain_wf {rk : Nat → Nat} {s : State} (cfg : Cfg) (w : WF s) (wr : Ranked rk s)
    (cx : Nat) (parent : Option Id) (size : Nat) (fail : Bool) (hctx : UserCtx s parent) :
    WF (hdrAlloc cfg s cx parent size false .plain fail).1 ∧
    ∃ rk', Ranked rk' (hdrAlloc cfg s cx parent size false .plain fail).1 := by
  obtain ⟨hf, ht⟩ := hdrAlloc_spec cfg s cx parent size false .plain fail
  cases hok : (hdrAlloc cfg s cx parent size false .plain fail).2 with
  | false => exact ⟨w.shapeEq (hf hok), rk, wr.shapeEq (hf hok)⟩
  | true =>
    obtain ⟨s1, nb, hsh, hlen, heq, a1, a2, a3, a4, a5, a6⟩ := ht hok
    rw [heq]
    obtain ⟨h1, rk', h2, -⟩ := alloc_plain_wf w wr hsh parent hctx false nb a1 a2 a3 a4 a5 (Or.inl a6)
      (by simp [a6])
    exact ⟨h1, rk', h2⟩

/-- `talloc_named_const(parent, size, ..)` / `talloc_from_cx` -/
theorem alloc_wf {rk : Nat → Nat} {s : State} (cfg : Cfg) (w : WF s) (wr : Ranked rk s) (parent : Option Id)
    (size : Nat) (fromCx fail : Bool) (hctx : UserCtx s parent) :
    WF (step cfg s (.alloc parent size fromCx fail)).1 ∧
    ∃ rk', Ranked rk' (step cfg s (.alloc parent size fromCx fail)).1 := by
  simp only [step]
  exact hdrAlloc_plain_wf cfg w wr _ parent size fail hctx


/-- structural part of `_talloc_reference_named`: TRef chunk under `ctx`, appended to `o.ref_list` -/
def refS (s : State) (ctx : Option Id) (o : Nat) (nb : Obj) : State :=
  (allocS s ctx true nb).modify o fun x => { x with refs := x.refs ++ [s.heap.length] }

theorem refS_get (s : State) (ctx : Option Id) (o : Nat) (nb : Obj)
    (hp : ∀ p, ctx = some p → p < s.heap.length) (ho : o < s.heap.length) (j : Nat) :
    (refS s ctx o nb).get j =
      if j = s.heap.length then some nb
      else (s.get j).map fun po =>
        { po with children := if ctx = some j then s.heap.length :: po.children else po.children,
                  refs := if j = o then po.refs ++ [s.heap.length] else po.refs } := by
  unfold refS
  rw [get_modify, allocS_get s ctx true nb hp]
  have hon : o ≠ s.heap.length := Nat.ne_of_lt ho
  by_cases e1 : j = s.heap.length
  · subst e1; simp [hon]
  · simp only [e1, if_false]
    by_cases e2 : o = j
    · subst e2
      simp only [if_true]
      by_cases e3 : ctx = some o
      · simp [e3]; cases s.get o <;> simp
      · simp [e3]
    · simp only [e2, Ne.symm e2, if_false]
      by_cases e3 : ctx = some j
      · simp [e3]
      · simp [e3]

theorem refS_wf {s : State} (w : WFp s) (ctx : Option Id) (o : Nat) (ob : Obj) (nb : Obj)
    (hpar : ∀ p, ctx = some p → ∃ pb, s.get p = some pb ∧ pb.kind = .plain)
    (ho : s.get o = some ob) (hok : ob.kind = .plain) (hop : ob.pending = false)
    (honull : s.nullCtx ≠ some o)
    (h1 : nb.parent = ctx) (h2 : nb.children = []) (h3 : nb.refs = []) (h4 : nb.pending = false)
    (h5 : nb.dtor = .none) (hk : nb.kind = .ref o) : WFp (refS s ctx o nb) := by
  have ⟨w1, w2, w3, w4, w5, w6, w7, w8, w9, w10⟩ := w
  have hnone : s.get s.heap.length = none := get_none_of_ge s _ (Nat.le_refl _)
  have hfr := w.fresh hnone
  have hpl : ∀ p, ctx = some p → p < s.heap.length := by
    intro p hp; obtain ⟨pb, hpb, -⟩ := hpar p hp; exact lt_of_get s p pb hpb
  have hol := lt_of_get s o ob ho
  have hg := refS_get s ctx o nb hpl hol
  have hk' : ∀ a, a ≠ s.heap.length → (isPlainAt (refS s ctx o nb) a ↔ isPlainAt s a) := by
    intro a ha; unfold isPlainAt; rw [hg]; simp only [ha, if_false]
    cases s.get a <;> simp
  have hnew : ¬ isPlainAt (refS s ctx o nb) s.heap.length := by
    unfold isPlainAt; rw [hg]; simp [hk]
  have hnewget : (refS s ctx o nb).get s.heap.length = some nb := by rw [hg]; simp
  -- objects of the new state
  have hge : ∀ (y : Nat) o', (refS s ctx o nb).get y = some o' →
      (y = s.heap.length ∧ o' = nb) ∨
      (y ≠ s.heap.length ∧ ∃ o0, s.get y = some o0 ∧ o' =
        { o0 with children := if ctx = some y then s.heap.length :: o0.children else o0.children,
                  refs := if y = o then o0.refs ++ [s.heap.length] else o0.refs }) := by
    intro y o' hy
    rw [hg] at hy
    by_cases e1 : y = s.heap.length
    · left; simp only [e1, if_true, Option.some.injEq] at hy; exact ⟨e1, hy.symm⟩
    · right; simp only [e1, if_false] at hy
      obtain ⟨o0, h0, rfl⟩ := Option.map_eq_some_iff.1 hy
      exact ⟨e1, o0, h0, rfl⟩
  have hgs : ∀ (y : Nat) o0, s.get y = some o0 → (refS s ctx o nb).get y = some
      { o0 with children := if ctx = some y then s.heap.length :: o0.children else o0.children,
                refs := if y = o then o0.refs ++ [s.heap.length] else o0.refs } := by
    intro y o0 hy
    rw [hg]; simp [(hfr y o0 hy).2.2.2.2, hy]
  constructor
  · intro y o' p hy hpp
    rcases hge y o' hy with ⟨rfl, rfl⟩ | ⟨hne, o0, h0, rfl⟩
    · have hc : ctx = some p := by rw [← h1]; exact hpp
      obtain ⟨pb, hpb, hpk⟩ := hpar p hc
      exact ⟨_, hgs p pb hpb, hpk, by simp [hc]⟩
    · obtain ⟨pb, hpb, hpk, hm⟩ := w1 y o0 p h0 hpp
      refine ⟨_, hgs p pb hpb, hpk, ?_⟩
      rcases hm with hm | hm
      · left; simp only []; split
        · exact List.mem_cons_of_mem _ hm
        · exact hm
      · right; exact hm
  · intro y o' c hy hc
    rcases hge y o' hy with ⟨rfl, rfl⟩ | ⟨hne, o0, h0, rfl⟩
    · rw [h2] at hc; cases hc
    · simp only [] at hc
      by_cases hctx : ctx = some y
      · simp only [hctx, if_true, List.mem_cons] at hc
        rcases hc with rfl | hc
        · exact ⟨nb, hnewget, by rw [h1, hctx], h4⟩
        · obtain ⟨co, hco, hcp, hcpe⟩ := w2 y o0 c h0 hc
          exact ⟨_, hgs c co hco, hcp, hcpe⟩
      · simp only [hctx, if_false] at hc
        obtain ⟨co, hco, hcp, hcpe⟩ := w2 y o0 c h0 hc
        exact ⟨_, hgs c co hco, hcp, hcpe⟩
  · intro y o' hy
    rcases hge y o' hy with ⟨rfl, rfl⟩ | ⟨hne, o0, h0, rfl⟩
    · rw [h2]; exact List.nodup_nil
    · simp only []; split
      · exact List.nodup_cons.2 ⟨(hfr y o0 h0).1, w3 y o0 h0⟩
      · exact w3 y o0 h0
  · intro y o' r hy hc
    rcases hge y o' hy with ⟨rfl, rfl⟩ | ⟨hne, o0, h0, rfl⟩
    · rw [h3] at hc; cases hc
    · simp only [] at hc
      by_cases hyo : y = o
      · simp only [hyo, if_true, List.mem_append, List.mem_singleton] at hc
        rcases hc with hc | rfl
        · obtain ⟨ro, hro, hrk⟩ := w4 y o0 r h0 hc
          exact ⟨_, hgs r ro hro, hrk⟩
        · exact ⟨nb, hnewget, by rw [hk, hyo]⟩
      · simp only [hyo, if_false] at hc
        obtain ⟨ro, hro, hrk⟩ := w4 y o0 r h0 hc
        exact ⟨_, hgs r ro hro, hrk⟩
  · intro y o' hy
    rcases hge y o' hy with ⟨rfl, rfl⟩ | ⟨hne, o0, h0, rfl⟩
    · rw [h3]; exact List.nodup_nil
    · simp only []; split
      · rw [List.nodup_append]
        refine ⟨w5 y o0 h0, by simp, ?_⟩
        intro a ha b hb
        simp at hb; subst hb
        exact fun e => (hfr y o0 h0).2.1 (e ▸ ha)
      · exact w5 y o0 h0
  · intro y o' t hy hkk
    rcases hge y o' hy with ⟨rfl, rfl⟩ | ⟨hne, o0, h0, rfl⟩
    · rw [hk] at hkk; cases hkk
      exact ⟨_, hgs o ob ho, by simp⟩
    · obtain ⟨tb, htb, hm⟩ := w6 y o0 t h0 hkk
      refine ⟨_, hgs t tb htb, ?_⟩
      simp only []; split
      · exact List.mem_append_left _ hm
      · exact hm
  · intro y o' hy hkk
    rcases hge y o' hy with ⟨rfl, rfl⟩ | ⟨hne, o0, h0, rfl⟩
    · exact ⟨h2, h3, h5, h4⟩
    · obtain ⟨a1, a2, a3, a4⟩ := w7 y o0 h0 hkk
      have hyo : y ≠ o := by intro e; subst e; rw [ho] at h0; cases h0; exact hkk hok
      have hctx : ctx ≠ some y := by
        intro e; obtain ⟨pb, hpb, hpk⟩ := hpar y e; rw [h0] at hpb; cases hpb; exact hkk hpk
      simp only [hyo, hctx, if_false]; exact ⟨a1, a2, a3, a4⟩
  · intro y o' hy hpe
    rcases hge y o' hy with ⟨rfl, rfl⟩ | ⟨hne, o0, h0, rfl⟩
    · exact h3
    · have hyo : y ≠ o := by
        intro e; subst e; rw [ho] at h0; cases h0; rw [hop] at hpe; cases hpe
      simp only [hyo, if_false]; exact w8 y o0 h0 hpe
  · intro y o' hy
    rcases hge y o' hy with ⟨rfl, rfl⟩ | ⟨hne, o0, h0, rfl⟩
    · rw [h2]; exact List.Pairwise.nil
    · simp only []
      have hold := w9 y o0 h0
      have hmem : ∀ a ∈ o0.children, a ≠ s.heap.length := fun a ha e => (hfr y o0 h0).1 (e ▸ ha)
      have hold' : o0.children.Pairwise (fun a b =>
          isPlainAt (refS s ctx o nb) a → isPlainAt (refS s ctx o nb) b) := by
        refine hold.imp_of_mem ?_
        intro a b ha hb hab
        rw [hk' a (hmem a ha), hk' b (hmem b hb)]; exact hab
      split
      · refine List.Pairwise.cons ?_ hold'
        intro b _ hp; exact absurd hp hnew
      · exact hold'
  · intro n hn
    have : (refS s ctx o nb).nullCtx = s.nullCtx := by unfold refS; simp [nullCtx_allocS]
    rw [this] at hn
    obtain ⟨nb', hb1, hb2, hb3, hb4, hb5⟩ := w10 n hn
    have hno : n ≠ o := fun e => honull (e ▸ hn)
    refine ⟨_, hgs n nb' hb1, hb2, hb3, hb4, ?_⟩
    simp [hno, hb5]


/-- `talloc_reference(ctx, o)`; the caller keeps the holder graph acyclic: `ctx` ranks below `o` -/
theorem reference_wf {rk : Nat → Nat} {s : State} (cfg : Cfg) (w : WF s) (wr : Ranked rk s) (ctx : Option Id)
    (o : Nat) (fail : Bool) (hctx : UserCtx s ctx) (ho : UserObj s o)
    (hacyc : ∀ c, ctx = some c → rk c < rk o) :
    WF (step cfg s (.reference ctx o fail)).1 ∧
    ∃ rk', Ranked rk' (step cfg s (.reference ctx o fail)).1 := by
  obtain ⟨ob, hob, hok, honull⟩ := ho
  simp only [step, hob]
  obtain ⟨hf, ht⟩ := hdrAlloc_spec cfg s (cxOf s ctx) ctx REFSIZE true (.ref o) fail
  cases hok' : (hdrAlloc cfg s (cxOf s ctx) ctx REFSIZE true (.ref o) fail).2 with
  | false =>
    simp only [Bool.false_eq_true, if_false]
    exact ⟨w.shapeEq (hf hok'), rk, wr.shapeEq (hf hok')⟩
  | true =>
    simp only [if_true]
    obtain ⟨s1, nb, hsh, hlen, heq, a1, a2, a3, a4, a5, a6⟩ := ht hok'
    rw [heq, ← hlen]
    have w1 : WF s1 := w.shapeEq hsh
    have hpar : ∀ p, orNull s ctx = some p → ∃ pb, s1.get p = some pb ∧ pb.kind = .plain := by
      intro p hp
      obtain ⟨pb, hpb, hpk⟩ := hctx.orNull w.toWFp p hp
      obtain ⟨pb', h', -, -, -, e4, -, -⟩ := hsh.get hpb
      exact ⟨pb', h', e4 ▸ hpk⟩
    obtain ⟨ob1, hob1, -, -, -, e4, e5, -⟩ := hsh.get hob
    have hpl : ∀ p, orNull s ctx = some p → p < s1.heap.length := by
      intro p hp; obtain ⟨pb, hpb, -⟩ := hpar p hp; exact lt_of_get s1 p pb hpb
    have hol := lt_of_get s1 o ob1 hob1
    have hwf := refS_wf w1.toWFp (orNull s ctx) o ob1 nb hpar hob1 (e4 ▸ hok)
      (by rw [e5]; exact w.noPending o ob hob) (by rw [hsh.1]; exact honull) a1 a2 a3 a4 a5 a6
    refine ⟨⟨hwf, ?_⟩, ?_⟩
    · intro x o' hx
      have hx' : (refS s1 (orNull s ctx) o nb).get x = some o' := hx
      rw [refS_get s1 _ o nb hpl hol] at hx'
      by_cases e : x = s1.heap.length
      · simp only [e, if_true, Option.some.injEq] at hx'; subst hx'; exact a4
      · simp only [e, if_false] at hx'
        obtain ⟨o0, h0, rfl⟩ := Option.map_eq_some_iff.1 hx'; exact w1.noPending x o0 h0
    · -- ranking: the TRef chunk sits just above its context
      have hq : ∀ q, orNull s ctx = some q → rk q < rk o := by
        intro q hq
        cases ctx with
        | some c => simp only [orNull, Option.some.injEq] at hq; subst hq; exact hacyc _ rfl
        | none =>
          simp only [orNull] at hq
          refine wr.nullMin q o ob hq hob ?_
          intro e; exact honull (e ▸ hq)
      obtain ⟨rk', hr', -⟩ := Ranked.alloc (wr.shapeEq hsh) w1.toWFp (orNull s ctx) true nb hpar a1
        (by intro n hn; rw [hsh.1] at hn; exact orNull_ne_none_of_null hn ctx)
        (by intro t hkk q hqq; rw [a6] at hkk; cases hkk; exact hq q hqq)
      refine ⟨rk', hr'.mono (by simp) ?_⟩
      intro j o' hj
      rw [get_modify_some] at hj
      rcases hj with ⟨-, hj⟩ | ⟨rfl, o0, hj, rfl⟩
      · exact ⟨o', hj, rfl, rfl⟩
      · exact ⟨o0, hj, rfl, rfl⟩

end Usual.C01
