import UsualProofs.C01.RunLeaf
/-! `_talloc_unlink`, "main parent but refs": popping the first reference, moving the object under
the referencing context and then freeing the TRef chunk gives the same structure as freeing
the TRef chunk first and moving afterwards (both steps preserve the invariant). -/
set_option linter.unusedSimpArgs false
set_option linter.unusedVariables false
namespace Usual.C01

/-- structural part of `promoteMove` -/
def promoteS (s : State) (x : Nat) (q : Option Id) (rest : List Id) : State :=
  addChild ((detach (s.modify x fun o => { o with refs := rest }) x).modify x fun o => { o with parent := q })
    q x false

theorem promoteMove_shapeEq (cfg : Cfg) (s : State) (x : Nat) (xb rb : Obj) (rest : List Id)
    (tparent : Option Id) (hk : xb.kind = .plain) :
    ShapeEq (promoteS s x rb.parent rest) (promoteMove cfg s x xb rb rest tparent) := by
  unfold promoteMove promoteS
  have : isRef xb = false := by simp [isRef, hk]
  simp only [this]
  split
  · exact moveMemlimit_shapeEq _ _ _ _ _
  · exact ShapeEq.refl _

theorem promoteS_get {s : State} {x : Nat} {xb : Obj} (hx : s.get x = some xb) (q : Option Id)
    (rest : List Id) (hq : q ≠ some x) (hself : xb.parent ≠ some x) (j : Nat) :
    (promoteS s x q rest).get j =
      if j = x then some { xb with refs := rest, parent := q }
      else (s.get j).map fun po =>
        { po with children :=
            if q = some j then (if xb.parent = some j then po.children.erase x else po.children) ++ [x]
            else (if xb.parent = some j then po.children.erase x else po.children) } := by
  have hP0 : (s.modify x fun o => { o with refs := rest }).get x = some { xb with refs := rest } := by
    simp [hx]
  have e : (promoteS s x q rest).get j = (moveS (s.modify x fun o => { o with refs := rest }) x q false).get j := by
    unfold promoteS moveS addChild
    cases q with
    | none => rfl
    | some q' =>
      have : q' ≠ x := fun e => hq (by rw [e])
      simp only [get_modify]
      by_cases h1 : j = x
      · subst h1; simp [this]
      · by_cases h2 : q' = j
        · subst h2; simp [h1, Ne.symm h1]
        · simp [h1, Ne.symm h1, h2]
  rw [e, moveS_getG hP0 q false hq (by simpa using hself)]
  by_cases h1 : j = x
  · simp [h1]
  · simp only [h1, if_false, get_modify, Ne.symm h1, Bool.false_eq_true]

theorem promote_comm {s : State} {x r : Nat} {xb rb : Obj} {rest : List Id} (w : WFp s)
    (hx : s.get x = some xb) (hxk : xb.kind = .plain) (hxr : xb.refs = r :: rest)
    (hxp : xb.pending = false) (hr : s.get r = some rb)
    (hq : rb.parent ≠ some x) (hself : xb.parent ≠ some x) (j : Nat) :
    (freeLeafS (promoteS s x rb.parent rest) r).get j =
      (moveS (freeLeafS s r) x rb.parent false).get j := by
  have ⟨h1, h2, h3, h4, h5, h6, h7, h8, h9, h10⟩ := w
  obtain ⟨rb', hr', hrk⟩ := h4 x xb r hx (by rw [hxr]; simp)
  rw [hr] at hr'; cases hr'
  have hrnp : rb.kind ≠ .plain := by rw [hrk]; simp
  obtain ⟨rc, rr, rd, rp⟩ := h7 r rb hr hrnp
  have hxr' : x ≠ r := by intro e; subst e; rw [hx] at hr; cases hr; exact hrnp hxk
  have hrest : r ∉ rest := by
    have := h5 x xb hx; rw [hxr] at this; exact (List.nodup_cons.1 this).1
  -- the state after the TRef is gone
  have hL := freeLeafS_get w hr hrnp
  have hLx : (freeLeafS s r).get x = some { xb with children := xb.children.erase r, refs := rest } := by
    rw [hL]; unfold eraseAll; simp [hxr', hx, hxr]
  have hnf : ∀ (y : Nat) yo, s.get y = some yo → y ≠ x → yo.refs.erase r = yo.refs := by
    intro y yo hy hne
    apply List.erase_of_not_mem
    intro hm
    obtain ⟨ro, hro, hrk'⟩ := h4 y yo r hy hm
    rw [hr] at hro; cases hro; rw [hrk] at hrk'; cases hrk'; exact hne rfl
  have hnc : ∀ (y : Nat) yo, s.get y = some yo → rb.parent ≠ some y → yo.children.erase r = yo.children := by
    intro y yo hy hne
    apply List.erase_of_not_mem
    intro hm
    obtain ⟨co, hco, hcp, -⟩ := h2 y yo r hy hm
    rw [hr] at hco; cases hco; exact hne hcp
  have hxc : xb.children.erase r = xb.children := hnc x xb hx hq
  have hrest' : rest.erase r = rest := List.erase_of_not_mem hrest
  rw [hxc] at hLx
  -- r's parent and x's parent are plain objects, different from r
  have hrq : rb.parent ≠ some r := by
    intro e
    obtain ⟨po, hpo, hpk, -⟩ := h1 r rb r hr e
    rw [hr] at hpo; cases hpo; exact hrnp hpk
  have hxq : xb.parent ≠ some r := by
    intro e
    obtain ⟨po, hpo, hpk, -⟩ := h1 x xb r hx e
    rw [hr] at hpo; cases hpo; exact hrnp hpk
  have hP := promoteS_get hx rb.parent rest hq hself
  have hPr : (promoteS s x rb.parent rest).get r = some rb := by
    rw [hP]; simp [Ne.symm hxr', hr, hrq, hxq]
  -- right-hand side
  rw [moveS_getG hLx rb.parent false hq (by simpa using hself), hL]
  -- left-hand side
  unfold freeLeafS
  simp only [hPr, hrk, get_remove]
  have hP1 : ((promoteS s x rb.parent rest).modify x fun o => { o with refs := o.refs.erase r }).get r = some rb := by
    simp [hPr, hxr']
  by_cases e1 : j = r
  · subst e1; simp [hxr', Ne.symm hxr', eraseAll]
  simp only [Ne.symm e1, if_false]
  cases hrpar : rb.parent with
  | none =>
    simp only [hrpar] at hP1 hP
    rw [detach_eq_none hP1 hrpar, get_modify, hP]
    by_cases e2 : j = x
    · subst e2; simp [hrest', hrpar]
    · simp only [e2, Ne.symm e2, if_false, eraseAll, e1, hrpar]
      cases hj : s.get j with
      | none => rfl
      | some jo =>
        simp [hnf j jo hj e2, hnc j jo hj (by rw [hrpar]; simp)]
  | some q =>
    have hqr : q ≠ r := fun e => hrq (by rw [hrpar, e])
    have hqx : q ≠ x := fun e => hq (by rw [hrpar, e])
    simp only [hrpar] at hP1 hP
    rw [detach_eq_some hP1 hrpar, get_modify, get_modify, hP]
    by_cases e2 : j = x
    · subst e2; simp [hrest', hrpar, hqx]
    · simp only [e2, Ne.symm e2, if_false, eraseAll, e1, hrpar, Option.some.injEq]
      cases hj : s.get j with
      | none => simp
      | some jo =>
        by_cases e3 : q = j
        · subst e3
          have hrm : r ∈ jo.children := by
            obtain ⟨po, hpo, -, hm⟩ := h1 r rb q hr hrpar
            rw [hj] at hpo; cases hpo
            rcases hm with hm | hm
            · exact hm
            · simp [rp] at hm
          simp only [if_true, Option.map_some, hnf q jo hj e2]
          by_cases e4 : xb.parent = some q
          · simp only [e4, if_true]
            have : r ∈ jo.children.erase x := (List.mem_erase_of_ne (Ne.symm hxr')).2 hrm
            rw [List.erase_append_left _ this, List.erase_comm]
            simp
          · simp only [e4, if_false]
            rw [List.erase_append_left _ hrm]
            simp
        · simp only [e3, if_false, Option.map_some, hnf j jo hj e2,
            hnc j jo hj (by rw [hrpar]; simpa using e3)]

end Usual.C01
