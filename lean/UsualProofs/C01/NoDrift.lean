import UsualProofs.C01.AcctBool
import UsualProofs.C01.Failed
/-! No drift: what a limited context admits depends on the tree as it is now, not on the history. -/
set_option linter.unusedSimpArgs false
set_option linter.unusedVariables false
namespace Usual.C01

theorem absEq_of_absState_eq {s s' : State} (h : absState s' = absState s) : AbsEq s s' := by
  unfold absState at h
  simp only [Prod.mk.injEq] at h
  obtain ⟨hh, hn⟩ := h
  have hlen : s'.heap.length = s.heap.length := by
    have := congrArg List.length hh; simpa using this
  refine ⟨hlen, hn, fun j => ?_⟩
  have := congrArg (fun l => l[j]?) hh
  simp only [List.getElem?_map] at this
  unfold State.get
  cases h1 : s'.heap[j]? <;> cases h2 : s.heap[j]? <;> rw [h1, h2] at this <;> simp at this ⊢
  rename_i a b
  cases a <;> cases b <;> simp at this ⊢
  exact this

theorem AbsEq.get {s s' : State} (h : AbsEq s s') {j : Nat} {o : Obj} (hj : s.get j = some o) :
    ∃ o', s'.get j = some o' ∧ absObj o' = absObj o := by
  have := h.2.2 j
  rw [hj] at this
  cases h' : s'.get j with
  | none => rw [h'] at this; cases this
  | some o' => rw [h'] at this; simp only [Option.map_some, Option.some.injEq] at this; exact ⟨o', rfl, this⟩

theorem AbsEq.none {s s' : State} (h : AbsEq s s') {j : Nat} (hj : s.get j = none) : s'.get j = none := by
  have := h.2.2 j
  rw [hj] at this
  cases h' : s'.get j with
  | none => rfl
  | some o' => rw [h'] at this; cases this

theorem absObj_fields {a b : Obj} (h : absObj a = absObj b) :
    a.parent = b.parent ∧ a.children = b.children ∧ a.kind = b.kind ∧ a.size = b.size ∧
    a.useLim = b.useLim ∧ a.hasLim = b.hasLim ∧ a.lmax = b.lmax ∧ a.cx = b.cx := by
  cases a; cases b; simp [absObj] at h; simp_all

theorem findLim_absEq {s s' : State} (h : AbsEq s s') (cs : List Id) : findLim s' cs = findLim s cs := by
  induction cs with
  | nil => rfl
  | cons c cs ih =>
    simp only [findLim]
    cases hc : s.get c with
    | none => rw [h.none hc]; exact ih
    | some co =>
      obtain ⟨co', hco', e⟩ := h.get hc
      rw [hco']
      have : isLimit co' = isLimit co := by simp only [isLimit, (absObj_fields e).2.2.1]
      simp only [this, ih]

theorem limitsAbove_absEq {s s' : State} (h : AbsEq s s') (cfg : Cfg) (f : Nat) (t : Option Id) :
    limitsAbove cfg f s' t = limitsAbove cfg f s t := by
  induction f generalizing t with
  | zero => rfl
  | succ f ih =>
    simp only [limitsAbove]
    cases t with
    | none => rfl
    | some t =>
      simp only []
      cases ht : s.get t with
      | none => rw [h.none ht]
      | some o =>
        obtain ⟨o', ho', e⟩ := h.get ht
        rw [ho']
        simp only []
        obtain ⟨e3, e4, -, -, e1, e2, -, -⟩ := absObj_fields e
        rw [e1, e2, e3, e4, findLim_absEq h, ih]
        cases findLim s o.children with
        | none => rfl
        | some l =>
          simp only []
          cases hl : s.get l with
          | none => rw [h.none hl]
          | some lb =>
            obtain ⟨lb', hlb', -⟩ := h.get hl
            rw [hlb']

/-- two well-formed states with the same tree and exact accounting admit the same requests -/
theorem admits_absEq {rk rk' : Nat → Nat} {s s' : State} (h : AbsEq s s') (w : WFt s) (wr : Ranked rk s)
    (ac : AcctInv s) (ac' : AcctInv s') (ctx : Option Id) (n : Nat) :
    admits Cfg.fixed s' ctx n = admits Cfg.fixed s ctx n := by
  have hfuel : s'.fuel = s.fuel := by simp [State.fuel, h.1]
  have hnull : orNull s' ctx = orNull s ctx := by cases ctx <;> simp [orNull, h.2.1]
  have hpar : ∀ y, parentOf s' y = parentOf s y := by
    intro y; unfold parentOf
    cases hy : s.get y with
    | none => rw [h.none hy]
    | some o => obtain ⟨o', ho', e⟩ := h.get hy; rw [ho']; simp [(absObj_fields e).1]
  have hsz : ∀ y : Nat, (s'.get y).map (·.size) = (s.get y).map (·.size) := by
    intro y
    cases hy : s.get y with
    | none => rw [h.none hy]
    | some o => obtain ⟨o', ho', e⟩ := h.get hy; rw [ho']; simp [(absObj_fields e).2.2.2.1]
  have key : ∀ b, (admits Cfg.fixed s' ctx n = true ↔ b) → (admits Cfg.fixed s ctx n = true ↔ b) →
      admits Cfg.fixed s' ctx n = admits Cfg.fixed s ctx n := by
    intro b h1 h2
    cases ha : admits Cfg.fixed s ctx n <;> cases hb : admits Cfg.fixed s' ctx n <;> simp_all
  apply key _ (admits_iff Cfg.fixed s' ctx n)
  rw [admits_iff, hfuel, hnull, limitsAbove_absEq h]
  apply and_congr Iff.rfl
  simp only [List.all_eq_true]
  apply forall_congr'; intro l
  apply imp_congr_right
  intro hm
  obtain ⟨lb, c, hl, hk, hp⟩ := visited_chunk (rk := rk) ⟨w, wr⟩ Cfg.fixed s.fuel (orNull s ctx) l hm
  obtain ⟨lb', hl', e⟩ := h.get hl
  obtain ⟨e1, -, e3, -, -, -, e7, -⟩ := absObj_fields e
  have hcur : lb'.lcur = lb.lcur := by
    rw [ac' l lb' c hl' (by rw [e3]; exact hk) (by rw [e1]; exact hp), ac l lb c hl hk hp]
    exact chargeUnder_congr h.1 hpar hsz c l
  unfold fits
  rw [hl, hl']
  simp only [hcur, e7]

end Usual.C01
