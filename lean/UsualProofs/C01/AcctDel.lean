import UsualProofs.C01.AcctAdd
/-! The accounting invariant is kept when a chunk without anything beneath it is released. -/
set_option linter.unusedSimpArgs false
set_option linter.unusedVariables false
namespace Usual.C01
open Finset

/-- the counter of a limit chunk after `apply_memlimit(p, -d, _)`, `d ≥ 0` -/
theorem applyLim_lcur_neg {rk : Nat → Nat} {s : State} (i : InvT rk s) (cfg : Cfg) (f : Nat) (t : Option Id)
    (d : Nat) (force : Bool) (s' : State) (h : applyLim cfg f s t (-(d : Int)) force = some s')
    (l : Nat) (lb : Obj) (hl : s.get l = some lb) :
    ∃ lb', s'.get l = some lb' ∧ lb'.kind = lb.kind ∧ lb'.parent = lb.parent ∧ lb'.size = lb.size ∧
      lb'.useLim = lb.useLim ∧ lb'.hasLim = lb.hasLim ∧
      lb'.lcur = if l ∈ limitsAbove cfg f s t then lb.lcur - d else lb.lcur := by
  obtain ⟨h1, h2⟩ := applyLim_char i cfg f t (-(d : Int)) force s' h l
  by_cases hm : l ∈ limitsAbove cfg f s t
  · refine ⟨{ lb with lcur := ((lb.lcur : Int) + -(d : Int)).toNat }, by rw [h1 hm, hl]; rfl,
      rfl, rfl, rfl, rfl, rfl, ?_⟩
    simp only [hm, if_true]; omega
  · exact ⟨lb, by rw [h2 hm, hl], rfl, rfl, rfl, rfl, rfl, by simp [hm]⟩

/-- ancestors in a state from which a chunk without dependants was removed -/
theorem anc_remove {s : State} (x : Nat) (hleaf : ∀ y, parentOf s y ≠ some x) (a y : Nat) (hy : y ≠ x) :
    Anc (s.remove x) a y ↔ Anc s a y := by
  have hpo : ∀ z, z ≠ x → parentOf (s.remove x) z = parentOf s z := by
    intro z hz; unfold parentOf; rw [get_remove]; simp [Ne.symm hz]
  constructor
  · intro h
    induction h with
    | @parent z p hp => rw [hpo z hy] at hp; exact Anc.parent hp
    | @up z p a hp _ ih =>
      rw [hpo z hy] at hp
      exact Anc.up hp (ih (fun e => hleaf z (e ▸ hp)))
  · intro h
    induction h with
    | @parent z p hp => exact Anc.parent (by rw [hpo z hy]; exact hp)
    | @up z p a hp _ ih => exact Anc.up (by rw [hpo z hy]; exact hp) (ih (fun e => hleaf z (e ▸ hp)))

theorem anc_remove_self {s : State} (x a : Nat) : ¬ Anc (s.remove x) a x := by
  intro h
  obtain ⟨xb, hx⟩ := h.live
  simp at hx

theorem sum_ite_split (n : Nat) (f g : Nat → Nat) (x : Nat) (hx : x < n)
    (h : ∀ y ∈ range n, y ≠ x → f y = g y) (hgx : g x = 0) :
    ∑ y ∈ range n, f y = ∑ y ∈ range n, g y + f x := by
  have h1 : ∑ y ∈ range n, f y = ∑ y ∈ (range n).erase x, f y + f x := by
    rw [Finset.sum_erase_add _ _ (Finset.mem_range.2 hx)]
  have h2 : ∑ y ∈ range n, g y = ∑ y ∈ (range n).erase x, g y + g x := by
    rw [Finset.sum_erase_add _ _ (Finset.mem_range.2 hx)]
  rw [h1, h2, hgx, Nat.add_zero]
  congr 1
  apply Finset.sum_congr rfl
  intro y hy
  exact h y (Finset.mem_of_mem_erase hy) (Finset.ne_of_mem_erase hy)


theorem parentOf_shapeEq {s s' : State} (h : ShapeEq s s') (y : Nat) : parentOf s' y = parentOf s y := by
  unfold parentOf
  have := h.2 y
  cases h1 : s'.get y <;> cases h2 : s.get y <;> rw [h1, h2] at this <;> simp [Obj.shape] at this ⊢
  exact this.1

open Classical in
/-- chargeUnder only depends on parents, sizes and the heap length -/
theorem chargeUnder_congr {s s' : State} (hl : s'.heap.length = s.heap.length)
    (hp : ∀ y, parentOf s' y = parentOf s y) (hs : ∀ y : Nat, (s'.get y).map (·.size) = (s.get y).map (·.size))
    (ctx l : Nat) : chargeUnder s' ctx l = chargeUnder s ctx l := by
  unfold chargeUnder
  rw [hl]
  apply Finset.sum_congr rfl
  intro y _
  rw [chargeAt_eq (hs y)]
  have : Anc s' ctx y ↔ Anc s ctx y := Anc.congr hp
  by_cases hc : y ≠ l ∧ Anc s ctx y
  · rw [if_pos hc, if_pos ⟨hc.1, this.2 hc.2⟩]
  · rw [if_neg hc, if_neg (fun h => hc ⟨h.1, this.1 h.2⟩)]

theorem applyLim_size {rk : Nat → Nat} {s : State} (i : InvT rk s) (cfg : Cfg) (f : Nat) (t : Option Id)
    (d : Int) (force : Bool) (s' : State) (h : applyLim cfg f s t d force = some s') (y : Nat) :
    (s'.get y).map (·.size) = (s.get y).map (·.size) := by
  obtain ⟨h1, h2⟩ := applyLim_char i cfg f t d force s' h y
  by_cases hm : y ∈ limitsAbove cfg f s t
  · rw [h1 hm]; cases s.get y <;> simp
  · rw [h2 hm]

/-- both invariants only look at parent, kind, size, counters and flags -/
def AFields (o : Obj) := (o.parent, o.kind, o.size, o.lcur, o.useLim, o.hasLim)

theorem afields_get {a b : State} (h : ∀ j : Nat, (b.get j).map AFields = (a.get j).map AFields) {j : Nat} {o : Obj}
    (hj : b.get j = some o) : ∃ o', a.get j = some o' ∧ o.parent = o'.parent ∧ o.kind = o'.kind ∧
      o.size = o'.size ∧ o.lcur = o'.lcur ∧ o.useLim = o'.useLim ∧ o.hasLim = o'.hasLim := by
  have := h j
  rw [hj] at this
  cases h2 : a.get j with
  | none => rw [h2] at this; cases this
  | some o' =>
    rw [h2] at this
    simp only [Option.map_some, Option.some.injEq, AFields, Prod.mk.injEq] at this
    exact ⟨o', rfl, this.1, this.2.1, this.2.2.1, this.2.2.2.1, this.2.2.2.2.1, this.2.2.2.2.2⟩

theorem afields_get' {a b : State} (h : ∀ j : Nat, (b.get j).map AFields = (a.get j).map AFields) {j : Nat} {o' : Obj}
    (hj : a.get j = some o') : ∃ o, b.get j = some o ∧ o.parent = o'.parent ∧ o.kind = o'.kind ∧
      o.size = o'.size ∧ o.lcur = o'.lcur ∧ o.useLim = o'.useLim ∧ o.hasLim = o'.hasLim := by
  have := h j
  rw [hj] at this
  cases h2 : b.get j with
  | none => rw [h2] at this; cases this
  | some o =>
    rw [h2] at this
    simp only [Option.map_some, Option.some.injEq, AFields, Prod.mk.injEq] at this
    exact ⟨o, rfl, this.1, this.2.1, this.2.2.1, this.2.2.2.1, this.2.2.2.2.1, this.2.2.2.2.2⟩

theorem afields_parentOf {a b : State} (h : ∀ j : Nat, (b.get j).map AFields = (a.get j).map AFields) (y : Nat) :
    parentOf b y = parentOf a y := by
  unfold parentOf
  have := h y
  cases h1 : b.get y <;> cases h2 : a.get y <;> rw [h1, h2] at this <;> simp [AFields] at this ⊢
  exact this.1

theorem afields_size {a b : State} (h : ∀ j : Nat, (b.get j).map AFields = (a.get j).map AFields) (y : Nat) :
    (b.get y).map (·.size) = (a.get y).map (·.size) := by
  have := h y
  cases h1 : b.get y <;> cases h2 : a.get y <;> rw [h1, h2] at this <;> simp [AFields] at this ⊢
  exact this.2.2.1

open Classical in
/-- **accounting, release**: a chunk with nothing beneath it is taken out of the heap (state `s4`,
which agrees with `s` minus `x` on parents, kinds, sizes, counters and flags) and
`apply_memlimit(parent, -charge)` runs: every remaining limit chunk is exact again -/
theorem acct_remove_leaf {rk : Nat → Nat} {s s4 : State} (i : InvT rk s) (ac : AcctInv s) (cfg : Cfg)
    (hfix : cfg.fixGone = true) (x : Nat) (xb : Obj) (hx : s.get x = some xb)
    (hleaf : ∀ y, parentOf s y ≠ some x)
    (hg4 : ∀ j : Nat, (s4.get j).map AFields = ((s.remove x).get j).map AFields)
    (hl4 : s4.heap.length = s.heap.length)
    (i4 : InvT rk s4) (fl4 : FlagsInv s4) (f : Nat) (s5 : State)
    (ha : applyLim cfg f s4 xb.parent (-(totalSize xb.size : Int)) false = some s5)
    (hoof : s5.oof = false) : AcctInv s5 := by
  intro l lb5 ctx hl5 hk5 hp5
  have hsh := applyLim_shapeEq _ _ _ _ _ _ _ ha
  have hlen := applyLim_length _ _ _ _ _ _ _ ha
  obtain ⟨lb4, hl4', e1, -, -, e4, -, -⟩ := hsh.symm.get hl5
  obtain ⟨lbr, hlr, f1, f2, -, f4, -, -⟩ := afields_get hg4 hl4'
  have hlx : l ≠ x := by intro e; subst e; simp at hlr
  have hl : s.get l = some lbr := by rw [get_remove] at hlr; simpa [Ne.symm hlx] using hlr
  have hk4 : lb4.kind = .limit := by rw [e4]; exact hk5
  have hp4 : lb4.parent = some ctx := by rw [e1]; exact hp5
  have hk : lbr.kind = .limit := by rw [← f2]; exact hk4
  have hp : lbr.parent = some ctx := by rw [← f1]; exact hp4
  obtain ⟨lb5', hl5', -, -, -, -, -, hcur⟩ :=
    applyLim_lcur_neg i4 cfg f xb.parent (totalSize xb.size) false s5 ha l lb4 hl4'
  rw [hl5] at hl5'; cases hl5'
  rw [hcur, f4, ac l lbr ctx hl hk hp]
  -- the sum in the final state is the sum in the state without x
  rw [chargeUnder_congr hlen (parentOf_shapeEq hsh) (applyLim_size i4 cfg f _ _ _ s5 ha) ctx l]
  have hcu4 : chargeUnder s4 ctx l = chargeUnder (s.remove x) ctx l :=
    chargeUnder_congr (by rw [hl4, length_remove]) (afields_parentOf hg4) (afields_size hg4) ctx l
  rw [hcu4]
  -- the sum with and without x
  have hxlt : x < s.heap.length := lt_of_get s x xb hx
  have hsplit : chargeUnder s ctx l = chargeUnder (s.remove x) ctx l +
      (if x ≠ l ∧ Anc s ctx x then totalSize xb.size else 0) := by
    unfold chargeUnder
    rw [length_remove]
    have hcx : chargeAt s x = totalSize xb.size := by simp [chargeAt, hx]
    rw [← hcx]
    apply sum_ite_split _ _ _ x hxlt
    · intro y _ hyx
      have hca : chargeAt (s.remove x) y = chargeAt s y := by
        apply chargeAt_eq; rw [get_remove]; simp [Ne.symm hyx]
      have han := anc_remove (s := s) x hleaf ctx y hyx
      rw [hca]
      by_cases hc : y ≠ l ∧ Anc s ctx y
      · rw [if_pos hc, if_pos ⟨hc.1, han.2 hc.2⟩]
      · rw [if_neg hc, if_neg (fun h => hc ⟨h.1, han.1 h.2⟩)]
    · rw [if_neg (fun h => anc_remove_self x ctx h.2)]
  -- the chunks visited are those of the ancestors of x
  have hanc4 : ∀ a y, Anc s4 a y ↔ Anc (s.remove x) a y := fun a y => Anc.congr (afields_parentOf hg4)
  have hvis : l ∈ limitsAbove cfg f s4 xb.parent ↔ Anc s ctx x := by
    constructor
    · intro hm
      cases hpar : xb.parent with
      | none =>
        rw [hpar] at hm
        cases f with
        | zero => simp [limitsAbove] at hm
        | succ f => simp [limitsAbove] at hm
      | some p =>
        rw [hpar] at hm
        obtain ⟨lb0, q, a1, a2, a3, a4⟩ := limitsAbove_anc i4 cfg f p l hm
        rw [hl4'] at a1; cases a1
        rw [hp4] at a3; cases a3
        have hpo : parentOf s x = some p := by rw [parentOf_eq hx]; exact hpar
        have hpx : p ≠ x := fun e => hleaf x (e ▸ hpo)
        rcases a4 with rfl | h
        · exact Anc.parent hpo
        · exact Anc.up hpo ((anc_remove x hleaf ctx p hpx).1 ((hanc4 ctx p).1 h))
    · intro han
      obtain ⟨p, hpo, hor⟩ := han.cases_parent
      have hpar : xb.parent = some p := by rw [← parentOf_eq hx]; exact hpo
      rw [hpar]
      have hpx : p ≠ x := fun e => hleaf x (e ▸ hpo)
      obtain ⟨pb, hpb, hpk, -⟩ := i.wf.parentLive x xb p hx hpar
      have hpbr : (s.remove x).get p = some pb := by rw [get_remove]; simp [Ne.symm hpx, hpb]
      obtain ⟨pb4, hpb4, -, g2, -⟩ := afields_get' hg4 hpbr
      have hor' : ctx = p ∨ Anc s4 ctx p := by
        rcases hor with h | h
        · exact Or.inl h.symm
        · exact Or.inr ((hanc4 ctx p).2 ((anc_remove x hleaf ctx p hpx).2 h))
      exact limitsAbove_of_anc i4 fl4 cfg hfix f p pb4 hpb4 (by rw [g2]; exact hpk)
        (by rw [← hpar]; exact applyLim_climbOK cfg f _ _ _ false s5 ha hoof) l lb4 ctx hl4' hk4 hp4 hor'
  rw [hsplit]
  by_cases han : Anc s ctx x
  · rw [if_pos (hvis.2 han), if_pos ⟨Ne.symm hlx, han⟩]; omega
  · rw [if_neg (fun h => han (hvis.1 h)), if_neg (fun h => han h.2)]; omega

end Usual.C01
