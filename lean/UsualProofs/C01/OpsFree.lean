import UsualProofs.C01.RunGood
/-! Public operations that release: talloc_free, talloc_unlink, talloc_free_children. -/
set_option linter.unusedSimpArgs false
set_option linter.unusedVariables false
namespace Usual.C01

/-- an object the caller can hold a pointer to -/
def UserObj (s : State) (o : Nat) : Prop := ∃ ob, s.get o = some ob ∧ ob.kind = .plain ∧ s.nullCtx ≠ some o

def UserCtx (s : State) (c : Option Id) : Prop := ∀ x, c = some x → UserObj s x

theorem WF.of_good {rk : Nat → Nat} {b : Nat} {s s' : State} (w : WF s) (g : Good rk b s s') : WF s' := by
  refine ⟨g.inv.wf, ?_⟩
  intro x o hx
  cases hp : o.pending with
  | false => rfl
  | true =>
    obtain ⟨yo, h0, h1⟩ := g.nnp x o hx hp
    rw [w.noPending x yo h0] at h1; cases h1

theorem WF.shapeEq {s s' : State} (h : ShapeEq s s') (w : WF s) : WF s' := by
  refine ⟨w.toWFp.shapeEq h, ?_⟩
  intro x o hx
  obtain ⟨o0, h0, -, -, -, -, e5, -⟩ := h.symm.get hx
  rw [← e5]; exact w.noPending x o0 h0

theorem pendBelow_of_wf {rk : Nat → Nat} {s : State} (w : WF s) (b : Nat) (ex : Option Nat) :
    PendBelow rk s b ex := by
  intro y yo hy hp; rw [w.noPending y yo hy] at hp; cases hp

theorem fuel_succ (s : State) : s.fuel = (8 * s.heap.length + 15) + 1 := by simp [State.fuel]

/-- `talloc_free(o)` -/
theorem free_wf {rk : Nat → Nat} {s : State} {o : Nat} (cfg : Cfg) (hfix : cfg.fixCx = true) (w : WF s)
    (wr : Ranked rk s) (ho : UserObj s o)
    (hoof : (step cfg s (.free o)).1.oof = false) (hstuck : (step cfg s (.free o)).1.stuck = false) :
    WF (step cfg s (.free o)).1 ∧ Ranked rk (step cfg s (.free o)).1 := by
  obtain ⟨ob, hob, hk, hnull⟩ := ho
  have i : Inv rk s := ⟨w.toWFp, wr⟩
  simp only [step] at hoof hstuck ⊢
  by_cases hrefs : ob.refs = []
  · obtain ⟨g, -⟩ := (run_good cfg hfix rk s.fuel).1 s o ob i hob hrefs (w.noPending o ob hob) hnull
      (pendBelow_of_wf w _ _) hoof hstuck
    exact ⟨w.of_good g, g.inv.ranked⟩
  · -- free_with_refs
    obtain ⟨f, hf⟩ : ∃ f, s.fuel = f + 1 := ⟨_, fuel_succ s⟩
    rw [hf] at hoof hstuck ⊢
    simp only [run, hob, hrefs, ne_eq, not_false_eq_true, if_true] at hoof hstuck ⊢
    split
    · exact ⟨w, wr⟩
    · split
      · split
        · rename_i r hr
          have hrm : r ∈ ob.refs := List.mem_of_getLast? hr
          obtain ⟨rb, hrb, hrk⟩ := w.refLive o ob r hob hrm
          have hrnp : rb.kind ≠ .plain := by rw [hrk]; simp
          cases f with
          | zero =>
            simp only [run]
            exact ⟨w.shapeEq (shapeEq_setOof s), wr.shapeEq (shapeEq_setOof s)⟩
          | succ f =>
            obtain ⟨-, -, g, -⟩ := free_leaf_post cfg rk f s r rb i hrb hrnp
            exact ⟨w.of_good g, g.inv.ranked⟩
        · exact ⟨w, wr⟩
      · exact ⟨w, wr⟩


theorem findRefByParent_mem (s : State) (tp : Option Id) (l : List Id) (r : Id)
    (h : findRefByParent s tp l = some r) : r ∈ l := by
  induction l with
  | nil => simp [findRefByParent] at h
  | cons a l ih =>
    simp only [findRefByParent] at h
    split at h
    · split at h
      · cases h; simp
      · exact List.mem_cons_of_mem _ (ih h)
    · exact List.mem_cons_of_mem _ (ih h)

/-- the body shared by `talloc_unlink(ctx, o)` and `talloc_realloc(ctx, o, 0)` -/
theorem runUnlink_wf {rk : Nat → Nat} {s : State} {o : Nat} (cfg : Cfg) (hfix : cfg.fixCx = true) (w : WF s)
    (wr : Ranked rk s) (ctx : Option Id) (ho : UserObj s o)
    (hoof : (run cfg s.fuel s (.unlink ctx o)).1.oof = false)
    (hstuck : (run cfg s.fuel s (.unlink ctx o)).1.stuck = false) :
    WF (run cfg s.fuel s (.unlink ctx o)).1 ∧ Ranked rk (run cfg s.fuel s (.unlink ctx o)).1 := by
  obtain ⟨ob, hob, hk, hnull⟩ := ho
  have i : Inv rk s := ⟨w.toWFp, wr⟩
  by_cases hprim : ob.parent = orNull s ctx
  · obtain ⟨g, -⟩ := (run_good cfg hfix rk s.fuel).2.1 s ctx o ob i hob (w.noPending o ob hob) hprim hnull
      (pendBelow_of_wf w _ _) hoof hstuck
    exact ⟨w.of_good g, g.inv.ranked⟩
  · obtain ⟨f, hf⟩ : ∃ f, s.fuel = f + 1 := ⟨_, fuel_succ s⟩
    rw [hf] at hoof hstuck ⊢
    simp only [run, hob, ne_eq, hprim, not_false_eq_true, if_true] at hoof hstuck ⊢
    split
    · rename_i r hr
      have hrm := findRefByParent_mem _ _ _ _ hr
      obtain ⟨rb, hrb, hrk⟩ := w.refLive o ob r hob hrm
      have hrnp : rb.kind ≠ .plain := by rw [hrk]; simp
      cases f with
      | zero =>
        simp only [run]
        exact ⟨w.shapeEq (shapeEq_setOof s), wr.shapeEq (shapeEq_setOof s)⟩
      | succ f =>
        obtain ⟨-, -, g, -⟩ := free_leaf_post cfg rk f s r rb i hrb hrnp
        exact ⟨w.of_good g, g.inv.ranked⟩
    · exact ⟨w, wr⟩

/-- `talloc_unlink(ctx, o)` -/
theorem unlink_wf {rk : Nat → Nat} {s : State} {o : Nat} (cfg : Cfg) (hfix : cfg.fixCx = true) (w : WF s)
    (wr : Ranked rk s) (ctx : Option Id) (ho : UserObj s o)
    (hoof : (step cfg s (.unlink ctx o)).1.oof = false) (hstuck : (step cfg s (.unlink ctx o)).1.stuck = false) :
    WF (step cfg s (.unlink ctx o)).1 ∧ Ranked rk (step cfg s (.unlink ctx o)).1 :=
  runUnlink_wf cfg hfix w wr ctx ho hoof hstuck

/-- `talloc_free_children(o)` -/
theorem freeChildren_wf {rk : Nat → Nat} {s : State} {o : Nat} (cfg : Cfg) (hfix : cfg.fixCx = true) (w : WF s)
    (wr : Ranked rk s) (ho : UserObj s o)
    (hoof : (step cfg s (.freeChildren o)).1.oof = false)
    (hstuck : (step cfg s (.freeChildren o)).1.stuck = false) :
    WF (step cfg s (.freeChildren o)).1 ∧ Ranked rk (step cfg s (.freeChildren o)).1 := by
  obtain ⟨ob, hob, hk, hnull⟩ := ho
  have i : Inv rk s := ⟨w.toWFp, wr⟩
  simp only [step] at hoof hstuck ⊢
  have g := (run_good cfg hfix rk s.fuel).2.2 s o ob false _ i hob hk (pendBelow_of_wf w _ _) hoof hstuck
  exact ⟨w.of_good g, g.inv.ranked⟩

end Usual.C01
