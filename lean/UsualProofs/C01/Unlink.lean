import UsualProofs.C01.Held
/-! What `talloc_unlink` does to the unlinked object: with another holder left it stays (and moves
under the first referencing context when the primary parent lets go); with the last link
removed and an accepting destructor it is released. -/
set_option linter.unusedSimpArgs false
set_option linter.unusedVariables false
namespace Usual.C01

/-- unlink from a context that holds a *reference*: that TRef chunk goes, nothing else changes -/
theorem unlink_ref_keeps {rk : Nat → Nat} {s : State} (cfg : Cfg) (w : WF s) (wr : Ranked rk s)
    (ctx : Option Id) (o : Nat) (ob : Obj) (hob : s.get o = some ob) (hnp : ob.parent ≠ orNull s ctx)
    (r : Nat) (hr : findRefByParent s (orNull s ctx) ob.refs = some r) :
    (step cfg s (.unlink ctx o)).2 = 0 ∧
    ∃ ob', (step cfg s (.unlink ctx o)).1.get o = some ob' ∧ ob'.parent = ob.parent ∧
      ob'.refs = ob.refs.erase r ∧ ob'.children = ob.children ∧ ob'.kind = ob.kind ∧
      (step cfg s (.unlink ctx o)).1.get r = none := by
  obtain ⟨hrm, rb, hrb, hrp⟩ := findRefByParent_spec _ _ _ _ hr
  have hrk : rb.kind = .ref o := by
    obtain ⟨rb2, hrb2, hrk2⟩ := w.refLive o ob r hob hrm
    rw [hrb] at hrb2; cases hrb2; exact hrk2
  have hrnp : rb.kind ≠ .plain := by rw [hrk]; simp
  have i : Inv rk s := ⟨w.toWFp, wr⟩
  obtain ⟨f, hf⟩ : ∃ f, s.fuel = f + 1 := ⟨_, fuel_succ s⟩
  simp only [step]
  rw [hf]
  simp only [run, hob, ne_eq, hnp, not_false_eq_true, if_true, hr]
  have hfpos : ∃ f', f = f' + 1 := ⟨8 * s.heap.length + 14, by simp [State.fuel] at hf; omega⟩
  obtain ⟨f', rfl⟩ := hfpos
  obtain ⟨e1, e2, -, -⟩ := free_leaf_post cfg rk f' s r rb i hrb hrnp
  refine ⟨e1, ?_⟩
  have hxr : o ≠ r := by
    intro e; subst e
    have h3 : ob = rb := Option.some.inj (hob.symm.trans hrb)
    rw [h3] at hrm
    have := (w.leaf o rb hrb hrnp).2.1; rw [this] at hrm; cases hrm
  have hgo : (freeLeafS s r).get o = some { ob with children := ob.children.erase r, refs := ob.refs.erase r } := by
    rw [freeLeafS_get w.toWFp hrb hrnp]; unfold eraseAll; simp [hxr, hob]
  obtain ⟨ob', h', a1, a2, a3, a4, -, -⟩ := e2.get hgo
  have hnc : r ∉ ob.children := by
    intro hm
    obtain ⟨co, hco, hcp, -⟩ := w.childBack o ob r hob hm
    have h3 : co = rb := Option.some.inj (hco.symm.trans hrb)
    rw [h3] at hcp
    -- then the TRef's parent would be o itself: a self reference, excluded by the ranking
    have := wr.refLt r rb o o hrb hrk hcp; omega
  refine ⟨ob', h', a1, a3, ?_, a4, ?_⟩
  · rw [a2]; exact List.erase_of_not_mem hnc
  · have := e2.2 r
    rw [freeLeafS_get w.toWFp hrb hrnp] at this
    unfold eraseAll at this
    simp only [if_true, Option.map_none] at this
    cases h : (run cfg (f' + 1) s (.free r)).1.get r with
    | none => rfl
    | some x => rw [h] at this; cases this

/-- the last link goes and the destructor accepts: the object is released -/
theorem unlink_last_releases {rk : Nat → Nat} {s : State} (cfg : Cfg) (hfix : cfg.fixCx = true) (w : WF s)
    (wr : Ranked rk s) (ctx : Option Id) (o : Nat) (ob : Obj) (hob : s.get o = some ob)
    (hk : ob.kind = .plain) (hnull : s.nullCtx ≠ some o)
    (hprim : ob.parent = orNull s ctx) (hrefs : ob.refs = []) (hacc : (dtorStep ob.dtor).1 = true)
    (hoof : (step cfg s (.unlink ctx o)).1.oof = false) (hstuck : (step cfg s (.unlink ctx o)).1.stuck = false) :
    (step cfg s (.unlink ctx o)).2 = 0 ∧ (step cfg s (.unlink ctx o)).1.get o = none ∧
    WF (step cfg s (.unlink ctx o)).1 := by
  have i : Inv rk s := ⟨w.toWFp, wr⟩
  obtain ⟨f, hf⟩ : ∃ f, s.fuel = f + 1 := ⟨_, fuel_succ s⟩
  simp only [step] at hoof hstuck ⊢
  rw [hf] at hoof hstuck ⊢
  simp only [run, hob, hprim, ne_eq, not_true_eq_false, if_false, hrefs] at hoof hstuck ⊢
  obtain ⟨g, hout⟩ := (run_good cfg hfix rk f).1 s o ob i hob hrefs (w.noPending o ob hob) hnull
    (pendBelow_of_wf w _ _) hoof hstuck
  have hrc : (run cfg f s (.free o)).2 = 0 := by
    cases f with
    | zero => simp [run]
    | succ f =>
      cases hds : dtorStep ob.dtor with
      | mk acc rest =>
        obtain ⟨d', logged⟩ := rest
        rw [hds] at hacc; simp only at hacc; subst hacc
        simp only [run, hob, hrefs, w.noPending o ob hob, hds, ne_eq, not_true_eq_false, if_false,
          Bool.false_eq_true]
        exact freeEnd_rc _ _ _
  refine ⟨hrc, ?_, w.of_good g⟩
  rcases hout with ⟨-, h2⟩ | ⟨h1, -⟩
  · exact h2
  · rw [hrc] at h1; cases h1


/-- unlink from the primary parent while references exist: the object moves under the context of
its FIRST reference (as last plain child) and that TRef chunk is released -/
theorem unlink_primary_promotes {rk : Nat → Nat} {s : State} (cfg : Cfg) (w : WF s) (wr : Ranked rk s)
    (ctx : Option Id) (o : Nat) (ob : Obj) (hob : s.get o = some ob) (hprim : ob.parent = orNull s ctx)
    (r : Nat) (rest : List Id) (hrefs : ob.refs = r :: rest) :
    ∃ rb, s.get r = some rb ∧ (step cfg s (.unlink ctx o)).2 = 0 ∧
    ∃ ob', (step cfg s (.unlink ctx o)).1.get o = some ob' ∧ ob'.parent = rb.parent ∧
      ob'.refs = rest ∧ ob'.children = ob.children ∧ ob'.kind = ob.kind ∧
      (step cfg s (.unlink ctx o)).1.get r = none ∧
      (∀ q, rb.parent = some q → ∃ qb', (step cfg s (.unlink ctx o)).1.get q = some qb' ∧
        qb'.children.getLast? = some o) := by
  have i : Inv rk s := ⟨w.toWFp, wr⟩
  obtain ⟨rb, hr, hrk⟩ := w.refLive o ob r hob (by rw [hrefs]; simp)
  refine ⟨rb, hr, ?_⟩
  have hnp := w.noPending o ob hob
  have hrnp : rb.kind ≠ .plain := by rw [hrk]; simp
  obtain ⟨lc, lr, ld, lp⟩ := w.leaf r rb hr hrnp
  have hxk : ob.kind = .plain := by
    cases hk : ob.kind with
    | plain => rfl
    | _ => have := (w.leaf o ob hob (by rw [hk]; simp)).2.1; rw [hrefs] at this; cases this
  have hxr : o ≠ r := by
    intro e; subst e
    have h3 : ob = rb := Option.some.inj (hob.symm.trans hr)
    exact hrnp (h3 ▸ hxk)
  have hq : rb.parent ≠ some o := by
    intro e; have := wr.refLt r rb o o hr hrk e; omega
  have hself : ob.parent ≠ some o := by
    intro e; have := wr.parentLt o ob o hob e; omega
  obtain ⟨f, hf⟩ : ∃ f, s.fuel = f + 1 := ⟨_, fuel_succ s⟩
  have hfpos : ∃ f', f = f' + 1 := ⟨8 * s.heap.length + 14, by simp [State.fuel] at hf; omega⟩
  simp only [step]
  rw [hf]
  simp only [run, hob, hprim, ne_eq, not_true_eq_false, if_false, hrefs, hr]
  obtain ⟨f', rfl⟩ := hfpos
  -- as in `unlink_step`
  have hps := promoteMove_shapeEq cfg s o ob rb rest (orNull s ctx) hxk
  have h1 : rb.parent ≠ some r := by
    intro e
    obtain ⟨po, hpo, hpk, -⟩ := w.parentLive r rb r hr e
    have h3 : po = rb := Option.some.inj (hpo.symm.trans hr)
    exact hrnp (h3 ▸ hpk)
  have hPr : (promoteS s o rb.parent rest).get r = some rb := by
    rw [promoteS_get hob rb.parent rest hq hself]
    have h2 : ob.parent ≠ some r := by
      intro e
      obtain ⟨po, hpo, hpk, -⟩ := w.parentLive o ob r hob e
      have h3 : po = rb := Option.some.inj (hpo.symm.trans hr)
      exact hrnp (h3 ▸ hpk)
    simp [Ne.symm hxr, hr, h1, h2]
  obtain ⟨rb', hr', e1, e2, e3, e4, e5, e6⟩ := hps.get hPr
  have ht : ∀ t, rb'.kind = .ref t → t ≠ r := by
    intro t hkk; rw [e4, hrk] at hkk; cases hkk; exact hxr
  have hpr : rb'.parent ≠ some r := by rw [e1]; exact h1
  obtain ⟨c1, c2⟩ := run_free_leaf cfg f' _ r rb' hr' (e4 ▸ hrnp) (e2 ▸ lc) (e3 ▸ lr) (e5 ▸ lp) (e6 ▸ ld) ht hpr
  refine ⟨c1, ?_⟩
  have hcomm : ShapeEq (moveS (freeLeafS s r) o rb.parent false)
      (run cfg (f' + 1) (promoteMove cfg s o ob rb rest (orNull s ctx)) (.free r)).1 := by
    refine ShapeEq.trans ?_ c2
    refine ShapeEq.trans ?_ (shapeEq_freeLeafS hps r)
    refine shapeEq_get_eq ?_ (fun j => promote_comm w.toWFp hob hxk hrefs hnp hr hq hself j)
    rw [nullCtx_freeLeafS, nullCtx_moveS, nullCtx_freeLeafS]
    unfold promoteS; simp
  have hnc : r ∉ ob.children := by
    intro hm
    obtain ⟨co, hco, hcp, -⟩ := w.childBack o ob r hob hm
    have h3 : co = rb := Option.some.inj (hco.symm.trans hr)
    exact hq (h3 ▸ hcp)
  have hLx : (freeLeafS s r).get o = some { ob with children := ob.children.erase r, refs := rest } := by
    rw [freeLeafS_get w.toWFp hr hrnp]; unfold eraseAll; simp [hxr, hob, hrefs]
  have hself2 : ({ ob with children := ob.children.erase r, refs := rest } : Obj).parent ≠ some o := hself
  have hgm := moveS_getG hLx rb.parent false hq hself2
  obtain ⟨ob', h', a1, a2, a3, a4, -, -⟩ := hcomm.get (j := o)
    (o := { ob with children := ob.children.erase r, refs := rest, parent := rb.parent }) (by rw [hgm]; simp)
  refine ⟨ob', h', a1, a3, ?_, a4, ?_, ?_⟩
  · rw [a2]; exact List.erase_of_not_mem hnc
  · have := hcomm.2 r
    rw [hgm] at this
    simp only [Ne.symm hxr, if_false] at this
    rw [freeLeafS_get w.toWFp hr hrnp] at this
    unfold eraseAll at this
    simp only [if_true, Option.map_none] at this
    cases h : (run cfg (f' + 1) (promoteMove cfg s o ob rb rest (orNull s ctx)) (.free r)).1.get r with
    | none => rfl
    | some x => rw [h] at this; cases this
  · intro q hqq
    obtain ⟨qb, hqb, hqk, -⟩ := w.parentLive r rb q hr hqq
    have hqo : q ≠ o := fun e => hq (e ▸ hqq)
    have hqr : q ≠ r := by
      intro e; subst e
      have h3 : qb = rb := Option.some.inj (hqb.symm.trans hr)
      exact hrnp (h3 ▸ hqk)
    have hLq : (freeLeafS s r).get q = some { qb with children := qb.children.erase r, refs := qb.refs.erase r } := by
      rw [freeLeafS_get w.toWFp hr hrnp]; unfold eraseAll; simp [hqr, hqb]
    have hgq := hgm q
    simp only [hqo, if_false, hLq, Option.map_some, hqq, if_true, Bool.false_eq_true] at hgq
    rw [← hqq] at hgq
    obtain ⟨qb', hq', -, b2, -⟩ := hcomm.get hgq
    exact ⟨qb', hq', by rw [b2]; simp⟩

end Usual.C01
