import UsualProofs.C01.AllocAcct
import UsualProofs.C01.OpsMove
/-! The accounting invariant under talloc_reparent / talloc_steal. -/
set_option linter.unusedSimpArgs false
set_option linter.unusedVariables false
namespace Usual.C01

theorem reparent_acct {rk : Nat → Nat} {s : State} (cfg : Cfg) (ok : CfgOK cfg) (w : WF s) (wr : Ranked rk s)
    (af : AF s) (oldp newp : Option Id) (o : Nat) (hnew : UserCtx s newp) (ho : UserObj s o)
    (hacyc : ∀ q, orNull s newp = some q → rk q < rk o)
    (hoof : (reparent cfg s oldp newp o).1.oof = false) :
    AF (reparent cfg s oldp newp o).1 := by
  obtain ⟨ob, hob, hok, honull⟩ := ho
  unfold reparent at hoof ⊢
  simp only [hob] at hoof ⊢
  split
  · exact af
  · rename_i hcond
    rw [if_neg hcond] at hoof
    simp only [Bool.or_eq_true, decide_eq_true_eq, not_or] at hcond
    obtain ⟨hno, hnt⟩ := hcond
    split
    · exact af
    · rename_i t ht
      simp only [ht] at hoof
      split
      · exact af
      · rename_i tb htb
        simp only [htb] at hoof
        split
        · exact af
        · rename_i hcx
          rw [if_neg hcx] at hoof
          have hq : ∀ q, orNull s newp = some q → ∃ qb, s.get q = some qb ∧ qb.kind = .plain :=
            hnew.orNull w.toWFp
          have hself' : tb.parent ≠ some t := by
            intro e; have := wr.parentLt t tb t htb e; omega
          have hnp : tb.pending = false := w.noPending t tb htb
          have hnps : ∀ z zb, InSub s t z → s.get z = some zb → zb.pending = false :=
            fun z zb _ hz => w.noPending z zb hz
          by_cases hprim : orNull s oldp = ob.parent
          · simp only [hprim, ne_eq, not_true_eq_false, if_false, Option.some.injEq] at ht
            subst ht
            rw [hob] at htb; cases htb
            have hkl : ob.kind ≠ .limit := by rw [hok]; simp
            have hne : orNull s newp ≠ ob.parent := by rw [← hprim]; exact hnt
            have hwf := moveS_wf w.toWFp hob (orNull s newp) hnp hkl hne hno hself' hq honull
            have hrk := moveS_ranked wr hob (orNull s newp) (isRef ob) hne hno hself'
              (fun q hqq => ⟨hacyc q hqq, fun tt hkk => by rw [hok] at hkk; cases hkk⟩)
            have := acct_moveChild cfg ok.gone ok.walk (rk := rk) ⟨w.toWFp.tree, wr⟩ af.2 af.1 o ob hob hkl
              (orNull s newp) hno ⟨hwf.tree, hrk⟩ hnps hq (by rw [← hprim]; exact hoof)
            rw [← hprim] at this; exact this
          · simp only [ne_eq, hprim, not_false_eq_true, if_true] at ht
            obtain ⟨hrm, rb, hrb, hrp⟩ := findRefByParent_spec _ _ _ _ ht
            rw [htb] at hrb; cases hrb
            obtain ⟨rb', hrb', hrk'⟩ := w.refLive o ob t hob hrm
            rw [htb] at hrb'; cases hrb'
            have hknp : tb.kind ≠ .plain := by rw [hrk']; simp
            have hkl : tb.kind ≠ .limit := by rw [hrk']; simp
            have hne : orNull s newp ≠ tb.parent := by rw [hrp]; exact hnt
            have hst : orNull s newp ≠ some t := by
              intro e; obtain ⟨qb, hqb, hqk⟩ := hq t e; rw [htb] at hqb; cases hqb; exact hknp hqk
            have htnull : s.nullCtx ≠ some t := by
              intro e; obtain ⟨nb, hb1, hb2, -⟩ := w.nullOK t e; rw [htb] at hb1; cases hb1; exact hknp hb2
            have hwf := moveS_wf w.toWFp htb (orNull s newp) hnp hkl hne hst hself' hq htnull
            let a : Nat := ((orNull s newp).map fun q => rk q + 1).getD 0
            let b : Nat := (s.nullCtx.map fun n => rk n + 1).getD 0
            let v : Nat := a + b + rk t + 1
            have hrr := Ranked.rerank_leaf wr w.toWFp t tb htb hknp v
              (by intro p hp; have := wr.parentLt t tb p htb hp; simp only [v]; omega)
              (by intro n hn
                  have hb : b = rk n + 1 := by simp only [b, hn, Option.map_some, Option.getD_some]
                  simp only [v]; omega)
            have hrk2 := moveS_ranked hrr htb (orNull s newp) (isRef tb) hne hst hself' (by
              intro q hqq
              have hqt : q ≠ t := fun e => hst (e ▸ hqq)
              have ha : a = rk q + 1 := by simp only [a, hqq, Option.map_some, Option.getD_some]
              refine ⟨by simp only [hqt, if_false, if_true, v]; omega, ?_⟩
              intro tt hkk
              rw [hrk'] at hkk; cases hkk
              have hto : o ≠ t := by intro e; subst e; rw [hob] at htb; cases htb; exact hknp hok
              simp only [hqt, hto, if_false]
              exact hacyc q hqq)
            have := acct_moveChild cfg ok.gone ok.walk ⟨w.toWFp.tree, hrr⟩ af.2 af.1 t tb htb hkl
              (orNull s newp) hst ⟨hwf.tree, hrk2⟩ hnps hq (by rw [hrp]; exact hoof)
            rw [hrp] at this; exact this

theorem reparentOp_acct {rk : Nat → Nat} {s : State} (cfg : Cfg) (ok : CfgOK cfg) (w : WF s) (wr : Ranked rk s)
    (af : AF s) (oldp newp : Option Id) (o : Nat) (hnew : UserCtx s newp) (ho : UserObj s o)
    (hacyc : ∀ q, orNull s newp = some q → rk q < rk o)
    (hoof : (step cfg s (.reparent oldp newp o)).1.oof = false) :
    AF (step cfg s (.reparent oldp newp o)).1 := by
  simp only [step] at hoof ⊢
  exact reparent_acct cfg ok w wr af oldp newp o hnew ho hacyc hoof

theorem steal_acct {rk : Nat → Nat} {s : State} (cfg : Cfg) (ok : CfgOK cfg) (w : WF s) (wr : Ranked rk s)
    (af : AF s) (newp : Option Id) (o : Nat) (hnew : UserCtx s newp) (ho : UserObj s o)
    (hacyc : ∀ q, orNull s newp = some q → rk q < rk o)
    (hoof : (step cfg s (.steal newp o)).1.oof = false) :
    AF (step cfg s (.steal newp o)).1 := by
  obtain ⟨ob, hob, hok, honull⟩ := ho
  simp only [step, hob] at hoof ⊢
  split
  · exact af
  · rename_i hr
    rw [if_neg hr] at hoof
    exact reparent_acct cfg ok w wr af ob.parent newp o hnew ⟨ob, hob, hok, honull⟩ hacyc hoof

end Usual.C01
