import UsualProofs.C01.OpsAcct
/-! The accounting invariant under `hdr_alloc_cx` (talloc_size, talloc_reference, the null context). -/
set_option linter.unusedSimpArgs false
set_option linter.unusedVariables false
namespace Usual.C01

theorem allocS_old {s1 : State} (p' : Option Id) (front : Bool) (nb : Obj)
    (hpl : ∀ p, p' = some p → p < s1.heap.length) {j : Nat} {o : Obj}
    (hj : (allocS s1 p' front nb).get j = some o) (hne : j ≠ s1.heap.length) :
    ∃ o0, s1.get j = some o0 ∧ o.parent = o0.parent ∧ o.kind = o0.kind ∧ o.useLim = o0.useLim ∧
      o.hasLim = o0.hasLim ∧ o.size = o0.size ∧ o.lcur = o0.lcur := by
  rw [allocS_get s1 p' front nb hpl] at hj
  simp only [hne, if_false] at hj
  split at hj
  · obtain ⟨o0, h0, rfl⟩ := Option.map_eq_some_iff.1 hj; exact ⟨o0, h0, rfl, rfl, rfl, rfl, rfl, rfl⟩
  · exact ⟨o, hj, rfl, rfl, rfl, rfl, rfl, rfl⟩

theorem allocS_new {s1 : State} (p' : Option Id) (front : Bool) (nb : Obj)
    (hpl : ∀ p, p' = some p → p < s1.heap.length) :
    (allocS s1 p' front nb).get s1.heap.length = some nb := by
  rw [allocS_get s1 p' front nb hpl]; simp

/-- flags after a chunk that is no `.memlimit` chunk has been linked under `p'` -/
theorem flags_allocS {s1 : State} (w : WFt s1) (fl : FlagsInv s1) (p' : Option Id) (front : Bool) (nb : Obj)
    (hpl : ∀ p, p' = some p → p < s1.heap.length) (hnp : nb.parent = p')
    (hnu : nb.useLim = hasUse s1 p') (hnh : nb.hasLim = false) (hnk : nb.kind ≠ .limit) :
    FlagsInv (allocS s1 p' front nb) := by
  have hnone : s1.get s1.heap.length = none := get_none_of_ge s1 _ (Nat.le_refl _)
  have hnew := allocS_new p' front nb hpl
  have hparne : ∀ (y : Nat) yo, s1.get y = some yo → yo.parent ≠ some s1.heap.length := by
    intro y yo hy e
    obtain ⟨po, hpo, -⟩ := w.parentLive y yo _ hy e
    rw [hnone] at hpo; cases hpo
  constructor
  · intro x o hx hh
    by_cases e : x = s1.heap.length
    · subst e; rw [hnew] at hx; cases hx; rw [hnh] at hh; cases hh
    · obtain ⟨o0, h0, -, -, e3, e4, -, -⟩ := allocS_old p' front nb hpl hx e
      rw [e3]; exact fl.hasUse x o0 h0 (e4 ▸ hh)
  · intro x o p po hx hp hpo hu hk
    have hpne : p ≠ s1.heap.length := by
      intro e; subst e
      by_cases e : x = s1.heap.length
      · subst e; rw [hnew] at hx; cases hx; rw [hnp] at hp; exact absurd (hpl _ hp) (Nat.lt_irrefl _)
      · obtain ⟨o0, h0, e1, -⟩ := allocS_old p' front nb hpl hx e
        exact hparne x o0 h0 (e1 ▸ hp)
    obtain ⟨po0, hp0, -, -, f3, -, -, -⟩ := allocS_old p' front nb hpl hpo hpne
    by_cases e : x = s1.heap.length
    · subst e; rw [hnew] at hx; cases hx
      rw [hnu, ← hnp, hp]; simp only [hasUse, hp0]; rw [← f3]; exact hu
    · obtain ⟨o0, h0, e1, e2, e3, -, -, -⟩ := allocS_old p' front nb hpl hx e
      rw [e3]; exact fl.inherit x o0 p po0 h0 (e1 ▸ hp) hp0 (f3 ▸ hu) (e2 ▸ hk)
  · intro l lb ctx cb hl hk hp hc
    have hle : l ≠ s1.heap.length := by
      intro e; subst e; rw [hnew] at hl; cases hl; exact hnk hk
    obtain ⟨l0, h0, e1, e2, -, -, -, -⟩ := allocS_old p' front nb hpl hl hle
    have hce : ctx ≠ s1.heap.length := by intro e; subst e; exact hparne l l0 h0 (e1 ▸ hp)
    obtain ⟨c0, hc0, -, -, -, f4, -, -⟩ := allocS_old p' front nb hpl hc hce
    rw [f4]; exact fl.chunkHas l l0 ctx c0 h0 (e2 ▸ hk) (e1 ▸ hp) hc0
  · intro l1 l2 b1 b2 ctx h1 h2 k1 k2 p1 p2
    have hle1 : l1 ≠ s1.heap.length := by
      intro e; subst e; rw [hnew] at h1; cases h1; exact hnk k1
    have hle2 : l2 ≠ s1.heap.length := by
      intro e; subst e; rw [hnew] at h2; cases h2; exact hnk k2
    obtain ⟨a1, g1, e1, e2, -, -, -, -⟩ := allocS_old p' front nb hpl h1 hle1
    obtain ⟨a2, g2, f1, f2, -, -, -, -⟩ := allocS_old p' front nb hpl h2 hle2
    exact fl.chunkUnique l1 l2 a1 a2 ctx g1 g2 (e2 ▸ k1) (f2 ▸ k2) (e1 ▸ p1) (f1 ▸ p2)

theorem oof_allocS (s1 : State) (p' : Option Id) (front : Bool) (nb : Obj) :
    (allocS s1 p' front nb).oof = s1.oof := by
  unfold allocS addChild State.push
  split <;> simp [State.modify]

/-- `hdr_alloc_cx` for a chunk that is no `.memlimit` chunk keeps the accounting exact, whether it
succeeds, is refused by a limit, or meets an allocator failure -/
theorem hdrAlloc_af {rk : Nat → Nat} {s : State} (cfg : Cfg) (hg : cfg.fixGone = true) (i : InvT rk s) (af : AF s)
    (cx : Nat) (parent : Option Id) (len : Nat) (prepend : Bool) (kind : Kind) (fail : Bool)
    (hpar : ∀ p, orNull s parent = some p → ∃ pb, s.get p = some pb ∧ pb.kind = .plain)
    (hk : kind ≠ .limit)
    (hoof : (hdrAlloc cfg s cx parent len prepend kind fail).1.oof = false) :
    AF (hdrAlloc cfg s cx parent len prepend kind fail).1 := by
  unfold hdrAlloc at hoof ⊢
  by_cases hlen : len > MAXLEN
  · simp only [hlen, if_true]; exact af
  · simp only [hlen, if_false] at hoof ⊢
    cases ha : applyLim cfg s.fuel s (orNull s parent) (totalSize len : Int) false with
    | none => simp only []; exact af
    | some s1 =>
      simp only [ha] at hoof ⊢
      have hl := applyLim_length _ _ _ _ _ _ _ ha
      cases fail with
      | true =>
        simp only [if_true]
        have hgd : ∀ j : Nat, ((applyLim cfg s1.fuel s1 (orNull s parent) (-(totalSize len : Int)) false).getD s1).get j
            = s.get j := by
          intro j
          rw [fuel_eq_of_length hl]
          exact applyLim_rollback i cfg s.fuel s.fuel (orNull s parent) (totalSize len) (by omega) false s1 ha rfl j
        refine af_of_afields ?_ (fun y => by rw [hgd y]) af
        cases hb : applyLim cfg s1.fuel s1 (orNull s parent) (-(totalSize len : Int)) false with
        | none => simpa using hl
        | some s2 => simp only [Option.getD_some]; rw [applyLim_length _ _ _ _ _ _ _ hb, hl]
      | false =>
        simp only [Bool.false_eq_true, if_false] at hoof ⊢
        have hpl : ∀ p, orNull s parent = some p → p < s1.heap.length := by
          intro p hp; obtain ⟨pb, hpb, -⟩ := hpar p hp; rw [hl]; exact lt_of_get s p pb hpb
        have hoof1 : s1.oof = false := by
          have := oof_allocS s1 (orNull s parent) prepend
            { parent := orNull s parent, kind := kind, size := len, cx := cx, useLim := hasUse s1 (orNull s parent) }
          unfold allocS at this; rw [this] at hoof; exact hoof
        have hsh := applyLim_shapeEq _ _ _ _ _ _ _ ha
        have i1 : InvT rk s1 := i.shapeEq hsh
        have fl1 : FlagsInv s1 := (applyLim_eqButCur i cfg _ _ _ false s1 ha).flags af.2
        constructor
        · intro l lb2 ctx hl2 hk2 hp2
          have hne : l ≠ s1.heap.length := by
            intro e; subst e
            have := allocS_new (orNull s parent) prepend
              { parent := orNull s parent, kind := kind, size := len, cx := cx,
                useLim := hasUse s1 (orNull s parent) } hpl
            unfold allocS at this; rw [this] at hl2; cases hl2; exact hk hk2
          exact acct_add_leaf i af.2 af.1 cfg hg (orNull s parent) hpar len s1 ha hoof1 prepend
            { parent := orNull s parent, kind := kind, size := len, cx := cx, useLim := hasUse s1 (orNull s parent) }
            rfl rfl l lb2 ctx hl2 hk2 hp2 hne
        · exact flags_allocS i1.wf fl1 (orNull s parent) prepend _ hpl rfl rfl rfl hk


/-- `talloc_size(parent, n)` / `talloc_from_cx` -/
theorem alloc_acct {rk : Nat → Nat} {s : State} (cfg : Cfg) (ok : CfgOK cfg) (w : WF s) (wr : Ranked rk s)
    (af : AF s) (parent : Option Id) (size : Nat) (fromCx fail : Bool) (hctx : UserCtx s parent)
    (hoof : (step cfg s (.alloc parent size fromCx fail)).1.oof = false) :
    AF (step cfg s (.alloc parent size fromCx fail)).1 := by
  simp only [step] at hoof ⊢
  exact hdrAlloc_af cfg ok.gone ⟨w.toWFp.tree, wr⟩ af _ parent size false .plain fail
    (hctx.orNull w.toWFp) (by simp) hoof

/-- `talloc_reference(ctx, o)` -/
theorem reference_acct {rk : Nat → Nat} {s : State} (cfg : Cfg) (ok : CfgOK cfg) (w : WF s) (wr : Ranked rk s)
    (af : AF s) (ctx : Option Id) (o : Nat) (fail : Bool) (hctx : UserCtx s ctx) (ho : UserObj s o)
    (hoof : (step cfg s (.reference ctx o fail)).1.oof = false) :
    AF (step cfg s (.reference ctx o fail)).1 := by
  obtain ⟨ob, hob, hok, honull⟩ := ho
  simp only [step, hob] at hoof ⊢
  have key := hdrAlloc_af cfg ok.gone (rk := rk) ⟨w.toWFp.tree, wr⟩ af (cxOf s ctx) ctx REFSIZE true (.ref o) fail
    (hctx.orNull w.toWFp) (by simp)
  cases hok' : (hdrAlloc cfg s (cxOf s ctx) ctx REFSIZE true (.ref o) fail).2 with
  | false =>
    simp only [hok', Bool.false_eq_true, if_false] at hoof ⊢
    exact key hoof
  | true =>
    simp only [hok', if_true] at hoof ⊢
    rw [oof_modify] at hoof
    refine af_of_afields (by simp) ?_ (key hoof)
    intro y
    rw [get_modify]
    split
    · cases (hdrAlloc cfg s (cxOf s ctx) ctx REFSIZE true (.ref o) fail).1.get y <;> simp [AFields]
    · rfl

/-- `talloc_enable_null_tracking()` -/
theorem nullOn_acct {rk : Nat → Nat} {s : State} (cfg : Cfg) (ok : CfgOK cfg) (w : WF s) (wr : Ranked rk s)
    (af : AF s) (fail : Bool) (hoof : (step cfg s (.nullOn fail)).1.oof = false) :
    AF (step cfg s (.nullOn fail)).1 := by
  simp only [step] at hoof ⊢
  cases hn : s.nullCtx with
  | some n => exact af
  | none =>
    simp only [hn] at hoof ⊢
    have key := hdrAlloc_af cfg ok.gone (rk := rk) ⟨w.toWFp.tree, wr⟩ af 0 none 0 false .plain fail
      (by intro p hp; simp [orNull, hn] at hp) (by simp)
    cases hok' : (hdrAlloc cfg s 0 none 0 false .plain fail).2 with
    | false =>
      simp only [hok', Bool.false_eq_true, if_false] at hoof ⊢
      exact key hoof
    | true =>
      simp only [hok', if_true] at hoof ⊢
      exact af_of_afields (s := (hdrAlloc cfg s 0 none 0 false .plain fail).1) rfl (fun _ => rfl) (key hoof)

/-- `talloc_set_destructor(o, d)` -/
theorem setDtor_acct {s : State} (cfg : Cfg) (af : AF s) (o : Nat) (d : Dtor) :
    AF (step cfg s (.setDtor o d)).1 := by
  simp only [step]
  cases ho : s.get o with
  | none => exact af
  | some ob =>
    simp only []
    refine af_of_afields (by simp) ?_ af
    intro y
    rw [get_modify]
    split
    · cases s.get y <;> simp [AFields]
    · rfl

end Usual.C01
