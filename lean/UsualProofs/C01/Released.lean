import UsualProofs.C01.StepFuel
import UsualProofs.C01.AccMono
/-! `talloc_free` / `talloc_unlink` of the last link, full subtree: when every destructor in the
subtree accepts, the object and every descendant that is reached without passing a referenced
object are released. -/
set_option linter.unusedSimpArgs false
set_option linter.unusedVariables false
namespace Usual.C01

/-- every destructor in the subtree of `x` accepts -/
def AllAccept (s : State) (x : Nat) : Prop :=
  ∀ (y : Nat) yb, s.get y = some yb → InSub s x y → (dtorStep yb.dtor).1 = true

/-- `y` is reached from `x` along primary-parent links through objects without references -/
inductive Clean (s : State) (x : Nat) : Nat → Prop
  | root : Clean s x x
  | child {y p : Nat} {yb : Obj} : s.get y = some yb → yb.parent = some p → Clean s x p → yb.refs = [] →
      Clean s x y

theorem Clean.inSub {s : State} {x y : Nat} (h : Clean s x y) : InSub s x y := by
  induction h with
  | root => exact Or.inl rfl
  | child hy hp _ _ ih => exact InSub.of_parent (by rw [parentOf_eq hy]; exact hp) ih

/-- below `x`: the first step is a child of `x` without references -/
theorem Clean.split {s : State} {x y : Nat} (h : Clean s x y) :
    y = x ∨ ∃ d db, s.get d = some db ∧ db.parent = some x ∧ db.refs = [] ∧ Clean s d y := by
  induction h with
  | root => exact Or.inl rfl
  | @child y p yb hy hp hc hr ih =>
    right
    rcases ih with rfl | ⟨d, db, h1, h2, h3, h4⟩
    · exact ⟨y, yb, hy, hp, hr, Clean.root⟩
    · exact ⟨d, db, h1, h2, h3, Clean.child hy hp h4 hr⟩

theorem Clean.of_child {s : State} {x d y : Nat} {db : Obj} (hd : s.get d = some db) (hp : db.parent = some x)
    (hr : db.refs = []) (h : Clean s d y) : Clean s x y := by
  induction h with
  | root => exact Clean.child hd hp Clean.root hr
  | child hy hpp _ hrr ih => exact Clean.child hy hpp ih hrr

/-- the clean part of a sibling subtree survives the iteration on `c` (or is already released) -/
theorem clean_survive {s s2 : State} {o c : Nat} (w : WFp s) (w2 : WFp s2) (k : Keeps (Outside s c) s s2)
    (y : Nat) (h : Clean s o y) (hyo : y ≠ o) (hout : ¬ InSub s c y) : s2.get y = none ∨ Clean s2 o y := by
  induction h with
  | root => exact absurd rfl hyo
  | @child y p yb hy hp hc hr ih =>
    have hpo : parentOf s y = some p := by rw [parentOf_eq hy]; exact hp
    -- the parent survives (it is a plain object outside the subtree of `c`, or `o` itself)
    have hpar : Clean s2 o p := by
      by_cases e : p = o
      · subst e; exact Clean.root
      · have hpout : ¬ InSub s c p := fun h => hout (InSub.of_parent hpo h)
        rcases ih e hpout with hn | hcl
        · exfalso
          obtain ⟨pb, hpb, hpk, -⟩ := w.parentLive y yb p hy hp
          have hoP : Outside s c p := ⟨hpout, by
            rintro ⟨zb, t, h1, h2⟩; rw [hpb] at h1; cases h1; rw [h2] at hpk; cases hpk⟩
          obtain ⟨pb', h1, -⟩ := k.keep p pb hoP hpb
          rw [hn] at h1; cases h1
        · exact hcl
    cases h2 : s2.get y with
    | none => exact Or.inl rfl
    | some yb2 =>
      right
      by_cases hr' : isRefAt s y
      · obtain ⟨zb, t, h3, h4⟩ := hr'
        rw [hy] at h3; cases h3
        have hpar2 := k.refPar y yb2 yb h2 hy (by rw [h4]; simp)
        obtain ⟨zb, h5, h6⟩ := k.kind y yb2 h2
        rw [hy] at h5; cases h5
        have hleaf := (w2.leaf y yb2 h2 (by rw [← h6, h4]; simp)).2.1
        exact Clean.child h2 (by rw [hpar2]; exact hp) hpar hleaf
      · obtain ⟨yb', h3, h4, -⟩ := k.keep y yb ⟨hout, hr'⟩ hy
        rw [h2] at h3; cases h3
        exact Clean.child h2 (by rw [h4]; exact hp) hpar ((k.fields y yb yb2 ⟨hout, hr'⟩ hy h2).2 hr)

/-- what is dead stays dead -/
theorem dead_stays {U : Nat → Prop} {s s' : State} (k : Keeps U s s') {y : Nat} (h : s.get y = none) :
    s'.get y = none := by
  cases h' : s'.get y with
  | none => rfl
  | some yb' => obtain ⟨yb, h1, -⟩ := k.kind y yb' h'; rw [h] at h1; cases h1


theorem clean_congr {s s2 : State} {x : Nat}
    (hsame : ∀ (z : Nat) zb, z ≠ x → s.get z = some zb → ∃ zb2, s2.get z = some zb2 ∧ zb2.parent = zb.parent ∧
      (zb.refs = [] → zb2.refs = [])) (y : Nat) (h : Clean s x y) : Clean s2 x y := by
  induction h with
  | root => exact Clean.root
  | @child y p yb hy hp _ hr ih =>
    by_cases e : y = x
    · subst e; exact Clean.root
    · obtain ⟨yb2, h1, h2, h3⟩ := hsame y yb e hy
      exact Clean.child h1 (by rw [h2]; exact hp) ih (h3 hr)

theorem shape_none {a b : State} (h : ShapeEq a b) {y : Nat} (hy : a.get y = none) : b.get y = none := by
  have := h.2 y
  rw [hy] at this
  cases h' : b.get y with
  | none => rfl
  | some o => rw [h'] at this; cases this

def FreeStmt5 (cfg : Cfg) (rk : Nat → Nat) (f : Nat) : Prop :=
  ∀ (s : State) (x : Nat) (xb : Obj), Inv rk s → s.get x = some xb → xb.kind = .plain → xb.refs = [] →
    xb.pending = false → s.nullCtx ≠ some x → PendBelow rk s (rk x) none → PendNR s none → s.stuck = false →
    AllAccept s x → (run cfg f s (.free x)).1.oof = false →
    (run cfg f s (.free x)).2 = 0 ∧ ∀ y, Clean s x y → (run cfg f s (.free x)).1.get y = none

def UnlinkStmt5 (cfg : Cfg) (rk : Nat → Nat) (f : Nat) : Prop :=
  ∀ (s : State) (ctx : Option Id) (x : Nat) (xb : Obj), Inv rk s → s.get x = some xb → xb.kind = .plain →
    xb.refs = [] → xb.pending = false → xb.parent = orNull s ctx → s.nullCtx ≠ some x →
    PendBelow rk s (rk x) none → PendNR s none → s.stuck = false → AllAccept s x →
    (run cfg f s (.unlink ctx x)).1.oof = false →
    (run cfg f s (.unlink ctx x)).2 = 0 ∧ ∀ y, Clean s x y → (run cfg f s (.unlink ctx x)).1.get y = none

def LoopStmt5 (cfg : Cfg) (rk : Nat → Nat) (f : Nat) : Prop :=
  ∀ (s : State) (o : Nat) (ob : Obj) (cur : Option Id), Inv rk s → s.get o = some ob →
    ob.kind = .plain → PendBelow rk s (rk o) (some o) → PendNR s (some o) → s.stuck = false →
    ob.pending = true → cur = ob.children.head? → AllAccept s o →
    (run cfg f s (.loop o true cur)).1.oof = false →
    ∀ y, Clean s o y → y ≠ o → (run cfg f s (.loop o true cur)).1.get y = none

theorem free_step5 (cfg : Cfg) (hfix : cfg.fixCx = true) (rk : Nat → Nat) (f : Nat) (hl5 : LoopStmt5 cfg rk f) :
    FreeStmt5 cfg rk (f + 1) := by
  intro s x xb i hx hk hrf hnp hnull hpb hnr hst hacc hoof
  have hself : xb.parent ≠ some x := by
    intro e; have := i.ranked.parentLt x xb x hx e; omega
  have hux := not_outside_self s x
  have hlg := (run_good cfg hfix rk f).2.2
  have hl3 := (run_out cfg hfix rk f).2.2
  have hax := hacc x xb hx (Or.inl rfl)
  simp only [run, hx, hrf, hnp, ne_eq, not_true_eq_false, if_false, Bool.false_eq_true] at hoof ⊢
  cases hds : dtorStep xb.dtor with
  | mk acc rest =>
  obtain ⟨d', logged⟩ := rest
  rw [hds] at hax
  simp only at hax
  subst hax
  simp only [hds] at hoof ⊢
  have hsh := freeBegin_plain_shapeEq s x xb d' logged hk
  have hbg := beginFree_get s x d' xb hx
  simp only [hself, if_false] at hbg
  have i2 : Inv rk (freeBegin s x xb d' logged) :=
    Inv.shapeEq hsh ⟨beginFree_wf d' i.wf hx hk hrf hnp hnull hself, beginFree_ranked d' i.ranked hx⟩
  have k12 : Keeps (Outside s x) s (freeBegin s x xb d' logged) :=
    (keeps_beginFree i.wf hx hself d' hux).trans (Keeps.of_shapeEq _ hsh)
  obtain ⟨x2, hx2, e21, e22, e23, e24, e25, e26⟩ := hsh.get (s := beginFree s x d') (j := x)
    (o := { xb with dtor := d', pending := true }) (by rw [hbg]; simp)
  have hpend2 : ∀ (y : Nat) yo, (freeBegin s x xb d' logged).get y = some yo → yo.pending = true → y ≠ x →
      ∃ yo0, s.get y = some yo0 ∧ yo0.pending = true := by
    intro y yo hy hp hne
    obtain ⟨y1, hy1, -, -, -, -, e5, -⟩ := hsh.symm.get hy
    rw [hbg] at hy1
    simp only [hne, if_false] at hy1
    split at hy1
    · obtain ⟨o0, h0, rfl⟩ := Option.map_eq_some_iff.1 hy1; exact ⟨o0, h0, by rw [← e5] at hp; exact hp⟩
    · exact ⟨y1, hy1, by rw [← e5] at hp; exact hp⟩
  have hpb2 : PendBelow rk (freeBegin s x xb d' logged) (rk x) (some x) := by
    intro y yo hy hp hne
    have hne' : y ≠ x := fun e => hne (by rw [e])
    obtain ⟨yo0, h0, h1⟩ := hpend2 y yo hy hp hne'
    exact hpb y yo0 h0 h1 (by simp)
  have hnr2 : PendNR (freeBegin s x xb d' logged) (some x) := by
    intro p pb hp hpend hne
    have hne' : p ≠ x := fun e => hne (by rw [e])
    obtain ⟨yo0, h0, h1⟩ := hpend2 p pb hp hpend hne'
    have hout := pending_outside i h0 h1 (hpb p yo0 h0 h1 (by simp))
    obtain ⟨pb', h2, -, -, -, h5⟩ := k12.keep p yo0 hout h0
    rw [hp] at h2; cases h2
    exact noRefKid_of_sublist k12 (hnr p yo0 h0 h1 (by simp)) (h5 h1 (hnr p yo0 h0 h1 (by simp)))
  have hst2 : (freeBegin s x xb d' logged).stuck = false := by rw [stuck_freeBegin]; exact hst
  have hfl := freeEnd_flagsLe cfg
    (run cfg f (freeBegin s x xb d' logged) (.loop x true (childrenOf (freeBegin s x xb d' logged) x).head?)).1 x
  have hoof3 := (flag_false_of_le hfl).1 hoof
  have hcur : (childrenOf (freeBegin s x xb d' logged) x).head? = x2.children.head? := by
    rw [childrenOf_eq hx2]
  rw [hcur] at hoof hoof3 hfl ⊢
  -- other objects: same parent, same references
  have hsame : ∀ (z : Nat) zb, z ≠ x → s.get z = some zb → ∃ zb2, (freeBegin s x xb d' logged).get z = some zb2 ∧
      zb2.parent = zb.parent ∧ (zb.refs = [] → zb2.refs = []) := by
    intro z zb hz hzb
    have h1 : ∃ z1, (beginFree s x d').get z = some z1 ∧ z1.parent = zb.parent ∧ z1.refs = zb.refs := by
      rw [hbg]; simp only [hz, if_false]
      split
      · exact ⟨{ zb with children := zb.children.erase x }, by rw [hzb]; rfl, rfl, rfl⟩
      · exact ⟨zb, hzb, rfl, rfl⟩
    obtain ⟨z1, h1, h2, h3⟩ := h1
    obtain ⟨z2, h4, e1, -, e3, -⟩ := hsh.get h1
    exact ⟨z2, h4, e1.trans h2, fun h => by rw [e3, h3]; exact h⟩
  have hpar2 : ∀ y, parentOf (freeBegin s x xb d' logged) y = parentOf s y := by
    intro y
    rw [parentOf_shapeEq hsh y]
    unfold parentOf
    rw [hbg]
    by_cases e : y = x
    · subst e; simp [hx]
    · simp only [e, if_false]
      split
      · cases s.get y <;> simp
      · rfl
  have hacc2 : AllAccept (freeBegin s x xb d' logged) x := by
    intro z zb2 hz hin
    have hin' : InSub s x z := (InSub.congr hpar2).1 hin
    obtain ⟨zb, hzb, -⟩ := hsh.symm.get hz
    have hlive : ∃ zb0, s.get z = some zb0 := by
      rw [hbg] at hzb
      by_cases e : z = x
      · subst e; exact ⟨xb, hx⟩
      · simp only [e, if_false] at hzb
        split at hzb
        · obtain ⟨o0, h0, -⟩ := Option.map_eq_some_iff.1 hzb; exact ⟨o0, h0⟩
        · exact ⟨zb, hzb⟩
    obtain ⟨zb0, hzb0⟩ := hlive
    exact (accMono_freeBegin s x xb d' logged hx hds).acc z zb0 zb2 hzb0 hz (hacc z zb0 hzb0 hin')
  have hgone3 := hl5 (freeBegin s x xb d' logged) x x2 _ i2 hx2 (e24 ▸ hk) hpb2 hnr2 hst2 (by rw [e25]) rfl
    hacc2 hoof3
  obtain ⟨st3, -, hch3⟩ := hl3 (freeBegin s x xb d' logged) x x2 true _ i2 hx2 (e24 ▸ hk) hpb2 hnr2 hst2
    (by rw [e25]) (fun _ => rfl) (fun c hc => List.mem_of_mem_head? hc) hoof3
  have g3 := hlg (freeBegin s x xb d' logged) x x2 true _ i2 hx2 (e24 ▸ hk) hpb2 hoof3 st3
  generalize (run cfg f (freeBegin s x xb d' logged) (.loop x true x2.children.head?)).1 = s3
    at g3 st3 hch3 hoof hoof3 hgone3 ⊢
  obtain ⟨x3, hx3, -⟩ := g3.stable x x2 hx2 (e24 ▸ hk) (Nat.lt_succ_self _)
  obtain ⟨f1, f2, -⟩ := freeEnd_some cfg s3 x x3 hx3
  refine ⟨f1, ?_⟩
  intro y hy
  apply shape_none f2
  by_cases e : y = x
  · subst e; simp
  · rw [get_remove]; simp only [Ne.symm e, if_false]
    exact hgone3 y (clean_congr hsame y hy) e

theorem unlink_step5 (cfg : Cfg) (rk : Nat → Nat) (f : Nat) (hf5 : FreeStmt5 cfg rk f) :
    UnlinkStmt5 cfg rk (f + 1) := by
  intro s ctx x xb i hx hxk hrefs hnp hpar hnull hpb hnr hst hacc hoof
  simp only [run, hx, hpar, ne_eq, not_true_eq_false, if_false, hrefs] at hoof ⊢
  exact hf5 s x xb i hx hxk hrefs hnp hnull hpb hnr hst hacc hoof


/-- after the iteration on a TRef / `.memlimit` chunk the chunk is gone -/
theorem body_leaf_dead (cfg : Cfg) (rk : Nat → Nat) (f : Nat) (s : State) (o : Nat) (ob : Obj) (c : Nat)
    (cb : Obj) (i : Inv rk s) (ho : s.get o = some ob) (hcm : c ∈ ob.children)
    (hc : s.get c = some cb) (hknp : cb.kind ≠ .plain)
    (hoof : (if (run cfg f s (.unlink (some o) c)).2 ≠ 0 then throwChild cfg (run cfg f s (.unlink (some o) c)).1 c
      else (run cfg f s (.unlink (some o) c)).1).oof = false) :
    (if (run cfg f s (.unlink (some o) c)).2 ≠ 0 then throwChild cfg (run cfg f s (.unlink (some o) c)).1 c
      else (run cfg f s (.unlink (some o) c)).1).get c = none := by
  obtain ⟨cb', hc', hcp, -⟩ := i.wf.childBack o ob c ho hcm
  rw [hc] at hc'; cases hc'
  obtain ⟨lc, lr, ld, lp⟩ := i.wf.leaf c cb hc hknp
  have ht : ∀ t, cb.kind = .ref t → t ≠ c := by
    intro t hkk e; subst e
    obtain ⟨tb, htb, hm⟩ := i.wf.refBack t cb t hc hkk
    rw [hc] at htb; cases htb; rw [lr] at hm; cases hm
  have hpr : cb.parent ≠ some c := by
    intro e
    obtain ⟨po, hpo, hpk, -⟩ := i.wf.parentLive c cb c hc e
    rw [hc] at hpo; cases hpo; exact hknp hpk
  cases f with
  | zero => simp [run] at hoof
  | succ f1 =>
    have hrun : run cfg (f1 + 1) s (.unlink (some o) c) = run cfg f1 s (.free c) := by
      simp only [run, hc, orNull, hcp, ne_eq, not_true_eq_false, if_false, lr]
    rw [hrun] at hoof ⊢
    cases f1 with
    | zero => simp [run] at hoof
    | succ f2 =>
      obtain ⟨c1, c2⟩ := run_free_leaf cfg f2 s c cb hc hknp lc lr lp ld ht hpr
      simp only [c1, ne_eq, not_true_eq_false, if_false]
      apply shape_none c2
      rw [freeLeafS_get i.wf hc hknp]; unfold eraseAll; simp

theorem clean_leaf {s : State} (w : WFp s) {c y : Nat} {cb : Obj} (hc : s.get c = some cb) (hk : cb.kind ≠ .plain)
    (h : Clean s c y) : y = c := by
  rcases h.split with e | ⟨d, db, hd, hdp, -, -⟩
  · exact e
  · obtain ⟨po, hpo, hpk, -⟩ := w.parentLive d db c hd hdp
    rw [hc] at hpo; cases hpo; exact absurd hpk hk

theorem loop_step5 (cfg : Cfg) (hfix : cfg.fixCx = true) (rk : Nat → Nat) (f : Nat)
    (hu5 : UnlinkStmt5 cfg rk f) (hl5 : LoopStmt5 cfg rk f) : LoopStmt5 cfg rk (f + 1) := by
  intro s o ob cur i ho hok hpb hnr hst hpend hhead hacc hoof y hy hyo
  have hu3 := (run_out cfg hfix rk f).2.1
  have hl3 := (run_out cfg hfix rk f).2.2
  rcases hy.split with e | ⟨d, db, hd, hdp, hdr, hcd⟩
  · exact absurd e hyo
  have hltd := i.ranked.parentLt d db o hd hdp
  have hdm : d ∈ ob.children := by
    obtain ⟨po, hpo, -, hm⟩ := i.wf.parentLive d db o hd hdp
    rw [ho] at hpo; cases hpo
    rcases hm with h | h
    · exact h
    · have := hpb d db hd h (by intro e; cases e; omega); omega
  cases cur with
  | none =>
    exfalso
    cases hch : ob.children with
    | nil => rw [hch] at hdm; cases hdm
    | cons a l => rw [hch] at hhead; cases hhead
  | some c =>
    obtain ⟨post, hch⟩ : ∃ post, ob.children = c :: post := by
      cases hch : ob.children with
      | nil => rw [hch] at hdm; cases hdm
      | cons a l => rw [hch] at hhead; simp only [List.head?_cons, Option.some.injEq] at hhead; subst hhead; exact ⟨l, rfl⟩
    have hcm : c ∈ ob.children := by rw [hch]; simp
    simp only [run] at hoof ⊢
    have hse : loopEnter s o c = s := by
      unfold loopEnter; rw [if_pos]; rw [childrenOf_eq ho]; simpa using hcm
    rw [hse] at hoof ⊢
    obtain ⟨cb, hc, hcp, hcnp⟩ := i.wf.childBack o ob c ho hcm
    simp only [hc, Bool.not_true, Bool.false_and, Bool.false_eq_true, if_false] at hoof ⊢
    rw [childrenOf_eq ho] at hoof ⊢
    have hfl2 := run_flagsLe cfg f
      (if (run cfg f s (.unlink (some o) c)).2 ≠ 0 then throwChild cfg (run cfg f s (.unlink (some o) c)).1 c
        else (run cfg f s (.unlink (some o) c)).1) (.loop o true (succOf ob.children c))
    have hoof2 := (flag_false_of_le hfl2).1 hoof
    have hbody : BodyOut rk s
        (if (run cfg f s (.unlink (some o) c)).2 ≠ 0 then throwChild cfg (run cfg f s (.unlink (some o) c)).1 c
          else (run cfg f s (.unlink (some o) c)).1) o ob c true := by
      by_cases hk : cb.kind = .plain
      · exact body_plain3 cfg hfix rk f hu3 s o ob true c cb i ho hok hpb hnr hst hpend
          (fun _ => by rw [hch]; rfl) hcm hc hk hoof2
      · exact body_leaf3 cfg rk f s o ob true c cb i ho hst hcm hc hk hoof2
    -- the destructors of the subtree keep accepting
    have hmono : AccMono s (if (run cfg f s (.unlink (some o) c)).2 ≠ 0 then
          throwChild cfg (run cfg f s (.unlink (some o) c)).1 c
        else (run cfg f s (.unlink (some o) c)).1) := by
      refine (run_accMono cfg f s (.unlink (some o) c)).trans ?_
      split
      · exact .of_frame (frame_throwChild _ _ _)
      · exact .refl _
    -- the clean part below `c` is released by the iteration
    have hbodygone : d = c → (if (run cfg f s (.unlink (some o) c)).2 ≠ 0 then
          throwChild cfg (run cfg f s (.unlink (some o) c)).1 c
        else (run cfg f s (.unlink (some o) c)).1).get y = none := by
      intro hdc
      subst hdc
      rw [hc] at hd; cases hd
      by_cases hk : db.kind = .plain
      · have hfl1 : FlagsLe (run cfg f s (.unlink (some o) d)).1
            (if (run cfg f s (.unlink (some o) d)).2 ≠ 0 then throwChild cfg (run cfg f s (.unlink (some o) d)).1 d
            else (run cfg f s (.unlink (some o) d)).1) := by
          split
          · exact throwChild_flagsLe _ _ _
          · exact FlagsLe.refl _
        have hoof1 := (flag_false_of_le hfl1).1 hoof2
        have hnullc : s.nullCtx ≠ some d := by
          intro e
          obtain ⟨nb, hb1, -, -, hb4, -⟩ := i.wf.nullOK d e
          rw [hc] at hb1; cases hb1; rw [hcp] at hb4; cases hb4
        have hpbc : PendBelow rk s (rk d) none := by
          intro z yo hz hp _
          by_cases e : z = o
          · subst e; exact hltd
          · have := hpb z yo hz hp (by simpa using e); omega
        have hnr0 := pendNR_plain_child i ho hnr hpend (fun _ => by rw [hch]; rfl) hc hk
        have haccd : AllAccept s d := by
          intro z zb hz hin
          refine hacc z zb hz ?_
          rcases hin with rfl | h
          · exact child_inSub hc hcp
          · exact Or.inr ((Anc.parent (by rw [parentOf_eq hc]; exact hcp)).trans h)
        obtain ⟨hrc, hg⟩ := hu5 s (some o) d db i hc hk hdr hcnp (by simp [orNull, hcp]) hnullc hpbc hnr0 hst
          haccd hoof1
        simp only [hrc, ne_eq, not_true_eq_false, if_false]
        exact hg y hcd
      · have := clean_leaf i.wf hc hk hcd
        subst this
        exact body_leaf_dead cfg rk f s o ob y db i ho hcm hc hk hoof2
    generalize (if (run cfg f s (.unlink (some o) c)).2 ≠ 0 then throwChild cfg (run cfg f s (.unlink (some o) c)).1 c
        else (run cfg f s (.unlink (some o) c)).1) = s2 at hbody hoof hoof2 hmono hbodygone ⊢
    obtain ⟨st2, g2, k2, kC, ⟨o2, ho2, hnext, hexact⟩, -⟩ := hbody
    obtain ⟨o2', ho2', hop2, -, hok2⟩ := g2.stable o ob ho hok (Nat.lt_succ_self _)
    rw [ho2] at ho2'; cases ho2'
    have hnr2 : PendNR s2 (some o) := by
      intro p pb hp hpp hne
      obtain ⟨yo0, h0, h1⟩ := g2.nnp p pb hp hpp
      have hout := pending_outside i h0 h1 (hpb p yo0 h0 h1 hne)
      obtain ⟨pb', h2, -, -, -, h5⟩ := k2.keep p yo0 hout h0
      rw [hp] at h2; cases h2
      exact noRefKid_of_sublist k2 (hnr p yo0 h0 h1 hne) (h5 h1 (hnr p yo0 h0 h1 hne))
    have hhead2 : succOf ob.children c = o2.children.head? := by
      rw [hexact rfl post hch, hch, succOf_head]
    have hacc2 : AllAccept s2 o := by
      intro z zb2 hz hin
      obtain ⟨⟨zb, hzb⟩, hin'⟩ := inSub_back i.wf k2 z zb2 hz hin
      exact hmono.acc z zb zb2 hzb hz (hacc z zb hzb hin')
    have hrest := hl5 s2 o o2 _ g2.inv ho2 hok2 (hpb.of_nnp g2.nnp) hnr2 st2 (by rw [hop2]; exact hpend) hhead2
      hacc2 hoof
    obtain ⟨-, k3, -⟩ := hl3 s2 o o2 true _ g2.inv ho2 hok2 (hpb.of_nnp g2.nnp) hnr2 st2
      (by rw [hop2]; exact hpend) (fun _ => hhead2) hnext hoof
    by_cases hdc : d = c
    · exact dead_stays k3 (hbodygone hdc)
    · have hnot : ¬ InSub s c y :=
        fun h => sub_disjoint i.t o ob ho c d hcm hdm (Ne.symm hdc) y ⟨h, hcd.inSub⟩
      rcases clean_survive i.wf g2.inv.wf kC y hy hyo hnot with h | h
      · exact dead_stays k3 h
      · exact hrest y h hyo

/-- **the clean part of the subtree is released** -/
theorem run_released (cfg : Cfg) (hfix : cfg.fixCx = true) (rk : Nat → Nat) (f : Nat) :
    FreeStmt5 cfg rk f ∧ UnlinkStmt5 cfg rk f ∧ LoopStmt5 cfg rk f := by
  induction f with
  | zero =>
    refine ⟨?_, ?_, ?_⟩
    · intro s x xb _ _ _ _ _ _ _ _ _ _ hoof; simp [run] at hoof
    · intro s ctx x xb _ _ _ _ _ _ _ _ _ _ _ hoof; simp [run] at hoof
    · intro s o ob cur _ _ _ _ _ _ _ _ _ hoof; simp [run] at hoof
  | succ f ih =>
    exact ⟨free_step5 cfg hfix rk f ih.2.2, unlink_step5 cfg rk f ih.1, loop_step5 cfg hfix rk f ih.2.1 ih.2.2⟩

end Usual.C01
