import UsualProofs.C01.OpsLimit
import UsualProofs.C01.WFBool
import UsualProofs.C01.NullOff
/-! Every public operation keeps the structural invariant and the acyclicity of the holder graph. -/
set_option linter.unusedSimpArgs false
set_option linter.unusedVariables false
namespace Usual.C01

/-- the holder graph (parents and referencing contexts) has no cycle -/
def Acyclic (s : State) : Prop := ∃ rk : Nat → Nat, Ranked rk s

/-- the arguments of an operation are objects the caller can hold a pointer to (live user
objects, never the null context or an internal chunk), and operations that add a holder edge
keep the graph acyclic: the new holder ranks below the object in the ranking `rk` of the
current graph. -/
def OpOK (rk : Nat → Nat) (s : State) : Op → Prop
  | .alloc p _ _ _ => UserCtx s p
  | .free o => UserObj s o
  | .freeChildren o => UserObj s o
  | .reference ctx o _ => UserCtx s ctx ∧ UserObj s o ∧ ∀ c, ctx = some c → rk c < rk o
  | .unlink _ o => UserObj s o
  | .steal newp o => UserCtx s newp ∧ UserObj s o ∧ ∀ q, orNull s newp = some q → rk q < rk o
  | .reparent _ newp o => UserCtx s newp ∧ UserObj s o ∧ ∀ q, orNull s newp = some q → rk q < rk o
  | .realloc _ o _ _ => UserObj s o
  | .setDtor o _ => UserObj s o
  | .setLimit o _ _ => UserObj s o
  | .nullOn _ => True
  | .nullOff => True

theorem step_wf {rk : Nat → Nat} {s : State} (cfg : Cfg) (hfix : cfg.fixCx = true) (op : Op) (w : WF s)
    (wr : Ranked rk s) (hop : OpOK rk s op)
    (hoof : (step cfg s op).1.oof = false) (hstuck : (step cfg s op).1.stuck = false) :
    WF (step cfg s op).1 ∧ Acyclic (step cfg s op).1 := by
  cases op with
  | alloc p sz fc fl => exact alloc_wf cfg w wr p sz fc fl hop
  | free o =>
    obtain ⟨h1, h2⟩ := free_wf cfg hfix w wr hop hoof hstuck; exact ⟨h1, rk, h2⟩
  | freeChildren o =>
    obtain ⟨h1, h2⟩ := freeChildren_wf cfg hfix w wr hop hoof hstuck; exact ⟨h1, rk, h2⟩
  | reference ctx o fl => exact reference_wf cfg w wr ctx o fl hop.1 hop.2.1 hop.2.2
  | unlink ctx o =>
    obtain ⟨h1, h2⟩ := unlink_wf cfg hfix w wr ctx hop hoof hstuck; exact ⟨h1, rk, h2⟩
  | steal np o => exact steal_wf cfg w wr np o hop.1 hop.2.1 hop.2.2
  | reparent op' np o => exact reparentOp_wf cfg w wr op' np o hop.1 hop.2.1 hop.2.2
  | realloc p o sz fl =>
    obtain ⟨h1, h2⟩ := realloc_wf cfg hfix w wr p o sz fl hop hoof hstuck; exact ⟨h1, rk, h2⟩
  | setDtor o d =>
    obtain ⟨h1, h2⟩ := setDtor_op_wf cfg w wr o d hop; exact ⟨h1, rk, h2⟩
  | setLimit o mx fl => exact setLimit_wf cfg w wr o mx fl hop
  | nullOn fl => exact nullOn_wf cfg w wr fl
  | nullOff =>
    obtain ⟨h1, h2⟩ := nullOff_wf cfg hfix w wr hoof hstuck; exact ⟨h1, rk, h2⟩

theorem wf_empty : WF {} := by
  rw [← wfOK_iff]; decide

theorem ranked_empty (rk : Nat → Nat) : Ranked rk {} := by
  constructor
  · intro x o p hx; simp [State.get] at hx
  · intro x o t q hx; simp [State.get] at hx
  · intro n x o hn; cases hn

end Usual.C01
