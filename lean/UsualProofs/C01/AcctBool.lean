import Mathlib.Data.Finset.Card
import UsualProofs.C01.StepAcct
/-! The Bool-valued accounting invariant evaluated by the driver (`acctOK`) is the Prop-level
invariant `AcctInv` (in well-formed states with an acyclic holder graph). -/
set_option linter.unusedSimpArgs false
set_option linter.unusedVariables false
namespace Usual.C01
open Finset

theorem ancestors_mem_anc (f : Nat) (s : State) (x a : Nat) (h : a ∈ ancestors f s x) : Anc s a x := by
  induction f generalizing x with
  | zero => simp [ancestors] at h
  | succ f ih =>
    simp only [ancestors] at h
    cases hx : s.get x with
    | none => simp [hx] at h
    | some o =>
      simp only [hx] at h
      cases hp : o.parent with
      | none => simp [hp] at h
      | some p =>
        simp only [hp, List.mem_cons] at h
        have hpo : parentOf s x = some p := by rw [parentOf_eq hx]; exact hp
        rcases h with rfl | h
        · exact Anc.parent hpo
        · exact Anc.up hpo (ih p h)

theorem ancestors_mono1 (f : Nat) (s : State) (x a : Nat) (h : a ∈ ancestors f s x) :
    a ∈ ancestors (f + 1) s x := by
  induction f generalizing x with
  | zero => simp [ancestors] at h
  | succ f ih =>
    simp only [ancestors] at h ⊢
    cases hx : s.get x with
    | none => simp [hx] at h
    | some o =>
      simp only [hx] at h ⊢
      cases hp : o.parent with
      | none => simp [hp] at h
      | some p =>
        simp only [hp, List.mem_cons] at h ⊢
        rcases h with rfl | h
        · exact Or.inl rfl
        · right
          have := ih p h
          simp only [ancestors] at this
          exact this

theorem ancestors_mono (f k : Nat) (s : State) (x a : Nat) (h : a ∈ ancestors f s x) :
    a ∈ ancestors (f + k) s x := by
  induction k with
  | zero => exact h
  | succ k ih => exact ancestors_mono1 (f + k) s x a ih

theorem anc_mem_ancestors {s : State} {a x : Nat} (h : Anc s a x) : ∃ f, a ∈ ancestors f s x := by
  induction h with
  | @parent x p hp =>
    obtain ⟨xb, hx, hpp⟩ := parentOf_some hp
    exact ⟨1, by simp [ancestors, hx, hpp]⟩
  | @up x p a hp _ ih =>
    obtain ⟨xb, hx, hpp⟩ := parentOf_some hp
    obtain ⟨f, hf⟩ := ih
    exact ⟨f + 1, by simp only [ancestors, hx, hpp, List.mem_cons]; exact Or.inr hf⟩

/-- the climb used up all its fuel, or more fuel changes nothing -/
theorem ancestors_complete (f : Nat) (s : State) (x : Nat) :
    (ancestors f s x).length = f ∨ ∀ k, ancestors (f + k) s x = ancestors f s x := by
  induction f generalizing x with
  | zero => left; rfl
  | succ f ih =>
    cases hx : s.get x with
    | none => right; intro k; rw [Nat.succ_add]; simp [ancestors, hx]
    | some o =>
      cases hp : o.parent with
      | none => right; intro k; rw [Nat.succ_add]; simp [ancestors, hx, hp]
      | some p =>
        rcases ih p with h | h
        · left; simp [ancestors, hx, hp, h]
        · right; intro k; rw [Nat.succ_add]; simp only [ancestors, hx, hp]; rw [h k]

theorem ancestors_chain {rk : Nat → Nat} {s : State} (w : WFt s) (wr : Ranked rk s) (f : Nat) (x : Nat) :
    (∀ a ∈ ancestors f s x, rk a < rk x ∧ a < s.heap.length) ∧
    (ancestors f s x).Pairwise (fun a b => rk b < rk a) := by
  induction f generalizing x with
  | zero => simp [ancestors]
  | succ f ih =>
    simp only [ancestors]
    cases hx : s.get x with
    | none => simp
    | some o =>
      simp only []
      cases hp : o.parent with
      | none => simp
      | some p =>
        simp only []
        obtain ⟨h1, h2⟩ := ih p
        have hlt := wr.parentLt x o p hx hp
        obtain ⟨pb, hpb, -⟩ := w.parentLive x o p hx hp
        refine ⟨?_, List.pairwise_cons.2 ⟨fun b hb => (h1 b hb).1, h2⟩⟩
        intro a ha
        rcases List.mem_cons.1 ha with rfl | ha
        · exact ⟨hlt, lt_of_get s a pb hpb⟩
        · exact ⟨by have := (h1 a ha).1; omega, (h1 a ha).2⟩

theorem length_le_of_nodup_lt (l : List Nat) (n : Nat) (hnd : l.Nodup) (h : ∀ a ∈ l, a < n) : l.length ≤ n := by
  have h1 : l.toFinset.card = l.length := List.toFinset_card_of_nodup hnd
  have h2 : l.toFinset ⊆ Finset.range n := by
    intro a ha; rw [List.mem_toFinset] at ha; exact Finset.mem_range.2 (h a ha)
  have h3 := Finset.card_le_card h2
  rw [h1, Finset.card_range] at h3; exact h3

/-- `heap.length` steps are enough to list all ancestors -/
theorem contains_anc_iff {rk : Nat → Nat} {s : State} (w : WFt s) (wr : Ranked rk s) (x : Nat) (xb : Obj)
    (hx : s.get x = some xb) (ctx : Nat) :
    (ancestors s.heap.length s x).contains ctx = true ↔ Anc s ctx x := by
  rw [List.contains_iff_mem]
  constructor
  · exact ancestors_mem_anc _ s x ctx
  · intro h
    obtain ⟨f, hf⟩ := anc_mem_ancestors h
    by_cases hle : f ≤ s.heap.length
    · have := ancestors_mono f (s.heap.length - f) s x ctx hf
      rwa [Nat.add_sub_cancel' hle] at this
    · rcases ancestors_complete s.heap.length s x with hc | hc
      · exfalso
        obtain ⟨c1, c2⟩ := ancestors_chain w wr s.heap.length x
        have hnd : (x :: ancestors s.heap.length s x).Nodup := by
          rw [List.nodup_cons]
          refine ⟨fun hm => by have := (c1 x hm).1; omega, ?_⟩
          exact c2.imp (fun {a b} hab => by intro e; subst e; omega)
        have := length_le_of_nodup_lt _ s.heap.length hnd (by
          intro a ha
          rcases List.mem_cons.1 ha with rfl | ha
          · exact lt_of_get s a xb hx
          · exact (c1 a ha).2)
        simp only [List.length_cons, hc] at this; omega
      · have := hc (f - s.heap.length)
        rw [Nat.add_sub_cancel' (by omega)] at this
        rw [← this]; exact hf

theorem sum_range_list (n : Nat) (F : Nat → Nat) : ∑ x ∈ range n, F x = ((List.range n).map F).sum := by
  induction n with
  | zero => simp
  | succ n ih => rw [Finset.sum_range_succ, List.range_succ, List.map_append, List.sum_append, ih]; simp

open Classical in
theorem chargeBeneath_eq {rk : Nat → Nat} {s : State} (w : WFt s) (wr : Ranked rk s) (ctx l : Nat) :
    chargeBeneath s ctx l = chargeUnder s ctx l := by
  unfold chargeBeneath chargeUnder ids
  rw [sum_range_list]
  congr 1
  apply List.map_congr_left
  intro x _
  cases hx : s.get x with
  | none => simp [chargeAt, hx]
  | some o =>
    simp only [chargeAt, hx, charge]
    have := contains_anc_iff w wr x o hx ctx
    by_cases ha : Anc s ctx x
    · rw [this.2 ha]
      by_cases hl : x = l
      · simp [hl]
      · simp [hl, ha]
    · have hc : (ancestors s.heap.length s x).contains ctx = false := by
        cases h : (ancestors s.heap.length s x).contains ctx with
        | false => rfl
        | true => exact absurd (this.1 h) ha
      rw [hc]; simp [ha]

/-- **`acctOK` is `AcctInv`** -/
theorem acctOK_iff {rk : Nat → Nat} {s : State} (w : WFt s) (wr : Ranked rk s) : acctOK s = true ↔ AcctInv s := by
  unfold acctOK AcctInv
  simp only [List.all_eq_true, ids, List.mem_range]
  constructor
  · intro h l lb ctx hl hk hp
    have := h l (lt_of_get s l lb hl)
    simp only [hl, isLimit, hk, if_true, hp, beq_iff_eq] at this
    rw [this, chargeBeneath_eq w wr]
  · intro h l _
    cases hl : s.get l with
    | none => rfl
    | some lb =>
      simp only []
      by_cases hk : lb.kind = .limit
      · simp only [isLimit, hk, if_true]
        cases hp : lb.parent with
        | none => rfl
        | some ctx =>
          simp only [beq_iff_eq]
          rw [chargeBeneath_eq w wr]; exact h l lb ctx hl hk hp
      · have : isLimit lb = false := by
          cases hkk : lb.kind <;> simp_all [isLimit]
        simp [this]

end Usual.C01
