import UsualProofs.C01.Sub
/-! `memlimit_walk(t)` returns the sum of the charges of the subtree of `t` (what
`move_memlimit` moves from the old chain of limits to the new one). -/
set_option linter.unusedSimpArgs false
set_option linter.unusedVariables false
namespace Usual.C01
open Finset

/-- same heap up to the USE flags -/
def EqButUse (s s' : State) : Prop :=
  s'.heap.length = s.heap.length ∧ s'.nullCtx = s.nullCtx ∧
  ∀ j : Nat, (s'.get j).map (fun o => { o with useLim := false }) = (s.get j).map (fun o => { o with useLim := false })

theorem EqButUse.refl (s : State) : EqButUse s s := ⟨rfl, rfl, fun _ => rfl⟩
theorem EqButUse.trans {a b c : State} (h1 : EqButUse a b) (h2 : EqButUse b c) : EqButUse a c :=
  ⟨h2.1.trans h1.1, h2.2.1.trans h1.2.1, fun j => (h2.2.2 j).trans (h1.2.2 j)⟩

theorem EqButUse.get {s s' : State} (h : EqButUse s s') {j : Nat} {o : Obj} (hj : s.get j = some o) :
    ∃ o', s'.get j = some o' ∧ o' = { o with useLim := o'.useLim } := by
  have := h.2.2 j
  rw [hj] at this
  cases h' : s'.get j with
  | none => rw [h'] at this; cases this
  | some o' =>
    rw [h'] at this
    simp only [Option.map_some, Option.some.injEq] at this
    refine ⟨o', rfl, ?_⟩
    cases o; cases o'; simp_all

theorem EqButUse.symm {a b : State} (h : EqButUse a b) : EqButUse b a :=
  ⟨h.1.symm, h.2.1.symm, fun j => (h.2.2 j).symm⟩

theorem EqButUse.shapeEq {s s' : State} (h : EqButUse s s') : ShapeEq s s' := by
  refine ⟨h.2.1, fun j => ?_⟩
  have := h.2.2 j
  cases h1 : s'.get j <;> cases h2 : s.get j <;> rw [h1, h2] at this <;> simp at this ⊢
  rename_i a b
  cases a; cases b; simp_all [Obj.shape]

theorem EqButUse.parentOf {s s' : State} (h : EqButUse s s') (y : Nat) : parentOf s' y = parentOf s y :=
  parentOf_shapeEq h.shapeEq y

theorem EqButUse.size {s s' : State} (h : EqButUse s s') (y : Nat) :
    (s'.get y).map (·.size) = (s.get y).map (·.size) := by
  have := h.2.2 y
  cases h1 : s'.get y <;> cases h2 : s.get y <;> rw [h1, h2] at this <;> simp at this ⊢
  rename_i a b
  cases a; cases b; simp_all

theorem eqButUse_modify (s : State) (i : Nat) (f : Obj → Obj)
    (hf : ∀ x : Obj, { f x with useLim := false } = { x with useLim := false }) : EqButUse s (s.modify i f) := by
  refine ⟨by simp, rfl, fun j => ?_⟩
  simp only [get_modify]
  by_cases h : i = j
  · simp only [h, if_true]; cases s.get j <;> simp [hf]
  · simp [h]

theorem eqButUse_setOof (s : State) : EqButUse s s.setOof := ⟨rfl, rfl, fun _ => rfl⟩

theorem walkSync_eqButUse (s : State) (t : Nat) (o : Obj) (op : WOp) : EqButUse s (walkSync s t o op).1 := by
  cases op with
  | none => exact .refl s
  | set => exact eqButUse_modify s t _ (fun _ => rfl)
  | clear =>
    simp only [walkSync]
    split
    · exact .refl s
    · exact eqButUse_modify s t _ (fun _ => rfl)

theorem walk_eqButUse (cfg : Cfg) (f : Nat) (s : State) (t : Nat) (op : WOp) :
    EqButUse s (walk cfg f s t op).1 := by
  induction f generalizing s t op with
  | zero => simp only [walk]; exact eqButUse_setOof s
  | succ f ih =>
    simp only [walk]
    split
    · exact .refl s
    · rename_i o ho
      split
      · exact .refl s
      · have hfold : ∀ (l : List Id) (acc : State × Nat) (op1 : WOp), EqButUse acc.1
            (l.foldl (fun (acc : State × Nat) c =>
              ((walk cfg f acc.1 c op1).1, acc.2 + (walk cfg f acc.1 c op1).2)) acc).1 := by
          intro l
          induction l with
          | nil => intro acc op1; exact .refl _
          | cons c l ihl =>
            intro acc op1
            simp only [List.foldl_cons]
            exact EqButUse.trans (ih acc.1 c op1)
              (ihl ((walk cfg f acc.1 c op1).1, acc.2 + (walk cfg f acc.1 c op1).2) op1)
        exact EqButUse.trans (walkSync_eqButUse s t o op) (hfold _ ((walkSync s t o op).1, 0) _)

/-- what `memlimit_walk` counts for one chunk -/
def wcAt (cfg : Cfg) (s : State) (y : Nat) : Nat :=
  match s.get y with
  | some o => walkCharge cfg o.size
  | none => 0

open Classical in
/-- Σ over the subtree of `t` of what the walk counts -/
noncomputable def subSum (cfg : Cfg) (s : State) (t : Nat) : Nat :=
  ∑ y ∈ range s.heap.length, if InSub s t y then wcAt cfg s y else 0

theorem InSub.congr {s s' : State} (h : ∀ x, parentOf s' x = parentOf s x) {t y : Nat} :
    InSub s' t y ↔ InSub s t y := by
  unfold InSub; rw [Anc.congr h]

open Classical in
theorem subSum_congr {s s' : State} (h : EqButUse s s') (cfg : Cfg) (t : Nat) : subSum cfg s' t = subSum cfg s t := by
  unfold subSum
  rw [h.1]
  apply Finset.sum_congr rfl
  intro y _
  have hw : wcAt cfg s' y = wcAt cfg s y := by
    unfold wcAt
    have := h.size y
    cases h1 : s'.get y <;> cases h2 : s.get y <;> rw [h1, h2] at this <;> simp at this ⊢
    rw [this]
  have hin : InSub s' t y ↔ InSub s t y := InSub.congr h.parentOf
  rw [hw]
  by_cases hc : InSub s t y
  · rw [if_pos hc, if_pos (hin.2 hc)]
  · rw [if_neg hc, if_neg (fun h' => hc (hin.1 h'))]


theorem oof_false_of_le {a b : State} (h : FlagsLe a b) (hb : b.oof = false) : a.oof = false :=
  (flag_false_of_le h).1 hb

/-- **walk = subtree sum** -/
theorem walk_sum {rk : Nat → Nat} (cfg : Cfg) (f : Nat) :
    ∀ (s : State) (t : Nat) (op : WOp), InvT rk s →
      (∀ z zb, InSub s t z → s.get z = some zb → zb.pending = false) →
      (∃ tb, s.get t = some tb) →
      (walk cfg f s t op).1.oof = false → (walk cfg f s t op).2 = subSum cfg s t := by
  induction f with
  | zero => intro s t op _ _ _ hoof; simp [walk] at hoof
  | succ f ih =>
    intro s t op i hnp ⟨tb, ht⟩ hoof
    simp only [walk, ht] at hoof ⊢
    have htp : tb.pending = false := hnp t tb (Or.inl rfl) ht
    simp only [htp, Bool.false_eq_true, if_false] at hoof ⊢
    -- the fold over the children
    have hfold : ∀ (l : List Id) (acc : State × Nat), EqButUse s acc.1 → (∀ c ∈ l, c ∈ tb.children) →
        (l.foldl (fun (acc : State × Nat) c =>
            ((walk cfg f acc.1 c (walkSync s t tb op).2).1,
              acc.2 + (walk cfg f acc.1 c (walkSync s t tb op).2).2)) acc).1.oof = false →
        (l.foldl (fun (acc : State × Nat) c =>
            ((walk cfg f acc.1 c (walkSync s t tb op).2).1,
              acc.2 + (walk cfg f acc.1 c (walkSync s t tb op).2).2)) acc).2 =
          acc.2 + (l.map fun c => subSum cfg s c).sum := by
      intro l
      induction l with
      | nil => intro acc _ _ _; simp
      | cons c l ihl =>
        intro acc he hsub hoof'
        simp only [List.foldl_cons] at hoof' ⊢
        have hc : c ∈ tb.children := hsub c List.mem_cons_self
        obtain ⟨cb, hcb, hcp, -⟩ := i.wf.childBack t tb c ht hc
        have hanc : Anc s t c := Anc.parent (by rw [parentOf_eq hcb]; exact hcp)
        have he2 := he.trans (walk_eqButUse cfg f acc.1 c (walkSync s t tb op).2)
        -- the walk of c did not run out of fuel
        have hoofc : (walk cfg f acc.1 c (walkSync s t tb op).2).1.oof = false := by
          have hfl : ∀ (l : List Id) (a : State × Nat), FlagsLe a.1
              (l.foldl (fun (acc : State × Nat) c =>
                ((walk cfg f acc.1 c (walkSync s t tb op).2).1,
                  acc.2 + (walk cfg f acc.1 c (walkSync s t tb op).2).2)) a).1 := by
            intro l
            induction l with
            | nil => intro a; exact .refl _
            | cons d l ihl' =>
              intro a
              simp only [List.foldl_cons]
              exact (walk_flagsLe cfg f a.1 d (walkSync s t tb op).2).trans
                (ihl' ((walk cfg f a.1 d (walkSync s t tb op).2).1, a.2 + (walk cfg f a.1 d (walkSync s t tb op).2).2))
          exact oof_false_of_le (hfl l ((walk cfg f acc.1 c (walkSync s t tb op).2).1,
            acc.2 + (walk cfg f acc.1 c (walkSync s t tb op).2).2)) hoof'
        have hrec := ihl ((walk cfg f acc.1 c (walkSync s t tb op).2).1,
            acc.2 + (walk cfg f acc.1 c (walkSync s t tb op).2).2) he2
          (fun d hd => hsub d (List.mem_cons_of_mem _ hd)) hoof'
        rw [hrec]
        -- the walk of c counted its subtree
        obtain ⟨cb', hcb', -⟩ := he.get hcb
        have hnpc : ∀ z zb, InSub acc.1 c z → acc.1.get z = some zb → zb.pending = false := by
          intro z zb hz hzb
          have hz' : InSub s c z := (InSub.congr he.parentOf).1 hz
          obtain ⟨zb0, hzb0, e0⟩ := he.symm.get hzb
          have hzt : InSub s t z := by
            rcases hz' with rfl | h
            · exact Or.inr hanc
            · exact Or.inr (hanc.trans h)
          have := hnp z zb0 hzt hzb0
          rw [e0] at this; exact this
        have hw := ih acc.1 c (walkSync s t tb op).2 (⟨i.wf.shapeEq he.shapeEq, i.ranked.shapeEq he.shapeEq⟩)
          hnpc ⟨cb', hcb'⟩ hoofc
        rw [hw, subSum_congr he]
        simp only [List.map_cons, List.sum_cons]; omega
    have h0 := walkSync_eqButUse s t tb op
    have := hfold tb.children ((walkSync s t tb op).1, 0) h0 (fun c hc => hc) hoof
    rw [this]
    -- put the pieces together
    unfold subSum
    rw [sum_sub_decomp i t tb ht hnp (wcAt cfg s)]
    have : wcAt cfg s t = walkCharge cfg tb.size := by simp [wcAt, ht]
    rw [this]; simp only [Nat.zero_add]; omega

end Usual.C01
