import UsualProofs.C01.Step
/-! An operation that reports failure changes nothing (up to the destructor scripts, which count
refusals, the memlimit counters, which C19 treats exactly, and the log). -/
set_option linter.unusedSimpArgs false
set_option linter.unusedVariables false
namespace Usual.C01

/-- same heap up to destructor scripts / memlimit counters, same null context -/
def AbsEq (s s' : State) : Prop :=
  s'.heap.length = s.heap.length ∧ s'.nullCtx = s.nullCtx ∧
  ∀ j : Nat, (s'.get j).map absObj = (s.get j).map absObj

theorem AbsEq.refl (s : State) : AbsEq s s := ⟨rfl, rfl, fun _ => rfl⟩
theorem AbsEq.trans {a b c : State} (h1 : AbsEq a b) (h2 : AbsEq b c) : AbsEq a c :=
  ⟨h2.1.trans h1.1, h2.2.1.trans h1.2.1, fun j => (h2.2.2 j).trans (h1.2.2 j)⟩

theorem absEq_modify (s : State) (i : Nat) (f : Obj → Obj) (hf : ∀ x : Obj, absObj (f x) = absObj x) :
    AbsEq s (s.modify i f) := by
  refine ⟨by simp, rfl, fun j => ?_⟩
  simp only [get_modify]
  by_cases h : i = j
  · simp only [h, if_true]; cases s.get j <;> simp [hf]
  · simp [h]

theorem absEq_addLog (s : State) (e : Event) : AbsEq s (s.addLog e) := ⟨rfl, rfl, fun _ => rfl⟩
theorem absEq_setOof (s : State) : AbsEq s s.setOof := ⟨rfl, rfl, fun _ => rfl⟩

theorem applyLim_absEq (cfg : Cfg) (f : Nat) (s : State) (t : Option Id) (d : Int) (force : Bool) (s' : State)
    (h : applyLim cfg f s t d force = some s') : AbsEq s s' := by
  induction f generalizing s t s' with
  | zero => simp only [applyLim] at h; cases h; exact absEq_setOof s
  | succ f ih =>
    simp only [applyLim] at h
    split at h
    · cases h; exact .refl s
    · split at h
      · cases h; exact .refl s
      · split at h
        · cases h; exact .refl s
        · split at h
          · exact ih _ _ _ h
          · split at h
            · split at h
              · exact ih _ _ _ h
              · cases h; exact .refl s
            · split at h
              · cases h; exact .refl s
              · split at h
                · cases h
                · split at h
                  · cases h
                  · cases h
                    rename_i s'' hs''
                    exact (ih _ _ _ hs'').trans (absEq_modify _ _ _ (fun _ => rfl))

theorem applyLim_getD_absEq (cfg : Cfg) (f : Nat) (s : State) (t : Option Id) (d : Int) (force : Bool) :
    AbsEq s ((applyLim cfg f s t d force).getD s) := by
  cases h : applyLim cfg f s t d force with
  | none => exact .refl s
  | some s' => exact applyLim_absEq cfg f s t d force s' h

theorem freeEnd_rc (cfg : Cfg) (s : State) (o : Nat) : (freeEnd cfg s o).2 = 0 := by
  unfold freeEnd; split <;> rfl

/-- in `_talloc_unlink`'s promotion branch the TRef chunk is always released: the call answers 0 -/
theorem promote_rc_zero (cfg : Cfg) (f : Nat) (s : State) (w : WFp s) (o : Nat) (ob : Obj) (r : Nat)
    (rest : List Id) (tparent : Option Id) (rb : Obj) (hob : s.get o = some ob) (hrefs : ob.refs = r :: rest)
    (hrb : s.get r = some rb) (hq : rb.parent ≠ some o) (hself : ob.parent ≠ some o) :
    (run cfg (f + 1) (promoteMove cfg s o ob rb rest tparent) (.free r)).2 = 0 := by
  obtain ⟨rb0, hr0, hrk⟩ := w.refLive o ob r hob (by rw [hrefs]; simp)
  rw [hrb] at hr0; cases hr0
  have hrnp : rb.kind ≠ .plain := by rw [hrk]; simp
  obtain ⟨lc, lr, ld, lp⟩ := w.leaf r rb hrb hrnp
  have hxk : ob.kind = .plain := by
    cases hk : ob.kind with
    | plain => rfl
    | _ => have := (w.leaf o ob hob (by rw [hk]; simp)).2.1; rw [hrefs] at this; cases this
  have hxr : o ≠ r := by intro e; subst e; rw [hob] at hrb; cases hrb; exact hrnp hxk
  have hps := promoteMove_shapeEq cfg s o ob rb rest tparent hxk
  have h1 : rb.parent ≠ some r := by
    intro e
    obtain ⟨po, hpo, hpk, -⟩ := w.parentLive r rb r hrb e
    rw [hrb] at hpo; cases hpo; exact hrnp hpk
  have hPr : (promoteS s o rb.parent rest).get r = some rb := by
    rw [promoteS_get hob rb.parent rest hq hself]
    have h2 : ob.parent ≠ some r := by
      intro e
      obtain ⟨po, hpo, hpk, -⟩ := w.parentLive o ob r hob e
      rw [hrb] at hpo; cases hpo; exact hrnp hpk
    simp [Ne.symm hxr, hrb, h1, h2]
  obtain ⟨rb', hr', e1, e2, e3, e4, e5, e6⟩ := hps.get hPr
  have ht : ∀ t, rb'.kind = .ref t → t ≠ r := by
    intro t hkk; rw [e4, hrk] at hkk; cases hkk; exact hxr
  have hpr : rb'.parent ≠ some r := by rw [e1]; exact h1
  exact (run_free_leaf cfg f _ r rb' hr' (e4 ▸ hrnp) (e2 ▸ lc) (e3 ▸ lr) (e5 ▸ lp) (e6 ▸ ld) ht hpr).1

/-- `_talloc_free` / `_talloc_unlink` returning -1 changed nothing -/
theorem run_fail_absEq (cfg : Cfg) (rk : Nat → Nat) (f : Nat) (s : State) (w : WFp s) (wr : Ranked rk s)
    (c : Call) (hc : ∀ o fn cur, c ≠ .loop o fn cur) (h : (run cfg f s c).2 = -1) :
    AbsEq s (run cfg f s c).1 := by
  induction f generalizing c with
  | zero => simp [run] at h
  | succ f ih =>
    cases c with
    | loop o fn cur => exact absurd rfl (hc o fn cur)
    | free o =>
      cases hob : s.get o with
      | none => simp only [run, hob]; exact .refl s
      | some ob =>
        by_cases hrefs : ob.refs = []
        · by_cases hp : ob.pending = true
          · simp [run, hob, hrefs, hp] at h
          · have hp' : ob.pending = false := by simpa using hp
            cases hds : dtorStep ob.dtor with
            | mk acc rest =>
              obtain ⟨d', logged⟩ := rest
              cases acc with
              | false =>
                simp only [run, hob, hrefs, hp', hds, ne_eq, not_true_eq_false, if_false, Bool.false_eq_true]
                exact (absEq_modify s o (fun x => { x with dtor := d' }) (fun _ => rfl)).trans (absEq_addLog _ _)
              | true =>
                simp only [run, hob, hrefs, hp', hds, ne_eq, not_true_eq_false, if_false,
                  Bool.false_eq_true] at h
                rw [freeEnd_rc] at h; cases h
        · simp only [run, hob, hrefs, ne_eq, not_false_eq_true, if_true] at h ⊢
          split
          · exact .refl s
          · rename_i hn1
            simp only [hn1, if_false] at h
            split
            · rename_i hall
              simp only [hall, if_true] at h
              split
              · rename_i r hr
                simp only [hr] at h
                exact ih (.free r) (by intro o fn cur e; cases e) h
              · exact .refl s
            · exact .refl s
    | unlink ctx o =>
      cases hob : s.get o with
      | none => simp only [run, hob]; exact .refl s
      | some ob =>
        by_cases hnp : ob.parent = orNull s ctx
        · cases hrefs : ob.refs with
          | nil =>
            simp only [run, hob, hnp, hrefs, ne_eq, not_true_eq_false, if_false] at h ⊢
            exact ih (.free o) (by intro o fn cur e; cases e) h
          | cons r rest =>
            simp only [run, hob, hnp, hrefs, ne_eq, not_true_eq_false, if_false] at h ⊢
            cases hrb : s.get r with
            | none => simp only [hrb]; exact .refl s
            | some rb =>
              exfalso
              simp only [hrb] at h
              obtain ⟨rb0, hr0, hrk⟩ := w.refLive o ob r hob (by rw [hrefs]; simp)
              rw [hrb] at hr0; cases hr0
              have hq : rb.parent ≠ some o := by
                intro e; have := wr.refLt r rb o o hrb hrk e; omega
              have hself : ob.parent ≠ some o := by
                intro e; have := wr.parentLt o ob o hob e; omega
              cases f with
              | zero => simp [run] at h
              | succ f =>
                rw [← hnp] at h
                rw [promote_rc_zero cfg f s w o ob r rest ob.parent rb hob hrefs hrb hq hself] at h
                cases h
        · simp only [run, hob, ne_eq, hnp, not_false_eq_true, if_true] at h ⊢
          split
          · rename_i r hr
            simp only [hr] at h
            exact ih (.free r) (by intro o fn cur e; cases e) h
          · exact .refl s


theorem hdrAlloc_fail_absEq (cfg : Cfg) (s : State) (cx : Nat) (parent : Option Id) (len : Nat) (prepend : Bool)
    (kind : Kind) (fail : Bool) (h : (hdrAlloc cfg s cx parent len prepend kind fail).2 = false) :
    AbsEq s (hdrAlloc cfg s cx parent len prepend kind fail).1 := by
  unfold hdrAlloc at h ⊢
  by_cases hlen : len > MAXLEN
  · simp only [hlen, if_true]; exact .refl s
  · simp only [hlen, if_false] at h ⊢
    cases hs1 : applyLim cfg s.fuel s (orNull s parent) (totalSize len : Int) false with
    | none => simp only [hs1]; exact .refl s
    | some s1 =>
      simp only [hs1] at h ⊢
      have h1 := applyLim_absEq _ _ _ _ _ _ _ hs1
      cases fail with
      | true => simp only [if_true]; exact h1.trans (applyLim_getD_absEq _ _ _ _ _ _)
      | false => simp at h

theorem hdrAlloc_rc_absEq (cfg : Cfg) (s : State) (cx : Nat) (parent : Option Id) (len : Nat) (prepend : Bool)
    (kind : Kind) (fail : Bool)
    (h : (if (hdrAlloc cfg s cx parent len prepend kind fail).2 = true then (0 : Int) else -1) = -1) :
    AbsEq s (hdrAlloc cfg s cx parent len prepend kind fail).1 := by
  cases hok : (hdrAlloc cfg s cx parent len prepend kind fail).2 with
  | false => exact hdrAlloc_fail_absEq _ _ _ _ _ _ _ _ hok
  | true => simp [hok] at h

theorem reparent_fail_eq (cfg : Cfg) (s : State) (oldp newp : Option Id) (o : Nat)
    (h : (reparent cfg s oldp newp o).2 = false) : (reparent cfg s oldp newp o).1 = s := by
  unfold reparent at h ⊢
  cases hob : s.get o with
  | none => rfl
  | some ob =>
    simp only [hob] at h ⊢
    by_cases hc : (decide (orNull s newp = some o) || decide (orNull s newp = orNull s oldp)) = true
    · simp only [hc, if_true]
    · simp only [hc, if_false, Bool.false_eq_true] at h ⊢
      cases ht : (if orNull s oldp ≠ ob.parent then findRefByParent s (orNull s oldp) ob.refs else some o) with
      | none => simp only [ht]
      | some t =>
        simp only [ht] at h ⊢
        cases htb : s.get t with
        | none => simp only [htb]
        | some tb =>
          simp only [htb] at h ⊢
          by_cases hcx : tb.cx ≠ cxOf s (orNull s newp)
          · rw [if_pos hcx]
          · rw [if_neg hcx] at h; simp at h

/-- **failed_op_unchanged** at the level of states: an operation answering -1 / NULL leaves the
heap as it was (up to destructor scripts, memlimit counters and the log) -/
theorem step_fail_absEq (cfg : Cfg) (rk : Nat → Nat) (s : State) (w : WFp s) (wr : Ranked rk s) (op : Op)
    (h : (step cfg s op).2 = -1) : AbsEq s (step cfg s op).1 := by
  cases op with
  | alloc p sz fc fl =>
    simp only [step] at h ⊢
    exact hdrAlloc_rc_absEq _ _ _ _ _ _ _ _ h
  | free o => exact run_fail_absEq cfg rk _ s w wr _ (by intro o fn cur e; cases e) h
  | freeChildren o => simp [step] at h
  | reference ctx o fl =>
    simp only [step] at h ⊢
    split
    · exact .refl s
    · cases hok : (hdrAlloc cfg s (cxOf s ctx) ctx REFSIZE true (.ref o) fl).2 with
      | false => simp only [hok, Bool.false_eq_true, if_false]; exact hdrAlloc_fail_absEq _ _ _ _ _ _ _ _ hok
      | true =>
        rename_i ob hob
        simp [hob, hok] at h
  | unlink ctx o => exact run_fail_absEq cfg rk _ s w wr _ (by intro o fn cur e; cases e) h
  | steal np o =>
    simp only [step] at h ⊢
    split
    · exact .refl s
    · rename_i ob hob
      split
      · exact .refl s
      · rename_i hrefs
        simp only [hob, hrefs, if_false] at h
        cases hok : (reparent cfg s ob.parent np o).2 with
        | false => rw [reparent_fail_eq _ _ _ _ _ hok]; exact .refl s
        | true => simp [hok] at h
  | reparent op' np o =>
    simp only [step] at h ⊢
    cases hok : (reparent cfg s op' np o).2 with
    | false => rw [reparent_fail_eq _ _ _ _ _ hok]; exact .refl s
    | true => simp [hok] at h
  | realloc p o sz fl =>
    simp only [step] at h ⊢
    split
    · exact .refl s
    · rename_i hsz
      simp only [hsz, if_false] at h
      split
      · rename_i hz; simp [hz] at h
      · rename_i hz
        simp only [hz, if_false] at h
        split
        · exact .refl s
        · rename_i ob hob
          simp only [hob] at h
          split
          · exact .refl s
          · rename_i hrefs
            simp only [hrefs, if_false] at h
            split
            · rename_i heq; simp [heq] at h
            · rename_i hne
              simp only [hne, if_false] at h
              split
              · exact .refl s
              · rename_i s1 hs1
                have h1 := applyLim_absEq _ _ _ _ _ _ _ hs1
                split
                · exact h1.trans (applyLim_getD_absEq _ _ _ _ _ _)
                · rename_i hfl
                  simp [hs1, hfl] at h
  | setDtor o d =>
    simp only [step] at h ⊢
    split
    · exact .refl s
    · rename_i ob hob; simp [hob] at h
  | setLimit o mx fl =>
    simp only [step, setLimit] at h ⊢
    split
    · exact .refl s
    · rename_i ob hob
      simp only [hob] at h
      split
      · rename_i hz
        simp only [hz, if_true] at h
        split at h <;> simp at h
      · rename_i hz
        simp only [hz, if_false] at h
        split
        · rename_i l hl; simp [hl] at h
        · rename_i hl
          simp only [hl] at h
          cases hok : (hdrAlloc cfg s ob.cx (some o) LIMSIZE true .limit fl).2 with
          | false =>
            simp only [Bool.false_eq_true, if_false]
            exact hdrAlloc_fail_absEq _ _ _ _ _ _ _ _ hok
          | true => simp [hok] at h
  | nullOn fl =>
    simp only [step] at h
    split at h
    · simp at h
    · split at h <;> simp at h
  | nullOff =>
    simp only [step] at h
    split at h <;> simp at h


theorem absState_eq_of_absEq {s s' : State} (h : AbsEq s s') : absState s' = absState s := by
  unfold absState
  rw [h.2.1]
  congr 1
  apply List.ext_getElem?
  intro j
  have := h.2.2 j
  unfold State.get at this
  simp only [List.getElem?_map]
  cases h1 : s'.heap[j]? with
  | none =>
    have hj : s'.heap.length ≤ j := List.getElem?_eq_none_iff.1 h1
    rw [List.getElem?_eq_none (by rw [← h.1]; exact hj)]
  | some a =>
    have hj : j < s'.heap.length := by
      apply Decidable.byContradiction; intro hn
      rw [List.getElem?_eq_none (by omega)] at h1; cases h1
    obtain ⟨b, h2⟩ : ∃ b, s.heap[j]? = some b := by
      rw [h.1] at hj
      exact ⟨s.heap[j], List.getElem?_eq_getElem hj⟩
    rw [h1, h2] at this
    rw [h2]
    simp only [Option.map_some, Option.some.injEq]
    cases a <;> cases b <;> simp [Option.join] at this ⊢ <;> exact this

end Usual.C01
