import UsualProofs.C01.Cap
/-! Operation-level consequences of the admission rule. -/
set_option linter.unusedSimpArgs false
set_option linter.unusedVariables false
namespace Usual.C01

theorem fuel_eq_of_length {s s' : State} (h : s'.heap.length = s.heap.length) : s'.fuel = s.fuel := by
  simp [State.fuel, h]

/-- a request that does not fit is answered NULL and the state is *identical* -/
theorem alloc_refused_unchanged (cfg : Cfg) (s : State) (parent : Option Id) (n : Nat) (fromCx fail : Bool)
    (h : admits cfg s parent n = false) :
    step cfg s (.alloc parent n fromCx fail) = (s, -1) := by
  simp only [step]
  unfold admits hdrAlloc at h
  unfold hdrAlloc
  by_cases hlen : n > MAXLEN
  · simp [hlen]
  · simp only [hlen, if_false] at h ⊢
    cases ha : applyLim cfg s.fuel s (orNull s parent) (totalSize n : Int) false with
    | none => simp
    | some s1 => simp [ha] at h

/-- a request that fits but meets an allocator failure is answered NULL and every object,
including every memlimit counter, is as before -/
theorem alloc_failure_unchanged {rk : Nat → Nat} (cfg : Cfg) (s : State) (w : WF s) (wr : Ranked rk s)
    (parent : Option Id) (n : Nat) (fromCx : Bool) :
    (step cfg s (.alloc parent n fromCx true)).2 = -1 ∧
    (step cfg s (.alloc parent n fromCx true)).1.nullCtx = s.nullCtx ∧
    ∀ j : Nat, (step cfg s (.alloc parent n fromCx true)).1.get j = s.get j := by
  have i : InvT rk s := ⟨w.toWFp.tree, wr⟩
  simp only [step]
  unfold hdrAlloc
  by_cases hlen : n > MAXLEN
  · simp [hlen]
  · simp only [hlen, if_false]
    cases ha : applyLim cfg s.fuel s (orNull s parent) (totalSize n : Int) false with
    | none => simp
    | some s1 =>
      simp only [if_true]
      have hl := applyLim_length _ _ _ _ _ _ _ ha
      have hsh := applyLim_shapeEq _ _ _ _ _ _ _ ha
      refine ⟨by simp, ?_, ?_⟩
      · have h2 := applyLim_getD_shapeEq cfg s1.fuel s1 (orNull s parent) (-(totalSize n : Int)) false
        rw [h2.1, hsh.1]
      · intro j
        rw [fuel_eq_of_length hl]
        exact applyLim_rollback i cfg s.fuel s.fuel (orNull s parent) (totalSize n) (by omega) false s1 ha rfl j

end Usual.C01
