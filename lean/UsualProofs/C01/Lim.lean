import UsualProofs.C01.Steps2
/-! The memlimit bookkeeping (`apply_memlimit`, `memlimit_walk`, `move_memlimit`) never touches
the structure (parent, children, refs, kind, pending, destructor). -/
set_option linter.unusedSimpArgs false
set_option linter.unusedVariables false
namespace Usual.C01

theorem shapeEq_modify_self (s : State) (i : Nat) (f : Obj → Obj) (hf : ∀ x : Obj, (f x).shape = x.shape) :
    ShapeEq s (s.modify i f) := by
  refine ⟨rfl, fun j => ?_⟩
  simp only [get_modify]
  by_cases h : i = j
  · simp only [h, if_true]; cases s.get j <;> simp [hf]
  · simp [h]

theorem applyLim_shapeEq (cfg : Cfg) (f : Nat) (s : State) (t : Option Id) (d : Int) (force : Bool) (s' : State)
    (h : applyLim cfg f s t d force = some s') : ShapeEq s s' := by
  induction f generalizing s t s' with
  | zero => simp only [applyLim] at h; cases h; exact shapeEq_setOof s
  | succ f ih =>
    simp only [applyLim] at h
    split at h
    · cases h; exact ShapeEq.refl s
    · split at h
      · cases h; exact ShapeEq.refl s
      · split at h
        · cases h; exact ShapeEq.refl s
        · split at h
          · exact ih _ _ _ h
          · split at h
            · split at h
              · exact ih _ _ _ h
              · cases h; exact ShapeEq.refl s
            · split at h
              · cases h; exact ShapeEq.refl s
              · split at h
                · cases h
                · split at h
                  · cases h
                  · cases h
                    rename_i s'' hs''
                    exact (ih _ _ _ hs'').trans (shapeEq_modify_self _ _ _ (fun _ => rfl))

theorem applyLim_getD_shapeEq (cfg : Cfg) (f : Nat) (s : State) (t : Option Id) (d : Int) (force : Bool) :
    ShapeEq s ((applyLim cfg f s t d force).getD s) := by
  cases h : applyLim cfg f s t d force with
  | none => exact ShapeEq.refl s
  | some s' => exact applyLim_shapeEq cfg f s t d force s' h


theorem walkSync_shapeEq (s : State) (t : Nat) (o : Obj) (op : WOp) : ShapeEq s (walkSync s t o op).1 := by
  cases op with
  | none => exact ShapeEq.refl s
  | set => exact shapeEq_modify_self s t _ (fun _ => rfl)
  | clear =>
    simp only [walkSync]
    split
    · exact ShapeEq.refl s
    · exact shapeEq_modify_self s t _ (fun _ => rfl)

theorem walk_shapeEq (cfg : Cfg) (f : Nat) (s : State) (t : Nat) (op : WOp) :
    ShapeEq s (walk cfg f s t op).1 := by
  induction f generalizing s t op with
  | zero => simp only [walk]; exact shapeEq_setOof s
  | succ f ih =>
    simp only [walk]
    split
    · exact ShapeEq.refl s
    · rename_i o ho
      split
      · exact ShapeEq.refl s
      · -- the fold over the children
        have hfold : ∀ (l : List Id) (acc : State × Nat) (op1 : WOp), ShapeEq acc.1
            (l.foldl (fun (acc : State × Nat) c =>
              let r := walk cfg f acc.1 c op1
              (r.1, acc.2 + r.2)) acc).1 := by
          intro l
          induction l with
          | nil => intro acc op1; exact ShapeEq.refl _
          | cons c l ihl =>
            intro acc op1
            simp only [List.foldl_cons]
            exact (ih acc.1 c op1).trans (ihl _ op1)
        exact (walkSync_shapeEq s t o op).trans (hfold _ _ _)

theorem moveApply_shapeEq (cfg : Cfg) (fuel : Nat) (s1 : State) (t : Nat) (newp oldp : Option Id)
    (oldlim newlim : Bool) (delta : Nat) : ShapeEq s1 (moveApply cfg fuel s1 t newp oldp oldlim newlim delta) := by
  unfold moveApply
  simp only []
  have h2 : ShapeEq s1 (if oldlim = true then (applyLim cfg fuel s1 oldp (-(delta : Int)) true).getD s1 else s1) := by
    split
    · exact applyLim_getD_shapeEq _ _ _ _ _ _
    · exact ShapeEq.refl _
  generalize (if oldlim = true then (applyLim cfg fuel s1 oldp (-(delta : Int)) true).getD s1 else s1) = s2 at h2 ⊢
  split
  · exact (h2.trans (applyLim_getD_shapeEq _ _ _ _ _ _)).trans (shapeEq_modify_self _ _ _ (fun _ => rfl))
  · split
    · split
      · exact h2.trans (shapeEq_modify_self _ _ _ (fun _ => rfl))
      · exact h2
    · exact h2

theorem moveMemlimit_shapeEq (cfg : Cfg) (s : State) (t : Nat) (newp oldp : Option Id) :
    ShapeEq s (moveMemlimit cfg s t newp oldp) := by
  unfold moveMemlimit
  simp only []
  split
  · exact ShapeEq.refl s
  · exact (walk_shapeEq cfg s.fuel s t _).trans (moveApply_shapeEq _ _ _ _ _ _ _ _ _)

end Usual.C01
