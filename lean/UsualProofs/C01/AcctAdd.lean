import UsualProofs.C01.Acct
/-! The accounting invariant is kept when a chunk is allocated (`hdr_alloc_cx`). -/
set_option linter.unusedSimpArgs false
set_option linter.unusedVariables false
namespace Usual.C01
open Finset

/-- the counter of a limit chunk after `apply_memlimit(p, d, _)` with `d ≥ 0` -/
theorem applyLim_lcur {rk : Nat → Nat} {s : State} (i : InvT rk s) (cfg : Cfg) (f : Nat) (t : Option Id)
    (d : Nat) (force : Bool) (s' : State) (h : applyLim cfg f s t (d : Int) force = some s')
    (l : Nat) (lb : Obj) (hl : s.get l = some lb) :
    ∃ lb', s'.get l = some lb' ∧ lb'.kind = lb.kind ∧ lb'.parent = lb.parent ∧ lb'.size = lb.size ∧
      lb'.useLim = lb.useLim ∧ lb'.hasLim = lb.hasLim ∧
      lb'.lcur = if l ∈ limitsAbove cfg f s t then lb.lcur + d else lb.lcur := by
  obtain ⟨h1, h2⟩ := applyLim_char i cfg f t d force s' h l
  by_cases hm : l ∈ limitsAbove cfg f s t
  · refine ⟨{ lb with lcur := ((lb.lcur : Int) + (d : Int)).toNat }, by rw [h1 hm, hl]; rfl,
      rfl, rfl, rfl, rfl, rfl, ?_⟩
    simp only [hm, if_true]; omega
  · exact ⟨lb, by rw [h2 hm, hl], rfl, rfl, rfl, rfl, rfl, by simp [hm]⟩

theorem chargeAt_eq {s s' : State} {x : Nat} (h : (s'.get x).map (·.size) = (s.get x).map (·.size)) :
    chargeAt s' x = chargeAt s x := by
  unfold chargeAt
  cases h1 : s'.get x <;> cases h2 : s.get x <;> rw [h1, h2] at h <;> simp at h ⊢
  rw [h]


/-- ancestors of an old chunk after a new leaf was added -/
theorem anc_allocS_old {s1 : State} (w : WFt s1) (p' : Option Id) (front : Bool) (nb : Obj)
    (hpl : ∀ p, p' = some p → p < s1.heap.length) (a x : Nat) (hx : x < s1.heap.length) :
    Anc (allocS s1 p' front nb) a x ↔ Anc s1 a x := by
  have hg := allocS_get s1 p' front nb hpl
  have hpo : ∀ y, y < s1.heap.length → parentOf (allocS s1 p' front nb) y = parentOf s1 y := by
    intro y hy
    have hne : y ≠ s1.heap.length := Nat.ne_of_lt hy
    unfold parentOf; rw [hg]; simp only [hne, if_false]
    split <;> cases s1.get y <;> simp
  have hlt : ∀ y p, parentOf s1 y = some p → p < s1.heap.length := by
    intro y p hp
    obtain ⟨yb, hy, hpp⟩ := parentOf_some hp
    obtain ⟨pb, hpb, -⟩ := w.parentLive y yb p hy hpp
    exact lt_of_get s1 p pb hpb
  constructor
  · intro h
    induction h with
    | @parent y p hp =>
      rw [hpo y hx] at hp; exact Anc.parent hp
    | @up y p a hp _ ih =>
      rw [hpo y hx] at hp
      exact Anc.up hp (ih (hlt y p hp))
  · intro h
    induction h with
    | @parent y p hp => exact Anc.parent (by rw [hpo y hx]; exact hp)
    | @up y p a hp _ ih => exact Anc.up (by rw [hpo y hx]; exact hp) (ih (hlt y p hp))

/-- ancestors of the new leaf: its parent and the parent's ancestors -/
theorem anc_allocS_new {s1 : State} (w : WFt s1) (p' : Option Id) (front : Bool) (nb : Obj)
    (hnp : nb.parent = p') (hpl : ∀ p, p' = some p → p < s1.heap.length) (a : Nat) :
    Anc (allocS s1 p' front nb) a s1.heap.length ↔ ∃ p, p' = some p ∧ (a = p ∨ Anc s1 a p) := by
  have hg := allocS_get s1 p' front nb hpl
  have hpn : parentOf (allocS s1 p' front nb) s1.heap.length = p' := by
    unfold parentOf; rw [hg]; simp [hnp]
  constructor
  · intro h
    obtain ⟨p, hp, hor⟩ := h.cases_parent
    rw [hpn] at hp
    refine ⟨p, hp, ?_⟩
    rcases hor with rfl | hor
    · exact Or.inl rfl
    · exact Or.inr ((anc_allocS_old w p' front nb hpl a p (hpl p hp)).1 hor)
  · rintro ⟨p, hp, hor⟩
    rcases hor with rfl | hor
    · exact Anc.parent (by rw [hpn]; exact hp)
    · exact Anc.up (by rw [hpn]; exact hp) ((anc_allocS_old w p' front nb hpl a p (hpl p hp)).2 hor)

open Classical in
/-- **accounting, allocation**: after `apply_memlimit(parent, +charge)` and linking the new chunk,
every (old) limit chunk records the charge beneath its context again -/
theorem acct_add_leaf {rk : Nat → Nat} {s : State} (i : InvT rk s) (fl : FlagsInv s) (ac : AcctInv s) (cfg : Cfg)
    (hfix : cfg.fixGone = true) (p' : Option Id)
    (hpar : ∀ p, p' = some p → ∃ pb, s.get p = some pb ∧ pb.kind = .plain)
    (n : Nat) (s1 : State) (ha : applyLim cfg s.fuel s p' (totalSize n : Int) false = some s1)
    (hoof : s1.oof = false) (front : Bool) (nb : Obj) (hnp : nb.parent = p') (hns : nb.size = n) :
    ∀ (l : Nat) lb2 ctx, (allocS s1 p' front nb).get l = some lb2 → lb2.kind = .limit →
      lb2.parent = some ctx → l ≠ s1.heap.length → lb2.lcur = chargeUnder (allocS s1 p' front nb) ctx l := by
  intro l lb2 ctx hl2 hk2 hp2 hne
  have hsh := applyLim_shapeEq _ _ _ _ _ _ _ ha
  have hlen := applyLim_length _ _ _ _ _ _ _ ha
  have i1 : InvT rk s1 := i.shapeEq hsh
  have hpl : ∀ p, p' = some p → p < s1.heap.length := by
    intro p hp; obtain ⟨pb, hpb, -⟩ := hpar p hp; rw [hlen]; exact lt_of_get s p pb hpb
  have hg := allocS_get s1 p' front nb hpl
  -- the chunk in s1 and in s
  have hl1 : ∃ lb1, s1.get l = some lb1 ∧ lb1.kind = .limit ∧ lb1.parent = some ctx ∧ lb1.lcur = lb2.lcur := by
    rw [hg] at hl2; simp only [hne, if_false] at hl2
    split at hl2
    · obtain ⟨o0, h0, rfl⟩ := Option.map_eq_some_iff.1 hl2; exact ⟨o0, h0, hk2, hp2, rfl⟩
    · exact ⟨lb2, hl2, hk2, hp2, rfl⟩
  obtain ⟨lb1, hl1, hk1, hp1, hc1⟩ := hl1
  obtain ⟨lb, hl, e1, -, -, e4, -, -⟩ := hsh.symm.get hl1
  have hk : lb.kind = .limit := by rw [e4]; exact hk1
  have hp : lb.parent = some ctx := by rw [e1]; exact hp1
  obtain ⟨lb1', hl1', -, -, -, -, -, hcur⟩ := applyLim_lcur i cfg s.fuel p' (totalSize n) false s1 ha l lb hl
  rw [hl1] at hl1'; cases hl1'
  rw [← hc1, hcur, ac l lb ctx hl hk hp]
  -- the sums
  unfold chargeUnder
  have hlen2 : (allocS s1 p' front nb).heap.length = s.heap.length + 1 := by
    unfold allocS addChild; split <;> simp [hlen]
  rw [hlen2, Finset.sum_range_succ]
  have hold : ∀ x ∈ range s.heap.length,
      (if x ≠ l ∧ Anc (allocS s1 p' front nb) ctx x then chargeAt (allocS s1 p' front nb) x else 0) =
      (if x ≠ l ∧ Anc s ctx x then chargeAt s x else 0) := by
    intro x hx
    have hx' : x < s1.heap.length := by rw [hlen]; exact Finset.mem_range.1 hx
    have hxne : x ≠ s1.heap.length := Nat.ne_of_lt hx'
    have hca : chargeAt (allocS s1 p' front nb) x = chargeAt s x := by
      apply chargeAt_eq
      rw [hg]; simp only [hxne, if_false]
      have := hsh.2 x
      have hsz : (s1.get x).map (·.size) = (s.get x).map (·.size) := by
        obtain ⟨h1, h2⟩ := applyLim_char i cfg s.fuel p' (totalSize n) false s1 ha x
        by_cases hm : x ∈ limitsAbove cfg s.fuel s p'
        · rw [h1 hm]; cases s.get x <;> simp
        · rw [h2 hm]
      split
      · rw [← hsz]; cases s1.get x <;> simp
      · exact hsz
    have han : Anc (allocS s1 p' front nb) ctx x ↔ Anc s ctx x := by
      rw [anc_allocS_old i1.wf p' front nb hpl ctx x hx']
      apply Anc.congr
      intro y; unfold parentOf
      have := hsh.2 y
      cases h1 : s1.get y <;> cases h2 : s.get y <;> rw [h1, h2] at this <;> simp [Obj.shape] at this ⊢
      exact this.1
    rw [hca]
    by_cases hc : x ≠ l ∧ Anc s ctx x
    · rw [if_pos hc, if_pos ⟨hc.1, han.2 hc.2⟩]
    · rw [if_neg hc, if_neg (fun h => hc ⟨h.1, han.1 h.2⟩)]
  rw [Finset.sum_congr rfl hold]
  -- the new chunk
  have hnew : chargeAt (allocS s1 p' front nb) s.heap.length = totalSize n := by
    unfold chargeAt; rw [hg, ← hlen]; simp [hns]
  have hanew : Anc (allocS s1 p' front nb) ctx s.heap.length ↔ l ∈ limitsAbove cfg s.fuel s p' := by
    rw [← hlen, anc_allocS_new i1.wf p' front nb hnp hpl ctx]
    constructor
    · rintro ⟨p, hpp, hor⟩
      subst hpp
      obtain ⟨pb, hpb, hpk⟩ := hpar p rfl
      have hor' : ctx = p ∨ Anc s ctx p := by
        rcases hor with h | h
        · exact Or.inl h
        · right
          refine (Anc.congr ?_).1 h
          intro y; unfold parentOf
          have := hsh.2 y
          cases h1 : s1.get y <;> cases h2 : s.get y <;> rw [h1, h2] at this <;> simp [Obj.shape] at this ⊢
          exact this.1
      exact limitsAbove_of_anc i fl cfg hfix s.fuel p pb hpb hpk
        (applyLim_climbOK cfg s.fuel s (some p) _ false s1 ha hoof) l lb ctx hl hk hp hor'
    · intro hm
      cases hp'' : p' with
      | none => rw [hp''] at hm; unfold State.fuel at hm; simp [limitsAbove] at hm
      | some p =>
        rw [hp''] at hm
        obtain ⟨lb0, q, a1, a2, a3, a4⟩ := limitsAbove_anc i cfg s.fuel p l hm
        rw [hl] at a1; cases a1
        rw [hp] at a3; cases a3
        refine ⟨p, rfl, ?_⟩
        rcases a4 with h | h
        · exact Or.inl h
        · right
          refine (Anc.congr ?_).2 h
          intro y; unfold parentOf
          have := hsh.2 y
          cases h1 : s1.get y <;> cases h2 : s.get y <;> rw [h1, h2] at this <;> simp [Obj.shape] at this ⊢
          exact this.1
  have hlne : s.heap.length ≠ l := by rw [← hlen]; exact Ne.symm hne
  rw [hnew]
  by_cases hm : l ∈ limitsAbove cfg s.fuel s p'
  · rw [if_pos hm, if_pos ⟨hlne, hanew.2 hm⟩]
  · rw [if_neg hm, if_neg (fun h => hm (hanew.1 h.2))]; simp

end Usual.C01
