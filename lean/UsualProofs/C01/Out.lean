import UsualProofs.C01.RunGood
import UsualProofs.C01.AncMove
import UsualProofs.C01.LogInv
/-! What `_talloc_free` / `_talloc_unlink` / `free_children` leave alone: objects outside the subtree
being freed (TRef chunks aside) stay live with the same parent; their child lists keep every such
object, and the child list of an object that is itself being freed only shrinks. -/
set_option linter.unusedSimpArgs false
set_option linter.unusedVariables false
namespace Usual.C01

def isRefAt (s : State) (z : Nat) : Prop := ∃ zb t, s.get z = some zb ∧ zb.kind = .ref t

/-- no child is a TRef chunk -/
def NoRefKid (s : State) (yb : Obj) : Prop := ∀ z ∈ yb.children, ¬ isRefAt s z

structure Keeps (U : Nat → Prop) (s s' : State) : Prop where
  kind : ∀ (z : Nat) zb', s'.get z = some zb' → ∃ zb, s.get z = some zb ∧ zb.kind = zb'.kind
  keep : ∀ (y : Nat) yb, U y → s.get y = some yb → ∃ yb', s'.get y = some yb' ∧ yb'.parent = yb.parent ∧
    yb'.pending = yb.pending ∧ (∀ z ∈ yb.children, U z → z ∈ yb'.children) ∧
    (yb.pending = true → NoRefKid s yb → List.Sublist yb'.children yb.children)
  /-- TRef / `.memlimit` chunks never change their parent -/
  refPar : ∀ (z : Nat) zb' zb, s'.get z = some zb' → s.get z = some zb → zb.kind ≠ .plain → zb'.parent = zb.parent
  /-- child lists keep their order: some children go, new ones are appended -/
  order : ∀ (y : Nat) yb yb', U y → s.get y = some yb → s'.get y = some yb' →
    ∃ (keepf : Id → Bool) (app : List Id), yb'.children = yb.children.filter keepf ++ app ∧
      ∀ z ∈ yb.children, U z → keepf z = true
  /-- the destructor slot of a kept object is not touched and it gains no reference -/
  fields : ∀ (y : Nat) yb yb', U y → s.get y = some yb → s'.get y = some yb' →
    yb'.dtor = yb.dtor ∧ (yb.refs = [] → yb'.refs = [])

theorem Keeps.refl (U : Nat → Prop) (s : State) : Keeps U s s := by
  refine ⟨fun z zb h => ⟨zb, h, rfl⟩,
    fun y yb _ h => ⟨yb, h, rfl, rfl, fun z hz _ => hz, fun _ _ => List.Sublist.refl _⟩, ?_, ?_, ?_⟩
  · intro z zb' zb h1 h2 _; rw [h1] at h2; cases h2; rfl
  · intro y yb yb' _ h1 h2
    rw [h1] at h2; cases h2
    exact ⟨fun _ => true, [], by simp, fun _ _ _ => rfl⟩
  · intro y yb yb' _ h1 h2
    rw [h1] at h2; cases h2; exact ⟨rfl, id⟩

theorem Keeps.mono {U U' : Nat → Prop} {s s' : State} (h : Keeps U s s') (hu : ∀ y, U' y → U y) : Keeps U' s s' := by
  refine ⟨h.kind, ?_, h.refPar, ?_, fun y yb yb' hy => h.fields y yb yb' (hu y hy)⟩
  · intro y yb hy hg
    obtain ⟨yb', h1, h2, h3, h4, h5⟩ := h.keep y yb (hu y hy) hg
    exact ⟨yb', h1, h2, h3, fun z hz hzu => h4 z hz (hu z hzu), h5⟩
  · intro y yb yb' hy h1 h2
    obtain ⟨kf, app, e, hk⟩ := h.order y yb yb' (hu y hy) h1 h2
    exact ⟨kf, app, e, fun z hz hzu => hk z hz (hu z hzu)⟩

theorem isRefAt_back {U : Nat → Prop} {s s' : State} (h : Keeps U s s') {z : Nat} (hz : isRefAt s' z) : isRefAt s z := by
  obtain ⟨zb', t, h1, h2⟩ := hz
  obtain ⟨zb, h3, h4⟩ := h.kind z zb' h1
  exact ⟨zb, t, h3, by rw [h4]; exact h2⟩

theorem Keeps.trans {U : Nat → Prop} {a b c : State} (h1 : Keeps U a b) (h2 : Keeps U b c) : Keeps U a c := by
  refine ⟨?_, ?_, ?_, ?_, ?_⟩
  · intro z zc hz
    obtain ⟨zb, h3, h4⟩ := h2.kind z zc hz
    obtain ⟨za, h5, h6⟩ := h1.kind z zb h3
    exact ⟨za, h5, h6.trans h4⟩
  · intro y ya hy hg
    obtain ⟨yb, g1, g2, g3, g4, g5⟩ := h1.keep y ya hy hg
    obtain ⟨yc, k1, k2, k3, k4, k5⟩ := h2.keep y yb hy g1
    refine ⟨yc, k1, k2.trans g2, k3.trans g3, fun z hz hzu => k4 z (g4 z hz hzu) hzu, ?_⟩
    intro hp hnr
    have s1 := g5 hp hnr
    have hnr' : NoRefKid b yb := by
      intro z hz hr
      exact hnr z (s1.subset hz) (isRefAt_back h1 hr)
    exact (k5 (by rw [g3]; exact hp) hnr').trans s1
  · intro z zc za hz hza hk
    obtain ⟨zb, h3, h4⟩ := h2.kind z zc hz
    obtain ⟨za', h5, h6⟩ := h1.kind z zb h3
    rw [hza] at h5; cases h5
    rw [h2.refPar z zc zb hz h3 (by rw [← h6]; exact hk), h1.refPar z zb za h3 hza hk]
  · intro y ya yc hy hga hgc
    obtain ⟨yb, g1, -, -, g4, -⟩ := h1.keep y ya hy hga
    obtain ⟨k1, app1, e1, hk1⟩ := h1.order y ya yb hy hga g1
    obtain ⟨k2, app2, e2, hk2⟩ := h2.order y yb yc hy g1 hgc
    refine ⟨fun z => k1 z && k2 z, app1.filter k2 ++ app2, ?_, ?_⟩
    · rw [e2, e1, List.filter_append, List.filter_filter, List.append_assoc]
      congr 1
      apply List.filter_congr
      intro z _; exact Bool.and_comm _ _
    · intro z hz hzu
      simp only [Bool.and_eq_true]
      exact ⟨hk1 z hz hzu, hk2 z (g4 z hz hzu) hzu⟩
  · intro y ya yc hy hga hgc
    obtain ⟨yb, g1, -⟩ := h1.keep y ya hy hga
    obtain ⟨d1, r1⟩ := h1.fields y ya yb hy hga g1
    obtain ⟨d2, r2⟩ := h2.fields y yb yc hy g1 hgc
    exact ⟨d2.trans d1, fun h => r2 (r1 h)⟩

theorem Keeps.of_shapeEq (U : Nat → Prop) {s s' : State} (h : ShapeEq s s') : Keeps U s s' := by
  refine ⟨?_, ?_, ?_, ?_, ?_⟩
  · intro z zb' hz
    obtain ⟨zb, h1, -, -, -, e4, -, -⟩ := h.symm.get hz
    exact ⟨zb, h1, e4⟩
  · intro y yb _ hg
    obtain ⟨yb', h1, e1, e2, -, -, e5, -⟩ := h.get hg
    exact ⟨yb', h1, e1, e5, fun z hz _ => by rw [e2]; exact hz, fun _ _ => e2 ▸ List.Sublist.refl _⟩
  · intro z zb' zb h1 h2 _
    obtain ⟨zb'', h3, e1, -⟩ := h.get h2
    rw [h1] at h3; cases h3; exact e1
  · intro y yb yb' _ h1 h2
    obtain ⟨yb'', h3, -, e2, -⟩ := h.get h1
    rw [h2] at h3; cases h3
    exact ⟨fun _ => true, [], by simp [e2], fun _ _ _ => rfl⟩
  · intro y yb yb' _ h1 h2
    obtain ⟨yb'', h3, -, -, e3, -, -, e6⟩ := h.get h1
    rw [h2] at h3; cases h3
    exact ⟨e6, fun h => by rw [e3]; exact h⟩

/-- a state whose objects are those of `s` with child lists shortened by erasing `x` (and any other
field but parent, pending, kind changed), `x` possibly gone -/
theorem keeps_of_erase {U : Nat → Prop} {s s' : State} (x : Nat) (hx : ¬ U x)
    (h : ∀ (j : Nat), j ≠ x → ∀ ob, s.get j = some ob → ∃ ob', s'.get j = some ob' ∧ ob'.parent = ob.parent ∧
      ob'.pending = ob.pending ∧ ob'.kind = ob.kind ∧ ob'.children = ob.children.erase x ∧
      ob'.dtor = ob.dtor ∧ (ob.refs = [] → ob'.refs = []))
    (hb : ∀ (j : Nat) ob', s'.get j = some ob' → ∃ ob, s.get j = some ob ∧ ob.kind = ob'.kind)
    (hxp : ∀ xb' xb, s'.get x = some xb' → s.get x = some xb → xb'.parent = xb.parent)
    (hnd : ∀ (j : Nat) ob, s.get j = some ob → ob.children.Nodup) : Keeps U s s' := by
  refine ⟨hb, ?_, ?_, ?_, ?_⟩
  rotate_right
  · intro y yb yb' hy h1 h2
    have hyx : y ≠ x := by intro e; subst e; exact hx hy
    obtain ⟨ob', h3, -, -, -, -, h6, h7⟩ := h y hyx yb h1
    rw [h2] at h3; cases h3; exact ⟨h6, h7⟩
  · intro y yb hy hg
    have hyx : y ≠ x := by intro e; subst e; exact hx hy
    obtain ⟨yb', h1, h2, h3, -, h5, -⟩ := h y hyx yb hg
    refine ⟨yb', h1, h2, h3, ?_, fun _ _ => by rw [h5]; exact List.erase_sublist⟩
    intro z hz hzu
    rw [h5]
    exact (List.mem_erase_of_ne (by intro e; subst e; exact hx hzu)).2 hz
  · intro z zb' zb h1 h2 _
    by_cases e : z = x
    · subst e; exact hxp zb' zb h1 h2
    · obtain ⟨ob', h3, h4, -⟩ := h z e zb h2
      rw [h1] at h3; cases h3; exact h4
  · intro y yb yb' hy h1 h2
    have hyx : y ≠ x := by intro e; subst e; exact hx hy
    obtain ⟨ob', h3, -, -, -, h5, -⟩ := h y hyx yb h1
    rw [h2] at h3; cases h3
    refine ⟨fun z => z != x, [], ?_, ?_⟩
    · rw [h5, List.append_nil, (hnd y yb h1).erase_eq_filter]
    · intro z _ hzu
      simp only [bne_iff_ne, ne_eq]
      intro e; subst e; exact hx hzu


/-- release of a TRef / `.memlimit` chunk -/
theorem keeps_freeLeafS {U : Nat → Prop} {s : State} {r : Nat} {rb : Obj} (w : WFp s) (hr : s.get r = some rb)
    (hk : rb.kind ≠ .plain) (hu : ¬ U r) : Keeps U s (freeLeafS s r) := by
  have hg := freeLeafS_get w hr hk
  apply keeps_of_erase r hu
  · intro j hj ob hob
    refine ⟨{ ob with children := ob.children.erase r, refs := ob.refs.erase r }, ?_, rfl, rfl, rfl, rfl, rfl,
      fun h => by show ob.refs.erase r = []; rw [h]; rfl⟩
    rw [hg]; unfold eraseAll; simp [hj, hob]
  · intro j ob' hj
    rw [hg] at hj; unfold eraseAll at hj
    by_cases e : j = r
    · simp [e] at hj
    · simp only [e, if_false] at hj
      obtain ⟨o0, h0, rfl⟩ := Option.map_eq_some_iff.1 hj
      exact ⟨o0, h0, rfl⟩
  · intro xb' xb h1 _
    rw [hg] at h1; unfold eraseAll at h1; simp at h1
  · exact fun j ob hj => w.childNodup j ob hj

theorem keeps_remove {U : Nat → Prop} (s : State) (x : Nat) (hu : ¬ U x) : Keeps U s (s.remove x) := by
  refine ⟨?_, ?_, ?_, ?_, ?_⟩
  · intro z zb' hz
    rw [get_remove_some] at hz
    exact ⟨zb', hz.2, rfl⟩
  · intro y yb hy hg
    have hyx : x ≠ y := by intro e; subst e; exact hu hy
    exact ⟨yb, by simp [hyx, hg], rfl, rfl, fun z hz _ => hz, fun _ _ => List.Sublist.refl _⟩
  · intro z zb' zb h1 h2 _
    rw [get_remove_some] at h1
    rw [h1.2] at h2; cases h2; rfl
  · intro y yb yb' _ h1 h2
    rw [get_remove_some] at h2
    rw [h2.2] at h1; cases h1
    exact ⟨fun _ => true, [], by simp, fun _ _ _ => rfl⟩
  · intro y yb yb' _ h1 h2
    rw [get_remove_some] at h2
    rw [h2.2] at h1; cases h1; exact ⟨rfl, id⟩

/-- FLAG_PENDING + list_del of a plain object -/
theorem keeps_beginFree {U : Nat → Prop} {s : State} {x : Nat} {xb : Obj} (w : WFp s) (hx : s.get x = some xb)
    (hself : xb.parent ≠ some x) (d : Dtor) (hu : ¬ U x) : Keeps U s (beginFree s x d) := by
  have hg := beginFree_get s x d xb hx
  have hmem : ∀ (j : Nat) ob, s.get j = some ob → x ∈ ob.children → xb.parent = some j := by
    intro j ob hj hm
    obtain ⟨co, hco, hcp, -⟩ := w.childBack j ob x hj hm
    rw [hx] at hco; cases hco; exact hcp
  apply keeps_of_erase x hu
  · intro j hj ob hob
    rw [hg]; simp only [hj, if_false]
    by_cases hp : xb.parent = some j
    · simp only [hp, if_true, hob, Option.map_some]
      exact ⟨_, rfl, rfl, rfl, rfl, rfl, rfl, id⟩
    · simp only [hp, if_false]
      refine ⟨ob, hob, rfl, rfl, rfl, ?_, rfl, id⟩
      exact (List.erase_of_not_mem (fun hm => hp (hmem j ob hob hm))).symm
  · intro j ob' hj
    rw [hg] at hj
    by_cases e : j = x
    · subst e; simp only [if_true, Option.some.injEq] at hj; subst hj; exact ⟨xb, hx, rfl⟩
    · simp only [e, if_false] at hj
      split at hj
      · obtain ⟨o0, h0, rfl⟩ := Option.map_eq_some_iff.1 hj; exact ⟨o0, h0, rfl⟩
      · exact ⟨ob', hj, rfl⟩
  · intro xb' xb0 h1 h2
    rw [hx] at h2; cases h2
    rw [hg] at h1; simp only [if_true, Option.some.injEq] at h1; subst h1; rfl
  · exact fun j ob hj => w.childNodup j ob hj

theorem order_comp {U : Nat → Prop} {ca cb cc app1 app2 : List Id} {k1 k2 : Id → Bool}
    (e1 : cb = ca.filter k1 ++ app1) (hk1 : ∀ z ∈ ca, U z → k1 z = true)
    (e2 : cc = cb.filter k2 ++ app2) (hk2 : ∀ z ∈ cb, U z → k2 z = true) :
    ∃ (k : Id → Bool) (app : List Id), cc = ca.filter k ++ app ∧ ∀ z ∈ ca, U z → k z = true := by
  refine ⟨fun z => k1 z && k2 z, app1.filter k2 ++ app2, ?_, ?_⟩
  · rw [e2, e1, List.filter_append, List.filter_filter, List.append_assoc]
    congr 1
    apply List.filter_congr
    intro z _; exact Bool.and_comm _ _
  · intro z hz hzu
    simp only [Bool.and_eq_true]
    refine ⟨hk1 z hz hzu, hk2 z ?_ hzu⟩
    rw [e1]; exact List.mem_append_left _ (List.mem_filter.2 ⟨hz, hk1 z hz hzu⟩)

/-- the child list after `x` was taken out and possibly appended again -/
theorem order_move {U : Nat → Prop} (cs : List Id) (x : Id) (b : Bool) (hnd : cs.Nodup) (hux : ¬ U x) :
    ∃ (k : Id → Bool) (app : List Id), (if b then cs.erase x ++ [x] else cs.erase x) = cs.filter k ++ app ∧
      ∀ z ∈ cs, U z → k z = true := by
  refine ⟨fun z => z != x, if b then [x] else [], ?_, ?_⟩
  · rw [hnd.erase_eq_filter]; cases b <;> simp
  · intro z _ hzu
    simp only [bne_iff_ne, ne_eq]
    intro e; subst e; exact hux hzu

/-- a plain object is moved under another parent; the new parent, if it is being freed, has a TRef
child (so nothing is promised about its child list) -/
theorem keeps_moveS {U : Nat → Prop} {s : State} {c : Nat} {cb : Obj} (w : WFp s) (hc : s.get c = some cb)
    (hck : cb.kind = .plain)
    (tnew : Option Id) (hself : tnew ≠ some c) (hself' : cb.parent ≠ some c) (hu : ¬ U c)
    (hq : ∀ q qb, tnew = some q → s.get q = some qb → qb.pending = true → ¬ NoRefKid s qb) :
    Keeps U s (moveS s c tnew false) := by
  have hg := moveS_getG hc tnew false hself hself'
  have hmem : ∀ (j : Nat) ob, s.get j = some ob → c ∈ ob.children → cb.parent = some j := by
    intro j ob hj hm
    obtain ⟨co, hco, hcp, -⟩ := w.childBack j ob c hj hm
    rw [hc] at hco; cases hco; exact hcp
  have hform : ∀ (y : Nat) yb, y ≠ c → s.get y = some yb → ∃ yb', (moveS s c tnew false).get y = some yb' ∧
      yb'.parent = yb.parent ∧ yb'.pending = yb.pending ∧
      yb'.children = (if tnew = some y then yb.children.erase c ++ [c] else yb.children.erase c) ∧
      yb'.dtor = yb.dtor ∧ yb'.refs = yb.refs := by
    intro y yb hyc hgy
    have herase : (if cb.parent = some y then yb.children.erase c else yb.children) = yb.children.erase c := by
      split
      · rfl
      · rename_i hp; exact (List.erase_of_not_mem (fun hm => hp (hmem y yb hgy hm))).symm
    refine ⟨{ yb with children := if tnew = some y then yb.children.erase c ++ [c] else yb.children.erase c },
      ?_, rfl, rfl, rfl, rfl, rfl⟩
    rw [hg]; simp only [hyc, if_false, hgy, Option.map_some, Bool.false_eq_true, herase]
  refine ⟨?_, ?_, ?_, ?_, ?_⟩
  rotate_right
  · intro y yb yb' hy h1 h2
    have hyc : y ≠ c := by intro e; subst e; exact hu hy
    obtain ⟨yb'', h3, -, -, -, h6, h7⟩ := hform y yb hyc h1
    rw [h2] at h3; cases h3; exact ⟨h6, fun h => by rw [h7]; exact h⟩
  · intro z zb' hz
    rw [hg] at hz
    by_cases e : z = c
    · subst e; simp only [if_true, Option.some.injEq] at hz; subst hz; exact ⟨cb, hc, rfl⟩
    · simp only [e, if_false] at hz
      obtain ⟨o0, h0, rfl⟩ := Option.map_eq_some_iff.1 hz; exact ⟨o0, h0, rfl⟩
  · intro y yb hy hgy
    have hyc : y ≠ c := by intro e; subst e; exact hu hy
    have herase : (if cb.parent = some y then yb.children.erase c else yb.children) = yb.children.erase c := by
      split
      · rfl
      · rename_i hp; exact (List.erase_of_not_mem (fun hm => hp (hmem y yb hgy hm))).symm
    have hget : ∃ yb', (moveS s c tnew false).get y = some yb' ∧ yb'.parent = yb.parent ∧ yb'.pending = yb.pending ∧
        yb'.children = (if tnew = some y then yb.children.erase c ++ [c] else yb.children.erase c) := by
      refine ⟨{ yb with children := if tnew = some y then yb.children.erase c ++ [c] else yb.children.erase c },
        ?_, rfl, rfl, rfl⟩
      rw [hg]; simp only [hyc, if_false, hgy, Option.map_some, Bool.false_eq_true, herase]
    obtain ⟨yb', h1, h2, h3, h4⟩ := hget
    refine ⟨yb', h1, h2, h3, ?_, ?_⟩
    · intro z hz hzu
      have hzc : z ≠ c := by intro e; subst e; exact hu hzu
      rw [h4]
      split
      · exact List.mem_append_left _ ((List.mem_erase_of_ne hzc).2 hz)
      · exact (List.mem_erase_of_ne hzc).2 hz
    · intro hp hnr
      rw [h4]
      split
      · rename_i hqy; exact absurd hnr (hq y yb hqy hgy hp)
      · exact List.erase_sublist
  · intro z zb' zb h1 h2 hk
    by_cases e : z = c
    · subst e; rw [hc] at h2; cases h2; exact absurd hck hk
    · obtain ⟨yb', h3, h4, -⟩ := hform z zb e h2
      rw [h1] at h3; cases h3; exact h4
  · intro y yb yb' hy h1 h2
    have hyc : y ≠ c := by intro e; subst e; exact hu hy
    obtain ⟨yb'', h3, -, -, h4, -⟩ := hform y yb hyc h1
    rw [h2] at h3; cases h3
    rw [h4]
    have := order_move (U := U) yb.children c (decide (tnew = some y)) (w.childNodup y yb h1) hu
    simpa using this


/-- promotion: the TRef chunk `r` (held by `q`) is released and `x` becomes the last child of `q` -/
theorem keeps_promote {U : Nat → Prop} {s : State} {x r : Nat} {xb rb : Obj} (w : WFp s) (hx : s.get x = some xb)
    (hxk : xb.kind = .plain) (hr : s.get r = some rb) (hrk : rb.kind = .ref x) (rest : List Id)
    (hq : rb.parent ≠ some x) (hself : xb.parent ≠ some x) (hux : ¬ U x) (hur : ¬ U r) :
    Keeps U s (moveS (freeLeafS s r) x rb.parent false) := by
  have hrnp : rb.kind ≠ .plain := by rw [hrk]; simp
  have hxr : x ≠ r := by intro e; subst e; rw [hx] at hr; cases hr; exact hrnp hxk
  have hLx : ∃ xb1, (freeLeafS s r).get x = some xb1 ∧ xb1.parent = xb.parent := by
    refine ⟨{ xb with children := xb.children.erase r, refs := xb.refs.erase r }, ?_, rfl⟩
    rw [freeLeafS_get w hr hrnp]; unfold eraseAll; simp [hxr, hx]
  obtain ⟨xb1, hLx, hxp1⟩ := hLx
  have k1 : Keeps U s (freeLeafS s r) := keeps_freeLeafS w hr hrnp hur
  have w1 : WFp (freeLeafS s r) := freeLeafS_wf w hr hrnp
  -- the new parent holds the TRef chunk in `s`
  have hqr : ∀ q qb, rb.parent = some q → s.get q = some qb → r ∈ qb.children := by
    intro q qb hqq hqb
    obtain ⟨po, hpo, -, hm⟩ := w.parentLive r rb q hr hqq
    rw [hqb] at hpo; cases hpo
    rcases hm with h | h
    · exact h
    · rw [(w.leaf r rb hr hrnp).2.2.2] at h; cases h
  -- compose by hand: the promise about the child list of `q` is void in `s`
  have hg := moveS_getG hLx rb.parent false hq (by rw [hxp1]; exact hself)
  have hmem : ∀ (j : Nat) ob, (freeLeafS s r).get j = some ob → x ∈ ob.children → xb1.parent = some j := by
    intro j ob hj hm
    obtain ⟨co, hco, hcp, -⟩ := w1.childBack j ob x hj hm
    rw [hLx] at hco; cases hco; exact hcp
  have hform : ∀ (y : Nat) yb1, y ≠ x → (freeLeafS s r).get y = some yb1 →
      ∃ yb', (moveS (freeLeafS s r) x rb.parent false).get y = some yb' ∧ yb'.parent = yb1.parent ∧
        yb'.pending = yb1.pending ∧
        yb'.children = (if rb.parent = some y then yb1.children.erase x ++ [x] else yb1.children.erase x) ∧
        yb'.dtor = yb1.dtor ∧ yb'.refs = yb1.refs := by
    intro y yb1 hyx g1
    have herase : (if xb1.parent = some y then yb1.children.erase x else yb1.children) = yb1.children.erase x := by
      split
      · rfl
      · rename_i hp; exact (List.erase_of_not_mem (fun hm => hp (hmem y yb1 g1 hm))).symm
    refine ⟨{ yb1 with children := if rb.parent = some y then yb1.children.erase x ++ [x] else yb1.children.erase x },
      ?_, rfl, rfl, rfl, rfl, rfl⟩
    rw [hg]; simp only [hyx, if_false, g1, Option.map_some, Bool.false_eq_true, herase]
  refine ⟨?_, ?_, ?_, ?_, ?_⟩
  rotate_right
  · intro y yb yb' hy h1 h2
    have hyx : y ≠ x := by intro e; subst e; exact hux hy
    obtain ⟨yb1, g1, -⟩ := k1.keep y yb hy h1
    obtain ⟨d1, r1⟩ := k1.fields y yb yb1 hy h1 g1
    obtain ⟨yb'', h3, -, -, -, h6, h7⟩ := hform y yb1 hyx g1
    rw [h2] at h3; cases h3
    exact ⟨h6.trans d1, fun h => by rw [h7]; exact r1 h⟩
  · intro z zb' hz
    rw [hg] at hz
    by_cases e : z = x
    · subst e; simp only [if_true, Option.some.injEq] at hz; subst hz
      obtain ⟨zb, h1, h2⟩ := k1.kind z xb1 hLx
      exact ⟨zb, h1, h2⟩
    · simp only [e, if_false] at hz
      obtain ⟨o0, h0, rfl⟩ := Option.map_eq_some_iff.1 hz
      obtain ⟨zb, h1, h2⟩ := k1.kind z o0 h0
      exact ⟨zb, h1, h2⟩
  · intro y yb hy hgy
    have hyx : y ≠ x := by intro e; subst e; exact hux hy
    obtain ⟨yb1, g1, g2, g3, g4, g5⟩ := k1.keep y yb hy hgy
    obtain ⟨yb', h1, h2, h3, h4, -⟩ := hform y yb1 hyx g1
    refine ⟨yb', h1, h2.trans g2, h3.trans g3, ?_, ?_⟩
    · intro z hz hzu
      have hzx : z ≠ x := by intro e; subst e; exact hux hzu
      rw [h4]
      split
      · exact List.mem_append_left _ ((List.mem_erase_of_ne hzx).2 (g4 z hz hzu))
      · exact (List.mem_erase_of_ne hzx).2 (g4 z hz hzu)
    · intro hp hnr
      rw [h4]
      split
      · rename_i hqy
        exact absurd ⟨rb, x, hr, hrk⟩ (hnr r (hqr y yb hqy hgy))
      · exact List.erase_sublist.trans (g5 hp hnr)
  · intro z zb' zb h1 h2 hk
    have hzx : z ≠ x := by intro e; subst e; rw [hx] at h2; cases h2; exact hk hxk
    cases h3 : (freeLeafS s r).get z with
    | none =>
      rw [hg] at h1; simp only [hzx, if_false, h3, Option.map_none] at h1; cases h1
    | some yb1 =>
      obtain ⟨yb', h4, h5, -⟩ := hform z yb1 hzx h3
      rw [h1] at h4; cases h4
      rw [h5]; exact k1.refPar z yb1 zb h3 h2 hk
  · intro y yb yb' hy h1 h2
    have hyx : y ≠ x := by intro e; subst e; exact hux hy
    obtain ⟨yb1, g1, -, -, g4, -⟩ := k1.keep y yb hy h1
    obtain ⟨ka, app1, e1, hk1⟩ := k1.order y yb yb1 hy h1 g1
    obtain ⟨yb'', h3, -, -, h4, -⟩ := hform y yb1 hyx g1
    rw [h2] at h3; cases h3
    obtain ⟨kb, app2, e2, hk2⟩ := order_move (U := U) yb1.children x (decide (rb.parent = some y))
      (w1.childNodup y yb1 g1) hux
    exact order_comp e1 hk1 (by rw [h4]; simpa using e2) hk2

/-- a field update that leaves parent, pending, kind and children alone -/
theorem keeps_modify (U : Nat → Prop) (s : State) (i : Nat) (f : Obj → Obj)
    (hf : ∀ x : Obj, (f x).parent = x.parent ∧ (f x).pending = x.pending ∧ (f x).kind = x.kind ∧
      (f x).children = x.children)
    (hd : U i → ∀ x : Obj, (f x).dtor = x.dtor ∧ (f x).refs = x.refs) : Keeps U s (s.modify i f) := by
  refine ⟨?_, ?_, ?_, ?_, ?_⟩
  rotate_right
  · intro y yb yb' hy h1 h2
    rw [get_modify_some] at h2
    rcases h2 with ⟨-, h2⟩ | ⟨e, o0, h2, rfl⟩
    · rw [h1] at h2; cases h2; exact ⟨rfl, id⟩
    · rw [h1] at h2; cases h2
      subst e
      exact ⟨(hd hy yb).1, fun h => by rw [(hd hy yb).2]; exact h⟩
  · intro z zb' hz
    rw [get_modify_some] at hz
    rcases hz with ⟨-, hz⟩ | ⟨-, o0, hz, rfl⟩
    · exact ⟨zb', hz, rfl⟩
    · exact ⟨o0, hz, (hf o0).2.2.1.symm⟩
  · intro y yb _ hg
    by_cases e : i = y
    · subst e
      refine ⟨f yb, by simp [hg], (hf yb).1, (hf yb).2.1, fun z hz _ => by rw [(hf yb).2.2.2]; exact hz,
        fun _ _ => (hf yb).2.2.2 ▸ List.Sublist.refl _⟩
    · exact ⟨yb, by simp [e, hg], rfl, rfl, fun z hz _ => hz, fun _ _ => List.Sublist.refl _⟩
  · intro z zb' zb h1 h2 _
    rw [get_modify_some] at h1
    rcases h1 with ⟨-, h1⟩ | ⟨-, o0, h1, rfl⟩
    · rw [h1] at h2; cases h2; rfl
    · rw [h1] at h2; cases h2; exact (hf zb).1
  · intro y yb yb' _ h1 h2
    rw [get_modify_some] at h2
    rcases h2 with ⟨-, h2⟩ | ⟨-, o0, h2, rfl⟩
    · rw [h1] at h2; cases h2; exact ⟨fun _ => true, [], by simp, fun _ _ _ => rfl⟩
    · rw [h1] at h2; cases h2; exact ⟨fun _ => true, [], by simp [(hf yb).2.2.2], fun _ _ _ => rfl⟩

/-! ## the part of the heap a free does not reach -/

/-- outside the subtree of `x`, and no TRef chunk -/
def Outside (s : State) (x : Nat) (y : Nat) : Prop := ¬ InSub s x y ∧ ¬ isRefAt s y

/-- every object being freed (except `ex`) has no TRef chunk among its children any more -/
def PendNR (s : State) (ex : Option Nat) : Prop :=
  ∀ (p : Nat) pb, s.get p = some pb → pb.pending = true → some p ≠ ex → NoRefKid s pb

/-- what is outside the subtree stays outside -/
theorem outside_stable {s s' : State} {o : Nat} (w : WFp s) (k : Keeps (Outside s o) s s') (y : Nat)
    (hy : Outside s o y) : Outside s' o y := by
  have hup : ∀ z zb p, Outside s o z → s.get z = some zb → zb.parent = some p → Outside s o p := by
    intro z zb p hz hzb hp
    refine ⟨fun h => hz.1 (InSub.of_parent (by rw [parentOf_eq hzb]; exact hp) h), ?_⟩
    rintro ⟨pb, t, h1, h2⟩
    obtain ⟨po, hpo, hpk, -⟩ := w.parentLive z zb p hzb hp
    rw [h1] at hpo; cases hpo; rw [h2] at hpk; cases hpk
  have hanc : ∀ a z, Anc s' a z → Outside s o z → Anc s a z := by
    intro a z h
    induction h with
    | @parent z p hp =>
      intro hz
      obtain ⟨zb', h1, h2⟩ := parentOf_some hp
      obtain ⟨zb, h3, -⟩ := k.kind z zb' h1
      obtain ⟨zb'', h4, h5, -⟩ := k.keep z zb hz h3
      rw [h1] at h4; cases h4
      exact Anc.parent (by rw [parentOf_eq h3, ← h5]; exact h2)
    | @up z p a hp _ ih =>
      intro hz
      obtain ⟨zb', h1, h2⟩ := parentOf_some hp
      obtain ⟨zb, h3, -⟩ := k.kind z zb' h1
      obtain ⟨zb'', h4, h5, -⟩ := k.keep z zb hz h3
      rw [h1] at h4; cases h4
      have hp0 : zb.parent = some p := by rw [← h5]; exact h2
      exact Anc.up (by rw [parentOf_eq h3]; exact hp0) (ih (hup z zb p hz h3 hp0))
  refine ⟨?_, fun h => hy.2 (isRefAt_back k h)⟩
  rintro (rfl | h)
  · exact hy.1 (Or.inl rfl)
  · exact hy.1 (Or.inr (hanc o y h hy))

end Usual.C01
