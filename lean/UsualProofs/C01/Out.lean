import UsualProofs.C01.RunGood
import UsualProofs.C01.AncMove
import UsualProofs.C01.LogInv
/-! What `_talloc_free` / `_talloc_unlink` / `free_children` leave alone: objects outside the subtree
being freed (TRef chunks aside) stay live with the same parent; their child lists keep every such
object, and the child list of an object that is itself being freed only shrinks. -/
set_option linter.unusedSimpArgs false
set_option linter.unusedVariables false
namespace Usual.C01

def isRefAt (s : State) (z : Nat) : Prop := ∃ zb t, s.get z = some zb ∧ zb.kind = .ref t

/-- no child is a TRef chunk -/
def NoRefKid (s : State) (yb : Obj) : Prop := ∀ z ∈ yb.children, ¬ isRefAt s z

structure Keeps (U : Nat → Prop) (s s' : State) : Prop where
  kind : ∀ (z : Nat) zb', s'.get z = some zb' → ∃ zb, s.get z = some zb ∧ zb.kind = zb'.kind
  keep : ∀ (y : Nat) yb, U y → s.get y = some yb → ∃ yb', s'.get y = some yb' ∧ yb'.parent = yb.parent ∧
    yb'.pending = yb.pending ∧ (∀ z ∈ yb.children, U z → z ∈ yb'.children) ∧
    (yb.pending = true → NoRefKid s yb → List.Sublist yb'.children yb.children)

theorem Keeps.refl (U : Nat → Prop) (s : State) : Keeps U s s :=
  ⟨fun z zb h => ⟨zb, h, rfl⟩, fun y yb _ h => ⟨yb, h, rfl, rfl, fun z hz _ => hz, fun _ _ => List.Sublist.refl _⟩⟩

theorem Keeps.mono {U U' : Nat → Prop} {s s' : State} (h : Keeps U s s') (hu : ∀ y, U' y → U y) : Keeps U' s s' := by
  refine ⟨h.kind, ?_⟩
  intro y yb hy hg
  obtain ⟨yb', h1, h2, h3, h4, h5⟩ := h.keep y yb (hu y hy) hg
  exact ⟨yb', h1, h2, h3, fun z hz hzu => h4 z hz (hu z hzu), h5⟩

theorem isRefAt_back {U : Nat → Prop} {s s' : State} (h : Keeps U s s') {z : Nat} (hz : isRefAt s' z) : isRefAt s z := by
  obtain ⟨zb', t, h1, h2⟩ := hz
  obtain ⟨zb, h3, h4⟩ := h.kind z zb' h1
  exact ⟨zb, t, h3, by rw [h4]; exact h2⟩

theorem Keeps.trans {U : Nat → Prop} {a b c : State} (h1 : Keeps U a b) (h2 : Keeps U b c) : Keeps U a c := by
  refine ⟨?_, ?_⟩
  · intro z zc hz
    obtain ⟨zb, h3, h4⟩ := h2.kind z zc hz
    obtain ⟨za, h5, h6⟩ := h1.kind z zb h3
    exact ⟨za, h5, h6.trans h4⟩
  · intro y ya hy hg
    obtain ⟨yb, g1, g2, g3, g4, g5⟩ := h1.keep y ya hy hg
    obtain ⟨yc, k1, k2, k3, k4, k5⟩ := h2.keep y yb hy g1
    refine ⟨yc, k1, k2.trans g2, k3.trans g3, fun z hz hzu => k4 z (g4 z hz hzu) hzu, ?_⟩
    intro hp hnr
    have s1 := g5 hp hnr
    have hnr' : NoRefKid b yb := by
      intro z hz hr
      exact hnr z (s1.subset hz) (isRefAt_back h1 hr)
    exact (k5 (by rw [g3]; exact hp) hnr').trans s1

theorem Keeps.of_shapeEq (U : Nat → Prop) {s s' : State} (h : ShapeEq s s') : Keeps U s s' := by
  refine ⟨?_, ?_⟩
  · intro z zb' hz
    obtain ⟨zb, h1, -, -, -, e4, -, -⟩ := h.symm.get hz
    exact ⟨zb, h1, e4⟩
  · intro y yb _ hg
    obtain ⟨yb', h1, e1, e2, -, -, e5, -⟩ := h.get hg
    exact ⟨yb', h1, e1, e5, fun z hz _ => by rw [e2]; exact hz, fun _ _ => e2 ▸ List.Sublist.refl _⟩

/-- a state whose objects are those of `s` with child lists shortened by erasing `x` (and any other
field but parent, pending, kind changed), `x` possibly gone -/
theorem keeps_of_erase {U : Nat → Prop} {s s' : State} (x : Nat) (hx : ¬ U x)
    (h : ∀ (j : Nat), j ≠ x → ∀ ob, s.get j = some ob → ∃ ob', s'.get j = some ob' ∧ ob'.parent = ob.parent ∧
      ob'.pending = ob.pending ∧ ob'.kind = ob.kind ∧ ob'.children = ob.children.erase x)
    (hb : ∀ (j : Nat) ob', s'.get j = some ob' → ∃ ob, s.get j = some ob ∧ ob.kind = ob'.kind) : Keeps U s s' := by
  refine ⟨hb, ?_⟩
  intro y yb hy hg
  have hyx : y ≠ x := by intro e; subst e; exact hx hy
  obtain ⟨yb', h1, h2, h3, -, h5⟩ := h y hyx yb hg
  refine ⟨yb', h1, h2, h3, ?_, fun _ _ => by rw [h5]; exact List.erase_sublist⟩
  intro z hz hzu
  rw [h5]
  exact (List.mem_erase_of_ne (by intro e; subst e; exact hx hzu)).2 hz


/-- release of a TRef / `.memlimit` chunk -/
theorem keeps_freeLeafS {U : Nat → Prop} {s : State} {r : Nat} {rb : Obj} (w : WFp s) (hr : s.get r = some rb)
    (hk : rb.kind ≠ .plain) (hu : ¬ U r) : Keeps U s (freeLeafS s r) := by
  have hg := freeLeafS_get w hr hk
  apply keeps_of_erase r hu
  · intro j hj ob hob
    refine ⟨{ ob with children := ob.children.erase r, refs := ob.refs.erase r }, ?_, rfl, rfl, rfl, rfl⟩
    rw [hg]; unfold eraseAll; simp [hj, hob]
  · intro j ob' hj
    rw [hg] at hj; unfold eraseAll at hj
    by_cases e : j = r
    · simp [e] at hj
    · simp only [e, if_false] at hj
      obtain ⟨o0, h0, rfl⟩ := Option.map_eq_some_iff.1 hj
      exact ⟨o0, h0, rfl⟩

theorem keeps_remove {U : Nat → Prop} (s : State) (x : Nat) (hu : ¬ U x) : Keeps U s (s.remove x) := by
  refine ⟨?_, ?_⟩
  · intro z zb' hz
    rw [get_remove_some] at hz
    exact ⟨zb', hz.2, rfl⟩
  · intro y yb hy hg
    have hyx : x ≠ y := by intro e; subst e; exact hu hy
    exact ⟨yb, by simp [hyx, hg], rfl, rfl, fun z hz _ => hz, fun _ _ => List.Sublist.refl _⟩

/-- FLAG_PENDING + list_del of a plain object -/
theorem keeps_beginFree {U : Nat → Prop} {s : State} {x : Nat} {xb : Obj} (w : WFp s) (hx : s.get x = some xb)
    (hself : xb.parent ≠ some x) (d : Dtor) (hu : ¬ U x) : Keeps U s (beginFree s x d) := by
  have hg := beginFree_get s x d xb hx
  have hmem : ∀ (j : Nat) ob, s.get j = some ob → x ∈ ob.children → xb.parent = some j := by
    intro j ob hj hm
    obtain ⟨co, hco, hcp, -⟩ := w.childBack j ob x hj hm
    rw [hx] at hco; cases hco; exact hcp
  apply keeps_of_erase x hu
  · intro j hj ob hob
    rw [hg]; simp only [hj, if_false]
    by_cases hp : xb.parent = some j
    · simp only [hp, if_true, hob, Option.map_some]
      exact ⟨_, rfl, rfl, rfl, rfl, rfl⟩
    · simp only [hp, if_false]
      refine ⟨ob, hob, rfl, rfl, rfl, ?_⟩
      exact (List.erase_of_not_mem (fun hm => hp (hmem j ob hob hm))).symm
  · intro j ob' hj
    rw [hg] at hj
    by_cases e : j = x
    · subst e; simp only [if_true, Option.some.injEq] at hj; subst hj; exact ⟨xb, hx, rfl⟩
    · simp only [e, if_false] at hj
      split at hj
      · obtain ⟨o0, h0, rfl⟩ := Option.map_eq_some_iff.1 hj; exact ⟨o0, h0, rfl⟩
      · exact ⟨ob', hj, rfl⟩

/-- a plain object is moved under another parent; the new parent, if it is being freed, has a TRef
child (so nothing is promised about its child list) -/
theorem keeps_moveS {U : Nat → Prop} {s : State} {c : Nat} {cb : Obj} (w : WFp s) (hc : s.get c = some cb)
    (tnew : Option Id) (hself : tnew ≠ some c) (hself' : cb.parent ≠ some c) (hu : ¬ U c)
    (hq : ∀ q qb, tnew = some q → s.get q = some qb → qb.pending = true → ¬ NoRefKid s qb) :
    Keeps U s (moveS s c tnew false) := by
  have hg := moveS_getG hc tnew false hself hself'
  have hmem : ∀ (j : Nat) ob, s.get j = some ob → c ∈ ob.children → cb.parent = some j := by
    intro j ob hj hm
    obtain ⟨co, hco, hcp, -⟩ := w.childBack j ob c hj hm
    rw [hc] at hco; cases hco; exact hcp
  refine ⟨?_, ?_⟩
  · intro z zb' hz
    rw [hg] at hz
    by_cases e : z = c
    · subst e; simp only [if_true, Option.some.injEq] at hz; subst hz; exact ⟨cb, hc, rfl⟩
    · simp only [e, if_false] at hz
      obtain ⟨o0, h0, rfl⟩ := Option.map_eq_some_iff.1 hz; exact ⟨o0, h0, rfl⟩
  · intro y yb hy hgy
    have hyc : y ≠ c := by intro e; subst e; exact hu hy
    have herase : (if cb.parent = some y then yb.children.erase c else yb.children) = yb.children.erase c := by
      split
      · rfl
      · rename_i hp; exact (List.erase_of_not_mem (fun hm => hp (hmem y yb hgy hm))).symm
    have hget : ∃ yb', (moveS s c tnew false).get y = some yb' ∧ yb'.parent = yb.parent ∧ yb'.pending = yb.pending ∧
        yb'.children = (if tnew = some y then yb.children.erase c ++ [c] else yb.children.erase c) := by
      refine ⟨{ yb with children := if tnew = some y then yb.children.erase c ++ [c] else yb.children.erase c },
        ?_, rfl, rfl, rfl⟩
      rw [hg]; simp only [hyc, if_false, hgy, Option.map_some, Bool.false_eq_true, herase]
    obtain ⟨yb', h1, h2, h3, h4⟩ := hget
    refine ⟨yb', h1, h2, h3, ?_, ?_⟩
    · intro z hz hzu
      have hzc : z ≠ c := by intro e; subst e; exact hu hzu
      rw [h4]
      split
      · exact List.mem_append_left _ ((List.mem_erase_of_ne hzc).2 hz)
      · exact (List.mem_erase_of_ne hzc).2 hz
    · intro hp hnr
      rw [h4]
      split
      · rename_i hqy; exact absurd hnr (hq y yb hqy hgy hp)
      · exact List.erase_sublist


/-- promotion: the TRef chunk `r` (held by `q`) is released and `x` becomes the last child of `q` -/
theorem keeps_promote {U : Nat → Prop} {s : State} {x r : Nat} {xb rb : Obj} (w : WFp s) (hx : s.get x = some xb)
    (hxk : xb.kind = .plain) (hr : s.get r = some rb) (hrk : rb.kind = .ref x) (rest : List Id)
    (hq : rb.parent ≠ some x) (hself : xb.parent ≠ some x) (hux : ¬ U x) (hur : ¬ U r) :
    Keeps U s (moveS (freeLeafS s r) x rb.parent false) := by
  have hrnp : rb.kind ≠ .plain := by rw [hrk]; simp
  have hxr : x ≠ r := by intro e; subst e; rw [hx] at hr; cases hr; exact hrnp hxk
  have hLx : ∃ xb1, (freeLeafS s r).get x = some xb1 ∧ xb1.parent = xb.parent := by
    refine ⟨{ xb with children := xb.children.erase r, refs := xb.refs.erase r }, ?_, rfl⟩
    rw [freeLeafS_get w hr hrnp]; unfold eraseAll; simp [hxr, hx]
  obtain ⟨xb1, hLx, hxp1⟩ := hLx
  have k1 : Keeps U s (freeLeafS s r) := keeps_freeLeafS w hr hrnp hur
  have w1 : WFp (freeLeafS s r) := freeLeafS_wf w hr hrnp
  -- the new parent holds the TRef chunk in `s`
  have hqr : ∀ q qb, rb.parent = some q → s.get q = some qb → r ∈ qb.children := by
    intro q qb hqq hqb
    obtain ⟨po, hpo, -, hm⟩ := w.parentLive r rb q hr hqq
    rw [hqb] at hpo; cases hpo
    rcases hm with h | h
    · exact h
    · rw [(w.leaf r rb hr hrnp).2.2.2] at h; cases h
  -- compose by hand: the promise about the child list of `q` is void in `s`
  have hg := moveS_getG hLx rb.parent false hq (by rw [hxp1]; exact hself)
  have hmem : ∀ (j : Nat) ob, (freeLeafS s r).get j = some ob → x ∈ ob.children → xb1.parent = some j := by
    intro j ob hj hm
    obtain ⟨co, hco, hcp, -⟩ := w1.childBack j ob x hj hm
    rw [hLx] at hco; cases hco; exact hcp
  refine ⟨?_, ?_⟩
  · intro z zb' hz
    rw [hg] at hz
    by_cases e : z = x
    · subst e; simp only [if_true, Option.some.injEq] at hz; subst hz
      obtain ⟨zb, h1, h2⟩ := k1.kind z xb1 hLx
      exact ⟨zb, h1, h2⟩
    · simp only [e, if_false] at hz
      obtain ⟨o0, h0, rfl⟩ := Option.map_eq_some_iff.1 hz
      obtain ⟨zb, h1, h2⟩ := k1.kind z o0 h0
      exact ⟨zb, h1, h2⟩
  · intro y yb hy hgy
    have hyx : y ≠ x := by intro e; subst e; exact hux hy
    obtain ⟨yb1, g1, g2, g3, g4, g5⟩ := k1.keep y yb hy hgy
    have herase : (if xb1.parent = some y then yb1.children.erase x else yb1.children) = yb1.children.erase x := by
      split
      · rfl
      · rename_i hp; exact (List.erase_of_not_mem (fun hm => hp (hmem y yb1 g1 hm))).symm
    have hget : ∃ yb', (moveS (freeLeafS s r) x rb.parent false).get y = some yb' ∧ yb'.parent = yb1.parent ∧
        yb'.pending = yb1.pending ∧
        yb'.children = (if rb.parent = some y then yb1.children.erase x ++ [x] else yb1.children.erase x) := by
      refine ⟨{ yb1 with children := if rb.parent = some y then yb1.children.erase x ++ [x] else yb1.children.erase x },
        ?_, rfl, rfl, rfl⟩
      rw [hg]; simp only [hyx, if_false, g1, Option.map_some, Bool.false_eq_true, herase]
    obtain ⟨yb', h1, h2, h3, h4⟩ := hget
    refine ⟨yb', h1, h2.trans g2, h3.trans g3, ?_, ?_⟩
    · intro z hz hzu
      have hzx : z ≠ x := by intro e; subst e; exact hux hzu
      rw [h4]
      split
      · exact List.mem_append_left _ ((List.mem_erase_of_ne hzx).2 (g4 z hz hzu))
      · exact (List.mem_erase_of_ne hzx).2 (g4 z hz hzu)
    · intro hp hnr
      rw [h4]
      split
      · rename_i hqy
        exact absurd ⟨rb, x, hr, hrk⟩ (hnr r (hqr y yb hqy hgy))
      · exact List.erase_sublist.trans (g5 hp hnr)

/-- a field update that leaves parent, pending, kind and children alone -/
theorem keeps_modify (U : Nat → Prop) (s : State) (i : Nat) (f : Obj → Obj)
    (hf : ∀ x : Obj, (f x).parent = x.parent ∧ (f x).pending = x.pending ∧ (f x).kind = x.kind ∧
      (f x).children = x.children) : Keeps U s (s.modify i f) := by
  refine ⟨?_, ?_⟩
  · intro z zb' hz
    rw [get_modify_some] at hz
    rcases hz with ⟨-, hz⟩ | ⟨-, o0, hz, rfl⟩
    · exact ⟨zb', hz, rfl⟩
    · exact ⟨o0, hz, (hf o0).2.2.1.symm⟩
  · intro y yb _ hg
    by_cases e : i = y
    · subst e
      refine ⟨f yb, by simp [hg], (hf yb).1, (hf yb).2.1, fun z hz _ => by rw [(hf yb).2.2.2]; exact hz,
        fun _ _ => (hf yb).2.2.2 ▸ List.Sublist.refl _⟩
    · exact ⟨yb, by simp [e, hg], rfl, rfl, fun z hz _ => hz, fun _ _ => List.Sublist.refl _⟩

/-! ## the part of the heap a free does not reach -/

/-- outside the subtree of `x`, and no TRef chunk -/
def Outside (s : State) (x : Nat) (y : Nat) : Prop := ¬ InSub s x y ∧ ¬ isRefAt s y

/-- every object being freed (except `ex`) has no TRef chunk among its children any more -/
def PendNR (s : State) (ex : Option Nat) : Prop :=
  ∀ (p : Nat) pb, s.get p = some pb → pb.pending = true → some p ≠ ex → NoRefKid s pb

/-- what is outside the subtree stays outside -/
theorem outside_stable {s s' : State} {o : Nat} (w : WFp s) (k : Keeps (Outside s o) s s') (y : Nat)
    (hy : Outside s o y) : Outside s' o y := by
  have hup : ∀ z zb p, Outside s o z → s.get z = some zb → zb.parent = some p → Outside s o p := by
    intro z zb p hz hzb hp
    refine ⟨fun h => hz.1 (InSub.of_parent (by rw [parentOf_eq hzb]; exact hp) h), ?_⟩
    rintro ⟨pb, t, h1, h2⟩
    obtain ⟨po, hpo, hpk, -⟩ := w.parentLive z zb p hzb hp
    rw [h1] at hpo; cases hpo; rw [h2] at hpk; cases hpk
  have hanc : ∀ a z, Anc s' a z → Outside s o z → Anc s a z := by
    intro a z h
    induction h with
    | @parent z p hp =>
      intro hz
      obtain ⟨zb', h1, h2⟩ := parentOf_some hp
      obtain ⟨zb, h3, -⟩ := k.kind z zb' h1
      obtain ⟨zb'', h4, h5, -⟩ := k.keep z zb hz h3
      rw [h1] at h4; cases h4
      exact Anc.parent (by rw [parentOf_eq h3, ← h5]; exact h2)
    | @up z p a hp _ ih =>
      intro hz
      obtain ⟨zb', h1, h2⟩ := parentOf_some hp
      obtain ⟨zb, h3, -⟩ := k.kind z zb' h1
      obtain ⟨zb'', h4, h5, -⟩ := k.keep z zb hz h3
      rw [h1] at h4; cases h4
      have hp0 : zb.parent = some p := by rw [← h5]; exact h2
      exact Anc.up (by rw [parentOf_eq h3]; exact hp0) (ih (hup z zb p hz h3 hp0))
  refine ⟨?_, fun h => hy.2 (isRefAt_back k h)⟩
  rintro (rfl | h)
  · exact hy.1 (Or.inl rfl)
  · exact hy.1 (Or.inr (hanc o y h hy))

end Usual.C01
