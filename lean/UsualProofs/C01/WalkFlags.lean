import UsualProofs.C01.WalkSum
/-! What `memlimit_walk` does to the USE flags. -/
set_option linter.unusedSimpArgs false
set_option linter.unusedVariables false
namespace Usual.C01
open Finset

/-- with `OP_NONE` the walk changes no object -/
theorem walk_none_get (cfg : Cfg) (f : Nat) (s : State) (t : Nat) (y : Nat) :
    (walk cfg f s t .none).1.get y = s.get y := by
  induction f generalizing s t with
  | zero => simp [walk]
  | succ f ih =>
    simp only [walk]
    split
    · rfl
    · split
      · rfl
      · simp only [walkSync]
        have hfold : ∀ (l : List Id) (acc : State × Nat),
            (l.foldl (fun (acc : State × Nat) c =>
              ((walk cfg f acc.1 c .none).1, acc.2 + (walk cfg f acc.1 c .none).2)) acc).1.get y = acc.1.get y := by
          intro l
          induction l with
          | nil => intro acc; rfl
          | cons c l ihl =>
            intro acc
            simp only [List.foldl_cons]
            rw [ihl, ih]
        exact hfold _ _

/-- the walk does not touch anything outside the subtree of `t` -/
theorem walk_frame {rk : Nat → Nat} (cfg : Cfg) (f : Nat) :
    ∀ (s : State) (t : Nat) (op : WOp), InvT rk s → ∀ y, ¬ InSub s t y →
      (walk cfg f s t op).1.get y = s.get y := by
  induction f with
  | zero => intro s t op _ y _; simp [walk]
  | succ f ih =>
    intro s t op i y hy
    simp only [walk]
    cases ht : s.get t with
    | none => rfl
    | some tb =>
      simp only []
      split
      · rfl
      · have hyt : y ≠ t := fun e => hy (Or.inl e)
        have h0 : (walkSync s t tb op).1.get y = s.get y := by
          cases op with
          | none => rfl
          | set => simp [walkSync, Ne.symm hyt]
          | clear =>
            simp only [walkSync]
            split
            · rfl
            · simp [Ne.symm hyt]
        have hfold : ∀ (l : List Id) (acc : State × Nat), EqButUse s acc.1 → (∀ c ∈ l, c ∈ tb.children) →
            (l.foldl (fun (acc : State × Nat) c =>
              ((walk cfg f acc.1 c (walkSync s t tb op).2).1,
                acc.2 + (walk cfg f acc.1 c (walkSync s t tb op).2).2)) acc).1.get y = acc.1.get y := by
          intro l
          induction l with
          | nil => intro acc _ _; rfl
          | cons c l ihl =>
            intro acc he hsub
            simp only [List.foldl_cons]
            have hc : c ∈ tb.children := hsub c List.mem_cons_self
            obtain ⟨cb, hcb, hcp, -⟩ := i.wf.childBack t tb c ht hc
            have hanc : Anc s t c := Anc.parent (by rw [parentOf_eq hcb]; exact hcp)
            have he2 := he.trans (walk_eqButUse cfg f acc.1 c (walkSync s t tb op).2)
            have hrec := ihl ((walk cfg f acc.1 c (walkSync s t tb op).2).1,
              acc.2 + (walk cfg f acc.1 c (walkSync s t tb op).2).2) he2
              (fun d hd => hsub d (List.mem_cons_of_mem _ hd))
            rw [hrec]
            apply ih acc.1 c _ ⟨i.wf.shapeEq he.shapeEq, i.ranked.shapeEq he.shapeEq⟩
            intro hin
            have hin' : InSub s c y := (InSub.congr he.parentOf).1 hin
            apply hy
            rcases hin' with rfl | h
            · exact Or.inr hanc
            · exact Or.inr (hanc.trans h)
        rw [hfold _ _ (walkSync_eqButUse s t tb op) (fun c hc => hc), h0]


/-- the child loop of the walk does not touch `y` when `y` is in none of the visited subtrees -/
theorem walk_fold_frame {rk : Nat → Nat} {s : State} (i : InvT rk s) (cfg : Cfg) (f : Nat) (t : Nat) (tb : Obj)
    (ht : s.get t = some tb) (op1 : WOp) (y : Nat) :
    ∀ (l : List Id) (acc : State × Nat), EqButUse s acc.1 → (∀ c ∈ l, c ∈ tb.children) →
      (∀ c ∈ l, ¬ InSub s c y) →
      (l.foldl (fun (acc : State × Nat) c =>
        ((walk cfg f acc.1 c op1).1, acc.2 + (walk cfg f acc.1 c op1).2)) acc).1.get y = acc.1.get y := by
  intro l
  induction l with
  | nil => intro acc _ _ _; rfl
  | cons c l ihl =>
    intro acc he hsub hout
    simp only [List.foldl_cons]
    have he2 := he.trans (walk_eqButUse cfg f acc.1 c op1)
    have hrec := ihl ((walk cfg f acc.1 c op1).1, acc.2 + (walk cfg f acc.1 c op1).2) he2
      (fun d hd => hsub d (List.mem_cons_of_mem _ hd)) (fun d hd => hout d (List.mem_cons_of_mem _ hd))
    rw [hrec]
    apply walk_frame cfg f acc.1 c op1 ⟨i.wf.shapeEq he.shapeEq, i.ranked.shapeEq he.shapeEq⟩
    intro hin
    exact hout c List.mem_cons_self ((InSub.congr he.parentOf).1 hin)

theorem walk_fold_eqButUse (cfg : Cfg) (f : Nat) (op1 : WOp) :
    ∀ (l : List Id) (acc : State × Nat), EqButUse acc.1
      (l.foldl (fun (acc : State × Nat) c =>
        ((walk cfg f acc.1 c op1).1, acc.2 + (walk cfg f acc.1 c op1).2)) acc).1 := by
  intro l
  induction l with
  | nil => intro acc; exact .refl _
  | cons c l ihl =>
    intro acc
    simp only [List.foldl_cons]
    exact (walk_eqButUse cfg f acc.1 c op1).trans
      (ihl ((walk cfg f acc.1 c op1).1, acc.2 + (walk cfg f acc.1 c op1).2))

theorem walk_fold_flagsLe (cfg : Cfg) (f : Nat) (op1 : WOp) :
    ∀ (l : List Id) (acc : State × Nat), FlagsLe acc.1
      (l.foldl (fun (acc : State × Nat) c =>
        ((walk cfg f acc.1 c op1).1, acc.2 + (walk cfg f acc.1 c op1).2)) acc).1 := by
  intro l
  induction l with
  | nil => intro acc; exact .refl _
  | cons c l ihl =>
    intro acc
    simp only [List.foldl_cons]
    exact (walk_flagsLe cfg f acc.1 c op1).trans
      (ihl ((walk cfg f acc.1 c op1).1, acc.2 + (walk cfg f acc.1 c op1).2))

/-- `OP_SET_MEMLIMIT`: every chunk of the subtree carries the USE flag afterwards -/
theorem walk_set {rk : Nat → Nat} (cfg : Cfg) (f : Nat) :
    ∀ (s : State) (t : Nat), InvT rk s →
      (∀ z zb, InSub s t z → s.get z = some zb → zb.pending = false) →
      (∃ tb, s.get t = some tb) → (walk cfg f s t .set).1.oof = false →
      ∀ y, InSub s t y → ∀ yb, s.get y = some yb →
        ∃ yb', (walk cfg f s t .set).1.get y = some yb' ∧ yb'.useLim = true := by
  induction f with
  | zero => intro s t _ _ _ hoof; simp [walk] at hoof
  | succ f ih =>
    intro s t i hnp ⟨tb, ht⟩ hoof y hy yb hyb
    simp only [walk, ht] at hoof ⊢
    have htp : tb.pending = false := hnp t tb (Or.inl rfl) ht
    simp only [htp, Bool.false_eq_true, if_false, walkSync] at hoof ⊢
    have he0 : EqButUse s (s.modify t fun x => { x with useLim := true }) :=
      eqButUse_modify s t _ (fun _ => rfl)
    rcases hy with rfl | hy
    · -- t itself: set by the sync, untouched by the children
      rw [walk_fold_frame i cfg f y tb ht .set y tb.children _ he0 (fun c hc => hc)]
      · exact ⟨{ tb with useLim := true }, by simp [ht], rfl⟩
      · intro c hc hin
        obtain ⟨cb, hcb, hcp, -⟩ := i.wf.childBack y tb c ht hc
        have hanc : Anc s y c := Anc.parent (by rw [parentOf_eq hcb]; exact hcp)
        rcases hin with rfl | h
        · exact Anc.irrefl i.ranked hanc
        · exact Anc.irrefl i.ranked (hanc.trans h)
    · -- below a child
      obtain ⟨c0, hc0, hin0⟩ := (anc_iff_child i.wf t tb ht y hnp).1 hy
      have hyt : y ≠ t := by
        intro e; subst e; exact Anc.irrefl i.ranked hy
      -- generalised over the remaining children
      have hfold : ∀ (l : List Id) (acc : State × Nat), EqButUse s acc.1 → (∀ c ∈ l, c ∈ tb.children) →
          l.Nodup → c0 ∈ l →
          (l.foldl (fun (acc : State × Nat) c =>
            ((walk cfg f acc.1 c .set).1, acc.2 + (walk cfg f acc.1 c .set).2)) acc).1.oof = false →
          ∃ yb', (l.foldl (fun (acc : State × Nat) c =>
            ((walk cfg f acc.1 c .set).1, acc.2 + (walk cfg f acc.1 c .set).2)) acc).1.get y = some yb' ∧
            yb'.useLim = true := by
        intro l
        induction l with
        | nil => intro acc _ _ _ hm; cases hm
        | cons c l ihl =>
          intro acc he hsub hnd hm hoof'
          simp only [List.foldl_cons] at hoof' ⊢
          have hnd' := List.nodup_cons.1 hnd
          have he2 := he.trans (walk_eqButUse cfg f acc.1 c .set)
          rcases List.mem_cons.1 hm with rfl | hm'
          · -- this child: its walk sets the flag, the later ones do not touch y
            rw [walk_fold_frame i cfg f t tb ht .set y l
              ((walk cfg f acc.1 c0 .set).1, acc.2 + (walk cfg f acc.1 c0 .set).2) he2
              (fun d hd => hsub d (List.mem_cons_of_mem _ hd))]
            · have hoofc : (walk cfg f acc.1 c0 .set).1.oof = false :=
                oof_false_of_le (walk_fold_flagsLe cfg f .set l
                  ((walk cfg f acc.1 c0 .set).1, acc.2 + (walk cfg f acc.1 c0 .set).2)) hoof'
              obtain ⟨cb, hcb, hcp, -⟩ := i.wf.childBack t tb c0 ht hc0
              have hanc : Anc s t c0 := Anc.parent (by rw [parentOf_eq hcb]; exact hcp)
              obtain ⟨cb', hcb', -⟩ := he.get hcb
              obtain ⟨yb1, hyb1, -⟩ := he.get hyb
              apply ih acc.1 c0 ⟨i.wf.shapeEq he.shapeEq, i.ranked.shapeEq he.shapeEq⟩ ?_ ⟨cb', hcb'⟩ hoofc y
                ((InSub.congr he.parentOf).2 hin0) yb1 hyb1
              intro z zb hz hzb
              have hz' : InSub s c0 z := (InSub.congr he.parentOf).1 hz
              obtain ⟨zb0, hzb0, e0⟩ := he.symm.get hzb
              have hzt : InSub s t z := by
                rcases hz' with rfl | h
                · exact Or.inr hanc
                · exact Or.inr (hanc.trans h)
              have := hnp z zb0 hzt hzb0
              rw [e0] at this; exact this
            · intro d hd hin
              have hne : c0 ≠ d := fun e => hnd'.1 (e ▸ hd)
              exact sub_disjoint i t tb ht c0 d hc0 (hsub d (List.mem_cons_of_mem _ hd)) hne y ⟨hin0, hin⟩
          · exact ihl ((walk cfg f acc.1 c .set).1, acc.2 + (walk cfg f acc.1 c .set).2) he2
              (fun d hd => hsub d (List.mem_cons_of_mem _ hd)) hnd'.2 hm' hoof'
      exact hfold tb.children _ he0 (fun c hc => hc) (i.wf.childNodup t tb ht) hc0 hoof


/-- an object is as before, or has lost its USE flag and carries no limit itself -/
def Cleared (yb yb' : Obj) : Prop := yb' = yb ∨ (yb' = { yb with useLim := false } ∧ yb.hasLim = false)

theorem Cleared.trans {a b c : Obj} (h1 : Cleared a b) (h2 : Cleared b c) : Cleared a c := by
  rcases h1 with rfl | ⟨rfl, h1⟩
  · exact h2
  · rcases h2 with rfl | ⟨rfl, h2⟩
    · exact Or.inr ⟨rfl, h1⟩
    · exact Or.inr ⟨rfl, h1⟩

/-- `OP_CLEAR_MEMLIMIT` / `OP_NONE` only ever clear USE flags, and never on a context that carries a limit -/
theorem walk_cleared (cfg : Cfg) (f : Nat) :
    ∀ (s : State) (t : Nat) (op : WOp), op ≠ .set → ∀ (y : Nat) yb yb', s.get y = some yb →
      (walk cfg f s t op).1.get y = some yb' → Cleared yb yb' := by
  induction f with
  | zero => intro s t op _ y yb yb' h1 h2; simp only [walk, get_setOof] at h2; rw [h1] at h2; cases h2; exact Or.inl rfl
  | succ f ih =>
    intro s t op hop y yb yb' h1 h2
    simp only [walk] at h2
    cases ht : s.get t with
    | none => simp only [ht] at h2; rw [h1] at h2; cases h2; exact Or.inl rfl
    | some tb =>
      simp only [ht] at h2
      split at h2
      · rw [h1] at h2; cases h2; exact Or.inl rfl
      · -- the sync step
        have hsync : ∀ yb0, (walkSync s t tb op).1.get y = some yb0 → Cleared yb yb0 := by
          intro yb0 h0
          cases op with
          | set => exact absurd rfl hop
          | none => simp only [walkSync] at h0; rw [h1] at h0; cases h0; exact Or.inl rfl
          | clear =>
            simp only [walkSync] at h0
            split at h0
            · rw [h1] at h0; cases h0; exact Or.inl rfl
            · rename_i hh
              rw [get_modify_some] at h0
              rcases h0 with ⟨-, h0⟩ | ⟨rfl, o0, h0, rfl⟩
              · rw [h1] at h0; cases h0; exact Or.inl rfl
              · rw [h1] at h0; cases h0
                rw [ht] at h1; cases h1
                exact Or.inr ⟨rfl, by simpa using hh⟩
        have hop1 : (walkSync s t tb op).2 ≠ .set := by
          cases op with
          | set => exact absurd rfl hop
          | none => simp [walkSync]
          | clear => simp only [walkSync]; split <;> simp
        have hfold : ∀ (l : List Id) (acc : State × Nat) ya yz, acc.1.get y = some ya →
            (l.foldl (fun (acc : State × Nat) c =>
              ((walk cfg f acc.1 c (walkSync s t tb op).2).1,
                acc.2 + (walk cfg f acc.1 c (walkSync s t tb op).2).2)) acc).1.get y = some yz →
            Cleared ya yz := by
          intro l
          induction l with
          | nil =>
            intro acc ya yz ha hz
            simp only [List.foldl_nil] at hz
            rw [ha] at hz; cases hz; exact Or.inl rfl
          | cons c l ihl =>
            intro acc ya yz ha hz
            simp only [List.foldl_cons] at hz
            obtain ⟨ym, hym, -⟩ := (walk_eqButUse cfg f acc.1 c (walkSync s t tb op).2).get ha
            exact (ih acc.1 c _ hop1 y ya ym ha hym).trans
              (ihl ((walk cfg f acc.1 c (walkSync s t tb op).2).1,
                acc.2 + (walk cfg f acc.1 c (walkSync s t tb op).2).2) ym yz hym hz)
        obtain ⟨y0, hy0, -⟩ := (walkSync_eqButUse s t tb op).get h1
        exact (hsync y0 hy0).trans (hfold _ ((walkSync s t tb op).1, 0) y0 yb' hy0 h2)


theorem Anc.anc_live {s : State} (w : WFt s) {a x : Nat} (h : Anc s a x) : ∃ ab, s.get a = some ab := by
  induction h with
  | @parent x p hp =>
    obtain ⟨xb, hx, hpp⟩ := parentOf_some hp
    obtain ⟨pb, hpb, -⟩ := w.parentLive x xb p hx hpp; exact ⟨pb, hpb⟩
  | @up x p a hp _ ih => exact ih

/-- locality of the child loop: what happens inside the subtree of child `c0` is what the walk of
`c0` does, started in a state that agrees with the initial one on that subtree -/
theorem walk_fold_local {rk : Nat → Nat} {s : State} (i : InvT rk s) (cfg : Cfg) (f : Nat) (t : Nat) (tb : Obj)
    (ht : s.get t = some tb) (op1 : WOp) (c0 : Nat) :
    ∀ (l : List Id) (acc : State × Nat), EqButUse s acc.1 → (∀ c ∈ l, c ∈ tb.children) → l.Nodup → c0 ∈ l →
      ∃ accb : State, EqButUse s accb ∧ (∀ z, InSub s c0 z → accb.get z = acc.1.get z) ∧
        ∀ z, InSub s c0 z →
          (l.foldl (fun (acc : State × Nat) c =>
            ((walk cfg f acc.1 c op1).1, acc.2 + (walk cfg f acc.1 c op1).2)) acc).1.get z =
          (walk cfg f accb c0 op1).1.get z := by
  intro l
  induction l with
  | nil => intro acc _ _ _ hm; cases hm
  | cons c l ihl =>
    intro acc he hsub hnd hm
    simp only [List.foldl_cons]
    have hnd' := List.nodup_cons.1 hnd
    have he2 := he.trans (walk_eqButUse cfg f acc.1 c op1)
    have hc : c ∈ tb.children := hsub c List.mem_cons_self
    rcases List.mem_cons.1 hm with rfl | hm'
    · refine ⟨acc.1, he, fun z _ => rfl, ?_⟩
      intro z hz
      apply walk_fold_frame i cfg f t tb ht op1 z l
        ((walk cfg f acc.1 c0 op1).1, acc.2 + (walk cfg f acc.1 c0 op1).2) he2
        (fun d hd => hsub d (List.mem_cons_of_mem _ hd))
      intro d hd hin
      have hne : c0 ≠ d := fun e => hnd'.1 (e ▸ hd)
      exact sub_disjoint i t tb ht c0 d hc (hsub d (List.mem_cons_of_mem _ hd)) hne z ⟨hz, hin⟩
    · obtain ⟨accb, hb1, hb2, hb3⟩ := ihl ((walk cfg f acc.1 c op1).1, acc.2 + (walk cfg f acc.1 c op1).2) he2
        (fun d hd => hsub d (List.mem_cons_of_mem _ hd)) hnd'.2 hm'
      refine ⟨accb, hb1, ?_, hb3⟩
      intro z hz
      rw [hb2 z hz]
      apply walk_frame cfg f acc.1 c op1 ⟨i.wf.shapeEq he.shapeEq, i.ranked.shapeEq he.shapeEq⟩
      intro hin
      have hne : c0 ≠ c := fun e => hnd'.1 (e ▸ hm')
      exact sub_disjoint i t tb ht c0 c (hsub c0 (List.mem_cons_of_mem _ hm')) hc hne z
        ⟨hz, (InSub.congr he.parentOf).1 hin⟩

/-- `OP_CLEAR_MEMLIMIT`: a chunk below `t` only loses its USE flag when its parent has lost it -/
theorem walk_clear_parent {rk : Nat → Nat} (cfg : Cfg) (f : Nat) :
    ∀ (s : State) (t : Nat), InvT rk s →
      (∀ z zb, InSub s t z → s.get z = some zb → zb.pending = false) →
      ∀ y, Anc s t y → ∀ yb yb', s.get y = some yb → (walk cfg f s t .clear).1.get y = some yb' →
        yb.useLim = true → yb'.useLim = false →
        ∃ p pb', parentOf s y = some p ∧ (walk cfg f s t .clear).1.get p = some pb' ∧ pb'.useLim = false := by
  induction f with
  | zero =>
    intro s t _ _ y _ yb yb' h1 h2 hu hu'
    simp only [walk, get_setOof] at h2; rw [h1] at h2; cases h2; rw [hu] at hu'; cases hu'
  | succ f ih =>
    intro s t i hnp y hy yb yb' h1 h2 hu hu'
    obtain ⟨p0, hp0, -⟩ := hy.cases_parent
    have hyt : y ≠ t := by intro e; subst e; exact Anc.irrefl i.ranked hy
    -- t is live (y is beneath it)
    have htl : ∃ tb, s.get t = some tb := Anc.anc_live i.wf hy
    obtain ⟨tb, ht⟩ := htl
    simp only [walk, ht] at h2 ⊢
    have htp : tb.pending = false := hnp t tb (Or.inl rfl) ht
    simp only [htp, Bool.false_eq_true, if_false, walkSync] at h2 ⊢
    by_cases hh : tb.hasLim = true
    · -- the context carries a limit: OP_NONE below it, nothing changes
      exfalso
      simp only [hh, if_true] at h2
      have hfold : ∀ (l : List Id) (acc : State × Nat),
          (l.foldl (fun (acc : State × Nat) c =>
            ((walk cfg f acc.1 c .none).1, acc.2 + (walk cfg f acc.1 c .none).2)) acc).1.get y = acc.1.get y := by
        intro l
        induction l with
        | nil => intro acc; rfl
        | cons c l ihl => intro acc; simp only [List.foldl_cons]; rw [ihl, walk_none_get]
      rw [hfold, h1] at h2; cases h2
      rw [hu] at hu'; cases hu'
    · have hh' : tb.hasLim = false := by simpa using hh
      simp only [hh', Bool.false_eq_true, if_false] at h2 ⊢
      have he0 : EqButUse s (s.modify t fun x => { x with useLim := false }) :=
        eqButUse_modify s t _ (fun _ => rfl)
      obtain ⟨c0, hc0, hin0⟩ := (anc_iff_child i.wf t tb ht y hnp).1 hy
      obtain ⟨cb, hcb, hcp, -⟩ := i.wf.childBack t tb c0 ht hc0
      have hanc0 : Anc s t c0 := Anc.parent (by rw [parentOf_eq hcb]; exact hcp)
      obtain ⟨accb, hb1, hb2, hb3⟩ := walk_fold_local i cfg f t tb ht .clear c0 tb.children
        ((s.modify t fun x => { x with useLim := false }), 0) he0 (fun c hc => hc) (i.wf.childNodup t tb ht) hc0
      -- t itself is not touched by the child loop
      have htfin : (tb.children.foldl (fun (acc : State × Nat) c =>
            ((walk cfg f acc.1 c .clear).1, acc.2 + (walk cfg f acc.1 c .clear).2))
            ((s.modify t fun x => { x with useLim := false }), 0)).1.get t =
          some { tb with useLim := false } := by
        rw [walk_fold_frame i cfg f t tb ht .clear t tb.children _ he0 (fun c hc => hc)]
        · simp [ht]
        · intro c hc hin
          obtain ⟨cb', hcb', hcp', -⟩ := i.wf.childBack t tb c ht hc
          have hanc : Anc s t c := Anc.parent (by rw [parentOf_eq hcb']; exact hcp')
          rcases hin with rfl | h
          · exact Anc.irrefl i.ranked hanc
          · exact Anc.irrefl i.ranked (hanc.trans h)
      rcases hin0 with rfl | hin0
      · -- y is a child of t
        exact ⟨t, _, by rw [parentOf_eq hcb]; exact hcp, htfin, rfl⟩
      · -- deeper: the walk of c0 decides
        rw [hb3 y (Or.inr hin0)] at h2
        have hya : accb.get y = some yb := by
          rw [hb2 y (Or.inr hin0)]; simp [Ne.symm hyt, h1]
        have hnpc : ∀ z zb, InSub accb c0 z → accb.get z = some zb → zb.pending = false := by
          intro z zb hz hzb
          have hz' : InSub s c0 z := (InSub.congr hb1.parentOf).1 hz
          obtain ⟨zb0, hzb0, e0⟩ := hb1.symm.get hzb
          have hzt : InSub s t z := by
            rcases hz' with rfl | h
            · exact Or.inr hanc0
            · exact Or.inr (hanc0.trans h)
          have := hnp z zb0 hzt hzb0
          rw [e0] at this; exact this
        obtain ⟨p, pb', hp1, hp2, hp3⟩ := ih accb c0 ⟨i.wf.shapeEq hb1.shapeEq, i.ranked.shapeEq hb1.shapeEq⟩
          hnpc y ((Anc.congr hb1.parentOf).2 hin0) yb yb' hya h2 hu hu'
        rw [hb1.parentOf] at hp1
        refine ⟨p, pb', hp1, ?_, hp3⟩
        -- p is in the subtree of c0 as well
        have hpin : InSub s c0 p := by
          obtain ⟨p', hp', hor⟩ := hin0.cases_parent
          rw [hp1] at hp'; cases hp'
          rcases hor with rfl | hor
          · exact Or.inl rfl
          · exact Or.inr hor
        rw [hb3 p hpin]; exact hp2

end Usual.C01
