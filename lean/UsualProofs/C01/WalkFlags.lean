import UsualProofs.C01.WalkSum
/-! What `memlimit_walk` does to the USE flags. -/
set_option linter.unusedSimpArgs false
set_option linter.unusedVariables false
namespace Usual.C01
open Finset

/-- with `OP_NONE` the walk changes no object -/
theorem walk_none_get (cfg : Cfg) (f : Nat) (s : State) (t : Nat) (y : Nat) :
    (walk cfg f s t .none).1.get y = s.get y := by
  induction f generalizing s t with
  | zero => simp [walk]
  | succ f ih =>
    simp only [walk]
    split
    · rfl
    · split
      · rfl
      · simp only [walkSync]
        have hfold : ∀ (l : List Id) (acc : State × Nat),
            (l.foldl (fun (acc : State × Nat) c =>
              ((walk cfg f acc.1 c .none).1, acc.2 + (walk cfg f acc.1 c .none).2)) acc).1.get y = acc.1.get y := by
          intro l
          induction l with
          | nil => intro acc; rfl
          | cons c l ihl =>
            intro acc
            simp only [List.foldl_cons]
            rw [ihl, ih]
        exact hfold _ _

/-- the walk does not touch anything outside the subtree of `t` -/
theorem walk_frame {rk : Nat → Nat} (cfg : Cfg) (f : Nat) :
    ∀ (s : State) (t : Nat) (op : WOp), Inv rk s → ∀ y, ¬ InSub s t y →
      (walk cfg f s t op).1.get y = s.get y := by
  induction f with
  | zero => intro s t op _ y _; simp [walk]
  | succ f ih =>
    intro s t op i y hy
    simp only [walk]
    cases ht : s.get t with
    | none => rfl
    | some tb =>
      simp only []
      split
      · rfl
      · have hyt : y ≠ t := fun e => hy (Or.inl e)
        have h0 : (walkSync s t tb op).1.get y = s.get y := by
          cases op with
          | none => rfl
          | set => simp [walkSync, Ne.symm hyt]
          | clear =>
            simp only [walkSync]
            split
            · rfl
            · simp [Ne.symm hyt]
        have hfold : ∀ (l : List Id) (acc : State × Nat), EqButUse s acc.1 → (∀ c ∈ l, c ∈ tb.children) →
            (l.foldl (fun (acc : State × Nat) c =>
              ((walk cfg f acc.1 c (walkSync s t tb op).2).1,
                acc.2 + (walk cfg f acc.1 c (walkSync s t tb op).2).2)) acc).1.get y = acc.1.get y := by
          intro l
          induction l with
          | nil => intro acc _ _; rfl
          | cons c l ihl =>
            intro acc he hsub
            simp only [List.foldl_cons]
            have hc : c ∈ tb.children := hsub c List.mem_cons_self
            obtain ⟨cb, hcb, hcp, -⟩ := i.wf.childBack t tb c ht hc
            have hanc : Anc s t c := Anc.parent (by rw [parentOf_eq hcb]; exact hcp)
            have he2 := he.trans (walk_eqButUse cfg f acc.1 c (walkSync s t tb op).2)
            have hrec := ihl ((walk cfg f acc.1 c (walkSync s t tb op).2).1,
              acc.2 + (walk cfg f acc.1 c (walkSync s t tb op).2).2) he2
              (fun d hd => hsub d (List.mem_cons_of_mem _ hd))
            rw [hrec]
            apply ih acc.1 c _ ⟨i.wf.shapeEq he.shapeEq, i.ranked.shapeEq he.shapeEq⟩
            intro hin
            have hin' : InSub s c y := (InSub.congr he.parentOf).1 hin
            apply hy
            rcases hin' with rfl | h
            · exact Or.inr hanc
            · exact Or.inr (hanc.trans h)
        rw [hfold _ _ (walkSync_eqButUse s t tb op) (fun c hc => hc), h0]

end Usual.C01
