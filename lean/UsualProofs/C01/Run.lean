import UsualProofs.C01.Promote
/-! The structural invariant is preserved by `_talloc_free` / `_talloc_unlink` / `free_children`
(`run`), for every run whose ghost flags stay clear. -/
set_option linter.unusedSimpArgs false
set_option linter.unusedVariables false
namespace Usual.C01

structure Inv (rk : Nat → Nat) (s : State) : Prop where
  wf : WFp s
  ranked : Ranked rk s

theorem Inv.shapeEq {rk : Nat → Nat} {s s' : State} (h : ShapeEq s s') (i : Inv rk s) : Inv rk s' :=
  ⟨i.wf.shapeEq h, i.ranked.shapeEq h⟩

/-- the part of `Inv` the memlimit accounting relies on -/
structure InvT (rk : Nat → Nat) (s : State) : Prop where
  wf : WFt s
  ranked : Ranked rk s

theorem Inv.t {rk : Nat → Nat} {s : State} (i : Inv rk s) : InvT rk s := ⟨i.wf.tree, i.ranked⟩

theorem InvT.shapeEq {rk : Nat → Nat} {s s' : State} (h : ShapeEq s s') (i : InvT rk s) : InvT rk s' :=
  ⟨i.wf.shapeEq h, i.ranked.shapeEq h⟩

/-- nothing becomes pending that was not pending before -/
def NoNewPending (s s' : State) : Prop :=
  ∀ (y : Nat) yo', s'.get y = some yo' → yo'.pending = true → ∃ yo, s.get y = some yo ∧ yo.pending = true

/-- plain objects of rank below `b` stay where they are -/
def Stable (rk : Nat → Nat) (b : Nat) (s s' : State) : Prop :=
  ∀ (y : Nat) yo, s.get y = some yo → yo.kind = .plain → rk y < b →
    ∃ yo', s'.get y = some yo' ∧ yo'.pending = yo.pending ∧ yo'.parent = yo.parent ∧ yo'.kind = .plain

def PendBelow (rk : Nat → Nat) (s : State) (b : Nat) (ex : Option Nat) : Prop :=
  ∀ (y : Nat) yo, s.get y = some yo → yo.pending = true → some y ≠ ex → rk y < b

structure Good (rk : Nat → Nat) (b : Nat) (s s' : State) : Prop where
  inv : Inv rk s'
  nnp : NoNewPending s s'
  stable : Stable rk b s s'
  null : s'.nullCtx = s.nullCtx

theorem NoNewPending.refl (s : State) : NoNewPending s s := fun y yo h hp => ⟨yo, h, hp⟩
theorem NoNewPending.trans {a b c : State} (h1 : NoNewPending a b) (h2 : NoNewPending b c) :
    NoNewPending a c := by
  intro y yo' h hp
  obtain ⟨yo, h3, h4⟩ := h2 y yo' h hp
  exact h1 y yo h3 h4

theorem Stable.refl (rk : Nat → Nat) (b : Nat) (s : State) : Stable rk b s s :=
  fun y yo h hk _ => ⟨yo, h, rfl, rfl, hk⟩
theorem Stable.trans {rk : Nat → Nat} {b : Nat} {s1 s2 s3 : State} (h1 : Stable rk b s1 s2)
    (h2 : Stable rk b s2 s3) : Stable rk b s1 s3 := by
  intro y yo h hk hb
  obtain ⟨yo2, e1, e2, e3, e4⟩ := h1 y yo h hk hb
  obtain ⟨yo3, f1, f2, f3, f4⟩ := h2 y yo2 e1 e4 hb
  exact ⟨yo3, f1, f2.trans e2, f3.trans e3, f4⟩
theorem Stable.mono {rk : Nat → Nat} {b b' : Nat} {s s' : State} (h : Stable rk b s s') (hb : b' ≤ b) :
    Stable rk b' s s' := fun y yo hy hk hlt => h y yo hy hk (Nat.lt_of_lt_of_le hlt hb)

theorem Good.trans {rk : Nat → Nat} {b : Nat} {s1 s2 s3 : State} (h1 : Good rk b s1 s2) (h2 : Good rk b s2 s3) :
    Good rk b s1 s3 := ⟨h2.inv, h1.nnp.trans h2.nnp, h1.stable.trans h2.stable, h2.null.trans h1.null⟩

theorem Good.mono {rk : Nat → Nat} {b b' : Nat} {s s' : State} (h : Good rk b s s') (hb : b' ≤ b) :
    Good rk b' s s' := ⟨h.inv, h.nnp, h.stable.mono hb, h.null⟩

theorem NoNewPending.of_shapeEq {s s' : State} (h : ShapeEq s s') : NoNewPending s s' := by
  intro y yo' hy hp
  obtain ⟨yo, h0, -, -, -, -, e5, -⟩ := h.symm.get hy
  exact ⟨yo, h0, by rw [e5]; exact hp⟩

theorem Stable.of_shapeEq {rk : Nat → Nat} {b : Nat} {s s' : State} (h : ShapeEq s s') : Stable rk b s s' := by
  intro y yo hy hk _
  obtain ⟨yo', h0, e1, -, -, e4, e5, -⟩ := h.get hy
  exact ⟨yo', h0, e5, e1, e4 ▸ hk⟩

theorem Good.of_shapeEq {rk : Nat → Nat} {b : Nat} {s s' : State} (i : Inv rk s) (h : ShapeEq s s') :
    Good rk b s s' := ⟨i.shapeEq h, .of_shapeEq h, .of_shapeEq h, h.1⟩

theorem Good.refl {rk : Nat → Nat} {b : Nat} {s : State} (i : Inv rk s) : Good rk b s s :=
  Good.of_shapeEq i (ShapeEq.refl s)

theorem PendBelow.of_nnp {rk : Nat → Nat} {s s' : State} {b : Nat} {ex : Option Nat}
    (h : PendBelow rk s b ex) (hn : NoNewPending s s') : PendBelow rk s' b ex := by
  intro y yo' hy hp hne
  obtain ⟨yo, h0, h1⟩ := hn y yo' hy hp
  exact h y yo h0 h1 hne


theorem climbPending_spec {rk : Nat → Nat} {s : State} (i : Inv rk s) (f : Nat) (p0 : Nat) (pb : Obj)
    (hp : s.get p0 = some pb) (hk : pb.kind = .plain) (res : Option Id)
    (h : climbPending f s (some p0) = some res) :
    res = none ∨ ∃ q qb, res = some q ∧ s.get q = some qb ∧ qb.kind = .plain ∧ qb.pending = false ∧
      rk q ≤ rk p0 := by
  induction f generalizing p0 pb with
  | zero => simp [climbPending] at h
  | succ f ih =>
    simp only [climbPending, hp] at h
    by_cases hpe : pb.pending = true
    · simp only [hpe, if_true] at h
      cases hpar : pb.parent with
      | none =>
        rw [hpar] at h
        cases f with
        | zero => simp [climbPending] at h
        | succ f => simp only [climbPending, Option.some.injEq] at h; left; exact h.symm
      | some pp =>
        rw [hpar] at h
        obtain ⟨ppb, hppb, hppk, -⟩ := i.wf.parentLive p0 pb pp hp hpar
        have hlt := i.ranked.parentLt p0 pb pp hp hpar
        rcases ih pp ppb hppb hppk h with h1 | ⟨q, qb, h1, h2, h3, h4, h5⟩
        · left; exact h1
        · right; exact ⟨q, qb, h1, h2, h3, h4, by omega⟩
    · have hpe' : pb.pending = false := by simpa using hpe
      simp only [hpe', Bool.false_eq_true, if_false, Option.some.injEq] at h
      right
      exact ⟨p0, pb, h.symm, hp, hk, hpe', Nat.le_refl _⟩

/-- refusal / `talloc_set_destructor`: only the destructor script of a plain object changes -/
theorem good_setDtor {rk : Nat → Nat} {b : Nat} {s : State} {x : Nat} {xb : Obj} (i : Inv rk s)
    (hx : s.get x = some xb) (hk : xb.kind = .plain) (d : Dtor) :
    Good rk b s (s.modify x fun o => { o with dtor := d }) := by
  refine ⟨⟨setDtor_wf d i.wf hx hk, setDtor_ranked d i.ranked⟩, ?_, ?_, rfl⟩
  · intro y yo' hy hp
    rw [get_modify_some] at hy
    rcases hy with ⟨-, hy⟩ | ⟨rfl, o0, hy, rfl⟩
    · exact ⟨yo', hy, hp⟩
    · exact ⟨o0, hy, hp⟩
  · intro y yo hy hkk _
    by_cases e : x = y
    · subst e; exact ⟨{ yo with dtor := d }, by simp [hy], rfl, rfl, hkk⟩
    · exact ⟨yo, by simp [e, hy], rfl, rfl, hkk⟩

/-- a TRef / `.memlimit` chunk is released -/
theorem good_freeLeaf {rk : Nat → Nat} {b : Nat} {s s' : State} {r : Nat} {rb : Obj} (i : Inv rk s)
    (hr : s.get r = some rb) (hk : rb.kind ≠ .plain) (h : ShapeEq (freeLeafS s r) s') : Good rk b s s' := by
  have hg := freeLeafS_get i.wf hr hk
  have i1 : Inv rk (freeLeafS s r) := ⟨freeLeafS_wf i.wf hr hk, freeLeafS_ranked i.wf hr hk i.ranked⟩
  refine ⟨i1.shapeEq h, ?_, ?_, h.1.trans (nullCtx_freeLeafS s r)⟩
  · refine NoNewPending.trans ?_ (.of_shapeEq h)
    intro y yo' hy hp
    rw [hg] at hy; unfold eraseAll at hy
    by_cases e : y = r
    · simp [e] at hy
    · simp only [e, if_false] at hy
      obtain ⟨o0, h0, rfl⟩ := Option.map_eq_some_iff.1 hy
      exact ⟨o0, h0, hp⟩
  · refine Stable.trans ?_ (.of_shapeEq h)
    intro y yo hy hkk _
    have e : y ≠ r := by intro e; subst e; rw [hr] at hy; cases hy; exact hk hkk
    exact ⟨{ yo with children := yo.children.erase r, refs := yo.refs.erase r },
      by rw [hg]; unfold eraseAll; simp [e, hy], rfl, rfl, hkk⟩


/-- a plain object is moved under another parent (throw_child, promotion, reparent) -/
theorem good_moveS {rk : Nat → Nat} {b : Nat} {s s' : State} {c : Nat} {cb : Obj} (i : Inv rk s)
    (hc : s.get c = some cb) (hk : cb.kind = .plain) (hnp : cb.pending = false) (tnew : Option Id)
    (hq : ∀ q, tnew = some q → (∃ qb, s.get q = some qb ∧ qb.kind = .plain) ∧ rk q < rk c)
    (hnull : s.nullCtx ≠ some c) (hb : b ≤ rk c) (h : ShapeEq (moveS s c tnew false) s') :
    Good rk b s s' := by
  have hself : tnew ≠ some c := by
    intro e; have := (hq c e).2; omega
  have hself' : cb.parent ≠ some c := by
    intro e; have := i.ranked.parentLt c cb c hc e; omega
  have hir : isRef cb = false := by simp [isRef, hk]
  have hkl : cb.kind ≠ .limit := by rw [hk]; simp
  -- the moved state satisfies the invariant
  have i1 : Inv rk (moveS s c tnew false) := by
    by_cases hne : tnew = cb.parent
    · cases htn : tnew with
      | none =>
        -- top level stays top level: nothing changes
        have hpn : cb.parent = none := by rw [← hne, htn]
        refine i.shapeEq (shapeEq_get_eq (nullCtx_moveS _ _ _ _) ?_)
        intro j
        rw [moveS_getG hc none false (by simp) (by simp [hpn])]
        by_cases e : j = c
        · subst e; simp [hc, hpn]
          cases cb; simp_all
        · simp only [e, if_false, hpn]; cases s.get j <;> simp
      | some p =>
        have hpp : cb.parent = some p := by rw [← hne, htn]
        have hpc : p ≠ c := fun e => hself' (by rw [hpp, e])
        have := moveS_same_wf i.wf hc p hpp hnp hkl hpc
        rw [hir] at this
        exact ⟨this, moveS_same_ranked i.ranked hc p false hpp hpc⟩
    · have := moveS_wf i.wf hc tnew hnp hkl hne hself hself' (fun q e => (hq q e).1) hnull
      rw [hir] at this
      refine ⟨this, moveS_ranked i.ranked hc tnew false hne hself hself' ?_⟩
      intro q e
      exact ⟨(hq q e).2, fun tt hkk => by rw [hk] at hkk; cases hkk⟩
  have hg := moveS_getG hc tnew false hself hself'
  refine ⟨i1.shapeEq h, ?_, ?_, h.1.trans (nullCtx_moveS _ _ _ _)⟩
  · refine NoNewPending.trans ?_ (.of_shapeEq h)
    intro y yo' hy hp
    rw [hg] at hy
    by_cases e : y = c
    · subst e; simp only [if_true, Option.some.injEq] at hy; subst hy; exact ⟨cb, hc, hp⟩
    · simp only [e, if_false] at hy
      obtain ⟨o0, h0, rfl⟩ := Option.map_eq_some_iff.1 hy
      exact ⟨o0, h0, hp⟩
  · refine Stable.trans ?_ (.of_shapeEq h)
    intro y yo hy hkk hlt
    have e : y ≠ c := by intro e; subst e; omega
    rw [hg]; simp only [e, if_false, hy, Option.map_some]
    exact ⟨_, rfl, rfl, rfl, hkk⟩

end Usual.C01
