import Usual.C01.Talloc
import Usual.C01.Observe
/-! Basic facts about the heap of the talloc model. -/
namespace Usual.C01
open State

@[simp] theorem get_modify (s : State) (i j : Nat) (f : Obj → Obj) :
    (s.modify i f).get j = if i = j then (s.get j).map f else s.get j := by
  unfold State.modify State.get
  simp only [List.getElem?_modify]
  by_cases h : i = j
  · subst h; cases s.heap[i]? <;> simp [Option.join]
  · cases s.heap[j]? <;> simp [h]

@[simp] theorem get_remove (s : State) (i j : Nat) :
    (s.remove i).get j = if i = j then none else s.get j := by
  unfold State.remove State.get
  simp only [List.getElem?_modify]
  by_cases h : i = j
  · subst h; cases s.heap[i]? <;> simp [Option.join]
  · cases s.heap[j]? <;> simp [h]

theorem get_modify_some (s : State) (i j : Nat) (f : Obj → Obj) (o : Obj) :
    (s.modify i f).get j = some o ↔
      (i ≠ j ∧ s.get j = some o) ∨ (i = j ∧ ∃ o0, s.get j = some o0 ∧ o = f o0) := by
  rw [get_modify]
  by_cases h : i = j
  · subst h
    simp only [if_true, ne_eq, not_true_eq_false, false_and, true_and, false_or]
    cases s.get i with
    | none => simp
    | some o0 => simp [eq_comm]
  · simp [h]

theorem get_remove_some (s : State) (i j : Nat) (o : Obj) :
    (s.remove i).get j = some o ↔ i ≠ j ∧ s.get j = some o := by
  rw [get_remove]
  by_cases h : i = j <;> simp [h]

theorem get_none_of_ge (s : State) (j : Nat) (h : s.heap.length ≤ j) : s.get j = none := by
  unfold State.get
  rw [List.getElem?_eq_none h]; rfl

theorem lt_of_get (s : State) (j : Nat) (o : Obj) (h : s.get j = some o) : j < s.heap.length := by
  by_cases hj : j < s.heap.length
  · exact hj
  · rw [get_none_of_ge s j (by omega)] at h; cases h

@[simp] theorem get_push (s : State) (o : Obj) (j : Nat) :
    (s.push o).get j = if j = s.heap.length then some o else s.get j := by
  unfold State.push State.get
  by_cases h : j = s.heap.length
  · subst h; simp [Option.join]
  · simp only [h, if_false]
    by_cases h2 : j < s.heap.length
    · rw [List.getElem?_append_left h2]
    · rw [List.getElem?_eq_none (by simp; omega), List.getElem?_eq_none (by omega)]

@[simp] theorem get_addLog (s : State) (e : Event) (j : Nat) : (s.addLog e).get j = s.get j := rfl
@[simp] theorem get_setOof (s : State) (j : Nat) : (s.setOof).get j = s.get j := rfl
@[simp] theorem heap_addLog (s : State) (e : Event) : (s.addLog e).heap = s.heap := rfl
@[simp] theorem heap_setOof (s : State) : (s.setOof).heap = s.heap := rfl
@[simp] theorem nullCtx_modify (s : State) (i : Nat) (f : Obj → Obj) : (s.modify i f).nullCtx = s.nullCtx := rfl
@[simp] theorem nullCtx_remove (s : State) (i : Nat) : (s.remove i).nullCtx = s.nullCtx := rfl
@[simp] theorem nullCtx_push (s : State) (o : Obj) : (s.push o).nullCtx = s.nullCtx := rfl
@[simp] theorem nullCtx_addLog (s : State) (e : Event) : (s.addLog e).nullCtx = s.nullCtx := rfl
@[simp] theorem nullCtx_setOof (s : State) : (s.setOof).nullCtx = s.nullCtx := rfl
@[simp] theorem oof_modify (s : State) (i : Nat) (f : Obj → Obj) : (s.modify i f).oof = s.oof := rfl
@[simp] theorem oof_remove (s : State) (i : Nat) : (s.remove i).oof = s.oof := rfl
@[simp] theorem oof_push (s : State) (o : Obj) : (s.push o).oof = s.oof := rfl
@[simp] theorem oof_addLog (s : State) (e : Event) : (s.addLog e).oof = s.oof := rfl
@[simp] theorem oof_setOof (s : State) : (s.setOof).oof = true := rfl
@[simp] theorem stuck_modify (s : State) (i : Nat) (f : Obj → Obj) : (s.modify i f).stuck = s.stuck := rfl
@[simp] theorem stuck_remove (s : State) (i : Nat) : (s.remove i).stuck = s.stuck := rfl
@[simp] theorem stuck_push (s : State) (o : Obj) : (s.push o).stuck = s.stuck := rfl
@[simp] theorem stuck_addLog (s : State) (e : Event) : (s.addLog e).stuck = s.stuck := rfl
@[simp] theorem stuck_setOof (s : State) : (s.setOof).stuck = s.stuck := rfl
@[simp] theorem stuck_setStuck (s : State) : (s.setStuck).stuck = true := rfl
@[simp] theorem oof_setStuck (s : State) : (s.setStuck).oof = s.oof := rfl
@[simp] theorem get_setStuck (s : State) (j : Nat) : (s.setStuck).get j = s.get j := rfl
@[simp] theorem heap_setStuck (s : State) : (s.setStuck).heap = s.heap := rfl
@[simp] theorem nullCtx_setStuck (s : State) : (s.setStuck).nullCtx = s.nullCtx := rfl
@[simp] theorem log_setStuck (s : State) : (s.setStuck).log = s.log := rfl
@[simp] theorem log_modify (s : State) (i : Nat) (f : Obj → Obj) : (s.modify i f).log = s.log := rfl
@[simp] theorem log_remove (s : State) (i : Nat) : (s.remove i).log = s.log := rfl
@[simp] theorem log_push (s : State) (o : Obj) : (s.push o).log = s.log := rfl
@[simp] theorem log_setOof (s : State) : (s.setOof).log = s.log := rfl
@[simp] theorem log_addLog (s : State) (e : Event) : (s.addLog e).log = e :: s.log := rfl

@[simp] theorem length_modify (s : State) (i : Nat) (f : Obj → Obj) :
    (s.modify i f).heap.length = s.heap.length := by simp [State.modify]
@[simp] theorem length_remove (s : State) (i : Nat) : (s.remove i).heap.length = s.heap.length := by
  simp [State.remove]
@[simp] theorem length_push (s : State) (o : Obj) : (s.push o).heap.length = s.heap.length + 1 := by
  simp [State.push]

end Usual.C01
