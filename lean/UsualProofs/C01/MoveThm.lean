import UsualProofs.C01.MoveAcct
/-! `move_memlimit` as a whole keeps the accounting and flag invariants. -/
set_option linter.unusedSimpArgs false
set_option linter.unusedVariables false
namespace Usual.C01

theorem hasUse_some {q : State} {p : Nat} {pb : Obj} (h : q.get p = some pb) : hasUse q (some p) = pb.useLim := by
  simp [hasUse, h]

theorem fuel_pos (s : State) : ∃ f, s.fuel = f + 1 := ⟨_, fuel_succ s⟩

/-- **accounting, move**: after the structural move of `t` (state `s3`), `move_memlimit(t, new, old)`
re-establishes the accounting invariant and the flag invariant -/
theorem acct_moveMemlimit {rk : Nat → Nat} {s s3 : State} (cfg : Cfg) (hg : cfg.fixGone = true)
    (hw : cfg.fixWalk = true) (i : InvT rk s) (fl : FlagsInv s) (ac : AcctInv s) (t : Nat) (tnew : Option Id)
    (sm : StructMove s s3 t tnew) (i3 : InvT rk s3) (tb : Obj) (ht : s.get t = some tb) (htk : tb.kind ≠ .limit)
    (hnp : ∀ z zb, InSub s t z → s.get z = some zb → zb.pending = false)
    (hnewp : ∀ n, tnew = some n → ∃ nb, s.get n = some nb ∧ nb.kind = .plain)
    (hoof : (moveMemlimit cfg s3 t tnew tb.parent).oof = false) :
    AcctInv (moveMemlimit cfg s3 t tnew tb.parent) ∧ FlagsInv (moveMemlimit cfg s3 t tnew tb.parent) := by
  obtain ⟨tb3, ht3, ts1, ts2, ts3, ts4, ts5, ts6⟩ := sm.get ht
  have flx := sm.flagsEx fl tb ht htk
  have hnp3 : ∀ z zb, InSub s3 t z → s3.get z = some zb → zb.pending = false := by
    intro z zb hz hzb
    obtain ⟨zb0, h0, -, -, -, -, -, e6⟩ := sm.get' hzb
    rw [e6]; exact hnp z zb0 ((inSub_move sm.moved i.ranked i3.ranked z).1 hz) h0
  have hpar3 : tb3.parent = tnew := by rw [← parentOf_eq ht3]; exact sm.newParent
  -- flags of the two parents
  have hold : ∀ op, tb.parent = some op → ∃ opb opb3, s.get op = some opb ∧ s3.get op = some opb3 ∧
      opb.kind = .plain ∧ opb3.useLim = opb.useLim := by
    intro op hop
    obtain ⟨opb, hopb, hopk, -⟩ := i.wf.parentLive t tb op ht hop
    obtain ⟨opb3, h3, -, e2, -⟩ := sm.get hopb
    exact ⟨opb, opb3, hopb, h3, hopk, e2⟩
  -- no limit above a place whose USE flag is clear
  have hK1 : hasUse s3 tb.parent = false → ∀ (l : Nat) lb ctx, s.get l = some lb → lb.kind = .limit →
      lb.parent = some ctx → ¬ Anc s ctx t := by
    intro hu l lb ctx hl hk hp hanc
    obtain ⟨op, hpo, hor⟩ := hanc.cases_parent
    rw [parentOf_eq ht] at hpo
    obtain ⟨opb, opb3, hopb, hopb3, hopk, eu⟩ := hold op hpo
    rw [hpo, hasUse_some hopb3, eu] at hu
    obtain ⟨cb, hcb, -, -⟩ := i.wf.parentLive l lb ctx hl hp
    have hch := fl.chunkHas l lb ctx cb hl hk hp hcb
    have hcu := fl.hasUse ctx cb hcb hch
    rcases hor with rfl | hor
    · rw [hopb] at hcb; cases hcb; rw [hcu] at hu; cases hu
    · have := use_down i.wf fl hor cb opb hcb hopb hcu hopk
      rw [this] at hu; cases hu
  have hK2 : hasUse s3 tnew = false → ∀ (l : Nat) lb ctx, s.get l = some lb → lb.kind = .limit →
      lb.parent = some ctx → ¬ Anc s3 ctx t := by
    intro hu l lb ctx hl hk hp hanc
    obtain ⟨n, hpn, hor⟩ := hanc.cases_parent
    rw [sm.newParent] at hpn
    obtain ⟨nb, hnb, hnk⟩ := hnewp n hpn
    obtain ⟨nb3, hnb3, -, e2, -⟩ := sm.get hnb
    rw [hpn, hasUse_some hnb3, e2] at hu
    have hnout : ¬ InSub s t n := by
      intro hin
      have h1 := i3.ranked.parentLt t tb3 n ht3 (by rw [hpar3]; exact hpn)
      rcases hin with rfl | h
      · omega
      · have := h.rank i.ranked; omega
    obtain ⟨cb, hcb, -, -⟩ := i.wf.parentLive l lb ctx hl hp
    have hch := fl.chunkHas l lb ctx cb hl hk hp hcb
    have hcu := fl.hasUse ctx cb hcb hch
    rcases hor with rfl | hor
    · rw [hnb] at hcb; cases hcb; rw [hcu] at hu; cases hu
    · have hor' : Anc s ctx n := (anc_move_outside sm.moved ctx n hnout).1 hor
      have := use_down i.wf fl hor' cb nb hcb hnb hcu hnk
      rw [this] at hu; cases hu
  unfold moveMemlimit at hoof ⊢
  simp only [] at hoof ⊢
  by_cases hboth : (!hasUse s3 tb.parent && !hasUse s3 tnew) = true
  · -- no limit anywhere near: nothing to do
    simp only [hboth, if_true] at hoof ⊢
    simp only [Bool.and_eq_true, Bool.not_eq_true'] at hboth
    obtain ⟨ho, hn⟩ := hboth
    have fl3 : FlagsInv s3 := by
      refine ⟨flx.hasUse, ?_, flx.chunkHas, flx.chunkUnique⟩
      intro x o p po hx hpar hp hpu hk
      by_cases hxt : x = t
      · subst hxt
        rw [ht3] at hx; cases hx
        rw [hpar3] at hpar
        rw [hpar, hasUse_some hp, hpu] at hn; cases hn
      · exact flx.inherit x o p po hxt hx hpar hp hpu hk
    have hst := acct_stages cfg hg i ac t tnew sm i3 (EqButUse.refl s3) fl3
      tb ht htk (subCharge s t) rfl false false 0 (fun _ => hK1 ho) (fun _ => hK2 hn) s3 (by simp) s3 (by simp)
      hoof hnewp
    exact ⟨hst.1, fl3⟩
  · simp only [hboth, Bool.false_eq_true, if_false] at hoof ⊢
    generalize hold' : hasUse s3 tb.parent = oldlim at hoof hboth hK1 ⊢
    generalize hnew' : hasUse s3 tnew = newlim at hoof hboth hK2 ⊢
    have hoofw : (walk cfg s3.fuel s3 t (moveWalkOp oldlim newlim)).1.oof = false :=
      oof_false_of_le (moveApply_flagsLe _ _ _ _ _ _ _ _ _) hoof
    -- the flag invariant after the walk
    have fl1 : FlagsInv (walk cfg s3.fuel s3 t (moveWalkOp oldlim newlim)).1 := by
      apply flags_walk i3 cfg s3.fuel t tb3 ht3 (by rw [ts5]; exact htk) hnp3 flx _ _ hoofw
      cases oldlim <;> cases newlim
      · simp at hboth
      · simp [moveWalkOp]
      · simp only [moveWalkOp, Bool.not_false, Bool.and_true, if_true]
        intro p pb hp hpb
        rw [hpar3] at hp
        rw [hp, hasUse_some hpb] at hnew'; exact hnew'
      · simp only [moveWalkOp, Bool.not_true, Bool.and_false, Bool.false_eq_true, if_false]
        -- both sides limited: t carried the flag already
        cases hpar : tb.parent with
        | none => rw [hpar] at hold'; simp [hasUse] at hold'
        | some op =>
          obtain ⟨opb, opb3, hopb, hopb3, hopk, eu⟩ := hold op hpar
          rw [hpar, hasUse_some hopb3, eu] at hold'
          rw [ts2]; exact fl.inherit t tb op opb ht hpar hopb hold' htk
    have hWs := walk_sum (rk := rk) cfg s3.fuel s3 t (moveWalkOp oldlim newlim) i3 hnp3 ⟨tb3, ht3⟩ hoofw
    rw [subCharge_eq sm i.ranked i3.ranked cfg hw] at hWs
    have he := walk_eqButUse cfg s3.fuel s3 t (moveWalkOp oldlim newlim)
    -- root flag after the walk
    have hroot : ∀ tb1, (walk cfg s3.fuel s3 t (moveWalkOp oldlim newlim)).1.get t = some tb1 →
        (newlim = true → tb1.useLim = true) ∧ (newlim = false → tb1.hasLim = false → tb1.useLim = false) := by
      intro tb1 h1
      cases oldlim <;> cases newlim
      · simp at hboth
      · refine ⟨fun _ => ?_, fun h => (by cases h)⟩
        simp only [moveWalkOp, Bool.not_false, Bool.and_true, Bool.not_true, Bool.and_false,
          Bool.false_eq_true, if_false, if_true] at h1 hoofw
        obtain ⟨o', ho', hu'⟩ := walk_set cfg s3.fuel s3 t i3 hnp3 ⟨tb3, ht3⟩ hoofw t (Or.inl rfl) tb3 ht3
        rw [h1] at ho'; cases ho'; exact hu'
      · refine ⟨fun h => (by cases h), fun _ hh => ?_⟩
        simp only [moveWalkOp, Bool.not_false, Bool.and_true, if_true] at h1
        obtain ⟨fz, hfz⟩ := fuel_pos s3
        rw [hfz] at h1
        obtain ⟨tb1', h1', e1⟩ := (walk_eqButUse cfg (fz + 1) s3 t .clear).get ht3
        rw [h1] at h1'; cases h1'
        have hh3 : tb3.hasLim = false := by rw [e1] at hh; exact hh
        rw [walk_clear_root i3 cfg fz t tb3 ht3 (by rw [ts6]; exact hnp t tb (Or.inl rfl) ht) hh3] at h1
        cases h1; rfl
      · refine ⟨fun _ => ?_, fun h => (by cases h)⟩
        simp only [moveWalkOp, Bool.not_true, Bool.and_false, Bool.false_eq_true, if_false] at h1
        rw [walk_none_get, ht3] at h1; cases h1
        cases hpar : tb.parent with
        | none => rw [hpar] at hold'; simp [hasUse] at hold'
        | some op =>
          obtain ⟨opb, opb3, hopb, hopb3, hopk, eu⟩ := hold op hpar
          rw [hpar, hasUse_some hopb3, eu] at hold'
          rw [ts2]; exact fl.inherit t tb op opb ht hpar hopb hold' htk
    generalize (walk cfg s3.fuel s3 t (moveWalkOp oldlim newlim)) = w at hoof hoofw fl1 hWs he hroot ⊢
    obtain ⟨s1, W⟩ := w
    simp only [] at hoof hoofw fl1 hWs he hroot ⊢
    -- the two stages
    unfold moveApply at hoof ⊢
    simp only [] at hoof ⊢
    have hoof4 : (if newlim = true then (applyLim cfg s3.fuel
        (if oldlim = true then (applyLim cfg s3.fuel s1 tb.parent (-(W : Int)) true).getD s1 else s1) tnew (W : Int)
        true).getD (if oldlim = true then (applyLim cfg s3.fuel s1 tb.parent (-(W : Int)) true).getD s1 else s1)
        else (if oldlim = true then (applyLim cfg s3.fuel s1 tb.parent (-(W : Int)) true).getD s1 else s1)).oof = false := by
      cases newlim with
      | true => simp only [if_true] at hoof ⊢; exact oof_false_of_le (flagsLe_modify _ _ _) hoof
      | false =>
        simp only [Bool.false_eq_true, if_false] at hoof ⊢
        split at hoof
        · split at hoof
          · exact oof_false_of_le (flagsLe_modify _ _ _) hoof
          · exact hoof
        · exact hoof
    obtain ⟨hac4, he4, hl4, hn4⟩ := acct_stages cfg hg i ac t tnew sm i3 he fl1 tb ht htk W hWs oldlim newlim
      s3.fuel (fun h => hK1 h) (fun h => hK2 h) _ rfl _ rfl hoof4 hnewp
    generalize (if oldlim = true then (applyLim cfg s3.fuel s1 tb.parent (-(W : Int)) true).getD s1 else s1) = s2
      at hoof hoof4 hac4 he4 hl4 hn4 ⊢
    -- the final flag of t is what it is already
    have hfin : ∀ q, (∀ y : Nat, q.get y = (if newlim = true then (applyLim cfg s3.fuel s2 tnew (W : Int) true).getD s2
        else s2).get y) → q.heap.length = (if newlim = true then (applyLim cfg s3.fuel s2 tnew (W : Int) true).getD s2
        else s2).heap.length → AcctInv q ∧ FlagsInv q := by
      intro q hq hql
      refine ⟨AcctInv.congr hql (fun y => by rw [hq y]) hac4, ?_⟩
      exact FlagsInv.congr (fun y => by rw [hq y]) (he4.flags fl1)
    -- object t in the state after the stages
    have ht4 : ∀ tb4, (if newlim = true then (applyLim cfg s3.fuel s2 tnew (W : Int) true).getD s2
        else s2).get t = some tb4 → ∃ tb1, s1.get t = some tb1 ∧ tb4.useLim = tb1.useLim ∧ tb4.hasLim = tb1.hasLim := by
      intro tb4 h4
      have := he4 t
      rw [h4] at this
      cases h1 : s1.get t with
      | none => rw [h1] at this; cases this
      | some tb1 =>
        rw [h1] at this
        simp only [Option.map_some, Option.some.injEq] at this
        refine ⟨tb1, rfl, ?_, ?_⟩
        · have : ({ tb4 with lcur := 0 } : Obj).useLim = ({ tb1 with lcur := 0 } : Obj).useLim := by rw [this]
          simpa using this
        · have : ({ tb4 with lcur := 0 } : Obj).hasLim = ({ tb1 with lcur := 0 } : Obj).hasLim := by rw [this]
          simpa using this
    cases hnl : newlim with
    | true =>
      simp only [hnl, if_true] at hfin ht4 ⊢
      apply hfin
      · intro y
        apply modify_use_id
        intro tb4 h4
        obtain ⟨tb1, h1, e1, -⟩ := ht4 tb4 h4
        rw [e1]; exact (hroot tb1 h1).1 hnl
      · simp
    | false =>
      simp only [hnl, Bool.false_eq_true, if_false] at hfin ht4 ⊢
      split
      · rename_i o ho
        split
        · rename_i hh
          apply hfin
          · intro y
            apply modify_use_id
            intro tb4 h4
            obtain ⟨tb1, h1, e1, e2⟩ := ht4 tb4 h4
            rw [ho] at h4; cases h4
            rw [e1]; exact (hroot tb1 h1).2 hnl (by rw [← e2]; simpa using hh)
          · simp
        · exact hfin _ (fun _ => rfl) rfl
      · exact hfin _ (fun _ => rfl) rfl

end Usual.C01
