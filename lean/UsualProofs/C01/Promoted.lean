import UsualProofs.C01.Released
/-! Where the survivors of a free hang afterwards: when every destructor in the freed subtree
accepts, an object changes its parent only by being promoted to the context of one of the
references it had before. -/
set_option linter.unusedSimpArgs false
set_option linter.unusedVariables false
namespace Usual.C01

/-- a plain object that is live before and after has lost references at most, and hangs where it
hung or under the context of one of its former references -/
def PV (s s' : State) : Prop :=
  ∀ (z : Nat) zb zb', s.get z = some zb → s'.get z = some zb' → zb.kind = .plain →
    (∀ r ∈ zb'.refs, r ∈ zb.refs) ∧
    (zb'.parent = zb.parent ∨ ∃ r ∈ zb.refs, ∃ rb, s.get r = some rb ∧ rb.parent = zb'.parent)

theorem PV.refl (s : State) : PV s s := by
  intro z zb zb' h1 h2 _
  rw [h1] at h2; cases h2
  exact ⟨fun _ h => h, Or.inl rfl⟩

theorem PV.trans {U U' : Nat → Prop} {a b c : State} (w : WFp a) (k : Keeps U a b) (k' : Keeps U' b c)
    (h1 : PV a b) (h2 : PV b c) : PV a c := by
  intro z za zc hza hzc hk
  obtain ⟨zb, hzb, hkb⟩ := k'.kind z zc hzc
  obtain ⟨za', hza', hka⟩ := k.kind z zb hzb
  rw [hza] at hza'; cases hza'
  have hkb' : zb.kind = .plain := by rw [← hka]; exact hk
  obtain ⟨r1, p1⟩ := h1 z za zb hza hzb hk
  obtain ⟨r2, p2⟩ := h2 z zb zc hzb hzc hkb'
  refine ⟨fun r hr => r1 r (r2 r hr), ?_⟩
  rcases p2 with e2 | ⟨r, hr, rbB, hrbB, hp⟩
  · rcases p1 with e1 | ⟨r, hr, rb, hrb, hp⟩
    · exact Or.inl (e2.trans e1)
    · exact Or.inr ⟨r, hr, rb, hrb, by rw [e2]; exact hp⟩
  · right
    have hra : r ∈ za.refs := r1 r hr
    obtain ⟨rbA, hrbA, hrk⟩ := w.refLive z za r hza hra
    have := k.refPar r rbB rbA hrbB hrbA (by rw [hrk]; simp)
    exact ⟨r, hra, rbA, hrbA, by rw [← this]; exact hp⟩

/-- a step after which every live object has the parent and (some of) the references it had -/
theorem PV.of_same {s s' : State}
    (h : ∀ (z : Nat) zb', s'.get z = some zb' → ∃ zb, s.get z = some zb ∧ zb'.parent = zb.parent ∧
      ∀ r ∈ zb'.refs, r ∈ zb.refs) : PV s s' := by
  intro z zb zb' h1 h2 _
  obtain ⟨zb0, h3, h4, h5⟩ := h z zb' h2
  rw [h1] at h3; cases h3
  exact ⟨h5, Or.inl h4⟩

theorem PV.of_shapeEq {s s' : State} (h : ShapeEq s s') : PV s s' := by
  apply PV.of_same
  intro z zb' hz
  obtain ⟨zb, h1, e1, -, e3, -⟩ := h.symm.get hz
  exact ⟨zb, h1, e1.symm, fun r hr => by rw [e3]; exact hr⟩


def FreeStmt6 (cfg : Cfg) (rk : Nat → Nat) (f : Nat) : Prop :=
  ∀ (s : State) (x : Nat) (xb : Obj), Inv rk s → s.get x = some xb → xb.kind = .plain → xb.refs = [] →
    xb.pending = false → s.nullCtx ≠ some x → PendBelow rk s (rk x) none → PendNR s none → s.stuck = false →
    AllAccept s x → (run cfg f s (.free x)).1.oof = false → PV s (run cfg f s (.free x)).1

def UnlinkStmt6 (cfg : Cfg) (rk : Nat → Nat) (f : Nat) : Prop :=
  ∀ (s : State) (ctx : Option Id) (x : Nat) (xb : Obj), Inv rk s → s.get x = some xb → xb.kind = .plain →
    xb.pending = false → xb.parent = orNull s ctx → s.nullCtx ≠ some x →
    PendBelow rk s (rk x) none → PendNR s none → s.stuck = false → AllAccept s x →
    (run cfg f s (.unlink ctx x)).1.oof = false →
    (run cfg f s (.unlink ctx x)).2 = 0 ∧ PV s (run cfg f s (.unlink ctx x)).1

def LoopStmt6 (cfg : Cfg) (rk : Nat → Nat) (f : Nat) : Prop :=
  ∀ (s : State) (o : Nat) (ob : Obj) (cur : Option Id), Inv rk s → s.get o = some ob →
    ob.kind = .plain → PendBelow rk s (rk o) (some o) → PendNR s (some o) → s.stuck = false →
    ob.pending = true → cur = ob.children.head? → AllAccept s o →
    (run cfg f s (.loop o true cur)).1.oof = false → PV s (run cfg f s (.loop o true cur)).1

theorem free_step6 (cfg : Cfg) (hfix : cfg.fixCx = true) (rk : Nat → Nat) (f : Nat) (hl6 : LoopStmt6 cfg rk f) :
    FreeStmt6 cfg rk (f + 1) := by
  intro s x xb i hx hk hrf hnp hnull hpb hnr hst hacc hoof
  have hself : xb.parent ≠ some x := by
    intro e; have := i.ranked.parentLt x xb x hx e; omega
  have hux := not_outside_self s x
  have hlg := (run_good cfg hfix rk f).2.2
  have hl3 := (run_out cfg hfix rk f).2.2
  have hax := hacc x xb hx (Or.inl rfl)
  simp only [run, hx, hrf, hnp, ne_eq, not_true_eq_false, if_false, Bool.false_eq_true] at hoof ⊢
  cases hds : dtorStep xb.dtor with
  | mk acc rest =>
  obtain ⟨d', logged⟩ := rest
  rw [hds] at hax
  simp only at hax
  subst hax
  simp only [hds] at hoof ⊢
  have hsh := freeBegin_plain_shapeEq s x xb d' logged hk
  have hbg := beginFree_get s x d' xb hx
  simp only [hself, if_false] at hbg
  have i2 : Inv rk (freeBegin s x xb d' logged) :=
    Inv.shapeEq hsh ⟨beginFree_wf d' i.wf hx hk hrf hnp hnull hself, beginFree_ranked d' i.ranked hx⟩
  have k12 : Keeps (Outside s x) s (freeBegin s x xb d' logged) :=
    (keeps_beginFree i.wf hx hself d' hux).trans (Keeps.of_shapeEq _ hsh)
  obtain ⟨x2, hx2, e21, e22, e23, e24, e25, e26⟩ := hsh.get (s := beginFree s x d') (j := x)
    (o := { xb with dtor := d', pending := true }) (by rw [hbg]; simp)
  have hpend2 : ∀ (y : Nat) yo, (freeBegin s x xb d' logged).get y = some yo → yo.pending = true → y ≠ x →
      ∃ yo0, s.get y = some yo0 ∧ yo0.pending = true := by
    intro y yo hy hp hne
    obtain ⟨y1, hy1, -, -, -, -, e5, -⟩ := hsh.symm.get hy
    rw [hbg] at hy1
    simp only [hne, if_false] at hy1
    split at hy1
    · obtain ⟨o0, h0, rfl⟩ := Option.map_eq_some_iff.1 hy1; exact ⟨o0, h0, by rw [← e5] at hp; exact hp⟩
    · exact ⟨y1, hy1, by rw [← e5] at hp; exact hp⟩
  have hpb2 : PendBelow rk (freeBegin s x xb d' logged) (rk x) (some x) := by
    intro y yo hy hp hne
    have hne' : y ≠ x := fun e => hne (by rw [e])
    obtain ⟨yo0, h0, h1⟩ := hpend2 y yo hy hp hne'
    exact hpb y yo0 h0 h1 (by simp)
  have hnr2 : PendNR (freeBegin s x xb d' logged) (some x) := by
    intro p pb hp hpend hne
    have hne' : p ≠ x := fun e => hne (by rw [e])
    obtain ⟨yo0, h0, h1⟩ := hpend2 p pb hp hpend hne'
    have hout := pending_outside i h0 h1 (hpb p yo0 h0 h1 (by simp))
    obtain ⟨pb', h2, -, -, -, h5⟩ := k12.keep p yo0 hout h0
    rw [hp] at h2; cases h2
    exact noRefKid_of_sublist k12 (hnr p yo0 h0 h1 (by simp)) (h5 h1 (hnr p yo0 h0 h1 (by simp)))
  have hst2 : (freeBegin s x xb d' logged).stuck = false := by rw [stuck_freeBegin]; exact hst
  have hfl := freeEnd_flagsLe cfg
    (run cfg f (freeBegin s x xb d' logged) (.loop x true (childrenOf (freeBegin s x xb d' logged) x).head?)).1 x
  have hoof3 := (flag_false_of_le hfl).1 hoof
  have hcur : (childrenOf (freeBegin s x xb d' logged) x).head? = x2.children.head? := by
    rw [childrenOf_eq hx2]
  rw [hcur] at hoof hoof3 hfl ⊢
  -- other objects: same parent, same references
  have hsame : ∀ (z : Nat) zb, z ≠ x → s.get z = some zb → ∃ zb2, (freeBegin s x xb d' logged).get z = some zb2 ∧
      zb2.parent = zb.parent ∧ (zb.refs = [] → zb2.refs = []) := by
    intro z zb hz hzb
    have h1 : ∃ z1, (beginFree s x d').get z = some z1 ∧ z1.parent = zb.parent ∧ z1.refs = zb.refs := by
      rw [hbg]; simp only [hz, if_false]
      split
      · exact ⟨{ zb with children := zb.children.erase x }, by rw [hzb]; rfl, rfl, rfl⟩
      · exact ⟨zb, hzb, rfl, rfl⟩
    obtain ⟨z1, h1, h2, h3⟩ := h1
    obtain ⟨z2, h4, e1, -, e3, -⟩ := hsh.get h1
    exact ⟨z2, h4, e1.trans h2, fun h => by rw [e3, h3]; exact h⟩
  have hpar2 : ∀ y, parentOf (freeBegin s x xb d' logged) y = parentOf s y := by
    intro y
    rw [parentOf_shapeEq hsh y]
    unfold parentOf
    rw [hbg]
    by_cases e : y = x
    · subst e; simp [hx]
    · simp only [e, if_false]
      split
      · cases s.get y <;> simp
      · rfl
  have hacc2 : AllAccept (freeBegin s x xb d' logged) x := by
    intro z zb2 hz hin
    have hin' : InSub s x z := (InSub.congr hpar2).1 hin
    obtain ⟨zb, hzb, -⟩ := hsh.symm.get hz
    have hlive : ∃ zb0, s.get z = some zb0 := by
      rw [hbg] at hzb
      by_cases e : z = x
      · subst e; exact ⟨xb, hx⟩
      · simp only [e, if_false] at hzb
        split at hzb
        · obtain ⟨o0, h0, -⟩ := Option.map_eq_some_iff.1 hzb; exact ⟨o0, h0⟩
        · exact ⟨zb, hzb⟩
    obtain ⟨zb0, hzb0⟩ := hlive
    exact (accMono_freeBegin s x xb d' logged hx hds).acc z zb0 zb2 hzb0 hz (hacc z zb0 hzb0 hin')
  have hpv23 := hl6 (freeBegin s x xb d' logged) x x2 _ i2 hx2 (e24 ▸ hk) hpb2 hnr2 hst2 (by rw [e25]) rfl
    hacc2 hoof3
  obtain ⟨st3, k23, hch3⟩ := hl3 (freeBegin s x xb d' logged) x x2 true _ i2 hx2 (e24 ▸ hk) hpb2 hnr2 hst2
    (by rw [e25]) (fun _ => rfl) (fun c hc => List.mem_of_mem_head? hc) hoof3
  have g3 := hlg (freeBegin s x xb d' logged) x x2 true _ i2 hx2 (e24 ▸ hk) hpb2 hoof3 st3
  generalize (run cfg f (freeBegin s x xb d' logged) (.loop x true x2.children.head?)).1 = s3
    at g3 st3 hch3 hoof hoof3 hpv23 k23 ⊢
  obtain ⟨x3, hx3, -⟩ := g3.stable x x2 hx2 (e24 ▸ hk) (Nat.lt_succ_self _)
  obtain ⟨-, f2, -⟩ := freeEnd_some cfg s3 x x3 hx3
  -- FLAG_PENDING + list_del: nobody's parent or references change
  have hpv12 : PV s (freeBegin s x xb d' logged) := by
    apply PV.of_same
    intro z zb' hz
    obtain ⟨z1, hz1, e1, -, e3, -⟩ := hsh.symm.get hz
    rw [hbg] at hz1
    by_cases e : z = x
    · subst e
      simp only [if_true, Option.some.injEq] at hz1; subst hz1
      exact ⟨xb, hx, e1.symm, fun r hr => by rw [e3]; exact hr⟩
    · simp only [e, if_false] at hz1
      split at hz1
      · obtain ⟨o0, h0, rfl⟩ := Option.map_eq_some_iff.1 hz1
        exact ⟨o0, h0, e1.symm, fun r hr => by rw [e3]; exact hr⟩
      · exact ⟨z1, hz1, e1.symm, fun r hr => by rw [e3]; exact hr⟩
  have hpv3e : PV s3 (freeEnd cfg s3 x).1 := by
    apply PV.of_same
    intro z zb' hz
    obtain ⟨z1, hz1, e1, -, e3, -⟩ := f2.symm.get hz
    rw [get_remove_some] at hz1
    exact ⟨z1, hz1.2, e1.symm, fun r hr => by rw [e3]; exact hr⟩
  have k3e : Keeps (Outside s x) s3 (freeEnd cfg s3 x).1 := (keeps_remove s3 x hux).trans (Keeps.of_shapeEq _ f2)
  have k2e : Keeps (fun _ => False) (freeBegin s x xb d' logged) (freeEnd cfg s3 x).1 :=
    (k23.mono (fun _ h => h.elim)).trans (k3e.mono (fun _ h => h.elim))
  exact PV.trans i.wf k12 k2e hpv12 (PV.trans i2.wf k23 k3e hpv23 hpv3e)



theorem unlink_step6 (cfg : Cfg) (hfix : cfg.fixCx = true) (rk : Nat → Nat) (f : Nat) (hf6 : FreeStmt6 cfg rk f) :
    UnlinkStmt6 cfg rk (f + 1) := by
  intro s ctx x xb i hx hxk hnp hpar hnull hpb hnr hst hacc hoof
  simp only [run, hx, hpar, ne_eq, not_true_eq_false, if_false] at hoof ⊢
  cases hrefs : xb.refs with
  | nil =>
    simp only [hrefs] at hoof ⊢
    exact ⟨((run_released cfg hfix rk f).1 s x xb i hx hxk hrefs hnp hnull hpb hnr hst hacc hoof).1,
      hf6 s x xb i hx hxk hrefs hnp hnull hpb hnr hst hacc hoof⟩
  | cons r rest =>
    simp only [hrefs] at hoof ⊢
    obtain ⟨rb, hr, hrk⟩ := i.wf.refLive x xb r hx (by rw [hrefs]; simp)
    simp only [hr] at hoof ⊢
    have hrnp : rb.kind ≠ .plain := by rw [hrk]; simp
    obtain ⟨lc, lr, ld, lp⟩ := i.wf.leaf r rb hr hrnp
    have hxr : x ≠ r := by intro e; subst e; rw [hx] at hr; cases hr; exact hrnp hxk
    have hq : rb.parent ≠ some x := by
      intro e; have := i.ranked.refLt r rb x x hr hrk e; omega
    have hself : xb.parent ≠ some x := by
      intro e; have := i.ranked.parentLt x xb x hx e; omega
    have hps := promoteMove_shapeEq cfg s x xb rb rest (orNull s ctx) hxk
    have hPr : (promoteS s x rb.parent rest).get r = some rb := by
      rw [promoteS_get hx rb.parent rest hq hself]
      have h1 : rb.parent ≠ some r := by
        intro e
        obtain ⟨po, hpo, hpk, -⟩ := i.wf.parentLive r rb r hr e
        rw [hr] at hpo; cases hpo; exact hrnp hpk
      have h2 : xb.parent ≠ some r := by
        intro e
        obtain ⟨po, hpo, hpk, -⟩ := i.wf.parentLive x xb r hx e
        rw [hr] at hpo; cases hpo; exact hrnp hpk
      simp [Ne.symm hxr, hr, h1, h2]
    obtain ⟨rb', hr', e1, e2, e3, e4, e5, e6⟩ := hps.get hPr
    cases f with
    | zero => simp [run] at hoof
    | succ f =>
      have ht : ∀ t, rb'.kind = .ref t → t ≠ r := by
        intro t hkk; rw [e4, hrk] at hkk; cases hkk; exact hxr
      have hpr : rb'.parent ≠ some r := by
        rw [e1]; intro e
        obtain ⟨po, hpo, hpk, -⟩ := i.wf.parentLive r rb r hr e
        rw [hr] at hpo; cases hpo; exact hrnp hpk
      obtain ⟨c1, c2⟩ := run_free_leaf cfg f _ r rb' hr' (e4 ▸ hrnp) (e2 ▸ lc) (e3 ▸ lr) (e5 ▸ lp) (e6 ▸ ld) ht hpr
      refine ⟨c1, ?_⟩
      have hcomm : ShapeEq (moveS (freeLeafS s r) x rb.parent false)
          (run cfg (f + 1) (promoteMove cfg s x xb rb rest (orNull s ctx)) (.free r)).1 := by
        refine ShapeEq.trans ?_ c2
        refine ShapeEq.trans ?_ (shapeEq_freeLeafS hps r)
        refine shapeEq_get_eq ?_ (fun j => promote_comm i.wf hx hxk hrefs hnp hr hq hself j)
        rw [nullCtx_freeLeafS, nullCtx_moveS, nullCtx_freeLeafS]
        unfold promoteS; simp
      have hLx : (freeLeafS s r).get x = some { xb with children := xb.children.erase r, refs := xb.refs.erase r } := by
        rw [freeLeafS_get i.wf hr hrnp]; unfold eraseAll; simp [hxr, hx]
      have hg := moveS_getG hLx rb.parent false hq hself
      intro z zb zb' hz hz' hzk
      obtain ⟨zM, hzM, f1, -, f3, -⟩ := hcomm.symm.get hz'
      rw [hg] at hzM
      by_cases e : z = x
      · subst e
        rw [hx] at hz; cases hz
        simp only [if_true, Option.some.injEq] at hzM; subst hzM
        refine ⟨fun r' hr' => ?_, Or.inr ⟨r, by rw [hrefs]; simp, rb, hr, ?_⟩⟩
        · rw [← f3] at hr'; exact List.mem_of_mem_erase hr'
        · rw [← f1]
      · simp only [e, if_false] at hzM
        obtain ⟨o0, h0, rfl⟩ := Option.map_eq_some_iff.1 hzM
        rw [freeLeafS_get i.wf hr hrnp] at h0; unfold eraseAll at h0
        by_cases e2 : z = r
        · simp [e2] at h0
        · simp only [e2, if_false] at h0
          obtain ⟨o1, h1, rfl⟩ := Option.map_eq_some_iff.1 h0
          rw [hz] at h1; cases h1
          refine ⟨fun r' hr' => ?_, Or.inl ?_⟩
          · rw [← f3] at hr'; exact List.mem_of_mem_erase hr'
          · rw [← f1]


/-- the iteration on a TRef / `.memlimit` chunk releases exactly that chunk -/
theorem body_leaf_shape (cfg : Cfg) (rk : Nat → Nat) (f : Nat) (s : State) (o : Nat) (ob : Obj) (c : Nat)
    (cb : Obj) (i : Inv rk s) (ho : s.get o = some ob) (hcm : c ∈ ob.children)
    (hc : s.get c = some cb) (hknp : cb.kind ≠ .plain)
    (hoof : (if (run cfg f s (.unlink (some o) c)).2 ≠ 0 then throwChild cfg (run cfg f s (.unlink (some o) c)).1 c
      else (run cfg f s (.unlink (some o) c)).1).oof = false) :
    ShapeEq (freeLeafS s c)
      (if (run cfg f s (.unlink (some o) c)).2 ≠ 0 then throwChild cfg (run cfg f s (.unlink (some o) c)).1 c
        else (run cfg f s (.unlink (some o) c)).1) := by
  obtain ⟨cb', hc', hcp, -⟩ := i.wf.childBack o ob c ho hcm
  rw [hc] at hc'; cases hc'
  obtain ⟨lc, lr, ld, lp⟩ := i.wf.leaf c cb hc hknp
  have ht : ∀ t, cb.kind = .ref t → t ≠ c := by
    intro t hkk e; subst e
    obtain ⟨tb, htb, hm⟩ := i.wf.refBack t cb t hc hkk
    rw [hc] at htb; cases htb; rw [lr] at hm; cases hm
  have hpr : cb.parent ≠ some c := by
    intro e
    obtain ⟨po, hpo, hpk, -⟩ := i.wf.parentLive c cb c hc e
    rw [hc] at hpo; cases hpo; exact hknp hpk
  cases f with
  | zero => simp [run] at hoof
  | succ f1 =>
    have hrun : run cfg (f1 + 1) s (.unlink (some o) c) = run cfg f1 s (.free c) := by
      simp only [run, hc, orNull, hcp, ne_eq, not_true_eq_false, if_false, lr]
    rw [hrun] at hoof ⊢
    cases f1 with
    | zero => simp [run] at hoof
    | succ f2 =>
      obtain ⟨c1, c2⟩ := run_free_leaf cfg f2 s c cb hc hknp lc lr lp ld ht hpr
      simp only [c1, ne_eq, not_true_eq_false, if_false]
      exact c2

theorem loop_step6 (cfg : Cfg) (hfix : cfg.fixCx = true) (rk : Nat → Nat) (f : Nat)
    (hu6 : UnlinkStmt6 cfg rk f) (hl6 : LoopStmt6 cfg rk f) : LoopStmt6 cfg rk (f + 1) := by
  intro s o ob cur i ho hok hpb hnr hst hpend hhead hacc hoof
  have hu3 := (run_out cfg hfix rk f).2.1
  have hl3 := (run_out cfg hfix rk f).2.2
  cases cur with
  | none => simp only [run]; exact PV.refl s
  | some c =>
    obtain ⟨post, hch⟩ : ∃ post, ob.children = c :: post := by
      cases hch : ob.children with
      | nil => rw [hch] at hhead; cases hhead
      | cons a l => rw [hch] at hhead; simp only [List.head?_cons, Option.some.injEq] at hhead; subst hhead; exact ⟨l, rfl⟩
    have hcm : c ∈ ob.children := by rw [hch]; simp
    simp only [run] at hoof ⊢
    have hse : loopEnter s o c = s := by
      unfold loopEnter; rw [if_pos]; rw [childrenOf_eq ho]; simpa using hcm
    rw [hse] at hoof ⊢
    obtain ⟨cb, hc, hcp, hcnp⟩ := i.wf.childBack o ob c ho hcm
    simp only [hc, Bool.not_true, Bool.false_and, Bool.false_eq_true, if_false] at hoof ⊢
    rw [childrenOf_eq ho] at hoof ⊢
    have hfl2 := run_flagsLe cfg f
      (if (run cfg f s (.unlink (some o) c)).2 ≠ 0 then throwChild cfg (run cfg f s (.unlink (some o) c)).1 c
        else (run cfg f s (.unlink (some o) c)).1) (.loop o true (succOf ob.children c))
    have hoof2 := (flag_false_of_le hfl2).1 hoof
    have hbody : BodyOut rk s
        (if (run cfg f s (.unlink (some o) c)).2 ≠ 0 then throwChild cfg (run cfg f s (.unlink (some o) c)).1 c
          else (run cfg f s (.unlink (some o) c)).1) o ob c true := by
      by_cases hk : cb.kind = .plain
      · exact body_plain3 cfg hfix rk f hu3 s o ob true c cb i ho hok hpb hnr hst hpend
          (fun _ => by rw [hch]; rfl) hcm hc hk hoof2
      · exact body_leaf3 cfg rk f s o ob true c cb i ho hst hcm hc hk hoof2
    -- the destructors of the subtree keep accepting
    have hmono : AccMono s (if (run cfg f s (.unlink (some o) c)).2 ≠ 0 then
          throwChild cfg (run cfg f s (.unlink (some o) c)).1 c
        else (run cfg f s (.unlink (some o) c)).1) := by
      refine (run_accMono cfg f s (.unlink (some o) c)).trans ?_
      split
      · exact .of_frame (frame_throwChild _ _ _)
      · exact .refl _
    have hltc := i.ranked.parentLt c cb o hc hcp
    -- the iteration moves nobody except by promotion
    have hbodypv : PV s (if (run cfg f s (.unlink (some o) c)).2 ≠ 0 then
          throwChild cfg (run cfg f s (.unlink (some o) c)).1 c
        else (run cfg f s (.unlink (some o) c)).1) := by
      by_cases hk : cb.kind = .plain
      · have hfl1 : FlagsLe (run cfg f s (.unlink (some o) c)).1
            (if (run cfg f s (.unlink (some o) c)).2 ≠ 0 then throwChild cfg (run cfg f s (.unlink (some o) c)).1 c
            else (run cfg f s (.unlink (some o) c)).1) := by
          split
          · exact throwChild_flagsLe _ _ _
          · exact FlagsLe.refl _
        have hoof1 := (flag_false_of_le hfl1).1 hoof2
        have hnullc : s.nullCtx ≠ some c := by
          intro e
          obtain ⟨nb, hb1, -, -, hb4, -⟩ := i.wf.nullOK c e
          rw [hc] at hb1; cases hb1; rw [hcp] at hb4; cases hb4
        have hpbc : PendBelow rk s (rk c) none := by
          intro z yo hz hp _
          by_cases e : z = o
          · subst e; exact hltc
          · have := hpb z yo hz hp (by simpa using e); omega
        have hnr0 := pendNR_plain_child i ho hnr hpend (fun _ => by rw [hch]; rfl) hc hk
        have haccd : AllAccept s c := by
          intro z zb hz hin
          refine hacc z zb hz ?_
          rcases hin with rfl | h
          · exact child_inSub hc hcp
          · exact Or.inr ((Anc.parent (by rw [parentOf_eq hc]; exact hcp)).trans h)
        obtain ⟨hrc, hpv⟩ := hu6 s (some o) c cb i hc hk hcnp (by simp [orNull, hcp]) hnullc hpbc hnr0 hst
          haccd hoof1
        simp only [hrc, ne_eq, not_true_eq_false, if_false]
        exact hpv
      · have hsh := body_leaf_shape cfg rk f s o ob c cb i ho hcm hc hk hoof2
        apply PV.of_same
        intro z zb' hz
        obtain ⟨z1, hz1, e1, -, e3, -⟩ := hsh.symm.get hz
        rw [freeLeafS_get i.wf hc hk] at hz1; unfold eraseAll at hz1
        by_cases e : z = c
        · simp [e] at hz1
        · simp only [e, if_false] at hz1
          obtain ⟨o1, h1, rfl⟩ := Option.map_eq_some_iff.1 hz1
          exact ⟨o1, h1, e1.symm, fun r hr => by rw [← e3] at hr; exact List.mem_of_mem_erase hr⟩
    generalize (if (run cfg f s (.unlink (some o) c)).2 ≠ 0 then throwChild cfg (run cfg f s (.unlink (some o) c)).1 c
        else (run cfg f s (.unlink (some o) c)).1) = s2 at hbody hoof hoof2 hmono hbodypv ⊢
    obtain ⟨st2, g2, k2, kC, ⟨o2, ho2, hnext, hexact⟩, -⟩ := hbody
    obtain ⟨o2', ho2', hop2, -, hok2⟩ := g2.stable o ob ho hok (Nat.lt_succ_self _)
    rw [ho2] at ho2'; cases ho2'
    have hnr2 : PendNR s2 (some o) := by
      intro p pb hp hpp hne
      obtain ⟨yo0, h0, h1⟩ := g2.nnp p pb hp hpp
      have hout := pending_outside i h0 h1 (hpb p yo0 h0 h1 hne)
      obtain ⟨pb', h2, -, -, -, h5⟩ := k2.keep p yo0 hout h0
      rw [hp] at h2; cases h2
      exact noRefKid_of_sublist k2 (hnr p yo0 h0 h1 hne) (h5 h1 (hnr p yo0 h0 h1 hne))
    have hhead2 : succOf ob.children c = o2.children.head? := by
      rw [hexact rfl post hch, hch, succOf_head]
    have hacc2 : AllAccept s2 o := by
      intro z zb2 hz hin
      obtain ⟨⟨zb, hzb⟩, hin'⟩ := inSub_back i.wf k2 z zb2 hz hin
      exact hmono.acc z zb zb2 hzb hz (hacc z zb hzb hin')
    have hrest := hl6 s2 o o2 _ g2.inv ho2 hok2 (hpb.of_nnp g2.nnp) hnr2 st2 (by rw [hop2]; exact hpend) hhead2
      hacc2 hoof
    obtain ⟨-, k3, -⟩ := hl3 s2 o o2 true _ g2.inv ho2 hok2 (hpb.of_nnp g2.nnp) hnr2 st2
      (by rw [hop2]; exact hpend) (fun _ => hhead2) hnext hoof
    exact PV.trans i.wf k2 k3 hbodypv hrest


/-- **survivors hang under a referencing context** (induction) -/
theorem run_pv (cfg : Cfg) (hfix : cfg.fixCx = true) (rk : Nat → Nat) (f : Nat) :
    FreeStmt6 cfg rk f ∧ UnlinkStmt6 cfg rk f ∧ LoopStmt6 cfg rk f := by
  induction f with
  | zero =>
    refine ⟨?_, ?_, ?_⟩
    · intro s x xb _ _ _ _ _ _ _ _ _ _ hoof; simp [run] at hoof
    · intro s ctx x xb _ _ _ _ _ _ _ _ _ _ hoof; simp [run] at hoof
    · intro s o ob cur _ _ _ _ _ _ _ _ _ hoof; simp [run] at hoof
  | succ f ih =>
    exact ⟨free_step6 cfg hfix rk f ih.2.2, unlink_step6 cfg hfix rk f ih.1, loop_step6 cfg hfix rk f ih.2.1 ih.2.2⟩

end Usual.C01
