import Mathlib.Algebra.BigOperators.Group.Finset.Basic
import UsualProofs.C01.CapOps
/-! The accounting invariant of the memory limit (Prop level): definitions and the link between
the parent chain and the chunks `apply_memlimit` visits. -/
set_option linter.unusedSimpArgs false
set_option linter.unusedVariables false
namespace Usual.C01
open Finset

/-- `a` is a proper ancestor of `x` along parent pointers -/
inductive Anc (s : State) : Nat → Nat → Prop
  | parent {x : Nat} {xb : Obj} {p : Nat} : s.get x = some xb → xb.parent = some p → Anc s p x
  | up {x : Nat} {xb : Obj} {p a : Nat} : s.get x = some xb → xb.parent = some p → Anc s a p → Anc s a x

theorem Anc.rank {rk : Nat → Nat} {s : State} (wr : Ranked rk s) {a x : Nat} (h : Anc s a x) : rk a < rk x := by
  induction h with
  | parent hx hp => exact wr.parentLt _ _ _ hx hp
  | up hx hp _ ih => have := wr.parentLt _ _ _ hx hp; omega

theorem Anc.live {s : State} {a x : Nat} (h : Anc s a x) : ∃ xb, s.get x = some xb := by
  cases h with
  | parent hx _ => exact ⟨_, hx⟩
  | up hx _ _ => exact ⟨_, hx⟩

/-- the first step of an ancestor chain -/
theorem Anc.cases_parent {s : State} {a x : Nat} (h : Anc s a x) :
    ∃ xb p, s.get x = some xb ∧ xb.parent = some p ∧ (p = a ∨ Anc s a p) := by
  cases h with
  | parent hx hp => exact ⟨_, _, hx, hp, Or.inl rfl⟩
  | up hx hp h' => exact ⟨_, _, hx, hp, Or.inr h'⟩

theorem Anc.trans {s : State} {a b x : Nat} (h1 : Anc s a b) (h2 : Anc s b x) : Anc s a x := by
  induction h2 with
  | parent hx hp => exact Anc.up hx hp h1
  | up hx hp _ ih => exact Anc.up hx hp (ih h1)

/-- what a chunk is charged: `total_size(size)` -/
def chargeAt (s : State) (x : Nat) : Nat :=
  match s.get x with
  | some o => totalSize o.size
  | none => 0

open Classical in
/-- Σ charge over the chunks beneath `ctx`, the `.memlimit` chunk `l` of `ctx` excepted -/
noncomputable def chargeUnder (s : State) (ctx l : Nat) : Nat :=
  ∑ x ∈ range s.heap.length, if x ≠ l ∧ Anc s ctx x then chargeAt s x else 0

/-- THE accounting invariant: every `.memlimit` chunk records the charge beneath its context -/
def AcctInv (s : State) : Prop :=
  ∀ (l : Nat) lb ctx, s.get l = some lb → lb.kind = .limit → lb.parent = some ctx →
    lb.lcur = chargeUnder s ctx l

/-- flags: HAS ⇒ USE; USE is inherited by every child but the `.memlimit` chunk; a context with a
`.memlimit` chunk has HAS; one chunk per context -/
structure FlagsInv (s : State) : Prop where
  hasUse : ∀ (x : Nat) o, s.get x = some o → o.hasLim = true → o.useLim = true
  inherit : ∀ (x : Nat) o p po, s.get x = some o → o.parent = some p → s.get p = some po →
      po.useLim = true → o.kind ≠ .limit → o.useLim = true
  chunkHas : ∀ (l : Nat) lb ctx cb, s.get l = some lb → lb.kind = .limit → lb.parent = some ctx →
      s.get ctx = some cb → cb.hasLim = true
  chunkUnique : ∀ (l1 l2 : Nat) b1 b2 ctx, s.get l1 = some b1 → s.get l2 = some b2 → b1.kind = .limit →
      b2.kind = .limit → b1.parent = some ctx → b2.parent = some ctx → l1 = l2

end Usual.C01
