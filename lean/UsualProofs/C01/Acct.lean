import Mathlib.Algebra.BigOperators.Group.Finset.Basic
import UsualProofs.C01.CapOps
/-! The accounting invariant of the memory limit (Prop level): definitions and the link between
the parent chain and the chunks `apply_memlimit` visits. -/
set_option linter.unusedSimpArgs false
set_option linter.unusedVariables false
namespace Usual.C01
open Finset

/-- the primary parent of a live chunk -/
def parentOf (s : State) (x : Nat) : Option Nat := (s.get x).bind (·.parent)

theorem parentOf_eq {s : State} {x : Nat} {xb : Obj} (h : s.get x = some xb) : parentOf s x = xb.parent := by
  simp [parentOf, h]

theorem parentOf_some {s : State} {x p : Nat} (h : parentOf s x = some p) :
    ∃ xb, s.get x = some xb ∧ xb.parent = some p := by
  unfold parentOf at h
  cases hx : s.get x with
  | none => rw [hx] at h; cases h
  | some xb => rw [hx] at h; exact ⟨xb, rfl, h⟩

/-- `a` is a proper ancestor of `x` along parent pointers -/
inductive Anc (s : State) : Nat → Nat → Prop
  | parent {x p : Nat} : parentOf s x = some p → Anc s p x
  | up {x p a : Nat} : parentOf s x = some p → Anc s a p → Anc s a x

theorem Anc.rank {rk : Nat → Nat} {s : State} (wr : Ranked rk s) {a x : Nat} (h : Anc s a x) : rk a < rk x := by
  induction h with
  | parent hp => obtain ⟨xb, hx, hpp⟩ := parentOf_some hp; exact wr.parentLt _ _ _ hx hpp
  | up hp _ ih => obtain ⟨xb, hx, hpp⟩ := parentOf_some hp; have := wr.parentLt _ _ _ hx hpp; omega

theorem Anc.live {s : State} {a x : Nat} (h : Anc s a x) : ∃ xb, s.get x = some xb := by
  cases h with
  | parent hp => obtain ⟨xb, hx, -⟩ := parentOf_some hp; exact ⟨xb, hx⟩
  | up hp _ => obtain ⟨xb, hx, -⟩ := parentOf_some hp; exact ⟨xb, hx⟩

/-- the first step of an ancestor chain -/
theorem Anc.cases_parent {s : State} {a x : Nat} (h : Anc s a x) :
    ∃ p, parentOf s x = some p ∧ (p = a ∨ Anc s a p) := by
  cases h with
  | parent hp => exact ⟨_, hp, Or.inl rfl⟩
  | up hp h' => exact ⟨_, hp, Or.inr h'⟩

theorem Anc.trans {s : State} {a b x : Nat} (h1 : Anc s a b) (h2 : Anc s b x) : Anc s a x := by
  induction h2 with
  | parent hp => exact Anc.up hp h1
  | up hp _ ih => exact Anc.up hp (ih h1)

/-- ancestry only depends on the parent pointers -/
theorem Anc.congr {s s' : State} (h : ∀ x, parentOf s' x = parentOf s x) {a x : Nat} :
    Anc s' a x ↔ Anc s a x := by
  constructor
  · intro ha
    induction ha with
    | parent hp => exact Anc.parent (by rw [← h]; exact hp)
    | up hp _ ih => exact Anc.up (by rw [← h]; exact hp) ih
  · intro ha
    induction ha with
    | parent hp => exact Anc.parent (by rw [h]; exact hp)
    | up hp _ ih => exact Anc.up (by rw [h]; exact hp) ih

/-- what a chunk is charged: `total_size(size)` -/
def chargeAt (s : State) (x : Nat) : Nat :=
  match s.get x with
  | some o => totalSize o.size
  | none => 0

open Classical in
/-- Σ charge over the chunks beneath `ctx`, the `.memlimit` chunk `l` of `ctx` excepted -/
noncomputable def chargeUnder (s : State) (ctx l : Nat) : Nat :=
  ∑ x ∈ range s.heap.length, if x ≠ l ∧ Anc s ctx x then chargeAt s x else 0

/-- THE accounting invariant: every `.memlimit` chunk records the charge beneath its context -/
def AcctInv (s : State) : Prop :=
  ∀ (l : Nat) lb ctx, s.get l = some lb → lb.kind = .limit → lb.parent = some ctx →
    lb.lcur = chargeUnder s ctx l

/-- flags: HAS ⇒ USE; USE is inherited by every child but the `.memlimit` chunk; a context with a
`.memlimit` chunk has HAS; one chunk per context -/
structure FlagsInv (s : State) : Prop where
  hasUse : ∀ (x : Nat) o, s.get x = some o → o.hasLim = true → o.useLim = true
  inherit : ∀ (x : Nat) o p po, s.get x = some o → o.parent = some p → s.get p = some po →
      po.useLim = true → o.kind ≠ .limit → o.useLim = true
  chunkHas : ∀ (l : Nat) lb ctx cb, s.get l = some lb → lb.kind = .limit → lb.parent = some ctx →
      s.get ctx = some cb → cb.hasLim = true
  chunkUnique : ∀ (l1 l2 : Nat) b1 b2 ctx, s.get l1 = some b1 → s.get l2 = some b2 → b1.kind = .limit →
      b2.kind = .limit → b1.parent = some ctx → b2.parent = some ctx → l1 = l2


/-- the climb of `apply_memlimit` ended before the fuel did -/
def climbOK (cfg : Cfg) : Nat → State → Option Id → Bool
  | 0, _, _ => false
  | f + 1, s, t =>
    match t with
    | none => true
    | some t =>
      match s.get t with
      | none => true
      | some o =>
        if !o.useLim then true
        else if !o.hasLim then climbOK cfg f s o.parent
        else
          match findLim s o.children with
          | none => if cfg.fixGone then climbOK cfg f s o.parent else true
          | some l =>
            match s.get l with
            | none => true
            | some _ => climbOK cfg f s o.parent

theorem applyLim_climbOK (cfg : Cfg) (f : Nat) (s : State) (t : Option Id) (d : Int) (force : Bool) (s' : State)
    (h : applyLim cfg f s t d force = some s') (hoof : s'.oof = false) : climbOK cfg f s t = true := by
  induction f generalizing t s' with
  | zero => simp only [applyLim] at h; cases h; simp at hoof
  | succ f ih =>
    simp only [applyLim] at h
    simp only [climbOK]
    cases t with
    | none => rfl
    | some t =>
      simp only [] at h ⊢
      cases ht : s.get t with
      | none => rfl
      | some o =>
        simp only [ht] at h ⊢
        by_cases hu : o.useLim = true
        case neg =>
          have hu' : o.useLim = false := by simpa using hu
          simp [hu']
        simp only [hu, Bool.not_true, Bool.false_eq_true, if_false] at h ⊢
        by_cases hh : o.hasLim = true
        case neg =>
          have hh' : o.hasLim = false := by simpa using hh
          simp only [hh', Bool.not_false, if_true] at h ⊢
          exact ih _ _ h hoof
        simp only [hh, Bool.not_true, Bool.false_eq_true, if_false] at h ⊢
        cases hl : findLim s o.children with
        | none =>
          simp only [hl] at h ⊢
          split at h
          · rename_i hg; simp only [hg, if_true]; exact ih _ _ h hoof
          · rename_i hg; simp [hg]
        | some l =>
          simp only [hl] at h ⊢
          cases hlb : s.get l with
          | none => rfl
          | some lb =>
            simp only [hlb] at h ⊢
            split at h
            · cases h
            · cases hrec : applyLim cfg f s o.parent d force with
              | none => simp only [hrec] at h; cases h
              | some s'' =>
                simp only [hrec, Option.some.injEq] at h
                subst h
                exact ih _ _ hrec (by simpa using hoof)

/-- the chunks visited from `p` are chunks of `p` or of its ancestors -/
theorem limitsAbove_anc {rk : Nat → Nat} {s : State} (i : InvT rk s) (cfg : Cfg) (f : Nat) (p : Nat) (l : Id)
    (h : l ∈ limitsAbove cfg f s (some p)) :
    ∃ lb q, s.get l = some lb ∧ lb.kind = .limit ∧ lb.parent = some q ∧ (q = p ∨ Anc s q p) := by
  induction f generalizing p with
  | zero => simp [limitsAbove] at h
  | succ f ih =>
    simp only [limitsAbove] at h
    cases hp : s.get p with
    | none => simp [hp] at h
    | some o =>
      simp only [hp] at h
      have hup : l ∈ limitsAbove cfg f s o.parent →
          ∃ lb q, s.get l = some lb ∧ lb.kind = .limit ∧ lb.parent = some q ∧ (q = p ∨ Anc s q p) := by
        intro hm
        cases hpar : o.parent with
        | none =>
          rw [hpar] at hm
          cases f with
          | zero => simp [limitsAbove] at hm
          | succ f => simp [limitsAbove] at hm
        | some pp =>
          rw [hpar] at hm
          obtain ⟨lb, q, a1, a2, a3, a4⟩ := ih pp hm
          refine ⟨lb, q, a1, a2, a3, Or.inr ?_⟩
          rcases a4 with rfl | a4
          · exact Anc.parent (by rw [parentOf_eq hp]; exact hpar)
          · exact Anc.up (by rw [parentOf_eq hp]; exact hpar) a4
      split at h
      · cases h
      · split at h
        · exact hup h
        · split at h
          · split at h
            · exact hup h
            · cases h
          · rename_i l' hl'
            split at h
            · cases h
            · simp only [List.mem_cons] at h
              rcases h with rfl | h
              · obtain ⟨hm, lb, hlb, hlk⟩ := findLim_spec s _ l hl'
                obtain ⟨co, hco, hcp, -⟩ := i.wf.childBack p o l hp hm
                have h3 : co = lb := Option.some.inj (hco.symm.trans hlb)
                exact ⟨lb, p, hlb, hlk, h3 ▸ hcp, Or.inl rfl⟩
              · exact hup h

theorem findLim_some_of_mem (s : State) (cs : List Id) (l : Id) (lb : Obj) (hm : l ∈ cs)
    (hl : s.get l = some lb) (hk : lb.kind = .limit) : ∃ l', findLim s cs = some l' := by
  induction cs with
  | nil => cases hm
  | cons c cs ih =>
    simp only [findLim]
    cases hc : s.get c with
    | none =>
      simp only []
      rcases List.mem_cons.1 hm with rfl | hm'
      · rw [hl] at hc; cases hc
      · exact ih hm'
    | some co =>
      simp only []
      by_cases hlim : isLimit co = true
      · exact ⟨c, by simp [hlim]⟩
      · simp only [hlim, if_false]
        rcases List.mem_cons.1 hm with rfl | hm'
        · rw [hl] at hc; cases hc; simp [isLimit, hk] at hlim
        · exact ih hm'

/-- USE is inherited all the way down a parent chain -/
theorem use_down {s : State} (w : WFt s) (fl : FlagsInv s) {q p : Nat} (h : Anc s q p) :
    ∀ (qb pb : Obj), s.get q = some qb → s.get p = some pb → qb.useLim = true → pb.kind = .plain →
      pb.useLim = true := by
  induction h with
  | @parent x pp hpo =>
    intro qb pb hq hp hu hk
    have hpar : pb.parent = some pp := by rw [← parentOf_eq hp]; exact hpo
    exact fl.inherit _ _ _ _ hp hpar hq hu (by rw [hk]; simp)
  | @up x pp a hpo hanc ih =>
    intro qb pb hq hp hu hk
    have hpar : pb.parent = some pp := by rw [← parentOf_eq hp]; exact hpo
    obtain ⟨ppb, hppb, hppk, -⟩ := w.parentLive _ _ _ hp hpar
    have := ih qb ppb hq hppb hu hppk
    exact fl.inherit _ _ _ _ hp hpar hppb this (by rw [hk]; simp)

/-- conversely, every chunk of `p` or of an ancestor of `p` is visited (repaired code) -/
theorem limitsAbove_of_anc {rk : Nat → Nat} {s : State} (i : InvT rk s) (fl : FlagsInv s) (cfg : Cfg)
    (hfix : cfg.fixGone = true) (f : Nat) (p : Nat) (pb : Obj) (hp : s.get p = some pb) (hpk : pb.kind = .plain)
    (hc : climbOK cfg f s (some p) = true)
    (l : Nat) (lb : Obj) (q : Nat) (hl : s.get l = some lb) (hlk : lb.kind = .limit) (hlp : lb.parent = some q)
    (hq : q = p ∨ Anc s q p) : l ∈ limitsAbove cfg f s (some p) := by
  induction f generalizing p pb with
  | zero => simp [climbOK] at hc
  | succ f ih =>
    simp only [climbOK, hp] at hc
    simp only [limitsAbove, hp]
    obtain ⟨qb, hqb, hqk, hqm⟩ := i.wf.parentLive l lb q hl hlp
    have hlm : l ∈ qb.children := by
      rcases hqm with h | h
      · exact h
      · have := (i.wf.leaf l lb hl (by rw [hlk]; simp)).2.2.2; rw [this] at h; cases h
    have hqh := fl.chunkHas l lb q qb hl hlk hlp hqb
    have hqu := fl.hasUse q qb hqb hqh
    have hpu : pb.useLim = true := by
      rcases hq with rfl | hq
      · rw [hp] at hqb; cases hqb; exact hqu
      · exact use_down i.wf fl hq qb pb hqb hp hqu hpk
    simp only [hpu, Bool.not_true, Bool.false_eq_true, if_false] at hc ⊢
    -- going on to the parent
    have hup : (q ≠ p) → climbOK cfg f s pb.parent = true → l ∈ limitsAbove cfg f s pb.parent := by
      intro hne hc'
      rcases hq with rfl | hq
      · exact absurd rfl hne
      · obtain ⟨pp, h2', h3⟩ := hq.cases_parent
        have h2 : pb.parent = some pp := by rw [← parentOf_eq hp]; exact h2'
        rw [h2] at hc' ⊢
        obtain ⟨ppb, hppb, hppk, -⟩ := i.wf.parentLive p pb pp hp h2
        exact ih pp ppb hppb hppk hc' (h3.imp Eq.symm id)
    by_cases hh : pb.hasLim = true
    case neg =>
      have hh' : pb.hasLim = false := by simpa using hh
      simp only [hh', Bool.not_false, if_true] at hc ⊢
      have hne : q ≠ p := by
        intro e; subst e; rw [hp] at hqb; cases hqb; rw [hqh] at hh'; cases hh'
      exact hup hne hc
    simp only [hh, Bool.not_true, Bool.false_eq_true, if_false] at hc ⊢
    cases hfl : findLim s pb.children with
    | none =>
      simp only [hfl, hfix, if_true] at hc ⊢
      have hne : q ≠ p := by
        intro e; subst e; rw [hp] at hqb; cases hqb
        obtain ⟨l', hl'⟩ := findLim_some_of_mem s _ l lb hlm hl hlk
        rw [hfl] at hl'; cases hl'
      exact hup hne hc
    | some l' =>
      simp only [hfl] at hc ⊢
      obtain ⟨hm', lb', hlb', hlk'⟩ := findLim_spec s _ l' hfl
      simp only [hlb'] at hc ⊢
      by_cases hqp : q = p
      · subst hqp
        obtain ⟨co, hco, hcp, -⟩ := i.wf.childBack q pb l' hp hm'
        have h3 : co = lb' := Option.some.inj (hco.symm.trans hlb')
        have := fl.chunkUnique l l' lb lb' q hl hlb' hlk hlk' hlp (h3 ▸ hcp)
        subst this
        exact List.mem_cons_self
      · exact List.mem_cons_of_mem _ (hup hqp hc)

end Usual.C01
