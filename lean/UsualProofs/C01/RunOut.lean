import UsualProofs.C01.Out
/-! The `list_for_each_safe` protocol of `free_children` never loses its cursor, and
`free_children(ptr, true)` leaves nothing behind: the ghost flag `stuck` is never set.  Along
the way: everything outside the freed subtree is left alone (`Keeps`). -/
set_option linter.unusedSimpArgs false
set_option linter.unusedVariables false
namespace Usual.C01

theorem succOf_mem (l : List Id) (c t : Id) (h : succOf l c = some t) : t ∈ l := by
  induction l with
  | nil => simp [succOf] at h
  | cons x xs ih =>
    simp only [succOf] at h
    split at h
    · exact List.mem_cons_of_mem _ (List.mem_of_mem_head? h)
    · exact List.mem_cons_of_mem _ (ih h)

theorem succOf_head (c : Id) (post : List Id) : succOf (c :: post) c = post.head? := by
  simp [succOf]

/-- the release of a TRef / `.memlimit` chunk does not touch the ghost flag -/
theorem run_free_leaf_stuck (cfg : Cfg) (f : Nat) (a : State) (r : Nat) (rb : Obj) (hr : a.get r = some rb)
    (hk : rb.kind ≠ .plain) (hc : rb.children = []) (hrf : rb.refs = []) (hp : rb.pending = false)
    (hd : rb.dtor = .none) (ht : ∀ t, rb.kind = .ref t → t ≠ r) (hpr : rb.parent ≠ some r) :
    (run cfg (f + 1) a (.free r)).1.stuck = a.stuck := by
  simp only [run, hr, hrf, hp, hd, dtorStep, ne_eq, not_true_eq_false, if_false, Bool.false_eq_true]
  have hb := freeBegin_leaf_get a r rb hr hk ht hpr
  have hch : childrenOf (freeBegin a r rb .none false) r = [] := by
    rw [childrenOf_eq (ob := { rb with dtor := .none, pending := true }) (by rw [hb]; simp)]; exact hc
  rw [hch]
  simp only [List.head?_nil]
  obtain ⟨hl, -⟩ := run_loop_none_get cfg f (freeBegin a r rb .none false) r true
  have hst : (run cfg f (freeBegin a r rb .none false) (.loop r true none)).1.stuck = a.stuck := by
    rw [← stuck_freeBegin a r rb .none false]
    cases f <;> simp [run]
  generalize (run cfg f (freeBegin a r rb .none false) (.loop r true none)).1 = s3 at hl hst ⊢
  have h3 : s3.get r = some { rb with dtor := .none, pending := true } := by rw [hl, hb]; simp
  rw [stuck_freeEnd cfg s3 r _ h3 hc, hst]

def FreeStmt3 (cfg : Cfg) (rk : Nat → Nat) (f : Nat) : Prop :=
  ∀ (s : State) (x : Nat) (xb : Obj), Inv rk s → s.get x = some xb → xb.kind = .plain → xb.refs = [] →
    xb.pending = false → s.nullCtx ≠ some x → PendBelow rk s (rk x) none → PendNR s none → s.stuck = false →
    (run cfg f s (.free x)).1.oof = false →
    (run cfg f s (.free x)).1.stuck = false ∧ Keeps (Outside s x) s (run cfg f s (.free x)).1

def UnlinkStmt3 (cfg : Cfg) (rk : Nat → Nat) (f : Nat) : Prop :=
  ∀ (s : State) (ctx : Option Id) (x : Nat) (xb : Obj), Inv rk s → s.get x = some xb → xb.kind = .plain →
    xb.pending = false → xb.parent = orNull s ctx → s.nullCtx ≠ some x → PendBelow rk s (rk x) none →
    PendNR s none → s.stuck = false → (run cfg f s (.unlink ctx x)).1.oof = false →
    (run cfg f s (.unlink ctx x)).1.stuck = false ∧ Keeps (Outside s x) s (run cfg f s (.unlink ctx x)).1

def LoopStmt3 (cfg : Cfg) (rk : Nat → Nat) (f : Nat) : Prop :=
  ∀ (s : State) (o : Nat) (ob : Obj) (fn : Bool) (cur : Option Id), Inv rk s → s.get o = some ob →
    ob.kind = .plain → PendBelow rk s (rk o) (some o) → PendNR s (some o) → s.stuck = false →
    ob.pending = fn → (fn = true → cur = ob.children.head?) → (∀ c, cur = some c → c ∈ ob.children) →
    (run cfg f s (.loop o fn cur)).1.oof = false →
    (run cfg f s (.loop o fn cur)).1.stuck = false ∧ Keeps (Outside s o) s (run cfg f s (.loop o fn cur)).1 ∧
    (fn = true → childrenOf (run cfg f s (.loop o fn cur)).1 o = [])


theorem not_outside_self (s : State) (x : Nat) : ¬ Outside s x x := fun h => h.1 (Or.inl rfl)

/-- an object that is being freed is a plain object outside every subtree of higher rank -/
theorem pending_outside {rk : Nat → Nat} {s : State} (i : Inv rk s) {x p : Nat} {pb : Obj} (hp : s.get p = some pb)
    (hpend : pb.pending = true) (hlt : rk p < rk x) : Outside s x p := by
  refine ⟨?_, ?_⟩
  · rintro (rfl | h)
    · omega
    · have := h.rank i.ranked; omega
  · rintro ⟨zb, t, h1, h2⟩
    rw [hp] at h1; cases h1
    have := (i.wf.leaf p pb hp (by rw [h2]; simp)).2.2.2
    rw [hpend] at this; cases this

theorem noRefKid_of_sublist {U : Nat → Prop} {s s' : State} (k : Keeps U s s') {yb yb' : Obj}
    (h : NoRefKid s yb) (hs : List.Sublist yb'.children yb.children) : NoRefKid s' yb' :=
  fun z hz hr => h z (hs.subset hz) (isRefAt_back k hr)

theorem free_step3 (cfg : Cfg) (hfix : cfg.fixCx = true) (rk : Nat → Nat) (f : Nat) (hl3 : LoopStmt3 cfg rk f) :
    FreeStmt3 cfg rk (f + 1) := by
  intro s x xb i hx hk hrf hnp hnull hpb hnr hst hoof
  have hself : xb.parent ≠ some x := by
    intro e; have := i.ranked.parentLt x xb x hx e; omega
  have hux := not_outside_self s x
  have hlg := (run_good cfg hfix rk f).2.2
  simp only [run, hx, hrf, hnp, ne_eq, not_true_eq_false, if_false, Bool.false_eq_true] at hoof ⊢
  cases hds : dtorStep xb.dtor with
  | mk acc rest =>
  obtain ⟨d', logged⟩ := rest
  cases acc with
  | false =>
    simp only [hds] at hoof ⊢
    refine ⟨hst, ?_⟩
    exact (keeps_modify _ s x (fun o => { o with dtor := d' }) (fun _ => ⟨rfl, rfl, rfl, rfl⟩)).trans
      (Keeps.of_shapeEq _ (shapeEq_addLog _ _))
  | true =>
    simp only [hds] at hoof ⊢
    have hsh := freeBegin_plain_shapeEq s x xb d' logged hk
    have hbg := beginFree_get s x d' xb hx
    simp only [hself, if_false] at hbg
    have i2 : Inv rk (freeBegin s x xb d' logged) :=
      Inv.shapeEq hsh ⟨beginFree_wf d' i.wf hx hk hrf hnp hnull hself, beginFree_ranked d' i.ranked hx⟩
    have k12 : Keeps (Outside s x) s (freeBegin s x xb d' logged) :=
      (keeps_beginFree i.wf hx hself d' hux).trans (Keeps.of_shapeEq _ hsh)
    obtain ⟨x2, hx2, e21, e22, e23, e24, e25, e26⟩ := hsh.get (s := beginFree s x d') (j := x)
      (o := { xb with dtor := d', pending := true }) (by rw [hbg]; simp)
    have hpend2 : ∀ (y : Nat) yo, (freeBegin s x xb d' logged).get y = some yo → yo.pending = true → y ≠ x →
        ∃ yo0, s.get y = some yo0 ∧ yo0.pending = true := by
      intro y yo hy hp hne
      obtain ⟨y1, hy1, -, -, -, -, e5, -⟩ := hsh.symm.get hy
      rw [hbg] at hy1
      simp only [hne, if_false] at hy1
      split at hy1
      · obtain ⟨o0, h0, rfl⟩ := Option.map_eq_some_iff.1 hy1; exact ⟨o0, h0, by rw [← e5] at hp; exact hp⟩
      · exact ⟨y1, hy1, by rw [← e5] at hp; exact hp⟩
    have hpb2 : PendBelow rk (freeBegin s x xb d' logged) (rk x) (some x) := by
      intro y yo hy hp hne
      have hne' : y ≠ x := fun e => hne (by rw [e])
      obtain ⟨yo0, h0, h1⟩ := hpend2 y yo hy hp hne'
      exact hpb y yo0 h0 h1 (by simp)
    have hnr2 : PendNR (freeBegin s x xb d' logged) (some x) := by
      intro p pb hp hpend hne
      have hne' : p ≠ x := fun e => hne (by rw [e])
      obtain ⟨yo0, h0, h1⟩ := hpend2 p pb hp hpend hne'
      have hout := pending_outside i h0 h1 (hpb p yo0 h0 h1 (by simp))
      obtain ⟨pb', h2, -, -, -, h5⟩ := k12.keep p yo0 hout h0
      rw [hp] at h2; cases h2
      exact noRefKid_of_sublist k12 (hnr p yo0 h0 h1 (by simp)) (h5 h1 (hnr p yo0 h0 h1 (by simp)))
    have hst2 : (freeBegin s x xb d' logged).stuck = false := by rw [stuck_freeBegin]; exact hst
    have hfl := freeEnd_flagsLe cfg
      (run cfg f (freeBegin s x xb d' logged) (.loop x true (childrenOf (freeBegin s x xb d' logged) x).head?)).1 x
    have hoof3 := (flag_false_of_le hfl).1 hoof
    have hcur : (childrenOf (freeBegin s x xb d' logged) x).head? = x2.children.head? := by
      rw [childrenOf_eq hx2]
    rw [hcur] at hoof hoof3 hfl ⊢
    obtain ⟨st3, k23, hch3⟩ := hl3 (freeBegin s x xb d' logged) x x2 true _ i2 hx2 (e24 ▸ hk) hpb2 hnr2 hst2
      (by rw [e25]) (fun _ => rfl) (fun c hc => List.mem_of_mem_head? hc) hoof3
    have g3 := hlg (freeBegin s x xb d' logged) x x2 true _ i2 hx2 (e24 ▸ hk) hpb2 hoof3 st3
    generalize (run cfg f (freeBegin s x xb d' logged) (.loop x true x2.children.head?)).1 = s3
      at g3 st3 k23 hch3 hoof hoof3 ⊢
    obtain ⟨x3, hx3, e31, e32, e33⟩ := g3.stable x x2 hx2 (e24 ▸ hk) (Nat.lt_succ_self _)
    have hch : x3.children = [] := by
      have := hch3 rfl
      rw [childrenOf_eq hx3] at this; exact this
    obtain ⟨-, f2, -⟩ := freeEnd_some cfg s3 x x3 hx3
    refine ⟨by rw [stuck_freeEnd cfg s3 x x3 hx3 hch]; exact st3, ?_⟩
    have hmono : ∀ y, Outside s x y → Outside (freeBegin s x xb d' logged) x y := outside_stable i.wf k12
    exact k12.trans ((k23.mono hmono).trans ((keeps_remove s3 x hux).trans (Keeps.of_shapeEq _ f2)))


theorem unlink_step3 (cfg : Cfg) (rk : Nat → Nat) (f : Nat) (hf3 : FreeStmt3 cfg rk f) :
    UnlinkStmt3 cfg rk (f + 1) := by
  intro s ctx x xb i hx hxk hnp hpar hnull hpb hnr hst hoof
  simp only [run, hx, hpar, ne_eq, not_true_eq_false, if_false] at hoof ⊢
  cases hrefs : xb.refs with
  | nil =>
    simp only [hrefs] at hoof ⊢
    exact hf3 s x xb i hx hxk hrefs hnp hnull hpb hnr hst hoof
  | cons r rest =>
    simp only [hrefs] at hoof ⊢
    obtain ⟨rb, hr, hrk⟩ := i.wf.refLive x xb r hx (by rw [hrefs]; simp)
    simp only [hr] at hoof ⊢
    have hrnp : rb.kind ≠ .plain := by rw [hrk]; simp
    obtain ⟨lc, lr, ld, lp⟩ := i.wf.leaf r rb hr hrnp
    have hxr : x ≠ r := by intro e; subst e; rw [hx] at hr; cases hr; exact hrnp hxk
    have hq : rb.parent ≠ some x := by
      intro e; have := i.ranked.refLt r rb x x hr hrk e; omega
    have hself : xb.parent ≠ some x := by
      intro e; have := i.ranked.parentLt x xb x hx e; omega
    have hps := promoteMove_shapeEq cfg s x xb rb rest (orNull s ctx) hxk
    have hPr : (promoteS s x rb.parent rest).get r = some rb := by
      rw [promoteS_get hx rb.parent rest hq hself]
      have h1 : rb.parent ≠ some r := by
        intro e
        obtain ⟨po, hpo, hpk, -⟩ := i.wf.parentLive r rb r hr e
        rw [hr] at hpo; cases hpo; exact hrnp hpk
      have h2 : xb.parent ≠ some r := by
        intro e
        obtain ⟨po, hpo, hpk, -⟩ := i.wf.parentLive x xb r hx e
        rw [hr] at hpo; cases hpo; exact hrnp hpk
      simp [Ne.symm hxr, hr, h1, h2]
    obtain ⟨rb', hr', e1, e2, e3, e4, e5, e6⟩ := hps.get hPr
    cases f with
    | zero => simp [run] at hoof
    | succ f =>
      have ht : ∀ t, rb'.kind = .ref t → t ≠ r := by
        intro t hkk; rw [e4, hrk] at hkk; cases hkk; exact hxr
      have hpr : rb'.parent ≠ some r := by
        rw [e1]; intro e
        obtain ⟨po, hpo, hpk, -⟩ := i.wf.parentLive r rb r hr e
        rw [hr] at hpo; cases hpo; exact hrnp hpk
      obtain ⟨-, c2⟩ := run_free_leaf cfg f _ r rb' hr' (e4 ▸ hrnp) (e2 ▸ lc) (e3 ▸ lr) (e5 ▸ lp) (e6 ▸ ld) ht hpr
      have hs := run_free_leaf_stuck cfg f _ r rb' hr' (e4 ▸ hrnp) (e2 ▸ lc) (e3 ▸ lr) (e5 ▸ lp) (e6 ▸ ld) ht hpr
      refine ⟨by rw [hs, (frame_promoteMove cfg s x xb rb rest (orNull s ctx)).stuck]; exact hst, ?_⟩
      have hcomm : ShapeEq (moveS (freeLeafS s r) x rb.parent false)
          (run cfg (f + 1) (promoteMove cfg s x xb rb rest (orNull s ctx)) (.free r)).1 := by
        refine ShapeEq.trans ?_ c2
        refine ShapeEq.trans ?_ (shapeEq_freeLeafS hps r)
        refine shapeEq_get_eq ?_ (fun j => promote_comm i.wf hx hxk hrefs hnp hr hq hself j)
        rw [nullCtx_freeLeafS, nullCtx_moveS, nullCtx_freeLeafS]
        unfold promoteS; simp
      exact (keeps_promote i.wf hx hxk hr hrk rest hq hself (not_outside_self s x)
        (fun h => h.2 ⟨rb, x, hr, hrk⟩)).trans (Keeps.of_shapeEq _ hcomm)

end Usual.C01
