import UsualProofs.C01.SubCard
/-! The `list_for_each_safe` protocol of `free_children` never loses its cursor, and
`free_children(ptr, true)` leaves nothing behind: the ghost flag `stuck` is never set.  Along
the way: everything outside the freed subtree is left alone (`Keeps`). -/
set_option linter.unusedSimpArgs false
set_option linter.unusedVariables false
namespace Usual.C01

theorem succOf_mem (l : List Id) (c t : Id) (h : succOf l c = some t) : t ∈ l := by
  induction l with
  | nil => simp [succOf] at h
  | cons x xs ih =>
    simp only [succOf] at h
    split at h
    · exact List.mem_cons_of_mem _ (List.mem_of_mem_head? h)
    · exact List.mem_cons_of_mem _ (ih h)

theorem succOf_head (c : Id) (post : List Id) : succOf (c :: post) c = post.head? := by
  simp [succOf]

theorem succOf_ne (l : List Id) (c t : Id) (hnd : l.Nodup) (h : succOf l c = some t) : t ≠ c := by
  induction l with
  | nil => simp [succOf] at h
  | cons x xs ih =>
    have hnd' := List.nodup_cons.1 hnd
    simp only [succOf] at h
    split at h
    · rename_i e; subst e
      intro e2; subst e2
      exact hnd'.1 (List.mem_of_mem_head? h)
    · exact ih hnd'.2 h

theorem succOf_rel (R : Id → Id → Prop) (l : List Id) (c t : Id) (hp : l.Pairwise R) (h : succOf l c = some t) :
    R c t := by
  induction l with
  | nil => simp [succOf] at h
  | cons x xs ih =>
    have hp' := List.pairwise_cons.1 hp
    simp only [succOf] at h
    split at h
    · rename_i e; subst e
      exact hp'.1 t (List.mem_of_mem_head? h)
    · exact ih hp'.2 h

theorem sublist_tail_eq (l post : List Id) (c : Id) (h : List.Sublist l (c :: post)) (hc : c ∉ l)
    (hall : ∀ t ∈ post, t ∈ l) (hnd : (c :: post).Nodup) : l = post := by
  have h1 : List.Sublist l post := by
    rcases List.sublist_cons_iff.1 h with h | ⟨r, rfl, -⟩
    · exact h
    · exact absurd (List.mem_cons_self) hc
  have h2 : post.length ≤ l.length := ((List.nodup_cons.1 hnd).2.subperm hall).length_le
  exact h1.eq_of_length_le h2

/-- the release of a TRef / `.memlimit` chunk does not touch the ghost flag -/
theorem run_free_leaf_stuck (cfg : Cfg) (f : Nat) (a : State) (r : Nat) (rb : Obj) (hr : a.get r = some rb)
    (hk : rb.kind ≠ .plain) (hc : rb.children = []) (hrf : rb.refs = []) (hp : rb.pending = false)
    (hd : rb.dtor = .none) (ht : ∀ t, rb.kind = .ref t → t ≠ r) (hpr : rb.parent ≠ some r) :
    (run cfg (f + 1) a (.free r)).1.stuck = a.stuck := by
  simp only [run, hr, hrf, hp, hd, dtorStep, ne_eq, not_true_eq_false, if_false, Bool.false_eq_true]
  have hb := freeBegin_leaf_get a r rb hr hk ht hpr
  have hch : childrenOf (freeBegin a r rb .none false) r = [] := by
    rw [childrenOf_eq (ob := { rb with dtor := .none, pending := true }) (by rw [hb]; simp)]; exact hc
  rw [hch]
  simp only [List.head?_nil]
  obtain ⟨hl, -⟩ := run_loop_none_get cfg f (freeBegin a r rb .none false) r true
  have hst : (run cfg f (freeBegin a r rb .none false) (.loop r true none)).1.stuck = a.stuck := by
    rw [← stuck_freeBegin a r rb .none false]
    cases f <;> simp [run]
  generalize (run cfg f (freeBegin a r rb .none false) (.loop r true none)).1 = s3 at hl hst ⊢
  have h3 : s3.get r = some { rb with dtor := .none, pending := true } := by rw [hl, hb]; simp
  rw [stuck_freeEnd cfg s3 r _ h3 hc, hst]

def FreeStmt3 (cfg : Cfg) (rk : Nat → Nat) (f : Nat) : Prop :=
  ∀ (s : State) (x : Nat) (xb : Obj), Inv rk s → s.get x = some xb → xb.kind = .plain → xb.refs = [] →
    xb.pending = false → s.nullCtx ≠ some x → PendBelow rk s (rk x) none → PendNR s none → s.stuck = false →
    (run cfg f s (.free x)).1.oof = false →
    (run cfg f s (.free x)).1.stuck = false ∧ Keeps (Outside s x) s (run cfg f s (.free x)).1

def UnlinkStmt3 (cfg : Cfg) (rk : Nat → Nat) (f : Nat) : Prop :=
  ∀ (s : State) (ctx : Option Id) (x : Nat) (xb : Obj), Inv rk s → s.get x = some xb → xb.kind = .plain →
    xb.pending = false → xb.parent = orNull s ctx → s.nullCtx ≠ some x → PendBelow rk s (rk x) none →
    PendNR s none → s.stuck = false → (run cfg f s (.unlink ctx x)).1.oof = false →
    (run cfg f s (.unlink ctx x)).1.stuck = false ∧ Keeps (Outside s x) s (run cfg f s (.unlink ctx x)).1 ∧
    ((run cfg f s (.unlink ctx x)).2 = 0 → (run cfg f s (.unlink ctx x)).1.get x = none ∨
      ∃ xb' r rb, (run cfg f s (.unlink ctx x)).1.get x = some xb' ∧ s.get r = some rb ∧ rb.kind = .ref x ∧
        xb'.parent = rb.parent ∧ (run cfg f s (.unlink ctx x)).1.get r = none)

def LoopStmt3 (cfg : Cfg) (rk : Nat → Nat) (f : Nat) : Prop :=
  ∀ (s : State) (o : Nat) (ob : Obj) (fn : Bool) (cur : Option Id), Inv rk s → s.get o = some ob →
    ob.kind = .plain → PendBelow rk s (rk o) (some o) → PendNR s (some o) → s.stuck = false →
    ob.pending = fn → (fn = true → cur = ob.children.head?) → (∀ c, cur = some c → c ∈ ob.children) →
    (run cfg f s (.loop o fn cur)).1.oof = false →
    (run cfg f s (.loop o fn cur)).1.stuck = false ∧ Keeps (Outside s o) s (run cfg f s (.loop o fn cur)).1 ∧
    (fn = true → childrenOf (run cfg f s (.loop o fn cur)).1 o = [])


theorem not_outside_self (s : State) (x : Nat) : ¬ Outside s x x := fun h => h.1 (Or.inl rfl)

/-- an object that is being freed is a plain object outside every subtree of higher rank -/
theorem pending_outside {rk : Nat → Nat} {s : State} (i : Inv rk s) {x p : Nat} {pb : Obj} (hp : s.get p = some pb)
    (hpend : pb.pending = true) (hlt : rk p < rk x) : Outside s x p := by
  refine ⟨?_, ?_⟩
  · rintro (rfl | h)
    · omega
    · have := h.rank i.ranked; omega
  · rintro ⟨zb, t, h1, h2⟩
    rw [hp] at h1; cases h1
    have := (i.wf.leaf p pb hp (by rw [h2]; simp)).2.2.2
    rw [hpend] at this; cases this

theorem noRefKid_of_sublist {U : Nat → Prop} {s s' : State} (k : Keeps U s s') {yb yb' : Obj}
    (h : NoRefKid s yb) (hs : List.Sublist yb'.children yb.children) : NoRefKid s' yb' :=
  fun z hz hr => h z (hs.subset hz) (isRefAt_back k hr)

theorem free_step3 (cfg : Cfg) (hfix : cfg.fixCx = true) (rk : Nat → Nat) (f : Nat) (hl3 : LoopStmt3 cfg rk f) :
    FreeStmt3 cfg rk (f + 1) := by
  intro s x xb i hx hk hrf hnp hnull hpb hnr hst hoof
  have hself : xb.parent ≠ some x := by
    intro e; have := i.ranked.parentLt x xb x hx e; omega
  have hux := not_outside_self s x
  have hlg := (run_good cfg hfix rk f).2.2
  simp only [run, hx, hrf, hnp, ne_eq, not_true_eq_false, if_false, Bool.false_eq_true] at hoof ⊢
  cases hds : dtorStep xb.dtor with
  | mk acc rest =>
  obtain ⟨d', logged⟩ := rest
  cases acc with
  | false =>
    simp only [hds] at hoof ⊢
    refine ⟨hst, ?_⟩
    exact (keeps_modify _ s x (fun o => { o with dtor := d' }) (fun _ => ⟨rfl, rfl, rfl, rfl⟩)
      (fun h => absurd h hux)).trans
      (Keeps.of_shapeEq _ (shapeEq_addLog _ _))
  | true =>
    simp only [hds] at hoof ⊢
    have hsh := freeBegin_plain_shapeEq s x xb d' logged hk
    have hbg := beginFree_get s x d' xb hx
    simp only [hself, if_false] at hbg
    have i2 : Inv rk (freeBegin s x xb d' logged) :=
      Inv.shapeEq hsh ⟨beginFree_wf d' i.wf hx hk hrf hnp hnull hself, beginFree_ranked d' i.ranked hx⟩
    have k12 : Keeps (Outside s x) s (freeBegin s x xb d' logged) :=
      (keeps_beginFree i.wf hx hself d' hux).trans (Keeps.of_shapeEq _ hsh)
    obtain ⟨x2, hx2, e21, e22, e23, e24, e25, e26⟩ := hsh.get (s := beginFree s x d') (j := x)
      (o := { xb with dtor := d', pending := true }) (by rw [hbg]; simp)
    have hpend2 : ∀ (y : Nat) yo, (freeBegin s x xb d' logged).get y = some yo → yo.pending = true → y ≠ x →
        ∃ yo0, s.get y = some yo0 ∧ yo0.pending = true := by
      intro y yo hy hp hne
      obtain ⟨y1, hy1, -, -, -, -, e5, -⟩ := hsh.symm.get hy
      rw [hbg] at hy1
      simp only [hne, if_false] at hy1
      split at hy1
      · obtain ⟨o0, h0, rfl⟩ := Option.map_eq_some_iff.1 hy1; exact ⟨o0, h0, by rw [← e5] at hp; exact hp⟩
      · exact ⟨y1, hy1, by rw [← e5] at hp; exact hp⟩
    have hpb2 : PendBelow rk (freeBegin s x xb d' logged) (rk x) (some x) := by
      intro y yo hy hp hne
      have hne' : y ≠ x := fun e => hne (by rw [e])
      obtain ⟨yo0, h0, h1⟩ := hpend2 y yo hy hp hne'
      exact hpb y yo0 h0 h1 (by simp)
    have hnr2 : PendNR (freeBegin s x xb d' logged) (some x) := by
      intro p pb hp hpend hne
      have hne' : p ≠ x := fun e => hne (by rw [e])
      obtain ⟨yo0, h0, h1⟩ := hpend2 p pb hp hpend hne'
      have hout := pending_outside i h0 h1 (hpb p yo0 h0 h1 (by simp))
      obtain ⟨pb', h2, -, -, -, h5⟩ := k12.keep p yo0 hout h0
      rw [hp] at h2; cases h2
      exact noRefKid_of_sublist k12 (hnr p yo0 h0 h1 (by simp)) (h5 h1 (hnr p yo0 h0 h1 (by simp)))
    have hst2 : (freeBegin s x xb d' logged).stuck = false := by rw [stuck_freeBegin]; exact hst
    have hfl := freeEnd_flagsLe cfg
      (run cfg f (freeBegin s x xb d' logged) (.loop x true (childrenOf (freeBegin s x xb d' logged) x).head?)).1 x
    have hoof3 := (flag_false_of_le hfl).1 hoof
    have hcur : (childrenOf (freeBegin s x xb d' logged) x).head? = x2.children.head? := by
      rw [childrenOf_eq hx2]
    rw [hcur] at hoof hoof3 hfl ⊢
    obtain ⟨st3, k23, hch3⟩ := hl3 (freeBegin s x xb d' logged) x x2 true _ i2 hx2 (e24 ▸ hk) hpb2 hnr2 hst2
      (by rw [e25]) (fun _ => rfl) (fun c hc => List.mem_of_mem_head? hc) hoof3
    have g3 := hlg (freeBegin s x xb d' logged) x x2 true _ i2 hx2 (e24 ▸ hk) hpb2 hoof3 st3
    generalize (run cfg f (freeBegin s x xb d' logged) (.loop x true x2.children.head?)).1 = s3
      at g3 st3 k23 hch3 hoof hoof3 ⊢
    obtain ⟨x3, hx3, e31, e32, e33⟩ := g3.stable x x2 hx2 (e24 ▸ hk) (Nat.lt_succ_self _)
    have hch : x3.children = [] := by
      have := hch3 rfl
      rw [childrenOf_eq hx3] at this; exact this
    obtain ⟨-, f2, -⟩ := freeEnd_some cfg s3 x x3 hx3
    refine ⟨by rw [stuck_freeEnd cfg s3 x x3 hx3 hch]; exact st3, ?_⟩
    have hmono : ∀ y, Outside s x y → Outside (freeBegin s x xb d' logged) x y := outside_stable i.wf k12
    exact k12.trans ((k23.mono hmono).trans ((keeps_remove s3 x hux).trans (Keeps.of_shapeEq _ f2)))


theorem unlink_step3 (cfg : Cfg) (hfix : cfg.fixCx = true) (rk : Nat → Nat) (f : Nat) (hf3 : FreeStmt3 cfg rk f) :
    UnlinkStmt3 cfg rk (f + 1) := by
  intro s ctx x xb i hx hxk hnp hpar hnull hpb hnr hst hoof
  simp only [run, hx, hpar, ne_eq, not_true_eq_false, if_false] at hoof ⊢
  cases hrefs : xb.refs with
  | nil =>
    simp only [hrefs] at hoof ⊢
    obtain ⟨a1, a2⟩ := hf3 s x xb i hx hxk hrefs hnp hnull hpb hnr hst hoof
    refine ⟨a1, a2, ?_⟩
    intro hrc
    obtain ⟨-, hpost⟩ := (run_good cfg hfix rk f).1 s x xb i hx hrefs hnp hnull hpb hoof a1
    rcases hpost with ⟨-, h⟩ | ⟨h, -⟩
    · exact Or.inl h
    · rw [hrc] at h; cases h
  | cons r rest =>
    simp only [hrefs] at hoof ⊢
    obtain ⟨rb, hr, hrk⟩ := i.wf.refLive x xb r hx (by rw [hrefs]; simp)
    simp only [hr] at hoof ⊢
    have hrnp : rb.kind ≠ .plain := by rw [hrk]; simp
    obtain ⟨lc, lr, ld, lp⟩ := i.wf.leaf r rb hr hrnp
    have hxr : x ≠ r := by intro e; subst e; rw [hx] at hr; cases hr; exact hrnp hxk
    have hq : rb.parent ≠ some x := by
      intro e; have := i.ranked.refLt r rb x x hr hrk e; omega
    have hself : xb.parent ≠ some x := by
      intro e; have := i.ranked.parentLt x xb x hx e; omega
    have hps := promoteMove_shapeEq cfg s x xb rb rest (orNull s ctx) hxk
    have hPr : (promoteS s x rb.parent rest).get r = some rb := by
      rw [promoteS_get hx rb.parent rest hq hself]
      have h1 : rb.parent ≠ some r := by
        intro e
        obtain ⟨po, hpo, hpk, -⟩ := i.wf.parentLive r rb r hr e
        rw [hr] at hpo; cases hpo; exact hrnp hpk
      have h2 : xb.parent ≠ some r := by
        intro e
        obtain ⟨po, hpo, hpk, -⟩ := i.wf.parentLive x xb r hx e
        rw [hr] at hpo; cases hpo; exact hrnp hpk
      simp [Ne.symm hxr, hr, h1, h2]
    obtain ⟨rb', hr', e1, e2, e3, e4, e5, e6⟩ := hps.get hPr
    cases f with
    | zero => simp [run] at hoof
    | succ f =>
      have ht : ∀ t, rb'.kind = .ref t → t ≠ r := by
        intro t hkk; rw [e4, hrk] at hkk; cases hkk; exact hxr
      have hpr : rb'.parent ≠ some r := by
        rw [e1]; intro e
        obtain ⟨po, hpo, hpk, -⟩ := i.wf.parentLive r rb r hr e
        rw [hr] at hpo; cases hpo; exact hrnp hpk
      obtain ⟨c1, c2⟩ := run_free_leaf cfg f _ r rb' hr' (e4 ▸ hrnp) (e2 ▸ lc) (e3 ▸ lr) (e5 ▸ lp) (e6 ▸ ld) ht hpr
      have hs := run_free_leaf_stuck cfg f _ r rb' hr' (e4 ▸ hrnp) (e2 ▸ lc) (e3 ▸ lr) (e5 ▸ lp) (e6 ▸ ld) ht hpr
      refine ⟨by rw [hs, (frame_promoteMove cfg s x xb rb rest (orNull s ctx)).stuck]; exact hst, ?_⟩
      have hcomm : ShapeEq (moveS (freeLeafS s r) x rb.parent false)
          (run cfg (f + 1) (promoteMove cfg s x xb rb rest (orNull s ctx)) (.free r)).1 := by
        refine ShapeEq.trans ?_ c2
        refine ShapeEq.trans ?_ (shapeEq_freeLeafS hps r)
        refine shapeEq_get_eq ?_ (fun j => promote_comm i.wf hx hxk hrefs hnp hr hq hself j)
        rw [nullCtx_freeLeafS, nullCtx_moveS, nullCtx_freeLeafS]
        unfold promoteS; simp
      refine ⟨(keeps_promote i.wf hx hxk hr hrk rest hq hself (not_outside_self s x)
        (fun h => h.2 ⟨rb, x, hr, hrk⟩)).trans (Keeps.of_shapeEq _ hcomm), ?_⟩
      intro _
      right
      have hLx : (freeLeafS s r).get x = some { xb with children := xb.children.erase r, refs := xb.refs.erase r } := by
        rw [freeLeafS_get i.wf hr hrnp]; unfold eraseAll; simp [hxr, hx]
      have hmx := moveS_getG hLx rb.parent false hq hself x
      simp only [if_true] at hmx
      obtain ⟨xb', h1, h2, -⟩ := hcomm.get hmx
      have hmr := moveS_getG hLx rb.parent false hq hself r
      have hLr : (freeLeafS s r).get r = none := by
        rw [freeLeafS_get i.wf hr hrnp]; unfold eraseAll; simp
      simp only [Ne.symm hxr, if_false, hLr, Option.map_none] at hmr
      have hrd : (run cfg (f + 1) (promoteMove cfg s x xb rb rest (orNull s ctx)) (.free r)).1.get r = none := by
        have := hcomm.2 r
        rw [hmr] at this
        cases h : (run cfg (f + 1) (promoteMove cfg s x xb rb rest (orNull s ctx)) (.free r)).1.get r with
        | none => rfl
        | some o => rw [h] at this; cases this
      exact ⟨xb', r, rb, h1, hr, hrk, h2, hrd⟩


/-- what one iteration of the `free_children` loop establishes -/
structure BodyOut (rk : Nat → Nat) (s s2 : State) (o : Nat) (ob : Obj) (c : Nat) (fn : Bool) : Prop where
  stuck : s2.stuck = false
  good : Good rk (rk o + 1) s s2
  keeps : Keeps (Outside s o) s s2
  /-- even everything outside the subtree of the child is left alone -/
  keepsC : Keeps (Outside s c) s s2
  next : ∃ o2, s2.get o = some o2 ∧ (∀ t, succOf ob.children c = some t → t ∈ o2.children) ∧
    (fn = true → ∀ post, ob.children = c :: post → o2.children = post)
  /-- the child list of `o` afterwards: unchanged (the child stays), or the child is gone, what came
  before and after it is in place, new children are appended, and the subtree has become smaller -/
  pos : ∀ pre post, ob.children = pre ++ c :: post → (∀ z ∈ pre, ¬ isRefAt s z) →
    ∃ o2, s2.get o = some o2 ∧ ((o2.children = ob.children ∧ subCard s2 o = subCard s o ∧ isPlainAt s c) ∨
      (∃ app, o2.children = pre ++ post ++ app ∧ subCard s2 o < subCard s o))

theorem child_inSub {s : State} {o c : Nat} {cb : Obj} (hc : s.get c = some cb) (hcp : cb.parent = some o) :
    InSub s o c := Or.inr (Anc.parent (by rw [parentOf_eq hc]; exact hcp))

/-- the iteration on a TRef / `.memlimit` chunk -/
theorem body_leaf3 (cfg : Cfg) (rk : Nat → Nat) (f : Nat) (s : State) (o : Nat) (ob : Obj) (fn : Bool) (c : Nat)
    (cb : Obj) (i : Inv rk s) (ho : s.get o = some ob) (hst : s.stuck = false) (hcm : c ∈ ob.children)
    (hc : s.get c = some cb) (hknp : cb.kind ≠ .plain)
    (hoof : (if (run cfg f s (.unlink (some o) c)).2 ≠ 0 then throwChild cfg (run cfg f s (.unlink (some o) c)).1 c
      else (run cfg f s (.unlink (some o) c)).1).oof = false) :
    BodyOut rk s (if (run cfg f s (.unlink (some o) c)).2 ≠ 0 then throwChild cfg (run cfg f s (.unlink (some o) c)).1 c
      else (run cfg f s (.unlink (some o) c)).1) o ob c fn := by
  obtain ⟨cb', hc', hcp, -⟩ := i.wf.childBack o ob c ho hcm
  rw [hc] at hc'; cases hc'
  obtain ⟨lc, lr, ld, lp⟩ := i.wf.leaf c cb hc hknp
  have ht : ∀ t, cb.kind = .ref t → t ≠ c := by
    intro t hkk e; subst e
    obtain ⟨tb, htb, hm⟩ := i.wf.refBack t cb t hc hkk
    rw [hc] at htb; cases htb; rw [lr] at hm; cases hm
  have hpr : cb.parent ≠ some c := by
    intro e
    obtain ⟨po, hpo, hpk, -⟩ := i.wf.parentLive c cb c hc e
    rw [hc] at hpo; cases hpo; exact hknp hpk
  cases f with
  | zero => simp [run] at hoof
  | succ f1 =>
    have hrun : run cfg (f1 + 1) s (.unlink (some o) c) = run cfg f1 s (.free c) := by
      simp only [run, hc, orNull, hcp, ne_eq, not_true_eq_false, if_false, lr]
    rw [hrun] at hoof ⊢
    cases f1 with
    | zero => simp [run] at hoof
    | succ f2 =>
      obtain ⟨c1, c2⟩ := run_free_leaf cfg f2 s c cb hc hknp lc lr lp ld ht hpr
      have hs := run_free_leaf_stuck cfg f2 s c cb hc hknp lc lr lp ld ht hpr
      simp only [c1, ne_eq, not_true_eq_false, if_false] at hoof ⊢
      have hgo : (freeLeafS s c).get o = some { ob with children := ob.children.erase c, refs := ob.refs.erase c } := by
        have hoc : o ≠ c := by intro e; subst e; rw [ho] at hc; cases hc; rw [lc] at hcm; cases hcm
        rw [freeLeafS_get i.wf hc hknp]; unfold eraseAll; simp [hoc, ho]
      obtain ⟨o2, ho2, -, e2, -⟩ := c2.get hgo
      have hkeeps : Keeps (Outside s o) s (run cfg (f2 + 1) s (.free c)).1 :=
        (keeps_freeLeafS i.wf hc hknp (fun h => h.1 (child_inSub hc hcp))).trans (Keeps.of_shapeEq _ c2)
      have hkeepsC : Keeps (Outside s c) s (run cfg (f2 + 1) s (.free c)).1 :=
        (keeps_freeLeafS i.wf hc hknp (not_outside_self s c)).trans (Keeps.of_shapeEq _ c2)
      refine ⟨by rw [hs]; exact hst, good_freeLeaf i hc hknp c2, hkeeps, hkeepsC, ⟨o2, ho2, ?_, ?_⟩, ?_⟩
      · intro t ht'
        rw [e2]
        exact (List.mem_erase_of_ne (succOf_ne _ _ _ (i.wf.childNodup o ob ho) ht')).2 (succOf_mem _ _ _ ht')
      · intro _ post hpost
        rw [e2]; show ob.children.erase c = post
        rw [hpost]; simp
      · intro pre post hch _
        refine ⟨o2, ho2, Or.inr ⟨[], ?_, ?_⟩⟩
        · rw [e2]; show ob.children.erase c = pre ++ post ++ []
          have hnd := i.wf.childNodup o ob ho
          rw [hch] at hnd ⊢
          rw [List.append_nil, erase_mid pre post c (fun h => (List.nodup_append.1 hnd).2.2 c h c (by simp) rfl)]
        · refine subCard_lt (inSub_back i.wf hkeeps) c cb hc (child_inSub hc hcp) (Or.inl ?_)
          have hgc : (freeLeafS s c).get c = none := by
            rw [freeLeafS_get i.wf hc hknp]; unfold eraseAll; simp
          have := c2.2 c
          rw [hgc] at this
          cases h : (run cfg (f2 + 1) s (.free c)).1.get c with
          | none => rfl
          | some o => rw [h] at this; cases this

theorem not_ref_of_plain {s : State} {z : Nat} (h : isPlainAt s z) : ¬ isRefAt s z := by
  rintro ⟨zb, t, h1, h2⟩
  obtain ⟨ao, h3, h4⟩ := h
  rw [h1] at h3; cases h3; rw [h2] at h4; cases h4

/-- a sibling of `c` is outside the subtree of `c` -/
theorem sibling_outside {rk : Nat → Nat} {s : State} (i : Inv rk s) {o c t : Nat} {ob cb : Obj}
    (ho : s.get o = some ob) (hc : s.get c = some cb) (hcp : cb.parent = some o) (ht : t ∈ ob.children)
    (hne : t ≠ c) (hpl : ¬ isRefAt s t) : Outside s c t := by
  obtain ⟨tb, htb, htp, -⟩ := i.wf.childBack o ob t ho ht
  have hlt := i.ranked.parentLt c cb o hc hcp
  refine ⟨?_, hpl⟩
  rintro (e | h)
  · exact hne e
  · obtain ⟨p, hp1, hp2⟩ := h.cases_parent
    rw [parentOf_eq htb, htp] at hp1; cases hp1
    rcases hp2 with e | h2
    · subst e; omega
    · have := h2.rank i.ranked; omega

/-- the iteration on a plain child -/
theorem body_plain3 (cfg : Cfg) (hfix : cfg.fixCx = true) (rk : Nat → Nat) (f : Nat) (hu3 : UnlinkStmt3 cfg rk f)
    (s : State) (o : Nat) (ob : Obj) (fn : Bool) (c : Nat) (cb : Obj) (i : Inv rk s) (ho : s.get o = some ob)
    (hok : ob.kind = .plain) (hpb : PendBelow rk s (rk o) (some o)) (hnr : PendNR s (some o))
    (hst : s.stuck = false) (hpend : ob.pending = fn) (hhead : fn = true → ob.children.head? = some c)
    (hcm : c ∈ ob.children) (hc : s.get c = some cb) (hk : cb.kind = .plain)
    (hoof : (if (run cfg f s (.unlink (some o) c)).2 ≠ 0 then throwChild cfg (run cfg f s (.unlink (some o) c)).1 c
      else (run cfg f s (.unlink (some o) c)).1).oof = false) :
    BodyOut rk s (if (run cfg f s (.unlink (some o) c)).2 ≠ 0 then throwChild cfg (run cfg f s (.unlink (some o) c)).1 c
      else (run cfg f s (.unlink (some o) c)).1) o ob c fn := by
  have hu := (run_good cfg hfix rk f).2.1
  obtain ⟨cb', hc', hcp, hcnp⟩ := i.wf.childBack o ob c ho hcm
  rw [hc] at hc'; cases hc'
  have hlt := i.ranked.parentLt c cb o hc hcp
  have hcplain : isPlainAt s c := ⟨cb, hc, hk⟩
  have horder := i.wf.order o ob ho
  have hnd := i.wf.childNodup o ob ho
  have hfl1 : FlagsLe (run cfg f s (.unlink (some o) c)).1
      (if (run cfg f s (.unlink (some o) c)).2 ≠ 0 then throwChild cfg (run cfg f s (.unlink (some o) c)).1 c
      else (run cfg f s (.unlink (some o) c)).1) := by
    split
    · exact throwChild_flagsLe _ _ _
    · exact FlagsLe.refl _
  have hoof1 := (flag_false_of_le hfl1).1 hoof
  have hnullc : s.nullCtx ≠ some c := by
    intro e
    obtain ⟨nb, hb1, -, -, hb4, -⟩ := i.wf.nullOK c e
    rw [hc] at hb1; cases hb1; rw [hcp] at hb4; cases hb4
  have hpbc : PendBelow rk s (rk c) none := by
    intro y yo hy hp _
    by_cases e : y = o
    · subst e; exact hlt
    · have := hpb y yo hy hp (by simpa using e); omega
  -- if `o` is being freed, all its children are plain by now
  have hnro : ob.pending = true → NoRefKid s ob := by
    intro hp
    have hfn : fn = true := by rw [← hpend]; exact hp
    have hh := hhead hfn
    intro z hz
    apply not_ref_of_plain
    cases hch : ob.children with
    | nil => rw [hch] at hz; cases hz
    | cons a post =>
      rw [hch] at hh hz horder
      simp only [List.head?_cons, Option.some.injEq] at hh; subst hh
      rcases List.mem_cons.1 hz with rfl | hz'
      · exact hcplain
      · exact (List.pairwise_cons.1 horder).1 z hz' hcplain
  have hnr0 : PendNR s none := by
    intro p pb hp hpp _
    by_cases e : p = o
    · subst e; rw [ho] at hp; cases hp; exact hnro hpp
    · exact hnr p pb hp hpp (by simpa using e)
  obtain ⟨st1, k1, gone⟩ := hu3 s (some o) c cb i hc hk hcnp (by simp [orNull, hcp]) hnullc hpbc hnr0 hst hoof1
  obtain ⟨g1, hout⟩ := hu s (some o) c cb i hc hcnp (by simp [orNull, hcp]) hnullc hpbc hoof1 st1
  generalize run cfg f s (.unlink (some o) c) = r1 at st1 k1 gone g1 hout hoof hoof1 ⊢
  -- `o` after the unlink
  have hout_o : Outside s c o := by
    refine ⟨?_, not_ref_of_plain ⟨ob, ho, hok⟩⟩
    rintro (e | h)
    · subst e; omega
    · have := h.rank i.ranked; omega
  obtain ⟨o1, ho1, -, hop1, hF2, hF3⟩ := k1.keep o ob hout_o ho
  have hmono : ∀ y, Outside s o y → Outside s c y := by
    intro y hy
    refine ⟨fun h => hy.1 ?_, hy.2⟩
    rcases h with rfl | h
    · exact child_inSub hc hcp
    · exact Or.inr ((Anc.parent (by rw [parentOf_eq hc]; exact hcp)).trans h)
  have hA : ∀ t, succOf ob.children c = some t → t ∈ o1.children := by
    intro t ht
    have htm := succOf_mem _ _ _ ht
    have htne := succOf_ne _ _ _ hnd ht
    have htp : isPlainAt s t := succOf_rel _ _ _ _ horder ht hcplain
    exact hF2 t htm (sibling_outside i ho hc hcp htm htne (not_ref_of_plain htp))
  have hB : fn = true → ∀ post, ob.children = c :: post →
      List.Sublist o1.children (c :: post) ∧ ∀ t ∈ post, t ∈ o1.children := by
    intro hfn post hpost
    have hp : ob.pending = true := by rw [hpend]; exact hfn
    refine ⟨by rw [← hpost]; exact hF3 hp (hnro hp), ?_⟩
    intro t ht
    have htm : t ∈ ob.children := by rw [hpost]; exact List.mem_cons_of_mem _ ht
    have htne : t ≠ c := by
      intro e; subst e; rw [hpost] at hnd; exact (List.nodup_cons.1 hnd).1 ht
    have htp : isPlainAt s t := by
      rw [hpost] at horder; exact (List.pairwise_cons.1 horder).1 t ht hcplain
    exact hF2 t htm (sibling_outside i ho hc hcp htm htne (not_ref_of_plain htp))
  have hkO : Keeps (Outside s o) s r1.1 := k1.mono hmono
  -- the child list of `o` after the unlink, by position
  have hord : ∀ pre post, ob.children = pre ++ c :: post → (∀ z ∈ pre, ¬ isRefAt s z) →
      ∃ app, o1.children = pre ++ c :: post ++ app ∨ o1.children = pre ++ post ++ app := by
    intro pre post hch hpre
    obtain ⟨kf, app, e, hk⟩ := k1.order o ob o1 hout_o ho ho1
    have hnd' := hnd
    rw [hch] at hnd' horder
    have hkpre : ∀ z ∈ pre, kf z = true := by
      intro z hz
      have hzm : z ∈ ob.children := by rw [hch]; exact List.mem_append_left _ hz
      have hzc : z ≠ c := by
        intro e'; subst e'
        exact (List.nodup_append.1 hnd').2.2 z hz z (by simp) rfl
      exact hk z hzm (sibling_outside i ho hc hcp hzm hzc (hpre z hz))
    have hkpost : ∀ z ∈ post, kf z = true := by
      intro z hz
      have hzm : z ∈ ob.children := by rw [hch]; simp [hz]
      have hzc : z ≠ c := by
        intro e'; subst e'
        exact (List.nodup_cons.1 (List.nodup_append.1 hnd').2.1).1 hz
      have hzp : isPlainAt s z :=
        (List.pairwise_cons.1 (List.pairwise_append.1 horder).2.1).1 z hz hcplain
      exact hk z hzm (sibling_outside i ho hc hcp hzm hzc (not_ref_of_plain hzp))
    refine ⟨app, ?_⟩
    rw [e, hch, filter_mid pre post c kf hkpre hkpost]
    cases kf c
    · right; simp
    · left; simp
  -- after a successful unlink the child is gone from the list and the subtree is smaller
  have hgone0 : r1.2 = 0 → ∀ pre post, ob.children = pre ++ c :: post → (∀ z ∈ pre, ¬ isRefAt s z) →
      c ∉ o1.children ∧ subCard r1.1 o < subCard s o := by
    intro hrc pre post hch hpre
    have hnd' := hnd
    rw [hch] at hnd' horder
    rcases gone hrc with hdead | ⟨xb', r, rb, h1, h2, h3, h4, h5⟩
    · refine ⟨?_, subCard_lt (inSub_back i.wf hkO) c cb hc (child_inSub hc hcp) (Or.inl hdead)⟩
      intro hm
      obtain ⟨c1, hc1, -⟩ := g1.inv.wf.childBack o o1 c ho1 hm
      rw [hdead] at hc1; cases hc1
    · -- promoted to the context `q` of its first reference
      have hrnp : rb.kind ≠ .plain := by rw [h3]; simp
      have hnot_o : rb.parent ≠ some o := by
        intro hrp
        obtain ⟨po, hpo, -, hmr⟩ := i.wf.parentLive r rb o h2 hrp
        rw [ho] at hpo; cases hpo
        have hrm : r ∈ ob.children := by
          rcases hmr with h | h
          · exact h
          · rw [(i.wf.leaf r rb h2 hrnp).2.2.2] at h; cases h
        have hrr : isRefAt s r := ⟨rb, c, h2, h3⟩
        rw [hch] at hrm
        rcases List.mem_append.1 hrm with hm | hm
        · exact hpre r hm hrr
        · rcases List.mem_cons.1 hm with e | hm'
          · subst e; rw [hc] at h2; cases h2; exact hrnp hk
          · exact not_ref_of_plain ((List.pairwise_cons.1 (List.pairwise_append.1 horder).2.1).1 r hm' hcplain) hrr
      refine ⟨?_, ?_⟩
      · intro hm
        obtain ⟨c1, hc1, hcp1, -⟩ := g1.inv.wf.childBack o o1 c ho1 hm
        rw [hc1] at h1; cases h1
        exact hnot_o (by rw [← h4]; exact hcp1)
      · cases hq : rb.parent with
        | none =>
          -- promoted to the top: `c` has left the subtree
          refine subCard_lt (inSub_back i.wf hkO) c cb hc (child_inSub hc hcp) (Or.inr ?_)
          rintro (e | h)
          · subst e; omega
          · obtain ⟨p, hp1, -⟩ := h.cases_parent
            rw [parentOf_eq h1, h4, hq] at hp1; cases hp1
        | some q =>
          by_cases hqin : InSub s o q
          · -- the TRef chunk was in the subtree and is released
            refine subCard_lt (inSub_back i.wf hkO) r rb h2
              (InSub.of_parent (by rw [parentOf_eq h2]; exact hq) hqin) (Or.inl h5)
          · refine subCard_lt (inSub_back i.wf hkO) c cb hc (child_inSub hc hcp) (Or.inr ?_)
            rintro (e | h)
            · subst e; omega
            · obtain ⟨p, hp1, hp2⟩ := h.cases_parent
              rw [parentOf_eq h1, h4, hq] at hp1; cases hp1
              have hqin2 : InSub r1.1 o q := by
                rcases hp2 with e | h'
                · exact Or.inl e
                · exact Or.inr h'
              obtain ⟨qb, hqb, -⟩ := g1.inv.wf.parentLive c xb' q h1 (by rw [h4]; exact hq)
              exact hqin (inSub_back i.wf hkO q qb hqb hqin2).2
  by_cases hrc : r1.2 = 0
  · simp only [hrc, ne_eq, not_true_eq_false, if_false] at hoof ⊢
    refine ⟨st1, g1.mono (by omega), hkO, k1, ⟨o1, ho1, hA, ?_⟩, ?_⟩
    rotate_left
    · intro pre post hch hpre
      obtain ⟨hcn, hlt'⟩ := hgone0 hrc pre post hch hpre
      obtain ⟨app, h | h⟩ := hord pre post hch hpre
      · exact absurd (by rw [h]; simp) hcn
      · exact ⟨o1, ho1, Or.inr ⟨app, h, hlt'⟩⟩
    intro hfn post hpost
    obtain ⟨hs, hall⟩ := hB hfn post hpost
    have hp : ob.pending = true := by rw [hpend]; exact hfn
    refine sublist_tail_eq _ _ c hs ?_ hall (by rw [← hpost]; exact hnd)
    intro hm
    obtain ⟨c1, hc1, hcp1, -⟩ := g1.inv.wf.childBack o o1 c ho1 hm
    rcases gone hrc with h | ⟨xb', r, rb, h1, h2, h3, h4, -⟩
    · rw [h] at hc1; cases hc1
    · rw [hc1] at h1; cases h1
      have hrp : rb.parent = some o := by rw [← h4]; exact hcp1
      obtain ⟨po, hpo, -, hmr⟩ := i.wf.parentLive r rb o h2 hrp
      rw [ho] at hpo; cases hpo
      have hrm : r ∈ ob.children := by
        rcases hmr with h | h
        · exact h
        · rw [(i.wf.leaf r rb h2 (by rw [h3]; simp)).2.2.2] at h; cases h
      exact hnro hp r hrm ⟨rb, c, h2, h3⟩
  · simp only [ne_eq, hrc, not_false_eq_true, if_true] at hoof ⊢
    rcases hout with h0 | ⟨hck, d, hsh⟩
    · exact absurd h0 hrc
    obtain ⟨c1, hc1, e1, -, -, e4, e5, -⟩ := hsh.get (j := c) (o := { cb with dtor := d }) (by simp [hc])
    have hc1p : c1.parent = some o := by rw [e1]; exact hcp
    have hc1k : c1.kind = .plain := by rw [e4]; exact hck
    have hc1np : c1.pending = false := by rw [e5]; exact hcnp
    obtain ⟨o1', ho1', hop1', -, hok1⟩ := g1.stable o ob ho hok hlt
    rw [ho1] at ho1'; cases ho1'
    have gthrow := throw_good cfg hfix rk r1.1 c o c1 o1 g1.inv hc1 hc1k hc1np hc1p ho1 hok1 hoof
    have hstuck2 : (throwChild cfg r1.1 c).stuck = false := by
      rw [(frame_throwChild cfg r1.1 c).stuck]; exact st1
    -- what throw_child did
    have hnull1 : r1.1.nullCtx ≠ some c := by
      intro e
      obtain ⟨nb, hb1, -, -, hb4, -⟩ := g1.inv.wf.nullOK c e
      rw [hc1] at hb1; cases hb1; rw [hc1p] at hb4; cases hb4
    unfold throwChild at hoof ⊢
    simp only [hc1, hc1p] at hoof ⊢
    cases hcl : climbPending r1.1.fuel r1.1 (some o) with
    | none => simp [hcl] at hoof
    | some res =>
      simp only [hcl, hfix, if_true] at hoof ⊢
      have hspec := climbPending_spec g1.inv r1.1.fuel o o1 ho1 hok1 res hcl
      have htgt : ∀ q qb, orNull r1.1 res = some q → r1.1.get q = some qb → qb.pending = false := by
        intro q qb hq hqb
        rcases hspec with h | ⟨q', qb', h1, h2, -, h4, -⟩
        · subst h
          simp only [orNull] at hq
          obtain ⟨nb, hb1, -, hb3, -⟩ := g1.inv.wf.nullOK q hq
          rw [hqb] at hb1; cases hb1; exact hb3
        · subst h1
          simp only [orNull, Option.some.injEq] at hq; subst hq
          rw [hqb] at h2; cases h2; exact h4
      by_cases hsame : orNull r1.1 res = some o
      · -- `o` is not being freed: the child stays
        simp only [hsame, ne_eq, not_true_eq_false, if_false] at gthrow hstuck2 ⊢
        have hoc' : o ≠ c := by intro e; subst e; omega
        have hch1 : o1.children = ob.children := by
          obtain ⟨o1'', h, -, e2, -⟩ := hsh.get (j := o) (o := ob) (by simp [Ne.symm hoc', ho])
          rw [ho1] at h; cases h; exact e2
        refine ⟨st1, g1.mono (by omega), hkO, k1, ⟨o1, ho1, hA, ?_⟩, ?_⟩
        · intro hfn
          exfalso
          have := htgt o o1 hsame ho1
          rw [hop1, hpend, hfn] at this; cases this
        · intro pre post hch hpre
          exact ⟨o1, ho1, Or.inl ⟨hch1, subCard_shape_dtor c d o hsh, hcplain⟩⟩
      · simp only [ne_eq, hsame, not_false_eq_true, if_true] at hoof ⊢
        have hshm := moveChild_shapeEq cfg r1.1 c c1 hc1 (orNull r1.1 res) (some o)
        have hir : isRef c1 = false := by simp [isRef, hc1k]
        rw [hir] at hshm
        have hselfq : orNull r1.1 res ≠ some c := by
          intro e
          have := htgt c c1 e hc1
          rcases hspec with h | ⟨q', qb', h1, h2, -, -, h5⟩
          · subst h; exact hnull1 e
          · subst h1; simp only [orNull, Option.some.injEq] at e; subst e; omega
        have hself' : c1.parent ≠ some c := by
          rw [hc1p]; intro e; have e' : o = c := Option.some.inj e; subst e'; omega
        have hgood : Good rk (rk o + 1) s (moveChild cfg r1.1 c (orNull r1.1 res) (some o)) := by
          have : Good rk (rk o + 1) r1.1 (throwChild cfg r1.1 c) :=
            throw_good cfg hfix rk r1.1 c o c1 o1 g1.inv hc1 hc1k hc1np hc1p ho1 hok1
              (by unfold throwChild; simp only [hc1, hc1p, hcl, hfix, if_true, ne_eq, hsame, not_false_eq_true]; exact hoof)
          unfold throwChild at this
          simp only [hc1, hc1p, hcl, hfix, if_true, ne_eq, hsame, not_false_eq_true] at this
          exact (g1.mono (by omega)).trans this
        have kthrow : Keeps (Outside s o) r1.1 (moveChild cfg r1.1 c (orNull r1.1 res) (some o)) :=
          (keeps_moveS g1.inv.wf hc1 hc1k (orNull r1.1 res) hselfq hself' (fun h => h.1 (child_inSub hc hcp))
            (fun q qb hq hqb hp => by rw [htgt q qb hq hqb] at hp; cases hp)).trans (Keeps.of_shapeEq _ hshm)
        have hgo := moveS_getG hc1 (orNull r1.1 res) false hselfq hself' o
        have hoc : o ≠ c := by intro e; subst e; omega
        simp only [hoc, if_false, ho1, Option.map_some, hsame, hc1p, if_true, Bool.false_eq_true] at hgo
        obtain ⟨o2, ho2, -, e2, -⟩ := hshm.get hgo
        have hch1 : o1.children = ob.children := by
          obtain ⟨o1'', h, -, e2', -⟩ := hsh.get (j := o) (o := ob) (by simp [Ne.symm hoc, ho])
          rw [ho1] at h; cases h; exact e2'
        have hkO2 := hkO.trans kthrow
        have kthrowC : Keeps (Outside s c) r1.1 (moveChild cfg r1.1 c (orNull r1.1 res) (some o)) :=
          (keeps_moveS g1.inv.wf hc1 hc1k (orNull r1.1 res) hselfq hself' (not_outside_self s c)
            (fun q qb hq hqb hp => by rw [htgt q qb hq hqb] at hp; cases hp)).trans (Keeps.of_shapeEq _ hshm)
        refine ⟨by rw [(frame_moveChild cfg r1.1 c _ _).stuck]; exact st1, hgood, hkO2, k1.trans kthrowC,
          ⟨o2, ho2, ?_, ?_⟩, ?_⟩
        rotate_left 2
        · intro pre post hch hpre
          refine ⟨o2, ho2, Or.inr ⟨[], ?_, ?_⟩⟩
          · rw [e2]; show o1.children.erase c = pre ++ post ++ []
            have hnd' := hnd
            rw [hch] at hnd'
            rw [hch1, hch, List.append_nil,
              erase_mid pre post c (fun h => (List.nodup_append.1 hnd').2.2 c h c (by simp) rfl)]
          · -- the child now hangs above `o`
            refine subCard_lt (inSub_back i.wf hkO2) c cb hc (child_inSub hc hcp) (Or.inr ?_)
            have hgc := moveS_getG hc1 (orNull r1.1 res) false hselfq hself' c
            simp only [if_true] at hgc
            obtain ⟨c2, hc2, e1c, -⟩ := hshm.get hgc
            rintro (e | h)
            · exact hoc e.symm
            · obtain ⟨p, hp1, hp2⟩ := h.cases_parent
              rw [parentOf_eq hc2, e1c] at hp1
              have hpin : InSub (moveChild cfg r1.1 c (orNull r1.1 res) (some o)) o p := by
                rcases hp2 with e | h'
                · exact Or.inl e
                · exact Or.inr h'
              have hpo : p ≠ o := by intro e; subst e; exact hsame hp1
              obtain ⟨pb2, hpb2, -⟩ := hgood.inv.wf.parentLive c c2 p hc2 (by rw [e1c]; exact hp1)
              have hps := (inSub_back i.wf hkO2 p pb2 hpb2 hpin).2
              rcases hps with e | hanc
              · exact hpo e
              · have hr1 := hanc.rank i.ranked
                rcases hspec with hn | ⟨q', qb', h1, -, -, -, h5⟩
                · subst hn
                  simp only [orNull] at hp1
                  rw [g1.null] at hp1
                  obtain ⟨nb, hb1, -, -, hb4, -⟩ := i.wf.nullOK p hp1
                  obtain ⟨p', hp', -⟩ := hanc.cases_parent
                  rw [parentOf_eq hb1, hb4] at hp'; cases hp'
                · subst h1
                  simp only [orNull, Option.some.injEq] at hp1; subst hp1
                  omega
        · intro t ht
          rw [e2]
          exact (List.mem_erase_of_ne (succOf_ne _ _ _ hnd ht)).2 (hA t ht)
        · intro hfn post hpost
          obtain ⟨hs, hall⟩ := hB hfn post hpost
          rw [e2]
          have hnd1 := g1.inv.wf.childNodup o o1 ho1
          refine sublist_tail_eq _ _ c (List.erase_sublist.trans hs) ?_ ?_ (by rw [← hpost]; exact hnd)
          · exact fun hm => (List.Nodup.mem_erase_iff hnd1).1 hm |>.1 rfl
          · intro t ht
            have htne : t ≠ c := by
              intro e; subst e; rw [hpost] at hnd; exact (List.nodup_cons.1 hnd).1 ht
            exact (List.mem_erase_of_ne htne).2 (hall t ht)


theorem loop_step3 (cfg : Cfg) (hfix : cfg.fixCx = true) (rk : Nat → Nat) (f : Nat)
    (hu3 : UnlinkStmt3 cfg rk f) (hl3 : LoopStmt3 cfg rk f) : LoopStmt3 cfg rk (f + 1) := by
  intro s o ob fn cur i ho hok hpb hnr hst hpend hhead hmemc hoof
  cases cur with
  | none =>
    simp only [run]
    refine ⟨hst, Keeps.refl _ _, ?_⟩
    intro hfn
    have := hhead hfn
    rw [childrenOf_eq ho]
    cases h : ob.children with
    | nil => rfl
    | cons a l => rw [h] at this; cases this
  | some c =>
    have hcm : c ∈ ob.children := hmemc c rfl
    simp only [run] at hoof ⊢
    have hse : loopEnter s o c = s := by
      unfold loopEnter; rw [if_pos]; rw [childrenOf_eq ho]; simpa using hcm
    rw [hse] at hoof ⊢
    obtain ⟨cb, hc, hcp, hcnp⟩ := i.wf.childBack o ob c ho hcm
    simp only [hc] at hoof ⊢
    rw [childrenOf_eq ho] at hoof ⊢
    by_cases hskip : (!fn && isLimit cb) = true
    · simp only [hskip, if_true] at hoof ⊢
      have hfn : fn = false := by cases fn <;> simp_all
      exact hl3 s o ob fn _ i ho hok hpb hnr hst hpend (by intro h; rw [hfn] at h; cases h)
        (fun t ht => succOf_mem _ _ _ ht) hoof
    · simp only [hskip, if_false] at hoof ⊢
      have hfl2 := run_flagsLe cfg f
        (if (run cfg f s (.unlink (some o) c)).2 ≠ 0 then throwChild cfg (run cfg f s (.unlink (some o) c)).1 c
          else (run cfg f s (.unlink (some o) c)).1) (.loop o fn (succOf ob.children c))
      have hoof2 := (flag_false_of_le hfl2).1 hoof
      have hbody : BodyOut rk s
          (if (run cfg f s (.unlink (some o) c)).2 ≠ 0 then throwChild cfg (run cfg f s (.unlink (some o) c)).1 c
            else (run cfg f s (.unlink (some o) c)).1) o ob c fn := by
        by_cases hk : cb.kind = .plain
        · exact body_plain3 cfg hfix rk f hu3 s o ob fn c cb i ho hok hpb hnr hst hpend
            (fun hfn => by rw [← hhead hfn]) hcm hc hk hoof2
        · exact body_leaf3 cfg rk f s o ob fn c cb i ho hst hcm hc hk hoof2
      generalize (if (run cfg f s (.unlink (some o) c)).2 ≠ 0 then throwChild cfg (run cfg f s (.unlink (some o) c)).1 c
          else (run cfg f s (.unlink (some o) c)).1) = s2 at hbody hoof hoof2 ⊢
      obtain ⟨st2, g2, k2, -, ⟨o2, ho2, hnext, hexact⟩, -⟩ := hbody
      obtain ⟨o2', ho2', hop2, -, hok2⟩ := g2.stable o ob ho hok (Nat.lt_succ_self _)
      rw [ho2] at ho2'; cases ho2'
      have hnr2 : PendNR s2 (some o) := by
        intro p pb hp hpp hne
        obtain ⟨yo0, h0, h1⟩ := g2.nnp p pb hp hpp
        have hne' : p ≠ o := fun e => hne (by rw [e])
        have hout := pending_outside i h0 h1 (hpb p yo0 h0 h1 hne)
        obtain ⟨pb', h2, -, -, -, h5⟩ := k2.keep p yo0 hout h0
        rw [hp] at h2; cases h2
        exact noRefKid_of_sublist k2 (hnr p yo0 h0 h1 hne) (h5 h1 (hnr p yo0 h0 h1 hne))
      have hhead2 : fn = true → succOf ob.children c = o2.children.head? := by
        intro hfn
        have hh := hhead hfn
        cases hch : ob.children with
        | nil => rw [hch] at hcm; cases hcm
        | cons a post =>
          rw [hch] at hh
          simp only [List.head?_cons, Option.some.injEq] at hh; subst hh
          rw [hexact hfn post hch, succOf_head]
      obtain ⟨st3, k3, hch3⟩ := hl3 s2 o o2 fn _ g2.inv ho2 hok2 (hpb.of_nnp g2.nnp) hnr2 st2
        (by rw [hop2]; exact hpend) hhead2 hnext hoof
      exact ⟨st3, k2.trans (k3.mono (outside_stable i.wf k2)), hch3⟩

/-- **no_stuck** (with `Keeps`): `_talloc_free`, `_talloc_unlink` and the `free_children` loops never
lose the `list_for_each_safe` cursor and leave no child behind -/
theorem run_out (cfg : Cfg) (hfix : cfg.fixCx = true) (rk : Nat → Nat) (f : Nat) :
    FreeStmt3 cfg rk f ∧ UnlinkStmt3 cfg rk f ∧ LoopStmt3 cfg rk f := by
  induction f with
  | zero =>
    refine ⟨?_, ?_, ?_⟩
    · intro s x xb _ _ _ _ _ _ _ _ _ hoof; simp [run] at hoof
    · intro s ctx x xb _ _ _ _ _ _ _ _ _ hoof; simp [run] at hoof
    · intro s o ob fn cur _ _ _ _ _ _ _ _ _ hoof; simp [run] at hoof
  | succ f ih =>
    exact ⟨free_step3 cfg hfix rk f ih.2.2, unlink_step3 cfg hfix rk f ih.1, loop_step3 cfg hfix rk f ih.2.1 ih.2.2⟩

end Usual.C01
