import Mathlib.Algebra.Order.BigOperators.Group.Finset
import UsualProofs.C01.MoveFlags
/-! `move_memlimit` keeps the accounting invariant. -/
set_option linter.unusedSimpArgs false
set_option linter.unusedVariables false
namespace Usual.C01
open Finset

/-- which limit chunks `apply_memlimit` visits from `p`: those of `p` and of its ancestors -/
theorem limits_link {rk : Nat → Nat} {q : State} (i : InvT rk q) (fl : FlagsInv q) (cfg : Cfg)
    (hfix : cfg.fixGone = true) (f : Nat) (p : Nat) (pb : Obj) (hp : q.get p = some pb) (hpk : pb.kind = .plain)
    (hc : climbOK cfg f q (some p) = true) (l : Nat) (lb : Obj) (ctx : Nat) (hl : q.get l = some lb)
    (hlk : lb.kind = .limit) (hlp : lb.parent = some ctx) :
    l ∈ limitsAbove cfg f q (some p) ↔ (ctx = p ∨ Anc q ctx p) := by
  constructor
  · intro hm
    obtain ⟨lb0, q0, a1, a2, a3, a4⟩ := limitsAbove_anc i cfg f p l hm
    rw [hl] at a1; cases a1
    rw [hlp] at a3; cases a3
    exact a4
  · intro h
    exact limitsAbove_of_anc i fl cfg hfix f p pb hp hpk hc l lb ctx hl hlk hlp h

theorem limitsAbove_none (cfg : Cfg) (f : Nat) (q : State) : limitsAbove cfg f q none = [] := by
  cases f <;> simp [limitsAbove]

theorem FlagsInv.congr {s s' : State}
    (h : ∀ y : Nat, (s'.get y).map (fun o => (o.parent, o.kind, o.useLim, o.hasLim)) =
      (s.get y).map (fun o => (o.parent, o.kind, o.useLim, o.hasLim))) (fl : FlagsInv s) : FlagsInv s' := by
  have hg : ∀ (y : Nat) yb', s'.get y = some yb' → ∃ yb, s.get y = some yb ∧ yb'.parent = yb.parent ∧
      yb'.kind = yb.kind ∧ yb'.useLim = yb.useLim ∧ yb'.hasLim = yb.hasLim := by
    intro y yb' hy
    have := h y
    rw [hy] at this
    cases h2 : s.get y with
    | none => rw [h2] at this; cases this
    | some yb =>
      rw [h2] at this
      simp only [Option.map_some, Option.some.injEq, Prod.mk.injEq] at this
      exact ⟨yb, rfl, this.1, this.2.1, this.2.2.1, this.2.2.2⟩
  refine ⟨?_, ?_, ?_, ?_⟩
  · intro x o hx hh
    obtain ⟨o0, h0, -, -, e3, e4⟩ := hg x o hx
    rw [e3]; exact fl.hasUse x o0 h0 (e4 ▸ hh)
  · intro x o p po hx hpar hp hpu hk
    obtain ⟨o0, h0, e1, e2, e3, -⟩ := hg x o hx
    obtain ⟨p0, hp0, -, -, f3, -⟩ := hg p po hp
    rw [e3]
    exact fl.inherit x o0 p p0 h0 (e1 ▸ hpar) hp0 (f3 ▸ hpu) (e2 ▸ hk)
  · intro l lb ctx cb hl hk hp hc
    obtain ⟨l0, hl0, e1, e2, -, -⟩ := hg l lb hl
    obtain ⟨c0, hc0, -, -, -, f4⟩ := hg ctx cb hc
    rw [f4]
    exact fl.chunkHas l l0 ctx c0 hl0 (e2 ▸ hk) (e1 ▸ hp) hc0
  · intro l1 l2 b1 b2 ctx h1 h2 k1 k2 p1 p2
    obtain ⟨c1, g1, e1, e2, -, -⟩ := hg l1 b1 h1
    obtain ⟨c2, g2, f1, f2, -, -⟩ := hg l2 b2 h2
    exact fl.chunkUnique l1 l2 c1 c2 ctx g1 g2 (e2 ▸ k1) (f2 ▸ k2) (e1 ▸ p1) (f1 ▸ p2)

theorem AcctInv.congr {s s' : State} (hlen : s'.heap.length = s.heap.length)
    (h : ∀ y : Nat, (s'.get y).map (fun o => (o.parent, o.kind, o.size, o.lcur)) =
      (s.get y).map (fun o => (o.parent, o.kind, o.size, o.lcur))) (ac : AcctInv s) : AcctInv s' := by
  intro l lb' ctx hl hk hp
  have := h l
  rw [hl] at this
  cases h2 : s.get l with
  | none => rw [h2] at this; cases this
  | some lb =>
    rw [h2] at this
    simp only [Option.map_some, Option.some.injEq, Prod.mk.injEq] at this
    obtain ⟨e1, e2, e3, e4⟩ := this
    rw [e4, ac l lb ctx h2 (e2 ▸ hk) (e1 ▸ hp)]
    symm
    apply chargeUnder_congr hlen
    · intro y; unfold parentOf
      have := h y
      cases h3 : s'.get y <;> cases h4 : s.get y <;> rw [h3, h4] at this <;> simp at this ⊢
      exact this.1
    · intro y
      have := h y
      cases h3 : s'.get y <;> cases h4 : s.get y <;> rw [h3, h4] at this <;> simp at this ⊢
      exact this.2.2.1


/-- `s3` is `s` with the chunk `t` hung under `tnew` (child lists adjusted), nothing else touched -/
structure StructMove (s s3 : State) (t : Nat) (tnew : Option Id) : Prop where
  len : s3.heap.length = s.heap.length
  moved : Moved s s3 t
  newParent : parentOf s3 t = tnew
  fields : ∀ y : Nat, (s3.get y).map (fun o => (o.size, o.useLim, o.hasLim, o.lcur, o.kind, o.pending)) =
    (s.get y).map (fun o => (o.size, o.useLim, o.hasLim, o.lcur, o.kind, o.pending))

theorem StructMove.get {s s3 : State} {t : Nat} {tnew : Option Id} (sm : StructMove s s3 t tnew) {y : Nat} {yb : Obj}
    (h : s.get y = some yb) : ∃ yb3, s3.get y = some yb3 ∧ yb3.size = yb.size ∧ yb3.useLim = yb.useLim ∧
      yb3.hasLim = yb.hasLim ∧ yb3.lcur = yb.lcur ∧ yb3.kind = yb.kind ∧ yb3.pending = yb.pending := by
  have := sm.fields y
  rw [h] at this
  cases h3 : s3.get y with
  | none => rw [h3] at this; cases this
  | some yb3 =>
    rw [h3] at this
    simp only [Option.map_some, Option.some.injEq, Prod.mk.injEq] at this
    exact ⟨yb3, rfl, this.1, this.2.1, this.2.2.1, this.2.2.2.1, this.2.2.2.2.1, this.2.2.2.2.2⟩

theorem StructMove.get' {s s3 : State} {t : Nat} {tnew : Option Id} (sm : StructMove s s3 t tnew) {y : Nat} {yb3 : Obj}
    (h : s3.get y = some yb3) : ∃ yb, s.get y = some yb ∧ yb3.size = yb.size ∧ yb3.useLim = yb.useLim ∧
      yb3.hasLim = yb.hasLim ∧ yb3.lcur = yb.lcur ∧ yb3.kind = yb.kind ∧ yb3.pending = yb.pending := by
  have := sm.fields y
  rw [h] at this
  cases h3 : s.get y with
  | none => rw [h3] at this; cases this
  | some yb =>
    rw [h3] at this
    simp only [Option.map_some, Option.some.injEq, Prod.mk.injEq] at this
    exact ⟨yb, rfl, this.1, this.2.1, this.2.2.1, this.2.2.2.1, this.2.2.2.2.1, this.2.2.2.2.2⟩

theorem StructMove.parent {s s3 : State} {t : Nat} {tnew : Option Id} (sm : StructMove s s3 t tnew) {y : Nat}
    {yb yb3 : Obj} (hy : y ≠ t) (h : s.get y = some yb) (h3 : s3.get y = some yb3) : yb3.parent = yb.parent := by
  have := sm.moved.same y hy
  rw [parentOf_eq h, parentOf_eq h3] at this; exact this

/-- the flag invariant survives the structural move, except for the inheritance at `t` -/
theorem StructMove.flagsEx {s s3 : State} {t : Nat} {tnew : Option Id} (sm : StructMove s s3 t tnew)
    (fl : FlagsInv s) (tb : Obj) (ht : s.get t = some tb) (htk : tb.kind ≠ .limit) : FlagsInvEx s3 t := by
  refine ⟨?_, ?_, ?_, ?_⟩
  · intro x o hx hh
    obtain ⟨o0, h0, -, e2, e3, -⟩ := sm.get' hx
    rw [e2]; exact fl.hasUse x o0 h0 (e3 ▸ hh)
  · intro x o p po hxt hx hpar hp hpu hk
    obtain ⟨o0, h0, -, e2, -, -, e5, -⟩ := sm.get' hx
    obtain ⟨p0, hp0, -, f2, -⟩ := sm.get' hp
    rw [e2]
    exact fl.inherit x o0 p p0 h0 (by rw [← sm.parent hxt h0 hx]; exact hpar) hp0 (f2 ▸ hpu) (e5 ▸ hk)
  · intro l lb ctx cb hl hk hp hc
    obtain ⟨l0, hl0, -, -, -, -, e5, -⟩ := sm.get' hl
    obtain ⟨c0, hc0, -, -, f3, -⟩ := sm.get' hc
    have hlt : l ≠ t := by
      intro e; subst e; rw [ht] at hl0; cases hl0; exact htk (e5 ▸ hk)
    rw [f3]
    exact fl.chunkHas l l0 ctx c0 hl0 (e5 ▸ hk) (by rw [← sm.parent hlt hl0 hl]; exact hp) hc0
  · intro l1 l2 b1 b2 ctx h1 h2 k1 k2 p1 p2
    obtain ⟨c1, g1, -, -, -, -, e5, -⟩ := sm.get' h1
    obtain ⟨c2, g2, -, -, -, -, f5, -⟩ := sm.get' h2
    have hlt1 : l1 ≠ t := by
      intro e; subst e; rw [ht] at g1; cases g1; exact htk (e5 ▸ k1)
    have hlt2 : l2 ≠ t := by
      intro e; subst e; rw [ht] at g2; cases g2; exact htk (f5 ▸ k2)
    exact fl.chunkUnique l1 l2 c1 c2 ctx g1 g2 (e5 ▸ k1) (f5 ▸ k2)
      (by rw [← sm.parent hlt1 g1 h1]; exact p1) (by rw [← sm.parent hlt2 g2 h2]; exact p2)


theorem modify_use_id (q : State) (t : Nat) (v : Bool) (h : ∀ tb, q.get t = some tb → tb.useLim = v) (y : Nat) :
    (q.modify t fun x => { x with useLim := v }).get y = q.get y := by
  rw [get_modify]
  by_cases e : t = y
  · subst e
    simp only [if_true]
    cases hq : q.get t with
    | none => rfl
    | some tb =>
      have := h tb hq
      simp only [Option.map_some, Option.some.injEq]
      cases tb; simp_all
  · simp [e]

open Classical in
theorem subCharge_eq {rk : Nat → Nat} {s s3 : State} {t : Nat} {tnew : Option Id} (sm : StructMove s s3 t tnew)
    (wr : Ranked rk s) (wr3 : Ranked rk s3) (cfg : Cfg) (hw : cfg.fixWalk = true) :
    subSum cfg s3 t = subCharge s t := by
  unfold subSum subCharge
  rw [sm.len]
  apply Finset.sum_congr rfl
  intro y _
  have h1 : wcAt cfg s3 y = chargeAt s y := by
    unfold wcAt chargeAt walkCharge
    have := sm.fields y
    cases h3 : s3.get y <;> cases h4 : s.get y <;> rw [h3, h4] at this <;> simp at this ⊢
    rw [hw, this.1]; rfl
  have h2 := inSub_move sm.moved wr wr3 y
  rw [h1]
  by_cases hc : InSub s t y
  · rw [if_pos hc, if_pos (h2.2 hc)]
  · rw [if_neg hc, if_neg (fun h => hc (h2.1 h))]


theorem EqButCur.shapeEq {s s' : State} (h : EqButCur s s') (hn : s'.nullCtx = s.nullCtx) : ShapeEq s s' := by
  refine ⟨hn, fun j => ?_⟩
  have := h j
  cases h1 : s'.get j <;> cases h2 : s.get j <;> rw [h1, h2] at this <;> simp at this ⊢
  rename_i a b
  cases a; cases b; simp_all [Obj.shape]

theorem EqButCur.size {s s' : State} (h : EqButCur s s') (y : Nat) :
    (s'.get y).map (·.size) = (s.get y).map (·.size) := by
  have := h y
  cases h1 : s'.get y <;> cases h2 : s.get y <;> rw [h1, h2] at this <;> simp at this ⊢
  rename_i a b
  cases a; cases b; simp_all

theorem EqButCur.trans {a b c : State} (h1 : EqButCur a b) (h2 : EqButCur b c) : EqButCur a c :=
  fun j => (h2 j).trans (h1 j)

theorem EqButCur.refl (s : State) : EqButCur s s := fun _ => rfl

theorem EqButCur.flags {s s' : State} (h : EqButCur s s') (fl : FlagsInv s) : FlagsInv s' := by
  apply FlagsInv.congr _ fl
  intro y
  have := h y
  cases h1 : s'.get y <;> cases h2 : s.get y <;> rw [h1, h2] at this <;> simp at this ⊢
  rename_i a b
  cases a; cases b; simp_all

open Classical in
theorem subCharge_le {rk : Nat → Nat} {s : State} (wr : Ranked rk s) (ctx l t : Nat) (hl : ¬ InSub s t l) :
    Anc s ctx t → subCharge s t ≤ chargeUnder s ctx l := by
  intro h
  unfold subCharge chargeUnder
  apply Finset.sum_le_sum
  intro y _
  by_cases hy : InSub s t y
  · have hyl : y ≠ l := fun e => hl (e ▸ hy)
    have hanc : Anc s ctx y := by
      rcases hy with rfl | hy
      · exact h
      · exact h.trans hy
    rw [if_pos hy, if_pos ⟨hyl, hanc⟩]
  · rw [if_neg hy]; exact Nat.zero_le _

open Classical in
/-- the two `apply_memlimit` stages of `move_memlimit` put every counter right -/
theorem acct_stages {rk : Nat → Nat} {s s3 s1 : State} (cfg : Cfg) (hg : cfg.fixGone = true) (i : InvT rk s)
    (ac : AcctInv s) (t : Nat) (tnew : Option Id) (sm : StructMove s s3 t tnew) (i3 : InvT rk s3)
    (he : EqButUse s3 s1) (fl1 : FlagsInv s1) (tb : Obj) (ht : s.get t = some tb) (htk : tb.kind ≠ .limit)
    (W : Nat) (hW : W = subCharge s t) (oldlim newlim : Bool) (f : Nat)
    (hK1 : oldlim = false → ∀ (l : Nat) lb ctx, s.get l = some lb → lb.kind = .limit → lb.parent = some ctx →
      ¬ Anc s ctx t)
    (hK2 : newlim = false → ∀ (l : Nat) lb ctx, s.get l = some lb → lb.kind = .limit → lb.parent = some ctx →
      ¬ Anc s3 ctx t)
    (s2 : State) (hs2 : s2 = if oldlim = true then (applyLim cfg f s1 tb.parent (-(W : Int)) true).getD s1 else s1)
    (s4 : State) (hs4 : s4 = if newlim = true then (applyLim cfg f s2 tnew (W : Int) true).getD s2 else s2)
    (hoof : s4.oof = false)
    (hnewp : ∀ n, tnew = some n → ∃ nb, s.get n = some nb ∧ nb.kind = .plain) :
    AcctInv s4 ∧ EqButCur s1 s4 ∧ s4.heap.length = s1.heap.length ∧ s4.nullCtx = s1.nullCtx := by
  have i1 : InvT rk s1 := i3.shapeEq he.shapeEq
  -- stage 1
  have hs2' : ∃ s2', (oldlim = true → applyLim cfg f s1 tb.parent (-(W : Int)) true = some s2' ) ∧
      (oldlim = false → s2' = s1) ∧ s2 = s2' := by
    cases oldlim with
    | false => exact ⟨s1, fun h => (by cases h), fun _ => rfl, by simpa using hs2⟩
    | true =>
      have := applyLim_isSome_of cfg f s1 tb.parent (-(W : Int)) true (Or.inr rfl)
      cases hq : applyLim cfg f s1 tb.parent (-(W : Int)) true with
      | none => rw [hq] at this; cases this
      | some q => exact ⟨q, fun _ => rfl, fun h => (by cases h), by simp [hs2, hq]⟩
  obtain ⟨s2', h2a, h2b, rfl⟩ := hs2'
  have e12 : EqButCur s1 s2 ∧ s2.heap.length = s1.heap.length ∧ s2.nullCtx = s1.nullCtx := by
    cases ho : oldlim with
    | false => rw [h2b ho]; exact ⟨.refl _, rfl, rfl⟩
    | true =>
      exact ⟨applyLim_eqButCur i1 cfg f _ _ true s2 (h2a ho), applyLim_length _ _ _ _ _ _ _ (h2a ho),
        (applyLim_shapeEq _ _ _ _ _ _ _ (h2a ho)).1⟩
  have i2 : InvT rk s2 := i1.shapeEq (e12.1.shapeEq e12.2.2)
  have fl2 : FlagsInv s2 := e12.1.flags fl1
  -- stage 2
  have hs4' : ∃ s4', (newlim = true → applyLim cfg f s2 tnew (W : Int) true = some s4') ∧
      (newlim = false → s4' = s2) ∧ s4 = s4' := by
    cases newlim with
    | false => exact ⟨s2, fun h => (by cases h), fun _ => rfl, by simpa using hs4⟩
    | true =>
      have := applyLim_isSome_of cfg f s2 tnew (W : Int) true (Or.inr rfl)
      cases hq : applyLim cfg f s2 tnew (W : Int) true with
      | none => rw [hq] at this; cases this
      | some q => exact ⟨q, fun _ => rfl, fun h => (by cases h), by simp [hs4, hq]⟩
  obtain ⟨s4', h4a, h4b, rfl⟩ := hs4'
  have e24 : EqButCur s2 s4 ∧ s4.heap.length = s2.heap.length ∧ s4.nullCtx = s2.nullCtx := by
    cases hn : newlim with
    | false => rw [h4b hn]; exact ⟨.refl _, rfl, rfl⟩
    | true =>
      exact ⟨applyLim_eqButCur i2 cfg f _ _ true s4 (h4a hn), applyLim_length _ _ _ _ _ _ _ (h4a hn),
        (applyLim_shapeEq _ _ _ _ _ _ _ (h4a hn)).1⟩
  refine ⟨?_, e12.1.trans e24.1, e24.2.1.trans e12.2.1, e24.2.2.trans e12.2.2⟩
  have hoof2 : s2.oof = false := by
    cases hn : newlim with
    | false => rw [h4b hn] at hoof; exact hoof
    | true => exact oof_false_of_le (applyLim_flagsLe _ _ _ _ _ _ _ (h4a hn)) hoof
  -- parents in the intermediate states are those of s3
  have hpar1 : ∀ y, parentOf s1 y = parentOf s3 y := he.parentOf
  have hpar2 : ∀ y, parentOf s2 y = parentOf s3 y := fun y =>
    (parentOf_shapeEq (e12.1.shapeEq e12.2.2) y).trans (hpar1 y)
  have hpar4 : ∀ y, parentOf s4 y = parentOf s3 y := fun y =>
    (parentOf_shapeEq ((e12.1.trans e24.1).shapeEq (e24.2.2.trans e12.2.2)) y).trans (hpar1 y)
  have hsize4 : ∀ y : Nat, (s4.get y).map (·.size) = (s3.get y).map (·.size) := by
    intro y
    rw [← he.size y]
    exact EqButCur.size (e12.1.trans e24.1) y
  -- a chunk of the final state, traced back
  intro l lb4 ctx hl4 hk4 hp4
  have htr : ∃ lb, s.get l = some lb ∧ lb.kind = .limit ∧ lb.parent = some ctx ∧
      ∃ lb1, s1.get l = some lb1 ∧ lb1.lcur = lb.lcur ∧ lb1.kind = .limit ∧ lb1.parent = some ctx := by
    have h41 := (e12.1.trans e24.1) l
    rw [hl4] at h41
    cases a1 : s1.get l with
    | none => rw [a1] at h41; cases h41
    | some lb1 =>
      rw [a1] at h41
      simp only [Option.map_some, Option.some.injEq] at h41
      have k1 : lb1.kind = .limit := by
        have : ({ lb4 with lcur := 0 } : Obj).kind = ({ lb1 with lcur := 0 } : Obj).kind := by rw [h41]
        simp at this; rw [← this]; exact hk4
      have p1 : lb1.parent = some ctx := by
        have : ({ lb4 with lcur := 0 } : Obj).parent = ({ lb1 with lcur := 0 } : Obj).parent := by rw [h41]
        simp at this; rw [← this]; exact hp4
      obtain ⟨lb3, a3, e3⟩ := he.symm.get a1
      obtain ⟨lb, a0, -, -, -, c4, c5, -⟩ := sm.get' a3
      have k3 : lb3.kind = .limit := by rw [e3]; exact k1
      have hlt : l ≠ t := by
        intro e; subst e; rw [ht] at a0; cases a0; exact htk (c5 ▸ k3)
      have p3 : lb3.parent = some ctx := by rw [e3]; exact p1
      exact ⟨lb, a0, c5 ▸ k3, by rw [← sm.parent hlt a0 a3]; exact p3, lb1, rfl,
        by rw [← c4, e3], k1, p1⟩
  obtain ⟨lb, hl, hk, hp, lb1, hl1, hc1, hk1, hp1⟩ := htr
  have hacs := ac l lb ctx hl hk hp
  -- where the chunk's context sits relative to the moved subtree
  have hop_out : ∀ op, tb.parent = some op → ¬ InSub s t op := by
    intro op hop hin
    have h1 := i.ranked.parentLt t tb op ht hop
    rcases hin with rfl | h
    · omega
    · have := h.rank i.ranked; omega
  have hn_out : ∀ n, tnew = some n → ¬ InSub s t n := by
    intro n hn hin
    obtain ⟨tb3, ht3, -⟩ := sm.get ht
    have hpn : tb3.parent = some n := by rw [← parentOf_eq ht3, sm.newParent]; exact hn
    have h1 := i3.ranked.parentLt t tb3 n ht3 hpn
    rcases hin with rfl | h
    · omega
    · have := h.rank i.ranked; omega
  -- stage 1: the counter
  have hcur2 : ∃ lb2, s2.get l = some lb2 ∧ lb2.kind = .limit ∧ lb2.parent = some ctx ∧
      lb2.lcur = if Anc s ctx t then lb.lcur - W else lb.lcur := by
    cases ho : oldlim with
    | false =>
      rw [h2b ho]
      exact ⟨lb1, hl1, hk1, hp1, by rw [if_neg (hK1 ho l lb ctx hl hk hp), hc1]⟩
    | true =>
      obtain ⟨lb2, a2, b1, b2, -, -, -, b6⟩ := applyLim_lcur_neg i1 cfg f tb.parent W true s2 (h2a ho) l lb1 hl1
      refine ⟨lb2, a2, b1 ▸ hk1, b2 ▸ hp1, ?_⟩
      rw [b6, hc1]
      have hiff : l ∈ limitsAbove cfg f s1 tb.parent ↔ Anc s ctx t := by
        cases hpar : tb.parent with
        | none =>
          rw [limitsAbove_none]
          constructor
          · intro h; cases h
          · intro h
            obtain ⟨p, hp', -⟩ := h.cases_parent
            rw [parentOf_eq ht, hpar] at hp'; cases hp'
        | some op =>
          obtain ⟨opb, hopb, hopk, -⟩ := i.wf.parentLive t tb op ht hpar
          obtain ⟨opb3, hopb3, _, _, _, _, c5, _⟩ := sm.get hopb
          obtain ⟨opb1, hopb1, eop⟩ := he.get hopb3
          have hopk1 : opb1.kind = .plain := by
            rw [eop]; simp only []; rw [c5]; exact hopk
          rw [limits_link i1 fl1 cfg hg f op opb1 hopb1 hopk1
            (by rw [← hpar]; exact applyLim_climbOK cfg f s1 _ _ true s2 (h2a ho) hoof2) l lb1 ctx hl1 hk1 hp1]
          rw [anc_iff_parent ctx t, parentOf_eq ht, hpar]
          have hanc : Anc s1 ctx op ↔ Anc s ctx op := by
            rw [Anc.congr hpar1, anc_move_outside sm.moved ctx op (hop_out op hpar)]
          constructor
          · rintro (h | h)
            · exact ⟨op, rfl, Or.inl h⟩
            · exact ⟨op, rfl, Or.inr (hanc.1 h)⟩
          · rintro ⟨p, hp', h⟩
            cases hp'
            rcases h with h | h
            · exact Or.inl h
            · exact Or.inr (hanc.2 h)
      by_cases hc : Anc s ctx t
      · rw [if_pos (hiff.2 hc), if_pos hc]
      · rw [if_neg (fun h => hc (hiff.1 h)), if_neg hc]
  obtain ⟨lb2, hl2, hk2, hp2, hc2⟩ := hcur2
  -- stage 2: the counter
  have hcur4 : lb4.lcur = if Anc s3 ctx t then lb2.lcur + W else lb2.lcur := by
    cases hn : newlim with
    | false =>
      rw [h4b hn] at hl4; rw [hl2] at hl4; cases hl4
      have : ¬ Anc s3 ctx t := hK2 hn l lb ctx hl hk hp
      rw [if_neg this]
    | true =>
      obtain ⟨lb4', a4, -, -, -, -, -, b6⟩ := applyLim_lcur i2 cfg f tnew W true s4 (h4a hn) l lb2 hl2
      rw [hl4] at a4; cases a4
      rw [b6]
      have hiff : l ∈ limitsAbove cfg f s2 tnew ↔ Anc s3 ctx t := by
        cases hnw : tnew with
        | none =>
          rw [limitsAbove_none]
          constructor
          · intro h; cases h
          · intro h
            obtain ⟨p, hp', -⟩ := h.cases_parent
            rw [sm.newParent, hnw] at hp'; cases hp'
        | some n =>
          obtain ⟨nb, hnb, hnk⟩ := hnewp n hnw
          obtain ⟨nb3, hnb3, _, _, _, _, c5, _⟩ := sm.get hnb
          obtain ⟨nb1, hnb1, en⟩ := he.get hnb3
          have h12 := e12.1 n
          rw [hnb1] at h12
          cases hnb2 : s2.get n with
          | none => rw [hnb2] at h12; cases h12
          | some nb2 =>
            rw [hnb2] at h12
            simp only [Option.map_some, Option.some.injEq] at h12
            have hnk2 : nb2.kind = .plain := by
              have : ({ nb2 with lcur := 0 } : Obj).kind = ({ nb1 with lcur := 0 } : Obj).kind := by rw [h12]
              simp at this; rw [this, en]; simp only []; rw [c5]; exact hnk
            rw [limits_link i2 fl2 cfg hg f n nb2 hnb2 hnk2
              (by rw [← hnw]; exact applyLim_climbOK cfg f s2 _ _ true s4 (h4a hn) hoof) l lb2 ctx hl2 hk2 hp2]
            rw [anc_iff_parent ctx t, sm.newParent, hnw]
            have hanc : Anc s2 ctx n ↔ Anc s3 ctx n := Anc.congr hpar2
            constructor
            · rintro (h | h)
              · exact ⟨n, rfl, Or.inl h⟩
              · exact ⟨n, rfl, Or.inr (hanc.1 h)⟩
            · rintro ⟨p, hp', h⟩
              cases hp'
              rcases h with h | h
              · exact Or.inl h
              · exact Or.inr (hanc.2 h)
      by_cases hc : Anc s3 ctx t
      · rw [if_pos (hiff.2 hc), if_pos hc]
      · rw [if_neg (fun h => hc (hiff.1 h)), if_neg hc]
  -- the sums
  rw [chargeUnder_congr (e24.2.1.trans (e12.2.1.trans he.1)) hpar4 hsize4 ctx l]
  have hsz3 : ∀ y : Nat, (s3.get y).map (·.size) = (s.get y).map (·.size) := by
    intro y
    have := sm.fields y
    cases a1 : s3.get y <;> cases a2 : s.get y <;> rw [a1, a2] at this <;> simp at this ⊢
    exact this.1
  rw [hcur4, hc2, hacs]
  by_cases hin : InSub s t ctx
  · -- the context moves along: nothing changes for it
    have hno1 : ¬ Anc s ctx t := by
      intro h
      rcases hin with rfl | h'
      · exact Anc.irrefl i.ranked h
      · exact Anc.irrefl i.ranked (h.trans h')
    have hno3 : ¬ Anc s3 ctx t := by
      intro h
      have hin3 : InSub s3 t ctx := (inSub_move sm.moved i.ranked i3.ranked ctx).2 hin
      rcases hin3 with rfl | h'
      · exact Anc.irrefl i3.ranked h
      · exact Anc.irrefl i3.ranked (h.trans h')
    rw [if_neg hno3, if_neg hno1]
    exact (chargeUnder_move_inside sm.moved i.ranked i3.ranked sm.len hsz3 ctx l hin).symm
  · have hlout : ¬ InSub s t l := by
      intro h
      apply hin
      rcases h with rfl | h
      · rw [ht] at hl; cases hl; exact absurd hk htk
      · obtain ⟨p, hp', hor⟩ := h.cases_parent
        rw [parentOf_eq hl, hp] at hp'; cases hp'
        rcases hor with rfl | hor
        · exact Or.inl rfl
        · exact Or.inr hor
    have hmain := chargeUnder_move_outside sm.moved i.ranked i3.ranked sm.len hsz3 ctx l hin hlout
    have hle := subCharge_le i.ranked ctx l t hlout
    have hW' : subCharge s t = W := hW.symm
    simp only [hW'] at hmain hle
    by_cases h1 : Anc s ctx t <;> by_cases h3 : Anc s3 ctx t <;>
      simp only [h1, h3, if_true, if_false, true_implies] at hmain hle ⊢ <;> omega

end Usual.C01
