import Usual.C18.CfParser
import Usual.C18.Spec
/-!
# C18 — the buffer seen as "NUL-free text, then a NUL": index primitives vs list operations

`View buf p s`: from offset `p` the buffer holds the NUL-free bytes `s`, then a NUL byte.
Every index primitive of the model (`rd`, `skipWhile`, `matchLit`, `trimLen`, the NUL patch and
its restoration) is characterised on a view; in particular none of them leaves the buffer.
-/
namespace UsualProofs.C18
open Usual.C18

def NulFree (s : Bytes) : Prop := ∀ c ∈ s, c ≠ 0

def View (buf : Bytes) (p : Nat) (s : Bytes) : Prop :=
  NulFree s ∧ ∃ rest, buf.drop p = s ++ 0 :: rest

theorem nulFree_nil : NulFree [] := by intro c h; cases h

theorem nulFree_cons {c : UInt8} {t : Bytes} : NulFree (c :: t) ↔ c ≠ 0 ∧ NulFree t := by
  constructor
  · intro h; exact ⟨h c (by simp), fun x hx => h x (by simp [hx])⟩
  · intro ⟨h1, h2⟩ x hx
    rcases List.mem_cons.mp hx with rfl | hx
    · exact h1
    · exact h2 x hx

theorem nulFree_append {a b : Bytes} : NulFree (a ++ b) ↔ NulFree a ∧ NulFree b := by
  constructor
  · intro h; exact ⟨fun x hx => h x (by simp [hx]), fun x hx => h x (by simp [hx])⟩
  · intro ⟨h1, h2⟩ x hx
    rcases List.mem_append.mp hx with hx | hx
    · exact h1 x hx
    · exact h2 x hx

theorem nulFree_take {s : Bytes} (h : NulFree s) (k : Nat) : NulFree (s.take k) :=
  fun x hx => h x (List.mem_of_mem_take hx)

theorem nulFree_drop {s : Bytes} (h : NulFree s) (k : Nat) : NulFree (s.drop k) :=
  fun x hx => h x (List.mem_of_mem_drop hx)

theorem nulFree_takeWhile {s : Bytes} (h : NulFree s) (f : UInt8 → Bool) : NulFree (s.takeWhile f) :=
  fun x hx => h x ((List.takeWhile_sublist f).subset hx)

theorem nulFree_dropWhile {s : Bytes} (h : NulFree s) (f : UInt8 → Bool) : NulFree (s.dropWhile f) :=
  fun x hx => h x ((List.dropWhile_sublist f).subset hx)

/-! ## reading -/

theorem view_lt {buf : Bytes} {p : Nat} {s : Bytes} (h : View buf p s) : p + s.length < buf.length := by
  obtain ⟨_, rest, hr⟩ := h
  have := congrArg List.length hr
  simp at this
  omega

theorem view_rd_nil {buf : Bytes} {p : Nat} (h : View buf p []) : rd buf p = some 0 := by
  obtain ⟨_, rest, hr⟩ := h
  have : (buf.drop p)[0]? = some 0 := by rw [hr]; rfl
  simpa [rd, List.getElem?_drop] using this

theorem view_rd_cons {buf : Bytes} {p : Nat} {c : UInt8} {t : Bytes} (h : View buf p (c :: t)) :
    rd buf p = some c := by
  obtain ⟨_, rest, hr⟩ := h
  have : (buf.drop p)[0]? = some c := by rw [hr]; rfl
  simpa [rd, List.getElem?_drop] using this

theorem view_tail {buf : Bytes} {p : Nat} {c : UInt8} {t : Bytes} (h : View buf p (c :: t)) :
    View buf (p + 1) t := by
  obtain ⟨hn, rest, hr⟩ := h
  refine ⟨(nulFree_cons.mp hn).2, rest, ?_⟩
  have : buf.drop (p + 1) = (buf.drop p).drop 1 := by rw [List.drop_drop]
  rw [this, hr]; rfl

theorem view_ne {buf : Bytes} {p : Nat} {c : UInt8} {t : Bytes} (h : View buf p (c :: t)) : c ≠ 0 :=
  (nulFree_cons.mp h.1).1

theorem view_drop {buf : Bytes} {p : Nat} {s : Bytes} (h : View buf p s) :
    ∀ k, k ≤ s.length → View buf (p + k) (s.drop k) := by
  intro k
  induction k generalizing p s with
  | zero => intro _; simpa using h
  | succ k ih =>
    intro hk
    cases s with
    | nil => simp at hk
    | cons c t =>
      have := ih (view_tail h) (by simpa using hk)
      simpa [Nat.add_assoc, Nat.add_comm 1 k] using this

/-- the byte at offset `i` inside the view, and the NUL right after it -/
theorem view_rd_at {buf : Bytes} {p : Nat} {s : Bytes} (h : View buf p s) (i : Nat) (hi : i ≤ s.length) :
    rd buf (p + i) = some ((s.drop i).headD 0) := by
  have hv := view_drop h i hi
  cases hs : s.drop i with
  | nil => rw [hs] at hv; simpa using view_rd_nil hv
  | cons c t => rw [hs] at hv; simpa using view_rd_cons hv

/-! ## `while (*p && f(*p)) p++` -/

theorem skipWhile_view (f : UInt8 → Bool) {buf : Bytes} :
    ∀ (s : Bytes) (p fuel : Nat), View buf p s → s.length < fuel →
      skipWhile f buf fuel p = some (p + (s.takeWhile f).length) := by
  intro s
  induction s with
  | nil =>
    intro p fuel h hf
    cases fuel with
    | zero => omega
    | succ fuel => simp [skipWhile, view_rd_nil h]
  | cons c t ih =>
    intro p fuel h hf
    cases fuel with
    | zero => omega
    | succ fuel =>
      have hc : c ≠ 0 := view_ne h
      by_cases hfc : f c = true
      · have := ih (p + 1) fuel (view_tail h) (by simpa using hf)
        simp [skipWhile, view_rd_cons h, hc, hfc, this]
        omega
      · simp [skipWhile, view_rd_cons h, hfc]

theorem length_takeWhile_le (f : UInt8 → Bool) (s : Bytes) : (s.takeWhile f).length ≤ s.length :=
  (List.takeWhile_sublist f).length_le

theorem drop_takeWhile_length (f : UInt8 → Bool) (s : Bytes) :
    s.drop (s.takeWhile f).length = s.dropWhile f := by
  induction s with
  | nil => rfl
  | cons c t ih =>
    by_cases h : f c = true
    · simp [h, ih]
    · simp [h]

theorem takeWhile_append_dropWhile (f : UInt8 → Bool) (s : Bytes) :
    s.takeWhile f ++ s.dropWhile f = s := List.takeWhile_append_dropWhile

theorem length_dropWhile (f : UInt8 → Bool) (s : Bytes) :
    (s.dropWhile f).length = s.length - (s.takeWhile f).length := by
  have := congrArg List.length (takeWhile_append_dropWhile f s)
  rw [List.length_append] at this; omega

theorem view_dropWhile (f : UInt8 → Bool) {buf : Bytes} {p : Nat} {s : Bytes} (h : View buf p s) :
    View buf (p + (s.takeWhile f).length) (s.dropWhile f) := by
  have := view_drop h (s.takeWhile f).length (length_takeWhile_le f s)
  rwa [drop_takeWhile_length] at this

/-! ## `strncmp(p, lit, |lit|) == 0` -/

theorem matchLit_view {buf : Bytes} :
    ∀ (lit : Bytes) (s : Bytes) (p : Nat), NulFree lit → View buf p s →
      matchLit buf lit p = some (s.take lit.length == lit) := by
  intro lit
  induction lit with
  | nil => intro s p _ _; simp [matchLit]
  | cons l ls ih =>
    intro s p hl h
    have hl0 : l ≠ 0 := (nulFree_cons.mp hl).1
    cases s with
    | nil =>
      have : ¬ (0 : UInt8) = l := fun e => hl0 e.symm
      simp [matchLit, view_rd_nil h, this]
    | cons c t =>
      by_cases hc : c = l
      · subst hc
        have := ih t (p + 1) (nulFree_cons.mp hl).2 (view_tail h)
        simp [matchLit, view_rd_cons h, this]
      · simp [matchLit, view_rd_cons h, hc]


/-! ## element access, C strings, patches -/

theorem view_get {buf : Bytes} {p : Nat} {s : Bytes} (h : View buf p s) (j : Nat) (hj : j < s.length) :
    buf[p + j]? = some s[j] := by
  have := view_rd_at h j (Nat.le_of_lt hj)
  rw [List.drop_eq_getElem_cons hj, List.headD_cons] at this
  exact this

theorem view_get_end {buf : Bytes} {p : Nat} {s : Bytes} (h : View buf p s) :
    buf[p + s.length]? = some 0 := by
  have := view_rd_at h s.length (Nat.le_refl _)
  simpa [rd] using this

/-- a C string is determined by the bytes up to its first NUL -/
theorem cstr_of_get {b : Bytes} : ∀ (w : Bytes) (off : Nat), NulFree w →
    (∀ j (h : j < w.length), b[off + j]? = some w[j]) → b[off + w.length]? = some 0 →
    cstr b off = w := by
  intro w
  induction w with
  | nil =>
    intro off _ _ h0
    have h0 : b[off]? = some 0 := by simpa using h0
    have hlt : off < b.length := by
      rcases Nat.lt_or_ge off b.length with h | h
      · exact h
      · rw [List.getElem?_eq_none h] at h0; cases h0
    unfold cstr
    rw [List.drop_eq_getElem_cons hlt]
    have : b[off] = 0 := by
      have := List.getElem?_eq_getElem hlt
      rw [this] at h0; exact Option.some.inj h0
    simp [this]
  | cons c t ih =>
    intro off hn hget h0
    have hc : b[off]? = some c := by
      have := hget 0 (Nat.zero_lt_succ _)
      simpa only [Nat.add_zero, List.getElem_cons_zero] using this
    have hlt : off < b.length := by
      rcases Nat.lt_or_ge off b.length with h | h
      · exact h
      · rw [List.getElem?_eq_none h] at hc; cases hc
    have hbc : b[off] = c := by
      have := List.getElem?_eq_getElem hlt
      rw [this] at hc; exact Option.some.inj hc
    have hc0 : c ≠ 0 := (nulFree_cons.mp hn).1
    have ht := ih (off + 1) (nulFree_cons.mp hn).2
      (fun j hj => by
        have := hget (j + 1) (by simpa using hj)
        simpa [Nat.add_assoc, Nat.add_comm 1 j] using this)
      (by simpa [Nat.add_assoc, Nat.add_comm 1] using h0)
    unfold cstr at ht ⊢
    rw [List.drop_eq_getElem_cons hlt, hbc]
    simp [hc0, ht]

theorem view_cstr {buf : Bytes} {p : Nat} {s : Bytes} (h : View buf p s) : cstr buf p = s :=
  cstr_of_get s p h.1 (fun j hj => view_get h j hj) (view_get_end h)

theorem view_unique {buf : Bytes} {p : Nat} {a b : Bytes} (ha : View buf p a) (hb : View buf p b) :
    a = b := by rw [← view_cstr ha, ← view_cstr hb]

theorem set_of_get {l : Bytes} {i : Nat} {o : UInt8} (h : l[i]? = some o) : l.set i o = l := by
  have hlt : i < l.length := by
    rcases Nat.lt_or_ge i l.length with h' | h'
    · exact h'
    · rw [List.getElem?_eq_none h'] at h; cases h
  have : l[i] = o := by
    have := List.getElem?_eq_getElem hlt
    rw [this] at h; exact Option.some.inj h
  rw [← this]; exact List.set_getElem_self hlt

theorem wr_some {buf : Bytes} {i : Nat} (v : UInt8) (h : i < buf.length) :
    wr buf i v = some (buf.set i v) := by simp [wr, h]

/-- one NUL patch at offset `n` of a view: the C string at the start is the first `n` bytes,
    and writing the saved byte back gives the original buffer -/
theorem patch1 {buf : Bytes} {v : Nat} {sv : Bytes} (h : View buf v sv) (n : Nat) (hn : n ≤ sv.length) :
    ∃ o, rd buf (v + n) = some o ∧
      wr buf (v + n) 0 = some (buf.set (v + n) 0) ∧
      cstr (buf.set (v + n) 0) v = sv.take n ∧
      wr (buf.set (v + n) 0) (v + n) o = some buf := by
  have hlt : v + n < buf.length := by have := view_lt h; omega
  refine ⟨(sv.drop n).headD 0, view_rd_at h n hn, wr_some 0 hlt, ?_, ?_⟩
  · apply cstr_of_get _ _ (nulFree_take h.1 n)
    · intro j hj
      have hj' : j < n ∧ j < sv.length := by simp at hj; omega
      rw [List.getElem?_set]
      have : ¬ (v + n = v + j) := by omega
      simp only [this, if_false]
      rw [view_get h j hj'.2]; simp
    · have : (sv.take n).length = n := by simp; omega
      rw [this, List.getElem?_set]; simp [hlt]
  · have hl : v + n < (buf.set (v + n) 0).length := by simpa using hlt
    rw [wr_some _ hl, List.set_set]
    have := view_rd_at h n hn
    rw [set_of_get (by simpa [rd] using this)]

/-- the two NUL patches of the key/value path -/
theorem patch2 {buf : Bytes} {v : Nat} {sv : Bytes} (h : View buf v sv) (i1 jv i2 : Nat)
    (h1 : i1 < jv) (h2 : jv ≤ i2) (h3 : i2 ≤ sv.length) :
    ∃ o1 o2, rd buf (v + i1) = some o1 ∧ rd buf (v + i2) = some o2 ∧
      wr buf (v + i1) 0 = some (buf.set (v + i1) 0) ∧
      wr (buf.set (v + i1) 0) (v + i2) 0 = some ((buf.set (v + i1) 0).set (v + i2) 0) ∧
      cstr ((buf.set (v + i1) 0).set (v + i2) 0) v = sv.take i1 ∧
      cstr ((buf.set (v + i1) 0).set (v + i2) 0) (v + jv) = (sv.drop jv).take (i2 - jv) ∧
      wr ((buf.set (v + i1) 0).set (v + i2) 0) (v + i1) o1 =
        some (((buf.set (v + i1) 0).set (v + i2) 0).set (v + i1) o1) ∧
      wr (((buf.set (v + i1) 0).set (v + i2) 0).set (v + i1) o1) (v + i2) o2 = some buf := by
  have hlt2 : v + i2 < buf.length := by have := view_lt h; omega
  have hlt1 : v + i1 < buf.length := by omega
  have hne : v + i1 ≠ v + i2 := by omega
  have r1 := view_rd_at h i1 (by omega)
  have r2 := view_rd_at h i2 h3
  refine ⟨(sv.drop i1).headD 0, (sv.drop i2).headD 0, r1, r2, wr_some 0 hlt1,
    wr_some 0 (by simpa using hlt2), ?_, ?_, wr_some _ (by simpa using hlt1), ?_⟩
  · apply cstr_of_get _ _ (nulFree_take h.1 i1)
    · intro j hj
      have hj' : j < i1 := by simp at hj; omega
      rw [List.getElem?_set, List.getElem?_set]
      have e1 : ¬ (v + i2 = v + j) := by omega
      have e2 : ¬ (v + i1 = v + j) := by omega
      simp only [e1, e2, if_false]
      rw [view_get h j (by omega)]; simp
    · have : (sv.take i1).length = i1 := by simp; omega
      rw [this, List.getElem?_set, List.getElem?_set]
      have e1 : ¬ (v + i2 = v + i1) := by omega
      rw [if_neg e1, if_pos rfl, if_pos hlt1]
  · apply cstr_of_get _ _ (nulFree_take (nulFree_drop h.1 jv) _)
    · intro j hj
      have hj' : jv + j < i2 := by simp at hj; omega
      rw [List.getElem?_set, List.getElem?_set]
      have e1 : ¬ (v + i2 = v + jv + j) := by omega
      have e2 : ¬ (v + i1 = v + jv + j) := by omega
      simp only [e1, e2, if_false]
      have := view_get h (jv + j) (by omega)
      rw [Nat.add_assoc, this]; simp
    · have : ((sv.drop jv).take (i2 - jv)).length = i2 - jv := by simp; omega
      rw [this, List.getElem?_set]
      have e : v + jv + (i2 - jv) = v + i2 := by omega
      have hl' : v + i2 < (buf.set (v + i1) 0).length := by simpa using hlt2
      rw [e, if_pos rfl, if_pos hl']
  · have hl : v + i2 < (((buf.set (v + i1) 0).set (v + i2) 0).set (v + i1)
        ((sv.drop i1).headD 0)).length := by
      simpa using hlt2
    rw [wr_some _ hl]
    have e1 : buf.set (v + i1) ((sv.drop i1).headD 0) = buf := set_of_get (by simpa [rd] using r1)
    have e2 : buf.set (v + i2) ((sv.drop i2).headD 0) = buf := set_of_get (by simpa [rd] using r2)
    rw [List.set_comm (0 : UInt8) 0 hne, List.set_set, List.set_comm _ _ hne.symm, List.set_set,
      e1, e2]

/-! ## trailing whitespace -/

theorem trimRight_append_one (l : Bytes) (c : UInt8) :
    trimRight (l ++ [c]) = if isSpace c then trimRight l else l ++ [c] := by
  unfold trimRight
  by_cases h : isSpace c = true <;> simp [h]

theorem trimLen_view {buf : Bytes} {v : Nat} {sv : Bytes} (h : View buf v sv) :
    ∀ k, k ≤ sv.length → trimLen buf v k = some (trimRight (sv.take k)).length := by
  intro k
  induction k with
  | zero => intro _; simp [trimLen, trimRight]
  | succ k ih =>
    intro hk
    have hk' : k < sv.length := by omega
    have hr := view_rd_at h k (by omega)
    rw [List.drop_eq_getElem_cons hk', List.headD_cons] at hr
    have ht : sv.take (k + 1) = sv.take k ++ [sv[k]] := by
      rw [List.take_add_one]; simp [List.getElem?_eq_getElem hk']
    rw [ht, trimRight_append_one]
    by_cases hs : isSpace sv[k] = true
    · simp [trimLen, hr, hs, ih (by omega)]
    · simp [trimLen, hr, hs]; omega

theorem trimRight_split (l : Bytes) :
    l = trimRight l ++ (l.reverse.takeWhile isSpace).reverse := by
  unfold trimRight
  rw [← List.reverse_append, List.takeWhile_append_dropWhile, List.reverse_reverse]

theorem trimRight_prefix (l : Bytes) : trimRight l = l.take (trimRight l).length := by
  have := List.take_left' (l₁ := trimRight l) (l₂ := (l.reverse.takeWhile isSpace).reverse) rfl
  rw [← trimRight_split] at this
  exact this.symm

theorem trimRight_length_le (l : Bytes) : (trimRight l).length ≤ l.length := by
  have := congrArg List.length (trimRight_split l)
  rw [List.length_append] at this; omega

end UsualProofs.C18
