import UsualProofs.C18.Ref
/-!
# C18 — `refLoop` (the C control flow on the remaining text) = the line grammar

`G s = runLines (splitLines s)` is the spec's reading of a NUL-free text `s`.  `G_step` shows
that `G` unfolds exactly like the loop (`refStep`), `refLoop_eq_G` concludes by induction.
-/
namespace UsualProofs.C18
open Usual.C18

variable {σ : Type}

/-! ## lines -/

def TailOk (tl : Bytes) : Prop := tl = [] ∨ ∃ s2, tl = 10 :: s2
def LineOk (l : Bytes) : Prop := ∀ c ∈ l, notNl c = true

theorem notNl_iff (c : UInt8) : notNl c = false ↔ c = 10 := by
  unfold notNl
  constructor
  · intro h
    have : c.toNat = 10 := by simpa using h
    exact UInt8.toNat_inj.mp this
  · intro h; subst h; decide

theorem takeWhile_line (f : UInt8 → Bool) (hf : f 10 = false) (l : Bytes) {tl : Bytes} (ht : TailOk tl) :
    (l ++ tl).takeWhile f = l.takeWhile f := by
  induction l with
  | nil =>
    rcases ht with rfl | ⟨s2, rfl⟩
    · rfl
    · simp [hf]
  | cons c t ih =>
    by_cases h : f c = true
    · simp [h, ih]
    · simp [h]

theorem dropWhile_line (f : UInt8 → Bool) (hf : f 10 = false) (l : Bytes) {tl : Bytes} (ht : TailOk tl) :
    (l ++ tl).dropWhile f = l.dropWhile f ++ tl := by
  induction l with
  | nil =>
    rcases ht with rfl | ⟨s2, rfl⟩
    · rfl
    · simp [hf]
  | cons c t ih =>
    by_cases h : f c = true
    · simp [h, ih]
    · simp [h]

theorem mem_takeWhile_imp {p : UInt8 → Bool} {l : Bytes} {x : UInt8} (h : x ∈ l.takeWhile p) :
    p x = true := by
  induction l with
  | nil => simp at h
  | cons c t ih =>
    by_cases hc : p c = true
    · simp [hc] at h
      rcases h with rfl | h
      · exact hc
      · exact ih h
    · simp [hc] at h

theorem takeWhile_all {p : UInt8 → Bool} {l : Bytes} (h : ∀ x ∈ l, p x = true) : l.takeWhile p = l := by
  induction l with
  | nil => rfl
  | cons c t ih =>
    have hc := h c (by simp)
    simp [hc, ih (fun x hx => h x (by simp [hx]))]

theorem dropWhile_all {p : UInt8 → Bool} {l : Bytes} (h : ∀ x ∈ l, p x = true) : l.dropWhile p = [] := by
  induction l with
  | nil => rfl
  | cons c t ih =>
    have hc := h c (by simp)
    simp [hc, ih (fun x hx => h x (by simp [hx]))]

theorem lineOk_takeWhile (s : Bytes) : LineOk (s.takeWhile notNl) :=
  fun _ hc => mem_takeWhile_imp hc

theorem tailOk_dropWhile (s : Bytes) : TailOk (s.dropWhile notNl) := by
  induction s with
  | nil => exact Or.inl rfl
  | cons c t ih =>
    by_cases hc : notNl c = true
    · simpa [hc] using ih
    · have hc' : notNl c = false := by simpa using hc
      right
      have e10 := (notNl_iff c).mp hc'
      subst e10
      exact ⟨t, by rw [List.dropWhile_cons, if_neg (by decide)]⟩

theorem lineOk_takeWhile_self {l : Bytes} (h : LineOk l) : l.takeWhile notNl = l := takeWhile_all h

theorem lineOk_dropWhile_nil {l : Bytes} (h : LineOk l) : l.dropWhile notNl = [] := dropWhile_all h

theorem lineOk_sub {l : Bytes} (h : LineOk l) {l' : Bytes} (hs : ∀ c ∈ l', c ∈ l) : LineOk l' :=
  fun c hc => h c (hs c hc)

theorem splitLines_single {l : Bytes} (h : LineOk l) : splitLines l = [l] := by
  induction l with
  | nil => rfl
  | cons c t ih =>
    have hc : notNl c = true := h c (by simp)
    have hc' : (c.toNat == 10) = false := by unfold notNl at hc; simpa using hc
    have := ih (fun x hx => h x (by simp [hx]))
    simp [splitLines, hc', this]

theorem splitLines_line {l : Bytes} (h : LineOk l) (s2 : Bytes) :
    splitLines (l ++ 10 :: s2) = l :: splitLines s2 := by
  induction l with
  | nil => simp [splitLines]
  | cons c t ih =>
    have hc : notNl c = true := h c (by simp)
    have hc' : (c.toNat == 10) = false := by unfold notNl at hc; simpa using hc
    have := ih (fun x hx => h x (by simp [hx]))
    simp [splitLines, hc', this]

/-! ## fuel of `lineItems` -/

theorem lineItems_fuel : ∀ (f g : Nat) (l : Bytes), l.length < f → l.length < g →
    lineItems f l = lineItems g l := by
  intro f
  induction f with
  | zero => intro g l h; omega
  | succ f ih =>
    intro g l hf hg
    cases g with
    | zero => omega
    | succ g =>
      unfold lineItems
      simp only []
      by_cases hi : startsInclude (l.dropWhile isSpace) = true
      · simp [hi]
      · simp only [hi, Bool.false_eq_true, if_false]
        cases hl : l.dropWhile isSpace with
        | nil => rfl
        | cons c t =>
          simp only []
          by_cases h1 : (c.toNat == 35 || c.toNat == 59) = true
          · simp [h1]
          · simp only [h1, Bool.false_eq_true, if_false]
            by_cases h2 : (c.toNat == 91) = true
            · simp only [h2, if_true]
              cases hd : t.dropWhile (fun x => x.toNat != 93) with
              | nil => rfl
              | cons o rest =>
                have h3 : (c :: t).length ≤ l.length := by
                  rw [← hl, length_dropWhile]; omega
                have h4 : (o :: rest).length ≤ t.length := by
                  rw [← hd, length_dropWhile]; omega
                simp only [List.length_cons] at h3 h4
                show (Item.sect _ :: (lineItems f rest).fst, (lineItems f rest).snd) = _
                rw [ih g rest (by omega) (by omega)]
            · simp [h2]

theorem lineItems_ws (f : Nat) (c : UInt8) (l : Bytes) (hc : isSpace c = true) :
    lineItems (f + 1) (c :: l) = lineItems (f + 1) l := by
  unfold lineItems
  simp [hc]

/-! ## `G` -/

/-- the spec's reading of a NUL-free text -/
def G (incl : Bytes → σ → σ × Option Err) (h : σ → Event → σ × Bool) (level : Nat) (s : Bytes) (st : σ) :
    σ × Option Err × Option Err :=
  runLines incl h level (splitLines s) st

theorem lineItems_nil (f : Nat) : lineItems (f + 1) [] = ([], true) := by
  simp [lineItems, startsInclude, includeLit]

theorem G_nil (incl : Bytes → σ → σ × Option Err) (h : σ → Event → σ × Bool) (level : Nat) (st : σ) :
    G incl h level [] st = (st, none, none) := by
  simp [G, splitLines, runLines, lineItems_nil, runItems]

theorem G_nl (incl : Bytes → σ → σ × Option Err) (h : σ → Event → σ × Bool) (level : Nat) (t : Bytes)
    (st : σ) : G incl h level (10 :: t) st = G incl h level t st := by
  simp [G, splitLines, runLines, lineItems_nil, runItems]

/-- one line, then the rest -/
theorem G_line (incl : Bytes → σ → σ × Option Err) (h : σ → Event → σ × Bool) (level : Nat)
    {l tl : Bytes} (hl : LineOk l) (ht : TailOk tl) (st : σ) :
    G incl h level (l ++ tl) st =
      match runItems incl h level (lineItems (l.length + 1) l).1 st with
      | (st', none, _) =>
        if (lineItems (l.length + 1) l).2 then G incl h level tl st' else (st', some .syntax, some .syntax)
      | r => r := by
  rcases ht with rfl | ⟨s2, rfl⟩
  · simp only [List.append_nil, G, splitLines_single hl, runLines]
    rcases runItems incl h level (lineItems (l.length + 1) l).1 st with ⟨st', _ | e, f⟩
    · simp only []
      have := G_nil incl h level st'
      simp only [G] at this
      rw [this]
    · rfl
  · simp only [G, splitLines_line hl, runLines]
    rcases runItems incl h level (lineItems (l.length + 1) l).1 st with ⟨st', _ | e, f⟩
    · simp only []
      have := G_nl incl h level s2 st'
      simp only [G] at this
      rw [this]
    · rfl

theorem G_ws (incl : Bytes → σ → σ × Option Err) (h : σ → Event → σ × Bool) (level : Nat)
    (c : UInt8) (t : Bytes) (hc : isSpace c = true) (st : σ) :
    G incl h level (c :: t) st = G incl h level t st := by
  by_cases h10 : c = 10
  · subst h10; exact G_nl incl h level t st
  · have hn : notNl c = true := by
      cases hx : notNl c with
      | true => rfl
      | false => exact absurd ((notNl_iff c).mp hx) h10
    have hd := takeWhile_append_dropWhile notNl t
    have hl : LineOk (c :: t.takeWhile notNl) := by
      intro x hx
      rcases List.mem_cons.mp hx with rfl | hx
      · exact hn
      · exact lineOk_takeWhile t x hx
    have e1 : c :: t = (c :: t.takeWhile notNl) ++ t.dropWhile notNl := by simp [hd]
    have e2 : t = t.takeWhile notNl ++ t.dropWhile notNl := hd.symm
    rw [e1, G_line incl h level hl (tailOk_dropWhile t)]
    conv => rhs; rw [e2, G_line incl h level (lineOk_takeWhile t) (tailOk_dropWhile t)]
    have : lineItems ((c :: t.takeWhile notNl).length + 1) (c :: t.takeWhile notNl)
        = lineItems ((t.takeWhile notNl).length + 1) (t.takeWhile notNl) := by
      rw [lineItems_ws _ c _ hc]
      exact lineItems_fuel _ _ _ (by simp only [List.length_cons]; omega) (by omega)
    rw [this]

theorem G_dropSpace (incl : Bytes → σ → σ × Option Err) (h : σ → Event → σ × Bool) (level : Nat)
    (s : Bytes) (st : σ) : G incl h level s st = G incl h level (s.dropWhile isSpace) st := by
  induction s with
  | nil => rfl
  | cons c t ih =>
    by_cases hc : isSpace c = true
    · rw [G_ws incl h level c t hc, ih]; simp [hc]
    · simp [hc]


/-! ## one round of the loop on `line ++ tail` -/

theorem startsGen_line (lit : Bytes) (hlit : ∀ c ∈ lit, c ≠ 10) :
    ∀ (l : Bytes) {tl : Bytes}, TailOk tl →
      (((l ++ tl).take lit.length == lit) && headBlank ((l ++ tl).drop lit.length)) =
      ((l.take lit.length == lit) && headBlank (l.drop lit.length)) := by
  induction lit with
  | nil =>
    intro l tl ht
    cases l with
    | nil =>
      rcases ht with rfl | ⟨s2, rfl⟩
      · rfl
      · simp [headBlank, isBlank]
    | cons c t => rfl
  | cons a lit ih =>
    intro l tl ht
    have ha : a ≠ 10 := hlit a (by simp)
    cases l with
    | nil =>
      rcases ht with rfl | ⟨s2, rfl⟩
      · rfl
      · have : ((10 : UInt8) == a) = false := by
          simp; exact fun e => ha e.symm
        simp [this]
    | cons c t =>
      have := ih (fun x hx => hlit x (by simp [hx])) t ht
      simp only [List.cons_append, List.length_cons, List.take_succ_cons, List.drop_succ_cons]
      by_cases hca : c = a
      · subst hca
        simpa using this
      · have : (c == a) = false := by simpa using hca
        simp [this]

theorem startsInclude_line (l : Bytes) {tl : Bytes} (ht : TailOk tl) :
    startsInclude (l ++ tl) = startsInclude l := by
  have := startsGen_line includeLit (by decide) l ht
  simpa [startsInclude, includeLit] using this

theorem takeWhile_congr_mem {p q : UInt8 → Bool} {l : Bytes} (h : ∀ x ∈ l, p x = q x) :
    l.takeWhile p = l.takeWhile q := by
  induction l with
  | nil => rfl
  | cons c t ih =>
    have hc := h c (by simp)
    have := ih (fun x hx => h x (by simp [hx]))
    simp [List.takeWhile_cons, hc, this]

theorem dropWhile_congr_mem {p q : UInt8 → Bool} {l : Bytes} (h : ∀ x ∈ l, p x = q x) :
    l.dropWhile p = l.dropWhile q := by
  induction l with
  | nil => rfl
  | cons c t ih =>
    have hc := h c (by simp)
    have := ih (fun x hx => h x (by simp [hx]))
    simp [List.dropWhile_cons, hc, this]

theorem head_dropWhile_false {p : UInt8 → Bool} {l : Bytes} {o : UInt8} {r : Bytes}
    (h : l.dropWhile p = o :: r) : p o = false := by
  induction l with
  | nil => simp at h
  | cons c t ih =>
    by_cases hc : p c = true
    · simp [hc] at h; exact ih h
    · simp [hc] at h
      rcases h with ⟨rfl, _⟩
      simpa using hc

theorem mem_of_dropWhile {p : UInt8 → Bool} {l : Bytes} {x : UInt8} (h : x ∈ l.dropWhile p) : x ∈ l :=
  (List.dropWhile_sublist p).subset h

theorem mem_of_takeWhile {p : UInt8 → Bool} {l : Bytes} {x : UInt8} (h : x ∈ l.takeWhile p) : x ∈ l :=
  (List.takeWhile_sublist p).subset h

theorem isBlank_10 : isBlank 10 = false := by decide
theorem isKeyCh_10 : isKeyCh 10 = false := by decide
theorem sectCh_10 : sectCh 10 = false := by decide
theorem notNl_10 : notNl 10 = false := by decide

def outOf (incl : Bytes → σ → σ × Option Err) (h : σ → Event → σ × Bool) (level : Nat) :
    RStep σ → σ × Option Err × Option Err
  | .next s' st' => G incl h level s' st'
  | .done st' => (st', none, none)
  | .fail st' e f => (st', some e, some f)

/-- what the spec does with one line and the rest -/
def lineThen (incl : Bytes → σ → σ × Option Err) (h : σ → Event → σ × Bool) (level : Nat)
    (r : List Item × Bool) (tl : Bytes) (st : σ) : σ × Option Err × Option Err :=
  match runItems incl h level r.1 st with
  | (st', none, _) => if r.2 then G incl h level tl st' else (st', some .syntax, some .syntax)
  | x => x

theorem G_line' (incl : Bytes → σ → σ × Option Err) (h : σ → Event → σ × Bool) (level : Nat)
    {l tl : Bytes} (hl : LineOk l) (ht : TailOk tl) (st : σ) :
    G incl h level (l ++ tl) st = lineThen incl h level (lineItems (l.length + 1) l) tl st :=
  G_line incl h level hl ht st

/-- include line -/
theorem body_include (incl : Bytes → σ → σ × Option Err) (h : σ → Event → σ × Bool) (level : Nat)
    {l tl : Bytes} (hl : LineOk l) (ht : TailOk tl) (st : σ) (hnw : l.dropWhile isSpace = l)
    (hi : startsInclude l = true) :
    outOf incl h level (refBody incl h level (l ++ tl) st) =
      lineThen incl h level (lineItems (l.length + 1) l) tl st := by
  have h8 := startsInclude_len hi
  have e1 : (l ++ tl).drop 8 = l.drop 8 ++ tl := List.drop_append_of_le_length h8
  have hl2 : LineOk ((l.drop 8).dropWhile isBlank) :=
    lineOk_sub hl (fun c hc => List.mem_of_mem_drop (mem_of_dropWhile hc))
  have e2 : ((l.drop 8 ++ tl).dropWhile isBlank) = (l.drop 8).dropWhile isBlank ++ tl :=
    dropWhile_line isBlank isBlank_10 _ ht
  have e3 : (((l.drop 8).dropWhile isBlank) ++ tl).takeWhile notNl = (l.drop 8).dropWhile isBlank := by
    rw [takeWhile_line notNl notNl_10 _ ht, lineOk_takeWhile_self hl2]
  have e4 : (((l.drop 8).dropWhile isBlank) ++ tl).dropWhile notNl = tl := by
    rw [dropWhile_line notNl notNl_10 _ ht, lineOk_dropWhile_nil hl2]; rfl
  unfold refBody lineItems lineThen
  simp only [startsInclude_line l ht, hi, if_true, e1, e2, e3, e4, hnw, runItems]
  by_cases hlev : level ≥ MAX_INCLUDE
  · simp [hlev, outOf]
  · simp only [hlev, if_false]
    rcases incl (trimRight ((l.drop 8).dropWhile isBlank)) st with ⟨st', _ | e⟩ <;> simp [outOf]


/-- comment line -/
theorem body_comment (incl : Bytes → σ → σ × Option Err) (h : σ → Event → σ × Bool) (level : Nat)
    {c : UInt8} {t tl : Bytes} (hl : LineOk (c :: t)) (ht : TailOk tl) (st : σ)
    (hnw : isSpace c = false) (hi : startsInclude (c :: t) = false)
    (hc : (c.toNat == 35 || c.toNat == 59) = true) :
    outOf incl h level (refBody incl h level ((c :: t) ++ tl) st) =
      lineThen incl h level (lineItems ((c :: t).length + 1) (c :: t)) tl st := by
  have e1 : ((c :: t) ++ tl).dropWhile notNl = tl := by
    rw [dropWhile_line notNl notNl_10 _ ht, lineOk_dropWhile_nil hl]; rfl
  have hsi := startsInclude_line (c :: t) ht
  rw [hi] at hsi
  unfold refBody lineItems lineThen
  rw [hsi]
  simp only [List.cons_append] at e1 ⊢
  simp [hnw, hi, hc, e1, outOf, runItems]

/-- section line -/
theorem body_section (incl : Bytes → σ → σ × Option Err) (h : σ → Event → σ × Bool) (level : Nat)
    {c : UInt8} {t tl : Bytes} (hl : LineOk (c :: t)) (ht : TailOk tl) (st : σ)
    (hnw : isSpace c = false) (hi : startsInclude (c :: t) = false)
    (hc : (c.toNat == 35 || c.toNat == 59) = false) (hs : (c.toNat == 91) = true) :
    outOf incl h level (refBody incl h level ((c :: t) ++ tl) st) =
      lineThen incl h level (lineItems ((c :: t).length + 1) (c :: t)) tl st := by
  have hlt : LineOk t := fun x hx => hl x (by simp [hx])
  have hcong : ∀ x ∈ t, sectCh x = (x.toNat != 93) := by
    intro x hx
    have := hlt x hx
    unfold notNl at this
    simp [sectCh, this]
  have e1 : (t ++ tl).dropWhile sectCh = t.dropWhile (fun x => x.toNat != 93) ++ tl := by
    rw [dropWhile_line sectCh sectCh_10 _ ht, dropWhile_congr_mem hcong]
  have e2 : (t ++ tl).takeWhile sectCh = t.takeWhile (fun x => x.toNat != 93) := by
    rw [takeWhile_line sectCh sectCh_10 _ ht, takeWhile_congr_mem hcong]
  have hsi := startsInclude_line (c :: t) ht
  rw [hi] at hsi
  unfold refBody lineItems lineThen
  rw [hsi]
  simp only [List.cons_append, List.dropWhile_cons, hnw, hi, hc, hs, e1, e2, Bool.false_eq_true,
    if_false, if_true]
  cases hd : t.dropWhile (fun x => x.toNat != 93) with
  | nil =>
    rcases ht with rfl | ⟨s2, rfl⟩
    · simp [outOf, runItems]
    · simp [outOf, runItems]
  | cons o rest =>
    have ho : (o.toNat != 93) = false := head_dropWhile_false hd
    have hlr : LineOk rest := lineOk_sub hlt (fun x hx => mem_of_dropWhile (hd ▸ List.mem_cons_of_mem o hx))
    have hlen : rest.length < (c :: t).length := by
      have := length_dropWhile (fun x => x.toNat != 93) t
      rw [hd] at this; simp only [List.length_cons] at this ⊢; omega
    have hfuel : lineItems (c :: t).length rest = lineItems (rest.length + 1) rest :=
      lineItems_fuel _ _ _ hlen (by omega)
    simp only [List.cons_append, ho, Bool.false_eq_true, if_false, runItems]
    rcases hh : h st (Event.sect (t.takeWhile (fun x => x.toNat != 93))) with ⟨st', _ | _⟩
    · simp [outOf]
    · simp only [outOf, if_true]
      rw [G_line' incl h level hlr ht, ← hfuel]
      rfl

/-- key = value line -/
theorem body_keyval (incl : Bytes → σ → σ × Option Err) (h : σ → Event → σ × Bool) (level : Nat)
    {c : UInt8} {t tl : Bytes} (hl : LineOk (c :: t)) (ht : TailOk tl) (st : σ)
    (hnw : isSpace c = false) (hi : startsInclude (c :: t) = false)
    (hc : (c.toNat == 35 || c.toNat == 59) = false) (hs : (c.toNat == 91) = false) :
    outOf incl h level (refBody incl h level ((c :: t) ++ tl) st) =
      lineThen incl h level (lineItems ((c :: t).length + 1) (c :: t)) tl st := by
  have e1 : (((c :: t) ++ tl).dropWhile isKeyCh).dropWhile isBlank
      = ((c :: t).dropWhile isKeyCh).dropWhile isBlank ++ tl := by
    rw [dropWhile_line isKeyCh isKeyCh_10 _ ht, dropWhile_line isBlank isBlank_10 _ ht]
  have e2 : ((c :: t) ++ tl).takeWhile isKeyCh = (c :: t).takeWhile isKeyCh :=
    takeWhile_line isKeyCh isKeyCh_10 _ ht
  have hsi := startsInclude_line (c :: t) ht
  rw [hi] at hsi
  unfold refBody lineItems lineThen
  rw [hsi]
  have hd0 : (c :: t).dropWhile isSpace = c :: t := by simp [hnw]
  simp only [hd0, hi, Bool.false_eq_true, if_false]
  simp only [List.cons_append] at e1 e2 ⊢
  simp only [hc, hs, Bool.false_eq_true, if_false, e1, e2]
  cases hd : ((c :: t).dropWhile isKeyCh).dropWhile isBlank with
  | nil =>
    rcases ht with rfl | ⟨s2, rfl⟩
    · simp [outOf, runItems]
    · simp [outOf, runItems]
  | cons e r =>
    simp only [List.cons_append]
    by_cases he : (e.toNat == 61) = true
    · have he' : (e.toNat != 61) = false := by simpa using he
      have hlr : LineOk (r.dropWhile isBlank) := by
        apply lineOk_sub hl
        intro x hx
        have h1 : x ∈ e :: r := List.mem_cons_of_mem e (mem_of_dropWhile hx)
        rw [← hd] at h1
        exact mem_of_dropWhile (mem_of_dropWhile h1)
      have e3 : (r ++ tl).dropWhile isBlank = r.dropWhile isBlank ++ tl :=
        dropWhile_line isBlank isBlank_10 _ ht
      have e4 : (r.dropWhile isBlank ++ tl).takeWhile notNl = r.dropWhile isBlank := by
        rw [takeWhile_line notNl notNl_10 _ ht, lineOk_takeWhile_self hlr]
      have e5 : (r.dropWhile isBlank ++ tl).dropWhile notNl = tl := by
        rw [dropWhile_line notNl notNl_10 _ ht, lineOk_dropWhile_nil hlr]; rfl
      simp only [he, he', Bool.false_eq_true, if_false, if_true, e3, e4, e5, runItems]
      rcases hh : h st (Event.kv (List.takeWhile isKeyCh (c :: t)) (trimRight (r.dropWhile isBlank)))
        with ⟨st', _ | _⟩
      · simp [outOf]
      · simp only [outOf, if_true]
        exact (G_dropSpace incl h level tl st').symm
    · have he' : (e.toNat != 61) = true := by simpa using he
      have he'' : (e.toNat == 61) = false := by simpa using he
      simp [he', he'', outOf, runItems]


/-- `G` unfolds exactly like the loop -/
theorem G_step (incl : Bytes → σ → σ × Option Err) (h : σ → Event → σ × Bool) (level : Nat)
    (s : Bytes) (st : σ) :
    outOf incl h level (refStep incl h level s st) = G incl h level s st := by
  unfold refStep
  rw [G_dropSpace incl h level s st]
  cases hs1 : s.dropWhile isSpace with
  | nil => simp [refBody, startsInclude, includeLit, outOf, G_nil]
  | cons c t =>
    have hnw : isSpace c = false := head_dropWhile_false hs1
    have hn : notNl c = true := by
      cases hx : notNl c with
      | true => rfl
      | false =>
        have := (notNl_iff c).mp hx
        subst this
        exact absurd hnw (by decide)
    have hl : LineOk (c :: t.takeWhile notNl) := by
      intro x hx
      rcases List.mem_cons.mp hx with rfl | hx
      · exact hn
      · exact lineOk_takeWhile t x hx
    have ht := tailOk_dropWhile t
    have e1 : c :: t = (c :: t.takeWhile notNl) ++ t.dropWhile notNl := by
      simp [takeWhile_append_dropWhile]
    rw [e1, G_line' incl h level hl ht]
    by_cases hi : startsInclude (c :: t.takeWhile notNl) = true
    · exact body_include incl h level hl ht st (by simp [hnw]) hi
    · have hi' : startsInclude (c :: t.takeWhile notNl) = false := by simpa using hi
      by_cases hc : (c.toNat == 35 || c.toNat == 59) = true
      · exact body_comment incl h level hl ht st hnw hi' hc
      · have hc' : (c.toNat == 35 || c.toNat == 59) = false := by simpa using hc
        by_cases hsec : (c.toNat == 91) = true
        · exact body_section incl h level hl ht st hnw hi' hc' hsec
        · exact body_keyval incl h level hl ht st hnw hi' hc' (by simpa using hsec)

/-- every round consumes at least one byte -/
theorem refStep_shorter (incl : Bytes → σ → σ × Option Err) (h : σ → Event → σ × Bool) (level : Nat)
    (s : Bytes) (st : σ) (s' : Bytes) (st' : σ)
    (hr : refStep incl h level s st = .next s' st') : s'.length < s.length := by
  unfold refStep refBody at hr
  have h0 := length_dropWhile isSpace s
  by_cases hi : startsInclude (s.dropWhile isSpace) = true
  · have h8 := startsInclude_len hi
    simp only [hi, if_true] at hr
    by_cases hlev : level ≥ MAX_INCLUDE
    · simp [hlev] at hr
    · simp only [hlev, if_false] at hr
      rcases hx : incl (trimRight (List.takeWhile notNl (List.dropWhile isBlank
          (List.drop 8 (List.dropWhile isSpace s))))) st with ⟨st'', _ | e⟩
      · rw [hx] at hr
        simp only [RStep.next.injEq] at hr
        rw [← hr.1]
        have h1 := length_dropWhile notNl (List.dropWhile isBlank (List.drop 8 (List.dropWhile isSpace s)))
        have h2 := length_dropWhile isBlank (List.drop 8 (List.dropWhile isSpace s))
        have h3 : (List.drop 8 (List.dropWhile isSpace s)).length = (List.dropWhile isSpace s).length - 8 := by
          simp
        omega
      · rw [hx] at hr; simp at hr
  · have hi' : startsInclude (s.dropWhile isSpace) = false := by simpa using hi
    simp only [hi', Bool.false_eq_true, if_false] at hr
    cases hs1 : s.dropWhile isSpace with
    | nil => rw [hs1] at hr; simp at hr
    | cons c t =>
      rw [hs1] at hr h0
      simp only [List.length_cons] at h0
      simp only [] at hr
      by_cases hc : (c.toNat == 35 || c.toNat == 59) = true
      · simp only [hc, if_true, RStep.next.injEq] at hr
        rw [← hr.1]
        have hn : notNl c = true := by
          unfold notNl
          rcases Bool.or_eq_true_iff.mp hc with h1 | h1
          · have : c.toNat = 35 := by simpa using h1
            simp [this]
          · have : c.toNat = 59 := by simpa using h1
            simp [this]
        have h1 := length_dropWhile notNl t
        simp only [List.dropWhile_cons, hn, if_true]
        omega
      · simp only [hc, Bool.false_eq_true, if_false] at hr
        by_cases hsec : (c.toNat == 91) = true
        · simp only [hsec, if_true] at hr
          cases hd : t.dropWhile sectCh with
          | nil => rw [hd] at hr; simp at hr
          | cons o r =>
            rw [hd] at hr
            simp only [] at hr
            have h1 := length_dropWhile sectCh t
            rw [hd] at h1; simp only [List.length_cons] at h1
            by_cases ho : (o.toNat != 93) = true
            · simp [ho] at hr
            · simp only [ho, Bool.false_eq_true, if_false] at hr
              rcases hx : h st (Event.sect (List.takeWhile sectCh t)) with ⟨st'', _ | _⟩
              · rw [hx] at hr; simp at hr
              · rw [hx] at hr
                simp only [RStep.next.injEq] at hr
                rw [← hr.1]; omega
        · simp only [hsec, Bool.false_eq_true, if_false] at hr
          cases hd : ((c :: t).dropWhile isKeyCh).dropWhile isBlank with
          | nil => rw [hd] at hr; simp at hr
          | cons e r2 =>
            rw [hd] at hr
            simp only [] at hr
            have h1 := length_dropWhile isBlank ((c :: t).dropWhile isKeyCh)
            have h2 := length_dropWhile isKeyCh (c :: t)
            rw [hd] at h1; simp only [List.length_cons] at h1 h2
            by_cases he : (e.toNat != 61) = true
            · simp [he] at hr
            · simp only [he, Bool.false_eq_true, if_false] at hr
              rcases hx : h st (Event.kv (List.takeWhile isKeyCh (c :: t))
                  (trimRight (List.takeWhile notNl (List.dropWhile isBlank r2)))) with ⟨st'', _ | _⟩
              · rw [hx] at hr; simp at hr
              · rw [hx] at hr
                simp only [RStep.next.injEq] at hr
                rw [← hr.1]
                have h3 := length_dropWhile isSpace (List.dropWhile notNl (List.dropWhile isBlank r2))
                have h4 := length_dropWhile notNl (List.dropWhile isBlank r2)
                have h5 := length_dropWhile isBlank r2
                omega

/-- the loop on the remaining text is the line grammar -/
theorem refLoop_eq_G (incl : Bytes → σ → σ × Option Err) (h : σ → Event → σ × Bool) (level : Nat) :
    ∀ (fuel : Nat) (s : Bytes) (st : σ), s.length < fuel →
      refLoop incl h level fuel s st = G incl h level s st := by
  intro fuel
  induction fuel with
  | zero => intro s st hf; omega
  | succ fuel ih =>
    intro s st hf
    cases s with
    | nil => simp [refLoop, G_nil]
    | cons c t =>
      rw [← G_step incl h level (c :: t) st]
      simp only [refLoop]
      cases hr : refStep incl h level (c :: t) st with
      | next s' st' =>
        have := refStep_shorter incl h level (c :: t) st s' st' hr
        simp only [outOf]
        exact ih s' st' (by simp only [List.length_cons] at hf this; omega)
      | done st' => rfl
      | fail st' e f => rfl

end UsualProofs.C18
