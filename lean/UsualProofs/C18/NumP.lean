import Usual.C18.Config
/-!
# C18 — integers: what `%d`/`%u` print is read back by `cf_set_int`/`cf_set_uint`; empty input
and trailing garbage are rejected
-/
namespace UsualProofs.C18
open Usual.C18

theorem digitCh_facts : ∀ d, d < 10 →
    digitIn 10 (digitCh d) = some d ∧ isSpace (digitCh d) = false ∧ digitCh d ≠ 45 ∧
    digitCh d ≠ 43 ∧ (d ≠ 0 → digitCh d ≠ 48) ∧ (digitCh d).toNat = 48 + d := by decide

/-- the characters of a decimal rendering -/
def AllDig (l : Bytes) : Prop := ∀ c ∈ l, ∃ d, d < 10 ∧ c = digitCh d

theorem renderNatF_allDig : ∀ f n, AllDig (renderNatF f n) := by
  intro f
  induction f with
  | zero => intro n c hc; simp [renderNatF] at hc
  | succ f ih =>
    intro n c hc
    unfold renderNatF at hc
    by_cases h : n < 10
    · simp [h] at hc; exact ⟨n, h, hc⟩
    · simp only [h, if_false, List.mem_append, List.mem_singleton] at hc
      rcases hc with hc | hc
      · exact ih _ c hc
      · exact ⟨n % 10, Nat.mod_lt _ (by decide), hc⟩

theorem readDigits_render : ∀ (f n : Nat) (r : Bytes) (acc k : Nat), n < 10 ^ f →
    readDigits 10 (renderNatF f n ++ r) acc k =
      readDigits 10 r (acc * 10 ^ (renderNatF f n).length + n) (k + (renderNatF f n).length) := by
  intro f
  induction f with
  | zero => intro n r acc k h; simp at h; subst h; simp [renderNatF]
  | succ f ih =>
    intro n r acc k h
    unfold renderNatF
    by_cases hn : n < 10
    · simp only [hn, if_true, List.singleton_append, List.length_singleton, Nat.pow_one]
      simp [readDigits, (digitCh_facts n hn).1]
    · simp only [hn, if_false, List.append_assoc, List.singleton_append, List.length_append,
        List.length_singleton]
      have hq : n / 10 < 10 ^ f := by
        rw [Nat.pow_succ] at h
        exact Nat.div_lt_of_lt_mul (by omega)
      rw [ih (n / 10) _ acc k hq]
      have hm : n % 10 < 10 := Nat.mod_lt _ (by decide)
      simp only [readDigits, (digitCh_facts _ hm).1]
      have e : (acc * 10 ^ (renderNatF f (n / 10)).length + n / 10) * 10 + n % 10
          = acc * 10 ^ ((renderNatF f (n / 10)).length + 1) + n := by
        rw [Nat.pow_succ, ← Nat.mul_assoc, Nat.add_mul]
        have := Nat.div_add_mod n 10
        omega
      rw [e, Nat.add_assoc]

theorem lt_ten_pow (n : Nat) : n < 10 ^ (n + 1) := by
  have h1 : n < 10 ^ n := Nat.lt_pow_self (by decide)
  have h2 : 10 ^ n ≤ 10 ^ (n + 1) := Nat.pow_le_pow_right (by decide) (by omega)
  omega

theorem renderNatF_ne_nil : ∀ f n, 0 < f → renderNatF f n ≠ [] := by
  intro f n hf
  cases f with
  | zero => omega
  | succ f =>
    unfold renderNatF
    by_cases h : n < 10 <;> simp [h]

/-- head of the rendering of a positive number is a non-zero digit -/
theorem renderNatF_head : ∀ f n, 0 < n → n < 10 ^ f →
    ∃ d t, renderNatF f n = digitCh d :: t ∧ 0 < d ∧ d < 10 := by
  intro f
  induction f with
  | zero => intro n h0 h; simp at h; omega
  | succ f ih =>
    intro n h0 h
    unfold renderNatF
    by_cases hn : n < 10
    · exact ⟨n, [], by simp [hn], h0, hn⟩
    · have hq : n / 10 < 10 ^ f := by
        rw [Nat.pow_succ] at h
        exact Nat.div_lt_of_lt_mul (by omega)
      obtain ⟨d, t, e, hd⟩ := ih (n / 10) (Nat.div_pos (by omega) (by decide)) hq
      exact ⟨d, t ++ [digitCh (n % 10)], by simp [hn, e], hd⟩

theorem readDigits_nil (b acc k : Nat) : readDigits b [] acc k = (acc, k) := rfl

/-- a tail at which reading digits stops: empty, or starting with a non-alphanumeric byte -/
def Stops (r : Bytes) : Prop := r = [] ∨ ∃ c g, r = c :: g ∧ digitVal c = none

theorem stops_readDigits {r : Bytes} (h : Stops r) (b a k : Nat) : readDigits b r a k = (a, k) := by
  rcases h with rfl | ⟨c, g, rfl, hc⟩
  · rfl
  · simp [readDigits, digitIn, hc]

/-- strtol/strtoul on the decimal rendering of a positive number followed by a stopping tail -/
theorem strtoBase0_render_app (n : Nat) (hn : 0 < n) (r : Bytes) (hs : Stops r) :
    strtoBase0 (renderNat n ++ r) = ⟨false, n, (renderNat n).length⟩ := by
  obtain ⟨d, t, e, hd0, hd⟩ := renderNatF_head (n + 1) n hn (lt_ten_pow n)
  have fc := digitCh_facts d hd
  have hr := readDigits_render (n + 1) n r 0 0 (lt_ten_pow n)
  simp only [Nat.zero_mul, Nat.zero_add, stops_readDigits hs] at hr
  unfold strtoBase0 renderNat
  have hsp : (renderNatF (n + 1) n ++ r).takeWhile isSpace = [] := by rw [e]; simp [fc.2.1]
  have hdp : (renderNatF (n + 1) n ++ r).dropWhile isSpace = renderNatF (n + 1) n ++ r := by
    rw [e]; simp [fc.2.1]
  have hsg : readSign (renderNatF (n + 1) n ++ r) = (false, 0, renderNatF (n + 1) n ++ r) := by
    rw [e]
    have h45 := fc.2.2.1
    have h43 := fc.2.2.2.1
    simp only [List.cons_append]
    unfold readSign
    split
    · rename_i heq; simp only [List.cons.injEq] at heq; exact absurd heq.1 h45
    · rename_i heq; simp only [List.cons.injEq] at heq; exact absurd heq.1 h43
    · rfl
  have h48 : digitCh d ≠ 48 := fc.2.2.2.2.1 (by omega)
  have hhex : hexPrefix (renderNatF (n + 1) n ++ r) = false := by
    rw [e]; simp only [List.cons_append]; unfold hexPrefix
    split
    · rename_i heq; simp only [List.cons.injEq] at heq; exact absurd heq.1 h48
    · rfl
  have hbase : baseOf (renderNatF (n + 1) n ++ r) = 10 := by
    rw [e]; simp only [List.cons_append]; unfold baseOf
    split
    · rename_i heq; simp only [List.cons.injEq] at heq; exact absurd heq.1 h48
    · rfl
  simp only [hsp, hdp, hsg, hhex, hbase, hr, List.length_nil, Bool.false_eq_true, if_false]
  have hne := renderNatF_ne_nil (n + 1) n (by omega)
  have hlen : (renderNatF (n + 1) n).length ≠ 0 := by
    intro h0; exact hne (List.eq_nil_of_length_eq_zero h0)
  simp [hlen]

theorem strtoBase0_render (n : Nat) (hn : 0 < n) :
    strtoBase0 (renderNat n) = ⟨false, n, (renderNat n).length⟩ := by
  have := strtoBase0_render_app n hn [] (Or.inl rfl)
  simpa using this

/-- the same behind a minus sign -/
theorem strtoBase0_neg_render_app (n : Nat) (hn : 0 < n) (r : Bytes) (hs : Stops r) :
    strtoBase0 (45 :: renderNat n ++ r) = ⟨true, n, (renderNat n).length + 1⟩ := by
  obtain ⟨d, t, e, hd0, hd⟩ := renderNatF_head (n + 1) n hn (lt_ten_pow _)
  have fc := digitCh_facts d hd
  have hr := readDigits_render (n + 1) n r 0 0 (lt_ten_pow _)
  simp only [Nat.zero_mul, Nat.zero_add, stops_readDigits hs] at hr
  have h48 : digitCh d ≠ 48 := fc.2.2.2.2.1 (by omega)
  have hhex : hexPrefix (renderNatF (n + 1) n ++ r) = false := by
    rw [e]; simp only [List.cons_append]; unfold hexPrefix
    split
    · rename_i heq; simp only [List.cons.injEq] at heq; exact absurd heq.1 h48
    · rfl
  have hbase : baseOf (renderNatF (n + 1) n ++ r) = 10 := by
    rw [e]; simp only [List.cons_append]; unfold baseOf
    split
    · rename_i heq; simp only [List.cons.injEq] at heq; exact absurd heq.1 h48
    · rfl
  have hne := renderNatF_ne_nil (n + 1) n (by omega)
  have hlen : (renderNatF (n + 1) n).length ≠ 0 := by
    intro h0; exact hne (List.eq_nil_of_length_eq_zero h0)
  unfold strtoBase0 renderNat
  have hsp : isSpace 45 = false := by decide
  simp only [List.cons_append, List.takeWhile_cons, List.dropWhile_cons, hsp, Bool.false_eq_true,
    if_false, List.length_nil, readSign, hhex, hbase, hr]
  simp [hlen]; omega

theorem render_zero : renderNat 0 = [48] := by decide

theorem INT_consts : (2 : Int) ^ 32 = 4294967296 ∧ (2 : Int) ^ 31 = 2147483648 ∧
    (2 : Int) ^ 63 = 9223372036854775808 ∧ (2 : Nat) ^ 63 = 9223372036854775808 ∧
    (2 : Nat) ^ 64 = 18446744073709551616 ∧ (2 : Nat) ^ 32 = 4294967296 := by decide

/-- `%d` then `cf_set_int` -/
theorem setInt_render (v : Int) (h1 : -2147483648 ≤ v) (h2 : v ≤ 2147483647) :
    setInt (renderInt v) = some v := by
  obtain ⟨c32, c31, c63, n63, n64, n32⟩ := INT_consts
  by_cases h0 : v = 0
  · subst h0; decide
  by_cases hneg : v < 0
  · have hm : 0 < v.natAbs := by omega
    have hs := strtoBase0_render v.natAbs hm
    have hr : strtoBase0 (45 :: renderNat v.natAbs) =
        ⟨true, v.natAbs, (renderNat v.natAbs).length + 1⟩ := by
      have := strtoBase0_neg_render_app v.natAbs hm [] (Or.inl rfl)
      simpa using this
    unfold setInt renderInt
    simp only [hneg, if_true, hr]
    have hlen : ((renderNat v.natAbs).length + 1 == 0) = false := by simp
    simp only [hlen, List.length_cons, bne_self_eq_false, Bool.or_self, Bool.false_eq_true, if_false,
      IntLit.toLong, if_true]
    have : ¬ (v.natAbs > 2 ^ 63) := by rw [n63]; omega
    simp only [this, if_false, INT_MIN, INT_MAX]
    have e : -(v.natAbs : Int) = v := by omega
    rw [e]
    have hr1 : ¬ (v < -2147483648) := by omega
    have hr2 : ¬ (v > 2147483647) := by omega
    simp [hr1, hr2]
  · have hm : 0 < v.natAbs := by omega
    have hs := strtoBase0_render v.natAbs hm
    unfold setInt renderInt
    simp only [hneg, if_false, hs]
    have hne := renderNatF_ne_nil (v.natAbs + 1) v.natAbs (by omega)
    have hlen : ((renderNat v.natAbs).length == 0) = false := by
      simp only [beq_eq_false_iff_ne, ne_eq]
      intro h0; exact hne (List.eq_nil_of_length_eq_zero h0)
    simp only [hlen, bne_self_eq_false, Bool.or_self, Bool.false_eq_true, if_false, IntLit.toLong,
      LONG_MAX]
    have : ¬ (v.natAbs > 2 ^ 63 - 1) := by rw [n63]; omega
    simp only [this, if_false, INT_MIN, INT_MAX]
    have e : (v.natAbs : Int) = v := by omega
    rw [e]
    have hr1 : ¬ (v < -2147483648) := by omega
    have hr2 : ¬ (v > 2147483647) := by omega
    simp [hr1, hr2]

/-- `%u` then `cf_set_uint` -/
theorem setUint_render (n : Nat) (h : n < 4294967296) : setUint (renderNat n) = some n := by
  obtain ⟨c32, c31, c63, n63, n64, n32⟩ := INT_consts
  by_cases h0 : n = 0
  · subst h0; decide
  have hs := strtoBase0_render n (by omega)
  unfold setUint
  simp only [hs]
  have hne := renderNatF_ne_nil (n + 1) n (by omega)
  have hlen : ((renderNat n).length == 0) = false := by
    simp only [beq_eq_false_iff_ne, ne_eq]
    intro h0; exact hne (List.eq_nil_of_length_eq_zero h0)
  simp only [hlen, bne_self_eq_false, Bool.or_self, Bool.false_eq_true, if_false, UINT_MAX]
  have : ¬ (n > 4294967295) := by omega
  simp [this]

/-! ## rejection -/

theorem setInt_empty : setInt [] = none := by decide
theorem setUint_empty : setUint [] = none := by decide

/-- whatever `cf_set_int` accepts was consumed by strtol up to the last byte -/
theorem setInt_consumes_all {s : Bytes} {v : Int} (h : setInt s = some v) :
    (strtoBase0 s).consumed = s.length ∧ (strtoBase0 s).consumed ≠ 0 := by
  unfold setInt at h
  by_cases hc : ((strtoBase0 s).consumed == 0 || (strtoBase0 s).consumed != s.length) = true
  · simp [hc] at h
  · simp only [Bool.or_eq_true, beq_iff_eq, bne_iff_ne, ne_eq, not_or, Decidable.not_not] at hc
    exact ⟨hc.2, hc.1⟩

theorem setUint_consumes_all {s : Bytes} {v : Nat} (h : setUint s = some v) :
    (strtoBase0 s).consumed = s.length ∧ (strtoBase0 s).consumed ≠ 0 := by
  unfold setUint at h
  by_cases hc : ((strtoBase0 s).consumed == 0 || (strtoBase0 s).consumed != s.length) = true
  · simp [hc] at h
  · simp only [Bool.or_eq_true, beq_iff_eq, bne_iff_ne, ne_eq, not_or, Decidable.not_not] at hc
    exact ⟨hc.2, hc.1⟩


theorem strtoBase0_zero_app (c : UInt8) (g : Bytes) (hc : digitVal c = none) :
    strtoBase0 (48 :: c :: g) = ⟨false, 0, 1⟩ := by
  have hx : (c.toNat == 120 || c.toNat == 88) = false := by
    unfold digitVal at hc
    by_cases h1 : c.toNat = 120
    · simp [h1] at hc
    · by_cases h2 : c.toNat = 88
      · simp [h2] at hc
      · simp [h1, h2]
  have hhex : hexPrefix (48 :: c :: g) = false := by
    cases g with
    | nil => rfl
    | cons h t => simp [hexPrefix, hx]
  have hrd : readDigits 8 (48 :: c :: g) 0 0 = (0, 1) := by
    have h0 : digitIn 8 48 = some 0 := by decide
    simp only [readDigits, h0]
    exact stops_readDigits (Or.inr ⟨c, g, rfl, hc⟩) 8 _ _
  have hsg : readSign (48 :: c :: g) = (false, 0, 48 :: c :: g) := rfl
  have hb : baseOf (48 :: c :: g) = 8 := rfl
  have hsp : isSpace 48 = false := by decide
  unfold strtoBase0
  simp only [List.takeWhile_cons, List.dropWhile_cons, hsp, Bool.false_eq_true, if_false, hsg, hhex,
    hb, hrd]
  simp

/-- trailing garbage after a canonical int is rejected (the garbage starts with a byte that is
    not alphanumeric) -/
theorem setInt_garbage (v : Int) (c : UInt8) (g : Bytes) (hc : digitVal c = none) :
    setInt (renderInt v ++ c :: g) = none := by
  have hs : Stops (c :: g) := Or.inr ⟨c, g, rfl, hc⟩
  by_cases h0 : v.natAbs = 0
  · have hv : v = 0 := by omega
    subst hv
    have e : renderInt 0 = [48] := by decide
    rw [e]
    unfold setInt
    simp only [List.singleton_append, strtoBase0_zero_app c g hc]
    simp
  · have hm : 0 < v.natAbs := by omega
    unfold setInt renderInt
    by_cases hneg : v < 0
    · simp only [hneg, if_true, List.cons_append]
      have := strtoBase0_neg_render_app v.natAbs hm (c :: g) hs
      simp only [List.cons_append] at this
      rw [this]
      simp
    · simp only [hneg, if_false]
      rw [strtoBase0_render_app v.natAbs hm (c :: g) hs]
      simp

theorem setUint_garbage (n : Nat) (c : UInt8) (g : Bytes) (hc : digitVal c = none) :
    setUint (renderNat n ++ c :: g) = none := by
  have hs : Stops (c :: g) := Or.inr ⟨c, g, rfl, hc⟩
  unfold setUint
  by_cases h0 : n = 0
  · subst h0
    have e : renderNat 0 = [48] := by decide
    rw [e]
    simp only [List.singleton_append, strtoBase0_zero_app c g hc]
    simp
  · rw [strtoBase0_render_app n (by omega) (c :: g) hs]
    simp


/-! ## the repaired setters store the value the text denotes, or nothing -/

/-- the integer a literal denotes -/
def litValue (l : IntLit) : Int := if l.neg then -(l.mag : Int) else (l.mag : Int)

theorem setInt_exact {s : Bytes} {v : Int} (h : setInt s = some v) :
    v = litValue (strtoBase0 s) ∧ -2147483648 ≤ v ∧ v ≤ 2147483647 := by
  obtain ⟨c32, c31, c63, n63, n64, n32⟩ := INT_consts
  unfold setInt at h
  simp only [] at h
  by_cases hc : ((strtoBase0 s).consumed == 0 || (strtoBase0 s).consumed != s.length) = true
  · rw [if_pos hc] at h; cases h
  · rw [if_neg hc] at h
    by_cases h1 : (strtoBase0 s).toLong < INT_MIN
    · simp [h1] at h
    by_cases h2 : (strtoBase0 s).toLong > INT_MAX
    · simp [h2] at h
    simp only [h1, h2, decide_false, Bool.or_self, Bool.false_eq_true, if_false, Option.some.injEq] at h
    subst h
    unfold INT_MIN at h1
    unfold INT_MAX at h2
    refine ⟨?_, by omega, by omega⟩
    unfold IntLit.toLong litValue LONG_MAX at *
    by_cases hn : (strtoBase0 s).neg = true
    · simp only [hn, if_true] at h1 h2 ⊢
      by_cases hb : (strtoBase0 s).mag > 2 ^ 63
      · simp only [hb, if_true] at h1; rw [c63] at h1; omega
      · simp [hb]
    · simp only [hn, Bool.false_eq_true, if_false] at h1 h2 ⊢
      by_cases hb : (strtoBase0 s).mag > 2 ^ 63 - 1
      · simp only [hb, if_true] at h2; rw [n63] at h2; omega
      · simp [hb]

theorem setUint_exact {s : Bytes} {v : Nat} (h : setUint s = some v) :
    (v : Int) = litValue (strtoBase0 s) ∧ v ≤ 4294967295 := by
  unfold setUint at h
  simp only [] at h
  by_cases hc : ((strtoBase0 s).consumed == 0 || (strtoBase0 s).consumed != s.length) = true
  · rw [if_pos hc] at h; cases h
  · rw [if_neg hc] at h
    by_cases h1 : (strtoBase0 s).mag > UINT_MAX
    · simp [h1] at h
    by_cases h2 : ((strtoBase0 s).neg && (strtoBase0 s).mag != 0) = true
    · simp [h2] at h
    simp only [h1, h2, decide_false, Bool.or_self, Bool.false_eq_true, if_false, Option.some.injEq] at h
    subst h
    unfold UINT_MAX at h1
    refine ⟨?_, by omega⟩
    unfold litValue
    by_cases hn : (strtoBase0 s).neg = true
    · have : (strtoBase0 s).mag = 0 := by simpa [hn] using h2
      simp [hn, this]
    · simp [hn]

end UsualProofs.C18
