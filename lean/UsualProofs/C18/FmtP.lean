import UsualProofs.C18.StrtodP
import UsualProofs.C18.LineSpec
import Mathlib.Tactic.IntervalCases
/-!
# C18 — the `%g` model (`fmtG`) prints the canonical spelling: decimal exponent, six digits,
layout; with `StrtodP` this closes the get → set round trip of time values under the concrete
libc model
-/
namespace UsualProofs.C18
open Usual.C18

/-! ## powers of ten -/

theorem ten_zpow_pos (e : Int) : (0 : ℚ) < 10 ^ e := zpow_pos (by norm_num) e

theorem ten_toNat {e : Int} (h : 0 ≤ e) : ((10 ^ e.toNat : Nat) : ℚ) = 10 ^ e := by
  have : (e.toNat : Int) = e := Int.toNat_of_nonneg h
  rw [Nat.cast_pow, Nat.cast_ofNat, ← zpow_natCast, this]

theorem ten_neg_toNat {e : Int} (h : e < 0) : ((10 ^ (-e).toNat : Nat) : ℚ) = (10 ^ e)⁻¹ := by
  rw [ten_toNat (by omega), zpow_neg]

theorem ten_zpow_add (a b : Int) : (10 : ℚ) ^ (a + b) = 10 ^ a * 10 ^ b := zpow_add₀ (by norm_num) a b

theorem ten_zpow_mono {a b : Int} (h : a ≤ b) : (10 : ℚ) ^ a ≤ 10 ^ b :=
  zpow_le_zpow_right₀ (by norm_num) h

/-- the test of `findExp10` -/
theorem ok10_iff (n d : Nat) (hd : 0 < d) (x : Int) :
    (if x ≥ 0 then d * 10 ^ x.toNat ≤ n else d ≤ n * 10 ^ (-x).toNat) ↔
      (10 : ℚ) ^ x ≤ (n : ℚ) / d := by
  have hdq : (0 : ℚ) < d := by exact_mod_cast hd
  by_cases h : x ≥ 0
  · simp only [h, if_true]
    rw [le_div_iff₀ hdq, ← ten_toNat h]
    constructor
    · intro hle
      have : ((d * 10 ^ x.toNat : Nat) : ℚ) ≤ n := by exact_mod_cast hle
      rw [Nat.cast_mul] at this; linarith
    · intro hle
      have : ((d * 10 ^ x.toNat : Nat) : ℚ) ≤ n := by rw [Nat.cast_mul]; linarith
      exact_mod_cast this
  · have h' : x < 0 := by omega
    have hp := ten_zpow_pos x
    simp only [h, if_false]
    rw [le_div_iff₀ hdq]
    constructor
    · intro hle
      have : (d : ℚ) ≤ ((n * 10 ^ (-x).toNat : Nat) : ℚ) := by exact_mod_cast hle
      rw [Nat.cast_mul, ten_neg_toNat h'] at this
      calc (10 : ℚ) ^ x * d ≤ 10 ^ x * ((n : ℚ) * (10 ^ x)⁻¹) := mul_le_mul_of_nonneg_left this hp.le
        _ = n := by field_simp
    · intro hle
      have : (d : ℚ) ≤ ((n * 10 ^ (-x).toNat : Nat) : ℚ) := by
        rw [Nat.cast_mul, ten_neg_toNat h']
        rw [le_mul_inv_iff₀ hp]; linarith
      exact_mod_cast this

/-- the downward search finds the decimal exponent -/
theorem findExp10_spec (n d : Nat) (hd : 0 < d) (X : Int) (hlo : (10 : ℚ) ^ X ≤ (n : ℚ) / d)
    (hhi : (n : ℚ) / d < 10 ^ (X + 1)) :
    ∀ (f : Nat) (x : Int), X ≤ x → x - X < f → findExp10 f n d x = X := by
  intro f
  induction f with
  | zero => intro x h1 h2; omega
  | succ f ih =>
    intro x h1 h2
    unfold findExp10
    by_cases hx : x = X
    · subst hx
      rw [if_pos ((ok10_iff n d hd x).mpr hlo)]
    · have hnot : ¬ ((10 : ℚ) ^ x ≤ (n : ℚ) / d) := by
        intro hc
        have : (10 : ℚ) ^ (X + 1) ≤ 10 ^ x := ten_zpow_mono (by omega)
        linarith
      rw [if_neg (fun hc => hnot ((ok10_iff n d hd x).mp hc))]
      exact ih (x - 1) (by omega) (by omega)

theorem two_le_ten_pow (k : Nat) : (2 : ℚ) ^ (k : Int) ≤ 10 ^ (k : Int) := by
  rw [zpow_natCast, zpow_natCast]
  exact pow_le_pow_left₀ (by norm_num) (by norm_num) k

/-- `exp10` is the decimal exponent -/
theorem exp10_spec (n d : Nat) (hn : 0 < n) (hd : 0 < d) (X : Int) (hlo : (10 : ℚ) ^ X ≤ (n : ℚ) / d)
    (hhi : (n : ℚ) / d < 10 ^ (X + 1)) : exp10 n d = X := by
  have hnq : (0 : ℚ) < n := by exact_mod_cast hn
  have hdq : (0 : ℚ) < d := by exact_mod_cast hd
  obtain ⟨bn, hbn, _, hn2⟩ := bitLen_spec n hn
  obtain ⟨bd, hbd, _, hd2⟩ := bitLen_spec d hd
  have hn2q : (n : ℚ) < 10 ^ ((bn : Int) + 1) := by
    have h1 : (n : ℚ) < ((2 ^ (bn + 1) : Nat) : ℚ) := by exact_mod_cast hn2
    rw [natpow_cast] at h1
    have := two_le_ten_pow (bn + 1)
    push_cast at this h1
    linarith
  have hd2q : (d : ℚ) < 10 ^ ((bd : Int) + 1) := by
    have h1 : (d : ℚ) < ((2 ^ (bd + 1) : Nat) : ℚ) := by exact_mod_cast hd2
    rw [natpow_cast] at h1
    have := two_le_ten_pow (bd + 1)
    push_cast at this h1
    linarith
  -- X ≤ bn + 1 : 10^X ≤ n/d ≤ n < 10^(bn+1)
  have hX1 : X < (bn : Int) + 1 := by
    have hd1 : (1 : ℚ) ≤ d := by exact_mod_cast hd
    have : (n : ℚ) / d ≤ n := div_le_self hnq.le hd1
    have h2 : (10 : ℚ) ^ X < 10 ^ ((bn : Int) + 1) := by linarith
    by_contra hc
    have := ten_zpow_mono (show (bn : Int) + 1 ≤ X by omega)
    linarith
  -- X ≥ -(bd+1) : n/d ≥ 1/d > 10^-(bd+1)
  have hX2 : -((bd : Int) + 1) - 1 < X := by
    have hn1 : (1 : ℚ) ≤ n := by exact_mod_cast hn
    have h1 : (1 : ℚ) / d ≤ (n : ℚ) / d := by
      rw [div_le_div_iff_of_pos_right hdq]; exact hn1
    have h2 : (10 : ℚ) ^ (-((bd : Int) + 1)) < 1 / d := by
      rw [zpow_neg, lt_div_iff₀ hdq, inv_mul_lt_iff₀ (ten_zpow_pos _)]
      linarith
    by_contra hc
    have := ten_zpow_mono (show X + 1 ≤ -((bd : Int) + 1) by omega)
    linarith
  unfold exp10
  rw [hbn, hbd]
  exact findExp10_spec n d hd X hlo hhi _ _ (by push_cast; omega) (by push_cast; omega)

/-- `roundDiv10` rounds `(n/d)/10^k` to a nearest integer -/
theorem roundDiv10_spec (n d : Nat) (k : Int) (hd : 0 < d) :
    |((roundDiv10 n d k : Nat) : ℚ) - (n : ℚ) / d / 10 ^ k| ≤ 1 / 2 := by
  have hdq : (0 : ℚ) < d := by exact_mod_cast hd
  have hp := ten_zpow_pos k
  obtain ⟨num, den, hden, hval, hdef⟩ : ∃ num den : Nat, 0 < den ∧
      (num : ℚ) / den = (n : ℚ) / d / 10 ^ k ∧
      roundDiv10 n d k =
        (if (2 * (num % den) > den || (2 * (num % den) == den && num / den % 2 == 1)) then num / den + 1
         else num / den) := by
    by_cases h : k ≥ 0
    · refine ⟨n, d * 10 ^ k.toNat, by positivity, ?_, ?_⟩
      · rw [Nat.cast_mul, ten_toNat h]; field_simp
      · simp [roundDiv10, h]
    · have h' : k < 0 := by omega
      refine ⟨n * 10 ^ (-k).toNat, d, hd, ?_, ?_⟩
      · rw [Nat.cast_mul, ten_neg_toNat h']; field_simp
      · simp [roundDiv10, h]
  rw [hdef, ← hval]
  have hdenq : (0 : ℚ) < den := by exact_mod_cast hden
  have hdm : (num : ℚ) = den * (num / den : Nat) + (num % den : Nat) := by
    exact_mod_cast (Nat.div_add_mod num den).symm
  have hr : (num % den : Nat) < den := Nat.mod_lt _ hden
  have hr0 : (0 : ℚ) ≤ ((num % den : Nat) : ℚ) := by positivity
  have hquot : (num : ℚ) / den = (num / den : Nat) + ((num % den : Nat) : ℚ) / den := by
    rw [hdm]; field_simp
  by_cases hup : (2 * (num % den) > den || (2 * (num % den) == den && num / den % 2 == 1)) = true
  · have h2 : den ≤ 2 * (num % den) := by
      rcases Bool.or_eq_true_iff.mp hup with h | h
      · have : den < 2 * (num % den) := by simpa using h
        omega
      · have := (Bool.and_eq_true_iff.mp h).1
        have : 2 * (num % den) = den := by simpa using this
        omega
    have h2q : (den : ℚ) ≤ 2 * ((num % den : Nat) : ℚ) := by exact_mod_cast h2
    have hrq : ((num % den : Nat) : ℚ) < den := by exact_mod_cast hr
    rw [if_pos hup, hquot, Nat.cast_add, Nat.cast_one]
    have : ((num % den : Nat) : ℚ) / den ≤ 1 := by rw [div_le_one hdenq]; linarith
    have h3 : (1 : ℚ) / 2 ≤ ((num % den : Nat) : ℚ) / den := by
      rw [le_div_iff₀ hdenq]; linarith
    rw [abs_le]; constructor <;> linarith
  · have h2 : 2 * (num % den) ≤ den := by
      by_contra hc
      have : den < 2 * (num % den) := by omega
      exact hup (by simp [this])
    have h2q : 2 * ((num % den : Nat) : ℚ) ≤ den := by exact_mod_cast h2
    rw [if_neg hup, hquot]
    have h3 : ((num % den : Nat) : ℚ) / den ≤ 1 / 2 := by
      rw [div_le_iff₀ hdenq]; linarith
    have h4 : (0 : ℚ) ≤ ((num % den : Nat) : ℚ) / den := by positivity
    rw [abs_le]; constructor <;> linarith


theorem nat_eq_of_abs_lt_one (a b : Nat) (h : |(a : ℚ) - b| < 1) : a = b := by
  have h' := abs_lt.mp h
  have h1 : (a : ℚ) < ((b + 1 : Nat) : ℚ) := by push_cast; linarith [h'.2]
  have h2 : (b : ℚ) < ((a + 1 : Nat) : ℚ) := by push_cast; linarith [h'.1]
  have h1' : a < b + 1 := by exact_mod_cast h1
  have h2' : b < a + 1 := by exact_mod_cast h2
  omega

/-- the six digits and the exponent of a value that is (up to 2⁻⁴⁰ relative) `D·10^(X-5)` -/
theorem sixDigits_spec (n d : Nat) (hn : 0 < n) (hd : 0 < d) (D : Nat) (X : Int)
    (hD1 : 100000 ≤ D) (hD2 : D < 1000000)
    (herr : |(n : ℚ) / d - D * 10 ^ (X - 5)| ≤ D * 10 ^ (X - 5) * (1 / 1099511627776)) :
    sixDigits n d = (D, X) := by
  have hu := ten_zpow_pos (X - 5)
  have hD1q : (100000 : ℚ) ≤ D := by exact_mod_cast hD1
  have hD2q : (D : ℚ) ≤ 999999 := by
    have : D ≤ 999999 := by omega
    exact_mod_cast this
  -- t = w / 10^(X-5) is within 10^-6 of D
  obtain ⟨t, ht⟩ : ∃ t : ℚ, t = (n : ℚ) / d / 10 ^ (X - 5) := ⟨_, rfl⟩
  have hw : (n : ℚ) / d = t * 10 ^ (X - 5) := by rw [ht]; field_simp
  have htD : |t - D| ≤ 1 / 1000000 := by
    rw [hw] at herr
    have h1 : t * 10 ^ (X - 5) - D * 10 ^ (X - 5) = (t - D) * 10 ^ (X - 5) := by ring
    rw [h1, abs_mul, abs_of_pos hu] at herr
    have h2 : |t - D| * 10 ^ (X - 5) ≤ (D * (1 / 1099511627776)) * 10 ^ (X - 5) := by
      calc |t - D| * 10 ^ (X - 5) ≤ D * 10 ^ (X - 5) * (1 / 1099511627776) := herr
        _ = (D * (1 / 1099511627776)) * 10 ^ (X - 5) := by ring
    have h3 := le_of_mul_le_mul_right h2 hu
    linarith
  have htD' := abs_le.mp htD
  have e5 : (10 : ℚ) ^ X = 100000 * 10 ^ (X - 5) := by
    have : X = 5 + (X - 5) := by ring
    conv => lhs; rw [this, ten_zpow_add]
    norm_num
  have e6 : (10 : ℚ) ^ (X + 1) = 1000000 * 10 ^ (X - 5) := by
    have : X + 1 = 6 + (X - 5) := by ring
    rw [this, ten_zpow_add]; norm_num
  have e4 : (10 : ℚ) ^ (X - 1) = 10000 * 10 ^ (X - 5) := by
    have : X - 1 = 4 + (X - 5) := by ring
    rw [this, ten_zpow_add]; norm_num
  unfold sixDigits
  by_cases hcase : (100000 : ℚ) ≤ t
  · -- the exponent is X, the digits are D
    have hlo : (10 : ℚ) ^ X ≤ (n : ℚ) / d := by
      rw [hw, e5]; exact mul_le_mul_of_nonneg_right hcase hu.le
    have hhi : (n : ℚ) / d < 10 ^ (X + 1) := by
      rw [hw, e6]; exact mul_lt_mul_of_pos_right (by linarith [htD'.2]) hu
    rw [exp10_spec n d hn hd X hlo hhi]
    have hr := roundDiv10_spec n d (X - 5) hd
    rw [← ht] at hr
    have hr' := abs_le.mp hr
    have hdg : roundDiv10 n d (X - 5) = D := by
      apply nat_eq_of_abs_lt_one
      rw [abs_lt]; constructor <;> linarith [hr'.1, hr'.2, htD'.1, htD'.2]
    rw [hdg]
    have : ¬ (D ≥ 1000000) := by omega
    simp [this]
  · -- the value is just below 10^X: D = 100000, exponent X - 1, digits carry to 10^6
    have hDeq : D = 100000 := by
      have : (D : ℚ) < 100001 := by linarith [htD'.1]
      have : D < 100001 := by exact_mod_cast this
      omega
    subst hDeq
    have hlo : (10 : ℚ) ^ (X - 1) ≤ (n : ℚ) / d := by
      rw [hw, e4]; exact mul_le_mul_of_nonneg_right (by push_cast at htD'; linarith [htD'.1]) hu.le
    have hhi : (n : ℚ) / d < 10 ^ (X - 1 + 1) := by
      have : X - 1 + 1 = X := by ring
      rw [this, hw, e5]; exact mul_lt_mul_of_pos_right (by linarith) hu
    rw [exp10_spec n d hn hd (X - 1) hlo hhi]
    have hr := roundDiv10_spec n d (X - 1 - 5) hd
    have hk : (n : ℚ) / d / 10 ^ (X - 1 - 5) = 10 * t := by
      have : X - 5 = 1 + (X - 1 - 5) := by ring
      rw [ht, this, ten_zpow_add]
      have hp := ten_zpow_pos (X - 1 - 5)
      field_simp
    rw [hk] at hr
    have hr' := abs_le.mp hr
    have hdg : roundDiv10 n d (X - 1 - 5) = 1000000 := by
      apply nat_eq_of_abs_lt_one
      push_cast at htD' ⊢
      rw [abs_lt]; constructor <;> linarith [hr'.1, hr'.2, htD'.1, htD'.2]
    rw [hdg]
    have hx : X - 1 + 1 = X := by ring
    simp [hx]


/-! ## digits of `renderNat`, trailing zeros -/

theorem renderNatF_length : ∀ (k f n : Nat), 10 ^ k ≤ n → n < 10 ^ (k + 1) → n < 10 ^ f →
    (renderNatF f n).length = k + 1 := by
  intro k
  induction k with
  | zero =>
    intro f n h1 h2 h3
    cases f with
    | zero => simp at h3; omega
    | succ f =>
      have : n < 10 := by simpa using h2
      simp [renderNatF, this]
  | succ k ih =>
    intro f n h1 h2 h3
    cases f with
    | zero => simp at h3; have : 0 < 10 ^ (k + 1) := Nat.pow_pos (by norm_num); omega
    | succ f =>
      have h10 : 10 ≤ n := by
        have : 10 ^ 1 ≤ 10 ^ (k + 1) := Nat.pow_le_pow_right (by norm_num) (by omega)
        omega
      have hn : ¬ n < 10 := by omega
      have hq1 : 10 ^ k ≤ n / 10 := by
        rw [Nat.le_div_iff_mul_le (by norm_num)]
        rw [Nat.pow_succ] at h1; exact h1
      have hq2 : n / 10 < 10 ^ (k + 1) := by
        rw [Nat.div_lt_iff_lt_mul (by norm_num)]
        rw [Nat.pow_succ] at h2; exact h2
      have hq3 : n / 10 < 10 ^ f := by
        rw [Nat.div_lt_iff_lt_mul (by norm_num)]
        rw [Nat.pow_succ] at h3; exact h3
      simp [renderNatF, hn, ih f (n / 10) hq1 hq2 hq3]

theorem decVal_renderNat (n : Nat) : decVal (renderNat n) 0 = n := by
  have h1 := readDigits_render (n + 1) n [] 0 0 (lt_ten_pow n)
  have h2 := readDigits_digits (renderNatF (n + 1) n) [] 0 0 (renderNatF_allDig _ _) (Or.inl rfl)
  rw [h2] at h1
  simp only [Nat.zero_mul, Nat.zero_add, readDigits_nil, Prod.mk.injEq] at h1
  exact h1.1

theorem decVal_zeros (a : Bytes) (z acc : Nat) :
    decVal (a ++ List.replicate z 48) acc = decVal a acc * 10 ^ z := by
  induction z generalizing a with
  | zero => simp
  | succ z ih =>
    have : a ++ List.replicate (z + 1) 48 = (a ++ [48]) ++ List.replicate z 48 := by
      rw [List.replicate_succ, List.append_assoc]; rfl
    rw [this, ih (a ++ [48]), decVal_append]
    have h48 : decVal [48] (decVal a acc) = decVal a acc * 10 := by
      simp [decVal]
    rw [h48, Nat.pow_succ]; ring

theorem all48_replicate : ∀ (l : Bytes), (∀ c ∈ l, (c == 48) = true) → l = List.replicate l.length 48 := by
  intro l
  induction l with
  | nil => intro _; rfl
  | cons c t ih =>
    intro h
    have hc : c = 48 := by simpa using h c (by simp)
    rw [List.length_cons, List.replicate_succ, hc, ← ih (fun x hx => h x (by simp [hx]))]

/-- a digit string is its `stripZeros` followed by zeros -/
theorem stripZeros_split (l : Bytes) :
    ∃ z, l = stripZeros l ++ List.replicate z 48 ∧ (stripZeros l).length + z = l.length := by
  have h := List.takeWhile_append_dropWhile (p := fun x : UInt8 => x == 48) (l := l.reverse)
  have hrev : l = (l.reverse.dropWhile (· == 48)).reverse ++ (l.reverse.takeWhile (· == 48)).reverse := by
    rw [← List.reverse_append, h, List.reverse_reverse]
  have hall : ∀ c ∈ (l.reverse.takeWhile (· == 48)).reverse, (c == 48) = true := by
    intro c hc
    exact mem_takeWhile_imp (p := fun x => x == 48) (List.mem_reverse.mp hc)
  refine ⟨(l.reverse.takeWhile (· == 48)).length, ?_, ?_⟩
  · have := all48_replicate _ hall
    rw [List.length_reverse] at this
    unfold stripZeros
    rw [← this]; exact hrev
  · have := congrArg List.length hrev
    simp only [List.length_append, List.length_reverse] at this
    unfold stripZeros
    simp only [List.length_reverse]
    omega

theorem allDig_sub {l l' : Bytes} (h : AllDig l) (hs : ∀ c ∈ l', c ∈ l) : AllDig l' :=
  fun c hc => h c (hs c hc)

theorem allDig_stripZeros {l : Bytes} (h : AllDig l) : AllDig (stripZeros l) := by
  apply allDig_sub h
  intro c hc
  unfold stripZeros at hc
  have := List.mem_reverse.mp hc
  exact List.mem_reverse.mp ((List.dropWhile_sublist _).subset this)


/-! ## the layout, fed back to the setter -/

theorem arith_pos (V D n x z L : Nat) (hx : x ≤ 5) (hz : L + z = 5 - x) (hV : V * 10 ^ z = D)
    (hn : n * 100000 = D * 10 ^ (x + 6)) : V * 1000000 = n * 10 ^ L := by
  have hz' : z ≤ 5 := by omega
  have hL : L = 5 - x - z := by omega
  subst hL
  subst hV
  interval_cases x <;> interval_cases z <;>
    (try simp only [Nat.reducePow, Nat.reduceSub, Nat.reduceAdd] at hn ⊢) <;> linarith

theorem arith_neg (V D n y z L : Nat) (hy : y ≤ 3) (hz : L + z = y + 6) (hV : V * 10 ^ z = D)
    (hn : n * 100000 = D * 10 ^ (5 - y)) : V * 1000000 = n * 10 ^ L := by
  have hz' : z ≤ 9 := by omega
  have hL : L = y + 6 - z := by omega
  subst hL
  subst hV
  interval_cases y <;> interval_cases z <;>
    (try simp only [Nat.reducePow, Nat.reduceSub, Nat.reduceAdd] at hn ⊢) <;> linarith


theorem allDig_replicate (y : Nat) : AllDig (List.replicate y 48) := by
  intro c hc
  have := List.eq_of_mem_replicate hc
  exact ⟨0, by norm_num, by rw [this]; rfl⟩

theorem decVal_lead_zeros (y : Nat) : decVal (List.replicate y 48) 0 = 0 := by
  have := decVal_zeros [] y 0
  simpa [decVal] using this

/-- **the `%g` layout is read back exactly.**  Six digits `D` with decimal exponent `X ∈ [-4, 5]`
    (the fixed-notation range of `%g`), denoting a whole number `n` of microseconds: the text
    `layoutG D X` is accepted by `cf_set_time_usec` and stored as exactly `n`. -/
theorem layoutG_set (env : Env) (henv : env.strtod = strtodC) (D : Nat) (X : Int) (n : Nat)
    (hD1 : 100000 ≤ D) (hD2 : D < 1000000) (hX1 : -4 ≤ X) (hX2 : X ≤ 5)
    (hn : n * 100000 = D * 10 ^ (X + 6).toNat) (hn40 : n < 2 ^ 40) :
    applySetter env .timeUsec (layoutG D X) = some (.usec n) := by
  -- the six digits
  have hlen : (renderNat D).length = 6 :=
    renderNatF_length 5 (D + 1) D (by norm_num; omega) (by norm_num; omega) (lt_ten_pow D)
  have hall : AllDig (renderNat D) := renderNatF_allDig _ _
  have hval : decVal (renderNat D) 0 = D := decVal_renderNat D
  have hpad : padLeft 6 (renderNat D) = renderNat D := by simp [padLeft, hlen]
  have hnotexp : ¬ (X < -4 ∨ X ≥ 6) := by omega
  unfold layoutG
  simp only [hpad]
  have hc1 : (decide (X < -4) || decide (X ≥ 6)) = false := by
    simp only [Bool.or_eq_false_iff, decide_eq_false_iff_not]; omega
  simp only [hc1, Bool.false_eq_true, if_false]
  by_cases hx0 : X ≥ 0
  · -- digits, point, digits
    simp only [hx0, if_true]
    obtain ⟨x, hx⟩ : ∃ x : Nat, X = x := ⟨X.toNat, by omega⟩
    subst hx
    have hx5 : x ≤ 5 := by omega
    simp only [Int.toNat_natCast]
    have hsplit : renderNat D = (renderNat D).take (x + 1) ++ (renderNat D).drop (x + 1) :=
      (List.take_append_drop _ _).symm
    have hipl : ((renderNat D).take (x + 1)).length = x + 1 := by simp [hlen]; omega
    have hfrl : ((renderNat D).drop (x + 1)).length = 5 - x := by simp [hlen]
    have hipne : (renderNat D).take (x + 1) ≠ [] := by
      intro h; rw [h] at hipl; simp at hipl
    have hipall : AllDig ((renderNat D).take (x + 1)) := allDig_sub hall (fun c hc => List.mem_of_mem_take hc)
    have hfrall : AllDig ((renderNat D).drop (x + 1)) := allDig_sub hall (fun c hc => List.mem_of_mem_drop hc)
    obtain ⟨z, hz1, hz2⟩ := stripZeros_split ((renderNat D).drop (x + 1))
    have hD : decVal ((renderNat D).take (x + 1) ++ stripZeros ((renderNat D).drop (x + 1))) 0 * 10 ^ z = D := by
      rw [decVal_append, ← decVal_zeros, ← hz1, ← decVal_append, ← hsplit, hval]
    have hn' : n * 100000 = D * 10 ^ (x + 6) := by
      have : ((x : Int) + 6).toNat = x + 6 := by omega
      rw [this] at hn; exact hn
    have hAr := arith_pos _ D n x z (stripZeros ((renderNat D).drop (x + 1))).length hx5
      (by omega) hD hn'
    by_cases hemp : (stripZeros ((renderNat D).drop (x + 1))).isEmpty = true
    · have he : stripZeros ((renderNat D).drop (x + 1)) = [] := List.isEmpty_iff.mp hemp
      simp only [he, List.isEmpty_nil, if_true, List.append_nil]
      rw [he] at hAr
      simp only [List.append_nil, List.length_nil, Nat.pow_zero, Nat.mul_one] at hAr
      exact set_time_usec_int env henv _ hipall hipne n hn40 hAr
    · simp only [hemp, Bool.false_eq_true, if_false]
      exact set_time_usec_plain env henv _ _ hipall hipne (allDig_stripZeros hfrall) n hn40 hAr
  · -- 0.000ddd
    simp only [hx0, if_false]
    obtain ⟨y, hy⟩ : ∃ y : Nat, X = -((y : Int) + 1) := ⟨(-X).toNat - 1, by omega⟩
    subst hy
    have hy3 : y ≤ 3 := by omega
    have hyy : (-(-((y : Int) + 1))).toNat - 1 = y := by omega
    rw [hyy]
    have hlall : AllDig (List.replicate y 48 ++ renderNat D) := by
      intro c hc
      rcases List.mem_append.mp hc with h | h
      · exact allDig_replicate y c h
      · exact hall c h
    obtain ⟨z, hz1, hz2⟩ := stripZeros_split (List.replicate y 48 ++ renderNat D)
    have hlv : decVal (List.replicate y 48 ++ renderNat D) 0 = D := by
      rw [decVal_append, decVal_lead_zeros, hval]
    have hD : decVal ([48] ++ stripZeros (List.replicate y 48 ++ renderNat D)) 0 * 10 ^ z = D := by
      have h0 : decVal ([48] ++ stripZeros (List.replicate y 48 ++ renderNat D)) 0 =
          decVal (stripZeros (List.replicate y 48 ++ renderNat D)) 0 := by
        rw [decVal_append]; rfl
      rw [h0, ← decVal_zeros, ← hz1, hlv]
    have hn' : n * 100000 = D * 10 ^ (5 - y) := by
      have : (-((y : Int) + 1) + 6).toNat = 5 - y := by omega
      rw [this] at hn; exact hn
    have hAr := arith_neg _ D n y z (stripZeros (List.replicate y 48 ++ renderNat D)).length hy3
      (by simp only [List.length_append, List.length_replicate, hlen] at hz2; omega) hD hn'
    have h48 : AllDig [48] := by
      intro c hc
      have : c = 48 := by simpa using hc
      exact ⟨0, by norm_num, by rw [this]; rfl⟩
    have := set_time_usec_plain env henv [48] (stripZeros (List.replicate y 48 ++ renderNat D)) h48
      (by simp) (allDig_stripZeros hlall) n hn40 hAr
    simpa using this


/-- powers of ten with a shifted integer exponent, as a fraction of natural powers -/
theorem ten_zpow_sub_nat (x : Nat) (hx : x ≤ 5) : (10 : ℚ) ^ ((x : Int) - 5) = 1 / ((10 ^ (5 - x) : Nat) : ℚ) := by
  have : (x : Int) - 5 = -(((5 - x : Nat) : Int)) := by omega
  rw [this, zpow_neg, zpow_natCast, Nat.cast_pow, Nat.cast_ofNat, one_div]

theorem ten_zpow_neg_nat (y : Nat) : (10 : ℚ) ^ (-((y : Int) + 1) - 5) = 1 / ((10 ^ (y + 6) : Nat) : ℚ) := by
  have : -((y : Int) + 1) - 5 = -(((y + 6 : Nat) : Int)) := by push_cast; ring
  rw [this, zpow_neg, zpow_natCast, Nat.cast_pow, Nat.cast_ofNat, one_div]

theorem allDig_nil : AllDig [] := by intro c hc; cases hc

/-- **shape of the `%g` layout in the fixed range**: digits, optionally a point and more digits;
    its decimal value is `D·10^(X-5)` -/
theorem layoutG_shape (D : Nat) (X : Int) (hD1 : 100000 ≤ D) (hD2 : D < 1000000) (hX1 : -4 ≤ X)
    (hX2 : X ≤ 5) :
    ∃ ip fp : Bytes, AllDig ip ∧ ip ≠ [] ∧ AllDig fp ∧
      (layoutG D X = ip ++ 46 :: fp ∨ (fp = [] ∧ layoutG D X = ip)) ∧
      ((decVal (ip ++ fp) 0 : Nat) : ℚ) / ((10 ^ fp.length : Nat) : ℚ) = D * 10 ^ (X - 5) := by
  have hlen : (renderNat D).length = 6 :=
    renderNatF_length 5 (D + 1) D (by norm_num; omega) (by norm_num; omega) (lt_ten_pow D)
  have hall : AllDig (renderNat D) := renderNatF_allDig _ _
  have hval : decVal (renderNat D) 0 = D := decVal_renderNat D
  have hpad : padLeft 6 (renderNat D) = renderNat D := by simp [padLeft, hlen]
  unfold layoutG
  simp only [hpad]
  have hc1 : (decide (X < -4) || decide (X ≥ 6)) = false := by
    simp only [Bool.or_eq_false_iff, decide_eq_false_iff_not]; omega
  simp only [hc1, Bool.false_eq_true, if_false]
  by_cases hx0 : X ≥ 0
  · simp only [hx0, if_true]
    obtain ⟨x, hx⟩ : ∃ x : Nat, X = x := ⟨X.toNat, by omega⟩
    subst hx
    have hx5 : x ≤ 5 := by omega
    simp only [Int.toNat_natCast]
    have hsplit : renderNat D = (renderNat D).take (x + 1) ++ (renderNat D).drop (x + 1) :=
      (List.take_append_drop _ _).symm
    have hipl : ((renderNat D).take (x + 1)).length = x + 1 := by simp [hlen]; omega
    have hfrl : ((renderNat D).drop (x + 1)).length = 5 - x := by simp [hlen]
    have hipne : (renderNat D).take (x + 1) ≠ [] := by
      intro h; rw [h] at hipl; simp at hipl
    have hipall : AllDig ((renderNat D).take (x + 1)) := allDig_sub hall (fun c hc => List.mem_of_mem_take hc)
    have hfrall : AllDig ((renderNat D).drop (x + 1)) := allDig_sub hall (fun c hc => List.mem_of_mem_drop hc)
    obtain ⟨z, hz1, hz2⟩ := stripZeros_split ((renderNat D).drop (x + 1))
    have hD : decVal ((renderNat D).take (x + 1) ++ stripZeros ((renderNat D).drop (x + 1))) 0 * 10 ^ z = D := by
      rw [decVal_append, ← decVal_zeros, ← hz1, ← decVal_append, ← hsplit, hval]
    -- the value, as a rational
    have hq : ((decVal ((renderNat D).take (x + 1) ++ stripZeros ((renderNat D).drop (x + 1))) 0 : Nat) : ℚ) /
        ((10 ^ (stripZeros ((renderNat D).drop (x + 1))).length : Nat) : ℚ) = D * 10 ^ ((x : Int) - 5) := by
      rw [ten_zpow_sub_nat x hx5]
      have hL : (stripZeros ((renderNat D).drop (x + 1))).length + z = 5 - x := by omega
      have hp : (10 : Nat) ^ (5 - x) = 10 ^ (stripZeros ((renderNat D).drop (x + 1))).length * 10 ^ z := by
        rw [← Nat.pow_add, hL]
      have hz0 : (0 : ℚ) < ((10 ^ z : Nat) : ℚ) := by exact_mod_cast Nat.pow_pos (by norm_num)
      have hl0 : (0 : ℚ) < ((10 ^ (stripZeros ((renderNat D).drop (x + 1))).length : Nat) : ℚ) := by
        exact_mod_cast Nat.pow_pos (by norm_num)
      have hDq : (D : ℚ) = ((decVal ((renderNat D).take (x + 1) ++
          stripZeros ((renderNat D).drop (x + 1))) 0 : Nat) : ℚ) * ((10 ^ z : Nat) : ℚ) := by
        exact_mod_cast hD.symm
      rw [hp, Nat.cast_mul, hDq]
      field_simp
    by_cases hemp : (stripZeros ((renderNat D).drop (x + 1))).isEmpty = true
    · have he : stripZeros ((renderNat D).drop (x + 1)) = [] := List.isEmpty_iff.mp hemp
      refine ⟨(renderNat D).take (x + 1), [], hipall, hipne, allDig_nil, Or.inr ⟨rfl, ?_⟩, ?_⟩
      · simp [he]
      · rw [he] at hq; exact hq
    · refine ⟨(renderNat D).take (x + 1), stripZeros ((renderNat D).drop (x + 1)), hipall, hipne,
        allDig_stripZeros hfrall, Or.inl ?_, hq⟩
      simp [hemp]
  · simp only [hx0, if_false]
    obtain ⟨y, hy⟩ : ∃ y : Nat, X = -((y : Int) + 1) := ⟨(-X).toNat - 1, by omega⟩
    subst hy
    have hy3 : y ≤ 3 := by omega
    have hyy : (-(-((y : Int) + 1))).toNat - 1 = y := by omega
    rw [hyy]
    have hlall : AllDig (List.replicate y 48 ++ renderNat D) := by
      intro c hc
      rcases List.mem_append.mp hc with h | h
      · exact allDig_replicate y c h
      · exact hall c h
    obtain ⟨z, hz1, hz2⟩ := stripZeros_split (List.replicate y 48 ++ renderNat D)
    have hlv : decVal (List.replicate y 48 ++ renderNat D) 0 = D := by
      rw [decVal_append, decVal_lead_zeros, hval]
    have hD : decVal ([48] ++ stripZeros (List.replicate y 48 ++ renderNat D)) 0 * 10 ^ z = D := by
      have h0 : decVal ([48] ++ stripZeros (List.replicate y 48 ++ renderNat D)) 0 =
          decVal (stripZeros (List.replicate y 48 ++ renderNat D)) 0 := by
        rw [decVal_append]; rfl
      rw [h0, ← decVal_zeros, ← hz1, hlv]
    have h48 : AllDig [48] := by
      intro c hc
      have : c = 48 := by simpa using hc
      exact ⟨0, by norm_num, by rw [this]; rfl⟩
    refine ⟨[48], stripZeros (List.replicate y 48 ++ renderNat D), h48, by simp,
      allDig_stripZeros hlall, Or.inl (by simp), ?_⟩
    rw [ten_zpow_neg_nat y]
    have hL : (stripZeros (List.replicate y 48 ++ renderNat D)).length + z = y + 6 := by
      simp only [List.length_append, List.length_replicate, hlen] at hz2; omega
    have hp : (10 : Nat) ^ (y + 6) = 10 ^ (stripZeros (List.replicate y 48 ++ renderNat D)).length * 10 ^ z := by
      rw [← Nat.pow_add, hL]
    have hz0 : (0 : ℚ) < ((10 ^ z : Nat) : ℚ) := by exact_mod_cast Nat.pow_pos (by norm_num)
    have hl0 : (0 : ℚ) < ((10 ^ (stripZeros (List.replicate y 48 ++ renderNat D)).length : Nat) : ℚ) := by
      exact_mod_cast Nat.pow_pos (by norm_num)
    have hDq : (D : ℚ) = ((decVal ([48] ++ stripZeros (List.replicate y 48 ++ renderNat D)) 0 : Nat) : ℚ) *
        ((10 ^ z : Nat) : ℚ) := by
      exact_mod_cast hD.symm
    rw [hp, Nat.cast_mul, hDq]
    field_simp

/-! ## the getter: what `cf_get_time_usec` prints for `n` microseconds -/

/-- `cf_get_time_usec` of `n` µs, where `n/10^6 = D·10^(X-5)` has the six digits `D`: the model
    prints `layoutG D X` -/
theorem get_time_usec_layout (n D : Nat) (X : Int) (hD1 : 100000 ≤ D) (hD2 : D < 1000000)
    (hX1 : -4 ≤ X) (hn : n * 100000 = D * 10 ^ (X + 6).toNat) (hn40 : n < 2 ^ 40) :
    fmtG (dblOfNat n).divUsec = layoutG D X := by
  have hX6 : 0 ≤ X + 6 := by omega
  have hpow : 0 < 10 ^ (X + 6).toNat := Nat.pow_pos (by norm_num)
  have hn0 : 0 < n := by
    rcases Nat.eq_zero_or_pos n with h | h
    · subst h
      have : 0 < D * 10 ^ (X + 6).toNat := Nat.mul_pos (by omega) hpow
      omega
    · exact h
  have hN1 : (1 : ℚ) ≤ n := by exact_mod_cast hn0
  have hN2 : (n : ℚ) < 1099511627776 := by
    have : n < 1099511627776 := by norm_num at hn40; exact hn40
    exact_mod_cast this
  -- n / 10^6 = D · 10^(X-5)
  have hval : (n : ℚ) / 1000000 = D * 10 ^ (X - 5) := by
    have h1 : ((n * 100000 : Nat) : ℚ) = ((D * 10 ^ (X + 6).toNat : Nat) : ℚ) := by rw [hn]
    rw [Nat.cast_mul, Nat.cast_mul, ten_toNat hX6] at h1
    have h2 : (10 : ℚ) ^ (X + 6) = 10 ^ (X - 5) * 100000000000 := by
      have : X + 6 = (X - 5) + 11 := by ring
      rw [this, ten_zpow_add]; norm_num
    rw [h2] at h1
    push_cast at h1
    linarith
  -- (double) n
  obtain ⟨r1, hr1, hm1, herr1⟩ := roundRat_spec n 1 hn0 (by norm_num)
    (lo_ok (by push_cast; linarith)) (hi_ok (by push_cast; linarith))
  rw [u53] at herr1
  have hx1 := abs_le.mp herr1
  push_cast at hx1
  obtain ⟨hb1, hval1⟩ := ratOf_val r1.m r1.e
  obtain ⟨x1, hx1d⟩ : ∃ x1 : ℚ, x1 = (r1.m : ℚ) * 2 ^ r1.e := ⟨_, rfl⟩
  rw [← hx1d] at hx1 hval1
  have hx1lo : (n : ℚ) * (1 - 1 / 9007199254740992) ≤ x1 := by linarith [hx1.1]
  have hx1hi : x1 ≤ (n : ℚ) * (1 + 1 / 9007199254740992) := by linarith [hx1.2]
  have hb1n : 0 < (ratOf r1.m r1.e).2 := by exact_mod_cast hb1
  have ha1 : 0 < (ratOf r1.m r1.e).1 := by
    have hpos : (0 : ℚ) < x1 := by linarith
    rw [← hval1] at hpos
    have := (div_pos_iff_of_pos_right hb1).mp hpos
    exact_mod_cast this
  -- / USEC
  have hv2 : ((ratOf r1.m r1.e).1 : ℚ) / (((ratOf r1.m r1.e).2 * 1000000 : Nat) : ℚ) = x1 / 1000000 := by
    rw [← hval1]; push_cast; field_simp
  obtain ⟨r2, hr2, hm2, herr2⟩ := roundRat_spec (ratOf r1.m r1.e).1 ((ratOf r1.m r1.e).2 * 1000000) ha1
    (by positivity)
    (lo_ok (by rw [hv2]; linarith)) (hi_ok (by rw [hv2]; linarith))
  rw [hv2, u53] at herr2
  have hx2 := abs_le.mp herr2
  obtain ⟨hb2, hval2⟩ := ratOf_val r2.m r2.e
  obtain ⟨x2, hx2d⟩ : ∃ x2 : ℚ, x2 = (r2.m : ℚ) * 2 ^ r2.e := ⟨_, rfl⟩
  rw [← hx2d] at hx2 hval2
  have hb2n : 0 < (ratOf r2.m r2.e).2 := by exact_mod_cast hb2
  have ha2 : 0 < (ratOf r2.m r2.e).1 := by
    have hpos : (0 : ℚ) < x2 := by linarith [hx2.1]
    rw [← hval2] at hpos
    have := (div_pos_iff_of_pos_right hb2).mp hpos
    exact_mod_cast this
  -- the printed value is within 2^-40 (relative) of n / 10^6
  have hclose : |((ratOf r2.m r2.e).1 : ℚ) / (ratOf r2.m r2.e).2 - D * 10 ^ (X - 5)| ≤
      D * 10 ^ (X - 5) * (1 / 1099511627776) := by
    rw [hval2, ← hval, abs_le]
    constructor <;> linarith [hx2.1, hx2.2]
  have hsix := sixDigits_spec _ _ ha2 hb2n D X hD1 hD2 hclose
  -- unfold the model
  have h1 : dblOfNat n = .fin false r1.m r1.e := dblOfRat_some false n 1 r1 hr1
  have h2 : (Dbl.fin false r1.m r1.e).divUsec = .fin false r2.m r2.e := by
    show dblOfRat false (ratOf r1.m r1.e).1 ((ratOf r1.m r1.e).2 * 1000000) = _
    exact dblOfRat_some false _ _ r2 hr2
  rw [h1, h2]
  have hm0 : (r2.m == 0) = false := by
    have : 0 < 2 ^ 52 := by norm_num
    simp; omega
  show signBytes false ++ (if (r2.m == 0) = true then [48] else fmtGPos (ratOf r2.m r2.e).1 (ratOf r2.m r2.e).2) = _
  rw [hm0]
  simp only [Bool.false_eq_true, if_false, signBytes, List.nil_append]
  unfold fmtGPos
  rw [hsix]

/-- **get → set round trip of `cf_*_time_usec` under the concrete libc model, all values**: for
    every `n` microseconds with at most six significant digits in `%g`'s fixed-notation range
    (`n/10^6 = D·10^(X-5)`, `10^5 ≤ D < 10^6`, `-4 ≤ X ≤ 5`: from 100 µs to 999999 s), the getter's
    text is accepted by the setter and stores `n` again. -/
theorem time_usec_roundtrip (env : Env) (hs : env.strtod = strtodC) (hg : env.fmtG = fmtG)
    (n D : Nat) (X : Int) (hD1 : 100000 ≤ D) (hD2 : D < 1000000) (hX1 : -4 ≤ X) (hX2 : X ≤ 5)
    (hn : n * 100000 = D * 10 ^ (X + 6).toNat) :
    (applyGetter env .timeUsec (some (.usec n))).bind (applySetter env .timeUsec) = some (.usec n) := by
  have hn40 : n < 2 ^ 40 := by
    have h1 : 10 ^ (X + 6).toNat ≤ 10 ^ 11 := Nat.pow_le_pow_right (by norm_num) (by omega)
    have h2 : D * 10 ^ (X + 6).toNat ≤ 999999 * 10 ^ 11 := Nat.mul_le_mul (by omega) h1
    norm_num at h2 ⊢
    omega
  show (some (env.fmtG (dblOfNat (asUsec (some (.usec n)))).divUsec)).bind (applySetter env .timeUsec) = _
  rw [hg]
  simp only [asUsec, Option.bind_some]
  rw [get_time_usec_layout n D X hD1 hD2 hX1 hn hn40]
  exact layoutG_set env hs D X n hD1 hD2 hX1 hX2 hn hn40


/-! ## cf_set_time_double → cf_get_time_double on canonical spellings -/

/-- the nearest double of `D·10^(X-5)` (six digits, fixed range) prints as `layoutG D X` -/
theorem fmtG_of_rounded (a b : Nat) (ha : 0 < a) (hb : 0 < b) (D : Nat) (X : Int)
    (hD1 : 100000 ≤ D) (hD2 : D < 1000000) (hX1 : -4 ≤ X) (hX2 : X ≤ 5)
    (hval : (a : ℚ) / b = D * 10 ^ (X - 5)) :
    fmtG (dblOfRat false a b) = layoutG D X := by
  have hD1q : (100000 : ℚ) ≤ D := by exact_mod_cast hD1
  have hD2q : (D : ℚ) < 1000000 := by exact_mod_cast hD2
  have hu := ten_zpow_pos (X - 5)
  have hu1 : (10 : ℚ) ^ (-9 : Int) ≤ 10 ^ (X - 5) := ten_zpow_mono (by omega)
  have hu2 : (10 : ℚ) ^ (X - 5) ≤ 10 ^ (0 : Int) := ten_zpow_mono (by omega)
  have e9 : (10 : ℚ) ^ (-9 : Int) = 1 / 1000000000 := by norm_num
  have e0 : (10 : ℚ) ^ (0 : Int) = 1 := by norm_num
  rw [e9] at hu1
  rw [e0] at hu2
  have hlo : (1 : ℚ) / 1048576 ≤ (a : ℚ) / b := by
    rw [hval]
    have : (100000 : ℚ) * (1 / 1000000000) ≤ D * 10 ^ (X - 5) := mul_le_mul hD1q hu1 (by norm_num) (by linarith)
    linarith
  have hhi : (a : ℚ) / b < 1125899906842624 := by
    rw [hval]
    have : (D : ℚ) * 10 ^ (X - 5) ≤ D * 1 := mul_le_mul_of_nonneg_left hu2 (by linarith)
    linarith
  obtain ⟨r, hr, hm, herr⟩ := roundRat_spec a b ha hb (lo_ok hlo) (hi_ok hhi)
  rw [u53, hval] at herr
  obtain ⟨hb2, hval2⟩ := ratOf_val r.m r.e
  have hb2n : 0 < (ratOf r.m r.e).2 := by exact_mod_cast hb2
  have hx := abs_le.mp herr
  have hpos : (0 : ℚ) < D * 10 ^ (X - 5) := by positivity
  have ha2 : 0 < (ratOf r.m r.e).1 := by
    have hp : (0 : ℚ) < (r.m : ℚ) * 2 ^ r.e := by linarith [hx.1]
    rw [← hval2] at hp
    have := (div_pos_iff_of_pos_right hb2).mp hp
    exact_mod_cast this
  have hclose : |((ratOf r.m r.e).1 : ℚ) / (ratOf r.m r.e).2 - D * 10 ^ (X - 5)| ≤
      D * 10 ^ (X - 5) * (1 / 1099511627776) := by
    rw [hval2, abs_le]
    constructor <;> linarith [hx.1, hx.2]
  have hsix := sixDigits_spec _ _ ha2 hb2n D X hD1 hD2 hclose
  rw [dblOfRat_some false a b r hr]
  have hm0 : (r.m == 0) = false := by
    have : 0 < 2 ^ 52 := by norm_num
    simp; omega
  show signBytes false ++ (if (r.m == 0) = true then [48] else fmtGPos (ratOf r.m r.e).1 (ratOf r.m r.e).2) = _
  rw [hm0]
  simp only [Bool.false_eq_true, if_false, signBytes, List.nil_append]
  unfold fmtGPos
  rw [hsix]

/-- **cf_set_time_double then cf_get_time_double on every canonical spelling** (six digits `D`,
    decimal exponent `X ∈ [-4, 5]`; the texts `%g` itself produces in its fixed-notation range, e.g.
    "0.0001", "2.5", "86400", "999999"): the setter accepts the text and stores the nearest
    binary64; the getter renders that double as the same text. -/
theorem time_double_set_get (env : Env) (hs : env.strtod = strtodC) (hg : env.fmtG = fmtG)
    (D : Nat) (X : Int) (hD1 : 100000 ≤ D) (hD2 : D < 1000000) (hX1 : -4 ≤ X) (hX2 : X ≤ 5) :
    ∃ d, applySetter env .timeDouble (layoutG D X) = some (.dbl d) ∧
      applyGetter env .timeDouble (some (.dbl d)) = some (layoutG D X) := by
  obtain ⟨ip, fp, hip, hne, hfp, hshape, hq⟩ := layoutG_shape D X hD1 hD2 hX1 hX2
  have hD1q : (100000 : ℚ) ≤ D := by exact_mod_cast hD1
  have hD2q : (D : ℚ) < 1000000 := by exact_mod_cast hD2
  have hu := ten_zpow_pos (X - 5)
  have hu1 : (10 : ℚ) ^ (-9 : Int) ≤ 10 ^ (X - 5) := ten_zpow_mono (by omega)
  have hu2 : (10 : ℚ) ^ (X - 5) ≤ 10 ^ (0 : Int) := ten_zpow_mono (by omega)
  have e9 : (10 : ℚ) ^ (-9 : Int) = 1 / 1000000000 := by norm_num
  have e0 : (10 : ℚ) ^ (0 : Int) = 1 := by norm_num
  rw [e9] at hu1
  rw [e0] at hu2
  have hlo : (1 : ℚ) / 1048576 ≤ D * 10 ^ (X - 5) := by
    have : (100000 : ℚ) * (1 / 1000000000) ≤ D * 10 ^ (X - 5) := mul_le_mul hD1q hu1 (by norm_num) (by linarith)
    linarith
  have hhi : (D : ℚ) * 10 ^ (X - 5) < 1125899906842624 := by
    have : (D : ℚ) * 10 ^ (X - 5) ≤ D * 1 := mul_le_mul_of_nonneg_left hu2 (by linarith)
    linarith
  have hpow : 0 < 10 ^ fp.length := Nat.pow_pos (by norm_num)
  have hpowq : (0 : ℚ) < ((10 ^ fp.length : Nat) : ℚ) := by exact_mod_cast hpow
  have hvpos : 0 < decVal (ip ++ fp) 0 := by
    have hp : (0 : ℚ) < ((decVal (ip ++ fp) 0 : Nat) : ℚ) / ((10 ^ fp.length : Nat) : ℚ) := by
      rw [hq]; positivity
    have := (div_pos_iff_of_pos_right hpowq).mp hp
    exact_mod_cast this
  have hgetter : ∀ d, applyGetter env .timeDouble (some (.dbl d)) = some (fmtG d) := by
    intro d; show some (env.fmtG (asDbl (some (.dbl d)))) = _; rw [hg]; rfl
  rcases hshape with hdot | ⟨hfp0, hnodot⟩
  · refine ⟨dblOfRat false (decVal (ip ++ fp) 0) (10 ^ fp.length), ?_, ?_⟩
    · rw [hdot]
      exact set_time_double_plainQ env hs ip fp hip hne hfp hvpos (by rw [hq]; exact hlo) (by rw [hq]; exact hhi)
    · rw [hgetter, fmtG_of_rounded _ _ hvpos hpow D X hD1 hD2 hX1 hX2 hq]
  · subst hfp0
    simp only [List.append_nil, List.length_nil, Nat.pow_zero] at hq hvpos
    refine ⟨dblOfRat false (decVal ip 0) 1, ?_, ?_⟩
    · rw [hnodot]
      exact set_time_double_intQ env hs ip hip hne hvpos (by rw [hq]; exact hlo) (by rw [hq]; exact hhi)
    · rw [hgetter, fmtG_of_rounded _ _ hvpos (by norm_num) D X hD1 hD2 hX1 hX2 hq]


/-! ## more than six significant digits: the getter rounds, the round trip is stable after one step -/

/-- for any value in `[1/2, 999999.4]`, `sixDigits` yields six digits and an exponent in `[-1, 5]` -/
theorem sixDigits_exists (n d : Nat) (hn : 0 < n) (hd : 0 < d) (hlo : (1 : ℚ) / 2 ≤ (n : ℚ) / d)
    (hhi : (n : ℚ) / d ≤ 9999994 / 10) :
    ∃ D X, sixDigits n d = (D, X) ∧ 100000 ≤ D ∧ D < 1000000 ∧ (-1 : Int) ≤ X ∧ X ≤ 5 := by
  -- the true decimal exponent
  obtain ⟨X0, hX0a, hX0b, hl, hh⟩ : ∃ X0 : Int, -1 ≤ X0 ∧ X0 ≤ 5 ∧ (10 : ℚ) ^ X0 ≤ (n : ℚ) / d ∧
      (n : ℚ) / d < 10 ^ (X0 + 1) := by
    have p : ∀ k : Int, (10 : ℚ) ^ k = 10 ^ k := fun _ => rfl
    by_cases h0 : (n : ℚ) / d < 1
    · exact ⟨-1, by norm_num, by norm_num, by norm_num; linarith, by norm_num; exact h0⟩
    by_cases h1 : (n : ℚ) / d < 10
    · exact ⟨0, by norm_num, by norm_num, by norm_num; linarith, by norm_num; exact h1⟩
    by_cases h2 : (n : ℚ) / d < 100
    · exact ⟨1, by norm_num, by norm_num, by norm_num; linarith, by norm_num; exact h2⟩
    by_cases h3 : (n : ℚ) / d < 1000
    · exact ⟨2, by norm_num, by norm_num, by norm_num; linarith, by norm_num; exact h3⟩
    by_cases h4 : (n : ℚ) / d < 10000
    · exact ⟨3, by norm_num, by norm_num, by norm_num; linarith, by norm_num; exact h4⟩
    by_cases h5 : (n : ℚ) / d < 100000
    · exact ⟨4, by norm_num, by norm_num, by norm_num; linarith, by norm_num; exact h5⟩
    · exact ⟨5, by norm_num, by norm_num, by norm_num; linarith, by norm_num; linarith⟩
  have hu := ten_zpow_pos (X0 - 5)
  have e5 : (10 : ℚ) ^ X0 = 100000 * 10 ^ (X0 - 5) := by
    have : X0 = 5 + (X0 - 5) := by ring
    conv => lhs; rw [this, ten_zpow_add]
    norm_num
  have e6 : (10 : ℚ) ^ (X0 + 1) = 1000000 * 10 ^ (X0 - 5) := by
    have : X0 + 1 = 6 + (X0 - 5) := by ring
    rw [this, ten_zpow_add]; norm_num
  obtain ⟨t, ht⟩ : ∃ t : ℚ, t = (n : ℚ) / d / 10 ^ (X0 - 5) := ⟨_, rfl⟩
  have hw : (n : ℚ) / d = t * 10 ^ (X0 - 5) := by rw [ht]; field_simp
  have ht1 : (100000 : ℚ) ≤ t := by
    rw [hw, e5] at hl; exact le_of_mul_le_mul_right hl hu
  have ht2 : t < 1000000 := by
    rw [hw, e6] at hh; exact lt_of_mul_lt_mul_right hh hu.le
  have hr := roundDiv10_spec n d (X0 - 5) hd
  rw [← ht] at hr
  have hr' := abs_le.mp hr
  have hdg1 : 100000 ≤ roundDiv10 n d (X0 - 5) := by
    have : (99999 : ℚ) < ((roundDiv10 n d (X0 - 5) : Nat) : ℚ) := by linarith [hr'.1]
    have : 99999 < roundDiv10 n d (X0 - 5) := by exact_mod_cast this
    omega
  have hdg2 : roundDiv10 n d (X0 - 5) ≤ 1000000 := by
    have : ((roundDiv10 n d (X0 - 5) : Nat) : ℚ) < 1000001 := by linarith [hr'.2]
    have : roundDiv10 n d (X0 - 5) < 1000001 := by exact_mod_cast this
    omega
  unfold sixDigits
  rw [exp10_spec n d hn hd X0 hl hh]
  by_cases hc : roundDiv10 n d (X0 - 5) ≥ 1000000
  · have heq : roundDiv10 n d (X0 - 5) = 1000000 := by omega
    -- a carry at X0 = 5 would need t ≥ 999999.5, excluded by the upper bound
    have hX5 : X0 ≤ 4 := by
      by_contra hcon
      have hX : X0 = 5 := by omega
      subst hX
      have : (10 : ℚ) ^ ((5 : Int) - 5) = 1 := by norm_num
      rw [this] at hw
      have : ((1000000 : Nat) : ℚ) - t ≤ 1 / 2 := by rw [← heq]; linarith [hr'.2]
      push_cast at this
      linarith
    refine ⟨100000, X0 + 1, ?_, by norm_num, by norm_num, by omega, by omega⟩
    simp [heq]
  · refine ⟨roundDiv10 n d (X0 - 5), X0, ?_, hdg1, by omega, hX0a, hX0b⟩
    simp [hc]

/-- what `cf_get_time_usec` prints for ANY `n` from 1 s to 999999 s: six digits and an exponent
    chosen by `%g`; feeding the text back stores `n' = D·10^(X+1)`, for which the getter prints
    the same text and which is then reproduced exactly: get ∘ set ∘ get = get. -/
theorem time_usec_get_set_stable (env : Env) (hs : env.strtod = strtodC) (hg : env.fmtG = fmtG)
    (n : Nat) (h1 : 1000000 ≤ n) (h2 : n ≤ 999999000000) :
    ∃ n' : Nat,
      (applyGetter env .timeUsec (some (.usec n))).bind (applySetter env .timeUsec) = some (.usec n') ∧
      applyGetter env .timeUsec (some (.usec n')) = applyGetter env .timeUsec (some (.usec n)) ∧
      (applyGetter env .timeUsec (some (.usec n'))).bind (applySetter env .timeUsec) = some (.usec n') := by
  have hn0 : 0 < n := by omega
  have hN1 : (1000000 : ℚ) ≤ n := by exact_mod_cast h1
  have hN2 : (n : ℚ) ≤ 999999000000 := by exact_mod_cast h2
  -- the two roundings of the getter
  obtain ⟨r1, hr1, hm1, herr1⟩ := roundRat_spec n 1 hn0 (by norm_num)
    (lo_ok (by push_cast; linarith)) (hi_ok (by push_cast; linarith))
  rw [u53] at herr1
  have hx1 := abs_le.mp herr1
  push_cast at hx1
  obtain ⟨hb1, hval1⟩ := ratOf_val r1.m r1.e
  obtain ⟨x1, hx1d⟩ : ∃ x1 : ℚ, x1 = (r1.m : ℚ) * 2 ^ r1.e := ⟨_, rfl⟩
  rw [← hx1d] at hx1 hval1
  have hb1n : 0 < (ratOf r1.m r1.e).2 := by exact_mod_cast hb1
  have ha1 : 0 < (ratOf r1.m r1.e).1 := by
    have hpos : (0 : ℚ) < x1 := by linarith [hx1.1]
    rw [← hval1] at hpos
    have := (div_pos_iff_of_pos_right hb1).mp hpos
    exact_mod_cast this
  have hv2 : ((ratOf r1.m r1.e).1 : ℚ) / (((ratOf r1.m r1.e).2 * 1000000 : Nat) : ℚ) = x1 / 1000000 := by
    rw [← hval1]; push_cast; field_simp
  obtain ⟨r2, hr2, hm2, herr2⟩ := roundRat_spec (ratOf r1.m r1.e).1 ((ratOf r1.m r1.e).2 * 1000000) ha1
    (by positivity)
    (lo_ok (by rw [hv2]; linarith [hx1.1])) (hi_ok (by rw [hv2]; linarith [hx1.2]))
  rw [hv2, u53] at herr2
  have hx2 := abs_le.mp herr2
  obtain ⟨hb2, hval2⟩ := ratOf_val r2.m r2.e
  obtain ⟨x2, hx2d⟩ : ∃ x2 : ℚ, x2 = (r2.m : ℚ) * 2 ^ r2.e := ⟨_, rfl⟩
  rw [← hx2d] at hx2 hval2
  have hb2n : 0 < (ratOf r2.m r2.e).2 := by exact_mod_cast hb2
  have ha2 : 0 < (ratOf r2.m r2.e).1 := by
    have hpos : (0 : ℚ) < x2 := by linarith [hx2.1, hx1.1]
    rw [← hval2] at hpos
    have := (div_pos_iff_of_pos_right hb2).mp hpos
    exact_mod_cast this
  obtain ⟨D, X, hsix, hD1, hD2, hXa, hXb⟩ := sixDigits_exists _ _ ha2 hb2n
    (by rw [hval2]; linarith [hx2.1, hx1.1]) (by rw [hval2]; linarith [hx2.2, hx1.2])
  -- what the getter prints for n
  have hget : fmtG (dblOfNat n).divUsec = layoutG D X := by
    have e1 : dblOfNat n = .fin false r1.m r1.e := dblOfRat_some false n 1 r1 hr1
    have e2 : (Dbl.fin false r1.m r1.e).divUsec = .fin false r2.m r2.e := by
      show dblOfRat false (ratOf r1.m r1.e).1 ((ratOf r1.m r1.e).2 * 1000000) = _
      exact dblOfRat_some false _ _ r2 hr2
    rw [e1, e2]
    have hm0 : (r2.m == 0) = false := by
      have : 0 < 2 ^ 52 := by norm_num
      simp; omega
    show signBytes false ++ (if (r2.m == 0) = true then [48] else fmtGPos (ratOf r2.m r2.e).1 (ratOf r2.m r2.e).2) = _
    rw [hm0]
    simp only [Bool.false_eq_true, if_false, signBytes, List.nil_append]
    unfold fmtGPos
    rw [hsix]
  -- the value read back
  have hX1 : 0 ≤ X + 1 := by omega
  have hn' : D * 10 ^ (X + 1).toNat * 100000 = D * 10 ^ (X + 6).toNat := by
    have : (X + 6).toNat = (X + 1).toNat + 5 := by omega
    rw [this, Nat.pow_add]; ring
  have hrt := time_usec_roundtrip env hs hg (D * 10 ^ (X + 1).toNat) D X hD1 hD2 (by omega) hXb hn'
  have hn40 : D * 10 ^ (X + 1).toNat < 2 ^ 40 := by
    have h1 : 10 ^ (X + 1).toNat ≤ 10 ^ 6 := Nat.pow_le_pow_right (by norm_num) (by omega)
    have h2 : D * 10 ^ (X + 1).toNat ≤ 999999 * 10 ^ 6 := Nat.mul_le_mul (by omega) h1
    norm_num at h2 ⊢
    omega
  have hget' := get_time_usec_layout (D * 10 ^ (X + 1).toNat) D X hD1 hD2 (by omega) hn' hn40
  have hG : ∀ m, applyGetter env .timeUsec (some (.usec m)) = some (fmtG (dblOfNat m).divUsec) := by
    intro m; show some (env.fmtG (dblOfNat (asUsec (some (.usec m)))).divUsec) = _; rw [hg]; rfl
  refine ⟨D * 10 ^ (X + 1).toNat, ?_, ?_, hrt⟩
  · rw [hG, hget]
    simp only [Option.bind_some]
    exact layoutG_set env hs D X _ hD1 hD2 (by omega) hXb hn' hn40
  · rw [hG, hG, hget, hget']

end UsualProofs.C18
