import UsualProofs.C18.ConfigP
/-!
# C18 — whole-file theorems about `cf_load_file`: invariants of any load, the load as a fold of
`load_handler` over the items of the line grammar, CF_NO_RELOAD across a second load
-/
namespace UsualProofs.C18
open Usual.C18

variable {σ δ : Type}

/-! ## an invariant of the handler is an invariant of the whole parse (includes and all) -/

theorem runItems_inv (P : σ → Prop) (incl : Bytes → σ → σ × Option Err) (h : σ → Event → σ × Bool)
    (level : Nat) (hh : ∀ st ev, P st → P (h st ev).1) (hincl : ∀ nm st, P st → P (incl nm st).1) :
    ∀ (is : List Item) (st : σ), P st → P (runItems incl h level is st).1 := by
  intro is
  induction is with
  | nil => intro st h0; simpa [runItems] using h0
  | cons it is ih =>
    intro st h0
    cases it with
    | sect n =>
      have := hh st (.sect n) h0
      simp only [runItems]
      rcases hx : h st (Event.sect n) with ⟨st', _ | _⟩
      · rw [hx] at this; simpa using this
      · rw [hx] at this; simpa using ih st' this
    | kv k v =>
      have := hh st (.kv k v) h0
      simp only [runItems]
      rcases hx : h st (Event.kv k v) with ⟨st', _ | _⟩
      · rw [hx] at this; simpa using this
      · rw [hx] at this; simpa using ih st' this
    | incl f =>
      simp only [runItems]
      by_cases hl : level ≥ MAX_INCLUDE
      · simpa [hl] using h0
      · simp only [hl, if_false]
        have := hincl f st h0
        rcases hx : incl f st with ⟨st', _ | e⟩
        · rw [hx] at this; simpa using ih st' this
        · rw [hx] at this; simpa using this

theorem runLines_inv (P : σ → Prop) (incl : Bytes → σ → σ × Option Err) (h : σ → Event → σ × Bool)
    (level : Nat) (hh : ∀ st ev, P st → P (h st ev).1) (hincl : ∀ nm st, P st → P (incl nm st).1) :
    ∀ (ls : List Bytes) (st : σ), P st → P (runLines incl h level ls st).1 := by
  intro ls
  induction ls with
  | nil => intro st h0; simpa [runLines] using h0
  | cons l ls ih =>
    intro st h0
    have h1 := runItems_inv P incl h level hh hincl (lineItems (l.length + 1) l).1 st h0
    simp only [runLines]
    rcases hx : runItems incl h level (lineItems (l.length + 1) l).1 st with ⟨st', _ | e, f⟩
    · rw [hx] at h1
      simp only []
      by_cases hw : (lineItems (l.length + 1) l).2 = true
      · simpa [hw] using ih st' h1
      · simpa [hw] using h1
    · rw [hx] at h1; exact h1

theorem specFile_inv (P : σ → Prop) (fs : Bytes → Option Bytes) (h : σ → Event → σ × Bool)
    (hh : ∀ st ev, P st → P (h st ev).1) :
    ∀ (depth : Nat) (name : Bytes) (level : Nat) (st : σ), P st → P (specFile fs h depth name level st).1 := by
  intro depth
  induction depth with
  | zero => intro name level st h0; simpa [specFile] using h0
  | succ d ih =>
    intro name level st h0
    unfold specFile
    cases hf : fs name with
    | none => simpa using h0
    | some content =>
      simp only []
      exact runLines_inv P _ h level hh (fun nm s hs => ih nm (level + 1) s hs) (fileLines content) st h0

/-- whatever every call of the handler preserves, `parse_ini_file` preserves -/
theorem parseIni_inv (P : σ → Prop) (fs : Bytes → Option Bytes) (h : σ → Event → σ × Bool)
    (hh : ∀ st ev, P st → P (h st ev).1) (name : Bytes) (st : σ) (h0 : P st) :
    P (parseIni fs h name st).1 := by
  unfold parseIni
  rw [scanFile_eq_spec]
  exact specFile_inv P fs h hh _ name 0 st h0

/-! ## CF_NO_RELOAD across a second load -/

theorem findSectFrom_mem : ∀ (l : List (Sect δ)) (i : Nat) (name : Bytes) (j : Nat) (s : Sect δ),
    findSectFrom l i name = some (j, s) → s ∈ l := by
  intro l
  induction l with
  | nil => intro i name j s h; simp [findSectFrom] at h
  | cons a t ih =>
    intro i name j s h
    unfold findSectFrom at h
    by_cases hc : (a.name == name || a.name == [42]) = true
    · simp only [hc, if_true, Option.some.injEq, Prod.mk.injEq] at h
      rw [← h.2]; simp
    · simp only [hc, Bool.false_eq_true, if_false] at h
      exact List.mem_cons_of_mem a (ih _ _ _ _ h)

theorem findKey_mem : ∀ (l : List Key) (key : Bytes) (k : Key), findKey l key = some k → k ∈ l := by
  intro l
  induction l with
  | nil => intro key k h; simp [findKey] at h
  | cons a t ih =>
    intro key k h
    unfold findKey at h
    by_cases hc : (a.name == key) = true
    · simp only [hc, if_true, Option.some.injEq] at h
      rw [← h]; simp
    · simp only [hc, Bool.false_eq_true, if_false] at h
      exact List.mem_cons_of_mem a (ih _ _ h)

/-- the location `loc` can only be written through keys that `cf_set` ignores once the
    configuration is loaded (CF_NO_RELOAD), or ignores always (CF_READONLY / no setter) -/
def FrozenAt (cf : Cf δ) (loc : Loc) : Prop :=
  ∀ s ∈ cf.sects, ∀ k ∈ s.keys, ∀ base, getDest base k = some loc →
    k.noReload = true ∨ k.readOnly = true ∨ k.setter = none

theorem note_read (st : Store δ) (e : CfErr) (loc : Loc) : (st.note e).read loc = st.read loc := by
  unfold Store.note Store.read
  cases st.log <;> rfl

theorem cfSet_frozen (env : Env) (cf : Cf δ) (hl : cf.loaded = true) (loc : Loc) (hf : FrozenAt cf loc)
    (st : Store δ) (sect key val : Bytes) :
    (cfSet env cf st sect key val).1.read loc = st.read loc := by
  unfold cfSet
  cases hs : findSect cf sect with
  | none => simp [note_read]
  | some p =>
    obtain ⟨i, s⟩ := p
    have hsm : s ∈ cf.sects := findSectFrom_mem cf.sects 0 sect i s hs
    simp only []
    cases hd : s.setKey with
    | some f => simp only []; rfl
    | none =>
      simp only []
      cases hk : findKey s.keys key with
      | none => simp [note_read]
      | some k =>
        have hkm := findKey_mem s.keys key k hk
        simp only []
        cases hst : k.setter with
        | none => rfl
        | some ty =>
          simp only []
          by_cases hro : k.readOnly = true
          · simp [hro]
          · by_cases hnr : k.noReload = true
            · simp [hro, hnr, hl]
            · simp only [hro, hnr, Bool.false_and, Bool.false_eq_true, if_false]
              cases hdst : getDest (sectBase cf s sect) k with
              | none => simp [note_read]
              | some l' =>
                simp only []
                have hne : loc ≠ l' := by
                  intro e
                  subst e
                  rcases hf s hsm k hkm _ hdst with h1 | h1 | h1
                  · exact hnr h1
                  · exact hro h1
                  · rw [hst] at h1; cases h1
                cases applySetter env ty val with
                | none =>
                  simp only []
                  by_cases hfile : (ty == Ty.file) = true
                  · simp [hfile, note_read]
                  · simp [hfile]
                | some v => simp only []; exact read_write_other st l' loc v hne

theorem setDefaults_frozen (env : Env) (cf : Cf δ) (hl : cf.loaded = true) (loc : Loc)
    (hf : FrozenAt cf loc) (sect : Bytes) :
    ∀ (ks : List Key) (st : Store δ), (setDefaults env cf sect ks st).1.read loc = st.read loc := by
  intro ks
  induction ks with
  | nil => intro st; rfl
  | cons k t ih =>
    intro st
    unfold setDefaults
    cases hd : k.dflt with
    | none => simpa using ih st
    | some d =>
      simp only []
      by_cases hro : k.readOnly = true
      · simpa [hro] using ih st
      · by_cases hnr : (k.noReload && cf.loaded) = true
        · simpa [hro, hnr] using ih st
        · simp only [hro, hnr, Bool.false_eq_true, if_false]
          have h1 := cfSet_frozen env cf hl loc hf st sect k.name d
          rcases hx : cfSet env cf st sect k.name d with ⟨st', _ | _⟩
          · rw [hx] at h1; simpa [note_read] using h1
          · rw [hx] at h1; simp only [if_true]; rw [ih st', h1]

theorem loadHandler_frozen (env : Env) (cf : Cf δ) (hl : cf.loaded = true) (loc : Loc)
    (hf : FrozenAt cf loc) (ld : Loader δ) (ev : Event) :
    (loadHandler env cf ld ev).1.store.read loc = ld.store.read loc := by
  cases ev with
  | kv k v =>
    rw [loadHandler_kv]
    cases ld.curSect with
    | none => simp [note_read]
    | some sect => simpa using cfSet_frozen env cf hl loc hf ld.store sect k v
  | sect n =>
    unfold loadHandler fillDefaults
    cases hfs : findSect cf n with
    | none => simp [hfs, note_read]
    | some p =>
      obtain ⟨i, s⟩ := p
      simp only [hfs]
      have hfin : ∀ (cur : Option Bytes) (got : Bool) (st : Store δ),
          (finishDefaults env cf n s cur got st).1.store.read loc = st.read loc := by
        intro cur got st
        unfold finishDefaults
        by_cases hsk : s.setKey.isSome = true
        · simp [hsk]
        · simp only [hsk, Bool.false_eq_true, if_false]
          exact setDefaults_frozen env cf hl loc hf n s.keys st
      cases hss : s.sectionStart with
      | none => simp only []; exact hfin _ _ _
      | some f =>
        simp only []
        rcases hx : f ld.store.user none n with ⟨u, _ | _⟩
        · rfl
        · simp only []; rw [hfin]; rfl

/-- **CF_NO_RELOAD survives a reload**: once `loaded` is set, loading ANY file (defaults,
    explicit `key = value` lines, includes, any outcome) leaves a variable untouched that is
    only reachable through CF_NO_RELOAD / CF_READONLY / setter-less keys. -/
theorem reload_keeps_no_reload (env : Env) (cf : Cf δ) (hl : cf.loaded = true) (loc : Loc)
    (hf : FrozenAt cf loc) (fs : Bytes → Option Bytes) (st : Store δ) (name : Bytes) :
    (cfLoadFile env cf fs st name).1.read loc = st.read loc := by
  have hinv := parseIni_inv (fun ld : Loader δ => ld.store.read loc = st.read loc) fs
    (loadHandler env cf)
    (fun ld ev h0 => by rw [loadHandler_frozen env cf hl loc hf ld ev]; exact h0)
    name { store := st } rfl
  unfold cfLoadFile
  rcases hx : parseIni fs (loadHandler env cf) name { store := st } with ⟨ld, _ | e, f⟩
  · rw [hx] at hinv
    simp only [] at hinv ⊢
    by_cases hg : ld.gotMain = true
    · simpa [hg] using hinv
    · simpa [hg, note_read] using hinv
  · rw [hx] at hinv
    simp only [] at hinv ⊢
    cases f <;> simpa [note_read] using hinv


/-! ## an include-free file: `cf_load_file` is a fold of `load_handler` over the items -/

/-- deliver section and key/value items to the handler until it refuses one -/
def feed (h : σ → Event → σ × Bool) : List Item → σ → σ × Option Err
  | [], st => (st, none)
  | .sect n :: is, st =>
    match h st (.sect n) with
    | (st', true) => feed h is st'
    | (st', false) => (st', some .badSect)
  | .kv k v :: is, st =>
    match h st (.kv k v) with
    | (st', true) => feed h is st'
    | (st', false) => (st', some .badVal)
  | .incl _ :: is, st => feed h is st

def NoIncl (is : List Item) : Prop := ∀ it ∈ is, ∀ f, it ≠ Item.incl f

theorem runItems_feed (incl : Bytes → σ → σ × Option Err) (h : σ → Event → σ × Bool) (level : Nat) :
    ∀ (is : List Item) (st : σ), NoIncl is →
      runItems incl h level is st =
        match feed h is st with
        | (st', none) => (st', none, none)
        | (st', some e) => (st', some e, some e) := by
  intro is
  induction is with
  | nil => intro st _; rfl
  | cons it is ih =>
    intro st hn
    have hrest : NoIncl is := fun x hx f => hn x (by simp [hx]) f
    cases it with
    | sect n =>
      simp only [runItems, feed]
      rcases h st (Event.sect n) with ⟨st', _ | _⟩
      · rfl
      · exact ih st' hrest
    | kv k v =>
      simp only [runItems, feed]
      rcases h st (Event.kv k v) with ⟨st', _ | _⟩
      · rfl
      · exact ih st' hrest
    | incl f => exact absurd rfl (hn (.incl f) (by simp) f)

theorem runLines_feed (incl : Bytes → σ → σ × Option Err) (h : σ → Event → σ × Bool) (level : Nat) :
    ∀ (ls : List Bytes) (st : σ), NoIncl (linesItems ls).1 →
      runLines incl h level ls st =
        match feed h (linesItems ls).1 st with
        | (st', none) => if (linesItems ls).2 then (st', none, none) else (st', some .syntax, some .syntax)
        | (st', some e) => (st', some e, some e) := by
  intro ls
  induction ls with
  | nil => intro st _; rfl
  | cons l ls ih =>
    intro st hn
    unfold runLines linesItems
    by_cases hw : (lineItems (l.length + 1) l).2 = true
    · have hn0 : NoIncl ((lineItems (l.length + 1) l).1 ++ (linesItems ls).1) := by
        simpa [linesItems, hw] using hn
      simp only [hw, if_true]
      have hn := hn0
      have hn1 : NoIncl (lineItems (l.length + 1) l).1 := fun x hx f => hn x (by simp [hx]) f
      have hn2 : NoIncl (linesItems ls).1 := fun x hx f => hn x (by simp [hx]) f
      rw [runItems_feed incl h level _ st hn1]
      have happ : ∀ (a b : List Item) (s0 : σ), feed h (a ++ b) s0 =
          match feed h a s0 with
          | (s1, none) => feed h b s1
          | (s1, some e) => (s1, some e) := by
        intro a
        induction a with
        | nil => intro b s0; rfl
        | cons x a iha =>
          intro b s0
          cases x with
          | sect n =>
            simp only [List.cons_append, feed]
            rcases h s0 (Event.sect n) with ⟨s1, _ | _⟩
            · rfl
            · simpa using iha b s1
          | kv k v =>
            simp only [List.cons_append, feed]
            rcases h s0 (Event.kv k v) with ⟨s1, _ | _⟩
            · rfl
            · simpa using iha b s1
          | incl f => simpa [feed] using iha b s0
      rw [happ]
      rcases feed h (lineItems (l.length + 1) l).1 st with ⟨s1, _ | e⟩
      · simpa using ih s1 hn2
      · rfl
    · have hn' : NoIncl (lineItems (l.length + 1) l).1 := by
        simpa [linesItems, hw] using hn
      simp only [hw, Bool.false_eq_true, if_false]
      rw [runItems_feed incl h level _ st hn']
      rcases feed h (lineItems (l.length + 1) l).1 st with ⟨s1, _ | e⟩ <;> rfl

/-- **`cf_load_file` of an include-free file** = `load_handler` folded over the items of the
    line grammar, then the main-section test -/
theorem cfLoadFile_feed (env : Env) (cf : Cf δ) (fs : Bytes → Option Bytes) (st : Store δ)
    (name content : Bytes) (hfs : fs name = some content) (hn : NoIncl (fileItems content).1) :
    cfLoadFile env cf fs st name =
      match feed (loadHandler env cf) (fileItems content).1 { store := st } with
      | (ld, none) =>
        if (fileItems content).2 then
          (if ld.gotMain then (ld.store, true) else (ld.store.note .mainMissing, false))
        else (ld.store.note (.parse .syntax), false)
      | (ld, some e) => (ld.store.note (.parse e), false) := by
  unfold cfLoadFile parseIni
  rw [scanFile_eq_spec]
  obtain ⟨incl, this⟩ : ∃ incl, specFile fs (loadHandler env cf) (MAX_INCLUDE + 2) name 0 { store := st } =
      runLines incl (loadHandler env cf) 0 (fileLines content) { store := st } := by
    show ∃ incl, specFile fs (loadHandler env cf) ((MAX_INCLUDE + 1) + 1) name 0 { store := st } = _
    rw [specFile]
    simp only [hfs]
    exact ⟨_, rfl⟩
  rw [this, runLines_feed _ _ _ _ _ hn]
  unfold fileItems
  rcases feed (loadHandler env cf) (linesItems (fileLines content)).1 { store := st } with ⟨ld, _ | e⟩
  · simp only []
    by_cases hw : (linesItems (fileLines content)).2 = true
    · simp [hw]
    · simp [hw]
  · rfl


/-! ## the two-line file `[sect]\nkey=val\n` -/

theorem keyCh_facts (c : UInt8) (h : isKeyCh c = true) :
    isSpace c = false ∧ c ≠ 37 ∧ (c.toNat == 35 || c.toNat == 59) = false ∧ (c.toNat == 91) = false ∧
    c ≠ 0 ∧ notNl c = true ∧ isBlank c = false := by
  have h37 : c ≠ 37 := by intro e; subst e; revert h; decide
  have h0 : c ≠ 0 := by intro e; subst e; revert h; decide
  unfold isKeyCh isAlnum at h
  unfold isSpace notNl isBlank
  refine ⟨?_, h37, ?_, ?_, h0, ?_, ?_⟩ <;>
    simp only [Bool.or_eq_true, Bool.and_eq_true, decide_eq_true_eq, beq_iff_eq, Bool.or_eq_false_iff,
      Bool.and_eq_false_iff, decide_eq_false_iff_not, beq_eq_false_iff_ne, bne_iff_ne, ne_eq] at h ⊢ <;>
    omega

theorem eq61_facts : isSpace 61 = false ∧ (61 : UInt8) ≠ 37 ∧ ((61 : UInt8).toNat == 35 || (61 : UInt8).toNat == 59) = false ∧
    ((61 : UInt8).toNat == 91) = false ∧ isKeyCh 61 = false ∧ isBlank 61 = false := by decide

/-- shape of a value the tokenizer returns unchanged -/
structure PlainVal (val : Bytes) : Prop where
  noNl : ∀ c ∈ val, c ≠ 10 ∧ c ≠ 0
  noLead : ∀ c ∈ val.head?, isBlank c = false
  noTrail : trimRight val = val

theorem startsInclude_head (c : UInt8) (t : Bytes) (h : c ≠ 37) : startsInclude (c :: t) = false := by
  unfold startsInclude includeLit
  have : ((c :: t).take 8 == [37, 105, 110, 99, 108, 117, 100, 101]) = false := by
    rw [show (c :: t).take 8 = c :: t.take 7 from rfl]
    apply beq_false_of_ne
    intro e
    simp only [List.cons.injEq] at e
    exact h e.1
  rw [this]; rfl

/-- the items of `key=val` on one line -/
theorem lineItems_kv (f : Nat) (key val : Bytes) (hk : ∀ c ∈ key, isKeyCh c = true) (hv : PlainVal val) :
    lineItems (f + 1) (key ++ 61 :: val) = ([.kv key val], true) := by
  have hdk : (key ++ 61 :: val).dropWhile isKeyCh = 61 :: val := by
    rw [List.dropWhile_append_of_pos hk]; simp [eq61_facts.2.2.2.2.1]
  have htk : (key ++ 61 :: val).takeWhile isKeyCh = key := by
    rw [List.takeWhile_append_of_pos hk]; simp [eq61_facts.2.2.2.2.1]
  have hvb : val.dropWhile isBlank = val := by
    cases val with
    | nil => rfl
    | cons c t => simp [hv.noLead c (by simp)]
  -- the head of the line: a key character or '='
  obtain ⟨c, t, hct, hq⟩ : ∃ c t, key ++ 61 :: val = c :: t ∧
      (isSpace c = false ∧ c ≠ 37 ∧ (c.toNat == 35 || c.toNat == 59) = false ∧ (c.toNat == 91) = false) := by
    cases key with
    | nil => exact ⟨61, val, rfl, eq61_facts.1, eq61_facts.2.1, eq61_facts.2.2.1, eq61_facts.2.2.2.1⟩
    | cons k0 kt =>
      have := keyCh_facts k0 (hk k0 (by simp))
      exact ⟨k0, kt ++ 61 :: val, rfl, this.1, this.2.1, this.2.2.1, this.2.2.2.1⟩
  unfold lineItems
  have hds : (key ++ 61 :: val).dropWhile isSpace = key ++ 61 :: val := by
    rw [hct]; simp [hq.1]
  simp only [hds]
  rw [hct] at hdk htk ⊢
  have hdb : (61 :: val).dropWhile isBlank = 61 :: val := by simp [eq61_facts.2.2.2.2.2]
  simp only [startsInclude_head c t hq.2.1, Bool.false_eq_true, if_false, hq.2.2.1, hq.2.2.2, hdk, htk,
    hdb]
  simp [hvb, hv.noTrail]

/-- the items of `[sect]` on one line -/
theorem lineItems_sect (f : Nat) (sect : Bytes) (hs : ∀ c ∈ sect, c ≠ 93) :
    lineItems (f + 2) (91 :: sect ++ [93]) = ([.sect sect], true) := by
  have hp : ∀ c ∈ sect, (fun x : UInt8 => x.toNat != 93) c = true := by
    intro c hc
    have := hs c hc
    simp only [bne_iff_ne, ne_eq]
    intro e; exact this (UInt8.toNat_inj.mp e)
  have hd : (sect ++ [93]).dropWhile (fun x : UInt8 => x.toNat != 93) = [93] := by
    rw [List.dropWhile_append_of_pos hp]; simp
  have ht : (sect ++ [93]).takeWhile (fun x : UInt8 => x.toNat != 93) = sect := by
    rw [List.takeWhile_append_of_pos hp]; simp
  have h91 : isSpace 91 = false := by decide
  unfold lineItems
  simp only [List.cons_append, List.dropWhile_cons, h91, Bool.false_eq_true, if_false,
    startsInclude_head 91 (sect ++ [93]) (by decide)]
  have e1 : ((91 : UInt8).toNat == 35 || (91 : UInt8).toNat == 59) = false := by decide
  have e2 : ((91 : UInt8).toNat == 91) = true := by decide
  simp only [e1, e2, Bool.false_eq_true, if_false, if_true, hd, ht, lineItems_nil]

theorem fileItems_two_lines (sect key val : Bytes)
    (hs : ∀ c ∈ sect, c ≠ 93 ∧ c ≠ 10 ∧ c ≠ 0) (hk : ∀ c ∈ key, isKeyCh c = true) (hv : PlainVal val) :
    fileItems (91 :: sect ++ [93, 10] ++ key ++ 61 :: val ++ [10]) = ([.sect sect, .kv key val], true) := by
  have hl1 : LineOk (91 :: sect ++ [93]) ∧ NulFree (91 :: sect ++ [93]) := by
    constructor <;> intro c hc <;>
      simp only [List.cons_append, List.mem_cons, List.mem_append, List.not_mem_nil, or_false] at hc
    · rcases hc with rfl | hc | rfl
      · decide
      · have := (hs c hc).2.1
        cases hx : notNl c with
        | true => rfl
        | false => exact absurd ((notNl_iff c).mp hx) this
      · decide
    · rcases hc with rfl | hc | rfl
      · decide
      · exact (hs c hc).2.2
      · decide
  have hl2 : LineOk (key ++ 61 :: val) ∧ NulFree (key ++ 61 :: val) := by
    constructor <;> intro c hc <;> simp only [List.mem_append, List.mem_cons] at hc
    · rcases hc with hc | rfl | hc
      · exact (keyCh_facts c (hk c hc)).2.2.2.2.2.1
      · decide
      · have := (hv.noNl c hc).1
        cases hx : notNl c with
        | true => rfl
        | false => exact absurd ((notNl_iff c).mp hx) this
    · rcases hc with hc | rfl | hc
      · exact (keyCh_facts c (hk c hc)).2.2.2.2.1
      · decide
      · exact (hv.noNl c hc).2
  have e : 91 :: sect ++ [93, 10] ++ key ++ 61 :: val ++ [10] =
      (91 :: sect ++ [93]) ++ 10 :: ((key ++ 61 :: val) ++ 10 :: []) := by simp
  have hnul : (91 :: sect ++ [93, 10] ++ key ++ 61 :: val ++ [10]).takeWhile (· != 0) =
      91 :: sect ++ [93, 10] ++ key ++ 61 :: val ++ [10] := by
    apply takeWhile_all
    intro c hc
    rw [e] at hc
    have hn : NulFree ((91 :: sect ++ [93]) ++ 10 :: ((key ++ 61 :: val) ++ 10 :: [])) :=
      nulFree_append.mpr ⟨hl1.2, nulFree_cons.mpr ⟨by decide,
        nulFree_append.mpr ⟨hl2.2, nulFree_cons.mpr ⟨by decide, nulFree_nil⟩⟩⟩⟩
    simpa using hn c hc
  have hsplit : splitLines (91 :: sect ++ [93, 10] ++ key ++ 61 :: val ++ [10]) =
      [91 :: sect ++ [93], key ++ 61 :: val, []] := by
    rw [e, splitLines_line hl1.1, splitLines_line hl2.1]
    rfl
  unfold fileItems fileLines
  rw [hnul, hsplit]
  have h1 : lineItems ((91 :: sect ++ [93]).length + 1) (91 :: sect ++ [93]) = ([.sect sect], true) := by
    have : (91 :: sect ++ [93]).length + 1 = (sect.length + 1) + 2 := by simp
    rw [this]
    exact lineItems_sect _ sect (fun c hc => (hs c hc).1)
  have h2 := lineItems_kv (key ++ 61 :: val).length key val hk hv
  have h3 : lineItems (([] : Bytes).length + 1) [] = ([], true) := lineItems_nil 0
  unfold linesItems
  rw [h1]
  unfold linesItems
  rw [h2]
  unfold linesItems
  rw [h3]
  rfl


/-! ## loading the two-line file through any schema -/

theorem finishDefaults_cur (env : Env) (cf : Cf δ) (sect : Bytes) (s : Sect δ) (cur : Option Bytes)
    (got : Bool) (st : Store δ) : (finishDefaults env cf sect s cur got st).1.curSect = cur := by
  unfold finishDefaults
  split <;> rfl

theorem loadHandler_sect_cur (env : Env) (cf : Cf δ) (ld : Loader δ) (n : Bytes) :
    (loadHandler env cf ld (.sect n)).1.curSect = some n := by
  unfold loadHandler fillDefaults
  cases hf : findSect cf n with
  | none => simp [hf]
  | some p =>
    obtain ⟨i, s⟩ := p
    cases hs : s.sectionStart with
    | none => simp only [hf, hs, finishDefaults_cur]
    | some f =>
      simp only [hf, hs]
      rcases hx : f ld.store.user none n with ⟨u, _ | _⟩
      · simp only [hx]
      · simp only [hx, finishDefaults_cur]

/-- **`cf_load_file` of `[sect]\nkey=val\n`**, any schema: the section event (defaults,
    section_start), then `cf_set(sect, key, val)` on the resulting store, then the main-section
    test -/
theorem cfLoadFile_two_lines (env : Env) (cf : Cf δ) (fs : Bytes → Option Bytes) (st : Store δ)
    (name sect key val : Bytes)
    (hfs : fs name = some (91 :: sect ++ [93, 10] ++ key ++ 61 :: val ++ [10]))
    (hs : ∀ c ∈ sect, c ≠ 93 ∧ c ≠ 10 ∧ c ≠ 0) (hk : ∀ c ∈ key, isKeyCh c = true) (hv : PlainVal val) :
    cfLoadFile env cf fs st name =
      match loadHandler env cf { store := st } (.sect sect) with
      | (ld1, false) => (ld1.store.note (.parse .badSect), false)
      | (ld1, true) =>
        match cfSet env cf ld1.store sect key val with
        | (st2, false) => (st2.note (.parse .badVal), false)
        | (st2, true) => if ld1.gotMain then (st2, true) else (st2.note .mainMissing, false) := by
  have hit := fileItems_two_lines sect key val hs hk hv
  have hn : NoIncl (fileItems (91 :: sect ++ [93, 10] ++ key ++ 61 :: val ++ [10])).1 := by
    rw [hit]
    intro it hit' f
    simp only [List.mem_cons, List.not_mem_nil, or_false] at hit'
    rcases hit' with rfl | rfl <;> simp
  rw [cfLoadFile_feed env cf fs st name _ hfs hn, hit]
  simp only [feed]
  have hcur := loadHandler_sect_cur env cf { store := st } sect
  rcases hx : loadHandler env cf { store := st } (Event.sect sect) with ⟨ld1, _ | _⟩
  · rfl
  · rw [hx] at hcur
    simp only [] at hcur ⊢
    rw [loadHandler_kv, hcur]
    simp only []
    rcases hy : cfSet env cf ld1.store sect key val with ⟨st2, _ | _⟩
    · rfl
    · simp

theorem setDefaults_nodflt (env : Env) (cf : Cf δ) (sect : Bytes) :
    ∀ (ks : List Key) (st : Store δ), (∀ k ∈ ks, k.dflt = none) → setDefaults env cf sect ks st = (st, true) := by
  intro ks
  induction ks with
  | nil => intro st _; rfl
  | cons k t ih =>
    intro st h
    unfold setDefaults
    rw [h k (by simp)]
    exact ih st (fun x hx => h x (by simp [hx]))

end UsualProofs.C18
