import UsualProofs.C18.Scan
import UsualProofs.C18.NumP
/-!
# C18 — `cf_set` / `cf_get` / `cf_load_file`: decision logic over an abstract schema
-/
namespace UsualProofs.C18
open Usual.C18

variable {δ : Type}

/-! ## memory -/

theorem lookup_filter_ne (l' l : Loc) (h : l' ≠ l) (m : List (Loc × Val)) :
    (m.filter (fun p => !(p.1 == l))).lookup l' = m.lookup l' := by
  induction m with
  | nil => rfl
  | cons p t ih =>
    obtain ⟨a, v⟩ := p
    by_cases ha : a = l
    · subst ha
      have : (l' == a) = false := by simpa using h
      simp [List.filter_cons, List.lookup, this, ih]
    · have h1 : (a == l) = false := by simpa using ha
      by_cases hb : l' = a
      · subst hb; simp [List.filter_cons, h1, List.lookup]
      · have h2 : (l' == a) = false := by simpa using hb
        simp [List.filter_cons, h1, List.lookup, h2, ih]

theorem read_write_same (st : Store δ) (l : Loc) (v : Val) : (st.write l v).read l = some v := by
  simp [Store.read, Store.write, List.lookup]

theorem read_write_other (st : Store δ) (l l' : Loc) (v : Val) (h : l' ≠ l) :
    (st.write l v).read l' = st.read l' := by
  have h1 : (l' == l) = false := by simpa using h
  simp [Store.read, Store.write, List.lookup, h1, lookup_filter_ne l' l h]

/-! ## cf_set / cf_get on a fixed key -/

/-- the conditions under which `cf_set` reaches the setter of key `k` of section `s` -/
structure Reaches (cf : Cf δ) (sect key : Bytes) (s : Sect δ) (k : Key) (i : Nat) : Prop where
  sect : findSect cf sect = some (i, s)
  static : s.setKey = none
  key : findKey s.keys key = some k

theorem cfSet_stores (env : Env) (cf : Cf δ) (st : Store δ) {sect key : Bytes} {s : Sect δ} {k : Key}
    {i : Nat} (hr : Reaches cf sect key s k i) {ty : Ty} (hty : k.setter = some ty)
    (hro : k.readOnly = false) (hnr : (k.noReload && cf.loaded) = false)
    {loc : Loc} (hd : getDest (sectBase cf s sect) k = some loc) (val : Bytes) :
    cfSet env cf st sect key val =
      match applySetter env ty val with
      | some v => (st.write loc v, true)
      | none => (if ty == .file then st.note .expand else st, false) := by
  unfold cfSet
  simp only [hr.sect, hr.static, hr.key, hty, hro, hnr, hd, Bool.false_eq_true, if_false]
  cases applySetter env ty val <;> rfl

theorem cfGet_reads (env : Env) (cf : Cf δ) (st : Store δ) {sect key : Bytes} {s : Sect δ} {k : Key}
    {i : Nat} (hr : Reaches cf sect key s k i) {gty : Ty} (hty : k.getter = some gty)
    {loc : Loc} (hd : getDest (sectBase cf s sect) k = some loc) :
    cfGet env cf st sect key = applyGetter env gty (st.read loc) := by
  unfold cfGet
  simp only [hr.sect, hr.static, hr.key, hty, hd]

/-- `cf_set` then `cf_get` of the same key: the getter renders the value the setter stored -/
theorem set_then_get (env : Env) (cf : Cf δ) (st : Store δ) {sect key : Bytes} {s : Sect δ} {k : Key}
    {i : Nat} (hr : Reaches cf sect key s k i) {ty gty : Ty} (hs : k.setter = some ty)
    (hg : k.getter = some gty) (hro : k.readOnly = false) (hnr : (k.noReload && cf.loaded) = false)
    {loc : Loc} (hd : getDest (sectBase cf s sect) k = some loc) {val : Bytes} {v : Val}
    (hv : applySetter env ty val = some v) :
    (cfSet env cf st sect key val).2 = true ∧
    cfGet env cf (cfSet env cf st sect key val).1 sect key = applyGetter env gty (some v) := by
  rw [cfSet_stores env cf st hr hs hro hnr hd val, hv]
  refine ⟨rfl, ?_⟩
  rw [cfGet_reads env cf _ hr hg hd, read_write_same]

/-- a refused value leaves the variable alone -/
theorem set_rejected_keeps (env : Env) (cf : Cf δ) (st : Store δ) {sect key : Bytes} {s : Sect δ}
    {k : Key} {i : Nat} (hr : Reaches cf sect key s k i) {ty : Ty} (hs : k.setter = some ty)
    (hro : k.readOnly = false) (hnr : (k.noReload && cf.loaded) = false)
    {loc : Loc} (hd : getDest (sectBase cf s sect) k = some loc) {val : Bytes}
    (hv : applySetter env ty val = none) :
    (cfSet env cf st sect key val).2 = false ∧ (cfSet env cf st sect key val).1.mem = st.mem := by
  rw [cfSet_stores env cf st hr hs hro hnr hd val, hv]
  refine ⟨rfl, ?_⟩
  by_cases h : (ty == Ty.file) = true
  · simp only [h, if_true, Store.note]; cases st.log <;> rfl
  · simp [h]

theorem readonly_ignored' (env : Env) (cf : Cf δ) (st : Store δ) {sect key : Bytes} {s : Sect δ}
    {k : Key} {i : Nat} (hr : Reaches cf sect key s k i) (hro : k.readOnly = true) (val : Bytes) :
    cfSet env cf st sect key val = (st, true) := by
  unfold cfSet
  simp only [hr.sect, hr.static, hr.key, hro]
  cases k.setter <;> simp

theorem no_reload_ignored' (env : Env) (cf : Cf δ) (st : Store δ) {sect key : Bytes} {s : Sect δ}
    {k : Key} {i : Nat} (hr : Reaches cf sect key s k i) (hnr : k.noReload = true)
    (hl : cf.loaded = true) (val : Bytes) :
    cfSet env cf st sect key val = (st, true) := by
  unfold cfSet
  simp only [hr.sect, hr.static, hr.key, hnr, hl]
  cases k.setter <;> simp

theorem no_setter_ignored (env : Env) (cf : Cf δ) (st : Store δ) {sect key : Bytes} {s : Sect δ}
    {k : Key} {i : Nat} (hr : Reaches cf sect key s k i) (hs : k.setter = none) (val : Bytes) :
    cfSet env cf st sect key val = (st, true) := by
  unfold cfSet
  simp only [hr.sect, hr.static, hr.key, hs]

theorem unknown_sect (env : Env) (cf : Cf δ) (st : Store δ) {sect : Bytes} (h : findSect cf sect = none)
    (key val : Bytes) :
    cfSet env cf st sect key val = (st.note .unknownSect, false) ∧ cfGet env cf st sect key = none := by
  unfold cfSet cfGet; simp [h]

theorem unknown_key (env : Env) (cf : Cf δ) (st : Store δ) {sect key : Bytes} {s : Sect δ} {i : Nat}
    (h : findSect cf sect = some (i, s)) (hst : s.setKey = none) (hk : findKey s.keys key = none)
    (val : Bytes) :
    cfSet env cf st sect key val = (st.note .unknownKey, false) ∧ cfGet env cf st sect key = none := by
  unfold cfSet cfGet; simp [h, hst, hk]

theorem no_base (env : Env) (cf : Cf δ) (st : Store δ) {sect key : Bytes} {s : Sect δ} {k : Key}
    {i : Nat} (hr : Reaches cf sect key s k i) {ty : Ty} (hty : k.setter = some ty)
    (hro : k.readOnly = false) (hnr : (k.noReload && cf.loaded) = false) (hrel : k.rel = true)
    (hb : sectBase cf s sect = none) (val : Bytes) :
    cfSet env cf st sect key val = (st.note .noBase, false) := by
  unfold cfSet
  simp [hr.sect, hr.static, hr.key, hty, hro, hnr, getDest, hrel, hb]

/-! ## tilde expansion -/

theorem findIdx_first (p : UInt8 → Bool) : ∀ (a : Bytes) (b : UInt8) (c : Bytes),
    (∀ x ∈ a, p x = false) → p b = true → List.findIdx? p (a ++ b :: c) = some a.length := by
  intro a
  induction a with
  | nil => intro b c _ hb; simp [List.findIdx?_cons, hb]
  | cons x t ih =>
    intro b c ha hb
    have hx : p x = false := ha x (by simp)
    have := ih b c (fun y hy => ha y (by simp [hy])) hb
    simp [List.findIdx?_cons, hx, this]

theorem findIdx_none (p : UInt8 → Bool) : ∀ (a : Bytes), (∀ x ∈ a, p x = false) →
    List.findIdx? p a = none := by
  intro a
  induction a with
  | nil => intro _; rfl
  | cons x t ih =>
    intro ha
    have hx : p x = false := ha x (by simp)
    have := ih (fun y hy => ha y (by simp [hy]))
    simp [List.findIdx?_cons, hx, this]

/-- `~user/rest`: the passwd directory of `user`, then `/rest`; unknown user: failure -/
theorem expandTilde_user (env : Env) (user rest : Bytes) (hu : user ≠ []) (hs : ∀ x ∈ user, x ≠ 47) :
    expandTilde env (126 :: user ++ 47 :: rest) = (env.pwNam user).map (fun d => d ++ 47 :: rest) := by
  have hidx : List.findIdx? (fun x : UInt8 => x == 47) ((126 :: user) ++ 47 :: rest)
      = some (126 :: user).length :=
    findIdx_first _ (126 :: user) 47 rest
      (by intro x hx
          rcases List.mem_cons.mp hx with rfl | hx
          · decide
          · simpa using hs x hx)
      (by decide)
  have hlen : user.length ≠ 0 := fun h => hu (List.eq_nil_of_length_eq_zero h)
  unfold expandTilde
  simp only [List.cons_append] at hidx ⊢
  simp only [hidx, List.length_cons, Nat.add_sub_cancel, bne_iff_ne, ne_eq, hlen, not_false_eq_true,
    if_true, List.drop_succ_cons, List.drop_zero]
  have e1 : (user ++ 47 :: rest).take user.length = user := List.take_left' rfl
  have e2 : (user ++ 47 :: rest).drop user.length = 47 :: rest := List.drop_left' rfl
  rw [e1, e2]
  cases env.pwNam user <;> rfl

/-- `~user` without a slash -/
theorem expandTilde_user_only (env : Env) (user : Bytes) (hu : user ≠ []) (hs : ∀ x ∈ user, x ≠ 47) :
    expandTilde env (126 :: user) = env.pwNam user := by
  have hidx : List.findIdx? (fun x : UInt8 => x == 47) (126 :: user) = none :=
    findIdx_none _ (126 :: user)
      (by intro x hx
          rcases List.mem_cons.mp hx with rfl | hx
          · decide
          · simpa using hs x hx)
  have hlen : user.length ≠ 0 := fun h => hu (List.eq_nil_of_length_eq_zero h)
  unfold expandTilde
  simp only [hidx, List.length_cons, Nat.add_sub_cancel, bne_iff_ne, ne_eq, hlen, not_false_eq_true,
    if_true, List.drop_succ_cons, List.drop_zero]
  have e1 : user.take user.length = user := List.take_length
  have e2 : user.drop user.length = [] := List.drop_length
  rw [e1, e2]
  cases env.pwNam user <;> simp

/-- `~` or `~/rest`: `$HOME`, or the passwd directory of the process's uid when HOME is unset -/
theorem expandTilde_self (env : Env) (rest : Bytes) (hr : rest = [] ∨ rest.head? = some 47) :
    expandTilde env (126 :: rest) =
      (match env.home with | some h => some h | none => env.pwUid).map (fun d => d ++ rest) := by
  unfold expandTilde
  rcases hr with rfl | hr
  · simp [List.findIdx?_cons]
    cases env.home <;> cases env.pwUid <;> rfl
  · cases rest with
    | nil => simp at hr
    | cons c t =>
      have hc : c = 47 := by simpa using hr
      subst hc
      simp [List.findIdx?_cons]
      cases env.home <;> cases env.pwUid <;> rfl

/-! ## lookup tables -/

theorem strcaseEq_trans {a b c : Bytes} (h1 : strcaseEq a b = true) (h2 : strcaseEq c b = true) :
    strcaseEq a c = true := by
  unfold strcaseEq at *
  have e1 := eq_of_beq h1
  have e2 := eq_of_beq h2
  rw [e1, e2]; simp

/-- in a table whose names differ case-insensitively and whose values differ, every spelling
    of a name (any case) sets its value, and the getter renders the name as listed -/
theorem lookup_roundtrip : ∀ (tbl : List (Bytes × Int)),
    tbl.Pairwise (fun a b => strcaseEq a.1 b.1 = false ∧ a.2 ≠ b.2) →
    ∀ n v s, (n, v) ∈ tbl → strcaseEq n s = true →
      lookupSet tbl s = some v ∧ lookupGet tbl v = n := by
  intro tbl
  induction tbl with
  | nil => intro _ n v s h; cases h
  | cons p t ih =>
    intro hp n v s hm hs
    obtain ⟨pn, pv⟩ := p
    rw [List.pairwise_cons] at hp
    rcases List.mem_cons.mp hm with heq | hm'
    · cases heq
      simp [lookupSet, lookupGet, hs]
    · have hd := hp.1 (n, v) hm'
      have h1 : strcaseEq pn s = false := by
        cases hx : strcaseEq pn s with
        | false => rfl
        | true =>
          have := strcaseEq_trans hx hs
          rw [hd.1] at this; cases this
      have h2 : (pv == v) = false := by simpa using hd.2
      have := ih hp.2 n v s hm' hs
      simp [lookupSet, lookupGet, h1, h2, this]

/-! ## the loader -/

/-- what a section event does: find the section, note whether it is the main (first) one, call
    `section_start`, then set every default of the section in key order -/
theorem loadHandler_sect (env : Env) (cf : Cf δ) (ld : Loader δ) (name : Bytes) {s : Sect δ} {i : Nat}
    (h : findSect cf name = some (i, s)) (hss : s.sectionStart = none) (hst : s.setKey = none) :
    loadHandler env cf ld (.sect name) =
      ({ store := (setDefaults env cf name s.keys ld.store).1, curSect := some name,
         gotMain := ld.gotMain || i == 0 },
       (setDefaults env cf name s.keys ld.store).2) := by
  unfold loadHandler fillDefaults finishDefaults
  simp [h, hss, hst]

theorem loadHandler_kv (env : Env) (cf : Cf δ) (ld : Loader δ) (key val : Bytes) :
    loadHandler env cf ld (.kv key val) =
      match ld.curSect with
      | none => ({ ld with store := ld.store.note .noSection }, false)
      | some sect => ({ ld with store := (cfSet env cf ld.store sect key val).1 },
                      (cfSet env cf ld.store sect key val).2) := by
  unfold loadHandler
  cases ld.curSect <;> rfl

theorem loadHandler_unknown_sect (env : Env) (cf : Cf δ) (ld : Loader δ) (name : Bytes)
    (h : findSect cf name = none) : (loadHandler env cf ld (.sect name)).2 = false := by
  unfold loadHandler fillDefaults; simp [h]

/-- a section event names the main section -/
def isMainEv (cf : Cf δ) : Event → Bool
  | .sect n => match findSect cf n with
    | some (i, _) => i == 0
    | none => false
  | .kv _ _ => false

theorem finishDefaults_gotMain (env : Env) (cf : Cf δ) (sect : Bytes) (s : Sect δ) (cur : Option Bytes)
    (got : Bool) (st : Store δ) : (finishDefaults env cf sect s cur got st).1.gotMain = got := by
  unfold finishDefaults
  split <;> rfl

theorem loadHandler_gotMain (env : Env) (cf : Cf δ) (ld : Loader δ) (ev : Event) :
    (loadHandler env cf ld ev).1.gotMain = (ld.gotMain || isMainEv cf ev) := by
  cases ev with
  | kv k v =>
    rw [loadHandler_kv]
    cases ld.curSect <;> simp [isMainEv]
  | sect n =>
    unfold loadHandler fillDefaults isMainEv
    cases hf : findSect cf n with
    | none => simp [hf]
    | some p =>
      obtain ⟨i, s⟩ := p
      cases hs : s.sectionStart with
      | none => simp only [hf, hs, finishDefaults_gotMain]
      | some f =>
        simp only [hf, hs]
        rcases hx : f ld.store.user none n with ⟨u, _ | _⟩
        · simp only [hx]
        · simp only [hx, finishDefaults_gotMain]


/-! ## a configuration without its main section does not load -/

/-- an item that does not open the main (first) section of the schema -/
def NoMainItem (cf : Cf δ) : Item → Prop
  | .sect n => isMainEv cf (.sect n) = false
  | _ => True

/-- no file names the main section -/
def NoMainFs (cf : Cf δ) (fs : Bytes → Option Bytes) : Prop :=
  ∀ name content, fs name = some content → ∀ l ∈ fileLines content,
    ∀ it ∈ (lineItems (l.length + 1) l).1, NoMainItem cf it

theorem runItems_noMain (env : Env) (cf : Cf δ) (incl : Bytes → Loader δ → Loader δ × Option Err)
    (level : Nat) (hincl : ∀ nm ld, ld.gotMain = false → (incl nm ld).1.gotMain = false) :
    ∀ (is : List Item) (ld : Loader δ), (∀ it ∈ is, NoMainItem cf it) → ld.gotMain = false →
      (runItems incl (loadHandler env cf) level is ld).1.gotMain = false := by
  intro is
  induction is with
  | nil => intro ld _ h; simpa [runItems] using h
  | cons it is ih =>
    intro ld hall h0
    have hrest : ∀ x ∈ is, NoMainItem cf x := fun x hx => hall x (by simp [hx])
    cases it with
    | sect n =>
      have hn : isMainEv cf (.sect n) = false := hall (.sect n) (by simp)
      have hg := loadHandler_gotMain env cf ld (.sect n)
      rw [h0, hn] at hg
      simp only [runItems]
      rcases hx : loadHandler env cf ld (Event.sect n) with ⟨ld', _ | _⟩
      · rw [hx] at hg; simpa using hg
      · rw [hx] at hg; simpa using ih ld' hrest (by simpa using hg)
    | kv k v =>
      have hg := loadHandler_gotMain env cf ld (.kv k v)
      rw [h0] at hg
      simp only [runItems]
      rcases hx : loadHandler env cf ld (Event.kv k v) with ⟨ld', _ | _⟩
      · rw [hx] at hg; simpa [isMainEv] using hg
      · rw [hx] at hg; simpa using ih ld' hrest (by simpa [isMainEv] using hg)
    | incl f =>
      simp only [runItems]
      by_cases hl : level ≥ MAX_INCLUDE
      · simpa [hl] using h0
      · simp only [hl, if_false]
        have := hincl f ld h0
        rcases hx : incl f ld with ⟨ld', _ | e⟩
        · rw [hx] at this; simpa using ih ld' hrest this
        · rw [hx] at this; simpa using this

theorem runLines_noMain (env : Env) (cf : Cf δ) (incl : Bytes → Loader δ → Loader δ × Option Err)
    (level : Nat) (hincl : ∀ nm ld, ld.gotMain = false → (incl nm ld).1.gotMain = false) :
    ∀ (ls : List Bytes) (ld : Loader δ),
      (∀ l ∈ ls, ∀ it ∈ (lineItems (l.length + 1) l).1, NoMainItem cf it) → ld.gotMain = false →
      (runLines incl (loadHandler env cf) level ls ld).1.gotMain = false := by
  intro ls
  induction ls with
  | nil => intro ld _ h; simpa [runLines] using h
  | cons l ls ih =>
    intro ld hall h0
    have h1 := runItems_noMain env cf incl level hincl (lineItems (l.length + 1) l).1 ld
      (hall l (by simp)) h0
    simp only [runLines]
    rcases hx : runItems incl (loadHandler env cf) level (lineItems (l.length + 1) l).1 ld
      with ⟨ld', _ | e, f⟩
    · rw [hx] at h1
      simp only []
      by_cases hw : (lineItems (l.length + 1) l).2 = true
      · simpa [hw] using ih ld' (fun x hx => hall x (by simp [hx])) h1
      · simpa [hw] using h1
    · rw [hx] at h1; exact h1

theorem specFile_noMain (env : Env) (cf : Cf δ) (fs : Bytes → Option Bytes) (hfs : NoMainFs cf fs) :
    ∀ (depth : Nat) (name : Bytes) (level : Nat) (ld : Loader δ), ld.gotMain = false →
      (specFile fs (loadHandler env cf) depth name level ld).1.gotMain = false := by
  intro depth
  induction depth with
  | zero => intro name level ld h; simpa [specFile] using h
  | succ d ih =>
    intro name level ld h0
    unfold specFile
    cases hf : fs name with
    | none => simpa using h0
    | some content =>
      simp only []
      exact runLines_noMain env cf _ level (fun nm ld' h' => ih nm (level + 1) ld' h')
        (fileLines content) ld (hfs name content hf) h0

/-- `cf_load_file` fails when no file names the main section -/
theorem load_without_main_fails (env : Env) (cf : Cf δ) (fs : Bytes → Option Bytes) (st : Store δ)
    (name : Bytes) (hfs : NoMainFs cf fs) : (cfLoadFile env cf fs st name).2 = false := by
  unfold cfLoadFile parseIni
  rw [scanFile_eq_spec]
  have := specFile_noMain env cf fs hfs (MAX_INCLUDE + 2) name 0 { store := st } rfl
  rcases hx : specFile fs (loadHandler env cf) (MAX_INCLUDE + 2) name 0 { store := st }
    with ⟨ld, _ | e, f⟩
  · rw [hx] at this
    simp only [] at this ⊢
    simp [this]
  · rfl

end UsualProofs.C18
